#!/usr/bin/env python3
"""Parallel variant of try_seeds.py.

  tools/try_seeds_par.py [-j N] [--thorough-too] [ids…]

Each of N workers lives in its own mount namespace (`unshare -m`) in which a scratch
clone of /repo is bind-mounted AT /repo and a private copy of /verif (without .git and
seeded/) is bind-mounted AT /verif, so the unmodified `./check` — which rebuilds from
/repo's working tree — runs on the seeded change exactly as it would after
`git -C /repo apply`, while the real /repo and /verif are never touched.  Results are
merged into seeded/RESULTS.json.  Scratch copies live under /tmp/seedw and are removed at
the end."""
import json, os, subprocess, sys, glob, shutil, time

ROOT = '/verif'
SCR = '/tmp/seedw'


def sh(cmd, **kw):
    return subprocess.run(cmd, shell=True, capture_output=True, text=True, **kw)


def worker(k, ids, thorough_too):
    """runs inside the mount namespace"""
    assert sh('mount --bind %s/%d/repo /repo' % (SCR, k)).returncode == 0
    assert sh('mount --bind %s/%d/verif /verif' % (SCR, k)).returncode == 0
    os.chdir('/verif')
    out = open('%s/%d/results.jsonl' % (SCR, k), 'a')
    for sid in ids:
        prop = sid.split('_')[0]
        patch = '%s/seeded/%s/patch.diff' % (SCR, sid)
        a = sh('git -C /repo apply ' + patch)
        if a.returncode != 0:
            rec = {'property': prop, 'applied': False, 'error': a.stderr[:300]}
        else:
            runs = {}
            for tier in ('quick', 'thorough') if thorough_too else ('quick',):
                t0 = time.time()
                r = sh('./check %s --tier %s' % (prop, tier))
                lines = [l for l in r.stdout.splitlines() if l.startswith(('VIOLATION', 'OK'))]
                runs[tier] = {'rc': r.returncode, 'wall': round(time.time() - t0, 1),
                              'line': (lines[-1] if lines else r.stdout[-300:] + r.stderr[-300:])[:400]}
                if r.returncode != 0:
                    break
            rec = {'property': prop, 'applied': True, 'caught': any(v['rc'] != 0 for v in runs.values()),
                   'by': next((t for t, v in runs.items() if v['rc'] != 0), None), 'runs': runs, 'also_caught_by': []}
        sh('git -C /repo checkout -- . && git -C /repo clean -fdq')
        out.write(json.dumps({sid: rec}) + '\n'); out.flush()
        print(sid, rec.get('caught'), rec.get('by'), (rec.get('runs', {}).get(rec.get('by') or 'quick', {}).get('line', '') or rec.get('error', ''))[:150], flush=True)


def main():
    a = sys.argv[1:]
    if a and a[0] == '--worker':
        return worker(int(a[1]), a[3:], a[2] == '1')
    n, thorough_too, ids = 8, False, []
    i = 0
    while i < len(a):
        if a[i] == '-j': n = int(a[i + 1]); i += 2
        elif a[i] == '--thorough-too': thorough_too = True; i += 1
        else: ids.append(a[i]); i += 1
    if not ids:
        ids = sorted(os.path.basename(d) for d in glob.glob(ROOT + '/seeded/C*_*'))
    assert sh('git -C /repo status --porcelain').stdout.strip() == '', '/repo not clean'
    n = min(n, len(ids))
    cleanup()
    os.makedirs(SCR)
    shutil.copytree(ROOT + '/seeded', SCR + '/seeded')
    for k in range(n):
        os.makedirs('%s/%d' % (SCR, k))
        r = sh('git clone -q /repo %s/%d/repo' % (SCR, k)); assert r.returncode == 0, r.stderr
        r = sh('rsync -a --exclude .git --exclude seeded --exclude work/replays --exclude "work/C[0-9][0-9]" %s/ %s/%d/verif/' % (ROOT, SCR, k)); assert r.returncode in (0, 24), r.stderr
    # interleave so that each worker gets a mix of properties (slow and fast ones)
    parts = [ids[k::n] for k in range(n)]
    procs = [subprocess.Popen(['unshare', '-m', sys.executable, os.path.abspath(__file__), '--worker', str(k), '1' if thorough_too else '0'] + parts[k]) for k in range(n)]
    for p in procs: p.wait()
    res = {}
    rp = ROOT + '/seeded/RESULTS.json'
    if os.path.exists(rp): res = json.load(open(rp))
    for k in range(n):
        f = '%s/%d/results.jsonl' % (SCR, k)
        if os.path.exists(f):
            for l in open(f):
                res.update(json.loads(l))
    json.dump(dict(sorted(res.items())), open(rp, 'w'), indent=1)
    cleanup()
    assert sh('git -C /repo status --porcelain').stdout.strip() == '', '/repo not clean at the end'


def cleanup():
    shutil.rmtree(SCR, ignore_errors=True)


if __name__ == '__main__':
    main()
