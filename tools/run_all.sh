#!/bin/sh
# run every claimed check (tier $1, default quick) and print one line each
tier=${1:-quick}
cd /verif
# the library root imports every module: a name declared twice only shows here
(cd lean && lake build 2>&1 | grep -E 'error|✖' | head -5)
for p in $(python3 -c "import json;print(' '.join(sorted(json.load(open('checks.json')).keys())))"); do
  ./check $p --tier $tier 2>&1 | grep -E "^(OK|VIOLATION|KNOWN-FINDING)" | cut -c1-160
done
