#!/usr/bin/env python3
"""Apply each seeded change of /verif/seeded/<id>/patch.diff to /repo, run the property's
quick check (thorough when quick misses), undo, and record who caught what in
/verif/seeded/RESULTS.json.  /repo is left clean."""
import json, os, subprocess, sys, glob, re
os.chdir('/verif')
only = sys.argv[1:]
res = {}
if os.path.exists('seeded/RESULTS.json'): res = json.load(open('seeded/RESULTS.json'))
def sh(cmd, **kw): return subprocess.run(cmd, shell=True, capture_output=True, text=True, **kw)
assert sh('git -C /repo status --porcelain').stdout.strip() == '', '/repo not clean'
for d in sorted(glob.glob('seeded/C*_*')):
    sid = os.path.basename(d)
    if only and sid not in only: continue
    prop = sid.split('_')[0]
    patch = os.path.abspath(d + '/patch.diff')
    a = sh('git -C /repo apply ' + patch)
    if a.returncode != 0:
        res[sid] = {'property': prop, 'applied': False, 'error': a.stderr[:300]}; continue
    try:
        out = {}
        for tier in ('quick', 'thorough'):
            r = sh('./check %s --tier %s' % (prop, tier))
            lines = [l for l in r.stdout.splitlines() if l.startswith(('VIOLATION', 'OK'))]
            out[tier] = {'rc': r.returncode, 'line': (lines[-1] if lines else r.stdout[-300:] + r.stderr[-300:])[:400]}
            if r.returncode != 0: break
        # which other properties' quick checks notice it
        others = []
        if os.environ.get('SEED_CROSS'):
            for p in sorted(json.load(open('checks.json'))):
                if p == prop: continue
                r = sh('./check %s --tier quick' % p)
                if r.returncode != 0: others.append(p)
        res[sid] = {'property': prop, 'applied': True, 'caught': any(v['rc'] != 0 for v in out.values()), 'by': next((t for t, v in out.items() if v['rc'] != 0), None), 'runs': out, 'also_caught_by': others}
    finally:
        sh('git -C /repo checkout -- .')
    print(sid, res[sid].get('caught'), res[sid].get('by'), (res[sid].get('runs', {}).get(res[sid].get('by') or 'quick', {}).get('line', ''))[:160], flush=True)
    json.dump(res, open('seeded/RESULTS.json', 'w'), indent=1)
assert sh('git -C /repo status --porcelain').stdout.strip() == '', '/repo not clean at the end'
