#!/usr/bin/env python3
"""Confirm sub-agent changes before they are kept under seeded/ (DESIGN §11.5):

  tools/confirm_seeds.py <dir with <id>/patch.diff, demo/, meta.json> [-j N] [ids…]

For each change, in a scratch clone of /repo under /tmp/confirm (removed afterwards):
  1. patch.diff applies to the pinned commit; `cargo build --offline` (and with
     `--features mstsc-rs` when the GUI binary is touched) succeeds;
  2. the pinned suite passes with the change (cargo nextest, 39 tests);
  3. the demonstration FAILS with the change and PASSES without it.
The demonstration is run the way its README says, recognised in three shapes: a `run.sh
<worktree>` script; integration-test files to copy into tests/; a snippet to append to /
paste into a source file.  Writes <dir>/CONFIRM.json."""
import json, os, re, shutil, subprocess, sys, glob, concurrent.futures as cf

SCR = '/tmp/confirm'


def sh(cmd, cwd=None, env=None, timeout=1800):
    e = dict(os.environ); e['CARGO_NET_OFFLINE'] = 'true'
    if env: e.update(env)
    try:
        p = subprocess.run(cmd, shell=True, cwd=cwd, env=e, capture_output=True, text=True, timeout=timeout)
        return p.returncode, p.stdout + p.stderr
    except subprocess.TimeoutExpired as x:
        return 124, 'timeout'


def demo_plan(d):
    """returns (kind, detail) describing how to run the demonstration"""
    demo = os.path.join(d, 'demo')
    readme = ''
    for f in glob.glob(demo + '/README*'):
        readme += open(f, errors='replace').read()
    if os.path.exists(os.path.join(demo, 'run.sh')):
        return 'runsh', None, readme
    rs = [f for f in glob.glob(demo + '/*.rs')]
    m = re.search(r'(?:append|Append|paste|Paste)[^\n]*?`?(src/[\w/.-]+\.rs)', readme) or \
        re.search(r'(?:end of|into|inside)[^\n]*?`(src/[\w/.-]+\.rs)`', readme)
    if m and not re.search(r'[Cc]opy (it|them|the file)? ?(to|into) `?(<crate>/)?tests/', readme):
        inside = bool(re.search(r'inside the existing|[Ii]nside .*mod test|before its closing brace|into the existing', readme))
        return 'snippet', (m.group(1), rs, inside), readme
    return 'tests', rs, readme


def run_demo(wt, d, plan, tgt):
    kind, detail, readme = plan
    env = {'CARGO_TARGET_DIR': tgt}
    if 'rdp_rs_verif' in readme: env['RUSTFLAGS'] = '--cfg rdp_rs_verif'
    feat = ' --features mstsc-rs' if 'mstsc-rs' in readme and '--features' in readme else ''
    if kind == 'runsh':
        return sh('bash %s/demo/run.sh %s' % (d, wt), cwd=wt, env=env, timeout=900)
    if kind == 'tests':
        os.makedirs(wt + '/tests', exist_ok=True)
        names = []
        for f in detail:
            shutil.copy(f, wt + '/tests/'); names.append(os.path.splitext(os.path.basename(f))[0])
        for sub in glob.glob(d + '/demo/*/'):
            shutil.copytree(sub, wt + '/tests/' + os.path.basename(sub.rstrip('/')), dirs_exist_ok=True)
        rc_all, out_all = 0, ''
        for n in names:
            rc, out = sh('cargo test --offline%s --test %s -- --test-threads 1' % (feat, n), cwd=wt, env=env)
            rc_all |= rc; out_all += out[-1500:]
        return rc_all, out_all
    if kind == 'snippet':
        path, rs, inside = detail
        src = open(wt + '/' + path).read()
        snip = '\n'.join(open(f).read() for f in rs)
        if inside:
            i = src.rstrip().rfind('}')
            new = src[:i] + '\n' + snip + '\n}\n'
        else:
            new = src + '\n' + snip + '\n'
        open(wt + '/' + path, 'w').write(new)
        if path.startswith('src/bin/'):
            return sh('cargo test --offline --features mstsc-rs --bin mstsc-rs -- --test-threads 1', cwd=wt, env=env)
        return sh('cargo test --offline --lib%s -- --test-threads 1' % feat, cwd=wt, env=env)
    return 2, 'no plan'


def confirm(args):
    d, k = args
    sid = os.path.basename(d)
    wt = '%s/%d/repo' % (SCR, k); tgt = '%s/%d/target' % (SCR, k)
    res = {'id': sid}
    def reset():
        sh('git checkout -q -- . && git clean -fdq', cwd=wt)
    reset()
    patch = os.path.abspath(d + '/patch.diff')
    rc, out = sh('git apply ' + patch, cwd=wt)
    res['applies'] = rc == 0
    if rc != 0:
        res['error'] = out[-300:]; return res
    touched_gui = 'src/bin/' in open(patch).read()
    env = {'CARGO_TARGET_DIR': tgt}
    rc, out = sh('cargo build --offline -q' + (' --features mstsc-rs' if touched_gui else ''), cwd=wt, env=env)
    res['builds'] = rc == 0
    rc, out = sh('cargo nextest run --workspace --no-fail-fast --offline 2>&1 | tail -5', cwd=wt, env=env)
    m = re.search(r'(\d+) tests? run: (\d+) passed', out)
    res['tests'] = out.strip().split('\n')[-1][:160]
    res['tests_pass'] = bool(m and m.group(1) == m.group(2) == '39')
    plan = demo_plan(d)
    res['demo_kind'] = plan[0]
    rc, out = run_demo(wt, d, plan, tgt)
    res['demo_with_rc'] = rc
    res['demo_with_change_fails'] = rc != 0 and ('test result: FAILED' in out or 'FAIL' in out or 'panicked' in out or 'failed' in out)
    res['demo_with'] = out.strip()[-300:]
    reset()
    rc, out = run_demo(wt, d, plan, tgt)
    res['demo_without_change_passes'] = rc == 0
    res['demo_without'] = out.strip()[-300:]
    reset()
    kind = 'breaking'
    try: kind = json.load(open(d + '/meta.json')).get('kind', 'breaking')
    except Exception: pass
    res['kind'] = kind
    if kind == 'refactor':
        # a harmless rewrite: its demonstration passes both ways
        res['demo_with_change_passes'] = res.get('demo_with_rc') == 0
        res['confirmed'] = all(res.get(x) for x in ('applies', 'builds', 'tests_pass', 'demo_with_change_passes', 'demo_without_change_passes'))
    else:
        res['confirmed'] = all(res.get(x) for x in ('applies', 'builds', 'tests_pass', 'demo_with_change_fails', 'demo_without_change_passes'))
    print(sid, 'CONFIRMED' if res['confirmed'] else 'NOT-CONFIRMED', {x: res.get(x) for x in ('kind', 'builds', 'tests_pass', 'demo_kind', 'demo_with_change_fails', 'demo_without_change_passes')}, flush=True)
    return res


def main():
    a = sys.argv[1:]
    root, n, ids = a[0], 8, []
    i = 1
    while i < len(a):
        if a[i] == '-j': n = int(a[i + 1]); i += 2
        else: ids.append(a[i]); i += 1
    dirs = sorted(d for d in glob.glob(root + '/C*_*') if os.path.isdir(d) and (not ids or os.path.basename(d) in ids))
    shutil.rmtree(SCR, ignore_errors=True)
    n = min(n, len(dirs))
    for k in range(n):
        os.makedirs('%s/%d' % (SCR, k))
        rc, out = sh('git clone -q /repo %s/%d/repo' % (SCR, k)); assert rc == 0, out
    results = {}
    cp = root + '/CONFIRM.json'
    if os.path.exists(cp): results = json.load(open(cp))
    # one worker per clone, each takes every n-th change
    def worker(k):
        return [confirm((d, k)) for d in dirs[k::n]]
    with cf.ThreadPoolExecutor(max_workers=n) as ex:
        for rs in ex.map(worker, range(n)):
            for r in rs: results[r['id']] = r
    json.dump(dict(sorted(results.items())), open(cp, 'w'), indent=1)
    shutil.rmtree(SCR, ignore_errors=True)


if __name__ == '__main__':
    main()
