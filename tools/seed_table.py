#!/usr/bin/env python3
"""Markdown table of the seeded changes and which check caught them (for DESIGN.md §11.5)."""
import json, glob, os
os.chdir('/verif')
res = json.load(open('seeded/RESULTS.json')) if os.path.exists('seeded/RESULTS.json') else {}
rows = []
for d in sorted(glob.glob('seeded/C*_*')):
    sid = os.path.basename(d)
    try: meta = json.load(open(d + '/meta.json'))
    except Exception: meta = {}
    r = res.get(sid, {})
    files = ', '.join(os.path.basename(f) for f in meta.get('files', []))[:40]
    what = (meta.get('breaks') or meta.get('title') or '').replace('|', '/').replace('\n', ' ')[:150]
    by = r.get('by') or ('-' if r else '?')
    line = (r.get('runs', {}).get(by, {}) or {}).get('line', '') if by in ('quick', 'thorough') else ''
    how = 'model disagreement' if 'correspondence' in line and 'no-failing-input-found' in line else ('oracle / property violation with replay' if 'VIOLATION' in line else '')
    rows.append('| %s | %s | %s | %s | %s |' % (sid, files, what, 'caught (%s)' % by if r.get('caught') else ('MISSED' if r else 'not run'), how))
print('| Seed | File | What it breaks | Result of `./check <property>` | How reported |')
print('|---|---|---|---|---|')
print('\n'.join(rows))
c = sum(1 for r in res.values() if r.get('caught')); print('\n%d of %d seeded changes are reported by the quick (or thorough) check of their own property.' % (c, len(res)))
