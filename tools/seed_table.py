#!/usr/bin/env python3
"""Markdown table of the seeded changes and which check caught them (for DESIGN.md §11.5)."""
import json, glob, os
os.chdir('/verif')
res = json.load(open('seeded/RESULTS.json')) if os.path.exists('seeded/RESULTS.json') else {}
rows = []
for d in sorted(glob.glob('seeded/C*_*')):
    sid = os.path.basename(d)
    try: meta = json.load(open(d + '/meta.json'))
    except Exception: meta = {}
    r = res.get(sid, {})
    files = ', '.join(os.path.basename(f) for f in meta.get('files', []))[:40]
    what = (meta.get('breaks') or meta.get('title') or '').replace('|', '/').replace('\n', ' ')[:150]
    by = r.get('by') or ('-' if r else '?')
    line = (r.get('runs', {}).get(by, {}) or {}).get('line', '') if by in ('quick', 'thorough') else ''
    how = 'model disagreement' if 'correspondence' in line and 'no-failing-input-found' in line else ('oracle / property violation with replay' if 'VIOLATION' in line else '')
    refactor = meta.get('kind') == 'refactor'
    if refactor:
        verdict = ('FALSE ALARM' if r.get('caught') else 'passes (as it should)') if r else 'not run'
        what = 'behaviour-preserving refactor: ' + (meta.get('title') or '')[:110]
    else:
        verdict = 'caught (%s)' % by if r.get('caught') else ('MISSED' if r else 'not run')
    rows.append('| %s | %s | %s | %s | %s |' % (sid, files, what, verdict, how))
print('| Seed | File | What it breaks | Result of `./check <property>` | How reported |')
print('|---|---|---|---|---|')
print('\n'.join(rows))
import json as _j
kinds = {os.path.basename(d): (_j.load(open(d + '/meta.json')).get('kind') if os.path.exists(d + '/meta.json') else None) for d in glob.glob('seeded/C*_*')}
br = [k for k in res if kinds.get(k) != 'refactor']; rf = [k for k in res if kinds.get(k) == 'refactor']
print('\n%d of %d property-breaking changes are reported by the check of their own property; %d of %d behaviour-preserving refactors raise an alarm.' % (sum(1 for k in br if res[k].get('caught')), len(br), sum(1 for k in rf if res[k].get('caught')), len(rf)))
