#!/usr/bin/env python3
"""Regenerate MANIFEST.json from checks.json (claimed properties) and properties.jsonl."""
import json, os
ROOT = os.path.dirname(os.path.dirname(os.path.abspath(__file__)))
checks = json.load(open(os.path.join(ROOT, "checks.json")))
props = [json.loads(l) for l in open(os.path.join(ROOT, "properties.jsonl"))]
hooks_commits = [l.strip() for l in open(os.path.join(ROOT, "tools", "hook_commits.txt")) if l.strip()]
m = {
    "version": 1,
    "setup_cmd": "./check --setup",
    "hooks": {
        "guard": "rdp_rs_verif",
        "enable": "RUSTFLAGS=\"--cfg rdp_rs_verif\" (set by ./check when it builds /verif/harness against /repo)",
        "baseline_off_cmd": "cd /repo && (cargo nextest run --workspace --no-fail-fast --offline || cargo test --workspace --lib --no-fail-fast --offline)",
        "source_commits": hooks_commits,
        "add_only": True,
    },
    "engines": [
        {"name": "lean-model", "path": "lean", "serves_properties": sorted(checks.keys()),
         "kind_free_text": "Lean 4 model + property theorems (lake project RdpModel), compiled line-protocol driver"},
        {"name": "harness", "path": "harness", "serves_properties": sorted(checks.keys()),
         "kind_free_text": "Rust correspondence harness driving the real rdp-rs code in-process; ./check diffs it against the Lean driver"},
    ],
    "checks": [],
    "not_applicable": [],
    "notes": "Machine-checked proof in Lean 4 over a hand-written model; model tied to /repo on every run by a differential correspondence check (and generated constant tables). See DESIGN.md.",
}
for p in props:
    pid = p["id"]
    if pid in checks:
        c = checks[pid]
        m["checks"].append({
            "property_id": pid,
            "quick_cmd": "./check %s --tier quick" % pid,
            "thorough_cmd": "./check %s --tier thorough" % pid,
            "evidence_file": "evidence/%s.json" % pid,
            "replay_cmd_template": "./check %s --replay {path}" % pid,
            "engine": "lean-model",
            "level_claimed": {"category": "proof", "text": c.get("level_text", ""), "design_ref": c.get("design_ref", "DESIGN.md §6 " + pid)},
            "level_note": c.get("level_note", ""),
            "technique": c.get("technique", "Lean 4 theorems over an executable model + differential correspondence check against the real code"),
        })
    else:
        m["not_applicable"].append({"property_id": pid, "reason": "not claimed yet: the Lean model, theorems and correspondence harness for this property are not built at this commit (planned, see DESIGN.md §10); the technique is applicable"})
json.dump(m, open(os.path.join(ROOT, "MANIFEST.json"), "w"), indent=1)
print("claimed:", sorted(checks.keys()))
