#!/usr/bin/env python3
"""Copy the confirmed changes of a sub-agent round into seeded/ (DESIGN §11.5):

  tools/import_round.py <out dir with <PID>_r<k><letter>/ and CONFIRM.json> <round> <letter=n>…

e.g. `tools/import_round.py /tmp/agents/out8 8 a=22 b=23 c=24`.  Only changes that
tools/confirm_seeds.py confirmed are copied (patch.diff, demo/, meta.json with the
confirmation recorded); the others are listed and left behind."""
import json, os, re, shutil, sys

root, rnd = sys.argv[1], int(sys.argv[2])
nmap = dict(a.split('=') for a in sys.argv[3:])
conf = json.load(open(root + '/CONFIRM.json'))
kept, dropped = [], []
for sid, c in sorted(conf.items()):
    m = re.match(r'(C\d\d)_r\d+([a-z])$', sid)
    if not m or m.group(2) not in nmap:
        continue
    if not c.get('confirmed'):
        dropped.append(sid); continue
    dst = '/verif/seeded/%s_%s' % (m.group(1), nmap[m.group(2)])
    shutil.rmtree(dst, ignore_errors=True)
    shutil.copytree(root + '/' + sid, dst, ignore=shutil.ignore_patterns('target', '*.log'))
    meta = json.load(open(dst + '/meta.json'))
    meta['n'] = int(nmap[m.group(2)]); meta['round'] = rnd
    meta['confirmed'] = {'by': 'tools/confirm_seeds.py in a scratch clone of /repo', 'builds': c.get('builds'), 'tests': c.get('tests'),
                         'demo_kind': c.get('demo_kind'),
                         'demo_with_change': 'passes' if c.get('kind') == 'refactor' else 'fails',
                         'demo_without_change': 'passes'}
    json.dump(meta, open(dst + '/meta.json', 'w'), indent=1, ensure_ascii=False)
    kept.append(os.path.basename(dst))
print('kept', len(kept), kept)
print('not confirmed, left behind:', dropped)
