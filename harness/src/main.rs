//! rdpverif: correspondence harness.  `rdpverif <prop> <tier> <seed> <outdir> [replay-case-file]`
//! writes <outdir>/cases.txt (one case per line), impl.txt (observation of the real code,
//! `<outcome>\t<ok|V:reason>\t<tags>`), stats.json.
#[macro_use]
extern crate rdp;

mod alloc_count;
mod common;
mod io;
mod shape;
mod refsrv;
mod nlasrv;
mod gui;
mod props;

fn main() {
    let args: Vec<String> = std::env::args().collect();
    if args.len() < 5 {
        eprintln!("usage: rdpverif <prop> <quick|thorough> <seed> <outdir> [replay-file]");
        std::process::exit(2);
    }
    let prop = args[1].as_str();
    let thorough = args[2] == "thorough";
    let seed: u64 = args[3].parse().unwrap_or(0);
    let out = args[4].as_str();
    // the client builds a TLS connector per connection; keep it from loading the system trust store each time
    std::env::set_var("SSL_CERT_FILE", "/dev/null");
    std::env::set_var("SSL_CERT_DIR", "/nonexistent");
    common::quiet_panics();
    let mut em = common::Emitter::new(out);
    if args.len() >= 6 {
        em.replay = true;
        let text = std::fs::read_to_string(&args[5]).unwrap();
        for line in text.lines() {
            let line = line.trim();
            if line.is_empty() || line.starts_with('#') { continue; }
            props::replay(prop, line, &mut em);
        }
    } else {
        // corpus first
        let corpus = match std::env::var("VERIF_CORPUS") { Ok(c) => format!("{}/{}", c, prop), Err(_) => format!("{}/../../corpus/{}", out, prop) };
        if let Ok(rd) = std::fs::read_dir(&corpus) {
            let mut files: Vec<_> = rd.filter_map(|e| e.ok()).map(|e| e.path()).collect();
            files.sort();
            for f in files {
                if let Ok(text) = std::fs::read_to_string(&f) {
                    for line in text.lines() {
                        let line = line.trim();
                        if line.is_empty() || line.starts_with('#') { continue; }
                        props::replay(prop, line, &mut em);
                    }
                }
            }
        }
        props::generate(prop, thorough, seed, &mut em);
    }
    em.finish(out);
}
