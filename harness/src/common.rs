//! Shared pieces of the correspondence harness: one PRNG state per run, hex, the case
//! emitter (case line -> implementation observation under catch_unwind).
use std::collections::BTreeMap;
use std::fs::File;
use std::io::{BufWriter, Write};
use std::panic::{catch_unwind, AssertUnwindSafe};

/// splitmix64: every random choice of a run derives from this one state
pub struct Rng(pub u64);
impl Rng {
    pub fn new(seed: u64) -> Self { Rng(seed.wrapping_mul(0x9E3779B97F4A7C15) ^ 0xD1B54A32D192ED03) }
    pub fn next(&mut self) -> u64 {
        self.0 = self.0.wrapping_add(0x9E3779B97F4A7C15);
        let mut z = self.0;
        z = (z ^ (z >> 30)).wrapping_mul(0xBF58476D1CE4E5B9);
        z = (z ^ (z >> 27)).wrapping_mul(0x94D049BB133111EB);
        z ^ (z >> 31)
    }
    pub fn below(&mut self, n: u64) -> u64 { if n == 0 { 0 } else { self.next() % n } }
    pub fn range(&mut self, lo: u64, hi: u64) -> u64 { lo + self.below(hi - lo + 1) }
    pub fn byte(&mut self) -> u8 { self.next() as u8 }
    pub fn bytes(&mut self, n: usize) -> Vec<u8> { (0..n).map(|_| self.byte()).collect() }
    pub fn chance(&mut self, num: u64, den: u64) -> bool { self.below(den) < num }
    pub fn pick<'a, T>(&mut self, xs: &'a [T]) -> &'a T { &xs[self.below(xs.len() as u64) as usize] }
}

pub fn hex(b: &[u8]) -> String {
    if b.is_empty() { return "-".to_string(); }
    let mut s = String::with_capacity(b.len() * 2);
    for x in b { s.push_str(&format!("{:02x}", x)); }
    s
}
pub fn unhex(s: &str) -> Vec<u8> {
    if s == "-" { return vec![]; }
    (0..s.len() / 2).map(|i| u8::from_str_radix(&s[2 * i..2 * i + 2], 16).unwrap()).collect()
}
pub fn nat_list(v: &[usize]) -> String {
    if v.is_empty() { "-".to_string() } else { v.iter().map(|x| x.to_string()).collect::<Vec<_>>().join(",") }
}
pub fn parse_nat_list(s: &str) -> Vec<usize> {
    if s == "-" { vec![] } else { s.split(',').map(|x| x.parse().unwrap()).collect() }
}

/// What the implementation did on one case.
pub struct Obs {
    /// canonical outcome, compared with the model's
    pub out: String,
    /// Some(reason): the implementation itself violates the property on this case
    pub violation: Option<String>,
    /// labels for the input-distribution report; "nt" marks a non-trivial case
    pub tags: Vec<&'static str>,
}
impl Obs {
    pub fn new(out: String) -> Self { Obs { out, violation: None, tags: vec![] } }
    pub fn tag(mut self, t: &'static str) -> Self { self.tags.push(t); self }
    pub fn nt(self, cond: bool) -> Self { if cond { self.tag("nt") } else { self } }
    pub fn viol(mut self, why: &str) -> Self { self.violation = Some(why.to_string()); self }
}

/// Watchdog: what is running now and since when.  A case that neither returns nor fails within
/// `HANG_LIMIT_S` (a spin on a dead stream, say) is reported as a violation of its own and the
/// process ends there; the remaining cases of this run are not executed.
pub const HANG_LIMIT_S: u64 = 60;
pub static WATCH: std::sync::Mutex<Option<(String, std::time::Instant)>> = std::sync::Mutex::new(None);
static WATCH_DIR: std::sync::Mutex<Option<(String, u64)>> = std::sync::Mutex::new(None);

/// announce the case about to run (first announcement wins until `watch_end`)
pub fn watch_begin(desc: &str) { let mut w = WATCH.lock().unwrap(); if w.is_none() { *w = Some((desc.to_string(), std::time::Instant::now())); } }
pub fn watch_end() { *WATCH.lock().unwrap() = None; }

fn spawn_watchdog() {
    std::thread::spawn(|| loop {
        std::thread::sleep(std::time::Duration::from_millis(500));
        let hung = { let w = WATCH.lock().unwrap(); match &*w { Some((d, t)) if t.elapsed().as_secs() >= HANG_LIMIT_S => Some(d.clone()), _ => None } };
        if let Some(desc) = hung {
            if let Some((dir, n)) = WATCH_DIR.lock().unwrap().clone() {
                use std::io::Write as _;
                if let Ok(mut f) = std::fs::OpenOptions::new().append(true).open(format!("{}/cases.txt", dir)) { let _ = writeln!(f, "{}", desc.replace('\t', " ").replace('\n', " ")); }
                if let Ok(mut f) = std::fs::OpenOptions::new().append(true).open(format!("{}/impl.txt", dir)) { let _ = writeln!(f, "T\tV:the call neither returned nor failed within {} s (spin / hang)\thang", HANG_LIMIT_S); }
                let _ = std::fs::write(format!("{}/stats.json", dir), format!("{{\"cases\":{},\"tags\":{{\"hang\":1}}}}", n + 1));
            }
            std::process::exit(0);
        }
    });
}

pub struct Emitter {
    cases: BufWriter<File>,
    imp: BufWriter<File>,
    pub n: u64,
    pub tags: BTreeMap<String, u64>,
    pub replay: bool,
    /// a panic is reported as outcome `P` but is not by itself a violation (used where the
    /// harness deliberately builds panicking closures and the model must predict the panic)
    pub panic_ok: bool,
    /// when > 0: a single allocation request above this many bytes during a case is a violation
    pub alloc_limit: usize,
}

impl Emitter {
    pub fn new(dir: &str) -> Self {
        std::fs::create_dir_all(dir).unwrap();
        *WATCH_DIR.lock().unwrap() = Some((dir.to_string(), 0));
        spawn_watchdog();
        Emitter {
            cases: BufWriter::new(File::create(format!("{}/cases.txt", dir)).unwrap()),
            imp: BufWriter::new(File::create(format!("{}/impl.txt", dir)).unwrap()),
            n: 0,
            tags: BTreeMap::new(),
            replay: false,
            panic_ok: false,
            alloc_limit: 0,
        }
    }
    /// record one case. `line` must not contain tabs or newlines.
    pub fn case<F: FnOnce() -> Obs>(&mut self, line: &str, f: F) {
        // the files on disk are complete up to the previous case, so that the watchdog can append
        self.cases.flush().unwrap(); self.imp.flush().unwrap();
        if let Some(w) = WATCH_DIR.lock().unwrap().as_mut() { w.1 = self.n; }
        watch_begin(line);
        crate::alloc_count::reset();
        let r = catch_unwind(AssertUnwindSafe(f));
        watch_end();
        let peak = crate::alloc_count::max();
        let mut obs = match r {
            Ok(o) => o,
            Err(_) => Obs { out: "P".to_string(), violation: if self.panic_ok { None } else { Some("panic".to_string()) }, tags: vec!["panic"] },
        };
        if self.alloc_limit > 0 && peak > self.alloc_limit + line.len() && obs.violation.is_none() {
            obs.violation = Some(format!("allocation request of {} bytes, out of proportion to the input", peak));
        }
        writeln!(self.cases, "{}", line).unwrap();
        let v = match &obs.violation { Some(w) => format!("V:{}", w.replace('\t', " ").replace('\n', " ")), None => "ok".to_string() };
        writeln!(self.imp, "{}\t{}\t{}", obs.out, v, obs.tags.join(",")).unwrap();
        for t in &obs.tags { *self.tags.entry(t.to_string()).or_insert(0) += 1; }
        let cls = if obs.out == "P" { "out:panic" } else if obs.out.ends_with('E') || obs.out == "E" || obs.out.starts_with("E am=") { "out:err" } else { "out:ok" };
        *self.tags.entry(cls.to_string()).or_insert(0) += 1;
        self.n += 1;
    }
    pub fn finish(mut self, dir: &str) {
        self.cases.flush().unwrap();
        self.imp.flush().unwrap();
        let mut s = String::from("{");
        s.push_str(&format!("\"cases\":{}", self.n));
        s.push_str(",\"tags\":{");
        let mut first = true;
        for (k, v) in &self.tags {
            if !first { s.push(','); }
            first = false;
            s.push_str(&format!("\"{}\":{}", k, v));
        }
        s.push_str("}}");
        std::fs::write(format!("{}/stats.json", dir), s).unwrap();
    }
}

/// silence the default panic message (cases are expected to probe panics)
pub fn quiet_panics() {
    if std::env::var("VERIF_SHOW_PANICS").is_ok() { return; }
    std::panic::set_hook(Box::new(|_| {}));
}
