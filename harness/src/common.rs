//! Shared pieces of the correspondence harness: one PRNG state per run, hex, the case
//! emitter (case line -> implementation observation under catch_unwind).
use std::collections::BTreeMap;
use std::fs::File;
use std::io::{BufWriter, Write};
use std::panic::{catch_unwind, AssertUnwindSafe};

/// splitmix64: every random choice of a run derives from this one state
pub struct Rng(pub u64);
impl Rng {
    pub fn new(seed: u64) -> Self { Rng(seed.wrapping_mul(0x9E3779B97F4A7C15) ^ 0xD1B54A32D192ED03) }
    pub fn next(&mut self) -> u64 {
        self.0 = self.0.wrapping_add(0x9E3779B97F4A7C15);
        let mut z = self.0;
        z = (z ^ (z >> 30)).wrapping_mul(0xBF58476D1CE4E5B9);
        z = (z ^ (z >> 27)).wrapping_mul(0x94D049BB133111EB);
        z ^ (z >> 31)
    }
    pub fn below(&mut self, n: u64) -> u64 { if n == 0 { 0 } else { self.next() % n } }
    pub fn range(&mut self, lo: u64, hi: u64) -> u64 { lo + self.below(hi - lo + 1) }
    pub fn byte(&mut self) -> u8 { self.next() as u8 }
    pub fn bytes(&mut self, n: usize) -> Vec<u8> { (0..n).map(|_| self.byte()).collect() }
    pub fn chance(&mut self, num: u64, den: u64) -> bool { self.below(den) < num }
    pub fn pick<'a, T>(&mut self, xs: &'a [T]) -> &'a T { &xs[self.below(xs.len() as u64) as usize] }
}

pub fn hex(b: &[u8]) -> String {
    if b.is_empty() { return "-".to_string(); }
    let mut s = String::with_capacity(b.len() * 2);
    for x in b { s.push_str(&format!("{:02x}", x)); }
    s
}
pub fn unhex(s: &str) -> Vec<u8> {
    if s == "-" { return vec![]; }
    (0..s.len() / 2).map(|i| u8::from_str_radix(&s[2 * i..2 * i + 2], 16).unwrap()).collect()
}
pub fn nat_list(v: &[usize]) -> String {
    if v.is_empty() { "-".to_string() } else { v.iter().map(|x| x.to_string()).collect::<Vec<_>>().join(",") }
}
pub fn parse_nat_list(s: &str) -> Vec<usize> {
    if s == "-" { vec![] } else { s.split(',').map(|x| x.parse().unwrap()).collect() }
}

/// What the implementation did on one case.
pub struct Obs {
    /// canonical outcome, compared with the model's
    pub out: String,
    /// Some(reason): the implementation itself violates the property on this case
    pub violation: Option<String>,
    /// labels for the input-distribution report; "nt" marks a non-trivial case
    pub tags: Vec<&'static str>,
}
impl Obs {
    pub fn new(out: String) -> Self { Obs { out, violation: None, tags: vec![] } }
    pub fn tag(mut self, t: &'static str) -> Self { self.tags.push(t); self }
    pub fn nt(self, cond: bool) -> Self { if cond { self.tag("nt") } else { self } }
    pub fn viol(mut self, why: &str) -> Self { self.violation = Some(why.to_string()); self }
}

pub struct Emitter {
    cases: BufWriter<File>,
    imp: BufWriter<File>,
    pub n: u64,
    pub tags: BTreeMap<String, u64>,
    pub replay: bool,
    /// a panic is reported as outcome `P` but is not by itself a violation (used where the
    /// harness deliberately builds panicking closures and the model must predict the panic)
    pub panic_ok: bool,
    /// when > 0: a single allocation request above this many bytes during a case is a violation
    pub alloc_limit: usize,
}

impl Emitter {
    pub fn new(dir: &str) -> Self {
        std::fs::create_dir_all(dir).unwrap();
        Emitter {
            cases: BufWriter::new(File::create(format!("{}/cases.txt", dir)).unwrap()),
            imp: BufWriter::new(File::create(format!("{}/impl.txt", dir)).unwrap()),
            n: 0,
            tags: BTreeMap::new(),
            replay: false,
            panic_ok: false,
            alloc_limit: 0,
        }
    }
    /// record one case. `line` must not contain tabs or newlines.
    pub fn case<F: FnOnce() -> Obs>(&mut self, line: &str, f: F) {
        crate::alloc_count::reset();
        let r = catch_unwind(AssertUnwindSafe(f));
        let peak = crate::alloc_count::max();
        let mut obs = match r {
            Ok(o) => o,
            Err(_) => Obs { out: "P".to_string(), violation: if self.panic_ok { None } else { Some("panic".to_string()) }, tags: vec!["panic"] },
        };
        if self.alloc_limit > 0 && peak > self.alloc_limit + line.len() && obs.violation.is_none() {
            obs.violation = Some(format!("allocation request of {} bytes, out of proportion to the input", peak));
        }
        writeln!(self.cases, "{}", line).unwrap();
        let v = match &obs.violation { Some(w) => format!("V:{}", w.replace('\t', " ").replace('\n', " ")), None => "ok".to_string() };
        writeln!(self.imp, "{}\t{}\t{}", obs.out, v, obs.tags.join(",")).unwrap();
        for t in &obs.tags { *self.tags.entry(t.to_string()).or_insert(0) += 1; }
        let cls = if obs.out == "P" { "out:panic" } else if obs.out.ends_with('E') || obs.out == "E" { "out:err" } else { "out:ok" };
        *self.tags.entry(cls.to_string()).or_insert(0) += 1;
        self.n += 1;
    }
    pub fn finish(mut self, dir: &str) {
        self.cases.flush().unwrap();
        self.imp.flush().unwrap();
        let mut s = String::from("{");
        s.push_str(&format!("\"cases\":{}", self.n));
        s.push_str(",\"tags\":{");
        let mut first = true;
        for (k, v) in &self.tags {
            if !first { s.push(','); }
            first = false;
            s.push_str(&format!("\"{}\":{}", k, v));
        }
        s.push_str("}}");
        std::fs::write(format!("{}/stats.json", dir), s).unwrap();
    }
}

/// silence the default panic message (cases are expected to probe panics)
pub fn quiet_panics() {
    if std::env::var("VERIF_SHOW_PANICS").is_ok() { return; }
    std::panic::set_hook(Box::new(|_| {}));
}
