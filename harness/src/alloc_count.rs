//! Counting global allocator: largest single request since the last reset.
use std::alloc::{GlobalAlloc, Layout, System};
use std::sync::atomic::{AtomicUsize, Ordering};

pub struct Counting;
static MAX: AtomicUsize = AtomicUsize::new(0);
/// sum of the requests of at least `BIG` bytes since `reset_sum` (buffers, not message strings)
static SUM: AtomicUsize = AtomicUsize::new(0);
pub const BIG: usize = 256;
#[inline] fn note(n: usize) { MAX.fetch_max(n, Ordering::Relaxed); if n >= BIG { SUM.fetch_add(n, Ordering::Relaxed); } }

unsafe impl GlobalAlloc for Counting {
    unsafe fn alloc(&self, l: Layout) -> *mut u8 { note(l.size()); System.alloc(l) }
    unsafe fn alloc_zeroed(&self, l: Layout) -> *mut u8 { note(l.size()); System.alloc_zeroed(l) }
    unsafe fn dealloc(&self, p: *mut u8, l: Layout) { System.dealloc(p, l) }
    unsafe fn realloc(&self, p: *mut u8, l: Layout, n: usize) -> *mut u8 { note(n); System.realloc(p, l, n) }
}

#[global_allocator]
static A: Counting = Counting;

pub fn reset() { MAX.store(0, Ordering::Relaxed); }
pub fn max() -> usize { MAX.load(Ordering::Relaxed) }
pub fn reset_sum() { SUM.store(0, Ordering::Relaxed); }
pub fn sum() -> usize { SUM.load(Ordering::Relaxed) }
