//! Counting global allocator: largest single request since the last reset.
use std::alloc::{GlobalAlloc, Layout, System};
use std::sync::atomic::{AtomicUsize, Ordering};

pub struct Counting;
static MAX: AtomicUsize = AtomicUsize::new(0);

unsafe impl GlobalAlloc for Counting {
    unsafe fn alloc(&self, l: Layout) -> *mut u8 { MAX.fetch_max(l.size(), Ordering::Relaxed); System.alloc(l) }
    unsafe fn alloc_zeroed(&self, l: Layout) -> *mut u8 { MAX.fetch_max(l.size(), Ordering::Relaxed); System.alloc_zeroed(l) }
    unsafe fn dealloc(&self, p: *mut u8, l: Layout) { System.dealloc(p, l) }
    unsafe fn realloc(&self, p: *mut u8, l: Layout, n: usize) -> *mut u8 { MAX.fetch_max(n, Ordering::Relaxed); System.realloc(p, l, n) }
}

#[global_allocator]
static A: Counting = Counting;

pub fn reset() { MAX.store(0, Ordering::Relaxed); }
pub fn max() -> usize { MAX.load(Ordering::Relaxed) }
