//! The unmodified GUI client source, compiled into this crate so that its private
//! functions (fast_bitmap_transfer, launch_rdp_thread, wait_for_fd) are callable through
//! the thin public wrappers below.
#![allow(dead_code, unused_imports, unused_variables, unused_mut)]
include!("/repo/src/bin/mstsc-rs.rs");

pub fn verif_fast_bitmap_transfer(buffer: &mut Vec<u32>, width: usize, bitmap: BitmapEvent) -> RdpResult<()> {
    fast_bitmap_transfer(buffer, width, bitmap)
}

pub fn verif_launch_rdp_thread<S: 'static + Read + Write + Send>(handle: usize, rdp_client: Arc<Mutex<RdpClient<S>>>, sync: Arc<AtomicBool>, bitmap_channel: Sender<BitmapEvent>) -> RdpResult<JoinHandle<()>> {
    launch_rdp_thread(handle, rdp_client, sync, bitmap_channel)
}

/// `tcp_from_args` with the arguments the GUI client's `main` would hand it (host and port); paths spelled out so that
/// the wrapper does not depend on which names the included file imports
pub fn verif_tcp_from_args(host: &str, port: u16) -> rdp::model::error::RdpResult<std::net::TcpStream> {
    let m = clap::App::new("verif").arg(clap::Arg::with_name("host").long("host").takes_value(true)).arg(clap::Arg::with_name("port").long("port").takes_value(true).default_value("3389"))
        .get_matches_from(vec!["verif".to_string(), "--host".to_string(), host.to_string(), "--port".to_string(), port.to_string()]);
    tcp_from_args(&m)
}
