//! Transports for the harness: chunked reader (short-read schedules), adversarial writer
//! (short writes, injected errors), both observable after the call through a shared cell.
use std::cell::RefCell;
use std::io::{self, Read, Write};
use std::rc::Rc;

#[derive(Default)]
pub struct PipeState {
    /// bytes the client can still read
    pub inbox: Vec<u8>,
    pub pos: usize,
    /// per-read caps: element c => at most c+1 bytes; exhausted => unbounded
    pub rsched: Vec<usize>,
    pub ridx: usize,
    /// cap for every read once the schedule is exhausted (0: unbounded)
    pub rcap: usize,
    /// bytes the client wrote
    pub outbox: Vec<u8>,
    /// per-write actions: Some(k) => accept at most k bytes, None => fail; exhausted => accept all
    pub wsched: Vec<Option<usize>>,
    pub widx: usize,
    /// error kinds of the injected write failures, in order (exhausted: BrokenPipe)
    pub werr: Vec<std::io::ErrorKind>,
    pub werr_idx: usize,
    pub reads: usize,
    pub writes: usize,
    /// when set: a read that finds nothing pending fails with this kind (a socket with a read timeout whose
    /// peer went silent) instead of reporting end of stream
    pub stall: Option<std::io::ErrorKind>,
    /// cap for every write once the write schedule is exhausted (0: unbounded)
    pub wcap: usize,
    /// when Some(k): the k-th write call from now fails once (TimedOut), nothing of it is accepted
    pub fail_in: Option<usize>,
}

pub type Responder = Box<dyn FnMut(&[u8]) -> Vec<u8>>;

/// In-memory duplex transport. With a responder installed it is *reactive*: when the
/// client reads and nothing is pending, the bytes the client wrote since the last call
/// are handed to the responder (the reference server), whose answer becomes readable.
#[derive(Clone)]
pub struct Pipe(pub Rc<RefCell<PipeState>>, pub Rc<RefCell<Option<Responder>>>, pub Rc<RefCell<usize>>);

// The rdp Message trait requires Send for boxed messages, not for the stream.
impl Pipe {
    pub fn new(inbox: Vec<u8>, rsched: Vec<usize>) -> Self {
        Pipe(Rc::new(RefCell::new(PipeState { inbox, rsched, ..Default::default() })), Rc::new(RefCell::new(None)), Rc::new(RefCell::new(0)))
    }
    pub fn with_wsched(self, w: Vec<Option<usize>>) -> Self { self.0.borrow_mut().wsched = w; self }
    pub fn with_werr(self, k: Vec<std::io::ErrorKind>) -> Self { self.0.borrow_mut().werr = k; self }
    pub fn with_stall(self, k: std::io::ErrorKind) -> Self { self.0.borrow_mut().stall = Some(k); self }
    pub fn set_responder(&self, r: Responder) { *self.1.borrow_mut() = Some(r); }
    pub fn clear_responder(&self) { *self.1.borrow_mut() = None; }
    pub fn left(&self) -> Vec<u8> { let s = self.0.borrow(); s.inbox[s.pos..].to_vec() }
    pub fn written(&self) -> Vec<u8> { self.0.borrow().outbox.clone() }
    pub fn push_in(&self, b: &[u8]) { self.0.borrow_mut().inbox.extend_from_slice(b) }
    pub fn take_written(&self) -> Vec<u8> { *self.2.borrow_mut() = 0; std::mem::replace(&mut self.0.borrow_mut().outbox, vec![]) }
}

impl Read for Pipe {
    fn read(&mut self, buf: &mut [u8]) -> io::Result<usize> {
        {
            let pending = { let s = self.0.borrow(); s.inbox.len() - s.pos };
            if pending == 0 {
                let mut rb = self.1.borrow_mut();
                if let Some(r) = rb.as_mut() {
                    let new = { let s = self.0.borrow(); let seen = *self.2.borrow(); s.outbox[seen..].to_vec() };
                    *self.2.borrow_mut() += new.len();
                    let ans = r(&new);
                    self.0.borrow_mut().inbox.extend_from_slice(&ans);
                }
            }
        }
        let mut s = self.0.borrow_mut();
        s.reads += 1;
        let mut cap = buf.len();
        if s.ridx < s.rsched.len() {
            cap = cap.min(s.rsched[s.ridx] + 1);
        } else if s.rcap > 0 { cap = cap.min(s.rcap); }
        s.ridx += 1;
        let avail = s.inbox.len() - s.pos;
        if avail == 0 && !buf.is_empty() { if let Some(k) = s.stall { return Err(io::Error::new(k, "stalled")); } }
        let n = cap.min(avail);
        let p = s.pos;
        buf[..n].copy_from_slice(&s.inbox[p..p + n]);
        s.pos += n;
        Ok(n)
    }
}

impl Write for Pipe {
    fn write(&mut self, buf: &[u8]) -> io::Result<usize> {
        let mut s = self.0.borrow_mut();
        s.writes += 1;
        if let Some(k) = s.fail_in { if k <= 1 { s.fail_in = None; return Err(io::Error::new(io::ErrorKind::TimedOut, "injected")); } else { s.fail_in = Some(k - 1); } }
        let act = if s.widx < s.wsched.len() { s.wsched[s.widx] } else if s.wcap > 0 { Some(s.wcap) } else { Some(usize::MAX) };
        s.widx += 1;
        match act {
            None => { let k = if s.werr_idx < s.werr.len() { s.werr[s.werr_idx] } else { io::ErrorKind::BrokenPipe }; s.werr_idx += 1; Err(io::Error::new(k, "injected")) }
            Some(k) => {
                let n = k.min(buf.len());
                s.outbox.extend_from_slice(&buf[..n]);
                Ok(n)
            }
        }
    }
    fn flush(&mut self) -> io::Result<()> { Ok(()) }
}
