//! Independent server side of CredSSP/NTLMv2 over real TLS (native-tls acceptor on a
//! UnixStream or TcpStream), written from MS-CSSP / MS-NLMP: minimal DER, CHALLENGE,
//! AUTHENTICATE verification (key recovery), SEAL/SIGN with the server-side keys.
//! Nothing here calls rdp::nla.
use crate::props::c15::{hmac_md5, md4, ntowfv2, utf16};
use md5::{Digest, Md5};
use std::io::{Read, Write};

pub fn md5(d: &[u8]) -> Vec<u8> { let mut h = Md5::new(); h.input(d); h.result().to_vec() }

// ---------------------------------------------------------------- DER
pub fn der_len(n: usize) -> Vec<u8> {
    if n < 0x80 { vec![n as u8] } else if n < 0x100 { vec![0x81, n as u8] } else if n < 0x10000 { vec![0x82, (n >> 8) as u8, n as u8] } else { vec![0x83, (n >> 16) as u8, (n >> 8) as u8, n as u8] }
}
pub fn der(tag: u8, content: &[u8]) -> Vec<u8> { let mut v = vec![tag]; v.extend(der_len(content.len())); v.extend_from_slice(content); v }
/// (tag, content, rest)
pub fn tlv(b: &[u8]) -> Option<(u8, &[u8], &[u8])> {
    if b.len() < 2 { return None; }
    let (n, h) = if b[1] < 0x80 { (b[1] as usize, 2) } else {
        let k = (b[1] & 0x7f) as usize;
        if k == 0 || k > 3 || b.len() < 2 + k { return None; }
        let mut n = 0usize; for i in 0..k { n = n << 8 | b[2 + i] as usize; }
        (n, 2 + k)
    };
    if b.len() < h + n { return None; }
    Some((b[0], &b[h..h + n], &b[h + n..]))
}
pub fn ts_request(nego: Option<&[u8]>, pub_key_auth: Option<&[u8]>, version: u8) -> Vec<u8> {
    let mut body = der(0xa0, &der(0x02, &[version]));
    if let Some(n) = nego { body.extend(der(0xa1, &der(0x30, &der(0x30, &der(0xa0, &der(0x04, n)))))); }
    if let Some(p) = pub_key_auth { body.extend(der(0xa3, &der(0x04, p))); }
    der(0x30, &body)
}
#[derive(Default, Clone, Debug)]
pub struct TsFields { pub nego: Option<Vec<u8>>, pub auth_info: Option<Vec<u8>>, pub pub_key_auth: Option<Vec<u8>> }
pub fn parse_ts_request(b: &[u8]) -> Option<TsFields> {
    let (t, mut body, _) = tlv(b)?;
    if t != 0x30 { return None; }
    let mut f = TsFields::default();
    while !body.is_empty() {
        let (tag, c, rest) = tlv(body)?;
        body = rest;
        match tag {
            0xa1 => { let (_, s1, _) = tlv(c)?; let (_, s2, _) = tlv(s1)?; let (_, s3, _) = tlv(s2)?; let (t4, tok, _) = tlv(s3)?; if t4 == 4 { f.nego = Some(tok.to_vec()); } }
            0xa2 => { let (t1, v, _) = tlv(c)?; if t1 == 4 { f.auth_info = Some(v.to_vec()); } }
            0xa3 => { let (t1, v, _) = tlv(c)?; if t1 == 4 { f.pub_key_auth = Some(v.to_vec()); } }
            _ => {}
        }
    }
    Some(f)
}
/// read exactly one DER TLV from a stream
pub fn read_der<S: Read>(s: &mut S) -> Option<Vec<u8>> {
    let mut h = [0u8; 2];
    s.read_exact(&mut h).ok()?;
    let mut v = h.to_vec();
    let n = if h[1] < 0x80 { h[1] as usize } else {
        let k = (h[1] & 0x7f) as usize;
        if k == 0 || k > 3 { return None; }
        let mut e = vec![0u8; k]; s.read_exact(&mut e).ok()?; v.extend(&e);
        e.iter().fold(0usize, |a, x| a << 8 | *x as usize)
    };
    let mut body = vec![0u8; n];
    s.read_exact(&mut body).ok()?;
    v.extend(body);
    Some(v)
}

// ---------------------------------------------------------------- RC4 / SEAL
#[derive(Clone)]
pub struct Rc4 { s: Vec<u8>, i: u8, j: u8 }
impl Rc4 {
    pub fn new(key: &[u8]) -> Self {
        let mut s: Vec<u8> = (0..=255u8).collect(); let mut j: u8 = 0;
        for i in 0..256 { j = j.wrapping_add(s[i]).wrapping_add(key[i % key.len()]); s.swap(i, j as usize); }
        Rc4 { s, i: 0, j: 0 }
    }
    pub fn process(&mut self, data: &[u8]) -> Vec<u8> {
        let mut out = vec![];
        for b in data {
            self.i = self.i.wrapping_add(1); self.j = self.j.wrapping_add(self.s[self.i as usize]);
            self.s.swap(self.i as usize, self.j as usize);
            out.push(b ^ self.s[(self.s[self.i as usize].wrapping_add(self.s[self.j as usize])) as usize]);
        }
        out
    }
}
pub fn magic_key(k: &[u8], magic: &str) -> Vec<u8> { let mut v = k.to_vec(); v.extend(magic.as_bytes()); v.push(0); md5(&v) }
pub struct ServerSeal { pub seal_out: Rc4, pub seal_in: Rc4, pub sign_out: Vec<u8>, pub sign_in: Vec<u8>, pub seq_out: u32 }
impl ServerSeal {
    pub fn new(exported: &[u8]) -> Self {
        ServerSeal {
            seal_out: Rc4::new(&magic_key(exported, "session key to server-to-client sealing key magic constant")),
            seal_in: Rc4::new(&magic_key(exported, "session key to client-to-server sealing key magic constant")),
            sign_out: magic_key(exported, "session key to server-to-client signing key magic constant"),
            sign_in: magic_key(exported, "session key to client-to-server signing key magic constant"),
            seq_out: 0,
        }
    }
    /// MS-NLMP 3.4.3/3.4.4 with extended session security + key exchange
    pub fn seal_with_seq(&mut self, msg: &[u8], seq: u32) -> Vec<u8> {
        let ct = self.seal_out.process(msg);
        let mut d = seq.to_le_bytes().to_vec(); d.extend_from_slice(msg);
        let chk = self.seal_out.process(&hmac_md5(&self.sign_out, &d)[..8]);
        let mut out = vec![1, 0, 0, 0]; out.extend(chk); out.extend(&seq.to_le_bytes()); out.extend(ct);
        out
    }
    pub fn seal(&mut self, msg: &[u8]) -> Vec<u8> { let s = self.seq_out; self.seq_out += 1; self.seal_with_seq(msg, s) }
    /// plaintext and whether the signature verified
    pub fn unseal(&mut self, tok: &[u8]) -> Option<(Vec<u8>, bool)> {
        if tok.len() < 16 { return None; }
        let pt = self.seal_in.process(&tok[16..]);
        let chk = self.seal_in.process(&tok[4..12]);
        let mut d = tok[12..16].to_vec(); d.extend_from_slice(&pt);
        let good = tok[..4] == [1, 0, 0, 0] && chk[..] == hmac_md5(&self.sign_in, &d)[..8];
        Some((pt, good))
    }
}

// ---------------------------------------------------------------- NTLM server
fn u16at(b: &[u8], o: usize) -> usize { b[o] as usize | (b[o + 1] as usize) << 8 }
fn u32at(b: &[u8], o: usize) -> usize { u16at(b, o) | u16at(b, o + 2) << 16 }
fn field(b: &[u8], o: usize) -> Option<&[u8]> { if b.len() < o + 8 { return None; } let (l, off) = (u16at(b, o), u32at(b, o + 4)); if off + l > b.len() { None } else { Some(&b[off..off + l]) } }

pub struct Account { pub domain: String, pub user: String, pub password: String }
impl Account { pub fn key(&self) -> Vec<u8> { ntowfv2(&md4(&utf16(&self.password)), &self.user, &self.domain) } }

/// exported session key if the NT proof verifies for the account (MS-NLMP 3.3.2 / 3.1.5.1.2)
pub fn recover_exported_key(acc_key: &[u8], server_challenge: &[u8], auth: &[u8]) -> Option<Vec<u8>> {
    if auth.len() < 64 || &auth[..8] != b"NTLMSSP\0" || u32at(auth, 8) != 3 { return None; }
    let nt = field(auth, 20)?;
    let ek = field(auth, 52)?;
    if nt.len() < 16 || ek.len() != 16 { return None; }
    let mut d = server_challenge.to_vec(); d.extend_from_slice(&nt[16..]);
    if hmac_md5(acc_key, &d) != &nt[..16] { return None; }
    let sbk = hmac_md5(acc_key, &nt[..16]);
    Some(Rc4::new(&sbk).process(ek))
}

/// little-endian big integer + k (k may be negative); None when the result is negative
pub fn le_add(v: &[u8], k: i128) -> Option<Vec<u8>> {
    let mut out = v.to_vec();
    if k >= 0 {
        let mut carry = k as u128;
        let mut i = 0;
        while carry > 0 { if i == out.len() { out.push(0); } let s = out[i] as u128 + (carry & 0xff); out[i] = s as u8; carry = (carry >> 8) + (s >> 8); i += 1; }
        Some(out)
    } else {
        let mut borrow = (-k) as u128;
        let mut i = 0;
        while borrow > 0 { if i == out.len() { return None; } let sub = borrow & 0xff; let cur = out[i] as i64 - sub as i64; borrow >>= 8; if cur < 0 { out[i] = (cur + 256) as u8; borrow += 1; } else { out[i] = cur as u8; } i += 1; }
        Some(out)
    }
}

pub fn identity(n: usize) -> (native_tls::Identity, Vec<u8>) {
    let dir = concat!(env!("CARGO_MANIFEST_DIR"), "/tls");
    let cert = std::fs::read(format!("{}/c{}.pem", dir, n)).expect("tls certificate");
    let pkey = std::fs::read(format!("{}/k{}.pem", dir, n)).expect("tls key");
    let spk = std::fs::read(format!("{}/id{}.spk", dir, n)).expect("tls spk");
    (native_tls::Identity::from_pkcs8(&cert, &pkey).expect("identity"), spk)
}

pub fn write_all<S: Write>(s: &mut S, b: &[u8]) -> bool { s.write_all(b).is_ok() && s.flush().is_ok() }
