//! Reference server pieces written in the harness (never calling rdp's encoders): server
//! message builders, a reactive in-memory server for the MCS/licence phase, a decoder of
//! client frames.  They are the *environment*; whether the client's side is right is
//! decided by the Lean model and specifications.
use crate::io::Pipe;
use rdp::core::client::RdpClient;
use rdp::core::gcc::KeyboardLayout;
use rdp::core::global;
use rdp::core::mcs;
use rdp::core::sec;
use rdp::core::tpkt;
use rdp::core::x224;
use rdp::model::link::{Link, Stream};
use std::cell::RefCell;
use std::rc::Rc;

pub fn le16(v: u16) -> Vec<u8> { v.to_le_bytes().to_vec() }
pub fn le32(v: u32) -> Vec<u8> { v.to_le_bytes().to_vec() }
pub fn be16(v: u16) -> Vec<u8> { v.to_be_bytes().to_vec() }
pub fn cat(parts: &[&[u8]]) -> Vec<u8> { let mut v = vec![]; for p in parts { v.extend_from_slice(p); } v }

pub fn perlen(n: usize) -> Vec<u8> { if n > 0x7f { vec![0x80 | (n >> 8) as u8, n as u8] } else { vec![n as u8] } }
pub fn tpkt_frame(payload: &[u8]) -> Vec<u8> { let n = payload.len() + 4; cat(&[&[3, 0, (n >> 8) as u8, n as u8], payload]) }
pub fn x224_data(payload: &[u8]) -> Vec<u8> { tpkt_frame(&cat(&[&[2, 0xf0, 0x80], payload])) }
pub fn mcs_sdin(channel: u16, data: &[u8]) -> Vec<u8> { x224_data(&cat(&[&[0x68, 0x00, 0x01], &be16(channel), &[0x70], &perlen(data.len()), data])) }
pub fn fast_path_frame(flags: u8, payload: &[u8]) -> Vec<u8> {
    let action = flags << 6;
    if payload.len() + 2 <= 0x7f { cat(&[&[action, (payload.len() + 2) as u8], payload]) }
    else { let n = payload.len() + 3; cat(&[&[action, 0x80 | (n >> 8) as u8, n as u8], payload]) }
}

#[derive(Clone)]
pub struct SrvParams {
    pub uid: u16,
    pub version: u32,
    pub selected: u32,
    pub license_new: bool,
}
impl Default for SrvParams { fn default() -> Self { SrvParams { uid: 1004, version: 0x00080004, selected: 1, license_new: false } } }

pub fn gcc_response(p: &SrvParams) -> Vec<u8> {
    let blocks = cat(&[
        &[0x01, 0x0c, 0x0c, 0x00], &le32(p.version), &le32(p.selected),
        &[0x02, 0x0c, 0x0c, 0x00, 0, 0, 0, 0, 0, 0, 0, 0],
        &[0x03, 0x0c, 0x08, 0x00, 0xeb, 0x03, 0x00, 0x00],
    ]);
    let tail = cat(&[&[0x14, 0x76, 0x0a, 0x01, 0x01, 0x00, 0x01, 0xc0, 0x00], b"McDn", &perlen(blocks.len()), &blocks]);
    cat(&[&[0x00, 0x05, 0x00, 0x14, 0x7c, 0x00, 0x01], &perlen(tail.len()), &tail])
}
/// conference-create response whose SC_NET block announces the given static channel ids
/// (MS-RDPBCGR 2.2.1.4.4: a 2-byte pad follows an odd number of ids)
pub fn gcc_response_channels(p: &SrvParams, ids: &[u16], pad: bool) -> Vec<u8> {
    let mut net = cat(&[&[0xeb, 0x03], &le16(ids.len() as u16)]);
    for i in ids { net.extend(le16(*i)); }
    if pad && ids.len() % 2 == 1 { net.extend(&[0, 0]); }
    let blocks = cat(&[
        &[0x01, 0x0c, 0x0c, 0x00], &le32(p.version), &le32(p.selected),
        &[0x02, 0x0c, 0x0c, 0x00, 0, 0, 0, 0, 0, 0, 0, 0],
        &[0x03, 0x0c], &le16((net.len() + 4) as u16), &net,
    ]);
    let tail = cat(&[&[0x14, 0x76, 0x0a, 0x01, 0x01, 0x00, 0x01, 0xc0, 0x00], b"McDn", &perlen(blocks.len()), &blocks]);
    cat(&[&[0x00, 0x05, 0x00, 0x14, 0x7c, 0x00, 0x01], &perlen(tail.len()), &tail])
}
fn ber_len(n: usize) -> Vec<u8> { if n < 0x80 { vec![n as u8] } else if n < 0x100 { vec![0x81, n as u8] } else { vec![0x82, (n >> 8) as u8, n as u8] } }
pub fn connect_response(p: &SrvParams) -> Vec<u8> { connect_response_form(p, 0) }
/// BER length in a chosen form: 0 = shortest (DER), 1 = long form with one more octet than needed
/// (0x81 n for n < 128, 0x82 0 n ...), 2 = always 0x82 hi lo (what Windows servers emit)
pub fn ber_len_form(n: usize, form: u8) -> Vec<u8> {
    match form {
        0 => ber_len(n),
        1 => if n < 0x80 { vec![0x81, n as u8] } else if n < 0x100 { vec![0x82, 0, n as u8] } else { vec![0x83, 0, (n >> 8) as u8, n as u8] },
        _ => vec![0x82, (n >> 8) as u8, n as u8],
    }
}
/// the MCS connect response with every constructed / string length in the given BER form
/// (BER permits any of them; a conforming client reads all)
pub fn connect_response_form(p: &SrvParams, form: u8) -> Vec<u8> { x224_data(&connect_response_body(&gcc_response(p), form)) }
pub fn connect_response_body(gcc: &[u8], form: u8) -> Vec<u8> {
    let dp = [0x02u8, 0x01, 0x16, 0x02, 0x01, 0x03, 0x02, 0x01, 0x00, 0x02, 0x01, 0x01, 0x02, 0x01, 0x00, 0x02, 0x01, 0x01, 0x02, 0x03, 0x00, 0xff, 0xf8, 0x02, 0x01, 0x02];
    let body = cat(&[
        &[0x0a, 0x01, 0x00, 0x02, 0x01, 0x00],
        &[0x30], &ber_len_form(dp.len(), form), &dp,
        &[0x04], &ber_len_form(gcc.len(), form), gcc,
    ]);
    cat(&[&[0x7f, 0x66], &ber_len_form(body.len(), form), &body])
}
pub fn license_valid(p: &SrvParams) -> Vec<u8> {
    if p.license_new { vec![0x80, 0, 0, 0, 0x03, 0x03, 0x04, 0x00] }
    else { cat(&[&[0x80, 0, 0, 0, 0xff, 0x03, 0x10, 0x00], &le32(7), &le32(2), &[0x04, 0, 0, 0]]) }
}

pub fn share_control(pdu_type: u16, source: u16, body: &[u8]) -> Vec<u8> { cat(&[&le16((6 + body.len()) as u16), &le16(pdu_type), &le16(source), body]) }
pub fn share_data(share_id: u32, type2: u8, body: &[u8]) -> Vec<u8> {
    share_control(0x17, 0x03ea, &cat(&[&le32(share_id), &[0, 1], &le16((body.len() + 18) as u16), &[type2, 0], &le16(0), body]))
}
pub fn cap(ty: u16, body: &[u8]) -> Vec<u8> { cat(&[&le16(ty), &le16((body.len() + 4) as u16), body]) }
pub fn demand_active(share_id: u32, source: &[u8], caps: &[Vec<u8>]) -> Vec<u8> {
    let capb: Vec<u8> = caps.iter().flat_map(|c| c.clone()).collect();
    share_control(0x11, 0x03ea, &cat(&[&le32(share_id), &le16(source.len() as u16), &le16((capb.len() + 4) as u16), source, &le16(caps.len() as u16), &le16(0), &capb, &le32(0)]))
}
/// a (client-to-server) confirm-active PDU, as a hostile server might reflect it
pub fn confirm_active(share_id: u32, source: &[u8], caps: &[Vec<u8>]) -> Vec<u8> {
    let capb: Vec<u8> = caps.iter().flat_map(|c| c.clone()).collect();
    share_control(0x13, 0x03ea, &cat(&[&le32(share_id), &le16(0x03ea), &le16(source.len() as u16), &le16((capb.len() + 4) as u16), source, &le16(caps.len() as u16), &le16(0), &capb]))
}
pub fn deactivate_all(share_id: u32, source: &[u8]) -> Vec<u8> { share_control(0x16, 0x03ea, &cat(&[&le32(share_id), &le16(source.len() as u16), source])) }
pub fn synchronize(share_id: u32, target: u16) -> Vec<u8> { share_data(share_id, 0x1f, &cat(&[&le16(1), &le16(target)])) }
pub fn control(share_id: u32, action: u16, grant: u16, ctrl: u32) -> Vec<u8> { share_data(share_id, 0x14, &cat(&[&le16(action), &le16(grant), &le32(ctrl)])) }
pub fn font_map(share_id: u32) -> Vec<u8> { share_data(share_id, 0x28, &cat(&[&le16(0), &le16(0), &le16(3), &le16(4)])) }
pub fn error_info(share_id: u32, code: u32) -> Vec<u8> { share_data(share_id, 0x2f, &le32(code)) }

#[derive(Clone, Debug)]
pub struct Rect { pub l: u16, pub t: u16, pub r: u16, pub b: u16, pub w: u16, pub h: u16, pub bpp: u16, pub flags: u16, pub data: Vec<u8> }
pub fn rect_bytes(r: &Rect) -> Vec<u8> {
    let with_hdr = r.flags & 1 != 0 && r.flags & 0x400 == 0;
    let blen = if with_hdr { r.data.len() + 8 } else { r.data.len() };
    let mut v = cat(&[&le16(r.l), &le16(r.t), &le16(r.r), &le16(r.b), &le16(r.w), &le16(r.h), &le16(r.bpp), &le16(r.flags), &le16(blen as u16)]);
    if with_hdr { v.extend(cat(&[&le16(0), &le16(r.data.len() as u16), &le16(0), &le16(0)])); }
    v.extend_from_slice(&r.data);
    v
}
pub fn fp_update(code: u8, data: &[u8]) -> Vec<u8> { cat(&[&[code & 0xf], &le16(data.len() as u16), data]) }
pub fn fp_bitmap_update(rects: &[Rect]) -> Vec<u8> {
    let body: Vec<u8> = rects.iter().flat_map(rect_bytes).collect();
    fp_update(1, &cat(&[&le16(1), &le16(rects.len() as u16), &body]))
}

/// split a client byte stream into TPKT frames (complete ones), returning the remainder
pub fn split_frames(buf: &[u8]) -> (Vec<Vec<u8>>, usize) {
    let mut out = vec![]; let mut i = 0;
    while i + 4 <= buf.len() {
        if buf[i] != 3 { break; }
        let n = ((buf[i + 2] as usize) << 8) | buf[i + 3] as usize;
        if n < 4 || i + n > buf.len() { break; }
        out.push(buf[i..i + n].to_vec());
        i += n;
    }
    (out, i)
}

/// what the reactive server saw and decoded
#[derive(Default)]
pub struct SrvLog { pub frames: Vec<Vec<u8>>, pub buf: Vec<u8> }

/// the reactive reference server for the MCS connect + licence phase
pub fn responder(p: SrvParams, log: Rc<RefCell<SrvLog>>) -> crate::io::Responder {
    Box::new(move |new: &[u8]| {
        let mut lg = log.borrow_mut();
        lg.buf.extend_from_slice(new);
        let (frames, used) = split_frames(&lg.buf);
        lg.buf.drain(..used);
        let mut ans = vec![];
        for f in frames {
            lg.frames.push(f.clone());
            if f.len() < 8 { continue; }
            let m = &f[7..];
            if m[0] == 0x7f { ans.extend(connect_response(&p)); continue; }
            match m[0] >> 2 {
                10 => ans.extend(x224_data(&cat(&[&[0x2e, 0x00], &be16(p.uid - 1001)]))),
                14 => { if m.len() >= 5 { ans.extend(x224_data(&cat(&[&[0x3e, 0x00], &m[1..5], &m[3..5]]))); } }
                25 => {
                    // send data request: 64 uid(2) chan(2) 70 perlen data
                    if m.len() > 8 {
                        let off = if m[6] & 0x80 != 0 { 8 } else { 7 };
                        let data = &m[off..];
                        if data.len() >= 4 && data[0] == 0x40 && data[1] == 0 { ans.extend(mcs_sdin(1003, &license_valid(&p))); }
                    }
                }
                _ => {}
            }
        }
        ans
    })
}

pub struct Session {
    pub pipe: Pipe,
    pub client: RdpClient<Pipe>,
    pub log: Rc<RefCell<SrvLog>>,
}

/// connect the real MCS + sec layers against the reactive server and assemble the client
pub fn session(p: &SrvParams, width: u16, height: u16, layout: KeyboardLayout, name: &str) -> Result<Session, String> {
    let pipe = Pipe::new(vec![], vec![]);
    let log = Rc::new(RefCell::new(SrvLog::default()));
    pipe.set_responder(responder(p.clone(), log.clone()));
    let t = tpkt::Client::new(Link::new(Stream::Raw(pipe.clone())));
    let x = x224::Client::verif_new(t, x224::Protocols::ProtocolSSL);
    let mut m = mcs::Client::new(x);
    m.connect(name.to_string(), width, height, layout).map_err(|e| format!("mcs connect: {:?}", e))?;
    sec::connect(&mut m, &"dom".to_string(), &"user".to_string(), &"pw".to_string(), false).map_err(|e| format!("sec connect: {:?}", e))?;
    let g = global::Client::new(m.get_user_id(), m.get_global_channel_id(), width, height, layout, name);
    pipe.clear_responder();
    pipe.take_written();
    Ok(Session { pipe, client: RdpClient::verif_new(m, g), log })
}
