//! C14 — outbound frames exact and completely delivered, or refused: real
//! tpkt::Client::write / x224::Client::write over an adversarial Write.
use crate::common::*;
use crate::io::Pipe;
use rdp::core::tpkt;
use rdp::core::x224;
use rdp::model::link::{Link, Stream};

pub fn fnv1a(b: &[u8]) -> u64 {
    let mut h: u64 = 0xcbf29ce484222325;
    for x in b { h = (h ^ (*x as u64)).wrapping_mul(0x100000001b3); }
    h
}
pub fn show_out(b: &[u8]) -> String {
    if b.len() <= 64 { format!("out={}", hex(b)) } else { format!("out=#{}:{}", b.len(), fnv1a(b)) }
}
pub fn parse_payload(s: &str) -> Vec<u8> {
    if s.starts_with("pat:") {
        let p: Vec<&str> = s.split(':').collect();
        let len: usize = p[1].parse().unwrap();
        let seed: usize = p[2].parse().unwrap();
        (0..len).map(|i| (i * 7 + seed) as u8).collect()
    } else { unhex(s) }
}
fn parse_wsched(s: &str) -> Vec<Option<usize>> {
    if s == "-" { return vec![]; }
    s.split(',').map(|t| if t == "x" || t == "w" || t == "t" || t == "r" { None } else { Some(t.parse().unwrap()) }).collect()
}
/// error kinds of the failing calls: x BrokenPipe, w WouldBlock, t TimedOut, r ConnectionReset
fn parse_werr(s: &str) -> Vec<std::io::ErrorKind> {
    use std::io::ErrorKind::*;
    s.split(',').filter_map(|t| match t { "x" => Some(BrokenPipe), "w" => Some(WouldBlock), "t" => Some(TimedOut), "r" => Some(ConnectionReset), _ => None }).collect()
}

/// several messages written one after the other on the SAME link (`p1/p2/...`)
fn run_multi(toks: &[&str], em: &mut Emitter) {
    let line = toks.join(" ");
    let payloads: Vec<Vec<u8>> = toks[1].split('/').map(parse_payload).collect();
    let ws = parse_wsched(toks[2]);
    let we = parse_werr(toks[2]);
    em.case(&line, move || {
        let pipe = Pipe::new(vec![], vec![]).with_wsched(ws).with_werr(we);
        let mut t = tpkt::Client::new(Link::new(Stream::Raw(pipe.clone())));
        let mut res = vec![];
        for p in payloads { res.push(if t.write(p).is_ok() { "ok" } else { "E" }); }
        Obs::new(format!("{} {}", res.join(","), show_out(&pipe.written()))).nt(true)
    });
}

/// `link_write`: a message handed to `Link::write` itself (no 16-bit limit there);
/// `tpkt_write_msg`: a structured message (shape language of C18, with skippable and size-dependent
/// fields) handed to `tpkt::Client::write`
fn run_other(toks: &[&str], em: &mut Emitter) {
    let line = toks.join(" ");
    let t: Vec<String> = toks.iter().map(|s| s.to_string()).collect();
    em.case(&line, move || {
        let ws = parse_wsched(&t[2]); let we = parse_werr(&t[2]);
        let pipe = Pipe::new(vec![], vec![]).with_wsched(ws).with_werr(we);
        let r = if t[0] == "link_write" {
            let mut l = Link::new(Stream::Raw(pipe.clone()));
            l.write(&parse_payload(&t[1])).is_ok()
        } else {
            let m = crate::shape::build(&crate::shape::parse(&t[1]).unwrap());
            let mut tp = tpkt::Client::new(Link::new(Stream::Raw(pipe.clone())));
            let tr: rdp::model::data::Trame = vec![m];
            tp.write(tr).is_ok()
        };
        Obs::new(format!("{} {}", if r { "ok" } else { "E" }, show_out(&pipe.written()))).nt(r)
    });
}

pub fn run_case(toks: &[&str], em: &mut Emitter) {
    if toks[0] == "tpkt_writes" { return run_multi(toks, em); }
    if toks[0] == "link_write" || toks[0] == "tpkt_write_msg" { return run_other(toks, em); }
    let line = toks.join(" ");
    let op = toks[0].to_string();
    let payload = parse_payload(toks[1]);
    let ws = parse_wsched(toks[2]);
    let we = parse_werr(toks[2]);
    em.case(&line, move || {
        let refused_by_stream = ws.iter().any(|a| a.is_none() || *a == Some(0));
        let plen = payload.len();
        let pipe = Pipe::new(vec![], vec![]).with_wsched(ws).with_werr(we);
        let t = tpkt::Client::new(Link::new(Stream::Raw(pipe.clone())));
        // `_sd`: shutdown() was called on the client before (on a raw stream it leaves the stream as it is): the message is
        // still emitted as one exact frame, or refused
        let r = if op == "x224_write" || op == "x224_write_sd" {
            let mut x = x224::Client::verif_new(t, x224::Protocols::ProtocolSSL);
            if op == "x224_write_sd" { let _ = x.shutdown(); }
            x.write(payload)
        } else {
            let mut t = t;
            if op == "tpkt_write_sd" { let _ = t.shutdown(); }
            t.write(payload)
        };
        let out = pipe.written();
        let o = Obs::new(format!("{} {}", if r.is_ok() { "ok" } else { "E" }, show_out(&out)))
            .nt(r.is_ok() && plen > 0)
            .tag(if refused_by_stream { "stream-refuses" } else { "stream-willing" });
        o
    });
}

pub fn emit(em: &mut Emitter, op: &str, p: &str, w: &str) {
    let line = format!("{} {} {}", op, p, w);
    let toks: Vec<&str> = line.split(' ').collect();
    run_case(&toks, em);
}

fn gen_wsched(r: &mut Rng, total: usize) -> String {
    let n = total + 12;
    match r.below(7) {
        0 => "-".to_string(),
        1 => vec!["1"; n.min(300)].join(","),
        2 => vec!["3"; n.min(300)].join(","),
        3 => (0..n.min(200)).map(|_| r.range(1, 9).to_string()).collect::<Vec<_>>().join(","),
        4 => { // an error injected at a random call
            let k = r.below(8) as usize;
            let mut v: Vec<String> = (0..k).map(|_| r.range(1, 5).to_string()).collect(); v.push("x".into()); v.join(",") }
        5 => { // zero-then-progress
            let k = r.below(4) as usize;
            let mut v: Vec<String> = (0..k).map(|_| r.range(1, 5).to_string()).collect(); v.push("0".into()); v.push("100".into()); v.join(",") }
        _ => (0..8).map(|_| r.range(1, 2000).to_string()).collect::<Vec<_>>().join(","),
    }
}

pub fn generate(thorough: bool, seed: u64, part: (usize, usize), em: &mut Emitter) {
    let mut r = Rng::new(seed ^ 0xC14);
    if part.0 == 0 {
        // boundaries of the 16-bit length, for both layers, complete and piecewise streams
        for &len in &[0usize, 1, 2, 5, 251, 252, 253, 65527, 65528, 65529, 65530, 65531, 65532, 65533, 65534, 65535, 65536, 65537, 70000, 131072] {
            for w in &["-", "1000,1000,1000,1000,1000,1000,1000,1000,1000,1000,1000,1000,1000,1000,1000,1000,1000,1000,1000,1000,1000,1000,1000,1000,1000,1000,1000,1000,1000,1000,1000,1000,1000,1000,1000,1000,1000,1000,1000,1000,1000,1000,1000,1000,1000,1000,1000,1000,1000,1000,1000,1000,1000,1000,1000,1000,1000,1000,1000,1000,1000,1000,1000,1000,1000,1000,1000,1000,1000,1000,1000,1000,1000,1000,1000,1000,1000,1000,1000,1000", "7,x"] {
                emit(em, "tpkt_write", &format!("pat:{}:1", len), w);
                emit(em, "x224_write", &format!("pat:{}:2", len), w);
            }
        }
        // a write after shutdown() on the same client (raw stream): one exact frame all the same, oversize still refused
        for &len in &[0usize, 1, 20, 300, 65531, 65532, 70000] { for w in &["-", "1,1,1,1,1,1,1,1,1,1,1,1,1,1,1,1,1,1,1,1,1,1,1,1,1,1,1,1,1,1", "3,1000,1000,100000"] {
            emit(em, "tpkt_write_sd", &format!("pat:{}:3", len), w);
            emit(em, "x224_write_sd", &format!("pat:{}:4", len), w);
        } }
        // small payloads: an error or a zero-length accept injected at every call position, caps 1..4
        let maxp = if thorough { 24 } else { 8 };
        for len in 0..=maxp {
            for cap in 1..=4usize {
                let calls = (len + 4 + cap - 1) / cap + 1;
                for pos in 0..=calls {
                    for bad in &["x", "0"] {
                        let mut v: Vec<String> = vec![cap.to_string(); pos]; v.push(bad.to_string());
                        emit(em, "tpkt_write", &format!("pat:{}:3", len), &v.join(","));
                    }
                }
                emit(em, "tpkt_write", &format!("pat:{}:3", len), &vec![cap.to_string(); calls + 2].join(","));
            }
        }
    }
    if part.0 == 0 {
        // sequences of messages of shrinking / growing / equal sizes on one link
        for _ in 0..(if thorough { 2000 } else { 200 }) {
            let k = r.range(2, 5);
            let ps: Vec<String> = (0..k).map(|i| { let len = match r.below(4) { 0 => r.below(4), 1 => r.below(40), 2 => r.below(300), _ => r.below(3000) } as usize; format!("pat:{}:{}", len, i + 1) }).collect();
            let w = if r.chance(1, 2) { "-".to_string() } else { gen_wsched(&mut r, 40) };
            emit(em, "tpkt_writes", &ps.join("/"), &w);
        }
        // every kind of stream error, at every call position of a small frame
        for kind in &["x", "w", "t", "r"] { for pos in 0..6usize { for cap in &[1usize, 3, 100] {
            let mut v: Vec<String> = vec![cap.to_string(); pos]; v.push(kind.to_string()); v.push("100".into());
            emit(em, "tpkt_write", "pat:9:4", &v.join(","));
            emit(em, "tpkt_writes", "pat:9:4/pat:3:5", &v.join(","));
            // after an interrupted frame: another message of exactly the same length, the same message again
            emit(em, "tpkt_writes", "pat:9:4/pat:9:5", &v.join(","));
            emit(em, "tpkt_writes", "pat:9:4/pat:9:4/pat:9:6/pat:2:1", &v.join(","));
        } } }
    }
    if part.0 == 0 {
        // an oversized message right after a legal frame whose length is congruent modulo 65536 (and not)
        for l in &[0usize, 1, 10, 1000] { for k in &[65536usize, 131072] { for gap in &[0usize, 1] {
            emit(em, "tpkt_writes", &format!("pat:{}:1/pat:{}:2/pat:{}:3", l, l + k + gap, l), "-");
        } } }
    }
    if part.0 == 0 {
        // Link::write itself: no frame limit, every byte of any message must arrive
        for &len in &[0usize, 1, 1500, 65535, 65536, 65537, 70000, 131072, 200000] { for w in &["-", "7,7,7,7,7,7,7,7", "65536,65536,65536,65536", "4096,0,100"] {
            emit(em, "link_write", &format!("pat:{}:6", len), w);
        } }
        // structured messages (records with size-dependent and skippable fields) through tpkt::write
        for _ in 0..(if thorough { 3000 } else { 300 }) {
            let depth = r.range(0, 3) as u32;
            let v = crate::props::c18::gen_value(&mut r, depth);
            let w = if r.chance(1, 2) { "-".to_string() } else { gen_wsched(&mut r, 20) };
            emit(em, "tpkt_write_msg", &v, &w);
        }
    }
    let n = if thorough { 20000 } else { 2000 };
    for _ in 0..n {
        let len = match r.below(6) { 0 => r.below(8), 1 => r.below(300), 2 => r.below(3000), 3 => 65500 + r.below(80), _ => r.below(64) } as usize;
        let p = if len <= 32 && r.chance(1, 2) { hex(&r.bytes(len)) } else { format!("pat:{}:{}", len, r.below(256)) };
        let w = gen_wsched(&mut r, if len > 400 { 40 } else { len });
        emit(em, if r.chance(1, 3) { "x224_write" } else { "tpkt_write" }, &p, &w);
    }
    if thorough {
        // every payload length in this part's slice of 0..70000, three schedules
        let (k, n) = part;
        let mut len = k;
        while len <= 70000 {
            let w = match len % 3 { 0 => "-".to_string(), 1 => "1,2,3,4,5,6,7,8".to_string(), _ => "4096,4096,4096,4096,4096,4096,4096,4096,4096,4096,4096,4096,4096,4096,4096,4096,4096".to_string() };
            emit(em, "tpkt_write", &format!("pat:{}:5", len), &w);
            len += n;
        }
    }
}
