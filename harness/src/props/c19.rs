//! C19 — the real fast_bitmap_transfer (via include!) on a window buffer followed by a
//! canary zone; image delivered as an uncompressed 32 bpp event so decompress is identity.
use crate::common::*;
use rdp::core::event::BitmapEvent;

const CANARY: u32 = 0xCA7A_C1A5;
const GUARD: usize = 256;

/// `blitz`: a COMPRESSED 32 bpp event whose data is only the format header, for degenerate
/// geometries (zero width / height): fast_bitmap_transfer must refuse or paint nothing, not crash
fn run_blitz(toks: &[&str], em: &mut Emitter) {
    let line = toks.join(" ");
    let v: Vec<usize> = toks[1..].iter().map(|t| t.parse().unwrap()).collect();
    let (width, buflen, left, top, right, bottom, bw, bh) = (v[0], v[1], v[2], v[3], v[4], v[5], v[6], v[7]);
    em.case(&line, move || {
        let mut buffer: Vec<u32> = (0..buflen).map(|j| 0xB000_0000 | j as u32).collect();
        let bpp: u16 = if v.len() > 8 { v[8] as u16 } else { 32 };
        let data = if bpp == 16 { vec![0x61, 0x34, 0x12] } else { vec![0x10] };
        let ev = BitmapEvent { dest_left: left as u16, dest_top: top as u16, dest_right: right as u16, dest_bottom: bottom as u16, width: bw as u16, height: bh as u16, bpp, is_compress: true, data };
        let r = crate::gui::verif_fast_bitmap_transfer(&mut buffer, width, ev);
        let cells: Vec<String> = buffer.iter().enumerate().map(|(j, c)| if *c == (0xB000_0000 | j as u32) { ".".to_string() } else { format!("?{:08x}", c) }).collect();
        Obs::new(format!("{} {}", if r.is_ok() { "ok" } else { "E" }, cells.join(","))).nt(true)
    });
}

/// `blit16`: an UNCOMPRESSED 16 bpp event (bottom-up 5-6-5 pixels) painted through decompress()
fn run_blit16(toks: &[&str], em: &mut Emitter) {
    let line = toks.join(" ");
    let v: Vec<usize> = toks[1..].iter().map(|t| t.parse().unwrap()).collect();
    let (width, buflen, left, top, right, bottom, bw, bh, npix) = (v[0], v[1], v[2], v[3], v[4], v[5], v[6], v[7], v[8]);
    em.case(&line, move || {
        let mut buffer: Vec<u32> = (0..buflen).map(|j| 0xB000_0000 | j as u32).collect();
        let mut data = Vec::with_capacity(npix * 2);
        for k in 0..npix { let px = ((k * 2749 + 7) & 0xffff) as u16; data.extend_from_slice(&px.to_le_bytes()); }
        let ev = BitmapEvent { dest_left: left as u16, dest_top: top as u16, dest_right: right as u16, dest_bottom: bottom as u16, width: bw as u16, height: bh as u16, bpp: 16, is_compress: false, data };
        let r = crate::gui::verif_fast_bitmap_transfer(&mut buffer, width, ev);
        let cells: Vec<String> = buffer.iter().enumerate().map(|(j, c)| if *c == (0xB000_0000 | j as u32) { ".".to_string() } else { format!("?{:08x}", c) }).collect();
        Obs::new(format!("{} {}", if r.is_ok() { "ok" } else { "E" }, cells.join(","))).nt(r.is_ok())
    });
}

/// `blitd`: a COMPRESSED event with the given data (hostile planar / interleaved streams) painted
/// through decompress(): refuse, or paint exactly what the decoder model yields; never crash
fn run_blitd(toks: &[&str], em: &mut Emitter) {
    let line = toks.join(" ");
    let v: Vec<usize> = toks[1..10].iter().map(|t| t.parse().unwrap()).collect();
    let data = unhex(toks[10]);
    let (width, buflen, left, top, right, bottom, bw, bh, bpp) = (v[0], v[1], v[2], v[3], v[4], v[5], v[6], v[7], v[8]);
    em.case(&line, move || {
        let mut buffer: Vec<u32> = (0..buflen).map(|j| 0xB000_0000 | j as u32).collect();
        let ev = BitmapEvent { dest_left: left as u16, dest_top: top as u16, dest_right: right as u16, dest_bottom: bottom as u16, width: bw as u16, height: bh as u16, bpp: bpp as u16, is_compress: true, data };
        let r = crate::gui::verif_fast_bitmap_transfer(&mut buffer, width, ev);
        let cells: Vec<String> = buffer.iter().enumerate().map(|(j, c)| if *c == (0xB000_0000 | j as u32) { ".".to_string() } else { format!("?{:08x}", c) }).collect();
        Obs::new(format!("{} {}", if r.is_ok() { "ok" } else { "E" }, cells.join(","))).nt(r.is_ok())
    });
}

/// `blitseq W BUFLEN l.t.r.b.bw.bh.imgpix ...`: several paints, one after the other, into the same
/// window buffer on the same thread (pixel k of paint p carries 0x1A000000 | p << 20 | k)
fn run_blitseq(toks: &[&str], em: &mut Emitter) {
    let line = toks.join(" ");
    let width: usize = toks[1].parse().unwrap(); let buflen: usize = toks[2].parse().unwrap();
    let paints: Vec<Vec<usize>> = toks[3..].iter().map(|t| t.split('.').map(|x| x.parse().unwrap()).collect()).collect();
    em.case(&line, move || {
        let mut buffer: Vec<u32> = Vec::with_capacity(buflen + GUARD);
        for j in 0..buflen { buffer.push(0xB000_0000 | j as u32); }
        unsafe { let p = buffer.as_mut_ptr().add(buflen); for k in 0..GUARD { p.add(k).write(CANARY); } }
        let mut res = vec![];
        for (pi, g) in paints.iter().enumerate() {
            let (left, top, right, bottom, bw, bh, imgpix) = (g[0], g[1], g[2], g[3], g[4], g[5], g[6]);
            let mut data: Vec<u8> = Vec::with_capacity(imgpix * 4);
            for p in 0..imgpix {
                let k = if bw > 0 && p < bw * bh { (bh - 1 - p / bw) * bw + p % bw } else { p };
                data.extend_from_slice(&(0x1A00_0000u32 | (pi as u32) << 20 | k as u32).to_le_bytes());
            }
            let ev = BitmapEvent { dest_left: left as u16, dest_top: top as u16, dest_right: right as u16, dest_bottom: bottom as u16, width: bw as u16, height: bh as u16, bpp: 32, is_compress: false, data };
            res.push(if crate::gui::verif_fast_bitmap_transfer(&mut buffer, width, ev).is_ok() { "ok" } else { "E" });
        }
        let mut canary_ok = buffer.len() == buflen;
        unsafe { let p = buffer.as_ptr().add(buflen); for k in 0..GUARD { if p.add(k).read() != CANARY { canary_ok = false; } } }
        let mut foreign = false;
        let cells: Vec<String> = buffer.iter().enumerate().map(|(j, c)| {
            if *c == (0xB000_0000 | j as u32) { ".".to_string() } else {
                let (pi, k) = (((*c >> 20) & 0xf) as usize, (*c & 0xfffff) as usize);
                if !(*c & 0xFF00_0000 == 0x1A00_0000 && pi < paints.len() && k < paints[pi][4] * paints[pi][5]) { foreign = true; }
                format!("?{:08x}", c)
            } }).collect();
        let mut o = Obs::new(format!("{} {}", res.join(","), cells.join(","))).nt(res.contains(&"ok"));
        if !canary_ok { o = o.viol("write past the end of the window buffer (canary overwritten)"); }
        else if foreign { o = o.viol("window buffer holds a value that is neither its old content nor an image pixel (read outside the image)"); }
        o
    });
}

/// `blitdseq W BUFLEN BPP HEX l.t.r.b.bw.bh ...`: several COMPRESSED paints carrying the very same data (possibly with
/// different shapes), one after the other, into the same window buffer on the same thread
fn run_blitdseq(toks: &[&str], em: &mut Emitter) {
    let line = toks.join(" ");
    let width: usize = toks[1].parse().unwrap(); let buflen: usize = toks[2].parse().unwrap(); let bpp: u16 = toks[3].parse().unwrap();
    let data = unhex(toks[4]);
    let paints: Vec<Vec<usize>> = toks[5..].iter().map(|t| t.split('.').map(|x| x.parse().unwrap()).collect()).collect();
    em.case(&line, move || {
        let mut buffer: Vec<u32> = (0..buflen).map(|j| 0xB000_0000 | j as u32).collect();
        let mut res = vec![];
        for g in paints.iter() {
            let ev = BitmapEvent { dest_left: g[0] as u16, dest_top: g[1] as u16, dest_right: g[2] as u16, dest_bottom: g[3] as u16, width: g[4] as u16, height: g[5] as u16, bpp, is_compress: true, data: data.clone() };
            res.push(if crate::gui::verif_fast_bitmap_transfer(&mut buffer, width, ev).is_ok() { "ok" } else { "E" });
        }
        let cells: Vec<String> = buffer.iter().enumerate().map(|(j, c)| if *c == (0xB000_0000 | j as u32) { ".".to_string() } else { format!("?{:08x}", c) }).collect();
        Obs::new(format!("{} {}", res.join(","), cells.join(","))).nt(res.contains(&"ok"))
    });
}

pub fn run_case(toks: &[&str], em: &mut Emitter) {
    if toks[0] == "blitdseq" { return run_blitdseq(toks, em); }
    if toks[0] == "blitd" { return run_blitd(toks, em); }
    if toks[0] == "blitseq" { return run_blitseq(toks, em); }
    if toks[0] == "blitz" { return run_blitz(toks, em); }
    if toks[0] == "blit16" { return run_blit16(toks, em); }
    let line = toks.join(" ");
    let v: Vec<usize> = toks[1..].iter().map(|t| t.parse().unwrap()).collect();
    let (width, buflen, left, top, right, bottom, bw, bh, imgpix, extra) = (v[0], v[1], v[2], v[3], v[4], v[5], v[6], v[7], v[8], v[9]);
    em.case(&line, move || {
        let mut buffer: Vec<u32> = Vec::with_capacity(buflen + GUARD);
        for j in 0..buflen { buffer.push(0xB000_0000 | j as u32); }
        unsafe {
            let p = buffer.as_mut_ptr().add(buflen);
            for k in 0..GUARD { p.add(k).write(CANARY); }
        }
        // Raw 32 bpp data arrives bottom-up and decompress() turns it into exactly bw x bh
        // top-down pixels (or refuses shorter data): the data rows are laid out so that image
        // pixel k (row-major, top-down) carries the value k; `imgpix` = pixels supplied,
        // trailing filler only when the image is complete.
        let mut data: Vec<u8> = Vec::with_capacity(imgpix * 4 + extra);
        for p in 0..imgpix {
            let k = if bw > 0 && p < bw * bh { (bh - 1 - p / bw) * bw + p % bw } else { p };
            data.extend_from_slice(&(0x1A00_0000u32 | k as u32).to_le_bytes());
        }
        if imgpix >= bw * bh { for _ in 0..extra { data.push(0xEE); } }
        let ev = BitmapEvent {
            dest_left: left as u16, dest_top: top as u16, dest_right: right as u16, dest_bottom: bottom as u16,
            width: bw as u16, height: bh as u16, bpp: 32, is_compress: false, data,
        };
        let r = crate::gui::verif_fast_bitmap_transfer(&mut buffer, width, ev);
        let mut canary_ok = buffer.len() == buflen;
        unsafe {
            let p = buffer.as_ptr().add(buflen);
            for k in 0..GUARD { if p.add(k).read() != CANARY { canary_ok = false; } }
        }
        let mut cells: Vec<String> = Vec::with_capacity(buflen);
        let mut changed = 0;
        let mut foreign = false;
        for (j, c) in buffer.iter().enumerate() {
            if *c == (0xB000_0000 | j as u32) { cells.push(".".into()); }
            else if *c & 0xFF00_0000 == 0x1A00_0000 && ((*c & 0xFF_FFFF) as usize) < bw * bh { cells.push(format!("{}", c & 0xFF_FFFF)); changed += 1; }
            else { cells.push(format!("?{:08x}", c)); foreign = true; }
        }
        let mut o = Obs::new(format!("{} {}", if r.is_ok() { "ok" } else { "E" }, cells.join(","))).nt(changed > 0);
        if !canary_ok { o = o.viol("write past the end of the window buffer (canary overwritten)"); }
        else if foreign { o = o.viol("window buffer holds a value that is neither its old content nor an image pixel (read outside the image)"); }
        o
    });
}

fn emit(em: &mut Emitter, v: &[usize]) {
    let line = format!("blit {}", v.iter().map(|x| x.to_string()).collect::<Vec<_>>().join(" "));
    let toks: Vec<&str> = line.split(' ').collect();
    run_case(&toks, em);
}

pub fn generate(thorough: bool, seed: u64, part: (usize, usize), em: &mut Emitter) {
    let mut r = Rng::new(seed ^ 0xC19);
    if part.0 == 0 {
        // uncompressed 16 bpp images, odd and even widths, exact / short / long data
        for bw in 0..=5usize { for bh in 0..=3usize { for &dn in &[0i64, -1, 1] {
            let npix = ((bw * bh) as i64 + dn).max(0) as usize;
            let (r, b) = (bw.max(1) - 1, bh.max(1) - 1);
            let line = format!("blit16 8 40 0 0 {} {} {} {} {}", r, b, bw, bh, npix);
            let toks: Vec<&str> = line.split(' ').collect(); run_case(&toks, em);
            let line = format!("blit16 8 40 1 1 {} {} {} {} {}", r + 1, b + 1, bw, bh, npix);
            let toks: Vec<&str> = line.split(' ').collect(); run_case(&toks, em);
        } } }
        for &(bw, bh) in &[(0usize, 0usize), (0, 1), (0, 3), (1, 0), (5, 0), (1, 1), (2, 2)] { for &(l, t, rr, b) in &[(0usize, 0usize, 0usize, 0usize), (0, 0, 1, 1), (1, 1, 0, 0), (0, 0, 3, 3)] {
            let line = format!("blitz 4 16 {} {} {} {} {} {}", l, t, rr, b, bw, bh);
            let toks: Vec<&str> = line.split(' ').collect(); run_case(&toks, em);
            let line = format!("blitz 4 16 {} {} {} {} {} {} 16", l, t, rr, b, bw, bh);
            let toks: Vec<&str> = line.split(' ').collect(); run_case(&toks, em);
        } }
    }
    if part.0 == 0 {
        // compressed events carrying hostile planar / interleaved streams (short, run-heavy, crossing
        // the end of a scanline) for small images
        let alphabet = [0x00u8, 0x01, 0x02, 0x03, 0x10, 0x11, 0x12, 0x1f, 0x20, 0x21, 0xf0, 0xff, 0xaa, 0x0f];
        for _ in 0..(if thorough { 20000 } else { 1500 }) {
            let (bw, bh) = (r.range(1, 3) as usize, r.range(1, 3) as usize);
            let n = r.below(10) as usize;
            let mut d = vec![0x10u8]; for _ in 0..n { d.push(if r.chance(3, 4) { *r.pick(&alphabet) } else { r.byte() }); }
            let bpp = if r.chance(1, 5) { d.remove(0); 16 } else { 32 };
            let line = format!("blitd 4 16 0 0 {} {} {} {} {} {}", bw - 1, bh - 1, bw, bh, bpp, if d.is_empty() { "-".to_string() } else { hex(&d) });
            let toks: Vec<&str> = line.split(' ').collect(); run_case(&toks, em);
        }
        // several COMPRESSED paints in a row carrying byte-identical data with different shapes of the same pixel
        // count (4x2, 2x4, 8x1, 1x8): each paint shows ITS shape's decoding
        {
            let shapes: [(usize, usize); 4] = [(4, 2), (2, 4), (8, 1), (1, 8)];
            let mut datas: Vec<Vec<u8>> = vec![];
            { let mut d = vec![0x88u8]; for k in 0..8u16 { d.extend_from_slice(&(0x1111u16.wrapping_mul(k + 1)).to_le_bytes()); } datas.push(d); }   // colour image of 8
            datas.push(vec![0x64, 0x34, 0x12, 0x64, 0x78, 0x56]);                                                                           // two colour runs of 4
            datas.push(vec![0xE4, 0x0f, 0x00, 0xf0, 0xff]);                                                                               // dithered run of 4 pairs
            for d in &datas {
                for _ in 0..(if thorough { 200 } else { 12 }) {
                    let k = r.range(2, 4) as usize;
                    let items: Vec<String> = (0..k).map(|_| { let (bw, bh) = *r.pick(&shapes); format!("0.0.{}.{}.{}.{}", bw - 1, bh - 1, bw, bh) }).collect();
                    let line = format!("blitdseq 8 64 16 {} {}", hex(d), items.join(" "));
                    let toks: Vec<&str> = line.split(' ').collect(); run_case(&toks, em);
                }
                // rectangles that need more rows / columns than the decoded image has (refused, nothing painted beyond the image)
                for &(bw, bh) in &shapes { for extra in 1..=bh { for wider in 0..2usize {
                    let line = format!("blitdseq 8 64 16 {} 0.0.{}.{}.{}.{} 0.0.{}.{}.{}.{}", hex(d), bw - 1 + wider, bh - 1 + extra, bw, bh, bw - 1, bh - 1, bw, bh);
                    let toks: Vec<&str> = line.split(' ').collect(); run_case(&toks, em);
                } } }
                for (a, b) in &[(0usize, 1usize), (1, 0), (2, 3), (0, 0), (3, 1)] {
                    let f = |i: usize| { let (bw, bh) = shapes[i]; format!("0.0.{}.{}.{}.{}", bw - 1, bh - 1, bw, bh) };
                    let line = format!("blitdseq 8 64 16 {} {} {}", hex(d), f(*a), f(*b));
                    let toks: Vec<&str> = line.split(' ').collect(); run_case(&toks, em);
                }
            }
        }
        // several paints in a row into the same window: each is judged on its own image and rectangle,
        // whatever was painted before (same rectangle with a smaller / larger image, other rectangles)
        for _ in 0..(if thorough { 20000 } else { 1200 }) {
            let width = r.range(2, 6) as usize; let rows = r.range(2, 6) as usize;
            let (l, t) = (r.below(width as u64) as usize, r.below(rows as u64) as usize);
            let (rt, b) = (l + r.below((width - l) as u64) as usize, t + r.below((rows - t) as u64) as usize);
            let np = r.range(2, 4) as usize;
            let mut items = vec![];
            for _ in 0..np {
                let same = r.chance(3, 4);
                let (l2, t2, r2, b2) = if same { (l, t, rt, b) } else { (r.below(width as u64 + 1) as usize, r.below(rows as u64 + 1) as usize, r.below(width as u64 + 2) as usize, r.below(rows as u64 + 2) as usize) };
                let bw = (rt + 1 - l) + if r.chance(1, 4) { r.below(2) as usize } else { 0 };
                let bh = match r.below(3) { 0 => b + 1 - t, 1 => (b + 1 - t).saturating_sub(1 + r.below(2) as usize), _ => b + 1 - t + r.below(2) as usize };
                let imgpix = if r.chance(5, 6) { bw * bh } else { (bw * bh).saturating_sub(1) };
                items.push(format!("{}.{}.{}.{}.{}.{}.{}", l2, t2, r2, b2, bw, bh, imgpix));
            }
            let line = format!("blitseq {} {} {}", width, width * rows, items.join(" "));
            let toks: Vec<&str> = line.split(' ').collect(); run_case(&toks, em);
        }
    }
    // exhaustive small geometries: window ≤ W×H, coordinates ≤ C, image ≤ I×I
    let (wmax, cmax, imax) = if thorough { (4usize, 5usize, 3usize) } else { (3, 3, 2) };
    let mut idx = 0usize;
    for width in 1..=wmax { for rows in 1..=wmax {
        for left in 0..=cmax { for right in 0..=cmax { for top in 0..=cmax { for bottom in 0..=cmax {
            for bw in 0..=imax { for bh in 1..=imax {
                idx += 1;
                if idx % part.1 != part.0 { continue; }
                emit(em, &[width, width * rows, left, top, right, bottom, bw, bh, bw * bh, 0]);
            } }
        } } } }
    } }
    // random larger geometries, including buffers that are not a whole number of rows,
    // images smaller/larger than the rectangle, trailing bytes, u16 extremes
    let n = if thorough { 200000 } else { 20000 };
    for _ in 0..n {
        let width = r.range(1, 40) as usize;
        let rows = r.range(1, 30) as usize;
        let buflen = width * rows + if r.chance(1, 5) { r.below(width as u64) as usize } else { 0 };
        let pick = |r: &mut Rng, hi: usize| -> usize { if r.chance(1, 20) { *r.pick(&[65535usize, 65534, 32768, 255, 256]) } else { r.below(hi as u64 + 3) as usize } };
        let left = pick(&mut r, width); let right = if r.chance(3, 4) { left + r.below(width as u64) as usize } else { pick(&mut r, width) };
        let top = pick(&mut r, rows); let bottom = if r.chance(3, 4) { top + r.below(rows as u64) as usize } else { pick(&mut r, rows) };
        let (right, bottom) = (right.min(65535), bottom.min(65535));
        let bw = if r.chance(2, 3) { (right + 1).saturating_sub(left) + r.below(3) as usize } else { r.below(45) as usize }.min(65535);
        let bh = if r.chance(2, 3) { (bottom + 1).saturating_sub(top) + r.below(2) as usize } else { r.below(35) as usize }.min(65535);
        let imgpix = match r.below(4) { 0 => (bw * bh).min(4000), 1 => (bw * bh).min(4000).saturating_sub(r.below(3) as usize), 2 => r.below(1500) as usize, _ => ((bw * bh) + r.below(5) as usize).min(4000) };
        let extra = if r.chance(1, 6) { r.range(1, 3) as usize } else { 0 };
        emit(em, &[width, buflen, left, top, right, bottom, bw, bh, imgpix, extra]);
    }
}
