//! C16 — NTLM session security: the real NTLMv2SecurityInterface with chosen keys, a
//! mirrored context (keys swapped) playing the conforming peer.
use crate::common::*;
use rdp::nla::ntlm::NTLMv2SecurityInterface;
use rdp::nla::rc4::Rc4;
use rdp::nla::sspi::GenericSecurityService;

fn flip_bit(b: &mut Vec<u8>, n: usize) { if n / 8 < b.len() { b[n / 8] ^= 1 << (n % 8); } }

pub fn run_case(toks: &[&str], em: &mut Emitter) {
    let line = toks.join(" ");
    let t: Vec<String> = toks.iter().map(|s| s.to_string()).collect();
    em.case(&line, move || {
        let (ke, kd, ks, kv) = (unhex(&t[1]), unhex(&t[2]), unhex(&t[3]), unhex(&t[4]));
        let mut main = NTLMv2SecurityInterface::new(Rc4::new(&ke), Rc4::new(&kd), ks.clone(), kv.clone());
        let mut mirror = NTLMv2SecurityInterface::new(Rc4::new(&kd), Rc4::new(&ke), kv, ks);
        let mut outs = vec![];
        let show = |r: Result<Vec<u8>, rdp::model::error::Error>| match r { Ok(b) => format!("ok:{}", hex(&b)), Err(_) => "E".to_string() };
        for op in t[5].split(',') {
            let c = op.chars().next().unwrap();
            let rest = &op[1..];
            let split = |s: &str| -> (usize, Vec<u8>) { let v: Vec<&str> = s.split(':').collect(); (v[0].parse().unwrap(), unhex(v[1])) };
            match c {
                'W' => outs.push(format!("w:{}", hex(&main.gss_wrapex(&unhex(rest)).unwrap()))),
                'M' => { let s = mirror.gss_wrapex(&unhex(rest)).unwrap(); outs.push(show(main.gss_unwrapex(&s))); }
                'T' => { let (bit, pt) = split(rest); let mut s = mirror.gss_wrapex(&pt).unwrap(); flip_bit(&mut s, bit); outs.push(show(main.gss_unwrapex(&s))); }
                'D' => { let (n, pt) = split(rest); let mut s = mirror.gss_wrapex(&pt).unwrap(); flip_bit(&mut s, n / 4096); flip_bit(&mut s, n % 4096); outs.push(show(main.gss_unwrapex(&s))); }
                'R' => { let (bit, pt) = split(rest); let mut s = mirror.gss_wrapex(&pt).unwrap(); flip_bit(&mut s, bit); let r1 = show(main.gss_unwrapex(&s)); let r2 = show(main.gss_unwrapex(&s)); outs.push(format!("{}+{}", r1, r2)); }
                'X' => { let (n, pt) = split(rest); let mut s = mirror.gss_wrapex(&pt).unwrap(); s.truncate(n); outs.push(show(main.gss_unwrapex(&s))); }
                'A' => { let (n, pt) = split(rest); let mut s = mirror.gss_wrapex(&pt).unwrap(); s.extend(vec![0u8; n]); outs.push(show(main.gss_unwrapex(&s))); }
                _ => outs.push(show(main.gss_unwrapex(&unhex(rest)))),
            }
        }
        Obs::new(outs.join(";")).nt(true)
    });
}

pub fn emit(em: &mut Emitter, keys: &[Vec<u8>; 4], ops: &[String]) {
    let line = format!("seal {} {} {} {} {}", hex(&keys[0]), hex(&keys[1]), hex(&keys[2]), hex(&keys[3]), ops.join(","));
    let toks: Vec<&str> = line.split(' ').collect();
    run_case(&toks, em);
}

pub fn generate(thorough: bool, seed: u64, part: (usize, usize), em: &mut Emitter) {
    let mut r = Rng::new(seed ^ 0xC16);
    // the keys of the security interface as the client derives them in a real exchange, for flag sets with and
    // without NEGOTIATE_128 / NEGOTIATE_56 / VERSION / UNICODE (the server seals with the MS-NLMP keys)
    if part.0 == 0 {
        for (k, flags) in [0x62898235u32, 0x42898235, 0xe2898235, 0x42898234, 0x60898235, 0x62088235, 0x62898215, 0x62898225, 0x62898205, 0x62810235].iter().enumerate() {
            let mut ti = crate::props::c15::av(2, &crate::props::c15::utf16("D")); ti.extend(crate::props::c15::av(7, &r.bytes(8))); ti.extend(crate::props::c15::av(0, &[]));
            let scv = r.bytes(8); let mut sc = [0u8; 8]; sc.copy_from_slice(&scv);
            let c = crate::props::c01::Case { dom: "DOM".into(), user: "user".into(), pw: "pw".into(), from_hash: false, ra: false, id: 1 + k % 2, flags: *flags, sc, ti, reply: "honest".into(), reply1: "honest".into(), pre: String::new() };
            crate::props::c01::run(em, &c);
            // the same on an Ntlm object that already completed an exchange: the keys are those of *this* session
            if k < 2 { let c2 = crate::props::c01::Case { pre: "same".into(), ..c.clone() }; crate::props::c01::run(em, &c2); }
        }
    }
    let keys = |r: &mut Rng| -> [Vec<u8>; 4] { [r.bytes(16), r.bytes(16), r.bytes(16), r.bytes(16)] };
    let msg = |r: &mut Rng| -> Vec<u8> { let n = match r.below(5) { 0 => 0, 1 => 1, 2 => r.below(16), 3 => r.below(300), _ => 270 } as usize; r.bytes(n) };
    // message sequences in both directions, cipher state and sequence numbers carrying over
    let n = if thorough { 20000 } else { 1500 };
    for _ in 0..n {
        let k = keys(&mut r);
        let len = r.range(1, 8);
        let ops: Vec<String> = (0..len).map(|_| { let m = msg(&mut r); if r.chance(1, 2) { format!("W{}", hex(&m)) } else { format!("M{}", hex(&m)) } }).collect();
        emit(em, &k, &ops);
    }
    // every single-bit flip of sealed messages (after a few messages so that states are not initial)
    let nflip = if thorough { 400 } else { 30 };
    let mut idx = 0usize;
    for _ in 0..nflip {
        let k = keys(&mut r);
        let pre: Vec<String> = (0..r.below(3)).map(|_| format!("M{}", hex(&msg(&mut r)))).collect();
        let pt = { let n = r.below(12) as usize; r.bytes(n) };
        for bit in 0..(16 + pt.len()) * 8 {
            idx += 1; if idx % part.1 != part.0 { continue; }
            let mut ops = pre.clone(); ops.push(format!("T{}:{}", bit, hex(&pt)));
            emit(em, &k, &ops);
        }
        for cut in 0..(16 + pt.len()) { let mut ops = pre.clone(); ops.push(format!("X{}:{}", cut, hex(&pt))); emit(em, &k, &ops); }
        for ext in 1..4 { let mut ops = pre.clone(); ops.push(format!("A{}:{}", ext, hex(&pt))); emit(em, &k, &ops); }
    }
    // histories in which a tampered message was rejected before: the same alteration again, genuine messages
    // after it, another alteration after that (every rejection is judged on its own)
    for i in 0..(if thorough { 400 } else { 48 }) {
        let k = keys(&mut r);
        let bit = if i % 3 == 0 { i % 32 } else { r.below(128) as usize };
        let (p1, p2, p3) = (msg(&mut r), msg(&mut r), msg(&mut r));
        let mut ops: Vec<String> = (0..(i % 3)).map(|_| format!("M{}", hex(&msg(&mut r)))).collect();
        ops.push(format!("T{}:{}", bit, hex(&p1))); ops.push(format!("T{}:{}", bit, hex(&p1)));
        ops.push(format!("M{}", hex(&p2))); ops.push(format!("T{}:{}", (bit + 9) % 32, hex(&p3))); ops.push(format!("T{}:{}", bit, hex(&p2)));
        ops.push(format!("M{}", hex(&p3))); ops.push(format!("W{}", hex(&p1)));
        emit(em, &k, &ops);
        // the very same tampered bytes handed in twice (first on a fresh context, then after traffic)
        let mut ops2: Vec<String> = (0..(i % 2)).map(|_| format!("M{}", hex(&msg(&mut r)))).collect();
        ops2.push(format!("R{}:{}", bit, hex(&p1))); ops2.push(format!("R{}:{}", (bit + 40) % 128, hex(&p2)));
        emit(em, &k, &ops2);
    }
    // two bits altered at once: the same bit in two bytes of the checksum / of the sequence number / of checksum and
    // ciphertext (differences that cancel when byte differences are folded instead of accumulated), after some traffic
    if part.0 == 0 {
        for i in 0..(if thorough { 40 } else { 6 }) {
            let k = keys(&mut r);
            let pt = r.bytes(3 + i % 5);
            let pre: Vec<String> = (0..(i % 3)).map(|_| format!("M{}", hex(&msg(&mut r)))).collect();
            for b1 in 4..12usize { for b2 in (b1 + 1)..12 { for bit in &[0usize, 7] {
                let mut ops = pre.clone(); ops.push(format!("D{}:{}", 4096 * (8 * b1 + bit) + 8 * b2 + bit, hex(&pt))); ops.push(format!("M{}", hex(&pt)));
                emit(em, &k, &ops);
            } } }
            for (b1, b2) in &[(0usize, 1usize), (12, 13), (4, 16), (12, 16), (16, 17)] { let mut ops = pre.clone(); ops.push(format!("D{}:{}", 4096 * (8 * b1 + 3) + 8 * b2 + 3, hex(&pt))); emit(em, &k, &ops); }
        }
    }
    // sealed messages beyond 64 KiB (NTLM sealing has no such limit), in both directions, then a small one
    if part.0 == 0 {
        for n in &[65535usize, 65536, 70001] {
            let k = keys(&mut r);
            let big = r.bytes(*n);
            emit(em, &k, &[format!("M{}", hex(&big)), format!("M{}", hex(&r.bytes(5))), format!("W{}", hex(&big[..*n - 3]))]);
        }
    }
    // raw hostile input to unwrap
    for _ in 0..(if thorough { 20000 } else { 2000 }) {
        let k = keys(&mut r);
        let n = r.below(40) as usize; let mut b = r.bytes(n);
        if b.len() >= 4 && r.chance(2, 3) { b[0] = 1; b[1] = 0; b[2] = 0; b[3] = 0; }
        emit(em, &k, &[format!("U{}", hex(&b))]);
    }
}
