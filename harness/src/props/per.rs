//! PER primitives (src/core/per.rs): round trips and decoders on arbitrary bytes.
//! Shared by C18 (inverse pairs) and C05 (hostile input).
use crate::common::*;
use rdp::core::per;
use rdp::model::data::Message;
use std::io::Cursor;

/// a reader that hands out ONE byte per `read` call (a segment / record boundary after every byte): decoders
/// must gather what they need (`read_exact`), not assume that one `read` fills their buffer
struct Trickle(Cursor<Vec<u8>>);
impl std::io::Read for Trickle { fn read(&mut self, b: &mut [u8]) -> std::io::Result<usize> { if b.is_empty() { return Ok(0); } self.0.read(&mut b[..1]) } }
fn left_t(c: &Trickle) -> String { left(&c.0) }

fn left(c: &Cursor<Vec<u8>>) -> String { let p = (c.position() as usize).min(c.get_ref().len()); hex(&c.get_ref()[p..]) }
fn tailed(w: &[u8]) -> Cursor<Vec<u8>> { let mut v = w.to_vec(); v.extend_from_slice(&[0xAB, 0xCD]); Cursor::new(v) }

pub fn run_case(toks: &[&str], em: &mut Emitter) {
    let line = toks.join(" ");
    let t: Vec<String> = toks.iter().map(|s| s.to_string()).collect();
    em.case(&line, move || {
        let nat = |s: &String| -> u64 { s.parse().unwrap() };
        match t[0].as_str() {
            "per_rt_len" => {
                let n = nat(&t[1]) as u16;
                let w = rdp::model::data::to_vec(&per::write_length(n).unwrap());
                let mut c = tailed(&w);
                let r = per::read_length(&mut c);
                Obs::new(format!("w={} {}", hex(&w), match r { Ok(v) => format!("r={} left={}", v, left(&c)), Err(_) => "r=E".into() })).nt(true)
            }
            "per_asn1_int" => {
                let n = nat(&t[1]) as u32;
                let w = rdp::nla::asn1::to_der(&(n as rdp::nla::asn1::Integer));
                let mut back = 0 as rdp::nla::asn1::Integer;
                let r = rdp::nla::asn1::from_der(&mut back, &w);
                Obs::new(format!("w={} r={}", hex(&w), match r { Ok(_) => back.to_string(), Err(_) => "E".into() })).nt(true)
            }
            "per_asn1_enum" => {
                // `per_asn1_enum <+|-> <magnitude>`: an ENUMERATED of the library's i64 type through to_der / from_der
                let m: i128 = t[2].parse().unwrap();
                let v = (if t[1] == "-" { -m } else { m }) as rdp::nla::asn1::Enumerate;
                let w = rdp::nla::asn1::to_der(&v);
                let mut back = 99 as rdp::nla::asn1::Enumerate;
                let r = rdp::nla::asn1::from_der(&mut back, &w);
                Obs::new(format!("w={} r={}", hex(&w), match r { Ok(_) => back.to_string(), Err(_) => "E".into() })).nt(true)
            }
            "per_asn1_oct" => {
                let b = unhex(&t[1]);
                let w = rdp::nla::asn1::to_der(&(b.clone() as rdp::nla::asn1::OctetString));
                let mut back = rdp::nla::asn1::OctetString::new();
                let r = rdp::nla::asn1::from_der(&mut back, &w);
                Obs::new(format!("w={} r={}", hex(&w), match r { Ok(_) => hex(&back), Err(_) => "E".into() })).nt(true)
            }
            "per_ber_oct" | "per_ber_int" | "per_ber_cr" => {
                // BER (not DER) encodings built here, read by the library's `from_ber`: any length form is legal
                use crate::refsrv::{ber_len_form, cat};
                let form: u8 = t[1].parse().unwrap();
                match t[0].as_str() {
                    "per_ber_oct" => {
                        let b = unhex(&t[2]);
                        let w = cat(&[&[0x04], &ber_len_form(b.len(), form), &b]);
                        let mut back = rdp::nla::asn1::OctetString::new();
                        let r = rdp::nla::asn1::from_ber(&mut back, &w);
                        Obs::new(format!("r={}", match r { Ok(_) => if back.is_empty() { "-".to_string() } else { hex(&back) }, Err(_) => "E".into() })).nt(true)
                    }
                    "per_ber_int" => {
                        let n = nat(&t[2]) as u32;
                        let mut c: Vec<u8> = n.to_be_bytes().to_vec(); while c.len() > 1 && c[0] == 0 && c[1] < 0x80 { c.remove(0); } if c[0] >= 0x80 { c.insert(0, 0); }
                        let w = cat(&[&[0x02], &ber_len_form(c.len(), form), &c]);
                        let mut back = 0 as rdp::nla::asn1::Integer;
                        let r = rdp::nla::asn1::from_ber(&mut back, &w);
                        Obs::new(format!("r={}", match r { Ok(_) => back.to_string(), Err(_) => "E".into() })).nt(true)
                    }
                    _ => {
                        let ud = unhex(&t[2]);
                        let w = crate::refsrv::connect_response_body(&ud, form);
                        Obs::new(format!("r={}", crate::props::c05::ber_userdata(&w))).nt(true)
                    }
                }
            }
            "per_gcc_version" => {
                // the version constants: what the client announces and what it recognises are the same numbers
                use rdp::core::gcc::Version;
                let name = |v: Version| match v { Version::RdpVersion => "v4", Version::RdpVersion5plus => "v5", Version::Unknown => "unk" };
                let rt: Vec<String> = [Version::RdpVersion, Version::RdpVersion5plus].iter().map(|v| format!("{:08x}:{}", *v as u32, name(Version::from(*v as u32)))).collect();
                let core = rdp::model::data::to_vec(&rdp::core::gcc::client_core_data(None));
                Obs::new(format!("rt={} core={}", rt.join(","), hex(&core[..4]))).nt(true)
            }
            "per_rt_int" => {
                let n = nat(&t[1]) as u32;
                let mut w = Cursor::new(vec![]);
                per::write_integer(n, &mut w).unwrap();
                let w = w.into_inner();
                let mut c = tailed(&w);
                let r = per::read_integer(&mut c);
                Obs::new(format!("w={} {}", hex(&w), match r { Ok(v) => format!("r={} left={}", v, left(&c)), Err(_) => "r=E".into() })).nt(true)
            }
            "per_rt_int16" => {
                let (v, m) = (nat(&t[1]) as u16, nat(&t[2]) as u16);
                let mut w = Cursor::new(vec![]);
                per::write_integer_16(v, m, &mut w).unwrap();
                let w = w.into_inner();
                let mut c = tailed(&w);
                let r = per::read_integer_16(m, &mut c);
                Obs::new(format!("w={} {}", hex(&w), match r { Ok(v) => format!("r={} left={}", v, left(&c)), Err(_) => "r=E".into() })).nt(true)
            }
            "per_rt_oid" => {
                let o: Vec<u8> = parse_nat_list(&t[1]).iter().map(|x| *x as u8).collect();
                let mut w = Cursor::new(vec![]);
                if per::write_object_identifier(&o, &mut w).is_err() { return Obs::new("E".into()); }
                let w = w.into_inner();
                let mut c = tailed(&w);
                let r = per::read_object_identifier(&o, &mut c);
                Obs::new(format!("w={} {}", hex(&w), match r { Ok(v) => format!("r={} left={}", v, left(&c)), Err(_) => "r=E".into() })).nt(true)
            }
            "per_rt_octet" => {
                let os = unhex(&t[1]); let m = nat(&t[2]) as usize;
                let mut w = Cursor::new(vec![]);
                per::write_octet_stream(&os, m, &mut w).unwrap();
                let w = w.into_inner();
                let mut c = Trickle(tailed(&w));
                let r = per::read_octet_stream(&os, m, &mut c);
                Obs::new(format!("w={} {}", hex(&w), match r { Ok(()) => format!("r=ok left={}", left_t(&c)), Err(_) => "r=E".into() })).nt(true)
            }
            "per_rd_len" => { let mut c = Cursor::new(unhex(&t[1])); let r = per::read_length(&mut c); Obs::new(match r { Ok(v) => format!("r={} left={}", v, left(&c)), Err(_) => "r=E".into() }) }
            "per_rd_int" => { let mut c = Cursor::new(unhex(&t[1])); let r = per::read_integer(&mut c); Obs::new(match r { Ok(v) => format!("r={} left={}", v, left(&c)), Err(_) => "r=E".into() }).nt(true) }
            "per_rd_int16" => { let mut c = Cursor::new(unhex(&t[2])); let r = per::read_integer_16(nat(&t[1]) as u16, &mut c); Obs::new(match r { Ok(v) => format!("r={} left={}", v, left(&c)), Err(_) => "r=E".into() }).nt(true) }
            "per_rd_oid" => {
                let o: Vec<u8> = parse_nat_list(&t[1]).iter().map(|x| *x as u8).collect();
                let mut c = Trickle(Cursor::new(unhex(&t[2]))); let r = per::read_object_identifier(&o, &mut c);
                Obs::new(match r { Ok(v) => format!("r={} left={}", v, left_t(&c)), Err(_) => "r=E".into() }).nt(true)
            }
            "per_rd_octet" => {
                let e = unhex(&t[1]); let m = nat(&t[2]) as usize;
                let mut c = Trickle(Cursor::new(unhex(&t[3]))); let r = per::read_octet_stream(&e, m, &mut c);
                Obs::new(match r { Ok(()) => format!("r=ok left={}", left_t(&c)), Err(_) => "r=E".into() }).nt(true)
            }
            "per_rd_numstr" => {
                let m = nat(&t[1]) as usize;
                let mut c = Cursor::new(unhex(&t[2])); let r = per::read_numeric_string(m, &mut c);
                Obs::new(match r { Ok(v) => format!("r={} left={}", hex(&v), left(&c)), Err(_) => "r=E".into() }).nt(true)
            }
            "per_wr_numstr" => {
                let s = unhex(&t[1]); let m = nat(&t[2]) as usize;
                let mut w = Cursor::new(vec![]);
                let r = per::write_numeric_string(&s, m, &mut w);
                Obs::new(match r { Ok(()) => format!("w={}", hex(&w.into_inner())), Err(_) => "E".into() })
            }
            _ => Obs::new("bad-op".into()),
        }
    });
}

fn emit(em: &mut Emitter, line: String) {
    let toks: Vec<&str> = line.split(' ').collect();
    run_case(&toks, em);
}

/// inverse pairs over their whole domains (C18)
pub fn generate_roundtrips(thorough: bool, r: &mut Rng, part: (usize, usize), em: &mut Emitter) {
    // ASN.1 DER integers and octet strings (nla/asn1.rs over yasna): size boundaries of the two's-complement
    // content and of the definite length
    if part.0 == 0 {
        for &n in &[0u64, 1, 0x7f, 0x80, 0xff, 0x100, 0x7fff, 0x8000, 0xffff, 0x10000, 0x7fffff, 0x800000, 0xffffff, 0x1000000, 0x7fffffff, 0x80000000, 0x80000001, 0xfffffffe, 0xffffffff] { emit(em, format!("per_asn1_int {}", n)); }
        for _ in 0..(if thorough { 2000 } else { 200 }) { let n = r.next() as u32 >> r.below(32); emit(em, format!("per_asn1_int {}", n)); }
        // ENUMERATED over the whole i64 domain: zero, boundaries of every content width, negative values
        for &m in &[0u64, 1, 0x7f, 0x80, 0x81, 0xff, 0x100, 0x7fff, 0x8000, 0x8001, 0x7fffff, 0x800000, 0x7fffffff, 0x80000000, 0x7fffffffffff, 0x800000000000, 0x7fffffffffffffff] {
            emit(em, format!("per_asn1_enum + {}", m)); emit(em, format!("per_asn1_enum - {}", m));
        }
        emit(em, "per_asn1_enum - 9223372036854775808".to_string());
        for _ in 0..(if thorough { 2000 } else { 100 }) { let m = r.next() >> r.below(64); let m = m & 0x7fffffffffffffff; emit(em, format!("per_asn1_enum {} {}", if r.chance(1, 2) { "-" } else { "+" }, m)); }
        for &l in &[0usize, 1, 2, 126, 127, 128, 129, 255, 256, 257, 1000, 65535, 65536] { let b = r.bytes(l); emit(em, format!("per_asn1_oct {}", hex(&b))); }
        // BER length forms (shortest, one octet longer, two-octet long form) read by `from_ber`; the MCS
        // connect response in each form; the GCC version constants
        for form in 0..3u8 {
            for &l in &[0usize, 1, 2, 127, 128, 129, 255, 256, 300] { let b = r.bytes(l); emit(em, format!("per_ber_oct {} {}", form, if b.is_empty() { "-".to_string() } else { hex(&b) })); }
            for &n in &[0u64, 1, 0x7f, 0x80, 0xff, 0x100, 0xffff, 0x10000, 0x7fffffff, 0xffffffff] { emit(em, format!("per_ber_int {} {}", form, n)); }
            for &l in &[1usize, 40, 127, 128, 200, 300] { let b = r.bytes(l); emit(em, format!("per_ber_cr {} {}", form, hex(&b))); }
        }
        emit(em, "per_gcc_version".to_string());
    }
    // all PER lengths in the domain 0..=0x7fff (and a few beyond it, where nothing is claimed)
    for n in (0..=0x7fffu32).filter(|n| (*n as usize) % part.1 == part.0) { emit(em, format!("per_rt_len {}", n)); }
    if part.0 == 0 { for n in &[0x8000u32, 0x8001, 0xffff] { emit(em, format!("per_rt_len {}", n)); } }
    // all u16 integers, u32 by boundaries and random (thorough: denser)
    for n in (0..=0xffffu32).filter(|n| (*n as usize) % part.1 == part.0) { emit(em, format!("per_rt_int {}", n)); }
    for &n in &[0x10000u32, 0x10001, 0xfffffe, 0xffffff, 0x1000000, 0x7fffffff, 0x80000000, 0xfffffffe, 0xffffffff] { emit(em, format!("per_rt_int {}", n)); }
    for _ in 0..(if thorough { 200000 } else { 5000 }) { emit(em, format!("per_rt_int {}", r.next() as u32)); }
    // integer16: all offset/minimum pairs at boundaries + random valid pairs
    let b = [0u32, 1, 2, 1000, 1001, 1002, 1003, 0x7fff, 0x8000, 0xfffe, 0xffff];
    for &m in &b { for &v in &b { if v >= m { emit(em, format!("per_rt_int16 {} {}", v, m)); } } }
    for _ in 0..(if thorough { 50000 } else { 3000 }) { let m = r.below(65536); let v = r.range(m, 65535); emit(em, format!("per_rt_int16 {} {}", v, m)); }
    // object identifiers: every value at every position (others fixed), then random
    for pos in 0..6 { let hi = if pos < 2 { 16 } else { 256 }; for v in 0..hi { let mut o = [0u64, 0, 20, 124, 0, 1]; o[pos] = v; emit(em, format!("per_rt_oid {}", o.iter().map(|x| x.to_string()).collect::<Vec<_>>().join(","))); } }
    for _ in 0..(if thorough { 50000 } else { 3000 }) { let o: Vec<String> = (0..6).map(|i| if i < 2 { r.below(16) } else { r.below(256) }.to_string()).collect(); emit(em, format!("per_rt_oid {}", o.join(","))); }
    // octet strings
    for _ in 0..(if thorough { 20000 } else { 2000 }) {
        let n = match r.below(4) { 0 => r.below(8), 1 => r.below(200), 2 => 120 + r.below(20), _ => r.below(1200) } as usize;
        let m = if r.chance(1, 2) { 0 } else { r.below(n as u64 + 1) as usize };
        emit(em, format!("per_rt_octet {} {}", hex(&r.bytes(n)), m));
    }
}

/// decoders on arbitrary bytes (C05, and the model/code tie for the readers)
pub fn generate_hostile(thorough: bool, r: &mut Rng, em: &mut Emitter) {
    // all strings of length <= 2 at each entry (3 in thorough for the length reader)
    let mut all: Vec<Vec<u8>> = vec![vec![]];
    for a in 0..=255u8 { all.push(vec![a]); }
    for a in 0..=255u8 { for b in (0..=255u8).step_by(if thorough { 1 } else { 5 }) { all.push(vec![a, b]); } }
    for s in &all {
        emit(em, format!("per_rd_len {}", hex(s)));
        emit(em, format!("per_rd_int16 1001 {}", hex(s)));
    }
    for s in all.iter().filter(|s| s.len() < 2) { for t in &[vec![], vec![1u8], vec![1, 2], vec![1, 2, 3], vec![1, 2, 3, 4], vec![0xff; 5]] {
        let mut v = s.clone(); v.extend_from_slice(t);
        emit(em, format!("per_rd_int {}", hex(&v)));
        emit(em, format!("per_rd_numstr 1 {}", hex(&v)));
    } }
    for m in &[0u32, 1, 1001, 65535] { for v in &[0u32, 1, 64534, 64535, 65534, 65535] {
        emit(em, format!("per_rd_int16 {} {:04x}", m, v));
    } }
    for _ in 0..(if thorough { 100000 } else { 5000 }) {
        let n = r.below(9) as usize; let mut b = r.bytes(n);
        if !b.is_empty() && r.chance(1, 2) { b[0] = *r.pick(&[1u8, 2, 4, 5, 0x80, 0x81, 0xff]); }
        match r.below(5) {
            0 => emit(em, format!("per_rd_int {}", hex(&b))),
            1 => emit(em, format!("per_rd_oid 0,0,20,124,0,1 {}", hex(&b))),
            2 => { let k = r.below(5) as usize; let e = r.bytes(k); emit(em, format!("per_rd_octet {} {} {}", hex(&e), r.below(5), hex(&b))) }
            3 => emit(em, format!("per_rd_numstr {} {}", r.below(3), hex(&b))),
            _ => { let n = r.below(5) as usize; let s: Vec<u8> = (0..n).map(|_| 0x30 + r.below(10) as u8).collect() /* digits only: the encoder's domain */; emit(em, format!("per_wr_numstr {} {}", hex(&s), r.below(3))) }
        }
    }
    // a valid T.124 oid with each byte altered
    let good = [5u8, 0, 20, 124, 0, 1];
    for i in 0..6 { for v in 0..=255u8 { let mut g = good.to_vec(); g[i] = v; emit(em, format!("per_rd_oid 0,0,20,124,0,1 {}", hex(&g))); } }
}
