//! Whole connections (C03, C04, C17): the real Connector::connect + RdpClient::read /
//! write / shutdown over real TLS against an in-process reference server thread
//! (X.224 negotiation, TLS, CredSSP/NTLM, MCS, licence, activation).  Observed: every
//! byte the client wrote, split by layer, and what the server decrypted.
use crate::common::*;
use crate::nlasrv::*;
use crate::props::c15::{challenge, av, utf16, md4};
use crate::refsrv::{self, SrvParams};
use rdp::core::client::Connector;
use rdp::core::event::{KeyboardEvent, PointerButton, PointerEvent, RdpEvent};
use rdp::core::gcc::KeyboardLayout;
use rdp::nla::cssp;
use std::io::{Read, Write};
use std::os::unix::net::UnixStream;
use std::panic::{catch_unwind, AssertUnwindSafe};
use std::sync::{Arc, Mutex};
use std::time::Duration;

#[derive(Clone, Debug)]
pub struct Cfg { pub w: u16, pub h: u16, pub lay: u32, pub name: String, pub dom: String, pub user: String, pub pw: String, pub hash: bool, pub ra: bool, pub blank: bool, pub auto: bool, pub nla: bool, pub check: bool }
/// when set: (which CredSSP reply, bytes) — the server answers that round with these bytes instead (C02 `nlagate`)
pub static NLA_FAULT: std::sync::Mutex<Option<(u8, Vec<u8>)>> = std::sync::Mutex::new(None);
#[derive(Clone, Debug)]
pub struct SrvCfg { pub sel: u32, pub id: usize, pub uid: u16, pub version: u32, pub license_new: bool, pub share: u32, pub caps: Vec<Vec<u8>>, pub source: Vec<u8>, pub chal_flags: u32, pub inputs: Vec<String>, pub script: Vec<Act>, pub reactivate: Option<u32>, pub reuse: u8, pub jrefuse: u8, pub ber: u8 }
#[derive(Clone, Debug)]
pub enum Act { Send(Vec<u8>), Pause(u64), CloseNotify, Close,
    /// note the moment: everything scripted so far has been handed to the socket
    Mark(Rendezvous),
    /// wait until the observer has taken its snapshot, at most this many ms
    Await(Rendezvous, u64) }
/// rendez-vous between ONE scripted server and the harness thread observing it (C20; the cases run concurrently, so
/// each has its own): the silent period is measured from the server's real last send, not from nominal sleep
/// times, so that a loaded machine does not shift the two clocks against each other
#[derive(Clone, Debug, Default)]
pub struct Rendezvous { pub mark: Arc<Mutex<Option<std::time::Instant>>>, pub snapped: Arc<std::sync::atomic::AtomicBool> }

/// records every raw byte the server reads from the socket (pre-TLS bytes and TLS records)
pub struct Tee { pub inner: UnixStream, pub log: Arc<Mutex<Vec<u8>>> }
impl Read for Tee { fn read(&mut self, b: &mut [u8]) -> std::io::Result<usize> { let n = self.inner.read(b)?; self.log.lock().unwrap().extend_from_slice(&b[..n]); Ok(n) } }
impl Write for Tee { fn write(&mut self, b: &[u8]) -> std::io::Result<usize> { self.inner.write(b) } fn flush(&mut self) -> std::io::Result<()> { self.inner.flush() } }

#[derive(Default, Debug)]
pub struct ConnLog { pub cr: Vec<u8>, pub m1: Vec<u8>, pub m2: Vec<u8>, pub m3: Vec<u8>, pub r2: Vec<u8>, pub chal: Vec<u8>, pub k: Option<Vec<u8>>, pub creds: Option<Vec<u8>>, pub frames: Vec<Vec<u8>>, pub srv_msgs: Vec<Vec<u8>>, pub ccr: Vec<u8>, pub au: Vec<u8>, pub cjc: Vec<Vec<u8>>, pub lic: Vec<u8>, pub note: String, pub sel: u32, pub raw: Vec<u8>, pub ahead: Option<usize> }

/// the server's side of the connection after the negotiation: TLS, or the raw socket when it selected plain RDP security
pub enum Chan { Tls(native_tls::TlsStream<Tee>), Raw(Tee) }
impl Read for Chan { fn read(&mut self, b: &mut [u8]) -> std::io::Result<usize> { match self { Chan::Tls(t) => t.read(b), Chan::Raw(t) => t.read(b) } } }
impl Write for Chan {
    fn write(&mut self, b: &[u8]) -> std::io::Result<usize> { match self { Chan::Tls(t) => t.write(b), Chan::Raw(t) => t.write(b) } }
    fn flush(&mut self) -> std::io::Result<()> { match self { Chan::Tls(t) => t.flush(), Chan::Raw(t) => t.flush() } }
}
impl Chan {
    pub fn shutdown(&mut self) -> std::io::Result<()> { match self { Chan::Tls(t) => t.shutdown(), Chan::Raw(_) => Ok(()) } }
    pub fn set_read_timeout(&self, d: Duration) { match self { Chan::Tls(t) => { t.get_ref().inner.set_read_timeout(Some(d)).ok(); } Chan::Raw(t) => { t.inner.set_read_timeout(Some(d)).ok(); } } }
}

/// is there unread data on the socket right now? (the client wrote something although the
/// server has not yet answered the request it is processing)
fn pending(fd: i32) -> bool {
    let mut b = [0u8; 1];
    let n = unsafe { libc::recv(fd, b.as_mut_ptr() as *mut libc::c_void, 1, libc::MSG_PEEK | libc::MSG_DONTWAIT) };
    n > 0
}

pub fn read_tpkt<S: Read>(s: &mut S) -> Option<Vec<u8>> {
    let mut h = [0u8; 4];
    s.read_exact(&mut h).ok()?;
    let n = ((h[2] as usize) << 8) | h[3] as usize;
    if h[0] != 3 || n < 4 { return None; }
    let mut v = h.to_vec(); let mut body = vec![0u8; n - 4];
    s.read_exact(&mut body).ok()?;
    v.extend(body); Some(v)
}

pub fn serve(raw: UnixStream, s: SrvCfg, acc_key: Vec<u8>, rawlog: Arc<Mutex<Vec<u8>>>) -> ConnLog {
    let mut log = ConnLog::default();
    raw.set_read_timeout(Some(Duration::from_secs(3))).ok();
    use std::os::unix::io::AsRawFd;
    let rawfd = raw.as_raw_fd();
    let mut tee = Tee { inner: raw, log: rawlog };
    log.cr = match read_tpkt(&mut tee) { Some(f) => f, None => { log.note = "no connection request".into(); return log; } };
    let offered = if log.cr.len() >= 19 { u32::from_le_bytes([log.cr[15], log.cr[16], log.cr[17], log.cr[18]]) } else { 0 };
    // 0x100: the server selects PROTOCOL_RDP (0) whatever was offered and then speaks in the clear
    // 0x200: a confirm WITHOUT negotiation response (header only), then in the clear.  0x1000 | (f << 16): the usual
    // selection, with flag byte f in the negotiation response
    let bare = s.sel == 0x200;
    let nflags: u8 = if s.sel & 0x1000 != 0 { (s.sel >> 16) as u8 } else { 0 };
    let ssel = if s.sel & 0x1000 != 0 { 0 } else { s.sel };
    let sel = if ssel == 0x100 || bare { 0 } else if ssel != 0 { ssel } else if offered & 2 != 0 { 2 } else { 1 };
    log.sel = sel;
    let cc = if bare { vec![0x06u8, 0xd0, 0, 0, 0, 0, 0] } else { crate::props::c05::confirm(2, nflags, sel) };
    if !write_all(&mut tee, &refsrv::tpkt_frame(&cc)) { log.note = "write cc".into(); return log; }
    let (ident, spk) = identity(s.id);
    let acceptor = native_tls::TlsAcceptor::new(ident).unwrap();
    let mut tls = if sel == 0 { Chan::Raw(tee) } else { match acceptor.accept(tee) { Ok(t) => Chan::Tls(t), Err(_) => { log.note = "tls accept failed".into(); return log; } } };
    if sel == 2 {
        let version = s.chal_flags & 0x02000000 != 0;
        let sc = [0x11u8, 0x22, 0x33, 0x44, 0x55, 0x66, 0x77, 0x88];
        let mut ti = av(2, &utf16("DOM")); ti.extend(av(7, &[1, 2, 3, 4, 5, 6, 7, 8])); ti.extend(av(0, &[]));
        log.chal = challenge(s.chal_flags, &sc, &ti, version, 0, 0);
        log.m1 = match read_der(&mut tls) { Some(m) => m, None => { log.note = "no m1".into(); return log; } };
        let fault = NLA_FAULT.lock().unwrap().clone();
        if let Some((1, junk)) = &fault {
            // a first reply that is not a TSRequest; the server then serves whatever the client sends next
            if junk.is_empty() { let _ = tls.shutdown(); } else if !write_all(&mut tls, junk) { return log; }
        } else if !write_all(&mut tls, &ts_request(Some(&log.chal), None, 2)) { return log; }
        if let Some((1, _)) = &fault {
            // anything further is recorded as MCS-level frames
            loop { let f = match read_tpkt(&mut tls) { Some(f) => f, None => break }; log.frames.push(f); }
            return log;
        }
        log.m2 = match read_der(&mut tls) { Some(m) => m, None => { log.note = "no m2".into(); return log; } };
        let f = parse_ts_request(&log.m2).unwrap_or_default();
        let k = match recover_exported_key(&acc_key, &sc, &f.nego.clone().unwrap_or_default()) { Some(k) => k, None => { log.note = "NT proof does not verify".into(); return log; } };
        log.k = Some(k.clone());
        let mut seal = ServerSeal::new(&k);
        let _ = seal.unseal(&f.pub_key_auth.clone().unwrap_or_default());
        log.r2 = ts_request(None, Some(&seal.seal(&le_add(&spk, 1).unwrap())), 2);
        if let Some((2, junk)) = &fault {
            log.r2 = junk.clone();
            if junk.is_empty() { let _ = tls.shutdown(); } else if !write_all(&mut tls, junk) { return log; }
            loop { let f = match read_tpkt(&mut tls) { Some(f) => f, None => break }; log.frames.push(f); }
            return log;
        }
        if !write_all(&mut tls, &log.r2) { return log; }
        log.m3 = match read_der(&mut tls) { Some(m) => m, None => { log.note = "no m3".into(); return log; } };
        if let Some(ai) = parse_ts_request(&log.m3).and_then(|f| f.auth_info) { if let Some((pt, good)) = seal.unseal(&ai) { if good { log.creds = Some(pt); } } }
    }
    let p = SrvParams { uid: s.uid, version: s.version, selected: sel, license_new: s.license_new };
    let mut sdrq = 0usize;
    let mut njoin = 0usize;
    let mut since_da: Option<usize> = None;
    let mut cur_share = s.share;
    let mut reactivated = false;
    loop {
        let f = {
            // (as read_tpkt, but what arrives instead of a TPKT frame is noted: a DER structure here means that the client
            // speaks CredSSP although this server did not select it)
            let mut h = [0u8; 4];
            if tls.read_exact(&mut h).is_err() { break; }
            let n = ((h[2] as usize) << 8) | h[3] as usize;
            if h[0] != 3 || n < 4 { if log.note.is_empty() { log.note = format!("first byte {:02x} where a TPKT frame was expected", h[0]); } break; }
            let mut v = h.to_vec(); let mut body = vec![0u8; n - 4];
            if tls.read_exact(&mut body).is_err() { break; }
            v.extend(body); v
        };
        log.frames.push(f.clone());
        if f.len() < 8 { continue; }
        let m = &f[7..];
        let mut ans: Vec<u8> = vec![];
        if m[0] == 0x7f { ans.extend(refsrv::connect_response_form(&p, s.ber)); log.ccr = refsrv::gcc_response(&p); }
        else {
            match m[0] >> 2 {
                10 => { let pl = refsrv::cat(&[&[0x2e, 0x00], &refsrv::be16(p.uid - 1001)]); log.au = pl.clone(); ans.extend(refsrv::x224_data(&pl)); }
                14 => { if m.len() >= 5 { njoin += 1; let refuse = s.jrefuse == 3 || s.jrefuse as usize == njoin; let pl = refsrv::cat(&[&[0x3e, if refuse { 0x0c } else { 0x00 }], &m[1..5], &m[3..5]]); log.cjc.push(pl.clone()); ans.extend(refsrv::x224_data(&pl)); } }
                25 => {
                    sdrq += 1;
                    if sdrq == 1 {
                        // the licence and the demand-active travel in separate writes (separate TLS records), as do the
                        // four finalization PDUs below: a client that waits on the socket between two reads finds each
                        let lf = refsrv::mcs_sdin(1003, &refsrv::license_valid(&p)); log.lic = lf[7..].to_vec();
                        // the Client Info PDU has a reply (the licence): nothing may arrive before it is sent
                        if log.ahead.is_none() { std::thread::sleep(Duration::from_millis(4)); if pending(rawfd) { log.ahead = Some(log.frames.len()); } }
                        if !write_all(&mut tls, &lf) { break; }
                        let da = refsrv::mcs_sdin(1003, &refsrv::demand_active(s.share, &s.source, &s.caps));
                        log.srv_msgs.push(da[7..].to_vec());
                        ans.extend(da);
                        since_da = Some(0);
                    } else if let Some(n) = since_da {
                        let n = n + 1;
                        since_da = Some(n);
                        if n == 5 {
                            for b in &[refsrv::synchronize(cur_share, 1002), refsrv::control(cur_share, 4, 0, 0), refsrv::control(cur_share, 2, s.uid, 0x03ea), refsrv::font_map(cur_share)] {
                                let fr = refsrv::mcs_sdin(1003, b);
                                log.srv_msgs.push(fr[7..].to_vec());
                                if !write_all(&mut tls, &fr) { break; }
                            }
                            // a second activation with a new share id (deactivate-all, demand-active)
                            if let (Some(ns), false) = (s.reactivate.map(|x| if x == 0 { s.share } else { x }), reactivated) {
                                reactivated = true;
                                for b in &[refsrv::deactivate_all(cur_share, &s.source), refsrv::demand_active(ns, &s.source, &s.caps)] {
                                    let fr = refsrv::mcs_sdin(1003, b);
                                    log.srv_msgs.push(fr[7..].to_vec());
                                    ans.extend(fr);
                                }
                                cur_share = ns;
                                since_da = Some(0);
                            }
                            if !s.script.is_empty() && (s.reactivate.is_none() || (reactivated && since_da == Some(5))) {
                                if !write_all(&mut tls, &ans) { break; }
                                ans.clear();
                                for act in &s.script {
                                    match act {
                                        Act::Send(b) => { if !write_all(&mut tls, b) { break; } }
                                        Act::Pause(ms) => std::thread::sleep(Duration::from_millis(*ms)),
                                        Act::Mark(rv) => { *rv.mark.lock().unwrap() = Some(std::time::Instant::now()); }
                                        Act::Await(rv, ms) => { let t = std::time::Instant::now(); while !rv.snapped.load(std::sync::atomic::Ordering::SeqCst) && (t.elapsed().as_millis() as u64) < *ms { std::thread::sleep(Duration::from_millis(2)); } }
                                        Act::CloseNotify => { let _ = tls.shutdown(); }
                                        Act::Close => {
                                            // what the client wrote meanwhile is still in the socket: take it in before closing
                                            tls.set_read_timeout(Duration::from_millis(80));
                                            loop { match read_tpkt(&mut tls) { Some(f) => log.frames.push(f), None => break } }
                                            return log;
                                        }
                                    }
                                }
                            }
                        }
                    }
                }
                _ => {}
            }
        }
        // a request that has a reply: the client must be waiting for it, not writing ahead
        let needs_reply = m[0] == 0x7f || matches!(m[0] >> 2, 10 | 14);
        if needs_reply && log.ahead.is_none() {
            std::thread::sleep(Duration::from_millis(4));
            if pending(rawfd) { log.ahead = Some(log.frames.len()); }
        }
        if !ans.is_empty() && !write_all(&mut tls, &ans) { break; }
    }
    log
}

pub fn layout_of(v: u32) -> KeyboardLayout {
    match v { 0x40c => KeyboardLayout::French, 0x407 => KeyboardLayout::German, 0x411 => KeyboardLayout::Japanese, 0x412 => KeyboardLayout::Korean,
              0x401 => KeyboardLayout::Arabic, 0x404 => KeyboardLayout::ChineseUsKeyboard, 0x414 => KeyboardLayout::Norwegian, _ => KeyboardLayout::US }
}

fn parse_event(s: &str) -> Option<RdpEvent> {
    let c = s.chars().next()?;
    let f: Vec<&str> = s[1..].split(':').collect();
    match c {
        'P' => { let b = match f[2] { "1" => PointerButton::Left, "2" => PointerButton::Right, "3" => PointerButton::Middle, _ => PointerButton::None };
                 Some(RdpEvent::Pointer(PointerEvent { x: f[0].parse().ok()?, y: f[1].parse().ok()?, button: b, down: f[3] == "1" })) }
        'K' => Some(RdpEvent::Key(KeyboardEvent { code: f[0].parse().ok()?, down: f[1] == "1" })),
        _ => None,
    }
}

pub struct Run { pub status: String, pub log: ConnLog, pub line: String, pub out: String }

/// history of builder calls on the Connector before `connect` (the final value of every switch is the
/// configured one): 0 = each switch set once; 1 = restricted admin switched on first, then the blank-credentials
/// switch, then restricted admin set to its final value; 2 = blank credentials on, restricted admin on, both set
/// to their final values in the opposite order; 3 = every switch set twice (complement first)
pub static BUILDER_HIST: std::sync::atomic::AtomicU8 = std::sync::atomic::AtomicU8::new(0);
/// when >= 0: the client calls `shutdown` after that many reads (before the activation is complete); -1: after all
pub static EARLY_READS: std::sync::atomic::AtomicI8 = std::sync::atomic::AtomicI8::new(-1);

pub fn run_conn(c: &Cfg, s: &SrvCfg) -> Run {
    let nt_hash = md4(&utf16(&c.pw));
    let acc = Account { domain: c.dom.clone(), user: c.user.clone(), password: c.pw.clone() };
    let key = acc.key();
    let (a, b) = UnixStream::pair().expect("socketpair");
    a.set_read_timeout(Some(Duration::from_secs(3))).ok();
    let rawlog = Arc::new(Mutex::new(vec![]));
    let (s2, key2, rl2) = (s.clone(), key.clone(), rawlog.clone());
    let th = std::thread::spawn(move || serve(b, s2, key2, rl2));
    let reuse = s.reuse;
    // the earlier use of the Connector talks to its own throwaway server
    let warm: Option<(UnixStream, std::thread::JoinHandle<ConnLog>)> = if reuse == 0 { None } else {
        let (a0, b0) = UnixStream::pair().expect("socketpair");
        a0.set_read_timeout(Some(Duration::from_secs(3))).ok();
        let (s0, k0) = (SrvCfg { script: vec![], reactivate: None, reuse: 0, ..s.clone() }, key.clone());
        let th0 = if reuse == 1 { std::thread::spawn(move || serve(b0, s0, k0, Arc::new(Mutex::new(vec![])))) }
                  else { std::thread::spawn(move || { let mut b0 = b0; let _ = read_tpkt(&mut b0); let _ = write_all(&mut b0, &refsrv::tpkt_frame(&crate::props::c05::confirm(3, 0, 2))); ConnLog::default() }) };
        Some((a0, th0))
    };
    let (c2, inputs) = (c.clone(), s.inputs.clone());
    let early = EARLY_READS.load(std::sync::atomic::Ordering::Relaxed);
    let nreads = if early >= 0 { early as usize } else if s.reactivate.is_some() { 11 } else { 5 };
    let res = catch_unwind(AssertUnwindSafe(move || -> Result<(), String> {
        let hist = BUILDER_HIST.load(std::sync::atomic::Ordering::Relaxed);
        let mut con = Connector::new().screen(c2.w, c2.h).credentials(c2.dom.clone(), c2.user.clone(), c2.pw.clone());
        con = match hist {
            1 => con.set_restricted_admin_mode(true).blank_creds(c2.blank).set_restricted_admin_mode(c2.ra),
            2 => con.blank_creds(true).set_restricted_admin_mode(true).set_restricted_admin_mode(c2.ra).blank_creds(c2.blank),
            3 => con.set_restricted_admin_mode(!c2.ra).blank_creds(!c2.blank).auto_logon(!c2.auto).use_nla(!c2.nla).blank_creds(c2.blank).set_restricted_admin_mode(c2.ra),
            _ => con.set_restricted_admin_mode(c2.ra).blank_creds(c2.blank),
        };
        // 4 / 5: the certificate policy is set BEFORE the protocol switches (the order mstsc-rs uses), or between two of them
        let mut con = match hist {
            4 => con.check_certificate(c2.check).auto_logon(c2.auto).use_nla(c2.nla).layout(layout_of(c2.lay)).name(c2.name.clone()),
            5 => con.use_nla(!c2.nla).check_certificate(c2.check).use_nla(c2.nla).auto_logon(c2.auto).layout(layout_of(c2.lay)).name(c2.name.clone()),
            _ => con.auto_logon(c2.auto).use_nla(c2.nla).layout(layout_of(c2.lay)).name(c2.name.clone()).check_certificate(c2.check),
        };
        if c2.hash { con = con.set_password_hash(nt_hash.clone()); }
        // the SAME Connector used before: for a complete earlier connection (1), or for an attempt the
        // server answered with a negotiation failure (2)
        if reuse == 1 {
            if let Some((a0, th0)) = warm { if let Ok(mut c0) = con.connect(a0) { let _ = c0.shutdown(); } let _ = th0.join(); }
        } else if reuse == 2 {
            if let Some((a0, th0)) = warm { let _ = con.connect(a0); let _ = th0.join(); }
        }
        let mut client = con.connect(a).map_err(|e| format!("connect:{:?}", e))?;
        for i in 0..nreads { client.read(|_| {}).map_err(|e| format!("read{}:{:?}", i, e))?; }
        for (i, op) in inputs.iter().enumerate() { client.write(parse_event(op).ok_or("bad event")?).map_err(|e| format!("write{}:{:?}", i, e))?; }
        // an early shutdown leaves server messages unread: give the server time to finish writing them, so that it
        // is still listening when the ultimatum arrives (a write to a closed socket would end its loop)
        if EARLY_READS.load(std::sync::atomic::Ordering::Relaxed) >= 0 { std::thread::sleep(Duration::from_millis(200)); }
        client.shutdown().map_err(|e| format!("shutdown:{:?}", e))?;
        drop(client);
        Ok(())
    }));
    let mut log = th.join().unwrap_or_default();
    log.raw = rawlog.lock().unwrap().clone();
    let status = match &res { Ok(Ok(())) => "ok".to_string(), Ok(Err(e)) => format!("E@{}", e.split(':').next().unwrap_or("")), Err(_) => "P".to_string() };
    let mut nla = log.m1.clone(); nla.extend(&log.m2); nla.extend(&log.m3);
    let frames: Vec<String> = log.frames.iter().map(|f| hex(f)).collect();
    let out = format!("{} ahead={} cr={} nla={} frames={} creds={}", status, log.ahead.map(|x| x.to_string()).unwrap_or("-".into()), hex(&log.cr), hex(&nla), frames.join("+"), log.creds.as_ref().map(|x| hex(x)).unwrap_or("-".into()));
    // observed values for the model
    let nego = parse_ts_request(&log.m1).and_then(|f| f.nego).unwrap_or_default();
    let auth = parse_ts_request(&log.m2).and_then(|f| f.nego).unwrap_or_default();
    let cc = if auth.len() >= 64 { let (l, o) = (auth[12] as usize | (auth[13] as usize) << 8, auth[16] as usize | (auth[17] as usize) << 8); if l == 24 && o + 24 <= auth.len() { auth[o + 16..o + 24].to_vec() } else { vec![0; 8] } } else { vec![0; 8] };
    let r2obs = { let r2 = log.r2.clone(); match catch_unwind(move || cssp::read_ts_validate(&r2)) { Ok(Ok(v)) => format!("ok_{}", hex(&v)), Ok(Err(_)) => "E".to_string(), Err(_) => "P".to_string() } };
    let (_, spk) = identity(s.id);
    let client_pw = if c.hash { String::new() } else { c.pw.clone() };
    let first = log.frames.iter().find(|f| f.len() >= 12 && f[7] >> 2 == 14).map(|f| ((f[10] as u32) << 8) | f[11] as u32).unwrap_or(0);
    let srvmsgs: Vec<String> = log.srv_msgs.iter().map(|m| hex(m)).collect();
    let capsh: Vec<String> = s.caps.iter().map(|x| hex(x)).collect();
    let line = format!("conn reads={} hist={} w={} h={} lay={} name={} dom8={} usr8={} pwd8={} hash={} ra={} blank={} auto={} nla={} ssel={} id={} uid={} ver={} licnew={} share={} source={} caps={} cflags={:08x} react={} reuse={} jrefuse={} ber={} inputs={} sel={} first={} srvmsgs={} ccr={} au={} cj1={} cj2={} lic={} key={} dom16={} usr16={} neg={} chal={} cc={} ek={} pw16={} ud16={} cp16={} cp8={} spk={} r2obs={}",
        if early >= 0 { early.to_string() } else { "-".to_string() }, BUILDER_HIST.load(std::sync::atomic::Ordering::Relaxed), c.w, c.h, c.lay, hex(c.name.as_bytes()), hex(c.dom.as_bytes()), hex(c.user.as_bytes()), hex(c.pw.as_bytes()), c.hash as u8, c.ra as u8, c.blank as u8, c.auto as u8, c.nla as u8,
        s.sel, s.id, s.uid, s.version, s.license_new as u8, s.share, hex(&s.source), capsh.join(","), s.chal_flags, s.reactivate.map(|x| x.to_string()).unwrap_or("-".into()), s.reuse, s.jrefuse, s.ber, s.inputs.join(","),
        log.sel, first, srvmsgs.join(","), hex(&log.ccr), hex(&log.au), hex(log.cjc.get(0).unwrap_or(&vec![])), hex(log.cjc.get(1).unwrap_or(&vec![])), hex(&log.lic), hex(&key), hex(&utf16(&c.dom)), hex(&utf16(&c.user)), hex(&nego), hex(&log.chal), hex(&cc), hex(&log.k.clone().unwrap_or(vec![0; 16])),
        hex(&utf16(&c.pw)), hex(&utf16(&(c.user.to_uppercase() + &c.dom))), hex(&utf16(&client_pw)), hex(client_pw.as_bytes()), hex(&spk), r2obs);
    Run { status, log, line, out }
}

/// UNICODE flag of the CHALLENGE the reference server sent
fn s_flags_unicode(chal: &[u8]) -> bool { chal.len() >= 24 && chal[20] & 1 != 0 }

fn contains(h: &[u8], n: &[u8]) -> bool { !n.is_empty() && h.windows(n.len()).any(|w| w == n) }

/// implementation-side oracle of C17: where the password may and may not appear
pub fn secrets_violation(c: &Cfg, r: &Run) -> Option<String> {
    if r.status != "ok" { return Some(format!("connection did not complete: {}", r.status)); }
    let log = &r.log;
    let (p8, p16) = (c.pw.as_bytes().to_vec(), utf16(&c.pw));
    if c.pw.chars().count() >= 3 {
        let nego = parse_ts_request(&log.m1).and_then(|f| f.nego).unwrap_or_default();
        let auth = parse_ts_request(&log.m2).and_then(|f| f.nego).unwrap_or_default();
        for (what, hay) in &[("raw transport", &log.raw), ("negotiation request", &log.cr), ("NTLM negotiate", &nego), ("NTLM authenticate", &auth), ("the first CredSSP message", &log.m1), ("the second CredSSP message", &log.m2), ("the third CredSSP message (authInfo must be sealed)", &log.m3)] {
            if contains(hay, &p8) || contains(hay, &p16) { return Some(format!("password found in {}", what)); }
        }
        // after TLS it may appear only in TSCredentials and in the Client Info PDU
        for (i, f) in log.frames.iter().enumerate() {
            let is_info = f.len() > 15 && f[7] >> 2 == 25 && { let off = if f[13] & 0x80 != 0 { 15 } else { 14 }; f.len() > off + 1 && f[off] == 0x40 && f[off + 1] == 0 };
            if !is_info && (contains(f, &p8) || contains(f, &p16)) { return Some(format!("password found in frame {}", i)); }
        }
    }
    // the reference server's reading of the Client Info PDU: flags and the three credential strings
    if let Some(f) = log.frames.iter().find(|f| f.len() > 15 && f[7] >> 2 == 25 && { let off = if f[13] & 0x80 != 0 { 15 } else { 14 }; f.len() > off + 22 && f[off] == 0x40 && f[off + 1] == 0 }) {
        let off = if f[13] & 0x80 != 0 { 15 } else { 14 } + 4;
        let p = &f[off..];
        let flags = u32::from_le_bytes([p[4], p[5], p[6], p[7]]);
        let cb = |i: usize| p[8 + 2 * i] as usize | (p[9 + 2 * i] as usize) << 8;
        let (cd, cu, cp) = (cb(0), cb(1), cb(2));
        let base = 18;
        if p.len() < base + cd + 2 + cu + 2 + cp + 2 { return Some("Client Info: counts exceed the packet".into()); }
        let d = &p[base..base + cd]; let u = &p[base + cd + 2..base + cd + 2 + cu]; let pw = &p[base + cd + 2 + cu + 2..base + cd + 2 + cu + 2 + cp];
        let (wd, wu, wp) = if c.ra { (vec![], vec![], vec![]) } else { (utf16(&c.dom), utf16(&c.user), utf16(&c.pw)) };
        if d != &wd[..] || u != &wu[..] || pw != &wp[..] { return Some(format!("Client Info carries domain/user/password that the mode does not prescribe (restricted admin = {})", c.ra)); }
        if (flags & 0x08 != 0) != c.auto { return Some(format!("auto-logon flag is {} but {} was requested", flags & 0x08 != 0, c.auto)); }
    } else { return Some("no Client Info PDU seen".into()); }
    // TSCredentials: empty in restricted-admin and blank-credentials mode, the configured strings otherwise
    if log.sel == 2 {
        if let Some(cr) = &log.creds {
            match crate::props::c01::parse_ts_credentials(cr) {
                Some((d, u, p)) => {
                    if (c.ra || c.blank) && !(d.is_empty() && u.is_empty() && p.is_empty()) { return Some("TSCredentials are not empty although restricted admin / blank credentials was requested".into()); }
                    if !(c.ra || c.blank) {
                        let unicode = s_flags_unicode(&log.chal);
                        let enc = |x: &str| if unicode { utf16(x) } else { x.as_bytes().to_vec() };
                        let pw = if c.hash { String::new() } else { c.pw.clone() };
                        if d != enc(&c.dom) || u != enc(&c.user) || p != enc(&pw) { return Some("TSCredentials do not carry the configured domain / user / password".into()); }
                    }
                }
                None => return Some("TSCredentials are not a well-formed TSPasswordCreds".into()),
            }
        } else { return Some("TSCredentials could not be unsealed by the reference server".into()); }
    }
    // the negotiation request announces restricted admin exactly when requested
    if log.cr.len() >= 13 && (log.cr[12] & 1 != 0) != c.ra { return Some("restricted-admin flag of the negotiation request does not match the mode".into()); }
    None
}

/// C02: certificate checking gates TLS.  The reference server presents a self-signed
/// certificate; observed: did the TLS handshake complete at the server, did any NTLM / MCS
/// byte arrive afterwards, did the connect succeed.
pub fn tlsgate(em: &mut Emitter, check: bool, nla: bool, ra: bool, ssel: u32) {
    let c = Cfg { w: 800, h: 600, lay: 0x409, name: "rdp-rs".into(), dom: "d".into(), user: "u".into(), pw: "secret-pw".into(), hash: false, ra, blank: false, auto: false, nla, check };
    let s = SrvCfg { sel: ssel, id: 1, uid: 1004, version: 0x80004, license_new: false, share: 0x103ea, caps: default_caps(), source: vec![], chal_flags: 0x62898235, inputs: vec![], script: vec![], reactivate: None, reuse: 0, jrefuse: 0, ber: 0 };
    let hist = BUILDER_HIST.load(std::sync::atomic::Ordering::Relaxed);
    watch_begin(&format!("tlsgate hist={} check={} nla={} ra={} ssel={} sel=0", hist, check as u8, nla as u8, ra as u8, ssel));
    let r = run_conn(&c, &s);
    let tls_up = r.log.note != "tls accept failed" && (!r.log.m1.is_empty() || !r.log.frames.is_empty());
    let cred = !r.log.m1.is_empty() || !r.log.m2.is_empty() || r.log.frames.len() > 5;
    let out = format!("tls={} cred={} connect={} req={}", if tls_up { "up" } else { "refused" }, cred as u8, if r.status == "ok" { "ok" } else { "E" }, hex(&r.log.cr));
    let line = format!("tlsgate hist={} check={} nla={} ra={} ssel={} sel={} nf={} bare={}", hist, check as u8, nla as u8, ra as u8, ssel, r.log.sel, if ssel & 0x1000 != 0 { (ssel >> 16) & 0xff } else { 0 }, (ssel == 0x200) as u8);
    let mut obs = Obs::new(out).nt(true).tag("tlsgate");
    if check && (tls_up || cred) { obs = obs.viol("certificate checking enabled, untrusted certificate, but the client went on"); }
    // the reference server's view of the negotiation: what it selected must be in the request it received
    let offered = if r.log.cr.len() >= 19 { u32::from_le_bytes([r.log.cr[15], r.log.cr[16], r.log.cr[17], r.log.cr[18]]) } else { 0 };
    if (tls_up || cred) && r.log.sel & offered == 0 { obs = obs.viol("the client went on although the server selected a protocol that was not in the request"); }
    if offered != if nla { 3 } else { 1 } { obs = obs.viol("the negotiation request does not offer what the configuration asks for"); }
    if r.log.sel != 2 && r.log.note.starts_with("first byte 30") { obs = obs.viol("a DER structure (a CredSSP token) arrived where the selected protocol carries MCS frames: the client runs a security protocol the server did not select"); }
    em.case(&line, move || obs);
}

/// C02 `nlagate`: the server selects Hybrid and completes TLS, then answers CredSSP round `which` with `junk`
/// (not a TSRequest).  The connection must fail and no MCS frame may follow.
pub fn nlagate(em: &mut Emitter, which: u8, junk_hex: &str) {
    let c = Cfg { w: 800, h: 600, lay: 0x409, name: "rdp-rs".into(), dom: "d".into(), user: "u".into(), pw: "secret-pw".into(), hash: false, ra: false, blank: false, auto: false, nla: true, check: false };
    let s = SrvCfg { sel: 2, id: 1, uid: 1004, version: 0x80004, license_new: false, share: 0x103ea, caps: default_caps(), source: vec![], chal_flags: 0x62898235, inputs: vec![], script: vec![], reactivate: None, reuse: 0, jrefuse: 0, ber: 0 };
    let line = format!("nlagate {} {}", which, if junk_hex.is_empty() { "-" } else { junk_hex });
    watch_begin(&line);
    *NLA_FAULT.lock().unwrap() = Some((which, unhex(junk_hex)));
    let r = run_conn(&c, &s);
    *NLA_FAULT.lock().unwrap() = None;
    let out = format!("connect={} mcs={}", if r.status == "ok" { "ok" } else { "E" }, r.log.frames.len());
    let mut obs = Obs::new(out).nt(true).tag("nlagate");
    if r.status == "ok" || !r.log.frames.is_empty() { obs = obs.viol("NLA was selected and did not complete, yet the client went on"); }
    if r.status == "P" { obs = obs.viol("panic"); }
    em.case(&line, move || obs);
}

/// implementation-side oracle of C03: the reference server's view of the sequence — mandated
/// order, each PDU carrying the identifiers the server assigned
pub fn sequence_violation(s: &SrvCfg, r: &Run) -> Option<String> {
    if r.status != "ok" { return Some(format!("connection did not complete: {}", r.status)); }
    if let Some(k) = r.log.ahead { return Some(format!("the client wrote frame {} before the server had sent the reply the previous request depends on", k)); }
    let fr = &r.log.frames;
    let kind = |f: &Vec<u8>| -> u8 { if f.len() < 8 { 0 } else if f[7] == 0x7f { 0x7f } else { f[7] >> 2 } };
    let early = EARLY_READS.load(std::sync::atomic::Ordering::Relaxed);
    let n_act = if early >= 0 { if early >= 1 { 1 } else { 0 } } else if s.reactivate.is_some() { 2 } else { 1 };
    let want_min = 6 + 5 * n_act + s.inputs.len() + 1;
    if fr.len() != want_min { return Some(format!("{} frames, expected {}", fr.len(), want_min)); }
    let head: Vec<u8> = fr[..6].iter().map(kind).collect();
    if head != vec![0x7f, 1, 10, 14, 14, 25] { return Some(format!("connect phase order {:?}", head)); }
    let uidm = s.uid - 1001;
    let mut chans = vec![];
    for j in &fr[3..5] { if j.len() != 12 || (((j[8] as u16) << 8) | j[9] as u16) != uidm { return Some("join request does not carry the assigned user id".into()); } chans.push(((j[10] as u16) << 8) | j[11] as u16); }
    chans.sort(); let mut want = vec![1003u16, s.uid]; want.sort();
    if chans != want { return Some(format!("joined channels {:?}", chans)); }
    // every send-data-request: initiator, channel, then the share-level content
    let mut share = s.share;
    let mut idx = 6;
    let payload = |f: &Vec<u8>| -> Option<Vec<u8>> {
        if f.len() < 15 || f[7] != 0x64 { return None; }
        if (((f[8] as u16) << 8) | f[9] as u16) != uidm || (((f[10] as u16) << 8) | f[11] as u16) != 1003 { return None; }
        let off = if f[13] & 0x80 != 0 { 15 } else { 14 };
        Some(f[off..].to_vec())
    };
    if payload(&fr[5]).is_none() { return Some("client info not sent by the assigned user on the I/O channel".into()); }
    for a in 0..n_act {
        if a == 1 { share = s.reactivate.map(|x| if x == 0 { s.share } else { x }).unwrap(); }
        let exp: [(u16, u8, u16); 5] = [(0x13, 0, 0), (0x17, 0x1f, 0), (0x17, 0x14, 4), (0x17, 0x14, 1), (0x17, 0x27, 0)];
        for (pt, t2, action) in exp.iter() {
            let p = match payload(&fr[idx]) { Some(p) => p, None => return Some(format!("frame {} is not a send-data-request of the assigned user on channel 1003", idx)) };
            if p.len() < 10 { return Some(format!("frame {} too short", idx)); }
            let ptype = p[2] as u16 | (p[3] as u16) << 8;
            let sid = u32::from_le_bytes([p[6], p[7], p[8], p[9]]);
            if ptype != *pt { return Some(format!("activation {}: frame {} has pduType {:#x}, expected {:#x}", a, idx, ptype, pt)); }
            if sid != share { return Some(format!("activation {}: frame {} carries share id {:#x}, the server assigned {:#x}", a, idx, sid, share)); }
            if *pt == 0x17 { if p.len() < 18 || p[14] != *t2 { return Some(format!("activation {}: frame {} pduType2 {:#x}, expected {:#x}", a, idx, p.get(14).cloned().unwrap_or(0), t2)); }
                if *t2 == 0x14 && (p.len() < 20 || (p[18] as u16 | (p[19] as u16) << 8) != *action) { return Some(format!("activation {}: control action", a)); } }
            idx += 1;
        }
    }
    for _ in 0..s.inputs.len() {
        let p = match payload(&fr[idx]) { Some(p) => p, None => return Some("input not sent by the assigned user".into()) };
        if p.len() < 18 || p[14] != 0x1c || u32::from_le_bytes([p[6], p[7], p[8], p[9]]) != share { return Some("input PDU does not carry the current share id".into()); }
        idx += 1;
    }
    if fr[idx][7..] != [0x21, 0x80] { return Some("shutdown did not send a disconnect provider ultimatum".into()); }
    None
}

pub fn run_case(toks: &[&str], em: &mut Emitter) {
    let get = |k: &str| -> String { toks.iter().find(|x| x.starts_with(&format!("{}=", k))).map(|x| x[k.len() + 1..].to_string()).unwrap_or_default() };
    let s8 = |k: &str| String::from_utf8_lossy(&unhex(&get(k))).to_string();
    let b = |k: &str| get(k) == "1";
    let c = Cfg { w: get("w").parse().unwrap_or(800), h: get("h").parse().unwrap_or(600), lay: get("lay").parse().unwrap_or(0x409), name: s8("name"), dom: s8("dom8"), user: s8("usr8"), pw: s8("pwd8"), hash: b("hash"), ra: b("ra"), blank: b("blank"), auto: b("auto"), nla: b("nla"), check: b("check") };
    let caps: Vec<Vec<u8>> = get("caps").split(',').filter(|x| !x.is_empty()).map(|x| unhex(x)).collect();
    if toks[0] == "nlagate" { nlagate(em, toks[1].parse().unwrap_or(1), if toks[2] == "-" { "" } else { toks[2] }); return; }
    if toks[0] == "tlsgate" { BUILDER_HIST.store(get("hist").parse().unwrap_or(0), std::sync::atomic::Ordering::Relaxed); tlsgate(em, b("check"), b("nla"), b("ra"), get("ssel").parse().unwrap_or(0)); BUILDER_HIST.store(0, std::sync::atomic::Ordering::Relaxed); return; }
    let s = SrvCfg { sel: get("ssel").parse().unwrap_or(0), id: get("id").parse().unwrap_or(1), uid: get("uid").parse().unwrap_or(1004), version: get("ver").parse().unwrap_or(0x80004), license_new: b("licnew"), share: get("share").parse().unwrap_or(0x103ea),
        caps, source: unhex(&get("source")), chal_flags: u32::from_str_radix(&get("cflags"), 16).unwrap_or(0), inputs: get("inputs").split(',').filter(|x| !x.is_empty()).map(|x| x.to_string()).collect(), script: vec![], reactivate: get("react").parse().ok(), reuse: get("reuse").parse().unwrap_or(0), jrefuse: get("jrefuse").parse().unwrap_or(0), ber: get("ber").parse().unwrap_or(0) };
    BUILDER_HIST.store(get("hist").parse().unwrap_or(0), std::sync::atomic::Ordering::Relaxed);
    EARLY_READS.store(get("reads").parse().unwrap_or(-1), std::sync::atomic::Ordering::Relaxed);
    let _ = emit(em, &c, &s);
    BUILDER_HIST.store(0, std::sync::atomic::Ordering::Relaxed);
    EARLY_READS.store(-1, std::sync::atomic::Ordering::Relaxed);
}

/// the replayable part of a `conn` line (configuration and server choices, nothing observed)
pub fn recipe_line(c: &Cfg, s: &SrvCfg) -> String {
    let capsh: Vec<String> = s.caps.iter().map(|x| hex(x)).collect();
    format!("conn w={} h={} lay={} name={} dom8={} usr8={} pwd8={} hash={} ra={} blank={} auto={} nla={} check={} ssel={} id={} uid={} ver={} licnew={} share={} source={} caps={} cflags={:08x} react={} reuse={} jrefuse={} ber={} inputs={}",
        c.w, c.h, c.lay, hex(c.name.as_bytes()), hex(c.dom.as_bytes()), hex(c.user.as_bytes()), hex(c.pw.as_bytes()), c.hash as u8, c.ra as u8, c.blank as u8, c.auto as u8, c.nla as u8, c.check as u8,
        s.sel, s.id, s.uid, s.version, s.license_new as u8, s.share, hex(&s.source), capsh.join(","), s.chal_flags, s.reactivate.map(|x| x.to_string()).unwrap_or("-".into()), s.reuse, s.jrefuse, s.ber, s.inputs.join(","))
}

/// "strings are encoded and terminated as specified": the fixed 32-byte clientName of the client core data (in the MCS
/// connect-initial, the first frame after the negotiation) is well-formed UTF-16 up to its terminator — no half of a
/// surrogate pair is left by the truncation to 15 units
fn client_name_violation(r: &Run) -> Option<String> {
    let f = r.log.frames.first()?;
    let i = f.windows(4).position(|w| w == b"Duca")?;
    let j = i + f[i..].windows(2).position(|w| w == [0x01, 0xc0])?;
    let name = f.get(j + 4 + 20..j + 4 + 20 + 32)?;
    let units: Vec<u16> = name.chunks(2).map(|c| u16::from_le_bytes([c[0], c[1]])).collect();
    let upto = units.iter().position(|u| *u == 0)?;
    let mut k = 0;
    while k < upto {
        let u = units[k];
        if (0xD800..0xDC00).contains(&u) { if k + 1 < upto && (0xDC00..0xE000).contains(&units[k + 1]) { k += 2; continue; } return Some(format!("clientName holds a lone leading surrogate {:04x} at unit {}", u, k)); }
        if (0xDC00..0xE000).contains(&u) { return Some(format!("clientName holds a lone trailing surrogate {:04x} at unit {}", u, k)); }
        k += 1;
    }
    None
}

pub fn emit(em: &mut Emitter, c: &Cfg, s: &SrvCfg) -> Run {
    watch_begin(&recipe_line(c, s));
    let r = run_conn(c, s);
    let mut obs = Obs::new(r.out.clone()).nt(r.status == "ok").tag(if c.nla { "nla" } else { "ssl" });
    if c.ra { obs = obs.tag("ra"); } if c.blank { obs = obs.tag("blank"); } if c.hash { obs = obs.tag("hash"); } if c.auto { obs = obs.tag("auto"); }
    if r.status == "P" { obs = obs.viol("panic").tag("panic"); }
    else if let Some(v) = secrets_violation(c, &r) { obs = obs.viol(&v); }
    else if let Some(v) = sequence_violation(s, &r) { obs = obs.viol(&v); }
    else if let Some(v) = client_name_violation(&r) { obs = obs.viol(&v); }
    let line = r.line.clone();
    em.case(&line, move || obs);
    r
}

/// C04: every message the client wrote goes to the strict reference decoder (driver side)
pub fn emit_strict(em: &mut Emitter, r: &Run, seen: &mut std::collections::HashSet<Vec<u8>>) {
    let mut items: Vec<(&str, Vec<u8>)> = vec![("frame", r.log.cr.clone())];
    for m in [&r.log.m1, &r.log.m2, &r.log.m3].iter() { if !m.is_empty() { items.push(("tsreq", (*m).clone())); } }
    for f in &r.log.frames { items.push(("frame", f.clone())); }
    for (k, b) in items {
        if b.is_empty() || !seen.insert(b.clone()) { continue; }
        let line = format!("strict {} {}", k, hex(&b));
        em.case(&line, move || Obs::new("ok".into()).nt(true).tag("strict"));
    }
}

pub fn default_caps() -> Vec<Vec<u8>> {
    vec![refsrv::cap(1, &[1, 0, 3, 0, 0, 2, 0, 0, 0, 0, 0x1d, 4, 0, 0, 0, 0, 0, 0, 1, 1]),
         refsrv::cap(2, &[0x20, 0, 1, 0, 1, 0, 1, 0, 0x20, 3, 0x58, 2, 0, 0, 1, 0, 1, 0, 0, 0x1e, 1, 0, 0, 0]),
         refsrv::cap(9, &[0, 0, 0, 0])]
}

fn strings() -> Vec<&'static str> { vec!["aaaaaaaaaaaaaa\u{10FFFD}", "aaaaaaaaaaaaaa\u{10000}z", "aaaaaaaaaaaaa\u{10FC00}\u{10FFFF}", "aaaaaaaaaaaaaaa\u{10FFFF}", "", "a", "user", "a\u{0}b", "\u{0}", "Administrator", "élève", "名前", "😀user", "ßtraße-long-name-ü", "0123456789abcdef", "0123456789abcdefXYZ", "éééééééééééééééé", "😀😀😀😀😀😀😀😀", "a b c",
    // up to 64 code points: 26 / 27 / 37 / 64 units, 32 surrogate pairs, 64 two-byte letters
    "abcdefghijklmnopqrstuvwxyz", "abcdefghijklmnopqrstuvwxyz0", "corp-domain-with-a-long-name.example.", "0123456789012345678901234567890123456789012345678901234567890123",
    "😀😀😀😀😀😀😀😀😀😀😀😀😀😀😀😀😀😀😀😀😀😀😀😀😀😀😀😀😀😀😀😀", "éééééééééééééééééééééééééééééééééééééééééééééééééééééééééééééééé"] }

pub fn generate(prop: &str, thorough: bool, seed: u64, part: (usize, usize), em: &mut Emitter) {
    let mut r = Rng::new(seed ^ 0xC17C03);
    let strs = strings();
    let pws = ["", "p", "password", "pässwörd", "密码🔑x", "P@ssw0rd!", "hunter2hunter2", "pw\u{0}tail"];
    let mut idx = 0usize;
    let mut seen = std::collections::HashSet::new();
    // a server that selects plain RDP security (never offered) and then speaks in the clear: nothing may follow the request
    if part.0 == 0 { for nla in 0..2 { for ra in 0..2 { tlsgate(em, false, nla == 1, ra == 1, 0x100); tlsgate(em, false, nla == 1, ra == 1, 0x200); } } }
    // every mode combination {nla, restricted, blank, auto, hash} ...
    let rounds = match (prop, thorough) { ("C17", false) => 2, ("C17", true) => 12, (_, false) => 1, (_, true) => 4 };
    for round in 0..rounds {
        for mode in 0..32u32 {
            idx += 1; if idx % part.1 != part.0 { continue; }
            let c = Cfg { w: *r.pick(&[800u16, 1024, 640, 1, 4096, 65535]), h: *r.pick(&[600u16, 768, 480, 1, 2048]), lay: *r.pick(&[0x409u32, 0x40c, 0x407, 0x411, 0x412, 0x401, 0x404, 0x414]),
                name: if round == 0 { "rdp-rs".into() } else { r.pick(&strs).to_string() }, dom: r.pick(&["", "DOMAIN", "домен"]).to_string(), user: r.pick(&strs).to_string(), pw: r.pick(&pws).to_string(),
                nla: mode & 1 != 0, ra: mode & 2 != 0, blank: mode & 4 != 0, auto: mode & 8 != 0, hash: mode & 16 != 0, check: false };
            let mut flags: u32 = 0x40000000 | 0x20000000 | 0x00800000 | 0x00080000 | 0x00008000 | 0x00000200 | 0x00000020 | 0x00000010 | 0x00000004;
            if r.chance(1, 2) { flags |= 0x02000000; } if r.chance(3, 4) { flags |= 1; }
            // servers that do not echo SEAL / SIGN: what the client seals does not depend on it
            if mode % 5 == 1 { flags &= !0x20; } if mode % 7 == 3 { flags &= !0x10; }
            // the order and repetition of the Connector's builder calls (last call per switch wins)
            BUILDER_HIST.store(((mode + round as u32) % 4) as u8, std::sync::atomic::Ordering::Relaxed);
            let s = SrvCfg { sel: 0, id: 1 + (mode as usize % 2), uid: 1004, version: [0x80004u32, 0x80001, 0x80004, 0x80005, 0x80004, 0x80010][((mode / 8) as usize + round) % 6], license_new: false, share: 0x103ea, caps: default_caps(), source: b"RDP\0".to_vec(), chal_flags: flags, inputs: vec!["P10:20:1:1".into(), "K30:1".into()], script: vec![], reactivate: None, reuse: if round % 2 == 1 { 1 + (mode % 2) as u8 } else { 0 }, jrefuse: 0, ber: 0 };
            let run = emit(em, &c, &s);
            BUILDER_HIST.store(0, std::sync::atomic::Ordering::Relaxed);
            if prop == "C04" { emit_strict(em, &run, &mut seen); }
        }
    }
    // a user principal name together with a domain, and credential strings of more than 255 UTF-16 units (cb fields above
    // 510): sent in full, each count matching its string, in the Client Info PDU as in the NTLM and CredSSP structures
    if part.0 == 0 {
        let long = |c: &str, n: usize| -> String { c.repeat(n) };
        for (k, (dom, user, pw)) in [("CORP".to_string(), "user@corp.example".to_string(), "pw".to_string()), ("".to_string(), "user@corp.example".to_string(), "".to_string()),
                                     ("D".to_string(), "u".to_string(), long("p", 256)), ("D".to_string(), long("u", 292), "p".to_string()), (long("d", 256), "user".to_string(), long("é", 300))].iter().enumerate() {
            for nla in &[false, true] {
                let c = Cfg { w: 800, h: 600, lay: 0x409, name: "rdp-rs".into(), dom: dom.clone(), user: user.clone(), pw: pw.clone(), hash: false, ra: false, blank: false, auto: k % 2 == 0, nla: *nla, check: false };
                let s = SrvCfg { sel: 0, id: 1, uid: 1004, version: 0x80004, license_new: false, share: 0x103ea, caps: default_caps(), source: b"RDP\0".to_vec(), chal_flags: 0x62898235, inputs: vec![], script: vec![], reactivate: None, reuse: 0, jrefuse: 0, ber: 0 };
                let run = emit(em, &c, &s);
                if prop == "C04" { emit_strict(em, &run, &mut seen); }
            }
        }
    }
    if prop == "C17" { return; }
    // a Client Info PDU whose size sits on the PER length boundary (126 / 128 / 130 bytes of user data: one-byte and
    // two-byte length forms): a server that announces a pre-5 version gets no extended info, credentials of 47..49 units
    if part.0 == 0 {
        for total in 46..=50usize {
            let c = Cfg { w: 800, h: 600, lay: 0x409, name: "rdp-rs".into(), dom: "D".repeat(16), user: "u".repeat(16), pw: "p".repeat(total - 32), hash: false, ra: false, blank: false, auto: false, nla: false, check: false };
            let s = SrvCfg { sel: 0, id: 1, uid: 1004, version: 0x80001, license_new: false, share: 0x103ea, caps: default_caps(), source: b"RDP\0".to_vec(), chal_flags: 0x62898235, inputs: vec![], script: vec![], reactivate: None, reuse: 0, jrefuse: 0, ber: 0 };
            let run = emit(em, &c, &s);
            if prop == "C04" { emit_strict(em, &run, &mut seen); }
        }
    }
    // client names whose 15th / 16th UTF-16 unit is half of a surrogate pair, for every kind of lead surrogate
    if part.0 == 0 {
        for name in strs.iter().take(4) {
            let c = Cfg { w: 800, h: 600, lay: 0x409, name: name.to_string(), dom: "D".into(), user: "u".into(), pw: "p".into(), hash: false, ra: false, blank: false, auto: false, nla: false, check: false };
            let s = SrvCfg { sel: 0, id: 1, uid: 1004, version: 0x80004, license_new: false, share: 0x103ea, caps: default_caps(), source: b"RDP\0".to_vec(), chal_flags: 0x62898235, inputs: vec![], script: vec![], reactivate: None, reuse: 0, jrefuse: 0, ber: 0 };
            let run = emit(em, &c, &s);
            if prop == "C04" { emit_strict(em, &run, &mut seen); }
        }
    }
    // shutdown before the activation is complete (right after connect, after the demand-active was answered, in
    // the middle of the finalization): the disconnect provider ultimatum is sent all the same
    if part.0 == 0 {
        for (k, early) in [0i8, 1, 2, 4].iter().enumerate() {
            let c = Cfg { w: 800, h: 600, lay: 0x409, name: "rdp-rs".into(), dom: "DOM".into(), user: "user".into(), pw: "pw".into(), hash: false, ra: false, blank: false, auto: false, nla: k % 2 == 1, check: false };
            let s = SrvCfg { sel: 0, id: 1, uid: 1004 + k as u16, version: 0x80004, license_new: false, share: 0x103ea, caps: default_caps(), source: b"RDP\0".to_vec(), chal_flags: 0x62898235, inputs: vec![], script: vec![], reactivate: None, reuse: 0, jrefuse: 0, ber: 0 };
            EARLY_READS.store(*early, std::sync::atomic::Ordering::Relaxed);
            let run = emit(em, &c, &s);
            EARLY_READS.store(-1, std::sync::atomic::Ordering::Relaxed);
            if prop == "C04" { emit_strict(em, &run, &mut seen); }
        }
    }
    // C03 / C04: conforming-server parameter choices x configurations
    let n = if thorough { 1500 } else { 150 };
    for i in 0..n {
        idx += 1; if idx % part.1 != part.0 { continue; }
        let c = Cfg { w: r.range(1, 65535) as u16, h: r.range(1, 65535) as u16, lay: *r.pick(&[0x409u32, 0x40c, 0x407, 0x411, 0x412, 0x401, 0x404, 0x414]), name: r.pick(&strs).to_string(), dom: r.pick(&strs).to_string(), user: r.pick(&strs).to_string(), pw: r.pick(&pws).to_string(),
            nla: r.chance(1, 2), ra: r.chance(1, 5), blank: r.chance(1, 5), auto: r.chance(1, 3), hash: r.chance(1, 5), check: false };
        let uid = match i % 5 { 0 => 1001, 1 => 65535, 2 => 1002, _ => r.range(1001, 65535) as u16 };
        let mut caps = default_caps();
        if r.chance(1, 2) { let (t, n) = (r.range(30, 60) as u16, r.below(12) as usize); let b = r.bytes(n); caps.push(refsrv::cap(t, &b)); }
        if r.chance(1, 3) { caps.swap(0, 1); }
        let ninp = r.below(4) as usize;
        let inputs: Vec<String> = (0..ninp).map(|_| if r.chance(1, 2) { format!("P{}:{}:{}:{}", r.below(65536), r.below(65536), r.below(4), r.below(2)) } else { format!("K{}:{}", r.below(256), r.below(2)) }).collect();
        let nsrc = r.below(6) as usize;
        let s = SrvCfg { sel: if c.nla && r.chance(1, 3) { 1 } else { 0 }, id: 1 + i % 2, uid, version: *r.pick(&[0x80004u32, 0x80001, 0x80005, 0x80010]), license_new: r.chance(1, 2), share: match i % 6 { 1 => 0, 4 => 0xffff_ffff, _ => r.next() as u32 },
            caps, source: r.bytes(nsrc), chal_flags: 0x62898235 | if r.chance(1, 2) { 0x02000000 } else { 0 }, inputs, script: vec![], reactivate: match r.below(5) { 0 | 1 => Some(r.next() as u32), 2 => Some(0), _ => None }, reuse: if i % 7 == 3 { 1 } else if i % 7 == 5 { 2 } else { 0 }, jrefuse: if i % 11 == 4 { 1 + (i / 11 % 3) as u8 } else { 0 }, ber: if i % 5 == 2 { 1 + (i / 5 % 2) as u8 } else { 0 } };
        let run = emit(em, &c, &s);
        if prop == "C04" { emit_strict(em, &run, &mut seen); }
    }
    // C03: per demand-active one confirm-active + finalization, however many times the session is re-activated
    if prop == "C03" && part.0 == 0 { let mut rr = Rng::new(seed ^ 0xC0322); crate::props::gsess::many_activations(em, &mut rr); }
    // C04: a transport that accepts only part of each write: every PDU still reaches the wire complete, so that the
    // length fields describe what was emitted (TPKT and X.224 layers, caps of 1, 3, 7 bytes and irregular ones)
    if prop == "C04" && part.0 == 0 {
        for len in &[0usize, 1, 7, 20, 300] { for w in &["1,1,1,1,1,1,1,1,1,1,1,1,1,1,1,1,1,1,1,1,1,1,1,1,1,1,1,1,1,1,1,1,1,1,1,1,1,1,1,1", "7,7,7,7,7,7,7,7,7,7,7,7,7,7,7,7,7,7,7,7,7,7,7,7,7,7,7,7,7,7,7,7,7,7,7,7,7,7,7,7,7,7,7,7,7,7,7,7", "3,1,4,1,5,9,2,6,5,3,5,8,9,7,9,3,2,3,8,4,6,2,6,4,3,3,8,3,2,7,9,5,200,200", "4,1000"] {
            crate::props::c14::emit(em, "tpkt_write", &format!("pat:{}:1", len), w);
            crate::props::c14::emit(em, "x224_write", &format!("pat:{}:2", len), w);
        } }
    }
    // C04: tokens of a second exchange on a used Ntlm object whose first server made the opposite UNICODE
    // choice: names and credentials are encoded as the flags of *this* exchange say
    if prop == "C04" && part.0 == 0 {
        for (k, fl) in [0x62898235u32, 0x62898234, 0x60898235, 0x60898234].iter().enumerate() {
            let mut ti = crate::props::c15::av(2, &crate::props::c15::utf16("D")); ti.extend(crate::props::c15::av(7, &r.bytes(8))); ti.extend(crate::props::c15::av(0, &[]));
            let scv = r.bytes(8); let mut sc = [0u8; 8]; sc.copy_from_slice(&scv);
            let c = crate::props::c01::Case { dom: "DOM".into(), user: "user".into(), pw: "pässwörd".into(), from_hash: false, ra: false, id: 1 + k % 2, flags: *fl, sc, ti, reply: "honest".into(), reply1: "honest".into(), pre: "flip".into() };
            crate::props::c01::run(em, &c);
        }
    }
}
