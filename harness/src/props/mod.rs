use crate::common::Emitter;
pub mod c01;
pub mod conn;
pub mod c13;
pub mod c14;
pub mod c15;
pub mod c16;
pub mod c08;
pub mod c05;
pub mod gsess;
pub mod per;
pub mod c18;
pub mod c19;
pub mod c20;

/// run one case line (from a replay file or the corpus) against the implementation
pub fn replay(prop: &str, line: &str, em: &mut Emitter) {
    let toks: Vec<&str> = line.split_whitespace().collect();
    if toks.is_empty() { return; }
    match toks[0] {
        "tpkt_read" | "x224_read" | "x224_read_rdp" | "tpkt_tls" => c13::run_case(&toks, em),
        "tpkt_write" | "x224_write" | "tpkt_write_sd" | "x224_write_sd" | "tpkt_writes" | "link_write" | "tpkt_write_msg" => c14::run_case(&toks, em),
        "blit" | "blitz" | "blit16" | "blitd" | "blitseq" | "blitdseq" => c19::run_case(&toks, em),
        "msg_wr" | "msg_rd" | "msg_rt" => c18::run_case(&toks, em),
        op if op.starts_with("per_") => per::run_case(&toks, em),
        "gsess" => gsess::run_case(&toks, em),
        "decomp" | "decomp2" => c08::run_case(&toks, em),
        "cssp" => c01::run_case(&toks, em),
        "conn" | "tlsgate" | "nlagate" => conn::run_case(&toks, em),
        "gui" => c20::run_case(&toks, em),
        "strict" => { let line = toks.join(" "); em.case(&line, move || crate::common::Obs::new("ok".into()).nt(true).tag("strict")); }
        "seal" => c16::run_case(&toks, em),
        "ntlm_auth" | "ts_chal" | "ts_validate" => c15::run_case(&toks, em),
        "x224_conn" | "x224_stream" | "gcc_ccr" | "lic" | "mcs_conn" | "sec_conn" => c05::run_case(&toks, em),
        _ => { let _ = prop; eprintln!("unknown op {}", toks[0]); }
    }
}

pub fn generate(prop: &str, thorough: bool, seed: u64, em: &mut Emitter) {
    let part = part();
    match prop {
        "C01" => c01::generate(thorough, seed, part, em),
        "C20" => c20::generate(thorough, seed, part, em),
        "C17" | "C03" | "C04" => conn::generate(prop, thorough, seed, part, em),
        "C13" => c13::generate(thorough, seed, part, em),
        "C14" => c14::generate(thorough, seed, part, em),
        "C19" => c19::generate(thorough, seed, part, em),
        "C18" => c18::generate(thorough, seed, part, em),
        "C02" => c05::generate_c02(thorough, seed, part, em),
        "C16" => c16::generate(thorough, seed, part, em),
        "C15" => c15::generate_c15(thorough, seed, part, em),
        "C07" => c15::generate_c07(thorough, seed, part, em),
        "C08" | "C09" => c08::generate(prop, thorough, seed, part, em),
        "C05" => c05::generate_c05(thorough, seed, part, em),
        "C06" => gsess::generate_c06(thorough, seed, part, em),
        "C10" => gsess::generate_c10(thorough, seed, part, em),
        "C11" => gsess::generate_c11(thorough, seed, part, em),
        "C12" => gsess::generate_c12(thorough, seed, part, em),
        _ => { eprintln!("unknown property {}", prop); std::process::exit(2); }
    }
}

/// VERIF_PART=k/n : this process is slice k of n parallel slices (exhaustive sweeps are split,
/// deterministic preambles run in slice 0 only)
pub fn part() -> (usize, usize) {
    match std::env::var("VERIF_PART") {
        Ok(s) => { let v: Vec<usize> = s.split('/').map(|x| x.parse().unwrap_or(0)).collect(); if v.len() == 2 && v[1] > 0 { (v[0], v[1]) } else { (0, 1) } }
        Err(_) => (0, 1),
    }
}
