use crate::common::Emitter;
pub mod c13;

/// run one case line (from a replay file or the corpus) against the implementation
pub fn replay(prop: &str, line: &str, em: &mut Emitter) {
    let toks: Vec<&str> = line.split_whitespace().collect();
    if toks.is_empty() { return; }
    match toks[0] {
        "tpkt_read" | "x224_read" => c13::run_case(&toks, em),
        _ => { let _ = prop; eprintln!("unknown op {}", toks[0]); }
    }
}

pub fn generate(prop: &str, thorough: bool, seed: u64, em: &mut Emitter) {
    match prop {
        "C13" => c13::generate(thorough, seed, em),
        _ => { eprintln!("unknown property {}", prop); std::process::exit(2); }
    }
}
