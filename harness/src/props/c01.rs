//! C01: the real cssp_connect over real TLS against an independent CredSSP/NTLM server
//! thread whose final reply follows a recipe (honest, bit flips, wrong value, wrong key,
//! other certificate, reflection, truncation, re-encoding ...).  Observed: the result and
//! every byte the server received, in particular after its reply.
use crate::common::*;
use crate::nlasrv::*;
use crate::props::c15::{challenge, av, utf16, md4};
use rdp::model::link::{Link, Stream};
use rdp::nla::cssp;
use rdp::nla::ntlm::Ntlm;
use std::io::Read;
use std::os::unix::net::UnixStream;
use std::panic::{catch_unwind, AssertUnwindSafe};
use std::time::Duration;

#[derive(Clone, Debug)]
pub struct Case { pub dom: String, pub user: String, pub pw: String, pub from_hash: bool, pub ra: bool, pub id: usize, pub flags: u32, pub sc: [u8; 8], pub ti: Vec<u8>, pub reply: String, pub reply1: String, pub pre: String }

#[derive(Default, Debug)]
pub struct SrvOut { pub r1: Vec<u8>, pub faulted1: bool, pub m1: Vec<u8>, pub m2: Vec<u8>, pub r2: Vec<u8>, pub m3: Vec<u8>, pub k: Option<Vec<u8>>, pub client_pk_ok: Option<bool>, pub honest_pka: Vec<u8>, pub creds: Option<Vec<u8>>, pub note: String }

fn flip(b: &mut Vec<u8>, bit: usize) { if bit / 8 < b.len() { b[bit / 8] ^= 1 << (bit % 8); } }

/// the reply bytes for a recipe; `seal` is the server context after it unsealed the client's token
fn build_reply(recipe: &str, k: &[u8], spk: &[u8], spk_other: &[u8], client_pka: &[u8], seal: &mut ServerSeal, field_key: &[u8], replay: &[u8]) -> (Vec<u8>, Vec<u8>) {
    let plus1 = le_add(spk, 1).unwrap();
    let mut probe = ServerSeal { seal_out: seal.seal_out.clone(), seal_in: seal.seal_in.clone(), sign_out: seal.sign_out.clone(), sign_in: seal.sign_in.clone(), seq_out: seal.seq_out };
    let honest_pka = probe.seal(&plus1);
    let honest = ts_request(None, Some(&honest_pka), 2);
    let (kind, arg) = match recipe.find(':') { Some(i) => (&recipe[..i], &recipe[i + 1..]), None => (recipe, "") };
    let r = match kind {
        "honest" => honest.clone(),
        "flip" => { let mut h = honest.clone(); flip(&mut h, arg.parse().unwrap_or(0)); h }
        "off" => { let v = le_add(spk, arg.parse().unwrap_or(0)).unwrap_or(vec![]); ts_request(None, Some(&seal.seal(&v)), 2) }
        "wrongkey" => { let mut k2 = k.to_vec(); k2[0] ^= 1; let mut s2 = ServerSeal::new(&k2); ts_request(None, Some(&s2.seal(&plus1)), 2) }
        "othercert" => ts_request(None, Some(&seal.seal(&le_add(spk_other, 1).unwrap())), 2),
        "reflect" => ts_request(None, Some(client_pka), 2),
        "trunc" => { let n: usize = arg.parse().unwrap_or(0); honest[..n.min(honest.len())].to_vec() }
        "appendzero" => { let mut v = plus1.clone(); v.extend(vec![0u8; arg.parse().unwrap_or(1)]); ts_request(None, Some(&seal.seal(&v)), 2) }
        "seq" => ts_request(None, Some(&seal.seal_with_seq(&plus1, arg.parse().unwrap_or(0))), 2),
        "badsign" => { seal.sign_out[0] ^= 0x80; ts_request(None, Some(&seal.seal(&plus1)), 2) }
        "clientkeys" => { let mut s2 = ServerSeal::new(k); std::mem::swap(&mut s2.seal_out, &mut s2.seal_in); std::mem::swap(&mut s2.sign_out, &mut s2.sign_in); ts_request(None, Some(&s2.seal(&plus1)), 2) }
        "unsealed" => { let mut v = vec![1, 0, 0, 0, 0, 0, 0, 0, 0, 0, 0, 0, 0, 0, 0, 0]; v.extend(&plus1); ts_request(None, Some(&v), 2) }
        "nopka" => ts_request(None, None, 2),
        "ver" => ts_request(None, Some(&honest_pka), arg.parse().unwrap_or(2)),
        // BER re-encodings of the honest reply (the proof inside is valid; the encoding is not DER)
        "ber83in" => { let inner = { let mut v = vec![0x04, 0x83, 0, (honest_pka.len() >> 8) as u8, honest_pka.len() as u8]; v.extend(&honest_pka); v }; let body = { let mut b = der(0xa0, &der(0x02, &[2])); b.extend(der(0xa3, &inner)); b }; der(0x30, &body) }
        "berindef" => { let mut v = vec![0x30, 0x80]; v.extend(&honest[if honest[1] & 0x80 != 0 { 2 + (honest[1] & 0x7f) as usize } else { 2 }..]); v.extend(&[0, 0]); v }
        "bercons" => { let h = honest_pka.len() / 2; let inner = { let mut c = der(0x04, &honest_pka[..h]); c.extend(der(0x04, &honest_pka[h..])); der(0x24, &c) }; let body = { let mut b = der(0xa0, &der(0x02, &[2])); b.extend(der(0xa3, &inner)); b }; der(0x30, &body) }
        "longform" => { let body = &honest[4..]; let mut v = vec![0x30, 0x83, 0, (body.len() >> 8) as u8, body.len() as u8]; v.extend(body); v }
        "withnego" => ts_request(Some(&[1, 2, 3]), Some(&honest_pka), 2),
        // adversaries that never use the account key: a guessed (all-zero) session key, the key field of the
        // AUTHENTICATE message taken as the key itself, the recorded final reply of an earlier session
        "zerokey" => { let mut s2 = ServerSeal::new(&[0u8; 16]); ts_request(None, Some(&s2.seal(&plus1)), 2) }
        "fieldkey" => { let mut s2 = ServerSeal::new(field_key); ts_request(None, Some(&s2.seal(&plus1)), 2) }
        "replay" => replay.to_vec(),
        // the honest token with a mask XOR-ed over its first bytes (the 16-byte signature: version, checksum, sequence)
        "pkaxor" => { let m = unhex(arg); let mut p = honest_pka.clone(); for (i, b) in m.iter().enumerate() { if i < p.len() { p[i] ^= b; } } ts_request(None, Some(&p), 2) }
        // the honest sealed part under an all-zero checksum (a "dummy signature")
        "sigzero" => { let mut p = honest_pka.clone(); for i in 4..12 { if i < p.len() { p[i] = 0; } } ts_request(None, Some(&p), 2) }
        // validly sealed and signed replies whose plaintext is NOT key + 1: a PROPER prefix of it (at most n bytes), or it followed by bytes
        "plen" => { let n: usize = arg.parse().unwrap_or(1); ts_request(None, Some(&seal.seal(&plus1[..n.min(plus1.len() - 1)])), 2) }
        // key + 1 with one bit changed in the k-th byte from the HIGH-order end (the integer is little-endian), validly sealed
        "phigh" => { let k: usize = arg.parse().unwrap_or(0); let mut v = plus1.clone(); let i = v.len() - 1 - k.min(v.len() - 1); v[i] ^= 1; ts_request(None, Some(&seal.seal(&v)), 2) }
        // the honest reply followed by further bytes in the same TLS record (a stray byte, garbage, a second TSRequest)
        "trail" => { let mut v = honest.clone(); v.extend(unhex(arg)); v }
        "pext" => { let mut v = plus1.clone(); v.extend(unhex(arg)); ts_request(None, Some(&seal.seal(&v)), 2) }
        // a well-formed TSRequest whose pubKeyAuth token is cut to n bytes (shorter than the 16-byte signature)
        "pkacut" => { let n: usize = arg.parse().unwrap_or(0); ts_request(None, Some(&honest_pka[..n.min(honest_pka.len())]), 2) }
        "raw" => unhex(arg),
        "empty" => vec![],
        _ => honest.clone(),
    };
    (r, honest_pka)
}

fn server(mut raw: UnixStream, id: usize, acc_key: Vec<u8>, chal: Vec<u8>, sc: [u8; 8], recipe: String, recipe1: String, replay_rx: Option<std::sync::mpsc::Receiver<Vec<u8>>>) -> SrvOut {
    let mut out = SrvOut::default();
    raw.set_read_timeout(Some(Duration::from_secs(3))).ok();
    let (ident, spk) = identity(id);
    let (_, spk_other) = identity(if id == 1 { 2 } else { 1 });
    let acceptor = match native_tls::TlsAcceptor::new(ident) { Ok(a) => a, Err(e) => { out.note = format!("acceptor {:?}", e); return out; } };
    let mut tls = match acceptor.accept(raw) { Ok(t) => t, Err(_) => { out.note = "tls accept failed".into(); return out; } };
    out.m1 = match read_der(&mut tls) { Some(m) => m, None => { out.note = "no m1".into(); return out; } };
    // the first reply (TSRequest carrying the CHALLENGE): honest, or cut / replaced and then silence + close
    let honest1 = ts_request(Some(&chal), None, 2);
    let r1: Vec<u8> = if recipe1 == "honest" || recipe1.is_empty() { honest1.clone() }
        else if let Some(n) = recipe1.strip_prefix("trunc:") { let n: usize = n.parse().unwrap_or(0); honest1[..n.min(honest1.len())].to_vec() }
        else if let Some(h) = recipe1.strip_prefix("raw:") { unhex(h) } else { vec![] };
    out.r1 = r1.clone();
    if r1.is_empty() { let _ = tls.shutdown(); } else if !write_all(&mut tls, &r1) { out.note = "write chal".into(); return out; }
    if r1 != honest1 {
        // orderly closure right after the damaged reply: the peer now reads end-of-stream, not an error
        if !r1.is_empty() { let _ = tls.shutdown(); }
        let mut buf = [0u8; 4096];
        loop { match tls.read(&mut buf) { Ok(0) => break, Ok(n) => out.m3.extend_from_slice(&buf[..n]), Err(_) => break } }
        out.k = Some(vec![0; 16]); out.client_pk_ok = Some(true); out.faulted1 = true;
        return out;
    }
    out.m2 = match read_der(&mut tls) { Some(m) => m, None => { out.note = "no m2".into(); return out; } };
    let f = parse_ts_request(&out.m2).unwrap_or_default();
    let auth = f.nego.clone().unwrap_or_default();
    let client_pka = f.pub_key_auth.clone().unwrap_or_default();
    let k = match recover_exported_key(&acc_key, &sc, &auth) { Some(k) => k, None => { out.note = "NT proof does not verify".into(); return out; } };
    out.k = Some(k.clone());
    let mut seal = ServerSeal::new(&k);
    if let Some((pt, good)) = seal.unseal(&client_pka) { out.client_pk_ok = Some(good && pt == spk); }
    // EncryptedRandomSessionKey field of the AUTHENTICATE message as it travelled (visible to anyone)
    let field_key: Vec<u8> = if auth.len() >= 64 { let (l, o) = (auth[52] as usize | (auth[53] as usize) << 8, auth[56] as usize | (auth[57] as usize) << 8 | (auth[58] as usize) << 16); if l == 16 && o + 16 <= auth.len() { auth[o..o + 16].to_vec() } else { vec![0; 16] } } else { vec![0; 16] };
    let replay: Vec<u8> = match &replay_rx { Some(rx) => rx.recv_timeout(Duration::from_secs(5)).unwrap_or_default(), None => vec![] };
    let (r2, honest_pka) = build_reply(&recipe, &k, &spk, &spk_other, &client_pka, &mut seal, &field_key, &replay);
    out.honest_pka = honest_pka;
    out.r2 = r2.clone();
    if r2.is_empty() { let _ = tls.shutdown(); } else if !write_all(&mut tls, &r2) { out.note = "write reply".into(); return out; }
    // everything the client sends after the reply; if it stays silent, close in an orderly way
    let mut buf = [0u8; 4096];
    loop { match tls.read(&mut buf) { Ok(0) => break, Ok(n) => out.m3.extend_from_slice(&buf[..n]), Err(_) => { let _ = tls.shutdown(); std::thread::sleep(Duration::from_millis(300)); break } } }
    if let Some(f3) = parse_ts_request(&out.m3) { if let Some(ai) = f3.auth_info { if let Some((pt, good)) = seal.unseal(&ai) { if good { out.creds = Some(pt); } } } }
    out
}

/// TSCredentials { credType 1, credentials OCTET STRING { TSPasswordCreds { domain, user, password } } }
pub fn parse_ts_credentials(b: &[u8]) -> Option<(Vec<u8>, Vec<u8>, Vec<u8>)> {
    let (_, body, _) = tlv(b)?;
    let (_, _, rest) = tlv(body)?;
    let (_, c1, _) = tlv(rest)?;
    let (_, oct, _) = tlv(c1)?;
    let (_, pc, _) = tlv(oct)?;
    let (_, d, r) = tlv(pc)?; let (_, dv, _) = tlv(d)?;
    let (_, u, r) = tlv(r)?; let (_, uv, _) = tlv(u)?;
    let (_, p, _) = tlv(r)?; let (_, pv, _) = tlv(p)?;
    Some((dv.to_vec(), uv.to_vec(), pv.to_vec()))
}

pub fn run(em: &mut Emitter, c: &Case) {
    watch_begin(&format!("cssp dom8={} usr8={} pwd8={} hash={} ra={} id={} flags={:08x} sc={} ti={} reply={} reply1={} pre={}", hex(c.dom.as_bytes()), hex(c.user.as_bytes()), hex(c.pw.as_bytes()), c.from_hash as u8, c.ra as u8, c.id, c.flags, hex(&c.sc), hex(&c.ti), c.reply, if c.reply1.is_empty() { "honest" } else { &c.reply1 }, c.pre));
    let nt_hash = md4(&utf16(&c.pw));
    let acc = Account { domain: c.dom.clone(), user: c.user.clone(), password: c.pw.clone() };
    let key = acc.key();
    let version = c.flags & 0x02000000 != 0;
    let chal = challenge(c.flags, &c.sc, &c.ti, version, 0, 0);
    crate::alloc_count::reset();
    let (a, b) = UnixStream::pair().expect("socketpair");
    a.set_read_timeout(Some(Duration::from_secs(3))).ok();
    // an earlier, complete and honest exchange on the very same Ntlm object (`pre`): "same" = same CHALLENGE
    // flags, "flip" = the opposite UNICODE choice; its final reply is what the `replay` adversary sends later
    let has_pre = !c.pre.is_empty();
    let (pa, pb) = UnixStream::pair().expect("socketpair");
    pa.set_read_timeout(Some(Duration::from_secs(3))).ok();
    let pre_flags = if c.pre == "flip" { c.flags ^ 1 } else { c.flags };
    let pre_sc = { let mut x = c.sc; x[0] ^= 0x5a; x };
    let pre_chal = challenge(pre_flags, &pre_sc, &c.ti, pre_flags & 0x02000000 != 0, 0, 0);
    let (rtx, rrx) = std::sync::mpsc::channel::<Vec<u8>>();
    let pre_th = if has_pre { let (id, key2) = (c.id, key.clone()); Some(std::thread::spawn(move || server(pb, id, key2, pre_chal, pre_sc, "honest".into(), "honest".into(), None))) } else { drop(pb); None };
    let (id, sc, recipe, recipe1, key2, chal2) = (c.id, c.sc, c.reply.clone(), c.reply1.clone(), key.clone(), chal.clone());
    let th = std::thread::spawn(move || server(b, id, key2, chal2, sc, recipe, recipe1, Some(rrx)));
    let c2 = c.clone();
    // the client runs under a watchdog: a call that neither returns nor fails within the deadline
    // (a spin on a closed link, say) is reported as such and its thread abandoned
    let (txr, rxr) = std::sync::mpsc::channel();
    let (ptx, prx) = std::sync::mpsc::channel::<bool>();
    std::thread::spawn(move || {
        let res = catch_unwind(AssertUnwindSafe(move || -> Result<(), String> {
            let mut ntlm = if c2.from_hash { Ntlm::from_hash(c2.dom.clone(), c2.user.clone(), &nt_hash) } else { Ntlm::new(c2.dom.clone(), c2.user.clone(), c2.pw.clone()) };
            if has_pre {
                let mut l0 = Link::new(Stream::Raw(pa)).start_ssl(false).map_err(|e| format!("ssl {:?}", e))?;
                let r0 = cssp::cssp_connect(&mut l0, &mut ntlm, c2.ra);
                drop(l0);
                let _ = ptx.send(r0.is_ok());
            } else { drop(pa); let _ = ptx.send(true); }
            let link = Link::new(Stream::Raw(a)).start_ssl(false).map_err(|e| format!("ssl {:?}", e))?;
            let mut link = link;
            let r = cssp::cssp_connect(&mut link, &mut ntlm, c2.ra).map_err(|e| format!("{:?}", e));
            drop(link);
            r
        }));
        let _ = txr.send(match res { Ok(Ok(())) => "ok", Ok(Err(_)) => "E", Err(_) => "P" });
    });
    let pre_ok = prx.recv_timeout(Duration::from_secs(8)).unwrap_or(false);
    let pre_out = match pre_th { Some(t) => t.join().unwrap_or_default(), None => SrvOut::default() };
    let _ = rtx.send(pre_out.r2.clone());
    let status = rxr.recv_timeout(Duration::from_secs(8)).unwrap_or("T");
    let so = th.join().unwrap_or_default();
    let mut all = so.m1.clone(); all.extend(&so.m2); all.extend(&so.m3);
    let out = format!("{} {}", status, hex(&all));
    // observed pieces for the model
    let nego = parse_ts_request(&so.m1).and_then(|f| f.nego).unwrap_or_default();
    let auth = parse_ts_request(&so.m2).and_then(|f| f.nego).unwrap_or_default();
    let cc = if auth.len() >= 64 { let (l, o) = (auth[12] as usize | (auth[13] as usize) << 8, auth[16] as usize | (auth[17] as usize) << 8); if l == 24 && o + 24 <= auth.len() { auth[o + 16..o + 24].to_vec() } else { vec![0; 8] } } else { vec![0; 8] };
    let r2obs = { let r2 = so.r2.clone(); match catch_unwind(move || cssp::read_ts_validate(&r2)) { Ok(Ok(v)) => format!("ok_{}", hex(&v)), Ok(Err(_)) => "E".to_string(), Err(_) => "P".to_string() } };
    let r1obs = { let r1 = so.r1.clone(); match catch_unwind(move || cssp::read_ts_server_challenge(&r1)) { Ok(Ok(v)) => format!("ok_{}", hex(&v)), Ok(Err(_)) => "E".to_string(), Err(_) => "P".to_string() } };
    let (_, spk) = identity(c.id);
    let client_pw = if c.from_hash { String::new() } else { c.pw.clone() };
    let line = format!("cssp dom8={} usr8={} pwd8={} hash={} ra={} id={} flags={:08x} sc={} ti={} reply={} reply1={} pre={} key={} dom16={} usr16={} neg={} chal={} cc={} ek={} pw16={} ud16={} cp16={} cp8={} spk={} r2obs={} r2={} r1obs={}",
        hex(c.dom.as_bytes()), hex(c.user.as_bytes()), hex(c.pw.as_bytes()), c.from_hash as u8, c.ra as u8, c.id, c.flags, hex(&c.sc), hex(&c.ti), c.reply, if c.reply1.is_empty() { "honest" } else { &c.reply1 }, c.pre,
        hex(&key), hex(&utf16(&c.dom)), hex(&utf16(&c.user)), hex(&nego), hex(&chal), hex(&cc), hex(&so.k.clone().unwrap_or(vec![0; 16])),
        hex(&utf16(&c.pw)), hex(&utf16(&(c.user.to_uppercase() + &c.dom))), hex(&utf16(&client_pw)), hex(client_pw.as_bytes()), hex(&spk), r2obs, hex(&so.r2), r1obs);
    // implementation-side oracle
    let kind = c.reply.split(':').next().unwrap_or("").to_string();
    let same_pka = r2obs == format!("ok_{}", hex(&so.honest_pka));
    let must_reject = so.faulted1 || match kind.as_str() { "honest" | "appendzero" | "seq" | "ver" | "withnego" => false, "flip" | "longform" | "ber83in" | "berindef" | "bercons" | "trunc" => !same_pka, "off" => c.reply != "off:1", _ => true };
    let must_accept = !so.faulted1 && matches!(kind.as_str(), "honest" | "appendzero" | "ver") || (kind == "off" && c.reply == "off:1") || ((kind == "flip" || kind == "trunc") && same_pka);
    let mut obs = Obs::new(out).nt(status == "ok").tag(Box::leak(kind.clone().into_boxed_str()));
    // memory in proportion to the bytes received (both sides of the exchange run in this process: a few hundred KiB)
    let peak = crate::alloc_count::max();
    if peak > (8 << 20) { obs = obs.viol(&format!("allocation request of {} bytes during the CredSSP exchange", peak)); }
    else if has_pre && !(pre_ok && pre_out.creds.is_some()) { obs = obs.viol("the earlier honest exchange on the same Ntlm object did not complete"); }
    else if so.k.is_none() { obs = obs.viol(&format!("reference server could not complete the exchange: {}", so.note)); }
    else if so.client_pk_ok != Some(true) { obs = obs.viol("client pubKeyAuth does not carry the server certificate key"); }
    else if status == "P" { obs = obs.viol("panic").tag("panic"); }
    else if status == "T" { obs = obs.viol("cssp_connect neither returned nor failed within 8 s (spin / hang)").tag("hang"); }
    else if status == "ok" && must_reject { obs = obs.viol("credentials released although the server did not prove the session key"); }
    else if status != "ok" && !so.m3.is_empty() { obs = obs.viol("bytes written after a refused proof"); }
    else if status != "ok" && must_accept { obs = obs.viol("honest proof refused"); }
    else if status == "ok" {
        let unicode = c.flags & 1 != 0;
        let enc = |s: &str| if unicode { utf16(s) } else { s.as_bytes().to_vec() };
        let want = if c.ra { (vec![], vec![], vec![]) } else { (enc(&c.dom), enc(&c.user), enc(&client_pw)) };
        match so.creds.as_ref().and_then(|x| parse_ts_credentials(x)) {
            Some(got) => if got != want { obs = obs.viol("TSCredentials do not carry the expected domain/user/password"); },
            None => { obs = obs.viol("third message is not a sealed TSCredentials"); }
        }
    }
    em.case(&line, move || obs);
}

pub fn run_case(toks: &[&str], em: &mut Emitter) {
    let get = |k: &str| -> String { toks.iter().find(|x| x.starts_with(&format!("{}=", k))).map(|x| x[k.len() + 1..].to_string()).unwrap_or_default() };
    let s = |k: &str| String::from_utf8_lossy(&unhex(&get(k))).to_string();
    let mut sc = [0u8; 8]; let scv = unhex(&get("sc")); if scv.len() == 8 { sc.copy_from_slice(&scv); }
    let c = Case { dom: s("dom8"), user: s("usr8"), pw: s("pwd8"), from_hash: get("hash") == "1", ra: get("ra") == "1", id: get("id").parse().unwrap_or(1),
        flags: u32::from_str_radix(&get("flags"), 16).unwrap_or(0), sc, ti: unhex(&get("ti")), reply: get("reply"), reply1: get("reply1"), pre: get("pre") };
    run(em, &c);
}

fn base_case(r: &mut Rng, i: usize) -> Case {
    let names = ["", "a", "user", "Administrator", "élève", "名前", "😀user"];
    let pws = ["", "p", "password", "pässwörd", "密码🔑", "P@ssw0rd!"];
    let mut flags: u32 = 0x40000000 | 0x20000000 | 0x00800000 | 0x00080000 | 0x00008000 | 0x00000200 | 0x00000020 | 0x00000010 | 0x00000004;
    if i % 2 == 0 { flags |= 0x02000000; }
    if i % 4 < 2 { flags |= 1; }
    let mut ti = av(2, &utf16("DOM")); ti.extend(av(1, &utf16("SRV"))); ti.extend(av(7, &r.bytes(8))); ti.extend(av(0, &[]));
    let scv = r.bytes(8); let mut sc = [0u8; 8]; sc.copy_from_slice(&scv);
    Case { dom: r.pick(&["", "DOMAIN", "домен"]).to_string(), user: r.pick(&names).to_string(), pw: r.pick(&pws).to_string(), from_hash: r.chance(1, 4), ra: r.chance(1, 4), id: 1 + (i % 3), flags, sc, ti, reply: "honest".into(), reply1: "honest".into(), pre: String::new() }
}

pub fn generate(thorough: bool, seed: u64, part: (usize, usize), em: &mut Emitter) {
    let mut r = Rng::new(seed ^ 0xC01);
    let mut idx = 0usize;
    let mut mine = |idx: &mut usize| { *idx += 1; *idx % part.1 == part.0 };
    // honest handshakes across configurations
    for i in 0..(if thorough { 64 } else { 16 }) { let c = base_case(&mut r, i); if mine(&mut idx) { run(em, &c); } }
    // structured faults, each in several configurations
    let offs: &[i128] = &[0, 2, -1, 3, 255, 256, 257, 65536, 1 << 64, -256, 1i128 << 100];
    let reps = if thorough { 6 } else { 3 };
    for i in 0..reps {
        let b = base_case(&mut r, i);
        let mut recipes: Vec<String> = vec!["wrongkey".into(), "othercert".into(), "reflect".into(), "badsign".into(), "clientkeys".into(), "unsealed".into(), "nopka".into(), "longform".into(), "ber83in".into(), "berindef".into(), "bercons".into(), "withnego".into(), "empty".into(),
            "appendzero:1".into(), "appendzero:7".into(), "seq:1".into(), "seq:4294967295".into(), "ver:3".into(), "ver:6".into(), "off:1".into(),
            "raw:00".into(), "raw:3000".into(), "raw:300ca003020102a305040300010203".into(), format!("raw:{}", hex(&r.bytes(40)))];
        for o in offs { recipes.push(format!("off:{}", o)); }
        for n in &[1usize, 2, 16, 100, 269] { recipes.push(format!("plen:{}", n)); }
        for x in &["01", "ff", "0001", "00000000000000000000000001"] { recipes.push(format!("pext:{}", x)); }
        for x in &["00", "30", "3000", "300ca003020102a305040300010203", "ffffffffffffffff"] { recipes.push(format!("trail:{}", x)); }
        for n in &[0usize, 1, 4, 10, 15, 16, 17] { recipes.push(format!("pkacut:{}", n)); }
        for rc in recipes { let mut c = b.clone(); c.reply = rc; if mine(&mut idx) { run(em, &c); } }
        // truncations: every prefix (thorough) / sampled
        let total = 4 + 5 + 4 + 16 + 270 + 2;   // upper bound of the honest reply length
        for n in 0..total { if thorough || n < 24 || n % 23 == 0 || n + 6 > total { let mut c = b.clone(); c.reply = format!("trunc:{}", n); if mine(&mut idx) { run(em, &c); } } }
    }
    // a 4096-bit RSA certificate (526 bytes of public key): honest replies, and key + 1 wrong in one high-order byte
    // only (the end of the modulus, the public exponent) or at other positions — the whole value is compared, whatever its size
    if part.0 == 0 {
        for (i, rc) in ["honest", "phigh:0", "phigh:3", "phigh:12", "phigh:13", "phigh:100", "phigh:300", "phigh:525", "off:2", "plen:525", "plen:513", "pext:01"].iter().enumerate() {
            let mut c = base_case(&mut r, i); c.id = 4; c.reply = rc.to_string(); run(em, &c);
        }
        for (i, rc) in ["phigh:0", "phigh:1", "phigh:269"].iter().enumerate() { let mut c = base_case(&mut r, i); c.id = 1; c.reply = rc.to_string(); run(em, &c); }
    }
    // adversaries that never learn the account key (a guessed all-zero session key; the key field of the
    // AUTHENTICATE message used as the key, also when the CHALLENGE does not offer key exchange; a replay of
    // the final reply of an earlier exchange made with the same Ntlm object): nothing may be released.
    // And honest second exchanges on a used Ntlm object (same / opposite UNICODE choice): released as configured.
    if part.0 == 0 {
        for i in 0..(if thorough { 6 } else { 2 }) {
            let b = base_case(&mut r, i);
            for (rc, pre, fl) in &[("zerokey", "", 0u32), ("fieldkey", "", 0), ("fieldkey", "", 0x40000000), ("zerokey", "", 0x40000000), ("replay", "same", 0), ("honest", "same", 0), ("honest", "flip", 0), ("wrongkey", "flip", 0)] {
                let mut c = b.clone(); c.reply = rc.to_string(); c.pre = pre.to_string(); c.flags &= !fl; c.ra = false;
                run(em, &c);
            }
        }
    }
    // corrupted checksums whose byte differences cancel (same bit in two / four / eight checksum bytes, a whole
    // mask on an even number of bytes), dummy signatures — also when the CHALLENGE leaves out NEGOTIATE_SIGN,
    // SEAL or ALWAYS_SIGN (the client's verification of the proof does not depend on what the server offers)
    if part.0 == 0 {
        for (i, drop) in [0u32, 0x10, 0x20, 0x30, 0x8000, 0x8010, 0x80000, 0x80030].iter().enumerate() {
            let b = base_case(&mut r, i);
            for rc in &["pkaxor:000000000101", "pkaxor:00000000800000000080", "pkaxor:00000000ffff", "pkaxor:000000005a5a5a5a5a5a5a5a", "pkaxor:0000000001010101",
                        "pkaxor:00000000000000000000000001", "pkaxor:01", "sigzero", "badsign", "honest"] {
                if *drop != 0 && !thorough && (*rc == "pkaxor:00000000ffff" || *rc == "pkaxor:0000000001010101" || *rc == "pkaxor:01") { continue; }
                let mut c = b.clone(); c.reply = rc.to_string(); c.flags &= !*drop; c.ra = false;
                run(em, &c);
            }
        }
    }
    // the whole Connector::connect with NLA, also on a Connector that was used before (an earlier
    // complete connection, or an attempt refused by the server): the proof must still be the one
    // for the configured account, and credentials go out as configured
    if part.0 == 0 {
        for reuse in 0..3u8 { for (pw, ra) in &[("P@ssw0rd!", false), ("pässwörd", true)] {
            let cfg = crate::props::conn::Cfg { w: 800, h: 600, lay: 0x409, name: "rdp-rs".into(), dom: "DOM".into(), user: "user".into(), pw: pw.to_string(), hash: false, ra: *ra, blank: false, auto: false, nla: true, check: false };
            let srv = crate::props::conn::SrvCfg { sel: 0, id: 1, uid: 1004, version: 0x80004, license_new: false, share: 0x103ea, caps: crate::props::conn::default_caps(), source: vec![], chal_flags: 0x62898235, inputs: vec![], script: vec![], reactivate: None, reuse, jrefuse: 0, ber: 0 };
            let _ = crate::props::conn::emit(em, &cfg, &srv);
        } }
    }
    // single-bit corruptions of the honest reply: all of them (thorough) / a stride (quick)
    let b = base_case(&mut r, 0);
    let bits = 8 * 305;
    let stride = if thorough { 1 } else { 7 };
    let mut bit = (seed as usize) % stride;
    while bit < bits { let mut c = b.clone(); c.reply = format!("flip:{}", bit); if mine(&mut idx) { run(em, &c); } bit += stride; }
}
