//! C20: the real `launch_rdp_thread` of the GUI client (compiled in through `include!`) on a
//! real socket with real TLS: a fully connected, activated RdpClient is handed to the
//! receive thread; the reference server then plays a script (bitmap PDUs packed into TLS
//! records in a given way, a silent period, an end mode).  Observed: which bitmap events
//! had been forwarded while the server was silent, which in total, and whether the
//! thread's JoinHandle finished within the deadline.
use crate::common::*;
use crate::props::conn::{self, Act, Cfg, SrvCfg};
use crate::refsrv::{self, Rect};
use rdp::core::client::Connector;
use rdp::core::event::{PointerButton, PointerEvent, RdpEvent};
use std::os::unix::io::AsRawFd;
use std::os::unix::net::UnixStream;
use std::sync::atomic::AtomicBool;
use std::sync::mpsc::channel;
use std::sync::{Arc, Mutex};
use std::time::{Duration, Instant};

#[derive(Clone, Debug)]
pub struct Case { pub lens: Vec<usize>, pub cuts: Vec<usize>, pub gap: u64, pub end: String, pub endpack: bool, pub inputs: bool, pub act: u8,
    /// the client's socket comes from the GUI client's own `tcp_from_args` (a TCP connection to a local listener that is
    /// piped to the reference server) instead of a socket pair
    pub tcp: bool }

/// PDU i: a fast-path bitmap update with one raw 32 bpp rectangle of `n` pixels in a row, dest_left = i
/// `n` = pixels + 100 * variant: variant 1 puts a zero-length update (synchronize) in front of
/// the bitmap update inside the same PDU, variant 2 uses the two-byte length form although the PDU is small
/// variant 3: a slow-path data PDU the client ignores, 150 bytes long (MCS length in 128..255), travels in
/// front of the bitmap PDU; variant 4: a pointer-position update precedes the bitmap update in the same
/// PDU; variant 5: the rectangle has 4200 pixels (a PDU of more than 16384 bytes)
/// the frames entry `i` of `lens` stands for (one bitmap PDU, for variant 3 preceded by a quiet PDU)
fn frames_of(i: usize, n: usize) -> Vec<Vec<u8>> {
    if n / 100 == 6 {
        // a re-activation in the middle of the session: one MCS frame carrying TWO share-control PDUs (save-session-info,
        // then deactivate-all), a demand-active with a new share id, the four finalization PDUs, then the bitmap PDU
        let sid2 = 0x000103ebu32 + i as u32;
        let two = { let mut v = refsrv::share_data(0x103ea, 0x26, &[0x5a; 8]); v.extend(refsrv::deactivate_all(0x103ea, b"RDP\0")); refsrv::mcs_sdin(1003, &v) };
        let mut fs = vec![two, refsrv::mcs_sdin(1003, &refsrv::demand_active(sid2, b"RDP\0", &conn::default_caps()))];
        for b in &[refsrv::synchronize(sid2, 1002), refsrv::control(sid2, 4, 0, 0), refsrv::control(sid2, 2, 1004, 0x03ea), refsrv::font_map(sid2)] { fs.push(refsrv::mcs_sdin(1003, b)); }
        fs.push(pdu(i, n % 100));
        return fs;
    }
    if n / 100 == 3 { let both = pdu(i, n); let q = quiet_pdu().len(); return vec![both[..q].to_vec(), both[q..].to_vec()]; }
    vec![pdu(i, n)]
}
fn quiet_pdu() -> Vec<u8> { refsrv::mcs_sdin(1003, &refsrv::share_data(0x103ea, 0x26, &vec![0x5a; 150 - 18 - 6])) }
fn pdu(i: usize, n: usize) -> Vec<u8> {
    let (variant, n) = (n / 100, (n % 100).max(1));
    let n = if variant == 5 { 4200 } else { n };
    let r = Rect { l: i as u16, t: 0, r: (i + n - 1) as u16, b: 0, w: n as u16, h: 1, bpp: 32, flags: 0, data: vec![i as u8; 4 * n] };
    let mut payload = vec![];
    if variant == 1 { payload.extend(refsrv::fp_update(3, &[])); }
    if variant == 4 { payload.extend(refsrv::fp_update(8, &[1, 0, 2, 0])); }
    payload.extend(refsrv::fp_bitmap_update(&[r]));
    if variant == 3 { let mut v = quiet_pdu(); v.extend(refsrv::fast_path_frame(0, &payload)); return v; }
    if variant == 2 { let t = payload.len() + 3; let mut v = vec![0u8, 0x80 | (t >> 8) as u8, t as u8]; v.extend(payload); v } else { refsrv::fast_path_frame(0, &payload) }
}
fn end_bytes(mode: &str) -> Vec<u8> {
    match mode {
        // `dpuhold`: after its ultimatum the server neither reads nor closes for 2.6 s (it leaves the closing to the client)
        "dpu" | "dpuhold" => refsrv::x224_data(&[0x21, 0x80]),
        "bad" => refsrv::x224_data(&[0x7c, 0x00, 0x01]),                   // not a send-data-indication
        "badio" => refsrv::x224_data(&[0x68, 0x00]),                       // send-data-indication cut after its first field: Error::Io
        _ => vec![],
    }
}

pub struct Outcome { pub silent: Vec<u16>, pub fin: Vec<u16>, pub exited: bool, pub status: String, pub lens: Vec<usize>, pub quiet: Vec<usize>, pub inputs_done: usize, pub inputs_asked: bool, pub alens: Vec<usize>, pub das: Vec<usize>, pub ca: usize }

pub fn run(c: &Case) -> Outcome {
    let mut pdus: Vec<Vec<u8>> = vec![]; let mut quiet: Vec<usize> = vec![];
    let mut das: Vec<usize> = vec![];
    for (i, n) in c.lens.iter().enumerate() {
        let fs = frames_of(i, *n);
        if fs.len() == 2 { quiet.push(pdus.len()); }
        if fs.len() == 7 { for k in 0..6 { quiet.push(pdus.len() + k); } das.push(pdus.len() + 1); }
        pdus.extend(fs);
    }
    let lens: Vec<usize> = pdus.iter().map(|p| p.len()).collect();
    let mut stream: Vec<u8> = pdus.concat();
    let endb = end_bytes(&c.end);
    if c.endpack { stream.extend(&endb); }
    // records
    let mut cuts: Vec<usize> = c.cuts.iter().cloned().filter(|x| *x > 0 && *x < stream.len()).collect();
    cuts.sort(); cuts.dedup(); cuts.push(stream.len());
    let mut script = vec![Act::Pause(120)];
    let mut prev = 0;
    let mut t_send = 0u64;
    for k in &cuts { script.push(Act::Send(stream[prev..*k].to_vec())); prev = *k; if c.gap > 0 { script.push(Act::Pause(c.gap)); t_send += c.gap; } }
    let t_silent = 120 + t_send + 350;
    // the silent period: from the server's last send (Mark) the receive thread has 350 ms; the observer
    // takes its snapshot then and the server goes on 150 ms after having been told so (Await)
    let rv = conn::Rendezvous::default();
    script.push(Act::Mark(rv.clone())); script.push(Act::Await(rv.clone(), 6000)); script.push(Act::Pause(150));
    if !c.endpack && !endb.is_empty() { script.push(Act::Send(endb.clone())); }
    if c.end == "dpuhold" { script.push(Act::Pause(2600)); script.push(Act::Close); }
    match c.end.as_str() { "notify" => { script.push(Act::CloseNotify); script.push(Act::Pause(50)); script.push(Act::Close); } "close" => script.push(Act::Close), _ => {} }
    let cfg = Cfg { w: 800, h: 600, lay: 0x409, name: "rdp-rs".into(), dom: "d".into(), user: "u".into(), pw: "p".into(), hash: false, ra: false, blank: false, auto: false, nla: false, check: false };
    // act: 0 = the session is activated before the receive thread starts; 1..3 = the thread itself runs the
    // activation (as in the GUI client's main), with a demand-active of < 128, 128..255 and > 255 bytes
    let mut caps = conn::default_caps();
    if c.act == 2 { caps.push(refsrv::cap(9, &vec![0u8; 100])); }
    if c.act == 3 { caps.push(refsrv::cap(9, &vec![0u8; 300])); }
    let da_len = refsrv::mcs_sdin(1003, &refsrv::demand_active(0x103ea, b"RDP\0", &caps)).len();
    let alens: Vec<usize> = if c.act == 0 { vec![] } else { let mut v = vec![da_len]; for b in &[refsrv::synchronize(0x103ea, 1002), refsrv::control(0x103ea, 4, 0, 0), refsrv::control(0x103ea, 2, 1004, 0x03ea), refsrv::font_map(0x103ea)] { v.push(refsrv::mcs_sdin(1003, b).len()); } v };
    let srv = SrvCfg { sel: 0, id: 1, uid: 1004, version: 0x80004, license_new: false, share: 0x103ea, caps, source: b"RDP\0".to_vec(), chal_flags: 0, inputs: vec![], script, reactivate: None, reuse: 0, jrefuse: 0, ber: 0 };
    if c.tcp {
        // the GUI client's own way to its socket: tcp_from_args, connected to a local listener whose other side is piped,
        // byte for byte, to the reference server
        let listener = std::net::TcpListener::bind("127.0.0.1:0").expect("listener");
        let port = listener.local_addr().unwrap().port();
        let (pa, b) = UnixStream::pair().expect("socketpair");
        std::thread::spawn(move || { if let Ok((t, _)) = listener.accept() { pump(t, pa); } });
        let a = match crate::gui::verif_tcp_from_args("127.0.0.1", port) { Ok(a) => a, Err(_) => { return Outcome { silent: vec![], fin: vec![], exited: false, status: "E@tcp".into(), lens, quiet, inputs_done: 0, inputs_asked: c.inputs, alens, das, ca: 0 }; } };
        let fd = a.as_raw_fd() as usize;
        run_on(c, a, fd, b, srv, cfg, rv, t_silent, lens, quiet, alens, das)
    } else {
        let (a, b) = UnixStream::pair().expect("socketpair");
        let fd = a.as_raw_fd() as usize;
        run_on(c, a, fd, b, srv, cfg, rv, t_silent, lens, quiet, alens, das)
    }
}

/// copy bytes both ways between the accepted TCP connection and the socket pair of the reference server; an end of
/// stream on one side is passed on as a shutdown of the other
fn pump(t: std::net::TcpStream, u: UnixStream) {
    use std::io::{Read, Write};
    let (mut t2, mut u2) = (t.try_clone().expect("clone"), u.try_clone().expect("clone"));
    let (mut t1, mut u1) = (t, u);
    let h = std::thread::spawn(move || { let mut buf = [0u8; 16384]; loop { match t2.read(&mut buf) { Ok(0) | Err(_) => { let _ = u2.shutdown(std::net::Shutdown::Write); break; } Ok(n) => { if u2.write_all(&buf[..n]).is_err() { break; } } } } });
    let mut buf = [0u8; 16384];
    loop { match u1.read(&mut buf) { Ok(0) | Err(_) => { let _ = t1.shutdown(std::net::Shutdown::Write); break; } Ok(n) => { if t1.write_all(&buf[..n]).is_err() { break; } } } }
    let _ = h.join();
}

#[allow(clippy::too_many_arguments)]
fn run_on<S: 'static + std::io::Read + std::io::Write + Send>(c: &Case, a: S, fd: usize, b: UnixStream, srv: SrvCfg, cfg: Cfg, rv: conn::Rendezvous, t_silent: u64, lens: Vec<usize>, quiet: Vec<usize>, alens: Vec<usize>, das: Vec<usize>) -> Outcome {
    let rawlog = Arc::new(Mutex::new(vec![]));
    let th = std::thread::spawn(move || conn::serve(b, srv, vec![0; 16], rawlog));
    let mut out = Outcome { silent: vec![], fin: vec![], exited: false, status: "ok".into(), lens, quiet, inputs_done: 0, inputs_asked: c.inputs, alens, das, ca: 0 };
    let mut con = Connector::new().screen(cfg.w, cfg.h).credentials(cfg.dom.clone(), cfg.user.clone(), cfg.pw.clone()).use_nla(false).layout(conn::layout_of(cfg.lay)).name(cfg.name.clone());
    let mut client = match con.connect(a) { Ok(c) => c, Err(e) => { out.status = format!("E@connect:{:?}", e); let _ = th.join(); return out; } };
    if c.act == 0 { for i in 0..5 { if let Err(e) = client.read(|_| {}) { out.status = format!("E@read{}:{:?}", i, e); drop(client); let _ = th.join(); return out; } } }
    let t0 = Instant::now();
    let shared = Arc::new(Mutex::new(client));
    let sync = Arc::new(AtomicBool::new(true));
    let (tx, rx) = channel();
    let handle = match crate::gui::verif_launch_rdp_thread(fd, shared.clone(), sync.clone(), tx) { Ok(h) => h, Err(_) => { out.status = "E@launch".into(); return out; } };
    // concurrent input from this thread while the receive thread runs
    let mut got: Vec<u16> = vec![];
    let mut snap: Option<Vec<u16>> = None;
    let mut deadline_total = t_silent + 6000 + 150 + 900;
    let mut n_in = 0;
    loop {
        let el = t0.elapsed().as_millis() as u64;
        let marked = rv.mark.lock().unwrap().map(|m| m.elapsed().as_millis() as u64);
        while let Ok(b) = rx.try_recv() { got.push(b.dest_left); }
        if snap.is_none() && (marked.map_or(false, |m| m >= 350) || el >= t_silent + 6000) {
            snap = Some(got.clone()); deadline_total = el + 150 + 900;
            rv.snapped.store(true, std::sync::atomic::Ordering::SeqCst);
        }
        if c.inputs && n_in < 6 && el > 130 && snap.is_none() {
            if let Ok(mut g) = shared.try_lock() { let _ = g.try_write(RdpEvent::Pointer(PointerEvent { x: n_in, y: 1, button: PointerButton::None, down: false })); n_in += 1; }
        }
        if handle.is_finished() && snap.is_some() { out.exited = true; break; }
        if el >= deadline_total { break; }
        std::thread::sleep(Duration::from_millis(5));
    }
    while let Ok(b) = rx.try_recv() { got.push(b.dest_left); }
    out.inputs_done = n_in as usize;
    out.silent = snap.unwrap_or_default();
    out.fin = got;
    // release everything: an unfinished thread is left behind on purpose (it may be spinning);
    // closing our side ends the server thread
    // stop a thread that is still looping (the sync flag is the GUI's own stop signal)
    sync.store(false, std::sync::atomic::Ordering::Relaxed);
    if out.exited { let _ = handle.join(); }
    drop(shared);
    // what the server received in all: every demand-active must have been answered with a confirm-active
    if let Ok(log) = th.join() {
        out.ca = log.frames.iter().filter(|f| f.len() > 18 && f[7] == 0x64 && { let off = if f[13] & 0x80 != 0 { 15 } else { 14 }; f.len() > off + 4 && f[off + 2] == 0x13 && f[off + 3] == 0 }).count();
    }
    out
}

fn show(v: &[u16]) -> String { if v.is_empty() { "-".into() } else { v.iter().map(|x| x.to_string()).collect::<Vec<_>>().join(".") } }

pub fn line_of(c: &Case, lens: &[usize], quiet: &[usize], alens: &[usize]) -> String { line_of_d(c, lens, quiet, alens, &[]) }
pub fn line_of_d(c: &Case, lens: &[usize], quiet: &[usize], alens: &[usize], das: &[usize]) -> String {
    let j = |v: &[usize]| if v.is_empty() { "-".to_string() } else { v.iter().map(|x| x.to_string()).collect::<Vec<_>>().join(",") };
    format!("gui das={} act={} alens={} lens={} cuts={} gap={} end={} endpack={} inputs={} plens={} quiet={}{}", j(das), c.act, j(alens),
        c.lens.iter().map(|x| x.to_string()).collect::<Vec<_>>().join(","), j(&c.cuts), c.gap, c.end, c.endpack as u8, c.inputs as u8, j(lens), j(quiet), if c.tcp { " tcp=1" } else { "" })
}

fn emit_outcome(em: &mut Emitter, c: &Case, o: Outcome) {
    let line = line_of_d(c, &o.lens, &o.quiet, &o.alens, &o.das);
    let inp = if !o.inputs_asked { "-" } else if o.inputs_done > 0 { "ok" } else { "blocked" };
    let out = if o.status == "ok" { format!("silent={} final={} exit={} in={} ca={}", show(&o.silent), show(&o.fin), if o.exited { "yes" } else { "no" }, inp, o.ca) } else { o.status.clone() };
    let mut obs = Obs::new(out).nt(o.status == "ok").tag(Box::leak(c.end.clone().into_boxed_str()));
    if o.status != "ok" { obs = obs.viol("session setup failed"); }
    em.case(&line, move || obs);
}

pub fn run_case(toks: &[&str], em: &mut Emitter) {
    let get = |k: &str| -> String { toks.iter().find(|x| x.starts_with(&format!("{}=", k))).map(|x| x[k.len() + 1..].to_string()).unwrap_or_default() };
    let list = |k: &str| -> Vec<usize> { get(k).split(',').filter_map(|x| x.parse().ok()).collect() };
    let c = Case { lens: list("lens"), cuts: list("cuts"), gap: get("gap").parse().unwrap_or(0), end: get("end"), endpack: get("endpack") == "1", inputs: get("inputs") == "1", act: get("act").parse().unwrap_or(0), tcp: get("tcp") == "1" };
    watch_begin(&line_of(&c, &[], &[], &[]));
    let o = run(&c);
    emit_outcome(em, &c, o);
}

pub fn generate(thorough: bool, seed: u64, part: (usize, usize), em: &mut Emitter) {
    let mut r = Rng::new(seed ^ 0xC20);
    let mut cases: Vec<Case> = vec![];
    let ends = ["dpu", "notify", "close", "bad", "badio", "dpuhold"];
    // every end mode x packing family
    for (ei, end) in ends.iter().enumerate() {
        for fam in 0..6 {
            let n = 1 + (fam + ei) % 3;
            let lens: Vec<usize> = (0..n).map(|k| r.range(1, 6) as usize + 100 * ((fam + k + 2 * ei) % 7)).collect();
            let plen: Vec<usize> = lens.iter().flat_map(|k| frames_of(0, *k).into_iter().map(|f| f.len()).collect::<Vec<_>>()).collect();
            let bounds: Vec<usize> = plen.iter().scan(0, |a, x| { *a += x; Some(*a) }).collect();
            let (cuts, gap): (Vec<usize>, u64) = match fam {
                0 => (bounds.clone(), 0),                                   // one PDU per record, back to back
                1 => (bounds.clone(), 25),                                  // one PDU per record, pauses
                2 => (vec![], 0),                                           // everything in one record
                3 => (bounds.iter().map(|b| b - 3).collect(), 25),          // each record ends 3 bytes before a PDU end
                4 => { let mut v = bounds.clone(); v.extend(bounds.iter().map(|b| b - 5)); (v, 15) } // PDUs split across records
                _ => ((1..*bounds.last().unwrap()).step_by(7).collect(), 0), // 7-byte records
            };
            // a re-activation inside the session is sent one PDU per record (the client's answer needs a live peer: with
            // PDUs left buffered until the server closes, the answer would meet a closed socket)
            let has_react = lens.iter().any(|x| x / 100 == 6);
            let (cuts, gap) = if has_react { (bounds.clone(), gap.max(10)) } else { (cuts, gap) };
            for endpack in &[false, true] {
                if *endpack && (*end == "notify" || *end == "close" || has_react) { continue; }
                cases.push(Case { lens: lens.clone(), cuts: cuts.clone(), gap, end: end.to_string(), endpack: *endpack, inputs: fam % 2 == 1, act: ((fam + 2 * ei + *endpack as usize) % 4) as u8, tcp: false });
            }
        }
    }
    // randomized packings and timings
    let n = if thorough { 600 } else { 40 };
    for _ in 0..n {
        let k = r.range(1, 4) as usize;
        let lens: Vec<usize> = (0..k).map(|_| r.range(1, 8) as usize + 100 * r.below(7) as usize).collect();
        let total: usize = lens.iter().map(|x| frames_of(0, *x).iter().map(|f| f.len()).sum::<usize>()).sum();
        let nc = r.below(5) as usize;
        let has_react = lens.iter().any(|x| x / 100 == 6);
        let cuts: Vec<usize> = if has_react { lens.iter().flat_map(|k| frames_of(0, *k).into_iter().map(|f| f.len()).collect::<Vec<_>>()).scan(0, |a, x| { *a += x; Some(*a) }).collect() }
            else { (0..nc).map(|_| r.range(1, total as u64 - 1) as usize).collect() };
        cases.push(Case { lens, cuts, gap: if has_react { 15 } else { *r.pick(&[0u64, 0, 10, 30]) }, end: r.pick(&ends).to_string(), endpack: !has_react && r.chance(1, 4), inputs: r.chance(1, 2), act: r.below(4) as u8, tcp: false });
    }
    // the socket as the GUI client's main makes it (tcp_from_args): PDUs whose halves travel in two TLS records 5.6 s apart
    // (a slow link, a busy server) are still read and dispatched, and the thread goes on; and one ordinary run on that socket
    {
        let plen: usize = frames_of(0, 4).iter().map(|f| f.len()).sum();
        cases.push(Case { lens: vec![4], cuts: vec![plen / 2], gap: 5600, end: "dpu".into(), endpack: false, inputs: false, act: 0, tcp: true });
        cases.push(Case { lens: vec![3, 2], cuts: vec![], gap: 0, end: "close".into(), endpack: false, inputs: true, act: 1, tcp: true });
    }
    let mine: Vec<Case> = cases.into_iter().enumerate().filter(|(i, _)| i % part.1 == part.0).map(|(_, c)| c).collect();
    // the cases are timing-bound, not CPU-bound: run them concurrently
    let width = 24;
    for chunk in mine.chunks(width) {
        if let Some(c0) = chunk.first() { watch_begin(&line_of(c0, &[], &[], &[])); }
        let hs: Vec<_> = chunk.iter().cloned().map(|c| std::thread::spawn(move || { let o = run(&c); (c, o) })).collect();
        let results: Vec<_> = hs.into_iter().filter_map(|h| h.join().ok()).collect();
        watch_end();
        for (c, o) in results { emit_outcome(em, &c, o); }
    }
}
