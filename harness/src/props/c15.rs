//! C15 (AUTHENTICATE tokens verify under an independent MS-NLMP server) and C07 (hostile
//! bytes during NLA): the real Ntlm::read_challenge_message, cssp readers.
use crate::common::*;
use hmac::{Hmac, Mac};
use md4::{Digest, Md4};
use md5::Md5;
use rdp::nla::cssp;
use rdp::nla::ntlm::Ntlm;
use rdp::nla::sspi::AuthenticationProtocol;
use std::panic::{catch_unwind, AssertUnwindSafe};

pub fn utf16(s: &str) -> Vec<u8> { s.encode_utf16().flat_map(|c| c.to_le_bytes().to_vec()).collect() }
pub fn hmac_md5(key: &[u8], data: &[u8]) -> Vec<u8> { let mut m = Hmac::<Md5>::new_varkey(key).unwrap(); m.input(data); m.result().code().to_vec() }
pub fn md4(data: &[u8]) -> Vec<u8> { let mut h = Md4::new(); h.input(data); h.result().to_vec() }
pub fn rc4(key: &[u8], data: &[u8]) -> Vec<u8> {
    let mut s: Vec<u8> = (0..=255u8).collect(); let mut j: u8 = 0;
    for i in 0..256 { j = j.wrapping_add(s[i]).wrapping_add(key[i % key.len()]); s.swap(i, j as usize); }
    let (mut i, mut j) = (0u8, 0u8); let mut out = vec![];
    for b in data { i = i.wrapping_add(1); j = j.wrapping_add(s[i as usize]); s.swap(i as usize, j as usize); out.push(b ^ s[(s[i as usize].wrapping_add(s[j as usize])) as usize]); }
    out
}
/// NTOWFv2 computed independently of rdp::nla (MS-NLMP 3.3.2)
pub fn ntowfv2(nt_hash: &[u8], user: &str, domain: &str) -> Vec<u8> { hmac_md5(nt_hash, &utf16(&(user.to_uppercase() + domain))) }

pub fn challenge(flags: u32, server_challenge: &[u8; 8], target_info: &[u8], version: bool, ti_off_delta: i64, ti_len_delta: i64) -> Vec<u8> {
    challenge_max(flags, server_challenge, target_info, version, ti_off_delta, ti_len_delta, 0)
}
/// `max_delta`: TargetInfoMaxLen = TargetInfoLen + max_delta (MaxLen is to be ignored on receipt)
pub fn challenge_max(flags: u32, server_challenge: &[u8; 8], target_info: &[u8], version: bool, ti_off_delta: i64, ti_len_delta: i64, max_delta: u16) -> Vec<u8> {
    let hdr = if version { 56u32 } else { 48 };
    let mut v = b"NTLMSSP\0".to_vec();
    v.extend(&2u32.to_le_bytes());
    v.extend(&[0, 0, 0, 0]); v.extend(&hdr.to_le_bytes());
    v.extend(&flags.to_le_bytes()); v.extend(server_challenge); v.extend(&[0u8; 8]);
    let tl = (target_info.len() as i64 + ti_len_delta).max(0).min(65535) as u16;
    v.extend(&tl.to_le_bytes()); v.extend(&tl.wrapping_add(max_delta).to_le_bytes());
    v.extend(&((hdr as i64 + ti_off_delta).max(0) as u32).to_le_bytes());
    if version { v.extend(&[6, 0, 0x72, 0x17, 0, 0, 0, 0x0f]); }
    v.extend(target_info);
    v
}
pub fn av(id: u16, val: &[u8]) -> Vec<u8> { let mut v = id.to_le_bytes().to_vec(); v.extend(&(val.len() as u16).to_le_bytes()); v.extend(val); v }

fn u16at(b: &[u8], o: usize) -> usize { b[o] as usize | (b[o + 1] as usize) << 8 }
fn u32at(b: &[u8], o: usize) -> usize { u16at(b, o) | u16at(b, o + 2) << 16 }

pub struct Creds { pub domain: String, pub user: String, pub password: String, pub from_hash: bool }

/// set while conforming challenges are generated: every one of them must be answered with a token
/// when set: the Ntlm object first goes through a complete earlier handshake with this CHALLENGE
pub static PRE_CHAL: std::sync::Mutex<Option<Vec<u8>>> = std::sync::Mutex::new(None);
pub static EXPECT_TOKEN: std::sync::atomic::AtomicBool = std::sync::atomic::AtomicBool::new(false);
/// with PRE_CHAL: the second CHALLENGE is handed to the object without a new NEGOTIATE message in between
pub static PRE_NO_RENEG: std::sync::atomic::AtomicBool = std::sync::atomic::AtomicBool::new(false);

pub fn run_auth(em: &mut Emitter, c: &Creds, chal: &[u8]) {
    let nt_hash = md4(&utf16(&c.password));
    let key = ntowfv2(&nt_hash, &c.user, &c.domain);
    crate::alloc_count::reset();
    let chal2 = chal.to_vec();
    // a call that neither returns nor fails (a loop that makes no progress on some AV pair, say) is reported by the watchdog
    watch_begin(&format!("ntlm_auth dom8={} usr8={} chal={}", hex(c.domain.as_bytes()), hex(c.user.as_bytes()), hex(chal)));
    let r = catch_unwind(AssertUnwindSafe(|| {
        let mut n = if c.from_hash { Ntlm::from_hash(c.domain.clone(), c.user.clone(), &nt_hash) } else { Ntlm::new(c.domain.clone(), c.user.clone(), c.password.clone()) };
        let mut first_neg = None;
        if let Some(pre) = PRE_CHAL.lock().unwrap().clone() { first_neg = n.create_negotiate_message().ok(); let _ = n.read_challenge_message(&pre); }
        let neg = if PRE_NO_RENEG.load(std::sync::atomic::Ordering::Relaxed) && first_neg.is_some() { first_neg.unwrap() } else { n.create_negotiate_message().unwrap() };
        (neg, n.read_challenge_message(&chal2))
    }));
    let peak = crate::alloc_count::max();
    let neg_default: Vec<u8> = { let mut n = Ntlm::new(String::new(), String::new(), String::new()); n.create_negotiate_message().unwrap() };
    let (neg, out, tok) = match r {
        Ok((neg, Ok(tok))) => (neg, format!("ok {}", hex(&tok)), Some(tok)),
        Ok((neg, Err(_))) => (neg, "E".to_string(), None),
        Err(_) => (neg_default, "P".to_string(), None),
    };
    // recover the two random values from the token (client challenge, exported session key)
    let (mut cc, mut ek) = (vec![0u8; 8], vec![0u8; 16]);
    if let Some(t) = &tok {
        if t.len() >= 64 {
            let (ntl, nto) = (u16at(t, 20), u32at(t, 24));
            let (ekl, eko) = (u16at(t, 52), u32at(t, 56));
            let (lml, lmo) = (u16at(t, 12), u32at(t, 16));
            // (the NT length field is not trusted: it wraps when the response exceeds 65535 bytes; its first
            // 16 bytes, the NT proof, are all that is needed)
            let _ = ntl;
            if nto + 16 <= t.len() && eko + ekl <= t.len() && ekl == 16 && lml == 24 && lmo + 24 <= t.len() {
                // the LM response is HMAC ‖ client challenge, whatever the timestamp length was
                cc = t[lmo + 16..lmo + 24].to_vec();
                let sbk = hmac_md5(&key, &t[nto..nto + 16]);
                ek = rc4(&sbk, &t[eko..eko + 16]);
            }
        }
    }
    let mut line = format!("ntlm_auth key={} dom16={} usr16={} dom8={} usr8={} neg={} chal={} cc={} ek={}",
        hex(&key), hex(&utf16(&c.domain)), hex(&utf16(&c.user)), hex(c.domain.as_bytes()), hex(c.user.as_bytes()), hex(&neg), hex(chal), hex(&cc), hex(&ek));
    line.push_str(&format!(" pw16={} ud16={}", hex(&utf16(&c.password)), hex(&utf16(&(c.user.to_uppercase() + &c.domain)))));
    if let Some(t) = &tok { line.push_str(&format!(" tok={}", hex(t))); }
    let mut obs = Obs::new(out.clone()).nt(tok.is_some()).tag(if c.from_hash { "from_hash" } else { "password" });
    if out == "P" { obs = obs.viol("panic").tag("panic"); }
    else if tok.is_none() && EXPECT_TOKEN.load(std::sync::atomic::Ordering::Relaxed) { obs = obs.viol("no AUTHENTICATE token for a conforming CHALLENGE"); }
    if peak > (1 << 20) { obs = obs.viol(&format!("allocation request of {} bytes", peak)); }
    em.case(&line, move || obs);
}

pub fn run_case(toks: &[&str], em: &mut Emitter) {
    // replay: only the challenge and the credentials matter; names are replayed from their UTF-8 form
    let get = |k: &str| -> Option<String> { toks.iter().find(|x| x.starts_with(&format!("{}=", k))).map(|x| x[k.len() + 1..].to_string()) };
    match toks[0] {
        "ntlm_auth" => {
            // the password is not part of the line (only the key is): replay with the corpus credential set
            let c = Creds { domain: String::from_utf8_lossy(&unhex(&get("dom8").unwrap())).to_string(), user: String::from_utf8_lossy(&unhex(&get("usr8").unwrap())).to_string(), password: "replay-password".to_string(), from_hash: false };
            run_auth(em, &c, &unhex(&get("chal").unwrap()));
        }
        "ts_chal" | "ts_validate" => observed(em, toks[0], &unhex(toks[1])),
        _ => {}
    }
}

fn observed(em: &mut Emitter, op: &str, data: &[u8]) {
    watch_begin(&format!("{} {} obs=E", op, hex(data)));
    crate::alloc_count::reset();
    let d = data.to_vec();
    let r = catch_unwind(AssertUnwindSafe(|| if op == "ts_chal" { cssp::read_ts_server_challenge(&d) } else { cssp::read_ts_validate(&d) }));
    let out = match r { Ok(Ok(v)) => format!("ok_{}", hex(&v)), Ok(Err(_)) => "E".to_string(), Err(_) => "P".to_string() };
    let mut obs = Obs::new(out.replace('_', " ")).nt(out.starts_with("ok"));
    if out == "P" { obs = obs.viol("panic").tag("panic"); }
    let line = format!("{} {} obs={}", op, hex(data), out);
    em.case(&line, move || obs);
}

fn creds(r: &mut Rng) -> Creds {
    let names = ["", "a", "user", "Administrator", "élève", "ß", "straße", "Ǆ", "名前", "😀user", "USER", "i̇", "a b", "Δοκιμή"];
    let pws = ["", "p", "password", "pässwörd", "密码", "🔑🔑", "a\u{0}b", "P@ssw0rd!"];
    Creds { domain: r.pick(&["", "DOMAIN", "dom.example", "домен"]).to_string(), user: r.pick(&names).to_string(), password: r.pick(&pws).to_string(), from_hash: r.chance(1, 3) }
}

fn target_info(r: &mut Rng, with_ts: bool) -> Vec<u8> {
    let mut v = vec![];
    if r.chance(2, 3) { v.extend(av(2, &utf16("DOM"))); }
    if r.chance(2, 3) { v.extend(av(1, &utf16("SRV"))); }
    if r.chance(1, 2) { v.extend(av(4, &utf16("dom.example"))); }
    if r.chance(1, 3) { v.extend(av(6, &[2, 0, 0, 0])); }
    // zero-length values are legal (an empty DNS tree name, say) and do not end the list
    if r.chance(1, 4) { v.extend(av(*r.pick(&[5u16, 3, 4, 9]), &[])); }
    if with_ts { v.extend(av(7, &r.bytes(8))); }
    if r.chance(1, 4) { v.extend(av(9, &utf16("TERMSRV/host"))); }
    if r.chance(1, 6) { let n = r.below(40) as usize; v.extend(av(3, &r.bytes(n))); }
    v.extend(av(0, &[]));
    v
}

/// C15: every flag combination the client reacts to x credential sets x target-info shapes
pub fn generate_c15(thorough: bool, seed: u64, part: (usize, usize), em: &mut Emitter) {
    EXPECT_TOKEN.store(true, std::sync::atomic::Ordering::Relaxed);
    if part.0 == 0 { generate_c15_big(em); }
    let mut r = Rng::new(seed ^ 0xC15);
    let n = if thorough { 40000 } else { 2500 };
    for i in 0..n {
        let c = creds(&mut r);
        let version = i % 2 == 0;
        let unicode = i % 4 < 2;
        let mut flags: u32 = 0x40000000 | 0x20000000 | 0x00800000 | 0x00080000 | 0x00008000 | 0x00000200 | 0x00000020 | 0x00000010 | 0x00000004;
        if version { flags |= 0x02000000; }
        if unicode { flags |= 1; }
        if r.chance(1, 4) { flags |= 0x80000000 | 0x00020000; }
        // both character-set bits (servers that echo the client's capability set): Unicode wins (MS-NLMP 2.2.2.5)
        if i % 6 == 1 { flags |= 2; }
        // flag bits that mean something under NTLMv1 only (REQUEST_NON_NT_SESSION_KEY, LM_KEY) or nothing to the
        // computation (IDENTIFY): under NTLMv2 the key exchange key is the session base key all the same
        if i % 9 == 4 { flags |= *r.pick(&[0x00400000u32, 0x00400000, 0x00400080, 0x00100000, 0x00000080]); }
        let sc = { let b = r.bytes(8); let mut a = [0u8; 8]; a.copy_from_slice(&b); a };
        let ti = target_info(&mut r, true);
        let md = if i % 5 == 3 { *r.pick(&[4u16, 1, 100, 0xfff0]) } else { 0 };
        // every seventh handshake runs on an Ntlm object that already answered a CHALLENGE with the opposite UNICODE / VERSION choice
        if i % 7 == 6 { let ti0 = target_info(&mut r, true); *PRE_CHAL.lock().unwrap() = Some(challenge(flags ^ 0x02000001, &sc, &ti0, !version, 0, 0)); }
        // every eleventh: the object first REFUSED a challenge (no timestamp / cut short), and the conforming one follows
        // with or without a new NEGOTIATE message in between — the MIC covers this session's three messages only
        if i % 11 == 5 {
            let bad = if i % 2 == 0 { let mut t = av(2, &utf16("D")); t.extend(av(0, &[])); challenge(flags, &sc, &t, version, 0, 0) } else { let g = challenge(flags, &sc, &ti, version, 0, 0); g[..g.len() - 3].to_vec() };
            *PRE_CHAL.lock().unwrap() = Some(bad);
            PRE_NO_RENEG.store(i % 4 < 2, std::sync::atomic::Ordering::Relaxed);
        }
        run_auth(em, &c, &challenge_max(flags, &sc, &ti, version, 0, 0, md));
        *PRE_CHAL.lock().unwrap() = None; PRE_NO_RENEG.store(false, std::sync::atomic::Ordering::Relaxed);
    }
}

/// C15: tokens beyond 64 KiB — a target information near the 16-bit limit together with long names: every field stays
/// within its own 16-bit length, the 32-bit offsets must keep addressing them
pub fn generate_c15_big(em: &mut Emitter) {
    EXPECT_TOKEN.store(true, std::sync::atomic::Ordering::Relaxed);
    let sc = [7u8, 6, 5, 4, 3, 2, 1, 0];
    for (n, namelen) in &[(64000usize, 400usize), (65000, 200), (60000, 1000), (64000, 0)] {
        let mut ti = av(1, &vec![0x41u8; n - 20]); ti.extend(av(7, &[1, 2, 3, 4, 5, 6, 7, 8])); ti.extend(av(0, &[]));
        let name: String = std::iter::repeat('x').take(*namelen).collect();
        let c = Creds { domain: name.clone(), user: format!("u{}", name), password: "p".into(), from_hash: false };
        for flags in &[0x62898235u32, 0x62898235 & !0x02000000, 0x62898234] {
            run_auth(em, &c, &challenge(*flags, &sc, &ti, flags & 0x02000000 != 0, 0, 0));
        }
    }
}

/// C07: hostile CHALLENGE messages and TSRequest structures
pub fn generate_c07(thorough: bool, seed: u64, part: (usize, usize), em: &mut Emitter) {
    // the whole CredSSP exchange over real TLS with truncated / empty / garbage final replies followed by
    // the server closing: cssp_connect must fail, not crash or spin (watchdog in the harness)
    if part.0 == 0 {
        let mut rr = Rng::new(seed ^ 0xC0701);
        let mut flags: u32 = 0x62898235; flags |= 0x02000000;
        let mut ti = av(2, &utf16("D")); ti.extend(av(7, &rr.bytes(8))); ti.extend(av(0, &[]));
        let scv = rr.bytes(8); let mut sc = [0u8; 8]; sc.copy_from_slice(&scv);
        for rcp in &["empty", "trunc:1", "trunc:2", "trunc:3", "trunc:4", "trunc:5", "trunc:40", "trunc:200", "raw:30", "raw:3082", "raw:308201", "raw:30820120a003", "raw:3080", "raw:30840000ffff", "nopka", "unsealed",
                     // a SEQUENCE header announcing 16 MiB .. 4 GiB with (almost) nothing behind it
                     "raw:3083ffffff", "raw:30840fffffff", "raw:3084ffffffff", "raw:30847fffffffa003020102", "raw:308410000000",
                     // accepted by the security interface, but deciphering to fewer / more bytes than the public key, or to none
                     "plen:1", "plen:2", "plen:100", "plen:269", "plen:0", "pext:01", "pext:00000000000000000000000000000001"] {
            let c = crate::props::c01::Case { dom: "d".into(), user: "u".into(), pw: "p".into(), from_hash: false, ra: false, id: 1, flags, sc, ti: ti.clone(), reply: rcp.to_string(), reply1: "honest".into(), pre: String::new() };
            crate::props::c01::run(em, &c);
            // the same damage to the first reply (the TSRequest carrying the CHALLENGE)
            let c1 = crate::props::c01::Case { reply: "honest".into(), reply1: if *rcp == "nopka" || *rcp == "unsealed" { "raw:3003a00100".to_string() } else { rcp.to_string() }, ..c };
            crate::props::c01::run(em, &c1);
        }
    }
    // sealed pubKeyAuth tokens handed to gss_unwrapex: every length 0..=24 (the 16-byte signature
    // boundary), random content and valid-looking headers, truncations of honest tokens
    if part.0 == 0 {
        let mut rr = Rng::new(seed ^ 0xC0716);
        let keys: [Vec<u8>; 4] = [rr.bytes(16), rr.bytes(16), rr.bytes(16), rr.bytes(16)];
        for n in 0..=24usize {
            for variant in 0..3 {
                let mut b = rr.bytes(n);
                if variant > 0 && n >= 4 { b[0] = 1; b[1] = 0; b[2] = 0; b[3] = 0; }
                if variant == 2 { for x in b.iter_mut().skip(4) { *x = 0; } }
                crate::props::c16::emit(em, &keys, &[format!("U{}", hex(&b))]);
            }
            crate::props::c16::emit(em, &keys, &[format!("X{}:{}", n, hex(&rr.bytes(9)))]);
        }
        // the interface after it REFUSED a token: shorter, equal and longer tokens (genuine, tampered, cut, raw) follow on
        // the same object — each call returns a value or an error
        for &(a, b) in &[(20usize, 5usize), (20, 20), (5, 20), (1, 1), (64, 0), (0, 3), (300, 299)] { for bit in &[3usize, 40, 100, 130] {
            let (pa, pb) = (rr.bytes(a), rr.bytes(b));
            crate::props::c16::emit(em, &keys, &[format!("T{}:{}", bit, hex(&pa)), format!("M{}", hex(&pb)), format!("T{}:{}", bit, hex(&pb)), format!("X{}:{}", 16 + b / 2, hex(&pb)), format!("U{}", hex(&rr.bytes(17 + b))), format!("M{}", hex(&pa)), format!("M{}", hex(&pb[..b.min(1)]))]);
        } }
    }
    let mut r = Rng::new(seed ^ 0xC07);
    let c = Creds { domain: "d".into(), user: "u".into(), password: "p".into(), from_hash: false };
    let sc = [1u8, 2, 3, 4, 5, 6, 7, 8];
    let fault_vals: &[u8] = if thorough { &[0, 1, 2, 3, 4, 7, 8, 0x2f, 0x30, 0x37, 0x38, 0x7f, 0x80, 0xfe, 0xff] } else { &[0, 1, 7, 0x30, 0x38, 0x80, 0xff] };
    let mut idx = 0usize;
    for version in &[false, true] {
        let flags: u32 = 0x62898235 | if *version { 0x02000000 } else { 0 };
        let ti = { let mut v = av(2, &utf16("D")); v.extend(av(7, &[9u8; 8])); v.extend(av(0, &[])); v };
        let good = challenge(flags, &sc, &ti, *version, 0, 0);
        // every byte faulted, every truncation, extensions
        for off in 0..good.len() { for v in fault_vals { idx += 1; if idx % part.1 != part.0 { continue; } let mut b = good.clone(); b[off] = *v; run_auth(em, &c, &b); } }
        for cut in 0..good.len() { run_auth(em, &c, &good[..cut]); }
        // payload offset / length attacks
        for od in &[-100i64, -57, -56, -49, -48, -47, -1, 1, 2, 20, 21, 22, 1000, 0x7fffffff] { for ld in &[-30i64, -1, 0, 1, 2, 100, 65535] {
            run_auth(em, &c, &challenge(flags, &sc, &ti, *version, *od, *ld));
        } }
        // 32-bit boundary of offset + length: absolute offsets near 2^31 and 2^32, and offset = 2^32 - len + k
        let hdr: i64 = if *version { 56 } else { 48 };
        let tl = ti.len() as i64;
        for off in &[0xffff_ffffi64, 0xffff_fffe, 0xffff_ff00, 0xffff_0000, 0x8000_0000, 0x7fff_ffff, 0x1_0000_0000 - tl, 0x1_0000_0000 - tl - 1, 0x1_0000_0000 - tl + 1, 0x1_0000_0000 - 0x39, 0x1_0000_0000 - 65535] {
            for ld in &[0i64, 1, 0x39 - tl, 65535] {
                run_auth(em, &c, &challenge(flags, &sc, &ti, *version, *off - hdr, *ld));
            }
        }
    }
    // the 16-bit length of the target information at its upper boundary (well-formed AV pairs): the
    // NT response then no longer fits its own 16-bit length field
    for n in &[65535usize, 65492, 65491, 65000] {
        let mut ti = av(1, &vec![0x41u8; n - 20]); ti.extend(av(7, &[1, 2, 3, 4, 5, 6, 7, 8])); ti.extend(av(0, &[]));
        run_auth(em, &c, &challenge(0x62898235, &sc, &ti, true, 0, 0));
        run_auth(em, &c, &challenge(0x62898235 & !0x02000000, &sc, &ti, false, 0, 0));
    }
    // a non-empty TargetName behind the target information: well-formed, empty-length-with-offset, odd-sized, lone /
    // reversed surrogates, OEM bytes under the UNICODE flag (the client has no use for the name)
    for version in &[false, true] { for unicode in &[true, false] {
        let flags: u32 = (0x62898235 & !0x02000001) | if *version { 0x02000000 } else { 0 } | if *unicode { 1 } else { 0 };
        let ti = { let mut v = av(2, &utf16("D")); v.extend(av(7, &[9u8; 8])); v.extend(av(0, &[])); v };
        for name in &[utf16("SRV"), vec![0x00, 0xD8], vec![0x00, 0xDC, 0x00, 0xD8], vec![0x41, 0x00, 0x00, 0xD8], vec![0x41], vec![0xff, 0xff, 0xfe, 0xff], b"SERVER".to_vec(), vec![]] {
            let mut m = challenge(flags, &sc, &ti, *version, 0, 0);
            let off = m.len() as u32;
            m.extend(name);
            m[12..14].copy_from_slice(&(name.len() as u16).to_le_bytes()); m[14..16].copy_from_slice(&(name.len() as u16).to_le_bytes()); m[16..20].copy_from_slice(&off.to_le_bytes());
            run_auth(em, &c, &m);
        }
    } }
    // a second CHALLENGE handed to the same Ntlm object (after a good one, after a refused one), with and
    // without a new NEGOTIATE message in between
    {
        let ti = { let mut v = av(2, &utf16("D")); v.extend(av(7, &[9u8; 8])); v.extend(av(0, &[])); v };
        for version in &[false, true] { for noreneg in &[false, true] { for badfirst in &[false, true] {
            let flags: u32 = 0x62898235 | if *version { 0x02000000 } else { 0 };
            let good = challenge(flags, &sc, &ti, *version, 0, 0);
            *PRE_CHAL.lock().unwrap() = Some(if *badfirst { good[..good.len() - 3].to_vec() } else { good.clone() });
            PRE_NO_RENEG.store(*noreneg, std::sync::atomic::Ordering::Relaxed);
            run_auth(em, &c, &good);
            *PRE_CHAL.lock().unwrap() = None; PRE_NO_RENEG.store(false, std::sync::atomic::Ordering::Relaxed);
        } } }
    }
    // target-info shapes: no timestamp, no EOL, unknown ids, lengths past the end, empty
    let flags: u32 = 0x62898235;
    let shapes: Vec<Vec<u8>> = vec![
        vec![], av(0, &[]), av(7, &[1u8; 8]), { let mut v = av(2, &[0x41, 0]); v.extend(av(0, &[])); v },
        { let mut v = av(7, &[1u8; 8]); v.extend(av(0x0b, &[1, 2])); v.extend(av(0, &[])); v },
        { let mut v = av(7, &[1u8; 4]); v.extend(av(0, &[])); v }, { let mut v = av(7, &[]); v.extend(av(0, &[])); v },
        vec![7, 0, 0xff, 0xff, 1, 2, 3], vec![7, 0, 8], vec![7], { let mut v = av(7, &[1u8; 8]); v.extend(av(7, &[2u8; 8])); v.extend(av(0, &[])); v },
        { let mut v = av(0xffff, &[]); v.extend(av(0, &[])); v }, { let mut v = av(7, &[3u8; 8]); v.extend(&[0, 0]); v },
    ];
    for ti in &shapes { run_auth(em, &c, &challenge(flags, &sc, ti, false, 0, 0)); run_auth(em, &c, &challenge(flags | 0x02000000, &sc, ti, true, 0, 0)); }
    for _ in 0..(if thorough { 20000 } else { 2000 }) {
        let ti = { let k = r.below(30) as usize; if r.chance(1, 2) { r.bytes(k) } else { let wts = r.chance(1, 2); let mut t = target_info(&mut r, wts); if r.chance(1, 2) && !t.is_empty() { let i = r.below(t.len() as u64) as usize; t[i] = r.byte(); } t } };
        run_auth(em, &c, &challenge(flags | if r.chance(1, 2) { 0x02000000 } else { 0 }, &sc, &ti, r.chance(1, 2), 0, 0));
        let k = r.below(70) as usize; let mut b = r.bytes(k);
        if b.len() >= 12 && r.chance(2, 3) { b[..8].copy_from_slice(b"NTLMSSP\0"); b[8] = 2; b[9] = 0; b[10] = 0; b[11] = 0; }
        run_auth(em, &c, &b);
    }
    // TSRequest readers (yasna: observed, not modelled)
    let ts_good = cssp::create_ts_request(vec![1, 2, 3]);
    let val_good = cssp::create_ts_authenticate(vec![1], vec![9, 9, 9]);
    let empty_tokens = vec![0x30, 0x09, 0xa0, 0x03, 0x02, 0x01, 0x02, 0xa1, 0x02, 0x30, 0x00];
    observed(em, "ts_chal", &empty_tokens);
    observed(em, "ts_chal", &ts_good); observed(em, "ts_validate", &val_good);
    // 1..=9 negoTokens in the sequence (the first one is the answer)
    for n in 1..=9usize {
        use crate::nlasrv::der;
        let mut toks = vec![]; for k in 0..n { toks.extend(der(0x30, &der(0xa0, &der(0x04, &[k as u8, 1, 2])))); }
        let mut body = der(0xa0, &der(0x02, &[2])); body.extend(der(0xa1, &der(0x30, &toks)));
        observed(em, "ts_chal", &der(0x30, &body));
    }
    for g in &[ts_good.clone(), val_good.clone(), empty_tokens.clone()] {
        for off in 0..g.len() { for v in fault_vals { let mut b = g.clone(); b[off] = *v; observed(em, "ts_chal", &b); observed(em, "ts_validate", &b); } }
        for cut in 0..g.len() { observed(em, "ts_chal", &g[..cut]); observed(em, "ts_validate", &g[..cut]); }
    }
    for _ in 0..(if thorough { 20000 } else { 2000 }) { let k = r.below(30) as usize; let mut b = r.bytes(k); if !b.is_empty() { b[0] = 0x30; } observed(em, "ts_chal", &b); observed(em, "ts_validate", &b); }
}
