//! C18 — encoders and decoders are mutually inverse: random message shapes built from the
//! library's own combinators (described to the Lean driver in the shape language).
use crate::common::*;
use crate::shape::{self, OptFn, Sh};
use rdp::model::data::Message;
use std::io::Cursor;

pub fn run_case(toks: &[&str], em: &mut Emitter) {
    let line = toks.join(" ");
    let toks: Vec<String> = toks.iter().map(|s| s.to_string()).collect();
    em.panic_ok = true;
    em.case(&line, move || {
        match toks[0].as_str() {
            "msg_wr" => {
                let m = shape::build(&shape::parse(&toks[1]).unwrap());
                let len = m.length();
                let mut c = Cursor::new(Vec::new());
                let r = m.write(&mut c);
                let bytes = c.into_inner();
                if r.is_err() { return Obs::new("E".into()); }
                let mut o = Obs::new(format!("len={} bytes={}", len, hex(&bytes))).nt(bytes.len() > 1);
                if len as usize != bytes.len() { o = o.viol(&format!("length() = {} but {} bytes written", len, bytes.len())); }
                o
            }
            "msg_rd" => {
                let mut m = shape::build(&shape::parse(&toks[1]).unwrap());
                let data = unhex(&toks[2]);
                let mut c = Cursor::new(data.clone());
                let r = m.read(&mut c);
                let pos = (c.position() as usize).min(data.len());
                match r {
                    Ok(()) => Obs::new(format!("ok {} left={}", shape::dump(&*m), hex(&data[pos..]))).nt(pos > 0),
                    Err(_) => Obs::new(format!("E left={}", hex(&data[pos..]))),
                }
            }
            "msg_rt" => {
                let mut t = shape::build(&shape::parse(&toks[1]).unwrap());
                let v = shape::build(&shape::parse(&toks[2]).unwrap());
                let mut c = Cursor::new(Vec::new());
                if v.write(&mut c).is_err() { return Obs::new("E".into()); }
                let data = c.into_inner();
                let mut c = Cursor::new(data.clone());
                let r = t.read(&mut c);
                let pos = (c.position() as usize).min(data.len());
                match r {
                    Ok(()) => Obs::new(format!("ok {} left={}", shape::dump(&*t), hex(&data[pos..]))).nt(data.len() > 1),
                    Err(_) => Obs::new(format!("E left={}", hex(&data[pos..]))),
                }
            }
            _ => Obs::new("bad-op".into()),
        }
    });
    em.panic_ok = false;
}

fn emit(em: &mut Emitter, line: String) {
    let toks: Vec<&str> = line.split(' ').collect();
    run_case(&toks, em);
}

struct G<'a> { r: &'a mut Rng, names: usize }

impl<'a> G<'a> {
    fn name(&mut self) -> String { self.names += 1; format!("f{}", self.names) }
    fn int(&mut self) -> (Sh, Sh, usize) {
        let le = self.r.chance(1, 2);
        match self.r.below(3) {
            0 => (Sh::U8(0), Sh::U8(self.edge(255) as u8), 1),
            1 => (Sh::U16(le, 0), Sh::U16(le, self.edge(65535) as u16), 2),
            _ => (Sh::U32(le, 0), Sh::U32(le, self.edge(0xffff_ffff) as u32), 4),
        }
    }
    fn edge(&mut self, max: u64) -> u64 {
        match self.r.below(4) { 0 => *self.r.pick(&[0, 1, max, max - 1, max / 2, max / 2 + 1]), _ => self.r.below(max + 1) }
    }
    /// element type usable in Option / Array / sized positions: consumes >= 1 byte
    fn elem(&mut self, depth: u32) -> (Sh, Sh, usize) {
        if depth == 0 || self.r.chance(1, 2) { return self.int(); }
        let n = self.r.range(1, 3) as usize;
        let mut tf = vec![]; let mut vf = vec![]; let mut len = 0;
        for _ in 0..n {
            let nm = self.name();
            let (t, v, l) = if self.r.chance(1, 4) { let k = self.r.range(1, 4) as usize; (Sh::Bytes(vec![0; k]), Sh::Bytes(self.r.bytes(k)), k) } else { self.int() };
            tf.push((nm.clone(), t)); vf.push((nm, v)); len += l;
        }
        (Sh::Comp(tf), Sh::Comp(vf), len)
    }
    /// (template, value, encoded length); `greedy`: nothing follows this message
    fn gen(&mut self, depth: u32, greedy: bool) -> (Sh, Sh, usize) {
        let k = if depth == 0 { self.r.below(3) } else { self.r.below(9) };
        match k {
            0 => self.int(),
            1 => {
                if greedy && self.r.chance(1, 2) { let n = self.r.below(6) as usize; (Sh::Bytes(vec![]), Sh::Bytes(self.r.bytes(n)), n) }
                else { let n = self.r.range(1, 6) as usize; (Sh::Bytes(vec![0; n]), Sh::Bytes(self.r.bytes(n)), n) }
            }
            2 => { let (_, v, l) = self.int(); (Sh::Check(Box::new(v.clone())), Sh::Check(Box::new(v)), l) }
            3 => {
                let n = self.r.below(4) as usize;
                let mut ts = vec![]; let mut vs = vec![]; let mut len = 0;
                for i in 0..n { let (t, v, l) = self.gen(depth - 1, greedy && i + 1 == n); ts.push(t); vs.push(v); len += l; }
                (Sh::Trame(ts), Sh::Trame(vs), len)
            }
            4 | 5 | 6 => self.comp(depth, greedy),
            7 if greedy => {
                // optional trailing field
                let (t, v, l) = self.elem(depth - 1);
                if self.r.chance(1, 2) { (Sh::Opt(Some(Box::new(t))), Sh::Opt(Some(Box::new(v))), l) } else { (Sh::Opt(Some(Box::new(t))), Sh::Opt(None), 0) }
            }
            8 if greedy => {
                let (t, _, _) = self.elem(depth - 1);
                let n = self.r.below(4) as usize;
                let mut items = vec![]; let mut len = 0;
                for _ in 0..n { let (v, l) = self.fill(&t); items.push(v); len += l; }
                (Sh::Array(Some(Box::new(t.clone())), vec![]), Sh::Array(Some(Box::new(t)), items), len)
            }
            _ => self.int(),
        }
    }
    /// a random value for a template made of ints / fixed bytes / components of those
    fn fill(&mut self, t: &Sh) -> (Sh, usize) {
        match t {
            Sh::U8(_) => (Sh::U8(self.r.byte()), 1),
            Sh::U16(le, _) => (Sh::U16(*le, self.r.next() as u16), 2),
            Sh::U32(le, _) => (Sh::U32(*le, self.r.next() as u32), 4),
            Sh::Bytes(b) => (Sh::Bytes(self.r.bytes(b.len())), b.len()),
            Sh::Comp(fs) => { let mut v = vec![]; let mut l = 0; for (n, f) in fs { let (x, k) = self.fill(f); v.push((n.clone(), x)); l += k; } (Sh::Comp(v), l) }
            _ => (t.clone(), 0),
        }
    }
    fn comp(&mut self, depth: u32, greedy: bool) -> (Sh, Sh, usize) {
        let mut tf: Vec<(String, Sh)> = vec![]; let mut vf: Vec<(String, Sh)> = vec![]; let mut len = 0;
        let groups = self.r.range(1, 3);
        for gi in 0..groups {
            let last = gi + 1 == groups;
            match self.r.below(9) {
                0 | 1 => { let n = self.name(); let (t, v, l) = self.gen(depth - 1, greedy && last); tf.push((n.clone(), t)); vf.push((n, v)); len += l; }
                2 => {
                    // size-dependent field: len field, optionally something in between, then the sized field
                    let ln = self.name(); let dn = self.name();
                    let (t, v, l) = self.gen(depth - 1, true);
                    let (add, sub) = match self.r.below(3) { 0 => (0usize, 0usize), 1 => (0, self.r.below(20) as usize), _ => (self.r.below(5) as usize, 0) };
                    if l + sub < add || l + sub - add > 65535 { let n = self.name(); let (t, v, l) = self.int(); tf.push((n.clone(), t)); vf.push((n, v)); len += l; continue; }
                    let val = (l + sub - add) as u16;
                    let le = self.r.chance(1, 2);
                    let f = OptFn::Size(dn.clone(), 1, add, sub);
                    tf.push((ln.clone(), Sh::Dyn(Box::new(Sh::U16(le, 0)), f.clone()))); vf.push((ln, Sh::Dyn(Box::new(Sh::U16(le, val)), f))); len += 2;
                    if self.r.chance(1, 3) { let n = self.name(); let (t, v, l) = self.int(); tf.push((n.clone(), t)); vf.push((n, v)); len += l; }
                    tf.push((dn.clone(), t)); vf.push((dn, v)); len += l;
                }
                3 => {
                    // skippable field
                    let fl = self.name(); let sn = self.name();
                    let set = *self.r.pick(&[1u64, 2, 0x20, 0x80]); let clear = *self.r.pick(&[0u64, 0, 4, 0x40]);
                    let v = self.r.byte();
                    let skipped = (v as u64 & set == 0) || (v as u64 & clear != 0);
                    let f = OptFn::SkipIf(sn.clone(), set, clear);
                    tf.push((fl.clone(), Sh::Dyn(Box::new(Sh::U8(0)), f.clone()))); vf.push((fl, Sh::Dyn(Box::new(Sh::U8(v)), f))); len += 1;
                    let (t, val, l) = self.gen(depth - 1, greedy && last);
                    // when the template's own flag value (0) skips too the template default stays; the
                    // value side keeps the template for a skipped field
                    if skipped { tf.push((sn.clone(), t.clone())); vf.push((sn, t)); } else { tf.push((sn.clone(), t)); vf.push((sn, val)); len += l; }
                }
                6 => {
                    // two skip requests pending at the same time: a may skip c, b may skip d
                    let (an, bn, cn, dn) = (self.name(), self.name(), self.name(), self.name());
                    let (va, vb) = (self.r.byte(), self.r.byte());
                    let (seta, setb) = (*self.r.pick(&[1u64, 2]), *self.r.pick(&[1u64, 4]));
                    let fa = OptFn::SkipIf(cn.clone(), seta, 0); let fb = OptFn::SkipIf(dn.clone(), setb, 0);
                    tf.push((an.clone(), Sh::Dyn(Box::new(Sh::U8(0)), fa.clone()))); vf.push((an, Sh::Dyn(Box::new(Sh::U8(va)), fa))); len += 1;
                    tf.push((bn.clone(), Sh::Dyn(Box::new(Sh::U8(0)), fb.clone()))); vf.push((bn, Sh::Dyn(Box::new(Sh::U8(vb)), fb))); len += 1;
                    let (tc, vc, lc) = self.int();
                    if va as u64 & seta == 0 { tf.push((cn.clone(), tc.clone())); vf.push((cn, tc)); } else { tf.push((cn.clone(), tc)); vf.push((cn, vc)); len += lc; }
                    let (td, vd, ld) = self.int();
                    if vb as u64 & setb == 0 { tf.push((dn.clone(), td.clone())); vf.push((dn, td)); } else { tf.push((dn.clone(), td)); vf.push((dn, vd)); len += ld; }
                }
                5 => {
                    // skip chain: a may skip b, and b - itself a flag field - may skip c; the option of
                    // a skipped field must not be evaluated
                    let (an, bn, cn) = (self.name(), self.name(), self.name());
                    let (seta, setb) = (*self.r.pick(&[1u64, 2, 0x80]), *self.r.pick(&[1u64, 4, 0x40]));
                    let (va, vb) = (self.r.byte(), self.r.byte());
                    let a_skips_b = va as u64 & seta == 0;
                    let fa = OptFn::SkipIf(bn.clone(), seta, 0); let fb = OptFn::SkipIf(cn.clone(), setb, 0);
                    tf.push((an.clone(), Sh::Dyn(Box::new(Sh::U8(0)), fa.clone()))); vf.push((an, Sh::Dyn(Box::new(Sh::U8(va)), fa))); len += 1;
                    let tb = Sh::Dyn(Box::new(Sh::U8(0)), fb.clone());
                    let (tc, vc, lc) = self.int();
                    if a_skips_b {
                        // b keeps its template; c is always present
                        tf.push((bn.clone(), tb.clone())); vf.push((bn, tb));
                        tf.push((cn.clone(), tc)); vf.push((cn, vc)); len += lc;
                    } else {
                        tf.push((bn.clone(), tb)); vf.push((bn, Sh::Dyn(Box::new(Sh::U8(vb)), fb))); len += 1;
                        let b_skips_c = vb as u64 & setb == 0;
                        if b_skips_c { tf.push((cn.clone(), tc.clone())); vf.push((cn, tc)); } else { tf.push((cn.clone(), tc)); vf.push((cn, vc)); len += lc; }
                    }
                }
                7 => {
                    // a skip request and, later, a size request for the SAME field: a flag may skip x, a length
                    // field sizes x; a skipped x is neither written nor read whatever size is announced
                    let (an, bn, xn) = (self.name(), self.name(), self.name());
                    let seta = *self.r.pick(&[1u64, 2, 0x10]);
                    let va = self.r.byte();
                    let a_skips = va as u64 & seta == 0;
                    let fa = OptFn::SkipIf(xn.clone(), seta, 0);
                    let fb = OptFn::Size(xn.clone(), 1, 0, 0);
                    let n = self.r.below(6) as usize; let data = self.r.bytes(n);
                    let le = self.r.chance(1, 2);
                    let bval = if a_skips { 1 + self.r.below(5) as u16 } else { n as u16 };
                    tf.push((an.clone(), Sh::Dyn(Box::new(Sh::U8(0)), fa.clone()))); vf.push((an, Sh::Dyn(Box::new(Sh::U8(va)), fa))); len += 1;
                    tf.push((bn.clone(), Sh::Dyn(Box::new(Sh::U16(le, 0)), fb.clone()))); vf.push((bn, Sh::Dyn(Box::new(Sh::U16(le, bval)), fb))); len += 2;
                    let tx = Sh::Bytes(vec![]);
                    if a_skips { tf.push((xn.clone(), tx.clone())); vf.push((xn, tx)); } else { tf.push((xn.clone(), tx)); vf.push((xn, Sh::Bytes(data))); len += n; }
                    // something after it, so that a desynchronised read shows
                    let n2 = self.name(); let (t, v, l) = self.int(); tf.push((n2.clone(), t)); vf.push((n2, v)); len += l;
                }
                8 => {
                    // a chain: `a` sizes `b`, and `b` — read from its own window — in turn sizes (or switches off) `c`: a
                    // field that is the target of one request and the source of the next
                    let (an, bn, cn) = (self.name(), self.name(), self.name());
                    let n = self.r.below(6) as usize; let data = self.r.bytes(n);
                    if self.r.chance(1, 2) {
                        let le = self.r.chance(1, 2);
                        let (fa, fb) = (OptFn::Size(bn.clone(), 1, 0, 0), OptFn::Size(cn.clone(), 1, 0, 0));
                        tf.push((an.clone(), Sh::Dyn(Box::new(Sh::U8(0)), fa.clone()))); vf.push((an, Sh::Dyn(Box::new(Sh::U8(2)), fa))); len += 1;
                        tf.push((bn.clone(), Sh::Dyn(Box::new(Sh::U16(le, 0)), fb.clone()))); vf.push((bn, Sh::Dyn(Box::new(Sh::U16(le, n as u16)), fb))); len += 2;
                        tf.push((cn.clone(), Sh::Bytes(vec![]))); vf.push((cn, Sh::Bytes(data))); len += n;
                    } else {
                        let seta = *self.r.pick(&[1u64, 2, 0x10]);
                        let vb = self.r.byte();
                        let skips = vb as u64 & seta == 0;
                        let (fa, fb) = (OptFn::Size(bn.clone(), 1, 0, 0), OptFn::SkipIf(cn.clone(), seta, 0));
                        tf.push((an.clone(), Sh::Dyn(Box::new(Sh::U8(0)), fa.clone()))); vf.push((an, Sh::Dyn(Box::new(Sh::U8(1)), fa))); len += 1;
                        tf.push((bn.clone(), Sh::Dyn(Box::new(Sh::U8(0)), fb.clone()))); vf.push((bn, Sh::Dyn(Box::new(Sh::U8(vb)), fb))); len += 1;
                        let (t, v, l) = self.int();
                        tf.push((cn.clone(), t.clone())); if skips { vf.push((cn, t)); } else { vf.push((cn, v)); len += l; }
                    }
                    let n2 = self.name(); let (t, v, l) = self.int(); tf.push((n2.clone(), t)); vf.push((n2, v)); len += l;
                }
                _ => {
                    // size taken from a sub-field of a header component
                    let hn = self.name(); let dn = self.name(); let sub = self.name(); let other = self.name();
                    let (t, v, l) = self.gen(depth - 1, true);
                    if l > 65535 { continue; }
                    let f = OptFn::SizeOfSub(dn.clone(), sub.clone());
                    let th = Sh::Comp(vec![(other.clone(), Sh::U8(0)), (sub.clone(), Sh::U16(true, 0))]);
                    let vh = Sh::Comp(vec![(other, Sh::U8(self.r.byte())), (sub, Sh::U16(true, l as u16))]);
                    tf.push((hn.clone(), Sh::Dyn(Box::new(th), f.clone()))); vf.push((hn, Sh::Dyn(Box::new(vh), f))); len += 3;
                    tf.push((dn.clone(), t)); vf.push((dn, v)); len += l;
                }
            }
        }
        (Sh::Comp(tf), Sh::Comp(vf), len)
    }
}

/// mutate a well-formed value shape into an arbitrary one (for msg_wr / msg_rd)
fn perturb(r: &mut Rng, s: &Sh) -> Sh {
    match s {
        Sh::Dyn(m, OptFn::Size(f, a, b, c)) if r.chance(1, 2) => { let c2 = c + r.below(70000) as usize; if r.chance(1, 2) { Sh::Dyn(m.clone(), OptFn::Size(f.clone(), *a, *b, c2)) } else { Sh::Dyn(m.clone(), OptFn::SizeSat(f.clone(), *a, *b, c2)) } }
        Sh::Dyn(m, f) => Sh::Dyn(Box::new(perturb(r, m)), f.clone()),
        Sh::U16(le, _) if r.chance(1, 2) => Sh::U16(*le, r.next() as u16 % 12),
        Sh::Comp(fs) => Sh::Comp(fs.iter().map(|(n, m)| (n.clone(), perturb(r, m))).collect()),
        Sh::Trame(ms) => Sh::Trame(ms.iter().map(|m| perturb(r, m)).collect()),
        Sh::Opt(Some(m)) => Sh::Opt(Some(Box::new(perturb(r, m)))),
        other => other.clone(),
    }
}

/// a random well-formed message value in the shape language
pub fn gen_value(r: &mut Rng, depth: u32) -> String { let mut g = G { r, names: 0 }; let (_, v, _) = g.gen(depth, true); v.show() }

pub fn generate(thorough: bool, seed: u64, part: (usize, usize), em: &mut Emitter) {
    let mut r = Rng::new(seed ^ 0xC18);
    crate::props::per::generate_roundtrips(thorough, &mut r, part, em);
    if part.0 == 0 { crate::props::per::generate_hostile(false, &mut r, em); crate::props::c05::conforming_channel_lists(em); }
    let n = if thorough { 60000 } else { 6000 };
    for _ in 0..n {
        let depth = r.range(0, 3) as u32;
        let (t, v, len) = { let mut g = G { r: &mut r, names: 0 }; g.gen(depth, true) };
        let _ = len;
        emit(em, format!("msg_rt {} {}", t.show(), v.show()));
        emit(em, format!("msg_wr {}", v.show()));
        // arbitrary (mostly malformed) reads into the same template
        let bytes = {
            let m = shape::build(&v);
            let mut c = Cursor::new(Vec::new());
            let _ = std::panic::catch_unwind(std::panic::AssertUnwindSafe(|| m.write(&mut c)));
            c.into_inner()
        };
        let mut b = bytes.clone();
        match r.below(5) {
            0 => { let k = r.below(b.len() as u64 + 1) as usize; b.truncate(k); }
            1 => { let k = r.below(4) as usize; b.extend(r.bytes(k)); }
            2 => { if !b.is_empty() { let i = r.below(b.len() as u64) as usize; b[i] = r.byte(); } }
            3 => { let k = r.below(10) as usize; b = r.bytes(k); }
            _ => { if !b.is_empty() { let i = r.below(b.len() as u64) as usize; b[i] ^= 1 << r.below(8); } }
        }
        emit(em, format!("msg_rd {} {}", t.show(), hex(&b)));
        if r.chance(1, 3) {
            let p = perturb(&mut r, &v);
            emit(em, format!("msg_wr {}", p.show()));
            let pt = perturb(&mut r, &t);
            emit(em, format!("msg_rd {} {}", pt.show(), hex(&bytes)));
        }
    }
}
