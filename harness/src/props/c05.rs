//! C05 (hostile bytes during connection setup) and C02 (protocol selection): the real
//! x224::Client::connect, mcs::Client::connect, sec::connect, gcc / license readers.
use crate::common::*;
use crate::io::Pipe;
use crate::refsrv::{self, SrvParams};
use rdp::core::{gcc, license, mcs, sec, tpkt, x224};
use rdp::core::gcc::KeyboardLayout;
use rdp::model::link::{Link, Stream};
use rdp::nla::asn1::{from_ber, ASN1Type, Enumerate, ImplicitTag, Integer, OctetString, Sequence};
use rdp::nla::ntlm::Ntlm;
use std::cell::RefCell;
use std::io::Cursor;
use std::panic::{catch_unwind, AssertUnwindSafe};
use std::rc::Rc;
use yasna::Tag;

fn record(em: &mut Emitter, line: String, obs: Obs) { em.case(&line, move || obs); }
fn guarded<F: FnOnce() -> Obs>(f: F) -> Obs {
    crate::alloc_count::reset();
    let o = match catch_unwind(AssertUnwindSafe(f)) { Ok(o) => o, Err(_) => Obs::new("P".into()).viol("panic").tag("panic") };
    // memory in proportion to the bytes received: the inputs of these cases are below 70 KiB
    let peak = crate::alloc_count::max();
    if peak > (4 << 20) { o.viol(&format!("allocation request of {} bytes", peak)) } else { o }
}

/// what yasna makes of a connect-response (the BER layer is observed, not modelled)
pub fn ber_userdata(payload: &[u8]) -> String {
    let r = catch_unwind(AssertUnwindSafe(|| {
        let mut dp = Sequence::new();
        for n in &["maxChannelIds", "maxUserIds", "maxTokenIds", "numPriorities", "minThoughput", "maxHeight", "maxMCSPDUsize", "protocolVersion"] { dp.insert(n.to_string(), Box::new(0 as Integer)); }
        let mut seq = Sequence::new();
        seq.insert("result".to_string(), Box::new(0 as Enumerate));
        seq.insert("calledConnectId".to_string(), Box::new(0 as Integer));
        seq.insert("domainParameters".to_string(), Box::new(dp));
        seq.insert("userData".to_string(), Box::new(Vec::new() as OctetString));
        let mut cr = ImplicitTag::new(Tag::application(102), seq);
        match from_ber(&mut cr, payload) {
            Ok(()) => match cr.inner["userData"].visit() { ASN1Type::OctetString(o) => hex(o), _ => "E".to_string() },
            Err(_) => "E".to_string(),
        }
    }));
    r.unwrap_or_else(|_| "P".to_string())
}

pub fn run_case(toks: &[&str], em: &mut Emitter) {
    let t: Vec<String> = toks.iter().map(|s| s.to_string()).collect();
    em.alloc_limit = 1 << 20;
    watch_begin(&t.join(" "));
    match t[0].as_str() {
        "x224_stream" => {
            // the server's bytes as they come off the wire (possibly a cut or over-long frame, then end of stream)
            let offered: u32 = t[1].parse().unwrap(); let auth = t[2] == "1"; let stream = unhex(&t[3]);
            let line = t.join(" ");
            // a fifth token: the server goes silent instead of closing (reads then fail with WouldBlock `w` / TimedOut `t`),
            // and the bytes arrive one per read
            let stall = t.get(4).cloned();
            let obs = guarded(|| {
                let pipe = match stall.as_deref() { Some("w") => { let p = Pipe::new(stream, vec![]).with_stall(std::io::ErrorKind::WouldBlock); p.0.borrow_mut().rcap = 1; p }
                    Some("t") => Pipe::new(stream, vec![]).with_stall(std::io::ErrorKind::TimedOut), _ => Pipe::new(stream, vec![]) };
                let tp = tpkt::Client::new(Link::new(Stream::Raw(pipe.clone())));
                let mut ntlm = Ntlm::new("d".to_string(), "u".to_string(), "p".to_string());
                let r = if auth { x224::Client::connect(tp, offered, false, Some(&mut ntlm), false, false) } else { x224::Client::connect(tp, offered, false, None, false, false) };
                let written = pipe.written();
                let (frames, used) = refsrv::split_frames(&written);
                let after = &written[used..];
                let what = if frames.len() != 1 { "badreq" } else if after.is_empty() { "none" } else if after[0] == 0x16 { "tls" } else { "other" };
                match r {
                    Ok(_) => Obs::new(if after.is_empty() { "ok raw".to_string() } else { format!("ok {}", what) }).nt(true),
                    Err(_) => Obs::new(format!("E {}", what)).nt(what == "tls"),
                }
            });
            record(em, line, obs);
        }
        "x224_conn" => {
            let offered: u32 = t[1].parse().unwrap(); let auth = t[2] == "1"; let payload = unhex(&t[3]);
            let line = t.join(" ");
            let obs = guarded(|| {
                let pipe = Pipe::new(refsrv::tpkt_frame(&payload), vec![]);
                let tp = tpkt::Client::new(Link::new(Stream::Raw(pipe.clone())));
                let mut ntlm = Ntlm::new("d".to_string(), "u".to_string(), "p".to_string());
                let r = if auth { x224::Client::connect(tp, offered, false, Some(&mut ntlm), false, false) } else { x224::Client::connect(tp, offered, false, None, false, false) };
                let written = pipe.written();
                let (frames, used) = refsrv::split_frames(&written);
                let after = &written[used..];
                let what = if frames.len() != 1 { "badreq" } else if after.is_empty() { "none" } else if after[0] == 0x16 { "tls" } else { "other" };
                match r {
                    Ok(_) => Obs::new(if after.is_empty() { "ok raw".to_string() } else { format!("ok {}", what) }).nt(true),
                    Err(_) => Obs::new(format!("E {}", what)).nt(what == "tls"),
                }
            });
            record(em, line, obs);
        }
        "gcc_ccr" => {
            let b = unhex(&t[1]); let line = t.join(" ");
            let obs = guarded(|| match gcc::read_conference_create_response(&mut Cursor::new(b)) {
                Ok(sd) => {
                    let v = if sd.rdp_version == gcc::Version::RdpVersion { "v4" } else if sd.rdp_version == gcc::Version::RdpVersion5plus { "v5" } else { "unk" };
                    Obs::new(format!("ok ids={} ver={}", sd.channel_ids.iter().map(|x| x.to_string()).collect::<Vec<_>>().join(","), v)).nt(true)
                }
                Err(_) => Obs::new("E".into()),
            });
            record(em, line, obs);
        }
        "lic" => {
            let b = unhex(&t[1]); let line = t.join(" ");
            let obs = guarded(|| match license::client_connect(&mut Cursor::new(b)) { Ok(()) => Obs::new("ok".into()).nt(true), Err(_) => Obs::new("E".into()) });
            record(em, line, obs);
        }
        "mcs_conn" => {
            let get = |k: &str| -> Option<String> { t.iter().find(|x| x.starts_with(&format!("{}=", k))).map(|x| x[k.len() + 1..].to_string()) };
            let cr = unhex(&get("cr").unwrap()); let au = unhex(&get("au").unwrap()); let jm = get("jm").unwrap();
            let first = Rc::new(RefCell::new(0u16));
            let first2 = first.clone();
            let (cr2, au2, jm2) = (cr.clone(), au.clone(), jm.clone());
            let obs = guarded(move || {
                let pipe = Pipe::new(vec![], vec![]);
                let buf = Rc::new(RefCell::new(Vec::<u8>::new()));
                let joins = Rc::new(RefCell::new(0usize));
                pipe.set_responder(Box::new(move |new: &[u8]| {
                    let mut b = buf.borrow_mut(); b.extend_from_slice(new);
                    let (frames, used) = refsrv::split_frames(&b); b.drain(..used);
                    let mut ans = vec![];
                    for f in frames {
                        if f.len() < 8 { continue; }
                        let m = &f[7..];
                        if m[0] == 0x7f { ans.extend(refsrv::x224_data(&cr2)); continue; }
                        match m[0] >> 2 {
                            10 => ans.extend(refsrv::x224_data(&au2)),
                            14 => {
                                let mut j = joins.borrow_mut(); *j += 1;
                                if *j == 1 && m.len() >= 5 { *first2.borrow_mut() = ((m[3] as u16) << 8) | m[4] as u16; }
                                if *j == 1 && jm2 != "echo" { ans.extend(refsrv::x224_data(&unhex(&jm2[4..]))); }
                                else if m.len() >= 5 { ans.extend(refsrv::x224_data(&refsrv::cat(&[&[0x3e, 0x00], &m[1..5], &m[3..5]]))); }
                            }
                            _ => {}
                        }
                    }
                    ans
                }));
                let tp = tpkt::Client::new(Link::new(Stream::Raw(pipe.clone())));
                let x = x224::Client::verif_new(tp, x224::Protocols::ProtocolSSL);
                let mut m = mcs::Client::new(x);
                match m.connect("n".to_string(), 800, 600, KeyboardLayout::US) { Ok(()) => Obs::new(format!("ok uid={}", m.get_user_id())).nt(true), Err(_) => Obs::new("E".into()) }
            });
            let base: Vec<String> = t.iter().filter(|x| !x.starts_with("ber=") && !x.starts_with("first=")).cloned().collect();
            let line = format!("{} ber={} first={}", base.join(" "), ber_userdata(&cr), first.borrow());
            record(em, line, obs);
        }
        "sec_conn" => {
            let reply = unhex(&t[1]); let line = t.join(" ");
            let obs = guarded(move || {
                let p = SrvParams::default();
                let pipe = Pipe::new(vec![], vec![]);
                let log = Rc::new(RefCell::new(refsrv::SrvLog::default()));
                pipe.set_responder(refsrv::responder(p.clone(), log));
                let tp = tpkt::Client::new(Link::new(Stream::Raw(pipe.clone())));
                let x = x224::Client::verif_new(tp, x224::Protocols::ProtocolSSL);
                let mut m = mcs::Client::new(x);
                if m.connect("n".to_string(), 800, 600, KeyboardLayout::US).is_err() { return Obs::new("setup-failed".into()).viol("mcs setup failed"); }
                pipe.clear_responder();
                pipe.push_in(&refsrv::x224_data(&reply));
                match sec::connect(&mut m, &"d".to_string(), &"u".to_string(), &"p".to_string(), false) { Ok(()) => Obs::new("ok".into()).nt(true), Err(_) => Obs::new("E".into()) }
            });
            record(em, line, obs);
        }
        _ => {}
    }
    em.alloc_limit = 0;
}

pub fn emit(em: &mut Emitter, line: String) { let toks: Vec<&str> = line.split(' ').collect(); run_case(&toks, em); }

pub fn confirm(ty: u8, flags: u8, sel: u32) -> Vec<u8> { refsrv::cat(&[&[0x0e, 0xd0, 0, 0, 0, 0, 0, ty, flags, 8, 0], &refsrv::le32(sel)]) }

/// C02: every low-byte selected value x reply kinds x flag bytes x offered sets (exhaustive)
pub fn generate_c02(thorough: bool, seed: u64, _part: (usize, usize), em: &mut Emitter) {
    let mut r = Rng::new(seed ^ 0xC02);
    let offs: &[u32] = &[1, 3, 0, 2, 8, 11];
    for &off in offs { for auth in 0..2 { for ty in &[2u8, 3, 1, 0, 4, 0xff] { for fl in &[0u8, 1, 0x1f, 0xff] {
        let step = if *ty == 2 || thorough { 1 } else { 37 };
        for sel in (0..256u32).step_by(step) { emit(em, format!("x224_conn {} {} {}", off, auth, hex(&confirm(*ty, *fl, sel)))); }
    } } } }
    for &off in offs { for &sel in &[0x100u32, 0x101, 0x102, 0x10000, 0x80000001, 0xffffffff, 0x00000200, 0x01000000] {
        emit(em, format!("x224_conn {} 1 {}", off, hex(&confirm(2, 0, sel))));
    } }
    // certificate checking over real TLS (self-signed reference server): every combination
    for check in 0..2 { for nla in 0..2 { for ra in 0..2 { for &ssel in &[0u32, 1] {
        if nla == 0 && ssel == 0 && ra == 1 && check == 0 { continue; }
        crate::props::conn::tlsgate(em, check == 1, nla == 1, ra == 1, ssel);
        // the same with the certificate policy set before / between the protocol switches
        if check == 1 { for hist in &[4u8, 5] {
            crate::props::conn::BUILDER_HIST.store(*hist, std::sync::atomic::Ordering::Relaxed);
            crate::props::conn::tlsgate(em, true, nla == 1, ra == 1, ssel);
            crate::props::conn::BUILDER_HIST.store(0, std::sync::atomic::Ordering::Relaxed);
        } }
    } } } }
    // plain RDP security selected although TLS / NLA was asked for, by a server that then speaks in the clear
    for nla in 0..2 { crate::props::conn::tlsgate(em, false, nla == 1, false, 0x100); }
    // a confirm without any negotiation response (a pre-negotiation server), which then speaks in the clear
    for nla in 0..2 { for ra in 0..2 { crate::props::conn::tlsgate(em, false, nla == 1, ra == 1, 0x200); } }
    // the flag byte of the negotiation response (EXTENDED_CLIENT_DATA, RESTRICTED_ADMIN_MODE_SUPPORTED, ...) does not
    // change which protocol runs: the one selected, which must be one of those offered
    for nla in 0..2 { for ra in 0..2 { for nf in &[0x08u32, 0x1f, 0x01] { crate::props::conn::tlsgate(em, false, nla == 1, ra == 1, 0x1000 | (nf << 16)); } } }
    // NLA selected and TLS established, but a CredSSP reply is not a TSRequest: the connection fails, MCS never starts
    for which in &[1u8, 2] { for junk in &["00", "3003020100", "ffffffff", ""] { crate::props::conn::nlagate(em, *which, junk); } }
    // absent / truncated / extended / random confirms
    let good = confirm(2, 0, 1);
    // ... and the same at stream level: the TPKT frame itself cut short or announcing more than arrives
    {
        let framed = refsrv::tpkt_frame(&good);
        for cut in 0..framed.len() { emit(em, format!("x224_stream 3 1 {}", hex(&framed[..cut]))); }
        for extra in &[1usize, 2, 100, 60000] { let mut f = framed.clone(); let n = f.len() + extra; f[2] = (n >> 8) as u8; f[3] = n as u8; emit(em, format!("x224_stream 3 1 {}", hex(&f))); }
        emit(em, format!("x224_stream 3 1 {}", hex(&framed)));
    }
    for cut in 0..=good.len() { emit(em, format!("x224_conn 3 1 {}", hex(&good[..cut]))); }
    for _ in 0..(if thorough { 20000 } else { 1500 }) {
        let mut b = good.clone();
        match r.below(4) { 0 => { let i = r.below(b.len() as u64) as usize; b[i] = r.byte(); } 1 => { let k = r.range(1, 5) as usize; b.extend(r.bytes(k)); } 2 => { let k = r.below(20) as usize; b = r.bytes(k); } _ => { let i = r.below(b.len() as u64) as usize; b[i] ^= 1 << r.below(8); } }
        emit(em, format!("x224_conn {} {} {}", r.pick(&[1u32, 3, 0, 2]), r.below(2), hex(&b)));
    }
}

pub fn generate_c05(thorough: bool, seed: u64, part: (usize, usize), em: &mut Emitter) {
    // whole connections in which the server refuses one or both channel joins (a legal reply): the
    // client goes on (or fails) without crashing
    if part.0 == 0 {
        for jrefuse in 1..=3u8 { for nla in &[false, true] {
            let cfg = crate::props::conn::Cfg { w: 800, h: 600, lay: 0x409, name: "rdp-rs".into(), dom: "d".into(), user: "u".into(), pw: "p".into(), hash: false, ra: false, blank: false, auto: false, nla: *nla, check: false };
            let srv = crate::props::conn::SrvCfg { sel: 0, id: 1, uid: 1004, version: 0x80004, license_new: false, share: 0x103ea, caps: crate::props::conn::default_caps(), source: vec![], chal_flags: 0x62898235, inputs: vec![], script: vec![], reactivate: None, reuse: 0, jrefuse, ber: 0 };
            let _ = crate::props::conn::emit(em, &cfg, &srv);
        } }
    }
    let mut r = Rng::new(seed ^ 0xC05);
    if part.0 == 0 { crate::props::per::generate_hostile(thorough, &mut r, em); }
    let p = SrvParams::default();
    let fault_vals: &[u8] = if thorough { &[0, 1, 2, 3, 4, 5, 7, 8, 0x7f, 0x80, 0x81, 0xfe, 0xff] } else { &[0, 1, 3, 5, 0x80, 0xff] };
    // --- X.224 confirm
    let good = confirm(2, 0, 1);
    for off in 0..good.len() { for v in fault_vals { let mut b = good.clone(); b[off] = *v; emit(em, format!("x224_conn 3 {} {}", r.below(2), hex(&b))); } }
    for cut in 0..good.len() { emit(em, format!("x224_conn 3 1 {}", hex(&good[..cut]))); }
    // every offer (none at all — standard RDP security only — included) against every selection, with and without an
    // authentication protocol at hand: a value or an error
    for off in &[0u32, 1, 2, 3, 8, 9, 11, 0x80000000] { for auth in 0..2 { for sel in &[0u32, 1, 2, 3, 4, 8, 16, 0x80000000] {
        emit(em, format!("x224_conn {} {} {}", off, auth, hex(&confirm(2, 0, *sel))));
    } } }
    // every negotiation-failure code (and the other reply types) over the whole low byte and above
    for ty in &[3u8, 1, 0, 4, 0xff] { for code in (0..=255u32).chain([256u32, 0xffff, 0x7fffffff, 0xffffffff].iter().cloned()) { emit(em, format!("x224_conn 3 1 {}", hex(&confirm(*ty, 0, code)))); } }
    {
        // the frame itself cut short / announcing more than arrives, then end of stream
        let framed = refsrv::tpkt_frame(&good);
        for cut in 0..framed.len() { emit(em, format!("x224_stream 3 1 {}", hex(&framed[..cut]))); }
        for extra in &[1usize, 2, 100, 60000] { let mut f = framed.clone(); let n = f.len() + extra; f[2] = (n >> 8) as u8; f[3] = n as u8; emit(em, format!("x224_stream 3 1 {}", hex(&f))); }
        // the same cuts on a transport with a read timeout: the server stalls, the read fails, the connect must fail
        for cut in 0..framed.len() { for k in &["w", "t"] { emit(em, format!("x224_stream 3 1 {} {}", if cut == 0 { "-".to_string() } else { hex(&framed[..cut]) }, k)); } }
    }
    // the first answer as a stream, to clients that offered no protocol at all / a single one: empty and short frames, a
    // confirm without negotiation response, a complete confirm
    for off in &[0u32, 1, 2] { for auth in 0..2 { for st in &["03000004", "0300000506", "030000060600", "0300000b06d00000000000", "0300000b06d0000000", "0300001306d00000000000020008000000000000", "0300001306d00000000000020008000100000000", "0300000702f08000"] {
        emit(em, format!("x224_stream {} {} {}", off, auth, st));
    } } }
    // slow-path frames shorter than the X.224 data header (TPKT length 4..6), or with a damaged header, where the MCS
    // connect response / attach confirm / join confirm / licence is expected: an error, never a panic
    {
        let follow = refsrv::x224_data(&[0xaa, 0xbb]);
        for len in 4..=10usize { for fill in &[0x00u8, 0x02, 0xf0, 0xff] { for tail in &[vec![], follow.clone()] {
            let mut d = vec![3u8, 0, 0, len as u8];
            let body: Vec<u8> = match *fill { 0x02 => [2u8, 0xf0, 0x80, 1, 2, 3].iter().cloned().take(len - 4).collect(), f => vec![f; len - 4] };
            d.extend(body); d.extend_from_slice(tail);
            for k in &["-", "0,0,0,0,0,0,0,0,0,0,0,0"] {
                let line = format!("x224_read 2 {} {}", hex(&d), k);
                let toks: Vec<&str> = line.split(' ').collect(); crate::props::c13::run_case(&toks, em);
            }
        } } }
    }
    // SC_SECURITY blocks carrying the optional serverRandomLen / serverCertLen (and data) with any values,
    // SC_CORE / SC_NET blocks longer than the client needs: parsed or refused, without allocating what they announce
    for extra in &[vec![], vec![0xffu8, 0xff, 0xff, 0xff], vec![0, 0, 0, 0x80, 0xf0, 0xff, 0xff, 0xff], vec![0x20, 0, 0, 0, 0x10, 0, 0, 0], vec![0xff, 0xff, 0xff, 0x7f, 0xff, 0xff, 0xff, 0x7f, 1, 2, 3, 4],
                   vec![0x00, 0x00, 0x00, 0x10, 0x00, 0x00, 0x00, 0x10]] {
        for (m, l) in &[(0u32, 0u32), (2, 2), (0xffffffff, 0xffffffff)] {
            let sec = refsrv::cat(&[&refsrv::le32(*m), &refsrv::le32(*l), extra]);
            let blocks = refsrv::cat(&[&[0x01, 0x0c, 0x0c, 0x00], &refsrv::le32(0x80004), &refsrv::le32(1),
                &[0x02, 0x0c], &refsrv::le16((sec.len() + 4) as u16), &sec, &[0x03, 0x0c, 0x08, 0x00, 0xeb, 0x03, 0x00, 0x00]]);
            let tail = refsrv::cat(&[&[0x14, 0x76, 0x0a, 0x01, 0x01, 0x00, 0x01, 0xc0, 0x00], b"McDn", &refsrv::perlen(blocks.len()), &blocks]);
            emit(em, format!("gcc_ccr {}", hex(&refsrv::cat(&[&[0x00, 0x05, 0x00, 0x14, 0x7c, 0x00, 0x01], &refsrv::perlen(tail.len()), &tail]))));
        }
    }
    // protocols the client does not implement, selected although (or because) a neighbouring one was offered
    for &off in &[3u32, 1, 2, 11, 8] { for &sel in &[8u32, 9, 10, 11, 4, 16, 3, 0x0a] { for auth in 0..2 {
        emit(em, format!("x224_conn {} {} {}", off, auth, hex(&confirm(2, 0, sel))));
    } } }
    // every short frame header the server can open with: slow-path and fast-path actions, both fast-path
    // length forms at their minimal values, then end of stream
    for b0 in &[0x00u8, 0x03, 0x04, 0x40, 0x80, 0xc3] { for b1 in &[0u8, 1, 2, 3, 4, 5, 0x7f, 0x80, 0x81, 0x82, 0x83, 0x84, 0xff] { for b2 in &[0u8, 1, 2, 3, 4, 5, 0x7f, 0x80, 0xff] {
        emit(em, format!("x224_stream 3 1 {}", hex(&[*b0, *b1, *b2])));
        for b3 in &[0u8, 4, 7] { emit(em, format!("x224_stream 3 1 {}", hex(&[*b0, *b1, *b2, *b3]))); }
    } } }
    // --- GCC conference create response: every byte faulted, truncations, block-level attacks
    let gcc_good = refsrv::gcc_response(&p);
    for off in 0..gcc_good.len() { for v in fault_vals { let mut b = gcc_good.clone(); b[off] = *v; emit(em, format!("gcc_ccr {}", hex(&b))); } }
    for cut in 0..gcc_good.len() { emit(em, format!("gcc_ccr {}", hex(&gcc_good[..cut]))); }
    conforming_channel_lists(em);
    let head = &gcc_good[..23];
    let blocks: Vec<Vec<u8>> = vec![
        refsrv::cat(&[&[0x01, 0x0c, 0x0c, 0x00], &refsrv::le32(0x00080004), &refsrv::le32(1)]),
        refsrv::cat(&[&[0x01, 0x0c, 0x08, 0x00], &refsrv::le32(0x00080001)]),
        vec![0x02, 0x0c, 0x0c, 0x00, 0, 0, 0, 0, 0, 0, 0, 0],
        vec![0x03, 0x0c, 0x08, 0x00, 0xeb, 0x03, 0x00, 0x00],
        vec![0x03, 0x0c, 0x0c, 0x00, 0xeb, 0x03, 0x02, 0x00, 0xec, 0x03, 0xed, 0x03],
        vec![0x03, 0x0c, 0x08, 0x00, 0xec, 0x03, 0x00, 0x00],
        vec![0x03, 0x0c, 0x0a, 0x00, 0xeb, 0x03, 0x05, 0x00, 1, 2],
        vec![0x04, 0x0c, 0x04, 0x00], vec![0x01, 0x0c, 0x03, 0x00], vec![0x01, 0x0c, 0x00, 0x00], vec![0x03, 0x0c, 0xff, 0xff], vec![0x01, 0x0c, 0x04, 0x00],
        vec![0x77, 0x77, 0x06, 0x00, 1, 2],
    ];
    let nblk = if thorough { 20000 } else { 2500 };
    for _ in 0..nblk {
        let k = r.below(5) as usize; let mut body = vec![];
        for _ in 0..k { body.extend(r.pick(&blocks).clone()); }
        if r.chance(1, 6) { let n = r.below(4) as usize; body.extend(r.bytes(n)); }
        let declared = if r.chance(1, 5) { r.below(body.len() as u64 + 6) as usize } else { body.len() };
        emit(em, format!("gcc_ccr {}", hex(&refsrv::cat(&[&head[..head.len()], &refsrv::perlen(declared), &body]))));
    }
    // --- licence
    let lic_good = refsrv::license_valid(&p)[4..].to_vec();
    for off in 0..lic_good.len() { for v in fault_vals { let mut b = lic_good.clone(); b[off] = *v; emit(em, format!("lic {}", hex(&b))); } }
    for cut in 0..lic_good.len() { emit(em, format!("lic {}", hex(&lic_good[..cut]))); }
    for ty in 0..=255u8 { for sz in &[0u16, 3, 4, 5, 16, 20, 0xffff] { emit(em, format!("lic {}", hex(&refsrv::cat(&[&[ty, 3], &refsrv::le16(*sz), &refsrv::le32(7), &refsrv::le32(2), &[4, 0, 0, 0]])))); } }
    for code in 0..16u32 { for tr in 0..6u32 { emit(em, format!("lic {}", hex(&refsrv::cat(&[&[0xff, 3, 0x10, 0], &refsrv::le32(code), &refsrv::le32(tr), &[4, 0, 0, 0]])))); } }
    // --- sec::connect: security header + licence through the MCS layer
    let sec_good = { let f = refsrv::mcs_sdin(1003, &refsrv::license_valid(&p)); f[7..].to_vec() };
    for off in 0..sec_good.len() { for v in fault_vals { let mut b = sec_good.clone(); b[off] = *v; emit(em, format!("sec_conn {}", hex(&b))); } }
    for cut in 0..sec_good.len() { emit(em, format!("sec_conn {}", hex(&sec_good[..cut]))); }
    // --- mcs::Client::connect: connect response (BER + GCC), attach confirm, join confirm
    let cr_good = { let f = refsrv::connect_response(&p); f[7..].to_vec() };
    let au_good = vec![0x2e, 0x00, 0x00, 0x03];
    let step = if thorough { 1 } else { 3 };
    for off in (0..cr_good.len()).step_by(step) { for v in &[0u8, 0x7f, 0x80, 0xff] { let mut b = cr_good.clone(); b[off] = *v; emit(em, format!("mcs_conn cr={} au={} jm=echo", hex(&b), hex(&au_good))); } }
    for cut in (0..cr_good.len()).step_by(step) { emit(em, format!("mcs_conn cr={} au={} jm=echo", hex(&cr_good[..cut]), hex(&au_good))); }
    for a in 0..=255u8 { for tail in &[vec![], vec![0u8], vec![0, 0], vec![0, 0, 3], vec![0, 0xfc, 0x16], vec![0, 0xfc, 0x17], vec![0, 0xff, 0xff], vec![1, 0, 3]] {
        if !thorough && a % 5 != 0 && a != 0x2e && a != 0x2f { continue; }
        emit(em, format!("mcs_conn cr={} au={} jm=echo", hex(&cr_good), hex(&refsrv::cat(&[&[a], tail]))));
    } }
    for a in 0..=255u8 { for tail in &[vec![], vec![0u8, 0, 3], vec![0u8, 0, 3, 3, 0xeb, 3, 0xeb], vec![0u8, 0, 3, 3, 0xec, 3, 0xec], vec![0u8, 0xff, 0xff, 0xff, 0xff, 0, 0], vec![1u8, 0, 3, 3, 0xeb, 3, 0xeb]] {
        if !thorough && a % 5 != 0 && a != 0x3e && a != 0x3f { continue; }
        emit(em, format!("mcs_conn cr={} au={} jm=raw:{}", hex(&cr_good), hex(&au_good), hex(&refsrv::cat(&[&[a], tail]))));
    } }
}

/// conforming responses announcing 0..=5 static channels (odd counts carry the 2-byte pad),
/// three reported versions
pub fn conforming_channel_lists(em: &mut Emitter) {
    for n in 0..=5usize { for &ver in &[0x00080004u32, 0x00080001, 0x00080005] { for pad in &[true, false] {
        let p = SrvParams { version: ver, ..Default::default() };
        let ids: Vec<u16> = (0..n).map(|i| 1004 + i as u16).collect();
        emit(em, format!("gcc_ccr {}", hex(&refsrv::gcc_response_channels(&p, &ids, *pad))));
    } } }
    // channel ids the server may put in its array: 0 (not allocated), repeated, maximal — the list is reported as sent
    for ids in &[vec![1004u16, 0, 1006], vec![0], vec![0, 0], vec![65535, 1004, 1004, 0]] { for pad in &[true, false] {
        emit(em, format!("gcc_ccr {}", hex(&refsrv::gcc_response_channels(&SrvParams::default(), ids, *pad))));
    } }
    // the blocks in every order (the order is free), with blocks longer than the client's templates in front of others:
    // a net block with an odd channel count (2 bytes of padding), a 16-byte core block, a security block with random and certificate
    {
        let core = refsrv::cat(&[&[0x01u8, 0x0c, 0x10, 0x00], &refsrv::le32(0x00080004), &refsrv::le32(1), &refsrv::le32(0)]);
        let sec_plain = vec![0x02u8, 0x0c, 0x0c, 0x00, 0, 0, 0, 0, 0, 0, 0, 0];
        let sec_rnd = refsrv::cat(&[&[0x02u8, 0x0c, 0x3c, 0x00], &refsrv::le32(2), &refsrv::le32(2), &refsrv::le32(32), &refsrv::le32(8), &[0x5au8; 32], &[1, 0, 0, 0, 2, 0, 0, 0]]);
        let net_odd = refsrv::cat(&[&[0x03u8, 0x0c, 0x0c, 0x00, 0xeb, 0x03, 0x01, 0x00, 0xec, 0x03, 0x00, 0x00]]);
        let net3 = refsrv::cat(&[&[0x03u8, 0x0c, 0x10, 0x00, 0xeb, 0x03, 0x03, 0x00, 0xec, 0x03, 0xed, 0x03, 0xee, 0x03, 0x00, 0x00]]);
        for sec in &[&sec_plain, &sec_rnd] { for net in &[&net_odd, &net3] {
            let bl: [&Vec<u8>; 3] = [&core, sec, net];
            for perm in &[[0usize, 1, 2], [0, 2, 1], [1, 0, 2], [1, 2, 0], [2, 0, 1], [2, 1, 0]] {
                let blocks = refsrv::cat(&[bl[perm[0]], bl[perm[1]], bl[perm[2]]]);
                let tail = refsrv::cat(&[&[0x14, 0x76, 0x0a, 0x01, 0x01, 0x00, 0x01, 0xc0, 0x00], b"McDn", &refsrv::perlen(blocks.len()), &blocks]);
                emit(em, format!("gcc_ccr {}", hex(&refsrv::cat(&[&[0x00, 0x05, 0x00, 0x14, 0x7c, 0x00, 0x01], &refsrv::perlen(tail.len()), &tail]))));
            }
        } }
    }
    // the three conforming sizes of the server core block: version only / + requested protocol / + early capability flags
    for &ver in &[0x00080004u32, 0x00080001, 0x00080005] { for extra in 0..3usize {
        let mut core = refsrv::cat(&[&[0x01, 0x0c, (8 + 4 * extra) as u8, 0x00], &refsrv::le32(ver)]);
        for k in 0..extra { core.extend(refsrv::le32(k as u32 + 1)); }
        let blocks = refsrv::cat(&[&core, &[0x02, 0x0c, 0x0c, 0x00, 0, 0, 0, 0, 0, 0, 0, 0], &[0x03, 0x0c, 0x08, 0x00, 0xeb, 0x03, 0x00, 0x00]]);
        let tail = refsrv::cat(&[&[0x14, 0x76, 0x0a, 0x01, 0x01, 0x00, 0x01, 0xc0, 0x00], b"McDn", &refsrv::perlen(blocks.len()), &blocks]);
        emit(em, format!("gcc_ccr {}", hex(&refsrv::cat(&[&[0x00, 0x05, 0x00, 0x14, 0x7c, 0x00, 0x01], &refsrv::perlen(tail.len()), &tail]))));
    } }
}
