//! C13 — inbound deframing under arbitrary fragmentation: real tpkt::Client::read /
//! x224::Client::read over a chunked in-memory transport.
use crate::common::*;
use crate::io::Pipe;
use rdp::core::tpkt;
use rdp::core::x224;
use rdp::model::link::{Link, Stream};

fn show(p: tpkt::Payload) -> String {
    match p {
        tpkt::Payload::Raw(c) => {
            let pos = c.position() as usize;
            let v = c.into_inner();
            format!("R:{}", hex(&v[pos..]))
        }
        tpkt::Payload::FastPath(f, c) => {
            let pos = c.position() as usize;
            let v = c.into_inner();
            format!("F{}:{}", f, hex(&v[pos..]))
        }
    }
}

/// the same deframer over the TLS arm of `Stream`: a real TLS connection whose server writes
/// the byte stream cut into TLS records at the given offsets (a frame or a header may span
/// several records), then closes
fn run_tls(toks: &[&str], em: &mut Emitter) {
    use std::io::Write;
    let line = toks.join(" ");
    let k: usize = toks[1].parse().unwrap();
    let data = unhex(toks[2]);
    let mut cuts = parse_nat_list(toks[3]);
    cuts.retain(|c| *c > 0 && *c < data.len()); cuts.sort(); cuts.dedup(); cuts.push(data.len());
    let (a, b) = std::os::unix::net::UnixStream::pair().expect("socketpair");
    a.set_read_timeout(Some(std::time::Duration::from_secs(3))).ok();
    let d2 = data.clone();
    let th = std::thread::spawn(move || {
        let (ident, _) = crate::nlasrv::identity(1);
        let acc = native_tls::TlsAcceptor::new(ident).unwrap();
        if let Ok(mut tls) = acc.accept(b) {
            let mut prev = 0;
            for c in cuts { if c > prev { let _ = tls.write_all(&d2[prev..c]); let _ = tls.flush(); std::thread::sleep(std::time::Duration::from_millis(2)); } prev = c; }
            std::thread::sleep(std::time::Duration::from_millis(20));
            let _ = tls.shutdown();
        }
    });
    let res = std::panic::catch_unwind(std::panic::AssertUnwindSafe(move || {
        let mut items: Vec<String> = vec![];
        let link = match Link::new(Stream::Raw(a)).start_ssl(false) { Ok(l) => l, Err(_) => return (items, false, true) };
        let mut t = tpkt::Client::new(link);
        let mut ok = true;
        for _ in 0..k { match t.read() { Ok(p) => items.push(show(p)), Err(_) => { ok = false; break; } } }
        (items, ok, false)
    }));
    let _ = th.join();
    let obs = match res {
        Ok((mut items, ok, setup_failed)) => { let nt = !items.is_empty(); items.push(if ok { "ok".into() } else { "E".to_string() }); let o = Obs::new(items.join(";")).nt(nt); if setup_failed { o.viol("TLS setup failed") } else { o } }
        Err(_) => Obs::new("P".into()).viol("panic").tag("panic"),
    };
    em.case(&line, move || obs);
}

/// reference walk over the stream: where the header of the first frame whose declared length is
/// shorter than its own header ends (nothing beyond that point belongs to the rejected frame)
fn first_undersized_end(d: &[u8]) -> Option<usize> {
    let mut off = 0usize;
    loop {
        if off + 2 > d.len() { return None; }
        let (n, hdr) = if d[off] == 3 { if off + 4 > d.len() { return None; } (((d[off + 2] as usize) << 8) | d[off + 3] as usize, 4) }
            else if d[off + 1] & 0x80 != 0 { if off + 3 > d.len() { return None; } ((((d[off + 1] & 0x7f) as usize) << 8) | d[off + 2] as usize, 3) }
            else { (d[off + 1] as usize, 2) };
        if n < hdr { return Some(off + hdr); }
        if off + n > d.len() { return None; }
        off += n;
    }
}

pub fn run_case(toks: &[&str], em: &mut Emitter) {
    if toks[0] == "tpkt_tls" { return run_tls(toks, em); }
    let line = toks.join(" ");
    let op = toks[0].to_string();
    let k: usize = toks[1].parse().unwrap();
    let data = unhex(toks[2]);
    let sched = parse_nat_list(toks[3]);
    em.case(&line, move || {
        let pipe = Pipe::new(data, sched);
        let t = tpkt::Client::new(Link::new(Stream::Raw(pipe.clone())));
        let mut items: Vec<String> = vec![];
        let mut ok = true;
        if op == "x224_read" || op == "x224_read_rdp" {
            // (`_rdp`: the client negotiated standard RDP security — deframing does not depend on it)
            let mut x = x224::Client::verif_new(t, if op == "x224_read_rdp" { x224::Protocols::ProtocolRDP } else { x224::Protocols::ProtocolSSL });
            for _ in 0..k {
                match x.read() { Ok(p) => items.push(show(p)), Err(_) => { ok = false; break; } }
            }
        } else {
            let mut t = t;
            for _ in 0..k {
                match t.read() { Ok(p) => items.push(show(p)), Err(_) => { ok = false; break; } }
            }
        }
        let nontrivial = !items.is_empty();
        let total = pipe.0.borrow().inbox.len();
        let consumed = total - pipe.left().len();
        if ok { items.push(format!("left={}", hex(&pipe.left()))); } else { items.push("E".to_string()); }
        let mut o = Obs::new(items.join(";")).nt(nontrivial);
        // a refused under-sized frame: not one byte beyond its header may have been taken from the stream
        if !ok { if let Some(end) = first_undersized_end(&pipe.0.borrow().inbox) { if consumed > end { o = o.viol(&format!("{} bytes consumed although the rejected frame's header ends at {}", consumed, end)); } } }
        o
    });
}

fn enc_slow(p: &[u8], reserved: u8) -> Vec<u8> {
    let n = p.len() + 4;
    let mut v = vec![3, reserved, (n >> 8) as u8, (n & 0xff) as u8];
    v.extend_from_slice(p);
    v
}
fn enc_fast_short(a: u8, p: &[u8]) -> Vec<u8> {
    let mut v = vec![a, (p.len() + 2) as u8];
    v.extend_from_slice(p);
    v
}
fn enc_fast_long(a: u8, p: &[u8]) -> Vec<u8> {
    let n = p.len() + 3;
    let mut v = vec![a, 0x80 | (n >> 8) as u8, (n & 0xff) as u8];
    v.extend_from_slice(p);
    v
}

fn action(r: &mut Rng) -> u8 {
    loop { let a = if r.chance(1, 2) { *r.pick(&[0u8, 0x40, 0x80, 0xc0, 0x01, 0xff, 0x02, 0x04]) } else { r.byte() }; if a != 3 { return a; } }
}

fn gen_frame(r: &mut Rng, x224: bool, big: bool) -> Vec<u8> {
    let kind = r.below(3);
    match kind {
        0 => {
            let lens: &[usize] = if big { &[0, 1, 2, 3, 5, 124, 125, 126, 127, 128, 252, 255, 256, 1000, 1496, 1500, 1501, 4000, 65531] } else { &[0, 0, 1, 2, 3, 4, 5, 8, 16, 124, 125, 126, 127, 128, 252, 255, 256] };
            let n = *r.pick(lens);
            let mut p = vec![];
            if x224 { p.extend_from_slice(&[2, 0xf0, 0x80]); }
            let body = n.saturating_sub(p.len());
            p.extend(r.bytes(body));
            if !x224 { p.truncate(n); }
            enc_slow(&p, if r.chance(1, 8) { r.byte() } else { 0 })
        }
        1 => { let n = *r.pick(&[0usize, 0, 1, 2, 5, 16, 124, 125]); let a = action(r); let b = r.bytes(n); enc_fast_short(a, &b) }
        _ => {
            let lens: &[usize] = if big { &[0, 1, 2, 125, 126, 253, 254, 1000, 1497, 1500, 32764] } else { &[0, 0, 1, 2, 125, 126, 253, 254, 300] };
            let n = *r.pick(lens); let a = action(r); let b = r.bytes(n); enc_fast_long(a, &b)
        }
    }
}

fn gen_sched(r: &mut Rng, total: usize) -> Vec<usize> {
    match r.below(5) {
        0 => vec![],
        1 => vec![0; total + 8],                         // one byte at a time
        2 => (0..total + 8).map(|_| r.below(3) as usize).collect(),
        3 => (0..16).map(|_| r.below(8) as usize).collect(), // fragmented headers, then unbounded
        _ => (0..total / 2 + 4).map(|_| r.below(1600) as usize).collect(),
    }
}

fn emit(em: &mut Emitter, op: &str, k: usize, data: &[u8], sched: &[usize]) {
    let line = format!("{} {} {} {}", op, k, hex(data), nat_list(sched));
    let toks: Vec<&str> = line.split(' ').collect();
    run_case(&toks, em);
}

pub fn generate(thorough: bool, seed: u64, part: (usize, usize), em: &mut Emitter) {
    let mut r = Rng::new(seed ^ 0xC13);
    // 1. declared length shorter than the header (every value), with and without a following frame
    let follow = enc_slow(&[0xaa, 0xbb], 0);
    for len in (0..8usize).filter(|_| part.0 == 0) {
        for tail in &[vec![], follow.clone()] {
            let mut d = vec![3, 0, 0, len as u8]; d.extend_from_slice(tail);
            emit(em, "tpkt_read", 2, &d, &[]);
            emit(em, "tpkt_read", 2, &d, &[0; 16]);
            let mut d = vec![0, len as u8]; d.extend_from_slice(tail);
            emit(em, "tpkt_read", 2, &d, &[]);
            let mut d = vec![0, 0x80, len as u8]; d.extend_from_slice(tail);
            emit(em, "tpkt_read", 2, &d, &[0; 16]);
        }
    }
    // 1b. long runs of frames without payload (TPKT length 4, fast-path 2 and 3), alone and between non-empty fast-path
    //     frames: each is returned as an empty payload of its kind, however many came before
    if part.0 == 0 {
        for &(n, mix) in &[(17usize, 0usize), (40, 0), (40, 1), (40, 2), (64, 3)] {
            let mut data = vec![];
            for i in 0..n {
                match (i + mix) % 3 { 0 if mix != 1 => data.extend(enc_slow(&[], 0)), 1 if mix != 0 => data.extend(enc_fast_short(0, &[])), _ => data.extend(&[0x00u8, 0x80, 0x03]) }
                if mix >= 2 && i % 5 == 4 { data.extend(enc_fast_short((i % 4) as u8 * 0x40, &[i as u8, 1, 2])); }
            }
            let k = n + if mix >= 2 { n / 5 } else { 0 };
            emit(em, "tpkt_read", k, &data, &[]);
            emit(em, "tpkt_read", k, &data, &[1; 64]);
        }
    }
    // 1c. under standard RDP security: fast-path frames with every secFlags value and payloads of 0..9 bytes, both length forms
    if part.0 == 0 {
        for fl in 0..4u8 { for n in 0..10usize { for long in &[false, true] {
            let body: Vec<u8> = (0..n as u8).collect();
            let mut d = if *long { let l = n + 3; vec![fl << 6, 0x80 | (l >> 8) as u8, l as u8] } else { vec![fl << 6, (n + 2) as u8] };
            d.extend(&body); d.extend(enc_fast_short(0, &[7, 7]));
            emit(em, "x224_read_rdp", 2, &d, &[]);
            emit(em, "x224_read", 2, &d, &[1; 32]);
        } } }
    }
    // 2. structured frame sequences under schedules
    let n_struct = if thorough { 20000 } else { 1500 };
    for i in 0..n_struct {
        let x224 = r.chance(1, 3);
        let nframes = r.range(1, 4) as usize;
        let mut data = vec![];
        for _ in 0..nframes { data.extend(gen_frame(&mut r, x224, thorough || i % 50 == 0)); }
        if r.chance(1, 3) { let n = r.below(6) as usize; data.extend(r.bytes(n)); }
        let k = if r.chance(1, 4) { nframes + 1 } else { nframes };
        let op = if x224 { "x224_read" } else { "tpkt_read" };
        let sched = if data.len() > 5000 { if r.chance(1,2) { vec![] } else { (0..64).map(|_| r.below(1600) as usize).collect() } } else { gen_sched(&mut r, data.len()) };
        emit(em, op, k, &data, &sched);
    }
    // 2b. the same streams over the TLS arm, cut into TLS records anywhere (inside headers and bodies)
    if part.0 == 0 {
        let n_tls = if thorough { 1500 } else { 120 };
        for i in 0..n_tls {
            let nframes = r.range(1, 4) as usize;
            let mut data = vec![];
            for _ in 0..nframes { let mut f = gen_frame(&mut r, false, false); if f.len() > 600 { f = enc_slow(&r.bytes(20), 0); } data.extend(f); }
            let ncuts = match i % 4 { 0 => 0, 1 => 1, _ => r.range(1, 6) as usize };
            let cuts: Vec<usize> = (0..ncuts).map(|_| r.range(1, data.len() as u64) as usize).collect();
            emit(em, "tpkt_tls", nframes, &data, &cuts);
        }
        // a frame larger than one TLS record (16 KiB)
        let big = enc_slow(&(0..20000usize).map(|i| (i * 13) as u8).collect::<Vec<u8>>(), 0);
        emit(em, "tpkt_tls", 1, &big, &[]);
    }
    // 3. every truncation point of small valid streams
    let n_trunc = if thorough { 400 } else { 40 };
    for _ in 0..n_trunc {
        let mut data = vec![];
        for _ in 0..2 { let mut f = gen_frame(&mut r, false, false); f.truncate(40); data.extend(f); }
        for cut in 0..data.len().min(24) {
            emit(em, "tpkt_read", 2, &data[..cut], &[]);
        }
    }
    // 4. random bytes and all short strings
    let n_rand = if thorough { 20000 } else { 1500 };
    for _ in 0..n_rand {
        let n = r.below(12) as usize; let mut d = r.bytes(n);
        if !d.is_empty() && r.chance(1, 2) { d[0] = 3; }
        let op = if r.chance(1, 4) { "x224_read" } else { "tpkt_read" };
        emit(em, op, 2, &d, &gen_sched(&mut r, n));
    }
    for a in 0..=255u8 { for b in (0..=255u8).step_by(if thorough { 1 } else { 17 }) {
        emit(em, "tpkt_read", 1, &[a, b, 0, 4, 9], &[]);
    } }
    // 5. thorough: every TPKT length and every fast-path length, a second frame always following
    if thorough {
        let body: Vec<u8> = (0..65536usize).map(|i| (i * 7 + 3) as u8).collect();
        // every length up to 2300 and from 65000, and a stride in between (the frames are echoed in
        // hex into the case files: all 64 K lengths in full would be gigabytes)
        for len in (0..65536usize).filter(|l| l % part.1 == part.0 && (*l < 2300 || *l >= 65000 || *l % 37 == 0)) {
            let mut d = vec![3, 0, (len >> 8) as u8, (len & 0xff) as u8];
            d.extend_from_slice(&body[..len.saturating_sub(4)]);
            d.extend_from_slice(&follow);
            let sched: Vec<usize> = if len % 3 == 0 { vec![0; 8] } else if len % 3 == 1 { vec![] } else { vec![1, 0, 2, 0, 999] };
            emit(em, "tpkt_read", 2, &d, &sched);
        }
        for len in (0..32768usize).filter(|l| l % part.1 == part.0 && (*l < 2300 || *l >= 32500 || *l % 37 == 0)) {
            let mut d = vec![0x80, 0x80 | (len >> 8) as u8, (len & 0xff) as u8];
            d.extend_from_slice(&body[..len.saturating_sub(3)]);
            d.extend_from_slice(&follow);
            emit(em, "tpkt_read", 2, &d, &[0, 0, 0, 0]);
        }
        for len in 0..128usize {
            let mut d = vec![0x40, len as u8];
            d.extend_from_slice(&body[..len.saturating_sub(2)]);
            d.extend_from_slice(&follow);
            emit(em, "tpkt_read", 2, &d, &[0; 200]);
        }
    }
}
