//! C08 / C09 — BitmapEvent::decompress on every kind of input: totality and exact size
//! (implementation-side verdict), pixel exactness against the Lean reference decoders.
use crate::common::*;
use crate::props::c14::{parse_payload, show_out};
use rdp::core::event::BitmapEvent;

/// `decomp2 BPP HEX w1 h1 w2 h2`: the same compressed data decoded twice in a row, on the same thread, with two geometries
fn run_decomp2(toks: &[&str], em: &mut Emitter) {
    let line = toks.join(" ");
    let bpp: u16 = toks[1].parse().unwrap(); let data = parse_payload(toks[2]);
    let g: Vec<usize> = toks[3..7].iter().map(|x| x.parse().unwrap()).collect();
    em.case(&line, move || {
        let mut outs = vec![]; let mut viol: Option<String> = None; let mut any = false;
        for k in 0..2 {
            let (w, h) = (g[2 * k], g[2 * k + 1]);
            let ev = BitmapEvent { dest_left: 0, dest_top: 0, dest_right: 0, dest_bottom: 0, width: w as u16, height: h as u16, bpp, is_compress: true, data: data.clone() };
            match ev.decompress() {
                Ok(out) => { if out.len() != w * h * 4 { viol = Some(format!("decompress returned {} bytes for a {}x{} bitmap", out.len(), w, h)); } any = any || !out.is_empty(); outs.push(format!("ok {}", show_out(&out))); }
                Err(_) => outs.push("E".into()),
            }
        }
        let mut o = Obs::new(outs.join("|")).nt(any).tag("twice");
        if let Some(v) = viol { o = o.viol(&v); }
        o
    });
}

pub fn run_case(toks: &[&str], em: &mut Emitter) {
    if toks[0] == "decomp2" { return run_decomp2(toks, em); }
    let line = toks.join(" ");
    let w: usize = toks[1].parse().unwrap(); let h: usize = toks[2].parse().unwrap();
    let bpp: u16 = toks[3].parse().unwrap(); let c = toks[4] == "1";
    let data = parse_payload(toks[5]);
    em.alloc_limit = 4 * (w * h * 4) + 2 * data.len() + 65536;
    em.case(&line, move || {
        let ev = BitmapEvent { dest_left: 0, dest_top: 0, dest_right: 0, dest_bottom: 0, width: w as u16, height: h as u16, bpp, is_compress: c, data };
        // the buffers requested inside the call (requests of >= 256 bytes, summed): compared by
        // ./check with the model's allocation trace (`allocTrace`, theorems c08_alloc_*)
        crate::alloc_count::reset_sum();
        let res = ev.decompress();
        let am = crate::alloc_count::sum();
        match res {
            Ok(out) => {
                let mut o = Obs::new(format!("ok {} am={}", show_out(&out), am)).nt(!out.is_empty()).tag(if c { "compressed" } else { "raw" });
                if out.len() != w * h * 4 { o = o.viol(&format!("decompress returned {} bytes for a {}x{} bitmap (expected {})", out.len(), w, h, w * h * 4)); }
                o
            }
            Err(_) => Obs::new(format!("E am={}", am)),
        }
    });
    em.alloc_limit = 0;
}

fn emit(em: &mut Emitter, w: usize, h: usize, bpp: u16, c: bool, data: &[u8]) {
    let line = format!("decomp {} {} {} {} {}", w, h, bpp, if c { 1 } else { 0 }, hex(data));
    let toks: Vec<&str> = line.split(' ').collect();
    run_case(&toks, em);
}

fn le16(v: u16) -> [u8; 2] { v.to_le_bytes() }

/// a random interleaved-RLE order list; `split_first`: never let an order cross the end of
/// the first scanline (what a conformant encoder following the reference decoder does)
pub fn gen_rle16(r: &mut Rng, w: usize, h: usize, split_first: bool, exact: bool) -> Vec<u8> {
    let total = w * h;
    let mut out = vec![]; let mut done = 0usize;
    let mut guard = 0;
    while done < total && guard < 10000 {
        guard += 1;
        let mut max = total - done;
        if split_first && done < w { max = max.min(w - done); }
        if !exact && r.chance(1, 30) { max += r.below(5) as usize; }
        let kind = r.below(12);
        // run length for this order
        let want = match r.below(4) { 0 => 1, 1 => r.range(1, 9), 2 => r.range(1, 40), _ => r.range(1, 300) } as usize;
        let run = want.min(max).max(1);
        let px = |r: &mut Rng| -> u16 { *r.pick(&[0u16, 0xffff, 0xf800, 0x07e0, 0x001f, 0x1234, 0x8410]) ^ if r.chance(1, 4) { r.next() as u16 } else { 0 } };
        // regular header (5-bit), lite (4-bit) or mega-mega (16-bit) length forms
        let reg = |code: u8, run: usize, out: &mut Vec<u8>, r: &mut Rng| -> bool {
            if run < 32 && run > 0 && r.chance(2, 3) { out.push((code << 5) | run as u8); true }
            else if run >= 32 && run <= 32 + 255 && r.chance(2, 3) { out.push(code << 5); out.push((run - 32) as u8); true }
            else { false }
        };
        match kind {
            0 | 1 => { // background run
                if !reg(0, run, &mut out, r) { out.push(0xf0); out.extend(&le16(run as u16)); }
                done += run;
            }
            2 => { if !reg(1, run, &mut out, r) { out.push(0xf1); out.extend(&le16(run as u16)); } done += run; }
            3 => { // colour run
                if !reg(3, run, &mut out, r) { out.push(0xf3); out.extend(&le16(run as u16)); }
                out.extend(&le16(px(r))); done += run;
            }
            4 => { // colour image
                if !reg(4, run, &mut out, r) { out.push(0xf4); out.extend(&le16(run as u16)); }
                for _ in 0..run { out.extend(&le16(px(r))); } done += run;
            }
            5 => { // set-fg fg run (lite / mega)
                if run < 16 && r.chance(1, 2) { out.push(0xc0 | run as u8); } else if run >= 16 && run <= 16 + 255 && r.chance(1, 2) { out.push(0xc0); out.push((run - 16) as u8); } else { out.push(0xf6); out.extend(&le16(run as u16)); }
                out.extend(&le16(px(r))); done += run;
            }
            6 => { // dithered run: 2 pixels per count
                let pairs = (run / 2).max(1);
                if pairs * 2 > max { continue; }
                if pairs < 16 && r.chance(1, 2) { out.push(0xe0 | pairs as u8); } else { out.push(0xf8); out.extend(&le16(pairs as u16)); }
                out.extend(&le16(px(r))); out.extend(&le16(px(r))); done += pairs * 2;
            }
            7 | 8 => { // fg/bg image (regular / set variants): run pixels, ceil(run/8) mask bytes
                let set = kind == 8;
                if !set {
                    if run % 8 == 0 && run / 8 < 32 && r.chance(1, 2) { out.push(0x40 | (run / 8) as u8); }
                    else if run <= 256 && r.chance(1, 2) { out.push(0x40); out.push((run - 1) as u8); }
                    else { out.push(0xf2); out.extend(&le16(run as u16)); }
                } else {
                    if run % 8 == 0 && run / 8 < 16 && r.chance(1, 2) { out.push(0xd0 | (run / 8) as u8); }
                    else if run <= 256 && r.chance(1, 2) { out.push(0xd0); out.push((run - 1) as u8); }
                    else { out.push(0xf7); out.extend(&le16(run as u16)); }
                    out.extend(&le16(px(r)));
                }
                for _ in 0..(run + 7) / 8 { out.push(r.byte()); }
                done += run;
            }
            9 => { if max >= 8 { out.push(if r.chance(1, 2) { 0xf9 } else { 0xfa }); done += 8; } }
            10 => { out.push(0xfd); done += 1; }
            _ => { out.push(0xfe); done += 1; }
        }
    }
    out
}

/// a random planar (0x10 header) stream: per plane, per scanline, raw/run segments
pub fn gen_planar(r: &mut Rng, w: usize, h: usize, exact: bool) -> Vec<u8> {
    let mut out = vec![0x10u8];
    for _plane in 0..4 {
        for _row in 0..h {
            let mut x = 0usize;
            while x < w {
                let left = w - x;
                let raw = (r.below(5) as usize).min(left).min(15);
                let mut run = (match r.below(4) { 0 => 0, 1 => r.below(4), 2 => r.below(16), _ => r.below(48) } as usize).min(left - raw);
                if !exact && r.chance(1, 60) { run += r.below(4) as usize; }
                if raw == 0 && run == 0 { continue; }
                if run >= 16 && raw == 0 { // long-run forms: nRunLength = 1 (16..31) or 2 (32..47)
                    if run > 47 { run = 47; }
                    let (n, c) = if run < 32 { (1u8, (run - 16) as u8) } else { (2u8, (run - 32) as u8) };
                    out.push((c << 4) | n);
                } else {
                    if run >= 16 { run = 15; }
                    if run == 1 || run == 2 { if raw > 0 { run = 3.min(left - raw); if run < 3 { run = 0; } } else { run = 0; } }
                    if raw == 0 && run == 0 { continue; }
                    out.push(((raw as u8) << 4) | run as u8);
                    for _ in 0..raw { out.push(r.byte()); }
                }
                x += raw + run;
            }
        }
    }
    out
}

/// planar stream in which every scanline of every plane is `raw` literal bytes followed by
/// one long-form run (16..=47) — the run-length boundaries of MS-RDPEGDI 2.2.2.5.1.2
pub fn gen_planar_longrun(r: &mut Rng, raw: usize, run: usize, h: usize) -> Vec<u8> {
    let mut out = vec![0x10u8];
    let (n, c) = if run < 32 { (1u8, (run - 16) as u8) } else { (2u8, (run - 32) as u8) };
    for _plane in 0..4 {
        for _row in 0..h {
            if raw > 0 { out.push((raw as u8) << 4); for _ in 0..raw { out.push(r.byte()); } }
            out.push((c << 4) | n);
        }
    }
    out
}

pub fn generate(prop: &str, thorough: bool, seed: u64, part: (usize, usize), em: &mut Emitter) {
    let mut r = Rng::new(seed ^ 0xC08 ^ if prop == "C09" { 0x900 } else { 0 });
    let c09 = prop == "C09";
    let mut idx = 0usize;
    let gmax = if thorough { 4 } else { 3 };
    if !c09 {
        // 1. tiny geometries x depths x flag x all 0/1-byte strings and boundary 2-byte strings
        let second: Vec<u8> = vec![0, 1, 2, 3, 7, 8, 0x0f, 0x10, 0x1f, 0x20, 0x40, 0x7f, 0x80, 0xa0, 0xc0, 0xf0, 0xf8, 0xf9, 0xfb, 0xfd, 0xff];
        for w in 0..=gmax { for h in 0..=gmax { for &bpp in &[0u16, 8, 15, 16, 24, 32] { for c in 0..2 {
            idx += 1; if idx % part.1 != part.0 { continue; }
            emit(em, w, h, bpp, c == 1, &[]);
            if bpp != 16 && bpp != 32 { continue; }
            for a in 0..=255u8 { emit(em, w, h, bpp, c == 1, &[a]); }
            for a in (0..=255u8).step_by(if thorough { 1 } else { 3 }) { for b in &second { emit(em, w, h, bpp, c == 1, &[a, *b]); } }
        } } } }
        // 2. every code byte with run-length arguments at line / buffer boundaries
        for code in 0..=255u8 { for &(w, h) in &[(1usize, 1usize), (2, 2), (3, 2), (8, 2), (9, 3), (16, 1), (0, 3), (3, 0)] {
            idx += 1; if idx % part.1 != part.0 { continue; }
            let total = (w * h) as u16;
            for arg in &[0u16, 1, (w as u16).wrapping_sub(1), w as u16, w as u16 + 1, total.wrapping_sub(1), total, total + 1, 255, 0xffff] {
                let mut d = vec![code]; d.extend(&le16(*arg)); d.extend(&[0xaa, 0x55, 0xff, 0x00, 0x12, 0x34]);
                emit(em, w, h, 16, true, &d);
                let mut d2 = vec![0xfd, code]; d2.extend(&le16(*arg)); d2.extend(&[1, 2, 3, 4]);
                emit(em, w, h, 16, true, &d2);
            }
        } }
        // 3. extreme geometries
        for &(w, h) in &[(65535usize, 1usize), (1, 65535), (65535, 0), (0, 65535), (255, 255), (256, 256), (200, 200), (300, 300), (181, 182), (128, 512)] {
            for &bpp in &[16u16, 32] { for c in 0..2 {
                emit(em, w, h, bpp, c == 1, &[]);
                emit(em, w, h, bpp, c == 1, &[0x10, 0xf0, 0xff, 0xff, 0x00]);
                let line = format!("decomp {} {} {} {} pat:{}:7", w, h, bpp, c, (w * h * (bpp as usize / 8)).min(400000));
                let toks: Vec<&str> = line.split(' ').collect(); run_case(&toks, em);
                let line = format!("decomp {} {} {} {} pat:{}:9", w, h, bpp, c, (w * h * (bpp as usize / 8)).saturating_sub(1).min(400000));
                let toks: Vec<&str> = line.split(' ').collect(); run_case(&toks, em);
            } }
        }
    }
    if c09 && part.0 == 0 {
        // 3b. bitmaps of more than 65536 pixels (width and height are 16-bit fields, their product is not): raw at both
        // depths, and interleaved RLE with mega runs split at the end of the first scanline
        for &(w, h) in &[(256usize, 257usize), (1024, 65), (257, 256), (300, 300)] {
            for &bpp in &[16u16, 32] {
                let line = format!("decomp {} {} {} 0 pat:{}:7", w, h, bpp, w * h * (bpp as usize / 8));
                let toks: Vec<&str> = line.split(' ').collect(); run_case(&toks, em);
            }
            // colour run over the first scanline, then colour runs of at most 65535 pixels in other colours
            let mut d = vec![0xf3u8]; d.extend(&le16(w as u16)); d.extend(&le16(0x1234));
            let mut left = w * h - w; let mut col = 0x0f0fu16;
            while left > 0 { let n = left.min(65535); d.push(0xf3); d.extend(&le16(n as u16)); d.extend(&le16(col)); col = col.wrapping_mul(3).wrapping_add(1); left -= n; }
            emit(em, w, h, 16, true, &d);
        }
    }
    if part.0 == 0 {
        // 3d. wide bitmaps (the width is a free 16-bit field; 8192 is only the largest DESKTOP width): well-formed planar
        // and interleaved streams that run over whole scanlines
        let mut rw = Rng::new(seed ^ 0x5eed_08);
        for &(w, h) in &[(8192usize, 2usize), (8193, 1), (8193, 2), (9000, 2), (20000, 1), (65535, 1), (65535, 2)] {
            let d = gen_planar(&mut rw, w, h, true); emit(em, w, h, 32, true, &d);
            let d = gen_planar_longrun(&mut rw, 3, 47, h); emit(em, 50, h, 32, true, &d);
            let d = gen_rle16(&mut rw, w, h, true, true); emit(em, w, h, 16, true, &d);
        }
    }
    if part.0 == 0 {
        // 3c. the same compressed stream decoded twice in a row with different geometries of the same pixel count
        let shapes: [(usize, usize); 4] = [(4, 2), (2, 4), (8, 1), (1, 8)];
        let mut datas: Vec<(u16, Vec<u8>)> = vec![];
        { let mut d = vec![0x88u8]; for k in 0..8u16 { d.extend(&le16(0x1111u16.wrapping_mul(k + 1))); } datas.push((16, d)); }
        datas.push((16, vec![0x64, 0x34, 0x12, 0x64, 0x78, 0x56]));
        datas.push((16, vec![0xE4, 0x0f, 0x00, 0xf0, 0xff]));
        // planar: four planes of 6 raw bytes each decode as 1x6 (six rows of one) and as 6x1
        { let mut d = vec![0x10u8]; for p in 0..4u8 { for k in 0..6u8 { d.push(0x10); d.push(p * 16 + k); } } datas.push((32, d)); }
        for (bpp, d) in &datas { for a in 0..4 { for b in 0..4 {
            let (s1, s2) = if *bpp == 32 { ([(1usize, 6usize), (6, 1), (1, 6), (6, 1)][a], [(6usize, 1usize), (1, 6), (1, 6), (6, 1)][b]) } else { (shapes[a], shapes[b]) };
            let line = format!("decomp2 {} {} {} {} {} {}", bpp, hex(d), s1.0, s1.1, s2.0, s2.1);
            let toks: Vec<&str> = line.split(' ').collect(); run_case(&toks, em);
        } } }
    }
    // 4. grammar-aware streams (valid, and slightly over/under-running when not C09)
    let n = if thorough { 60000 } else { 6000 };
    for i in 0..n {
        let (w, h) = match r.below(6) { 0 => (r.range(1, 3) as usize, r.range(1, 3) as usize), 1 => (r.range(1, 9) as usize, r.range(1, 4) as usize), 2 => (r.range(7, 20) as usize, r.range(1, 6) as usize), 3 => (1, r.range(1, 12) as usize), 4 => (r.range(1, 40) as usize, 1), _ => (r.range(1, 24) as usize, r.range(1, 24) as usize) };
        match i % 4 {
            0 | 1 => { let split = c09 || r.chance(2, 3); let ex = c09 || r.chance(3, 4); let d = gen_rle16(&mut r, w, h, split, ex); emit(em, w, h, 16, true, &d); }
            2 => { let ex = c09 || r.chance(3, 4); let d = gen_planar(&mut r, w, h, ex); emit(em, w, h, 32, true, &d); }
            _ => {
                let bpp = if r.chance(1, 2) { 16u16 } else { 32 };
                let need = w * h * (bpp as usize / 8);
                let len = if c09 { need } else { match r.below(4) { 0 => need, 1 => need.saturating_sub(r.range(1, 3) as usize), 2 => need + r.below(4) as usize, _ => r.below(need as u64 + 2) as usize } };
                emit(em, w, h, bpp, false, &r.bytes(len));
            }
        }
    }
    // 4b. planar long-run forms: every run length 16..=47 on the first and on later scanlines,
    //     alone and after 1..3 literal bytes
    if part.0 == 0 {
        for run in 16..=47usize { for raw in 0..=3usize { for h in 1..=3usize {
            let d = gen_planar_longrun(&mut r, raw, run, h);
            emit(em, raw + run, h, 32, true, &d);
        } } }
    }
    // 5. C09: all 5-6-5 channel values through an uncompressed 1x1 bitmap
    if c09 && part.0 == 0 {
        let step = if thorough { 1 } else { 1 };
        for v in (0..=65535u32).step_by(step) { if !thorough && v % 7 != 0 && v & 0x1f != 0x1f && v & 0x1f != 0 { continue; } emit(em, 1, 1, 16, false, &le16(v as u16)); }
    }
    // 6. random corruption of valid streams
    if !c09 {
        for _ in 0..(if thorough { 40000 } else { 4000 }) {
            let (w, h) = (r.range(1, 12) as usize, r.range(1, 8) as usize);
            let (bpp, mut d) = if r.chance(1, 2) { (16u16, gen_rle16(&mut r, w, h, true, true)) } else { (32, gen_planar(&mut r, w, h, true)) };
            if d.is_empty() { continue; }
            match r.below(4) { 0 => { let i = r.below(d.len() as u64) as usize; d[i] = r.byte(); } 1 => { let k = r.below(d.len() as u64) as usize; d.truncate(k); } 2 => { let k = r.range(1, 6) as usize; d.extend(r.bytes(k)); } _ => { let i = r.below(d.len() as u64) as usize; d[i] ^= 1 << r.below(8); } }
            emit(em, w, h, bpp, true, &d);
        }
    }
}
