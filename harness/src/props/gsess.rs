//! Session-level cases (C06, C10, C11, C12): the real RdpClient (global::Client +
//! mcs::Client, really connected against the in-memory reference server) driven through a
//! sequence of server payloads and user inputs.
use crate::common::*;
use crate::refsrv::{self, Rect, SrvParams};
use rdp::core::event::{KeyboardEvent, PointerButton, PointerEvent, RdpEvent, BitmapEvent};
use rdp::core::gcc::KeyboardLayout;

fn layout_of(v: u32) -> KeyboardLayout { if v == 0x40c { KeyboardLayout::French } else { KeyboardLayout::US } }

fn parse_event(s: &str) -> Option<RdpEvent> {
    let c = s.chars().next()?;
    let f: Vec<&str> = s[1..].split(':').collect();
    match c {
        'B' => Some(RdpEvent::Bitmap(BitmapEvent { dest_left: 0, dest_top: 0, dest_right: 0, dest_bottom: 0, width: 1, height: 1, bpp: 32, is_compress: false, data: vec![0; 4] })),
        'P' => {
            let b = match f[2] { "1" => PointerButton::Left, "2" => PointerButton::Right, "3" => PointerButton::Middle, _ => PointerButton::None };
            Some(RdpEvent::Pointer(PointerEvent { x: f[0].parse().ok()?, y: f[1].parse().ok()?, button: b, down: f[3] == "1" }))
        }
        'K' => Some(RdpEvent::Key(KeyboardEvent { code: f[0].parse().ok()?, down: f[1] == "1" })),
        _ => None,
    }
}

fn show_ev(b: &BitmapEvent) -> String {
    format!("{}.{}.{}.{}.{}.{}.{}.{}.{}", b.dest_left, b.dest_top, b.dest_right, b.dest_bottom, b.width, b.height, b.bpp, if b.is_compress { 1 } else { 0 }, hex(&b.data))
}

pub fn run_case(toks: &[&str], em: &mut Emitter) {
    let line = toks.join(" ");
    let t: Vec<String> = toks.iter().map(|s| s.to_string()).collect();
    em.case(&line, move || {
        let uid: u16 = t[1].parse().unwrap();
        let (w, h): (u16, u16) = (t[2].parse().unwrap(), t[3].parse().unwrap());
        let lay: u32 = t[4].parse().unwrap();
        let name = String::from_utf8(unhex(&t[5])).unwrap();
        let p = SrvParams { uid, ..Default::default() };
        let mut s = match refsrv::session(&p, w, h, layout_of(lay), &name) { Ok(s) => s, Err(e) => return Obs::new(format!("setup-failed:{}", e)).viol("session setup failed") };
        let mut outs: Vec<String> = vec![];
        let mut nontrivial = false;
        for op in t[6].split(',') {
            let c = op.chars().next().unwrap();
            let mut evs: Vec<String> = vec![];
            let res: Result<(), ()> = match c {
                'R' => { s.pipe.push_in(&refsrv::mcs_sdin(1003, &unhex(&op[1..]))); s.client.read(|e| if let RdpEvent::Bitmap(b) = e { evs.push(show_ev(&b)) }).map_err(|_| ()) }
                'F' => { let f: Vec<&str> = op[1..].split(':').collect(); s.pipe.push_in(&refsrv::fast_path_frame(f[0].parse().unwrap(), &unhex(f[1]))); s.client.read(|e| if let RdpEvent::Bitmap(b) = e { evs.push(show_ev(&b)) }).map_err(|_| ()) }
                'M' => { s.pipe.push_in(&refsrv::x224_data(&unhex(&op[1..]))); s.client.read(|e| if let RdpEvent::Bitmap(b) = e { evs.push(show_ev(&b)) }).map_err(|_| ()) }
                'W' => {
                    // raw stream bytes, then k reads
                    let f: Vec<&str> = op[1..].split(':').collect();
                    let k: usize = f[0].parse().unwrap();
                    s.pipe.push_in(&unhex(f[1]));
                    let mut r = Ok(());
                    for _ in 0..k { r = s.client.read(|e| if let RdpEvent::Bitmap(b) = e { evs.push(show_ev(&b)) }).map_err(|_| ()); if r.is_err() { break; } }
                    r
                }
                // from now on the transport hands out at most k bytes per read (0: whatever is asked for)
                'C' => { s.pipe.0.borrow_mut().rcap = op[1..].parse().unwrap(); Ok(()) }
                // the k-th frame written from now on is refused by the transport (once)
                'Q' => { s.pipe.0.borrow_mut().fail_in = Some(op[1..].parse().unwrap()); Ok(()) }
                // from now on the transport accepts at most k bytes per write (0: everything)
                'S' => { s.pipe.0.borrow_mut().wcap = op[1..].parse().unwrap(); Ok(()) }
                'T' => s.client.try_write(parse_event(&op[1..]).unwrap()).map_err(|_| ()),
                _ => s.client.write(parse_event(op).unwrap()).map_err(|_| ()),
            };
            let written = s.pipe.take_written();
            let (frames, used) = refsrv::split_frames(&written);
            let mut fr: Vec<String> = frames.iter().map(|f| hex(f)).collect();
            if used != written.len() { fr.push(format!("?{}", hex(&written[used..]))); }
            if !fr.is_empty() || !evs.is_empty() { nontrivial = true; }
            outs.push(format!("{}[{}][{}]", if res.is_ok() { "ok" } else { "E" }, fr.join("+"), evs.join("|")));
            // leftover server bytes (an error mid-frame) must not leak into the next op
            let left = s.pipe.left().len();
            if left > 0 { let mut st = s.pipe.0.borrow_mut(); st.pos = st.inbox.len(); }
        }
        Obs::new(outs.join(";")).nt(nontrivial)
    });
}

// ---------------------------------------------------------------- generators

pub struct Gen<'a> { pub r: &'a mut Rng, pub share: u32 }

fn caps_sample(r: &mut Rng) -> Vec<Vec<u8>> {
    let mut v = vec![];
    // general (valid), pointer, an unknown type, a known type with a short body, multifragment
    // the server's own general capability set: any extraFlags (with and without FASTPATH_OUTPUT_SUPPORTED,
    // NO_BITMAP_COMPRESSION_HDR …), or none at all — what the client delivers does not depend on it
    let ef = *r.pick(&[0x041du16, 0x041d, 0x0404, 0x0000, 0x0400, 0x0001, 0xfffe, 0xffff]);
    if !r.chance(1, 8) { v.push(refsrv::cap(1, &[1, 0, 3, 0, 0, 2, 0, 0, 0, 0, ef as u8, (ef >> 8) as u8, 0, 0, 0, 0, 0, 0, 1, 1])); }
    if r.chance(1, 2) { v.push(refsrv::cap(8, &[0, 0, 20, 0])); }
    // the server's Bitmap capability set with a desktop size of its own (what the client transmits for a pointer
    // position does not depend on it)
    if r.chance(1, 2) { let (dw, dh) = *r.pick(&[(1024u16, 768u16), (800, 600), (0, 0), (1, 1), (65535, 65535), (640, 1200)]);
        v.push(refsrv::cap(2, &refsrv::cat(&[&refsrv::le16(32), &[1, 0, 1, 0, 1, 0], &refsrv::le16(dw), &refsrv::le16(dh), &[0, 0, 1, 0, 1, 0, 0, 0, 1, 0, 0, 0]]))); }
    if r.chance(1, 2) { v.push(refsrv::cap(0x1d, &r.bytes(5))); }
    if r.chance(1, 3) { v.push(refsrv::cap(0x0f, &[1])); }
    if r.chance(1, 2) { v.push(refsrv::cap(0x14, &[0, 0, 0, 0])); }
    if r.chance(1, 2) { v.push(refsrv::cap(0x14, &[0, 0, 0, 0, 0x40, 6, 0, 0])); }
    if r.chance(1, 2) { v.push(refsrv::cap(0x1a, &[0, 0, 1, 0])); }
    if r.chance(1, 4) { v.push(refsrv::cap(0x77, &[])); }
    // input capability with and without INPUT_FLAG_SCANCODES (what the server supports does not change what
    // the client must transmit), full-size and cut short
    if r.chance(1, 2) { let fl = *r.pick(&[0x0034u16, 0, 0x0375, 0x0001, 0x0020]); let mut b = refsrv::le16(fl); b.extend(vec![0u8; if r.chance(1, 5) { 6 } else { 86 }]); v.push(refsrv::cap(0x0d, &b)); }
    v
}

impl<'a> Gen<'a> {
    pub fn rect(&mut self) -> Rect {
        let n = match self.r.below(5) { 0 => 0, 1 => 1, 2 => self.r.below(9), 3 => self.r.below(64), _ => 4 } as usize;
        let flags = *self.r.pick(&[0u16, 1, 0x401, 0x400, 1, 0x401, 0x0003, 0x0009, 0x0801, 0x8001, 0xfbff, 0xfffe, 0x0402]);
        let c = |r: &mut Rng| -> u16 { if r.chance(1, 6) { *r.pick(&[0u16, 1, 0x7fff, 0x8000, 0xffff]) } else { r.below(900) as u16 } };
        Rect { l: c(self.r), t: c(self.r), r: c(self.r), b: c(self.r), w: c(self.r), h: c(self.r), bpp: *self.r.pick(&[16u16, 32, 24, 8, 15, 0xffff]), flags, data: self.r.bytes(n) }
    }
    /// (op, letter)
    pub fn letter(&mut self, which: u64) -> (String, String) {
        let sid = self.share;
        match which {
            0 => { let caps = caps_sample(self.r); if self.r.chance(1, 2) { self.share = if self.r.chance(1, 6) { *self.r.pick(&[0u32, 0xffff_ffff, 1, 0x0001_0000]) } else { self.r.next() as u32 }; } let sid = self.share; (format!("R{}", hex(&refsrv::demand_active(sid, b"RDP\0", &caps))), "DA".into()) }
            1 => (format!("R{}", hex(&refsrv::synchronize(sid, 1002))), "SY".into()),
            2 => (format!("R{}", hex(&refsrv::control(sid, 4, 0, 0))), "CO".into()),
            3 => (format!("R{}", hex(&refsrv::control(sid, 2, 0x3ec, 0x3ea))), "GR".into()),
            4 => (format!("R{}", hex(&refsrv::control(sid, *self.r.pick(&[1u16, 3, 5]), 0, 0))), "CX".into()),
            5 => (format!("R{}", hex(&refsrv::font_map(sid))), "FM".into()),
            6 => (format!("R{}", hex(&refsrv::error_info(sid, self.r.next() as u32))), "EI".into()),
            7 => { let n = self.r.below(6) as usize; let b = self.r.bytes(n); (format!("R{}", hex(&refsrv::share_data(sid, *self.r.pick(&[0x26u8, 0x02, 0x1b, 0x36]), &b))), "UD".into()) }
            // deactivate-all: the source descriptor is opaque bytes (not necessarily text)
            8 => { let src: Vec<u8> = match self.r.below(5) { 0 => vec![], 1 => vec![0xff, 0xfe, 0x00], 2 => vec![0x80], 3 => { let n = self.r.below(6) as usize; self.r.bytes(n) } _ => b"RDP\0".to_vec() };
                   (format!("R{}", hex(&refsrv::deactivate_all(sid, &src))), "DE".into()) }
            9 => { let n = self.r.below(4) as usize; let rects: Vec<Rect> = (0..n).map(|_| self.rect()).collect(); (format!("F{}:{}", self.r.below(4), hex(&refsrv::fp_bitmap_update(&rects))), format!("FB{}", n)) }
            _ => {
                let u = match self.r.below(4) { 0 => refsrv::fp_update(3, &[]), 1 => refsrv::fp_update(5, &[]), 2 => { let k = self.r.below(6) as usize; refsrv::fp_update(*self.r.pick(&[0u8, 2, 4, 6, 8, 0xa, 0xb, 7, 0xd]), &self.r.bytes(k)) } _ => refsrv::fp_update(9, &refsrv::cat(&[&refsrv::le16(0), &refsrv::le32(0), &refsrv::le16(1), &refsrv::le16(1), &refsrv::le16(1), &refsrv::le16(2), &[0xaa, 0xbb], &[0xcc], &[0]])) };
                (format!("F0:{}", hex(&u)), "FO".into())
            }
        }
    }
    pub fn input(&mut self) -> String {
        let edge = |r: &mut Rng| -> u64 { if r.chance(1, 3) { *r.pick(&[0u64, 1, 255, 256, 0x7fff, 0x8000, 0xffff, 0xe0, 0xe1, 0xe000, 0xe0e0, 0x2a, 0x1d]) } else { r.below(65536) } };
        if self.r.chance(1, 2) { format!("P{}:{}:{}:{}", edge(self.r), edge(self.r), self.r.below(4), self.r.below(2)) } else { format!("K{}:{}", edge(self.r), self.r.below(2)) }
    }
}

pub fn emit(em: &mut Emitter, uid: u16, w: u16, h: u16, lay: u32, name: &str, ops: &[String], hist: Option<&[String]>) {
    let mut line = format!("gsess {} {} {} {} {} {}", uid, w, h, lay, hex(name.as_bytes()), ops.join(","));
    if let Some(hs) = hist { line.push_str(&format!(" L={}", hs.join(","))); }
    let toks: Vec<&str> = line.split(' ').collect();
    run_case(&toks, em);
}

fn session_params(r: &mut Rng) -> (u16, u16, u16, u32, String) {
    let uid = if r.chance(1, 3) { *r.pick(&[1001u16, 1002, 1004, 1005, 65535, 2000]) } else { 1001 + r.below(64535) as u16 };
    let uid = if uid == 1003 { 1004 } else { uid };
    (uid, *r.pick(&[800u16, 1024, 1, 65535, 640]), *r.pick(&[600u16, 768, 1, 65535, 480]), *r.pick(&[0x409u32, 0x40c]), r.pick(&["rdp-rs", "x", "", "a-longer-client-name", "aaaaaaaaaaaaaa\u{e9}", "名前名前名前名前名前", "😀😀😀😀x", "0123456789abcdef"]).to_string())
}

/// C12: every history of length <= L over the 11-letter alphabet with an input attempt
/// after every step, plus long random histories
pub fn generate_c12(thorough: bool, seed: u64, part: (usize, usize), em: &mut Emitter) {
    let mut r = Rng::new(seed ^ 0xC12);
    let maxlen = if thorough { 5 } else { 3 };
    let mut idx = 0usize;
    for len in 0..=maxlen {
        let total = 11usize.pow(len as u32);
        for code in 0..total {
            idx += 1;
            if idx % part.1 != part.0 { continue; }
            let mut g = Gen { r: &mut r, share: 0x000103ea };
            let (mut ops, mut hist) = (vec![], vec![]);
            let mut c = code;
            // a prefix that reaches deeper states so that short histories also explore them
            let prefix = (code + len) % 4;
            let pre: &[u64] = match prefix { 0 => &[], 1 => &[0], 2 => &[0, 1, 2], _ => &[0, 1, 2, 3, 5] };
            for &l in pre { let (o, h) = g.letter(l); ops.push(o); hist.push(h); }
            for _ in 0..len {
                let (o, h) = g.letter((c % 11) as u64); c /= 11;
                ops.push(o); hist.push(h);
                let inp = g.input();
                if g.r.chance(1, 4) { ops.push(format!("T{}", inp)); hist.push("J".into()); } else { ops.push(inp); hist.push("I".into()); }
            }
            if ops.is_empty() { ops.push(g.input()); hist.push("I".into()); }
            emit(em, 1004, 800, 600, 0x409, "rdp-rs", &ops, Some(&hist));
        }
    }
    if part.0 == 0 {
        // a transport fault at the k-th write of the client's answer to a demand-active: the call fails, the
        // server repeats its demand-active, which is answered in full; the session then activates and takes input.
        // Also a fault under an input PDU in the active state (model correspondence only: no alphabet oracle)
        for k in 1..=6u32 {
            let mut g = Gen { r: &mut r, share: 0x000103ea };
            let mut ops = vec![format!("Q{}", k)];
            let (da, _) = g.letter(0);
            ops.push(da.clone()); ops.push(da);
            for l in &[1u64, 2, 3, 5] { ops.push(g.letter(*l).0); }
            ops.push("P3:4:1:1".into()); ops.push("Q1".into()); ops.push("K30:1".into()); ops.push("K30:0".into());
            // a re-activation hit by the same fault
            ops.push(g.letter(8).0); ops.push(format!("Q{}", 1 + k % 5)); let (da2, _) = g.letter(0); ops.push(da2.clone()); ops.push(da2);
            for l in &[1u64, 2, 3, 5] { ops.push(g.letter(*l).0); }
            ops.push("P5:6:0:0".into());
            emit(em, 1004, 800, 600, 0x409, "rdp-rs", &ops, None);
        }
        // several share-control PDUs packed into ONE MCS frame in the active state: every one of them is dispatched —
        // a deactivate-all behind another PDU closes the input window, the next demand-active is answered
        // (model correspondence only: the alphabet oracle has one letter per frame)
        for k in 0..6u32 {
            let mut g = Gen { r: &mut r, share: 0x000103ea };
            let mut ops: Vec<String> = vec![];
            for l in &[0u64, 1, 2, 3, 5] { ops.push(g.letter(*l).0); }
            ops.push("P1:2:1:1".into());
            let sid = g.share;
            let first = match k % 3 { 0 => refsrv::share_data(sid, 0x26, &[1, 2, 3, 4]), 1 => refsrv::error_info(sid, 7), _ => refsrv::share_data(sid, 0x36, &[]) };
            let mut packed = first.clone(); packed.extend(refsrv::deactivate_all(sid, b"RDP\0"));
            if k >= 3 { packed.extend(refsrv::share_data(sid, 0x26, &[9])); }
            ops.push(format!("R{}", hex(&packed)));
            ops.push("P3:4:0:0".into()); ops.push("TK30:1".into());
            for l in &[0u64, 1, 2, 3, 5] { ops.push(g.letter(*l).0); }
            ops.push("K31:1".into());
            // two ignored PDUs in one frame leave the window open
            let mut two = refsrv::error_info(g.share, 3); two.extend(refsrv::share_data(g.share, 0x26, &[5, 6]));
            ops.push(format!("R{}", hex(&two))); ops.push("P9:9:0:0".into());
            emit(em, 1004, 800, 600, 0x409, "rdp-rs", &ops, None);
        }
        // demand-active PDUs of 100..300 and > 255 bytes (the MCS length changes form at 128 and 256),
        // font maps whose mapFlags are not the usual 0x0003
        for extra in (0usize..220).step_by(7).chain([1000usize, 5000].iter().cloned()) { for mf in &[3u16, 0, 1, 2] {
            let sid = 0x000103eau32;
            let mut caps = vec![refsrv::cap(1, &[1, 0, 3, 0, 0, 2, 0, 0, 0, 0, 0x1d, 4, 0, 0, 0, 0, 0, 0, 1, 1])];
            caps.push(refsrv::cap(0x1e, &vec![0u8; extra]));
            let fm = refsrv::share_data(sid, 0x28, &refsrv::cat(&[&refsrv::le16(0), &refsrv::le16(0), &refsrv::le16(*mf), &refsrv::le16(4)]));
            let ops: Vec<String> = vec![format!("R{}", hex(&refsrv::demand_active(sid, b"RDP\0", &caps))), format!("R{}", hex(&refsrv::synchronize(sid, 1002))), format!("R{}", hex(&refsrv::control(sid, 4, 0, 0))),
                format!("R{}", hex(&refsrv::control(sid, 2, 0x3ec, 0x3ea))), format!("R{}", hex(&fm)), "P1:2:0:0".into(), format!("R{}", hex(&refsrv::deactivate_all(sid, b"RDP\0"))), "K30:1".into()];
            let hist: Vec<String> = ["DA", "SY", "CO", "GR", "FM", "I", "DE", "I"].iter().map(|x| x.to_string()).collect();
            emit(em, 1004, 800, 600, 0x409, "rdp-rs", &ops, Some(&hist));
        } }
    }
    if part.0 == 0 { many_activations(em, &mut r); }
    let n = if thorough { 4000 } else { 400 };
    for _ in 0..n {
        let (uid, w, h, lay, name) = session_params(&mut r);
        let mut g = Gen { r: &mut r, share: 0x000103ea };
        let (mut ops, mut hist) = (vec![], vec![]);
        let len = g.r.range(5, 40);
        for _ in 0..len {
            // bias towards the letter that makes progress so that long runs reach Data several times
            let l = if g.r.chance(1, 2) { *g.r.pick(&[0u64, 1, 2, 3, 5, 9, 8]) } else { g.r.below(11) };
            let (o, h) = g.letter(l); ops.push(o); hist.push(h);
            if g.r.chance(1, 2) { let inp = g.input(); if g.r.chance(1, 3) { ops.push(format!("T{}", inp)); hist.push("J".into()); } else { ops.push(inp); hist.push("I".into()); } }
        }
        emit(em, uid, w, h, lay, &name, &ops, Some(&hist));
    }
}

pub fn activate(g: &mut Gen, ops: &mut Vec<String>, hist: &mut Vec<String>) { for l in &[0u64, 1, 2, 3, 5] { let (o, h) = g.letter(*l); ops.push(o); hist.push(h); } }

/// C11: event sequences in the active state, interleaved with server traffic
pub fn generate_c11(thorough: bool, seed: u64, part: (usize, usize), em: &mut Emitter) {
    let mut r = Rng::new(seed ^ 0xC11);
    if part.0 == 0 {
        // exhaustive over buttons x press state x coordinate boundaries, keys x state
        let b = [0u32, 1, 255, 256, 0x7fff, 0x8000, 0xffff];
        let (mut ops, mut hist) = (vec![], vec![]);
        { let mut g = Gen { r: &mut r, share: 0x000103ea }; activate(&mut g, &mut ops, &mut hist); }
        for btn in 0..4 { for down in 0..2 { for &x in &b { for &y in &b { ops.push(format!("P{}:{}:{}:{}", x, y, btn, down)); hist.push("I".into()); } } } }
        for down in 0..2 { for &c in &b { ops.push(format!("K{}:{}", c, down)); hist.push("I".into()); } }
        for _ in 0..3 { ops.push("P10:20:0:0".into()); hist.push("I".into()); }
        ops.push("P10:20:1:1".into()); hist.push("I".into()); ops.push("P10:20:1:0".into()); hist.push("I".into()); ops.push("P10:20:0:0".into()); hist.push("I".into());
        for _ in 0..2 { ops.push("K30:1".into()); hist.push("I".into()); }
        // a transport that takes a few bytes per write call: every frame still arrives whole, once
        for k in &[1u32, 3, 7, 30, 0] { ops.push(format!("S{}", k)); hist.push("CH".into()); ops.push("P7:9:1:1".into()); hist.push("I".into()); ops.push("K31:0".into()); hist.push("I".into()); ops.push("TP1:2:0:0".into()); hist.push("J".into()); }
        ops.push("B".into()); hist.push("X".into()); ops.push("TB".into()); hist.push("X".into());
        emit(em, 1004, 800, 600, 0x409, "rdp-rs", &ops, Some(&hist));
        // every scancode 0..=255 (and a few above) pressed and released, each followed by an ordinary key: one PDU
        // per submission with exactly the submitted code and flags, whatever was submitted before — also across
        // pointer traffic and a re-activation
        let (mut ops, mut hist) = (vec![], vec![]);
        { let mut g = Gen { r: &mut r, share: 0x000103ea }; activate(&mut g, &mut ops, &mut hist);
          for c in (0u32..256).chain([0x100u32, 0x1e0, 0xe01d, 0xe0e0, 0xffff].iter().cloned()) { ops.push(format!("K{}:{}", c, c & 1)); hist.push("I".into()); ops.push(format!("K30:{}", (c >> 1) & 1)); hist.push("I".into()); }
          ops.push("K224:1".into()); hist.push("I".into()); ops.push("P5:6:0:0".into()); hist.push("I".into());
          for l in &[8u64, 0, 1, 2, 3, 5] { let (o, h) = g.letter(*l); ops.push(o); hist.push(h); }
          ops.push("K31:1".into()); hist.push("I".into()); ops.push("K224:0".into()); hist.push("I".into()); ops.push("K31:0".into()); hist.push("I".into()); }
        emit(em, 1004, 800, 600, 0x409, "rdp-rs", &ops, Some(&hist));
    }
    let n = if thorough { 20000 } else { 1500 };
    for _ in 0..n {
        let (uid, w, h, lay, name) = session_params(&mut r);
        let mut g = Gen { r: &mut r, share: 0x000103ea };
        let (mut ops, mut hist) = (vec![], vec![]);
        if g.r.chance(9, 10) { activate(&mut g, &mut ops, &mut hist); } else { let k = g.r.below(5); for l in [0u64, 1, 2, 3, 5].iter().take(k as usize) { let (o, h) = g.letter(*l); ops.push(o); hist.push(h); } }
        let len = g.r.range(1, 12);
        for _ in 0..len {
            match g.r.below(9) {
                0 => { let (o, h) = g.letter(9); ops.push(o); hist.push(h); }
                1 => { let (o, h) = g.letter(6); ops.push(o); hist.push(h); }
                2 => { ops.push("B".into()); hist.push("X".into()); }
                3 => { let i = g.input(); ops.push(format!("T{}", i)); hist.push("J".into()); }
                4 => { if g.r.chance(1, 4) { // a re-activation with a new share id in the middle
                         for l in &[8u64, 0, 1, 2, 3, 5] { let (o, h) = g.letter(*l); ops.push(o); hist.push(h); } } else { let i = g.input(); ops.push(i); hist.push("I".into()); } }
                5 => { // the same event submitted several times in a row: each submission is one PDU
                       let i = g.input(); let k = g.r.range(2, 4); for _ in 0..k { ops.push(i.clone()); hist.push("I".into()); } }
                _ => { let i = g.input(); ops.push(i); hist.push("I".into()); }
            }
        }
        emit(em, uid, w, h, lay, &name, &ops, Some(&hist));
    }
}

/// C10: fast-path PDUs with any number of updates and rectangles in the active state
pub fn generate_c10(thorough: bool, seed: u64, _part: (usize, usize), em: &mut Emitter) {
    let mut r = Rng::new(seed ^ 0xC10);
    let n = if thorough { 30000 } else { 2500 };
    for _ in 0..n {
        let mut g = Gen { r: &mut r, share: 0x000103ea };
        let mut ops = vec![]; let mut hist0 = vec![]; activate(&mut g, &mut ops, &mut hist0);
        // a transport that delivers the PDUs in small pieces (1..7 bytes, or MTU-sized) from here on
        if g.r.chance(1, 4) { ops.push(format!("C{}", g.r.pick(&[1u32, 2, 3, 7, 100, 1460]))); hist0.push("CH".into()); }
        let npdu = g.r.range(1, 4);
        for _ in 0..npdu {
            let nupd = g.r.below(5);
            let mut payload = vec![];
            for _ in 0..nupd {
                match g.r.below(6) {
                    0 | 1 | 2 => { let k = g.r.below(5) as usize; let rects: Vec<Rect> = (0..k).map(|_| g.rect()).collect(); payload.extend(refsrv::fp_bitmap_update(&rects)); }
                    3 => payload.extend(refsrv::fp_update(*g.r.pick(&[3u8, 5]), &[])),
                    4 => { let k = g.r.below(5) as usize; let b = g.r.bytes(k); payload.extend(refsrv::fp_update(*g.r.pick(&[0u8, 2, 4, 6, 8, 0xa, 0xb]), &b)); }
                    _ => payload.extend(refsrv::fp_update(9, &refsrv::cat(&[&refsrv::le16(0), &refsrv::le32(0), &refsrv::le16(1), &refsrv::le16(1), &refsrv::le16(1), &refsrv::le16(2), &[0xaa, 0xbb], &[0xcc], &[0]]))),
                }
            }
            // boundary data lengths occasionally (large rectangles need the long fast-path form)
            if g.r.chance(1, 40) { let bl = *g.r.pick(&[8000usize, 16000, 32000]); let big = Rect { l: 0, t: 0, r: 63, b: 63, w: 64, h: 64, bpp: 16, flags: 0x401, data: g.r.bytes(bl) }; payload = refsrv::fp_bitmap_update(&[big]); }
            if payload.len() + 3 > 0x7fff { payload.truncate(1000); }
            ops.push(format!("F{}:{}", g.r.below(4), hex(&payload))); hist0.push("FP".into());
            if g.r.chance(1, 6) { let wl = *g.r.pick(&[6u64, 7, 8, 0, 1, 2, 3, 5]); let (o, h) = g.letter(wl); ops.push(o); hist0.push(h); }
        }
        emit(em, 1004, 800, 600, 0x409, "rdp-rs", &ops, Some(&hist0));
    }
    // long runs of updates the client does not interpret (pointer position, orders, palette, surface commands,
    // unknown codes), in one PDU and spread over many, then bitmap rectangles behind one more of them: delivered all the same
    for &(per_pdu, npdu) in &[(17usize, 1usize), (40, 1), (1, 17), (1, 40), (3, 12), (100, 2)] {
        let mut g = Gen { r: &mut r, share: 0x000103ea };
        let mut ops = vec![]; let mut hist0 = vec![]; activate(&mut g, &mut ops, &mut hist0);
        let codes = [0u8, 2, 4, 6, 8, 0xa, 0xb, 7, 0xd, 0xe];
        let mut k = 0usize;
        for _ in 0..npdu {
            let mut payload = vec![];
            for _ in 0..per_pdu { payload.extend(refsrv::fp_update(codes[k % codes.len()], &[k as u8, 0, 1, 0])); k += 1; }
            ops.push(format!("F0:{}", hex(&payload))); hist0.push("FP".into());
        }
        let mut payload = refsrv::fp_update(8, &[1, 0, 2, 0]);
        let rects: Vec<Rect> = (0..3).map(|i| Rect { l: i as u16, t: 1, r: i as u16, b: 1, w: 1, h: 1, bpp: 32, flags: 0, data: vec![i as u8; 4] }).collect();
        payload.extend(refsrv::fp_bitmap_update(&rects));
        ops.push(format!("F0:{}", hex(&payload))); hist0.push("FP".into());
        ops.push(format!("F0:{}", hex(&refsrv::fp_bitmap_update(&rects[..1])))); hist0.push("FP".into());
        emit(em, 1004, 800, 600, 0x409, "rdp-rs", &ops, Some(&hist0));
    }
    // more than 128 (and more than 255) rectangles in one update, and that many updates in one PDU
    for &(nrect, nupd) in &[(129usize, 1usize), (200, 1), (300, 1), (1, 129), (1, 200), (3, 130)] {
        let mut g = Gen { r: &mut r, share: 0x000103ea };
        let mut ops = vec![]; let mut hist0 = vec![]; activate(&mut g, &mut ops, &mut hist0);
        let mut payload = vec![];
        for _ in 0..nupd { let rects: Vec<Rect> = (0..nrect).map(|i| Rect { l: i as u16, t: 0, r: i as u16, b: 0, w: 1, h: 1, bpp: 32, flags: 0, data: vec![i as u8; 4] }).collect(); payload.extend(refsrv::fp_bitmap_update(&rects)); }
        if payload.len() + 3 <= 0x7fff { ops.push(format!("F0:{}", hex(&payload))); hist0.push("FP".into()); emit(em, 1004, 800, 600, 0x409, "rdp-rs", &ops, Some(&hist0)); }
    }
    // every update code carrying the body of a well-formed bitmap update (only code 1 may yield
    // rectangles), and pointer updates whose leading field looks like UPDATETYPE_BITMAP
    for code in 0..16u8 {
        let mut g = Gen { r: &mut r, share: 0x000103ea };
        let mut ops = vec![]; let mut hist0 = vec![]; activate(&mut g, &mut ops, &mut hist0);
        let rects: Vec<Rect> = (0..2).map(|_| g.rect()).collect();
        let bm = refsrv::fp_bitmap_update(&rects);
        let body = bm[3..].to_vec();
        let mut payload = refsrv::fp_update(code, &body);
        payload.extend(refsrv::fp_bitmap_update(&[g.rect()]));
        ops.push(format!("F0:{}", hex(&payload))); hist0.push("FP".into());
        emit(em, 1004, 800, 600, 0x409, "rdp-rs", &ops, Some(&hist0));
    }
    // several complete fast-path frames arriving together, with empty ones (short and long form,
    // length exactly the header) in between: every rectangle is still delivered
    for variant in 0..(if thorough { 200 } else { 24 }) {
        let mut g = Gen { r: &mut r, share: 0x000103ea };
        let mut ops = vec![]; let mut hist0 = vec![]; activate(&mut g, &mut ops, &mut hist0);
        let mut stream: Vec<u8> = vec![]; let mut k = 0;
        let nfr = g.r.range(2, 5);
        for i in 0..nfr {
            match (variant + i as usize) % 4 {
                0 => { stream.extend(&[0x00, 0x80, 0x03]); }                       // empty PDU, long form
                1 => { stream.extend(&[0x00, 0x02]); }                             // empty PDU, short form
                _ => { let n = g.r.range(1, 3) as usize; let rects: Vec<Rect> = (0..n).map(|_| g.rect()).collect(); stream.extend(refsrv::fast_path_frame(0, &refsrv::fp_bitmap_update(&rects))); }
            }
            k += 1;
        }
        ops.push(format!("W{}:{}", k, hex(&stream))); hist0.push("WB".into());
        emit(em, 1004, 800, 600, 0x409, "rdp-rs", &ops, Some(&hist0));
    }
}

/// C06: hostile slow-path / fast-path / MCS-level bytes in every client state
pub fn generate_c06(thorough: bool, seed: u64, part: (usize, usize), em: &mut Emitter) {
    let mut r = Rng::new(seed ^ 0xC06);
    em.alloc_limit = 1 << 20;
    // the states of the activation sequence, and the same states reached a second time after a deactivation
    let prefixes: [&[u64]; 7] = [&[], &[0], &[0, 1], &[0, 1, 2], &[0, 1, 2, 3], &[0, 1, 2, 3, 5], &[0, 1, 2, 3, 5, 8, 0]];
    let mut idx = 0usize;
    let mut run = |em: &mut Emitter, r: &mut Rng, pre: &[u64], hostile: Vec<String>| {
        let mut g = Gen { r, share: 0x000103ea };
        let mut ops = vec![];
        for l in pre { ops.push(g.letter(*l).0); }
        ops.extend(hostile);
        // continuation: lets a diverging state show up
        for l in &[1u64, 2, 3, 5, 9] { ops.push(g.letter(*l).0); }
        ops.push(g.input());
        let name = *["rdp-rs", "aaaaaaaaaaaaaa\u{e9}", "名前名前名前名前名前", "", "0123456789abcdefXYZ"].iter().nth((ops.len() + pre.len()) % 5).unwrap();
        emit(em, 1004, 800, 600, 0x409, name, &ops, None);
    };
    // a. field faults on every valid letter, at every byte offset, in every state
    let fault_vals: &[u8] = if thorough { &[0, 1, 2, 3, 4, 5, 6, 7, 17, 18, 19, 0x7f, 0x80, 0xfe, 0xff] } else { &[0, 3, 5, 17, 0x80, 0xff] };
    for which in 0..11u64 {
        let base = { let mut g = Gen { r: &mut r, share: 0x000103ea }; g.letter(which).0 };
        let (tag, hexs) = if base.starts_with('R') { ("R".to_string(), base[1..].to_string()) } else { let i = base.find(':').unwrap(); (base[..=i].to_string(), base[i + 1..].to_string()) };
        let bytes = unhex(&hexs);
        for off in 0..bytes.len().min(if thorough { 400 } else { 60 }) {
            for v in fault_vals {
                idx += 1; if idx % part.1 != part.0 { continue; }
                let mut b = bytes.clone(); b[off] = *v;
                let pre = prefixes[(idx / 7) % 7];
                run(em, &mut r, pre, vec![format!("{}{}", tag, hex(&b))]);
            }
        }
        for cut in 0..bytes.len().min(80) {
            idx += 1; if idx % part.1 != part.0 { continue; }
            run(em, &mut r, prefixes[idx % 7], vec![format!("{}{}", tag, hex(&bytes[..cut]))]);
        }
        for _ in 0..6 {
            idx += 1; if idx % part.1 != part.0 { continue; }
            let mut b = bytes.clone(); let k = r.range(1, 6) as usize; b.extend(r.bytes(k));
            run(em, &mut r, prefixes[idx % 7], vec![format!("{}{}", tag, hex(&b))]);
        }
    }
    // b. all short strings at each entry (raw, fast-path, MCS level)
    let mut shorts: Vec<Vec<u8>> = vec![vec![]];
    for a in 0..=255u8 { shorts.push(vec![a]); }
    for a in (0..=255u8).step_by(if thorough { 1 } else { 9 }) { for b in (0..=255u8).step_by(if thorough { 3 } else { 31 }) { shorts.push(vec![a, b]); } }
    for s in &shorts {
        idx += 1; if idx % part.1 != part.0 { continue; }
        let pre = prefixes[idx % 7];
        run(em, &mut r, pre, vec![format!("R{}", hex(s)), format!("F0:{}", hex(s)), format!("M{}", hex(s))]);
    }
    // c. length-field attacks at MCS level and random bytes
    let n = if thorough { 30000 } else { 2500 };
    for _ in 0..n {
        let pre = prefixes[r.below(7) as usize];
        let k = r.below(40) as usize;
        let mut b = r.bytes(k);
        let op = match r.below(5) {
            0 => format!("R{}", hex(&b)),
            1 => format!("F{}:{}", r.below(4), hex(&b)),
            2 => { if b.len() >= 2 { b[0] = *r.pick(&[0x68u8, 0x21, 0x2e, 0x3e, 0x64, 0xff]); } format!("M{}", hex(&b)) }
            3 => { // well-formed MCS header with hostile initiator / channel / length, then random payload
                let ini = *r.pick(&[0u16, 1, 0xfc16, 0xfc17, 0xffff]); let ch = *r.pick(&[1003u16, 1004, 0, 0xffff, 1002]);
                let mut m = vec![0x68]; m.extend(refsrv::be16(ini)); m.extend(refsrv::be16(ch)); m.push(0x70); m.extend(refsrv::perlen(b.len())); m.extend(&b);
                format!("M{}", hex(&m)) }
            _ => { // a share control header with a hostile totalLength around its own size
                let tl = *r.pick(&[0u16, 1, 5, 6, 7, 17, 18, 0xffff]); let ty = *r.pick(&[0x11u16, 0x13, 0x16, 0x17, 0x1a, 0]);
                let mut m = refsrv::le16(tl); m.extend(refsrv::le16(ty)); m.extend(refsrv::le16(0x3ea)); m.extend(&b);
                format!("R{}", hex(&m)) }
        };
        run(em, &mut r, pre, vec![op]);
    }
    // c2. send-data-indication whose announced length is larger / smaller than what follows
    for &(announced, actual) in &[(0x100usize, 4usize), (0x7fff, 0), (5, 4), (4, 5), (1, 0), (0, 7), (0x80, 0x7f), (0x81, 0x80), (300, 299), (16384, 20)] {
        for pre in prefixes.iter() {
            idx += 1; if idx % part.1 != part.0 { continue; }
            let body = refsrv::synchronize(0x103ea, 1002);
            let mut m = vec![0x68]; m.extend(refsrv::be16(1)); m.extend(refsrv::be16(1003)); m.push(0x70); m.extend(refsrv::perlen(announced));
            m.extend(body.iter().cycle().take(actual));
            run(em, &mut r, pre, vec![format!("M{}", hex(&m))]);
        }
    }
    // d. every share-control PDU type, with the bodies of the well-formed PDUs (a reflected
    //    confirm-active, a demand-active under another type, ...), in every state
    {
        let caps = vec![refsrv::cap(1, &[1, 0, 3, 0, 0, 2, 0, 0, 0, 0, 0x1d, 4, 0, 0, 0, 0, 0, 0, 1, 1]), refsrv::cap(9, &[0, 0, 0, 0])];
        let bodies: Vec<Vec<u8>> = vec![
            refsrv::confirm_active(0x103ea, b"RDP", &caps)[6..].to_vec(),
            refsrv::demand_active(0x103ea, b"RDP", &caps)[6..].to_vec(),
            refsrv::deactivate_all(0x103ea, b"RDP")[6..].to_vec(),
            refsrv::synchronize(0x103ea, 1002)[6..].to_vec(),
        ];
        for ty in 0..=0x1fu16 { for body in &bodies { for pre in prefixes.iter() {
            idx += 1; if idx % part.1 != part.0 { continue; }
            run(em, &mut r, pre, vec![format!("R{}", hex(&refsrv::share_control(ty, 0x03ea, body)))]);
        } } }
    }
    // d2. a demand-active whose numberCapabilities announces far more sets than it carries (the array is delimited by
    //     lengthCombinedCapabilities): nothing may be reserved on the strength of that count; first activation and re-activation
    if part.0 == 0 {
        let caps = vec![refsrv::cap(1, &[1, 0, 3, 0, 0, 2, 0, 0, 0, 0, 0x1d, 4, 0, 0, 0, 0, 0, 0, 1, 1]), refsrv::cap(8, &[0, 0, 20, 0])];
        for count in &[0xffffu16, 0x8000, 0x0100, 0] { for ncaps in &[0usize, 2] { for pre in [prefixes[0], &prefixes[6][..6]].iter() {
            let mut da = refsrv::demand_active(0x103ea, b"RDP\0", &caps[..*ncaps]);
            da[18] = *count as u8; da[19] = (*count >> 8) as u8;
            run(em, &mut r, *pre, vec![format!("R{}", hex(&da))]);
        } } }
    }
    // d3. every value of the fast-path update header byte (update code, fragmentation bits FIRST / NEXT / LAST in any
    //     order — a NEXT or LAST with no FIRST before it included —, compression bits), with an empty and a small body
    for hdr in 0..=255u8 {
        idx += 1; if idx % part.1 != part.0 { continue; }
        let pre = prefixes[5 + (hdr as usize % 2)];
        run(em, &mut r, pre, vec![format!("F0:{}", hex(&[hdr, 0, 0])), format!("F0:{}", hex(&[hdr, 2, 0, 1, 2])), format!("F0:{}", hex(&[hdr, 0x20, 3, 0, 1, 2, 3]))]);
    }
    // e. the stream itself: short / degenerate TPKT and fast-path headers at the framing entry
    {
        let mut streams: Vec<Vec<u8>> = vec![];
        for a in &[0u8, 0x80, 0xc0, 0x40, 3] { for l in 0..=4u8 { streams.push(vec![*a, l]); streams.push(vec![*a, l, 1, 2]); } }
        for a in &[0u8, 0x80] { for hi in &[0x80u8, 0x81, 0xff] { for lo in 0..=5u8 { streams.push(vec![*a, *hi, lo]); streams.push(vec![*a, *hi, lo, 9, 9, 9]); } } }
        for hi in &[0u8, 1, 0xff] { for lo in 0..=9u8 { streams.push(vec![3, 0, *hi, lo]); streams.push(vec![3, 0, *hi, lo, 2, 0xf0, 0x80, 0x68]); } }
        for st in &streams {
            idx += 1; if idx % part.1 != part.0 { continue; }
            run(em, &mut r, prefixes[idx % 7], vec![format!("W1:{}", hex(st))]);
        }
    }
    em.alloc_limit = 0;
}

/// one session that is deactivated and re-activated many times (each demand-active with its own capability sets and,
/// half of the time, a new share id): every demand-active is answered in full, input is taken after each font map
pub fn many_activations(em: &mut Emitter, r: &mut Rng) {
    for rounds in &[6usize, 16, 40] {
        let mut g = Gen { r: &mut *r, share: 0x000103ea };
        let (mut ops, mut hist) = (vec![], vec![]);
        for k in 0..*rounds {
            activate(&mut g, &mut ops, &mut hist);
            ops.push(format!("P{}:2:0:0", k)); hist.push("I".into());
            let (o, h) = g.letter(8); ops.push(o); hist.push(h);
            ops.push("K30:1".into()); hist.push("I".into());
        }
        emit(em, 1004, 800, 600, 0x409, "rdp-rs", &ops, Some(&hist));
    }
}
