//! Shape language shared with the Lean driver: textual description of a message built
//! from the library's own combinators; `build` constructs the real `Box<dyn Message>`.
use crate::common::*;
use rdp::model::data::{Array, Check, Component, DataType, DynOption, Message, MessageOption, Trame, U16, U32};
use rdp::model::error::{Error, RdpError, RdpErrorKind};

#[derive(Clone, Debug)]
pub enum OptFn {
    None,
    Size(String, usize, usize, usize),
    SizeSat(String, usize, usize, usize),
    SkipIf(String, u64, u64),
    SizeOfSub(String, String),
}

#[derive(Clone, Debug)]
pub enum Sh {
    U8(u8),
    U16(bool, u16), // true = little endian
    U32(bool, u32),
    Bytes(Vec<u8>),
    Check(Box<Sh>),
    Trame(Vec<Sh>),
    Comp(Vec<(String, Sh)>),
    Dyn(Box<Sh>, OptFn),
    Opt(Option<Box<Sh>>),
    Array(Option<Box<Sh>>, Vec<Sh>),
}

impl OptFn {
    pub fn show(&self) -> String {
        match self {
            OptFn::None => "n".into(),
            OptFn::Size(f, a, b, c) => format!("s:{}:{}:{}:{}", f, a, b, c),
            OptFn::SizeSat(f, a, b, c) => format!("t:{}:{}:{}:{}", f, a, b, c),
            OptFn::SkipIf(f, a, b) => format!("k:{}:{}:{}", f, a, b),
            OptFn::SizeOfSub(f, g) => format!("u:{}:{}", f, g),
        }
    }
}

impl Sh {
    pub fn show(&self) -> String {
        match self {
            Sh::U8(v) => format!("B{}", v),
            Sh::U16(le, v) => format!("H{}{}", if *le { 'l' } else { 'b' }, v),
            Sh::U32(le, v) => format!("W{}{}", if *le { 'l' } else { 'b' }, v),
            Sh::Bytes(b) => format!("X{};", if b.is_empty() { String::new() } else { hex(b) }),
            Sh::Check(m) => format!("C({})", m.show()),
            Sh::Trame(ms) => format!("T({})", ms.iter().map(|m| m.show()).collect::<Vec<_>>().join(",")),
            Sh::Comp(fs) => format!("K({})", fs.iter().map(|(n, m)| format!("{}={}", n, m.show())).collect::<Vec<_>>().join(",")),
            Sh::Dyn(m, f) => format!("D({}|{})", m.show(), f.show()),
            Sh::Opt(None) => "O()".into(),
            Sh::Opt(Some(m)) => format!("O({})", m.show()),
            Sh::Array(None, ms) => format!("A(!|{})", ms.iter().map(|m| m.show()).collect::<Vec<_>>().join(",")),
            Sh::Array(Some(t), ms) => format!("A({}|{})", t.show(), ms.iter().map(|m| m.show()).collect::<Vec<_>>().join(",")),
        }
    }
}

// ------------------------------------------------------------------ parsing
struct Ps<'a> { s: &'a [u8], i: usize }
impl<'a> Ps<'a> {
    fn peek(&self) -> Option<u8> { self.s.get(self.i).copied() }
    fn eat(&mut self, c: u8) -> Result<(), String> { if self.peek() == Some(c) { self.i += 1; Ok(()) } else { Err(format!("expected {} at {}", c as char, self.i)) } }
    fn nat(&mut self) -> Result<u64, String> {
        let st = self.i;
        while self.peek().map_or(false, |c| c.is_ascii_digit()) { self.i += 1; }
        if st == self.i { return Err("nat".into()); }
        std::str::from_utf8(&self.s[st..self.i]).unwrap().parse().map_err(|_| "nat".to_string())
    }
    fn name(&mut self) -> String {
        let st = self.i;
        while self.peek().map_or(false, |c| c.is_ascii_alphanumeric() || c == b'_') { self.i += 1; }
        String::from_utf8(self.s[st..self.i].to_vec()).unwrap()
    }
    fn optfn(&mut self) -> Result<OptFn, String> {
        match self.peek() {
            Some(b'n') => { self.i += 1; Ok(OptFn::None) }
            Some(b's') => { self.i += 1; self.eat(b':')?; let f = self.name(); self.eat(b':')?; let a = self.nat()?; self.eat(b':')?; let b = self.nat()?; self.eat(b':')?; let c = self.nat()?; Ok(OptFn::Size(f, a as usize, b as usize, c as usize)) }
            Some(b't') => { self.i += 1; self.eat(b':')?; let f = self.name(); self.eat(b':')?; let a = self.nat()?; self.eat(b':')?; let b = self.nat()?; self.eat(b':')?; let c = self.nat()?; Ok(OptFn::SizeSat(f, a as usize, b as usize, c as usize)) }
            Some(b'k') => { self.i += 1; self.eat(b':')?; let f = self.name(); self.eat(b':')?; let a = self.nat()?; self.eat(b':')?; let b = self.nat()?; Ok(OptFn::SkipIf(f, a, b)) }
            Some(b'u') => { self.i += 1; self.eat(b':')?; let f = self.name(); self.eat(b':')?; let g = self.name(); Ok(OptFn::SizeOfSub(f, g)) }
            _ => Err("optfn".into()),
        }
    }
    fn list(&mut self) -> Result<Vec<Sh>, String> {
        let mut v = vec![];
        if self.peek() == Some(b')') { self.i += 1; return Ok(v); }
        loop {
            v.push(self.msg()?);
            match self.peek() { Some(b',') => self.i += 1, Some(b')') => { self.i += 1; return Ok(v); } _ => return Err("list".into()) }
        }
    }
    fn msg(&mut self) -> Result<Sh, String> {
        let c = self.peek().ok_or("eof")?;
        self.i += 1;
        match c {
            b'B' => Ok(Sh::U8(self.nat()? as u8)),
            b'H' => { let le = self.peek() == Some(b'l'); self.i += 1; Ok(Sh::U16(le, self.nat()? as u16)) }
            b'W' => { let le = self.peek() == Some(b'l'); self.i += 1; Ok(Sh::U32(le, self.nat()? as u32)) }
            b'X' => { let st = self.i; while self.peek() != Some(b';') { if self.peek().is_none() { return Err("X".into()); } self.i += 1; } let h = std::str::from_utf8(&self.s[st..self.i]).unwrap(); self.i += 1; Ok(Sh::Bytes(if h.is_empty() { vec![] } else { unhex(h) })) }
            b'C' => { self.eat(b'(')?; let m = self.msg()?; self.eat(b')')?; Ok(Sh::Check(Box::new(m))) }
            b'T' => { self.eat(b'(')?; Ok(Sh::Trame(self.list()?)) }
            b'K' => {
                self.eat(b'(')?;
                let mut v = vec![];
                if self.peek() == Some(b')') { self.i += 1; return Ok(Sh::Comp(v)); }
                loop {
                    let n = self.name(); self.eat(b'=')?; let m = self.msg()?; v.push((n, m));
                    match self.peek() { Some(b',') => self.i += 1, Some(b')') => { self.i += 1; return Ok(Sh::Comp(v)); } _ => return Err("fields".into()) }
                }
            }
            b'D' => { self.eat(b'(')?; let m = self.msg()?; self.eat(b'|')?; let f = self.optfn()?; self.eat(b')')?; Ok(Sh::Dyn(Box::new(m), f)) }
            b'O' => { self.eat(b'(')?; if self.peek() == Some(b')') { self.i += 1; Ok(Sh::Opt(None)) } else { let m = self.msg()?; self.eat(b')')?; Ok(Sh::Opt(Some(Box::new(m)))) } }
            b'A' => { self.eat(b'(')?; if self.peek() == Some(b'!') { self.i += 1; self.eat(b'|')?; Ok(Sh::Array(None, self.list()?)) } else { let t = self.msg()?; self.eat(b'|')?; Ok(Sh::Array(Some(Box::new(t)), self.list()?)) } }
            _ => Err(format!("bad tag {}", c as char)),
        }
    }
}
pub fn parse(s: &str) -> Result<Sh, String> {
    let mut p = Ps { s: s.as_bytes(), i: 0 };
    let m = p.msg()?;
    if p.i != s.len() { return Err("trailing".into()); }
    Ok(m)
}

// ------------------------------------------------------------------ building the real message
fn mk_filter_int<T: 'static, G: Fn(&T) -> u64 + Send + 'static>(f: &OptFn, get: G) -> Box<dyn Fn(&T) -> MessageOption + Send> {
    match f.clone() {
        OptFn::None => Box::new(|_| MessageOption::None),
        OptFn::Size(fld, mul, add, sub) => Box::new(move |x| MessageOption::Size(fld.clone(), get(x) as usize * mul + add - sub)),
        OptFn::SizeSat(fld, mul, add, sub) => Box::new(move |x| MessageOption::Size(fld.clone(), (get(x) as usize * mul + add).saturating_sub(sub))),
        OptFn::SkipIf(fld, set, clear) => Box::new(move |x| { let v = get(x); if v & set == 0 || v & clear != 0 { MessageOption::SkipField(fld.clone()) } else { MessageOption::None } }),
        OptFn::SizeOfSub(_, _) => panic!("harness: sizeOfSub on an integer"),
    }
}

fn component(fs: &[(String, Sh)]) -> Component {
    let mut c = Component::new();
    for (n, m) in fs { c.insert(n.clone(), build(m)); }
    c
}
fn trame(ms: &[Sh]) -> Trame { ms.iter().map(build).collect() }

macro_rules! wrap_concrete {
    ($sh:expr, $wrap:ident) => {
        match $sh {
            Sh::U8(v) => $wrap!(*v),
            Sh::U16(le, v) => $wrap!(if *le { U16::LE(*v) } else { U16::BE(*v) }),
            Sh::U32(le, v) => $wrap!(if *le { U32::LE(*v) } else { U32::BE(*v) }),
            Sh::Bytes(b) => $wrap!(b.clone()),
            Sh::Trame(ms) => $wrap!(trame(ms)),
            Sh::Comp(fs) => $wrap!(component(fs)),
            _ => panic!("harness: Option of an unsupported inner type"),
        }
    };
}

pub fn build(sh: &Sh) -> Box<dyn Message> {
    match sh {
        Sh::U8(v) => Box::new(*v),
        Sh::U16(le, v) => Box::new(if *le { U16::LE(*v) } else { U16::BE(*v) }),
        Sh::U32(le, v) => Box::new(if *le { U32::LE(*v) } else { U32::BE(*v) }),
        Sh::Bytes(b) => Box::new(b.clone()),
        Sh::Check(m) => match &**m {
            Sh::U8(v) => Box::new(Check::new(*v)),
            Sh::U16(le, v) => Box::new(Check::new(if *le { U16::LE(*v) } else { U16::BE(*v) })),
            Sh::U32(le, v) => Box::new(Check::new(if *le { U32::LE(*v) } else { U32::BE(*v) })),
            _ => panic!("harness: Check of a non-integer"),
        },
        Sh::Trame(ms) => Box::new(trame(ms)),
        Sh::Comp(fs) => Box::new(component(fs)),
        Sh::Dyn(m, f) => match &**m {
            Sh::U8(v) => Box::new(DynOption::new(*v, mk_filter_int(f, |x: &u8| *x as u64))),
            Sh::U16(le, v) => Box::new(DynOption::new(if *le { U16::LE(*v) } else { U16::BE(*v) }, mk_filter_int(f, |x: &U16| x.inner() as u64))),
            Sh::U32(le, v) => Box::new(DynOption::new(if *le { U32::LE(*v) } else { U32::BE(*v) }, mk_filter_int(f, |x: &U32| x.inner() as u64))),
            Sh::Comp(fs) => {
                let c = component(fs);
                match f.clone() {
                    OptFn::SizeOfSub(fld, sub) => Box::new(DynOption::new(c, move |h: &Component| MessageOption::Size(fld.clone(), cast!(DataType::U16, h[sub.as_str()]).unwrap() as usize))),
                    OptFn::None => Box::new(DynOption::new(c, |_| MessageOption::None)),
                    _ => panic!("harness: integer closure on a component"),
                }
            }
            _ => panic!("harness: DynOption of unsupported inner"),
        },
        Sh::Opt(None) => Box::new(None::<u8>),
        Sh::Opt(Some(m)) => {
            macro_rules! w { ($e:expr) => { Box::new(Some($e)) as Box<dyn Message> }; }
            wrap_concrete!(&**m, w)
        }
        Sh::Array(None, ms) => Box::new(Array::<Trame>::from_trame(trame(ms))),
        Sh::Array(Some(t), ms) => {
            // items already present can only come from from_trame; a template with items is
            // not constructible through the public API, the generator never produces it
            if !ms.is_empty() { return Box::new(Array::<Trame>::from_trame(trame(ms))); }
            let t = (**t).clone();
            match &t {
                Sh::U8(v) => { let v = *v; Box::new(Array::new(move || v)) }
                Sh::U16(le, v) => { let (le, v) = (*le, *v); Box::new(Array::new(move || if le { U16::LE(v) } else { U16::BE(v) })) }
                Sh::U32(le, v) => { let (le, v) = (*le, *v); Box::new(Array::new(move || if le { U32::LE(v) } else { U32::BE(v) })) }
                Sh::Comp(fs) => { let fs = fs.clone(); Box::new(Array::new(move || component(&fs))) }
                Sh::Trame(ms) => { let ms = ms.clone(); Box::new(Array::new(move || trame(&ms))) }
                Sh::Bytes(b) => { let b = b.clone(); Box::new(Array::new(move || b.clone())) }
                _ => panic!("harness: array of unsupported element"),
            }
        }
    }
}

// ------------------------------------------------------------------ canonical dump through visit()
pub fn dump(m: &dyn Message) -> String {
    match m.visit() {
        DataType::U8(v) => format!("B{}", v),
        DataType::U16(v) => format!("H{}", v),
        DataType::U32(v) => format!("W{}", v),
        DataType::Slice(b) => format!("X{}", hex(b)),
        DataType::None => "N".into(),
        DataType::Trame(t) => format!("T({})", t.iter().map(|x| dump(&**x)).collect::<Vec<_>>().join(",")),
        DataType::Component(c) => format!("K({})", c.iter().map(|(n, x)| format!("{}={}", n, dump(&**x))).collect::<Vec<_>>().join(",")),
    }
}

#[allow(dead_code)]
pub fn invalid_cast() -> Error { Error::RdpError(RdpError::new(RdpErrorKind::InvalidCast, "x")) }
