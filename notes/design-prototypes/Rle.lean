namespace Rle

inductive Site | oob | unwrapNone | opcode | overflow
deriving Repr, DecidableEq

inductive Outcome (α : Type) where
  | ok (a : α) | err | panic (s : Site)
deriving Repr

def Outcome.bind {α β} (x : Outcome α) (f : α → Outcome β) : Outcome β :=
  match x with | .ok a => f a | .err => .err | .panic s => .panic s

structure St where
  pos : Nat
  out : Array UInt16
  x : Nat
  height : Nat
  line : Option Nat
  prev : Option Nat
  insertmix : Bool
  c1 : UInt16
  c2 : UInt16
  mix : UInt16
  mask : UInt8
  mixmask : UInt8
  bicolour : Bool
  count : Nat            -- u16 in the source; overflow modelled explicitly

abbrev Input := Array UInt8

def readU8 (inp : Input) (s : St) : Outcome (UInt8 × St) :=
  if h : s.pos < inp.size then .ok (inp[s.pos], { s with pos := s.pos + 1 }) else .err

def readU16 (inp : Input) (s : St) : Outcome (UInt16 × St) :=
  if h : s.pos + 1 < inp.size then
    .ok ((inp[s.pos]).toUInt16 ||| ((inp[s.pos + 1]).toUInt16 <<< 8), { s with pos := s.pos + 2 })
  else .err

/-- `output[line.unwrap() + x] = v` -/
def put (s : St) (v : UInt16) : Outcome St :=
  match s.line with
  | none => .panic .unwrapNone
  | some l => if h : l + s.x < s.out.size then .ok { s with out := s.out.set (l + s.x) v } else .panic .oob

/-- `output[e + x]` -/
def above (s : St) (e : Nat) : Outcome UInt16 :=
  if h : e + s.x < s.out.size then .ok s.out[e + s.x] else .panic .oob

/-- `if let Some(e) = prevline { out = f(output[e + x]) } else { out = d }` -/
def putAbove (s : St) (f : UInt16 → UInt16) (d : UInt16) : Outcome St :=
  match s.prev with
  | some e => (above s e).bind fun v => put s (f v)
  | none => put s d

/-- `mixmask <<= 1; if mixmask == 0 { mask = fom_mask or next byte; mixmask = 1 }` -/
def maskStep (inp : Input) (fom : UInt8) (s : St) : Outcome St :=
  if s.mixmask <<< 1 = 0 then
    if fom ≠ 0 then .ok { s with mask := fom, mixmask := 1 }
    else (readU8 inp s).bind fun bs => .ok { bs.2 with mask := bs.1, mixmask := 1 }
  else .ok { s with mixmask := s.mixmask <<< 1 }

def bit (s : St) : Bool := (s.mask &&& s.mixmask) ≠ 0

/-- the `$expr` of `repeat!` for each (normalised) opcode; `fom` is fom_mask -/
def expr (inp : Input) (op : Nat) (fom : UInt8) (s : St) : Outcome St :=
  match op with
  | 0 => putAbove s (fun v => v) 0
  | 1 => putAbove s (fun v => v ^^^ s.mix) s.mix
  | 2 => (maskStep inp fom s).bind fun s1 =>
           putAbove s1 (fun v => if bit s1 then v ^^^ s1.mix else v) (if bit s1 then s1.mix else 0)
  | 3 => put s s.c2
  | 4 => (readU16 inp s).bind fun vs => put vs.2 vs.1
  | 8 =>
    if s.bicolour then (put s s.c2).bind fun s' => .ok { s' with bicolour := false }
    else (put s s.c1).bind fun s' =>
      if s'.count + 1 > 65535 then .panic .overflow else .ok { s' with bicolour := true, count := s'.count + 1 }
  | 13 => put s 0xffff
  | 14 => put s 0
  | _ => .panic .opcode

/-- `$expr; $count -= 1; $x += 1;` -/
def exprStep (inp : Input) (op : Nat) (fom : UInt8) (s : St) : Outcome St :=
  (expr inp op fom s).bind fun s' =>
    if s'.count = 0 then .panic .overflow else .ok { s' with count := s'.count - 1, x := s'.x + 1 }

def times : Nat → (St → Outcome St) → St → Outcome St
  | 0, _, s => .ok s
  | n+1, f, s => (f s).bind (times n f)

/-- first loop of `repeat!`: `while (count & !7) != 0 && x + 8 < width { 8 × step }` -/
def loop8 (inp : Input) (op : Nat) (fom : UInt8) (w : Nat) : Nat → St → Outcome St
  | 0, s => .ok s
  | f+1, s =>
    if s.count ≥ 8 ∧ s.x + 8 < w then (times 8 (exprStep inp op fom) s).bind (loop8 inp op fom w f)
    else .ok s

/-- second loop: `while count > 0 && x < width { step }` -/
def loop1 (inp : Input) (op : Nat) (fom : UInt8) (w : Nat) : Nat → St → Outcome St
  | 0, s => .ok s
  | f+1, s =>
    if s.count > 0 ∧ s.x < w then (exprStep inp op fom s).bind (loop1 inp op fom w f)
    else .ok s

def repeatM (inp : Input) (op : Nat) (fom : UInt8) (w : Nat) (s : St) : Outcome St :=
  (loop8 inp op fom w (w + 1) s).bind (loop1 inp op fom w (w + 1))

/-- new-line step at the top of `while count > 0` -/
def newline (w : Nat) (s : St) : Outcome St :=
  if s.x ≥ w then
    if s.height = 0 then .err
    else .ok { s with x := 0, height := s.height - 1, prev := s.line, line := some ((s.height - 1) * w) }
  else .ok s

/-- body of `while count > 0` -/
def body (inp : Input) (op : Nat) (fom : UInt8) (w : Nat) (s : St) : Outcome St :=
  (newline w s).bind fun s1 =>
    if op = 0 ∧ s1.insertmix = true then
      (putAbove s1 (fun v => v ^^^ s1.mix) s1.mix).bind fun s2 =>
        repeatM inp op fom w { s2 with insertmix := false, count := s2.count - 1, x := s2.x + 1 }
    else repeatM inp op fom w s1

def pixels (inp : Input) (op : Nat) (fom : UInt8) (w : Nat) : Nat → St → Outcome St
  | 0, s => .ok s          -- fuel exhausted (shown unreachable separately)
  | f+1, s =>
    if s.count > 0 then (body inp op fom w s).bind (pixels inp op fom w f)
    else .ok s

end Rle
