import Leanspike.RleSafe
namespace Rle

def SameLines (s s' : St) : Prop :=
  s'.height = s.height ∧ s'.line = s.line ∧ s'.prev = s.prev ∧ s'.out.size = s.out.size
    ∧ s'.insertmix = s.insertmix

theorem SameLines.refl (s : St) : SameLines s s := ⟨rfl, rfl, rfl, rfl, rfl⟩
theorem SameLines.trans {a b c : St} (h1 : SameLines a b) (h2 : SameLines b c) : SameLines a c := by
  obtain ⟨a2, a3, a4, a5, a6⟩ := h1; obtain ⟨b2, b3, b4, b5, b6⟩ := h2
  exact ⟨by rw [b2, a2], by rw [b3, a3], by rw [b4, a4], by rw [b5, a5], by rw [b6, a6]⟩
theorem SameGeo.lines {s s' : St} (g : SameGeo s s') : SameLines s s' :=
  ⟨g.2.1, g.2.2.1, g.2.2.2.1, g.2.2.2.2.1, g.2.2.2.2.2⟩

theorem Inv.move {w h0 : Nat} {s s' : St} (h : Inv w h0 s) (g : SameLines s s')
    (hx : s'.x ≤ w) (hl : s'.x < w → s.line ≠ none) : Inv w h0 s' := by
  obtain ⟨g2, g3, g4, g5, _⟩ := g
  exact ⟨by rw [g5]; exact h.size, by rw [g2]; exact h.hle, hx, by rw [g3, g4]; exact h.lineNone,
    by rw [g3, g2]; exact h.lineSome, by rw [g4, g2]; exact h.prevSome, by rw [g3]; exact hl⟩

theorem Inv.move4 {w h0 : Nat} {s s' : St} (h : Inv w h0 s)
    (g2 : s'.height = s.height) (g3 : s'.line = s.line) (g4 : s'.prev = s.prev) (g5 : s'.out.size = s.out.size)
    (hx : s'.x ≤ w) (hl : s'.x < w → s.line ≠ none) : Inv w h0 s' :=
  ⟨by rw [g5]; exact h.size, by rw [g2]; exact h.hle, hx, by rw [g3, g4]; exact h.lineNone,
    by rw [g3, g2]; exact h.lineSome, by rw [g4, g2]; exact h.prevSome, by rw [g3]; exact hl⟩

/-- every `$expr` is index-safe and leaves the geometry alone -/
theorem expr_safe {w h0 : Nat} (inp : Input) (op : Nat) (fom : UInt8) {s : St}
    (h : Inv w h0 s) (hx : s.x < w) :
    Safe (expr inp op fom s) (fun s' => SameGeo s s') := by
  unfold expr
  split
  · exact (putAbove_safe h hx _ _).mono (fun _ hs => hs.1)
  · exact (putAbove_safe h hx _ _).mono (fun _ hs => hs.1)
  · refine (maskStep_safe inp fom s).bind ?_
    intro s1 ⟨g1, _⟩
    have h1 : Inv w h0 s1 := h.of_geo g1
    have hx1 : s1.x < w := by rw [g1.1]; exact hx
    exact (putAbove_safe h1 hx1 _ _).mono (fun _ hs => g1.trans hs.1)
  · exact (put_safe h hx _).mono (fun _ hs => hs.1)
  · refine (readU16_safe inp s).bind ?_
    intro vs ⟨g1, _⟩
    have h1 : Inv w h0 vs.2 := h.of_geo g1
    have hx1 : vs.2.x < w := by rw [g1.1]; exact hx
    exact (put_safe h1 hx1 _).mono (fun _ hs => g1.trans hs.1)
  · split
    · refine (put_safe h hx _).bind ?_
      intro s' ⟨g, _⟩
      exact ⟨g.1, g.2.1, g.2.2.1, g.2.2.2.1, g.2.2.2.2.1, g.2.2.2.2.2⟩
    · refine (put_safe h hx _).bind ?_
      intro s' ⟨g, _⟩
      split
      · right; rfl
      · exact ⟨g.1, g.2.1, g.2.2.1, g.2.2.2.1, g.2.2.2.2.1, g.2.2.2.2.2⟩
  · exact (put_safe h hx _).mono (fun _ hs => hs.1)
  · exact (put_safe h hx _).mono (fun _ hs => hs.1)
  · left; rfl

/-- one macro step: safe, moves `x` by one, keeps the lines -/
theorem exprStep_safe {w h0 : Nat} (inp : Input) (op : Nat) (fom : UInt8) {s : St}
    (h : Inv w h0 s) (hx : s.x < w) :
    Safe (exprStep inp op fom s) (fun s' => Inv w h0 s' ∧ SameLines s s' ∧ s'.x = s.x + 1) := by
  unfold exprStep
  refine (expr_safe inp op fom h hx).bind ?_
  intro s1 g
  split
  · right; rfl
  · have hx1 : s1.x = s.x := g.1
    refine ⟨?_, ?_, ?_⟩
    · refine (h.of_geo g).move ⟨rfl, rfl, rfl, rfl, rfl⟩ (by simp; omega) ?_
      intro _; rw [g.2.2.1]; exact h.xlt hx
    · exact g.lines
    · simp [hx1]

theorem times_safe {w h0 : Nat} (inp : Input) (op : Nat) (fom : UInt8) (n : Nat) {s : St}
    (h : Inv w h0 s) (hx : s.x + n ≤ w) :
    Safe (times n (exprStep inp op fom) s) (fun s' => Inv w h0 s' ∧ SameLines s s' ∧ s'.x = s.x + n) := by
  induction n generalizing s with
  | zero => exact ⟨h, SameLines.refl s, rfl⟩
  | succ n ih =>
    unfold times
    refine (exprStep_safe inp op fom h (by omega)).bind ?_
    intro s1 ⟨h1, l1, x1⟩
    refine (ih h1 (by omega)).mono ?_
    intro s2 ⟨h2, l2, x2⟩
    exact ⟨h2, l1.trans l2, by omega⟩

theorem loop8_safe {w h0 : Nat} (inp : Input) (op : Nat) (fom : UInt8) (f : Nat) {s : St} (h : Inv w h0 s) :
    Safe (loop8 inp op fom w f s) (fun s' => Inv w h0 s' ∧ SameLines s s') := by
  induction f generalizing s with
  | zero => exact ⟨h, SameLines.refl s⟩
  | succ f ih =>
    unfold loop8
    split
    · rename_i hc
      refine (times_safe inp op fom 8 h (by omega)).bind ?_
      intro s1 ⟨h1, l1, _⟩
      exact (ih h1).mono (fun s2 ⟨h2, l2⟩ => ⟨h2, l1.trans l2⟩)
    · exact ⟨h, SameLines.refl s⟩

theorem loop1_safe {w h0 : Nat} (inp : Input) (op : Nat) (fom : UInt8) (f : Nat) {s : St} (h : Inv w h0 s) :
    Safe (loop1 inp op fom w f s) (fun s' => Inv w h0 s' ∧ SameLines s s') := by
  induction f generalizing s with
  | zero => exact ⟨h, SameLines.refl s⟩
  | succ f ih =>
    unfold loop1
    split
    · rename_i hc
      refine (exprStep_safe inp op fom h hc.2).bind ?_
      intro s1 ⟨h1, l1, _⟩
      exact (ih h1).mono (fun s2 ⟨h2, l2⟩ => ⟨h2, l1.trans l2⟩)
    · exact ⟨h, SameLines.refl s⟩

theorem repeatM_safe {w h0 : Nat} (inp : Input) (op : Nat) (fom : UInt8) {s : St} (h : Inv w h0 s) :
    Safe (repeatM inp op fom w s) (fun s' => Inv w h0 s' ∧ s'.insertmix = s.insertmix) := by
  unfold repeatM
  refine (loop8_safe inp op fom (w + 1) h).bind ?_
  intro s1 ⟨h1, l1⟩
  exact (loop1_safe inp op fom (w + 1) h1).mono (fun s2 ⟨h2, l2⟩ => ⟨h2, (l1.trans l2).2.2.2.2⟩)

theorem newline_safe {w h0 : Nat} {s : St} (h : Inv w h0 s) :
    Safe (newline w s) (fun s' => Inv w h0 s' ∧ s'.insertmix = s.insertmix ∧ (0 < w → s'.x < w)) := by
  unfold newline
  split
  · split
    · trivial
    · rename_i hxw hh
      have hhle := h.hle
      refine ⟨⟨h.size, by simp; omega, by simp, ?_, ?_, ?_, by simp⟩, rfl, by simp⟩
      · simp
      · intro l hl
        simp at hl
        exact ⟨hl.symm, by simp; omega⟩
      · intro e he
        simp at he
        obtain ⟨rfl, hlt⟩ := h.lineSome e he
        constructor
        · simp; congr 1; omega
        · simp; omega
  · rename_i hxw
    exact ⟨h, rfl, fun _ => by omega⟩

/-- one iteration of `while count > 0`: index-safe; with `w = 0` the unguarded insert-mix write is never reached -/
theorem body_safe {w h0 : Nat} (inp : Input) (op : Nat) (fom : UInt8) {s : St}
    (h : Inv w h0 s) (hw : w = 0 → s.insertmix = false) :
    Safe (body inp op fom w s) (fun s' => Inv w h0 s' ∧ (w = 0 → s'.insertmix = false)) := by
  unfold body
  refine (newline_safe h).bind ?_
  intro s1 ⟨h1, i1, x1⟩
  split
  · rename_i hc
    have hwpos : 0 < w := by
      rcases Nat.eq_zero_or_pos w with hz | hp
      · have := hw hz; rw [← i1, hc.2] at this; cases this
      · exact hp
    refine (putAbove_safe h1 (x1 hwpos) _ _).bind ?_
    intro s2 ⟨g2, _⟩
    have h2 : Inv w h0 { s2 with insertmix := false, count := s2.count - 1, x := s2.x + 1 } := by
      refine (h1.of_geo g2).move4 rfl rfl rfl rfl ?_ ?_
      · have := x1 hwpos; simp [g2.1]; omega
      · intro _; rw [g2.2.2.1]; exact h1.xlt (x1 hwpos)
    exact (repeatM_safe inp op fom h2).mono (fun s3 ⟨h3, i3⟩ => ⟨h3, fun _ => by rw [i3]⟩)
  · exact (repeatM_safe inp op fom h1).mono (fun s3 ⟨h3, i3⟩ => ⟨h3, fun hz => by rw [i3, i1]; exact hw hz⟩)

/-- the whole pixel loop of one order never indexes out of range and never unwraps `None` -/
theorem pixels_safe {w h0 : Nat} (inp : Input) (op : Nat) (fom : UInt8) (fuel : Nat) {s : St}
    (h : Inv w h0 s) (hw : w = 0 → s.insertmix = false) :
    Safe (pixels inp op fom w fuel s) (fun s' => Inv w h0 s' ∧ (w = 0 → s'.insertmix = false)) := by
  induction fuel generalizing s with
  | zero => exact ⟨h, hw⟩
  | succ f ih =>
    unfold pixels
    split
    · exact (body_safe inp op fom h hw).bind (fun s1 ⟨h1, hw1⟩ => ih h1 hw1)
    · exact ⟨h, hw⟩

/-- the initial state of `rle_16_decompress` satisfies the invariant for the buffer `BitmapEvent::decompress` allocates -/
theorem init_inv (w h0 : Nat) (out : Array UInt16) (hsz : out.size = w * h0 * 2) :
    Inv w h0 { pos := 0, out := out, x := w, height := h0, line := none, prev := none, insertmix := false,
               c1 := 0, c2 := 0, mix := 0xffff, mask := 0, mixmask := 0, bicolour := false, count := 0 } := by
  refine ⟨?_, Nat.le_refl _, Nat.le_refl _, fun _ => rfl, ?_, ?_, ?_⟩
  · simp [hsz]; rw [Nat.mul_comm h0 w]; omega
  · intro l hl; cases hl
  · intro e he; cases he
  · intro hx; simp at hx

end Rle
