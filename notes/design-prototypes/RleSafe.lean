import Leanspike.Rle
namespace Rle

/-- geometric invariant of the decoder state -/
structure Inv (w h0 : Nat) (s : St) : Prop where
  size : h0 * w ≤ s.out.size
  hle : s.height ≤ h0
  xle : s.x ≤ w
  lineNone : s.line = none → s.prev = none
  lineSome : ∀ l, s.line = some l → l = s.height * w ∧ s.height < h0
  prevSome : ∀ e, s.prev = some e → e = (s.height + 1) * w ∧ s.height + 1 < h0
  xlt : s.x < w → s.line ≠ none

/-- result is fine: a value satisfying P, an error, or one of the two non-index panic sites -/
def Safe {α : Type} (r : Outcome α) (P : α → Prop) : Prop :=
  match r with
  | .ok a => P a
  | .err => True
  | .panic p => p = .opcode ∨ p = .overflow

theorem Safe.bind {α β : Type} {r : Outcome α} {P : α → Prop} {Q : β → Prop} {f : α → Outcome β}
    (h : Safe r P) (hf : ∀ a, P a → Safe (f a) Q) : Safe (r.bind f) Q := by
  cases r with
  | ok a => exact hf a h
  | err => trivial
  | panic p => exact h

theorem Safe.mono {α : Type} {r : Outcome α} {P Q : α → Prop} (h : Safe r P) (hpq : ∀ a, P a → Q a) : Safe r Q := by
  cases r with
  | ok a => exact hpq a h
  | err => trivial
  | panic p => exact h

/-- everything `Inv` looks at, plus the flag the caller cares about -/
def SameGeo (s s' : St) : Prop :=
  s'.x = s.x ∧ s'.height = s.height ∧ s'.line = s.line ∧ s'.prev = s.prev ∧ s'.out.size = s.out.size
    ∧ s'.insertmix = s.insertmix

theorem SameGeo.refl (s : St) : SameGeo s s := ⟨rfl, rfl, rfl, rfl, rfl, rfl⟩
theorem SameGeo.trans {a b c : St} (h1 : SameGeo a b) (h2 : SameGeo b c) : SameGeo a c := by
  obtain ⟨a1, a2, a3, a4, a5, a6⟩ := h1; obtain ⟨b1, b2, b3, b4, b5, b6⟩ := h2
  exact ⟨by rw [b1, a1], by rw [b2, a2], by rw [b3, a3], by rw [b4, a4], by rw [b5, a5], by rw [b6, a6]⟩

theorem Inv.of_geo {w h0 : Nat} {s s' : St} (h : Inv w h0 s) (g : SameGeo s s') : Inv w h0 s' := by
  obtain ⟨g1, g2, g3, g4, g5, _⟩ := g
  exact ⟨by rw [g5]; exact h.size, by rw [g2]; exact h.hle, by rw [g1]; exact h.xle,
    by rw [g3, g4]; exact h.lineNone, by rw [g3, g2]; exact h.lineSome,
    by rw [g4, g2]; exact h.prevSome, by rw [g1, g3]; exact h.xlt⟩

theorem mul_bound {a b w x : Nat} (h1 : a < b) (hx : x < w) : a * w + x < b * w := by
  have : (a + 1) * w ≤ b * w := Nat.mul_le_mul_right w h1
  rw [Nat.add_mul] at this; omega

theorem put_safe {w h0 : Nat} {s : St} (h : Inv w h0 s) (hx : s.x < w) (v : UInt16) :
    Safe (put s v) (fun s' => SameGeo s s' ∧ s'.count = s.count) := by
  unfold put
  cases hl : s.line with
  | none => exact absurd hl (h.xlt hx)
  | some l =>
    obtain ⟨rfl, hh⟩ := h.lineSome l hl
    have hb : s.height * w + s.x < s.out.size := Nat.lt_of_lt_of_le (mul_bound hh hx) h.size
    simp only [hb, dite_true]
    exact ⟨⟨rfl, rfl, by simp [hl], rfl, by simp, rfl⟩, rfl⟩

theorem above_safe {w h0 : Nat} {s : St} (h : Inv w h0 s) (hx : s.x < w) {e : Nat} (he : s.prev = some e) :
    Safe (above s e) (fun _ => True) := by
  unfold above
  obtain ⟨rfl, hh⟩ := h.prevSome e he
  have hb : (s.height + 1) * w + s.x < s.out.size := Nat.lt_of_lt_of_le (mul_bound hh hx) h.size
  simp only [hb, dite_true]
  trivial

theorem putAbove_safe {w h0 : Nat} {s : St} (h : Inv w h0 s) (hx : s.x < w) (f : UInt16 → UInt16) (d : UInt16) :
    Safe (putAbove s f d) (fun s' => SameGeo s s' ∧ s'.count = s.count) := by
  unfold putAbove
  cases hp : s.prev with
  | none => exact put_safe h hx d
  | some e => exact (above_safe h hx hp).bind (fun v _ => put_safe h hx (f v))

theorem readU8_safe (inp : Input) (s : St) :
    Safe (readU8 inp s) (fun bs => SameGeo s bs.2 ∧ bs.2.count = s.count) := by
  unfold readU8; split
  · exact ⟨⟨rfl, rfl, rfl, rfl, rfl, rfl⟩, rfl⟩
  · trivial

theorem readU16_safe (inp : Input) (s : St) :
    Safe (readU16 inp s) (fun vs => SameGeo s vs.2 ∧ vs.2.count = s.count) := by
  unfold readU16; split
  · exact ⟨⟨rfl, rfl, rfl, rfl, rfl, rfl⟩, rfl⟩
  · trivial

theorem maskStep_safe (inp : Input) (fom : UInt8) (s : St) :
    Safe (maskStep inp fom s) (fun s1 => SameGeo s s1 ∧ s1.count = s.count) := by
  unfold maskStep
  split
  · split
    · exact ⟨⟨rfl, rfl, rfl, rfl, rfl, rfl⟩, rfl⟩
    · exact (readU8_safe inp s).bind (fun bs ⟨g, c⟩ => ⟨⟨g.1, g.2.1, g.2.2.1, g.2.2.2.1, g.2.2.2.2.1, g.2.2.2.2.2⟩, c⟩)
  · exact ⟨⟨rfl, rfl, rfl, rfl, rfl, rfl⟩, rfl⟩

end Rle
