import Leanspike.Gen
namespace Gen

theorem takeExact_append' (n : Nat) (a r : Bytes) (h : a.length = n) : takeExact n (a ++ r) = .ok (a, r) := by
  subst h; simp

theorem u8_roundtrip (v : Nat) (h : v < 256) : leNat [UInt8.ofNat v] = v := by
  simp [leNat]; omega

mutual
theorem read_enc (g : Bool) (t m : Msg) (rest : Bytes) (h : OK g t m) (hg : g = true → rest = []) :
    read t (enc m ++ rest) = .ok (m, rest) := by
  match t, m with
  | .u8 _, .u8 v =>
    simp only [OK] at h
    simp [read, enc, takeExact, u8_roundtrip v h]
  | .u16 e _, .u16 e' v =>
    simp only [OK] at h
    obtain ⟨rfl, hv⟩ := h
    simp [read, enc, takeExact_append' 2 _ _ (encInt_length e 2 v), decInt_encInt e 2 v (by simpa using hv)]
  | .u32 e _, .u32 e' v =>
    simp only [OK] at h
    obtain ⟨rfl, hv⟩ := h
    simp [read, enc, takeExact_append' 4 _ _ (encInt_length e 4 v), decInt_encInt e 4 v (by simpa using hv)]
  | .bytes tb, .bytes b =>
    simp only [OK] at h
    rcases h with ⟨hl, hne⟩ | ⟨hz, hgt⟩
    · simp [read, enc, hne, takeExact_append' tb.length b rest hl.symm]
    · have := hg hgt; subst this
      simp [read, enc, hz]
  | .check t', .check m' =>
    simp only [OK] at h
    obtain ⟨rfl, hok⟩ := h
    have ih := read_enc g m' m' rest hok hg
    simp [read, enc, ih]
  | .trame ts, .trame ms =>
    simp only [OK] at h
    have ih := readList_enc g ts ms rest h hg
    simp [read, enc, ih]
  | .comp ts, .comp ms =>
    simp only [OK] at h
    have ih := readFields_enc g ts ms [] [] rest h hg
    simp [read, enc, ih]
  | .dyn t' f, .dyn m' f' =>
    simp only [OK] at h
    obtain ⟨rfl, hok⟩ := h
    have ih := read_enc g t' m' rest hok hg
    simp [read, enc, ih]
  | .u8 _, .u16 _ _ | .u8 _, .u32 _ _ | .u8 _, .bytes _ | .u8 _, .check _ | .u8 _, .trame _ | .u8 _, .comp _ | .u8 _, .dyn _ _ => simp [OK] at h
  | .u16 _ _, .u8 _ | .u16 _ _, .u32 _ _ | .u16 _ _, .bytes _ | .u16 _ _, .check _ | .u16 _ _, .trame _ | .u16 _ _, .comp _ | .u16 _ _, .dyn _ _ => simp [OK] at h
  | .u32 _ _, .u8 _ | .u32 _ _, .u16 _ _ | .u32 _ _, .bytes _ | .u32 _ _, .check _ | .u32 _ _, .trame _ | .u32 _ _, .comp _ | .u32 _ _, .dyn _ _ => simp [OK] at h
  | .bytes _, .u8 _ | .bytes _, .u16 _ _ | .bytes _, .u32 _ _ | .bytes _, .check _ | .bytes _, .trame _ | .bytes _, .comp _ | .bytes _, .dyn _ _ => simp [OK] at h
  | .check _, .u8 _ | .check _, .u16 _ _ | .check _, .u32 _ _ | .check _, .bytes _ | .check _, .trame _ | .check _, .comp _ | .check _, .dyn _ _ => simp [OK] at h
  | .trame _, .u8 _ | .trame _, .u16 _ _ | .trame _, .u32 _ _ | .trame _, .bytes _ | .trame _, .check _ | .trame _, .comp _ | .trame _, .dyn _ _ => simp [OK] at h
  | .comp _, .u8 _ | .comp _, .u16 _ _ | .comp _, .u32 _ _ | .comp _, .bytes _ | .comp _, .check _ | .comp _, .trame _ | .comp _, .dyn _ _ => simp [OK] at h
  | .dyn _ _, .u8 _ | .dyn _ _, .u16 _ _ | .dyn _ _, .u32 _ _ | .dyn _ _, .bytes _ | .dyn _ _, .check _ | .dyn _ _, .trame _ | .dyn _ _, .comp _ => simp [OK] at h
theorem readList_enc (g : Bool) (ts ms : List Msg) (rest : Bytes) (h : OKList g ts ms) (hg : g = true → rest = []) :
    readList ts (encList ms ++ rest) = .ok (ms, rest) := by
  match ts, ms with
  | [], [] => simp [readList, encList]
  | t :: ts', m :: ms' =>
    simp only [OKList] at h
    obtain ⟨h1, h2⟩ := h
    have hempty : (g && ts'.isEmpty) = true → encList ms' ++ rest = [] := by
      intro hh
      simp at hh
      obtain ⟨hgt, hts⟩ := hh
      subst hts
      cases ms' with
      | nil => simp [encList, hg hgt]
      | cons a l => simp [OKList] at h2
    have ih1 := read_enc (g && ts'.isEmpty) t m (encList ms' ++ rest) h1 hempty
    have ih2 := readList_enc g ts' ms' rest h2 hg
    simp [readList, encList, List.append_assoc, ih1, ih2]
  | [], _ :: _ => simp [OKList] at h
  | _ :: _, [] => simp [OKList] at h
theorem readFields_enc (g : Bool) (ts ms : List (String × Msg)) (skip : List String) (ds : List (String × Nat))
    (rest : Bytes) (h : OKFields g ts ms skip ds) (hg : g = true → rest = []) :
    readFields ts skip ds (encFields ms skip ++ rest) = .ok (ms, rest) := by
  match ts, ms with
  | [], [] => simp [readFields, encFields]
  | (n, t) :: ts', (n', m) :: ms' =>
    simp only [OKFields] at h
    obtain ⟨rfl, h⟩ := h
    by_cases hs : n ∈ skip
    · have hc : skip.contains n = true := by simpa using hs
      simp only [hc, if_true] at h
      obtain ⟨rfl, h2⟩ := h
      have ih := readFields_enc g ts' ms' skip ds rest h2 hg
      simp [readFields, encFields, hs, ih]
    · have hc : ¬ (skip.contains n = true) := by simpa using hs
      simp only [hc, if_false] at h
      obtain ⟨o, ho, hm, h2⟩ := h
      have ih2 := readFields_enc g ts' ms' (addSkip o skip) (addSize o ds) rest h2 hg
      cases hl : lookupSize ds n with
      | some k =>
        simp only [hl] at hm
        obtain ⟨hk, hok⟩ := hm
        have ih1 := read_enc true t m [] hok (fun _ => rfl)
        simp only [List.append_nil] at ih1
        simp [readFields, encFields, hs, ho, hl, List.append_assoc, takeExact_append' k _ _ hk, ih1, ih2]
      | none =>
        simp only [hl] at hm
        have hempty : (g && ts'.isEmpty) = true → encFields ms' (addSkip o skip) ++ rest = [] := by
          intro hh
          simp at hh
          obtain ⟨hgt, hts⟩ := hh
          subst hts
          cases ms' with
          | nil => simp [encFields, hg hgt]
          | cons a l => simp [OKFields] at h2
        have ih1 := read_enc (g && ts'.isEmpty) t m (encFields ms' (addSkip o skip) ++ rest) hm hempty
        simp [readFields, encFields, hs, ho, hl, List.append_assoc, ih1, ih2]
  | [], _ :: _ => simp [OKFields] at h
  | _ :: _, [] => simp [OKFields] at h
end

end Gen
