namespace Sched

inductive Outcome (α : Type) where
  | ok (a : α) | err (e : String) | panic (site : String)
deriving Repr

abbrev Bytes := List UInt8

/-- transport: pending bytes plus a schedule of per-`read` caps (each ≥ 1; missing = unbounded) -/
structure Transport where
  data : Bytes
  sched : List Nat
deriving Repr

/-- one `read(buf)` call with `buf.len = n` (n > 0): returns at most the next cap bytes -/
def rd (n : Nat) (t : Transport) : Bytes × Transport :=
  let cap := match t.sched with | [] => n | c :: _ => min n (max c 1)
  (t.data.take cap, ⟨t.data.drop cap, t.sched.tail⟩)

/-- std `read_exact`: loop until n bytes, EOF (0 bytes read) is an error. fuel = n. -/
def readExact : (fuel : Nat) → (n : Nat) → Transport → Outcome (Bytes × Transport)
  | _, 0, t => .ok ([], t)
  | 0, _+1, _ => .err "fuel"
  | f+1, n+1, t =>
    let (got, t') := rd (n+1) t
    if got.length = 0 then .err "eof" else
    match readExact f (n + 1 - got.length) t' with
    | .ok (more, t'') => .ok (got ++ more, t'')
    | .err e => .err e
    | .panic p => .panic p

theorem rd_len (n : Nat) (t : Transport) (hn : 0 < n) (hd : t.data ≠ []) :
    0 < (rd n t).1.length ∧ (rd n t).1.length ≤ n := by
  unfold rd
  cases hs : t.sched with
  | nil => simp; constructor
           · cases hdd : t.data with
             | nil => exact absurd hdd hd
             | cons a l => simp; omega
           · omega
  | cons c cs => simp; constructor
                 · cases hdd : t.data with
                   | nil => exact absurd hdd hd
                   | cons a l => simp; omega
                 · omega

/-- schedule independence: with enough data `readExact` returns exactly the first n bytes -/
theorem readExact_ok (f n : Nat) (t : Transport) (hf : n ≤ f) (hlen : n ≤ t.data.length) :
    ∃ s', readExact f n t = .ok (t.data.take n, ⟨t.data.drop n, s'⟩) := by
  induction f generalizing n t with
  | zero =>
    have : n = 0 := by omega
    subst this; exact ⟨t.sched, by simp [readExact]⟩
  | succ f ih =>
    cases n with
    | zero => exact ⟨t.sched, by simp [readExact]⟩
    | succ n =>
      have hd : t.data ≠ [] := by intro h; simp [h] at hlen
      have hr := rd_len (n+1) t (by omega) hd
      simp only [readExact]
      have hne : ¬ (rd (n+1) t).1.length = 0 := by omega
      simp only [hne, if_false]
      -- shape of rd
      have hshape : ∃ cap, 0 < cap ∧ cap ≤ n + 1 ∧ (rd (n+1) t) = (t.data.take cap, ⟨t.data.drop cap, t.sched.tail⟩) := by
        unfold rd
        cases hs : t.sched with
        | nil => exact ⟨n+1, by omega, by omega, by simp⟩
        | cons c cs => exact ⟨min (n+1) (max c 1), by omega, by omega, by simp⟩
      obtain ⟨cap, hc0, hc1, hrd⟩ := hshape
      rw [hrd]
      simp only
      have hl : (t.data.take cap).length = cap := by simp; omega
      rw [hl]
      obtain ⟨s', hs'⟩ := ih (n + 1 - cap) ⟨t.data.drop cap, t.sched.tail⟩ (by omega) (by simp; omega)
      rw [hs']
      refine ⟨s', ?_⟩
      simp only [Outcome.ok.injEq, Prod.mk.injEq, Transport.mk.injEq, and_true]
      constructor
      · have : n + 1 = cap + (n + 1 - cap) := by omega
        rw [this, List.take_add]
        congr 1
        have : cap + (n + 1 - cap) - cap = n + 1 - cap := by omega
        simp
      · simp [List.drop_drop]; congr 1; omega

end Sched
