namespace Gen

inductive Outcome (α : Type) where
  | ok (a : α) | err (e : String) | panic (site : String)
deriving Repr

@[inline] def Outcome.bind {α β} (x : Outcome α) (f : α → Outcome β) : Outcome β :=
  match x with | .ok a => f a | .err e => .err e | .panic s => .panic s

instance : Monad Outcome where
  pure := .ok
  bind := Outcome.bind

@[simp] theorem ok_bind {α β} (a : α) (f : α → Outcome β) : (Outcome.ok a >>= f) = f a := rfl
@[simp] theorem err_bind {α β} (e : String) (f : α → Outcome β) : (Outcome.err e >>= f) = .err e := rfl
@[simp] theorem panic_bind {α β} (e : String) (f : α → Outcome β) : (Outcome.panic e >>= f) = .panic e := rfl
@[simp] theorem pure_eq {α} (a : α) : (pure a : Outcome α) = .ok a := rfl

abbrev Bytes := List UInt8
inductive Endian | le | be deriving Repr, DecidableEq

inductive OptFn where
  | none
  | size (field : String) (mul add sub : Nat)
  | skipIfMaskZero (field : String) (mask : Nat)
deriving Repr, DecidableEq

inductive MOpt where
  | none | skip (f : String) | size (f : String) (n : Nat)
deriving Repr, DecidableEq

inductive Msg where
  | u8 (v : Nat)
  | u16 (e : Endian) (v : Nat)
  | u32 (e : Endian) (v : Nat)
  | bytes (b : Bytes)
  | check (m : Msg)
  | trame (ms : List Msg)
  | comp (fs : List (String × Msg))
  | dyn (m : Msg) (f : OptFn)
deriving Repr

def leBytes (n : Nat) : Nat → Bytes
  | 0 => []
  | k+1 => UInt8.ofNat (n % 256) :: leBytes (n / 256) k
def leNat : Bytes → Nat
  | [] => 0
  | b :: bs => b.toNat + 256 * leNat bs
def encInt (e : Endian) (w v : Nat) : Bytes := match e with | .le => leBytes v w | .be => (leBytes v w).reverse
def decInt (e : Endian) (b : Bytes) : Nat := match e with | .le => leNat b | .be => leNat b.reverse

theorem leBytes_length (n w : Nat) : (leBytes n w).length = w := by
  induction w generalizing n with
  | zero => simp [leBytes]
  | succ k ih => simp [leBytes, ih]
theorem leNat_leBytes (w n : Nat) (h : n < 256 ^ w) : leNat (leBytes n w) = n := by
  induction w generalizing n with
  | zero => simp [leBytes, leNat] at *; omega
  | succ k ih =>
    simp [leBytes, leNat]
    have : n / 256 < 256 ^ k := by rw [Nat.pow_succ] at h; omega
    rw [ih _ this]; omega
@[simp] theorem encInt_length (e : Endian) (w v : Nat) : (encInt e w v).length = w := by
  cases e <;> simp [encInt, leBytes_length]
theorem decInt_encInt (e : Endian) (w v : Nat) (h : v < 256 ^ w) : decInt e (encInt e w v) = v := by
  cases e <;> simp [encInt, decInt, leNat_leBytes _ _ h]

def intVal : Msg → Option Nat
  | .u8 v => some v | .u16 _ v => some v | .u32 _ v => some v
  | .dyn m _ => intVal m | .check m => intVal m
  | _ => none

def evalOpt (f : OptFn) (m : Msg) : Outcome MOpt :=
  match f with
  | .none => .ok .none
  | .size fld mul add sub =>
    match intVal m with
    | some v => if v * mul + add < sub then .panic "usize underflow" else .ok (.size fld (v * mul + add - sub))
    | none => .panic "closure arg"
  | .skipIfMaskZero fld mask =>
    match intVal m with
    | some v => if v &&& mask = 0 then .ok (.skip fld) else .ok .none
    | none => .panic "closure arg"

def options : Msg → Outcome MOpt
  | .dyn m f => evalOpt f m
  | _ => .ok .none

def addSkip (o : MOpt) (skip : List String) : List String := match o with | .skip f => f :: skip | _ => skip
def addSize (o : MOpt) (ds : List (String × Nat)) : List (String × Nat) := match o with | .size f k => (f, k) :: ds | _ => ds
def lookupSize (ds : List (String × Nat)) (n : String) : Option Nat :=
  match ds with
  | [] => none
  | (k, v) :: t => if k = n then some v else lookupSize t n

-- total encoder (what `write` produces when no option closure panics)
mutual
def enc : Msg → Bytes
  | .u8 v => [UInt8.ofNat v]
  | .u16 e v => encInt e 2 v
  | .u32 e v => encInt e 4 v
  | .bytes b => b
  | .check m => enc m
  | .trame ms => encList ms
  | .comp fs => encFields fs []
  | .dyn m _ => enc m
def encList : List Msg → Bytes
  | [] => []
  | m :: ms => enc m ++ encList ms
def encFields : List (String × Msg) → List String → Bytes
  | [], _ => []
  | (n, m) :: fs, skip =>
    if skip.contains n then encFields fs skip
    else enc m ++ encFields fs (match options m with | .ok o => addSkip o skip | _ => skip)
end

def takeExact (n : Nat) (s : Bytes) : Outcome (Bytes × Bytes) :=
  if n ≤ s.length then .ok (s.take n, s.drop n) else .err "eof"

@[simp] theorem takeExact_append (a r : Bytes) : takeExact a.length (a ++ r) = .ok (a, r) := by
  simp [takeExact]

mutual
def read : Msg → Bytes → Outcome (Msg × Bytes)
  | .u8 _, s => do let (b, r) ← takeExact 1 s; pure (.u8 (leNat b), r)
  | .u16 e _, s => do let (b, r) ← takeExact 2 s; pure (.u16 e (decInt e b), r)
  | .u32 e _, s => do let (b, r) ← takeExact 4 s; pure (.u32 e (decInt e b), r)
  | .bytes b, s => if b.length = 0 then .ok (.bytes s, []) else do let (x, r) ← takeExact b.length s; pure (.bytes x, r)
  | .check m, s => do
      let (m', r) ← read m s
      if enc m' = enc m then pure (.check m', r) else .err "InvalidConst"
  | .trame ms, s => do let (ms', r) ← readList ms s; pure (.trame ms', r)
  | .comp fs, s => do let (fs', r) ← readFields fs [] [] s; pure (.comp fs', r)
  | .dyn m f, s => do let (m', r) ← read m s; pure (.dyn m' f, r)
def readList : List Msg → Bytes → Outcome (List Msg × Bytes)
  | [], s => .ok ([], s)
  | m :: ms, s => do
      let (m', r) ← read m s
      let (ms', r') ← readList ms r
      pure (m' :: ms', r')
def readFields : List (String × Msg) → List String → List (String × Nat) → Bytes → Outcome (List (String × Msg) × Bytes)
  | [], _, _, s => .ok ([], s)
  | (n, m) :: fs, skip, ds, s =>
    if skip.contains n then do
      let (fs', r) ← readFields fs skip ds s
      pure ((n, m) :: fs', r)
    else do
      let (m', r) ← (match lookupSize ds n with
        | some k => do
            let (loc, r) ← takeExact k s
            let (m', _) ← read m loc
            pure (m', r)
        | none => read m s)
      let o ← options m'
      let (fs', r') ← readFields fs (addSkip o skip) (addSize o ds) r
      pure ((n, m') :: fs', r')
end

-- `OK g t m`: value `m` is a well-formed instance of template `t`; `g` = nothing follows (greedy reads allowed).
mutual
def OK : Bool → Msg → Msg → Prop
  | _, .u8 _, .u8 v => v < 256
  | _, .u16 e _, .u16 e' v => e = e' ∧ v < 65536
  | _, .u32 e _, .u32 e' v => e = e' ∧ v < 4294967296
  | g, .bytes t, .bytes b => (t.length = b.length ∧ t.length ≠ 0) ∨ (t.length = 0 ∧ g = true)
  | g, .check t, .check m => m = t ∧ OK g t t
  | g, .trame ts, .trame ms => OKList g ts ms
  | g, .comp ts, .comp ms => OKFields g ts ms [] []
  | g, .dyn t f, .dyn m f' => f = f' ∧ OK g t m
  | _, _, _ => False
def OKList : Bool → List Msg → List Msg → Prop
  | _, [], [] => True
  | g, t :: ts, m :: ms => OK (g && ts.isEmpty) t m ∧ OKList g ts ms
  | _, _, _ => False
def OKFields : Bool → List (String × Msg) → List (String × Msg) → List String → List (String × Nat) → Prop
  | _, [], [], _, _ => True
  | g, (n, t) :: ts, (n', m) :: ms, skip, ds =>
    n = n' ∧
    (if skip.contains n then t = m ∧ OKFields g ts ms skip ds
     else ∃ o, options m = .ok o ∧
       (match lookupSize ds n with
        | some k => (enc m).length = k ∧ OK true t m
        | none => OK (g && ts.isEmpty) t m) ∧
       OKFields g ts ms (addSkip o skip) (addSize o ds))
  | _, _, _, _, _ => False
end

end Gen
