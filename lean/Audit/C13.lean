import RdpModel.Props.C13
#print axioms Rdp.c13_exact
#print axioms Rdp.c13_sched_independent
#print axioms Rdp.c13_short_rejected_slow
#print axioms Rdp.c13_short_rejected_fast
#print axioms Rdp.c13_short_rejected_fastLong
#print axioms Rdp.c13_total
#print axioms Rdp.c13_spec_deframe_encode
