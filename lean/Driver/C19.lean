import RdpModel.Gui.Blit
import RdpModel.Codec.Decompress
namespace Rdp.Driver
open Rdp Rdp.Gui

def bufCell (j : Nat) : UInt32 := UInt32.ofNat (0xB0000000 + j)
def imgCell (k : Nat) : UInt32 := UInt32.ofNat (0x1A000000 + k)

def showCells (buf : List UInt32) : String :=
  let cells := (buf.zipIdx).map fun (c, j) =>
    if c == bufCell j then "." else toString (c.toNat - 0x1A000000)
  ",".intercalate cells

/-- oracle: safe reference blit, defined cell by cell (independent of the row loop).
    Determined only where the property determines the result: inverted rectangles are
    errors with the buffer untouched; rectangles inside the window covered by the image
    are painted exactly. -/
def specBlit (width buflen : Nat) (g : Geo) (imgpix : Nat) : String :=
  if g.bottom < g.top ∨ g.right < g.left then
    "E " ++ ",".intercalate ((List.range buflen).map fun _ => ".")
  else if g.right < width ∧ (g.bottom + 1) * width ≤ buflen ∧
      (g.bottom - g.top) * g.bw + (g.right - g.left + 1) ≤ imgpix then
    "ok " ++ ",".intercalate ((List.range buflen).map fun j =>
      let y := j / width
      let x := j % width
      if g.top ≤ y ∧ y ≤ g.bottom ∧ g.left ≤ x ∧ x ≤ g.right then
        toString ((y - g.top) * g.bw + (x - g.left))
      else ".")
  else "-"

def hex8 (n : Nat) : String :=
  let h := toHex [UInt8.ofNat (n / 16777216 % 256), UInt8.ofNat (n / 65536 % 256), UInt8.ofNat (n / 256 % 256), UInt8.ofNat (n % 256)]
  h

def showCellsHex (buf : List UInt32) : String :=
  ",".intercalate ((buf.zipIdx).map fun (c, j) => if c == bufCell j then "." else "?" ++ hex8 c.toNat)

def cellsOfBytes (bytes : List UInt8) : List UInt32 :=
  (List.range (bytes.length / 4)).map fun k =>
    UInt32.ofNat ((bytes.getD (4 * k) 0).toNat + 256 * (bytes.getD (4 * k + 1) 0).toNat + 65536 * (bytes.getD (4 * k + 2) 0).toNat + 16777216 * (bytes.getD (4 * k + 3) 0).toNat)

/-- several paints into one buffer: (statuses, final buffer) -/
def blitSeq (width : Nat) : Nat → List (List Nat) → List UInt32 → List String → Option (List String × List UInt32)
  | _, [], buf, acc => some (acc.reverse, buf)
  | pi, [left, top, right, bottom, bw, bh, imgpix] :: rest, buf, acc =>
    if imgpix < bw * bh then blitSeq width (pi + 1) rest buf ("E" :: acc)
    else
      let img := (List.range (bw * bh)).map fun k => UInt32.ofNat (0x1A000000 + pi * 1048576 + k)
      let r := blit buf width ⟨left, top, right, bottom, bw⟩ img
      blitSeq width (pi + 1) rest r.1.buf ((match r.2 with | .ok _ => "ok" | .err _ => "E" | .panic _ => "P") :: acc)
  | _, _ :: _, _, _ => none

/-- several compressed paints carrying the same data: (statuses, final buffer) -/
def blitDSeq (width bpp : Nat) (d : Array UInt8) : List (List Nat) → List UInt32 → List String → Option (List String × List UInt32)
  | [], buf, acc => some (acc.reverse, buf)
  | [left, top, right, bottom, bw, bh] :: rest, buf, acc =>
    match Codec.decompress ⟨bw, bh, bpp, true, d⟩ with
    | .ok bytes =>
      let r := blit buf width ⟨left, top, right, bottom, bw⟩ (cellsOfBytes bytes)
      blitDSeq width bpp d rest r.1.buf ((match r.2 with | .ok _ => "ok" | .err _ => "E" | .panic _ => "P") :: acc)
    | .err _ => blitDSeq width bpp d rest buf ("E" :: acc)
    | .panic _ => blitDSeq width bpp d rest buf ("P" :: acc)
  | _ :: _, _, _ => none

def c19 (toks : List String) : String :=
  if toks.head? = some "blitdseq" then
    match toks with
    | _ :: w :: bl :: bp :: hx :: items =>
      match w.toNat?, bl.toNat?, bp.toNat?, ofHex hx, items.mapM (fun i => (i.splitOn ".").mapM String.toNat?) with
      | some width, some buflen, some bpp, some d, some paints =>
        match blitDSeq width bpp d.toArray paints ((List.range buflen).map bufCell) [] with
        | some (res, buf) => ",".intercalate res ++ " " ++ showCellsHex buf ++ "\t-"
        | none => "bad-case"
      | _, _, _, _, _ => "bad-case"
    | _ => "bad-case"
  else
  if toks.head? = some "blitseq" then
    match toks with
    | _ :: w :: bl :: items =>
      match w.toNat?, bl.toNat?, items.mapM (fun i => (i.splitOn ".").mapM String.toNat?) with
      | some width, some buflen, some paints =>
        match blitSeq width 0 paints ((List.range buflen).map bufCell) [] with
        | some (res, buf) => ",".intercalate res ++ " " ++ showCellsHex buf ++ "\t-"
        | none => "bad-case"
      | _, _, _ => "bad-case"
    | _ => "bad-case"
  else
  if toks.head? = some "blitd" then
    match (toks.tail.take 9).mapM String.toNat?, (toks.getD 10 "").toList with
    | some [width, buflen, left, top, right, bottom, bw, bh, bpp], _ =>
      match ofHex (toks.getD 10 "-") with
      | some d =>
        let g : Geo := ⟨left, top, right, bottom, bw⟩
        let buf := (List.range buflen).map bufCell
        match Codec.decompress ⟨bw, bh, bpp, true, d.toArray⟩ with
        | .ok bytes =>
          let r := blit buf width g (cellsOfBytes bytes)
          (match r.2 with | .ok _ => "ok " | .err _ => "E " | .panic _ => "P ") ++ showCellsHex r.1.buf ++ "\t-"
        | .err _ => "E " ++ showCellsHex buf ++ "\t-"
        | .panic _ => "P " ++ showCellsHex buf ++ "\t-"
      | none => "bad-case"
    | _, _ => "bad-case"
  else
  if toks.head? = some "blit16" then
    match toks.tail.mapM String.toNat? with
    | some [width, buflen, left, top, right, bottom, bw, bh, npix] =>
      let g : Geo := ⟨left, top, right, bottom, bw⟩
      let buf := (List.range buflen).map bufCell
      let data : Array UInt8 := ((List.range npix).flatMap fun k =>
        let px := (k * 2749 + 7) % 65536
        [UInt8.ofNat (px % 256), UInt8.ofNat (px / 256)]).toArray
      match Codec.decompress ⟨bw, bh, 16, false, data⟩ with
      | .ok bytes =>
        let r := blit buf width g (cellsOfBytes bytes)
        (match r.2 with | .ok _ => "ok " | .err _ => "E " | .panic _ => "P ") ++ showCellsHex r.1.buf ++ "\t-"
      | .err _ => "E " ++ showCellsHex buf ++ "\t-"
      | .panic _ => "P " ++ showCellsHex buf ++ "\t-"
    | _ => "bad-case"
  else
  if toks.head? = some "blitz" then
    match toks.tail.mapM String.toNat? with
    | some (width :: buflen :: left :: top :: right :: bottom :: bw :: bh :: more) =>
      let g : Geo := ⟨left, top, right, bottom, bw⟩
      let buf := (List.range buflen).map bufCell
      -- decompress of a compressed event: 32 bpp carrying only the format header, or 16 bpp with one colour order
      let (bpp, data) : Nat × Array UInt8 := if more = [16] then (16, #[0x61, 0x34, 0x12]) else (32, #[0x10])
      match Codec.decompress ⟨bw, bh, bpp, true, data⟩ with
      | .ok bytes =>
        let r := blit buf width g (cellsOfBytes bytes)
        (match r.2 with | .ok _ => "ok " | .err _ => "E " | .panic _ => "P ") ++ showCellsHex r.1.buf ++ "\t-"
      | .err _ => "E " ++ showCellsHex buf ++ "\t-"
      | .panic _ => "P " ++ showCellsHex buf ++ "\t-"
    | _ => "bad-case"
  else
  match toks.tail.mapM String.toNat? with
  | some [width, buflen, left, top, right, bottom, bw, bh, imgpix, _extra] =>
    let g : Geo := ⟨left, top, right, bottom, bw⟩
    let buf := (List.range buflen).map bufCell
    -- `BitmapEvent::decompress` of raw 32 bpp: exactly bw x bh pixels, or an error on short data
    if imgpix < bw * bh then
      "E " ++ showCells buf ++ "\t" ++ "E " ++ showCells buf
    else
    let img := (List.range (bw * bh)).map imgCell
    let r := blit buf width g img
    (match r.2 with | .ok _ => "ok " | .err _ => "E " | .panic _ => "P ") ++ showCells r.1.buf
      ++ "\t" ++ specBlit width buflen g (bw * bh)
  | _ => "bad-case"

end Rdp.Driver
