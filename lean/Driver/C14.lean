import RdpModel.Wire.Write
import RdpModel.Spec.Deframe
import Driver.C13
import Driver.Shape
namespace Rdp.Driver
open Rdp Rdp.Spec

def fnv1a (b : Bytes) : UInt64 :=
  b.foldl (fun h x => (h ^^^ x.toUInt64) * 0x100000001b3) 0xcbf29ce484222325

def showOut (b : Bytes) : String :=
  if b.length ≤ 64 then "out=" ++ hexOrDash b else "out=#" ++ toString b.length ++ ":" ++ toString (fnv1a b).toNat

def patBytes (len seed : Nat) : Bytes := (List.range len).map fun i => UInt8.ofNat (i * 7 + seed)

def parsePayload (s : String) : Option Bytes :=
  match s.splitOn ":" with
  | ["pat", l, sd] => do let l ← l.toNat?; let sd ← sd.toNat?; pure (patBytes l sd)
  | _ => ofHex s

def parseWSched (s : String) : Option (List WAct) :=
  if s = "-" then some [] else
  (s.splitOn ",").mapM fun t => if t = "x" ∨ t = "w" ∨ t = "t" ∨ t = "r" then some WAct.fail else t.toNat?.map WAct.accept

def showW (r : Sink × Outcome Unit) : String :=
  (match r.2 with | .ok _ => "ok" | .err _ => "E" | .panic _ => "P") ++ " " ++ showOut r.1.out

/-- oracle: reference framing, delivered until the stream itself refuses -/
def specDeliver : Nat → Bytes → List WAct → Bytes → (Bool × Bytes)
  | 0, _, _, acc => (true, acc)
  | _+1, [], _, acc => (true, acc)
  | _+1, buf, [], acc => (true, acc ++ buf)
  | _+1, _, .fail :: _, acc => (false, acc)
  | f+1, buf, .accept k :: rest, acc =>
    if k = 0 then (false, acc) else specDeliver f (buf.drop k) rest (acc ++ buf.take k)

def specWrite (x224 : Bool) (payload : Bytes) (ws : List WAct) : String :=
  let p := if x224 then [2, 0xf0, 0x80] ++ payload else payload
  if p.length + 4 > 65535 then "E out=-"
  else
    let frame := (Frame.slow 0 p).encode
    let (ok, out) := specDeliver (frame.length + 1) frame ws []
    (if ok then "ok " else "E ") ++ showOut out

/-- several messages on one link: the sink (bytes delivered so far, remaining schedule) is
    threaded through; the oracle is the reference framing of each message in turn -/
def c14multi (ps : List Bytes) (w : List WAct) : String :=
  let rec go : List Bytes → Sink → List String → (List String × Sink)
    | [], s, acc => (acc.reverse, s)
    | p :: rest, s, acc =>
      let (s', r) := Tpkt.write p s
      go rest s' ((match r with | .ok _ => "ok" | .err _ => "E" | .panic _ => "P") :: acc)
  let (res, s) := go ps ⟨[], w⟩ []
  ",".intercalate res ++ " " ++ showOut s.out

def c14 (toks : List String) : String :=
  match toks with
  | ["tpkt_writes", ps, w] =>
    match (ps.splitOn "/").mapM parsePayload, parseWSched w with
    | some ps, some w => c14multi ps w ++ "\t-"
    | _, _ => "bad-case"
  | ["link_write", p, w] =>
    -- `Link::write` itself: no frame limit; oracle: every byte, until the stream itself refuses
    match parsePayload p, parseWSched w with
    | some p, some w =>
      let (ok, out) := specDeliver (p.length + 1) p w []
      showW (Link.write p ⟨[], w⟩) ++ "\t" ++ (if ok then "ok " else "E ") ++ showOut out
    | _, _ => "bad-case"
  | ["tpkt_write_msg", sh, w] =>
    -- a structured message: its serialisation (C18 model) framed and delivered
    match parseShape sh, parseWSched w with
    | some m, some w =>
      match write m with
      | .ok b => showW (Tpkt.write b ⟨[], w⟩) ++ "\t" ++ specWrite false b w
      | .err _ => "E out=-\t-"
      | .panic _ => "P\t-"
    | _, _ => "bad-case"
  | [op, p, w] =>
    match parsePayload p, parseWSched w with
    | some p, some w =>
      let x := op == "x224_write" || op == "x224_write_sd"   -- `_sd`: after shutdown() on a raw stream, which changes nothing
      let r := if x then X224.write p ⟨[], w⟩ else Tpkt.write p ⟨[], w⟩
      showW r ++ "\t" ++ specWrite x p w
    | _, _ => "bad-case"
  | _ => "bad-case"

end Rdp.Driver
