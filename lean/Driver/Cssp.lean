import RdpModel.Nla.Cssp
import RdpModel.Spec.CsspProof
import RdpModel.Spec.Strict
import Driver.Nla
namespace Rdp.Driver
open Rdp Rdp.Crypto Rdp.Nla

def obsBytes (s : Option String) : Option (Outcome Bytes) :=
  match s with
  | some "E" => some (.err "observed")
  | some "P" => some (.panic "observed")
  | some o => if o.startsWith "ok_" then (ofHex (o.drop 3).toString).map .ok else none
  | none => none

def csspOp (toks : List String) : String :=
  let g := fun k => (kv toks k).bind ofHex
  match g "dom16", g "usr16", g "dom8", g "usr8", g "neg", g "chal", g "cc", g "ek" with
  | some d16, some u16, some d8, some u8, some neg, some chal, some cc, some ek =>
    match g "pw16", g "ud16", g "cp16", g "cp8", g "spk", obsBytes (kv toks "r2obs"), kv toks "ra" with
    | some pw, some ud, some cp16, some cp8, some spk, some r2, some ra =>
      let key := ntowfv2 pw ud
      let i : NtlmIn := ⟨key, d16, u16, d8, u8, neg, cc, ek⟩
      let r1 : Outcome Bytes := match obsBytes (kv toks "r1obs") with | some o => o | none => .ok chal
      let e : CsspEnv := ⟨i, r1, .ok spk, r2, ra == "1", d16, u16, cp16, d8, u8, cp8⟩
      let (res, ws) := csspConnect e
      let st := match res with | .ok _ => "ok" | .err _ => "E" | .panic _ => "P"
      let all := ws.foldl (· ++ ·) []
      -- oracle: MS-CSSP server proof decided from the reply alone
      -- ... and, when the raw reply is on the line, only from a DER-encoded TSRequest
      let derErr : Option String := match g "r2" with
        | some raw => (match Spec.Strict.tsRequestV 0 raw with | .ok _ => none | .error e => some e)
        | none => none
      let proof := match r2 with | .ok pka => Spec.Cssp.serverProof ek spk pka | _ => false
      let r1ok := match r1 with | .ok _ => true | _ => false
      let oracle :=
        if !r1ok then "E *"
        else if proof && derErr.isNone then "ok *"
        -- the recorded finding: a valid proof inside a TSRequest whose only flaw is a long-form
        -- length with a leading zero octet (the DER reader in use tolerates it)
        else if proof && derErr == some "DER length: leading zero" then "X:der-leading-zero:E *"
        else "E *"
      st ++ " " ++ toHex all ++ "\t" ++ oracle
    | _, _, _, _, _, _, _ => "bad-case"
  | _, _, _, _, _, _, _, _ => "bad-case"

end Rdp.Driver
