import RdpModel.Wire.Global
import RdpModel.Wire.Mcs
import RdpModel.Spec.Activation
import RdpModel.Spec.Input
import RdpModel.Spec.FastPath
import Driver.C13
import RdpModel.Wire.Tpkt
namespace Rdp.Driver
open Rdp Rdp.Global Rdp.Spec

def showEv (e : BitmapEv) : String :=
  ".".intercalate ([e.left, e.top, e.right, e.bottom, e.width, e.height, e.bpp, if e.compress then 1 else 0].map toString)
    ++ "." ++ hexOrDash e.data

def resTag (r : Outcome Unit) : String :=
  match r with | .ok _ => "ok" | .err _ => "E" | .panic _ => "P"

def framesOf (uid : Nat) (sent : List Bytes) : List String :=
  sent.map fun b => match Mcs.sendFrame uid 1003 b with
    | .ok f => toHex f | .err _ => "E" | .panic _ => "P"

def showStep (res : String) (frames : List String) (evs : List BitmapEv) : String :=
  res ++ "[" ++ "+".intercalate frames ++ "][" ++ "|".intercalate (evs.map showEv) ++ "]"

def parseButton (s : String) : Option Button :=
  if s = "0" then some .none else if s = "1" then some .left else if s = "2" then some .right
  else if s = "3" then some .middle else none

def parseInEvent (s : String) : Option InEvent :=
  match s.toList with
  | 'B' :: [] => some .bitmap
  | 'P' :: rest =>
    match (String.ofList rest).splitOn ":" with
    | [x, y, b, d] => do
      let x ← x.toNat?; let y ← y.toNat?; let b ← parseButton b
      pure (.pointer x y b (d = "1"))
    | _ => none
  | 'K' :: rest =>
    match (String.ofList rest).splitOn ":" with
    | [c, d] => do let c ← c.toNat?; pure (.key c (d = "1"))
    | _ => none
  | _ => none

/-- one op on the model -/
def runOp (uid : Nat) (c : GClient) (op : String) : Option (GClient × String) :=
  match op.toList with
  | 'R' :: rest => do
    let b ← ofHex (String.ofList rest)
    let st := step c (.raw b)
    pure (st.client, showStep (resTag st.res) (framesOf uid st.sent) st.events)
  | 'F' :: rest =>
    match (String.ofList rest).splitOn ":" with
    | [f, h] => do
      let f ← f.toNat?; let b ← ofHex h
      let st := step c (.fast f b)
      pure (st.client, showStep (resTag st.res) (framesOf uid st.sent) st.events)
    | _ => none
  | 'M' :: rest => do
    -- a raw x224 payload: `RdpClient::read` = mcs.read, then the global channel
    let b ← ofHex (String.ofList rest)
    match Mcs.read uid 1003 (.raw b) with
    | .ok (.global, pl) =>
      let st := step c pl
      pure (st.client, showStep (resTag st.res) (framesOf uid st.sent) st.events)
    | .ok (.user, _) => pure (c, showStep "E" [] [])
    | .err _ => pure (c, showStep "E" [] [])
    | .panic _ => pure (c, showStep "P" [] [])
  | 'W' :: rest =>
    -- raw bytes on the stream, then k calls of `RdpClient::read` (tpkt/x224 deframing, mcs, global)
    match (String.ofList rest).splitOn ":" with
    | [k, hx] => do
      let k ← k.toNat?
      let b ← ofHex hx
      let rec go : Nat → Transport → GClient → List Bytes → List BitmapEv → (GClient × String × List Bytes × List BitmapEv)
        | 0, _, c, sent, evs => (c, "ok", sent, evs)
        | n + 1, t, c, sent, evs =>
          match X224.read t with
          | .panic _ => (c, "P", sent, evs)
          | .err _ => (c, "E", sent, evs)
          | .ok (pl, t') =>
            match Mcs.read uid 1003 pl with
            | .ok (.global, pl') =>
              let st := step c pl'
              match st.res with
              | .ok _ => go n t' st.client (sent ++ st.sent) (evs ++ st.events)
              | .err _ => (st.client, "E", sent ++ st.sent, evs ++ st.events)
              | .panic _ => (st.client, "P", sent ++ st.sent, evs ++ st.events)
            | .panic _ => (c, "P", sent, evs)
            | _ => (c, "E", sent, evs)
      let (c', res, sent, evs) := go k ⟨b, []⟩ c [] []
      pure (c', showStep res (framesOf uid sent) evs)
    | _ => none
  | 'C' :: _ =>
    -- the transport's read granularity changes: invisible to every layer above the link
    some (c, showStep "ok" [] [])
  | 'S' :: _ =>
    -- the transport's read granularity changes: invisible to every layer above the link
    some (c, showStep "ok" [] [])
  | 'T' :: rest => do
    let e ← parseInEvent (String.ofList rest)
    match clientTryWrite c e with
    | .ok (some b) => pure (c, showStep "ok" (framesOf uid [b]) [])
    | .ok none => pure (c, showStep "ok" [] [])
    | .err _ => pure (c, showStep "E" [] [])
    | .panic _ => pure (c, showStep "P" [] [])
  | _ => do
    let e ← parseInEvent op
    match clientWrite c e with
    | .ok b => pure (c, showStep "ok" (framesOf uid [b]) [])
    | .err _ => pure (c, showStep "E" [] [])
    | .panic _ => pure (c, showStep "P" [] [])

/-- a write failure scheduled by `Q<k>` (the k-th frame written from now on is refused by the transport): the
    frames before it went out, the call fails, and the activation state is the one before the call (the state is
    assigned after the writes) -/
def applyFail (c c' : GClient) (s : String) (failIn : Option Nat) : GClient × String × Option Nat :=
  match failIn with
  | none => (c', s, none)
  | some k =>
    let inner := ((s.splitOn "[").getD 1 "").dropEnd 1 |>.toString
    let frames := if inner = "" then [] else inner.splitOn "+"
    if k ≤ frames.length ∧ 0 < k then
      ({ c' with state := c.state }, "E[" ++ "+".intercalate (frames.take (k - 1)) ++ "][]", none)
    else (c', s, some (k - frames.length))

def runOps (uid : Nat) : GClient → Option Nat → List String → List String → Option (List String)
  | _, _, [], acc => some acc.reverse
  | c, failIn, op :: ops, acc =>
    match op.toList with
    | 'Q' :: rest =>
      match (String.ofList rest).toNat? with
      | some k => runOps uid c (some k) ops (showStep "ok" [] [] :: acc)
      | none => none
    | _ =>
      match runOp uid c op with
      | some (c', s) =>
        let (c'', s', f') := applyFail c c' s failIn
        runOps uid c'' f' ops (s' :: acc)
      | none => none

def parseLetter (s : String) : Option Letter :=
  match s with
  | "DA" => some .da | "SY" => some .sync | "CO" => some .coop | "GR" => some .granted
  | "CX" => some .ctrlOther | "FM" => some .fontmap | "EI" => some .errinfo
  | "UD" => some .unknownData | "DE" => some .deact | "FO" => some .fpOther
  | _ =>
    if s.startsWith "FB" then (s.drop 2).toString.toNat?.map Letter.fpBitmap else none

def specEvent : InEvent → Option Spec.Input.Event
  | .pointer x y b d => some (.pointer x y (match b with | .none => .none | .left => .left | .right => .right | .middle => .middle) d)
  | .key c d => some (.key c d)
  | .bitmap => none

def shareIdOf (op : String) : Option Nat :=
  match op.toList with
  | 'R' :: rest => (ofHex (String.ofList rest)).map fun b => leNat ((b.drop 6).take 4)
  | _ => none

/-- Oracle for alphabet histories: what the specifications expect to be *emitted* and
    *delivered* at each step (the result code of a read is not prescribed: `*`).  Each item
    of `hist` is a server letter, `I` (input via `write`), `J` (via `try_write`) or `X`
    (an event kind that cannot be sent).  Activation bytes are checked by count here (C04
    decides their content); an accepted input must be exactly the reference frame of
    Spec/Input.lean for the share id of the last accepted demand-active. -/
def oracleSteps (uid : Nat) : RState → Nat → List String → List String → List String → List String → Option (List String)
  | _, _, [], _, _, acc => some acc.reverse
  | s, sid, h :: hs, op :: ops, m :: ms, acc =>
    let sentOf := fun (x : String) => ((x.splitOn "[").getD 1 "").dropEnd 1 |>.toString
    if h = "X" then oracleSteps uid s sid hs ops ms ("E[][]" :: acc)
    else if h = "CH" then oracleSteps uid s sid hs ops ms ("ok[][]" :: acc)
    else if h = "WB" then
      -- a raw stream of complete fast-path frames: inside the window every rectangle of every
      -- frame the reference deframer and decoder find is delivered, in order
      if s = .active then
        let raw := match (op.drop 1).toString.splitOn ":" with | [_, hx] => ofHex hx | _ => none
        let rec frames (fuel : Nat) (d : Bytes) (acc : List Spec.FastPath.Rect) : Option (List Spec.FastPath.Rect) :=
          match fuel with
          | 0 => none
          | fuel + 1 =>
            if d.isEmpty then some acc else
            match Spec.deframe d with
            | some (.fastShort _ p, rest) => (Spec.FastPath.decodePdu (p.length + 1) p).bind fun rs => frames fuel rest (acc ++ rs)
            | some (.fastLong _ p, rest) => (Spec.FastPath.decodePdu (p.length + 1) p).bind fun rs => frames fuel rest (acc ++ rs)
            | _ => none
        match raw.bind (fun d => frames (d.length + 1) d []) with
        | some rects =>
          let evs := rects.map fun r => showEv ⟨r.left, r.top, r.right, r.bottom, r.width, r.height, r.bpp, r.flags % 2 = 1, r.data⟩
          oracleSteps uid s sid hs ops ms (("ok[][" ++ "|".intercalate evs ++ "]") :: acc)
        | none => oracleSteps uid s sid hs ops ms ("*[][*]" :: acc)
      else oracleSteps uid s sid hs ops ms ("*[][]" :: acc)
    else if h = "FP" then
      -- a fast-path PDU with any mixture of updates: inside the window the callbacks must be
      -- exactly the rectangles the reference decoder finds, in wire order
      if s = .active then
        let body := match op.splitOn ":" with | [_, hx] => ofHex hx | _ => none
        match body.bind (fun b => Spec.FastPath.decodePdu (b.length + 1) b) with
        | some rects =>
          let evs := rects.map fun r => showEv ⟨r.left, r.top, r.right, r.bottom, r.width, r.height, r.bpp, r.flags % 2 = 1, r.data⟩
          oracleSteps uid s sid hs ops ms (("ok[][" ++ "|".intercalate evs ++ "]") :: acc)
        | none => oracleSteps uid s sid hs ops ms ("*[][*]" :: acc)
      else oracleSteps uid s sid hs ops ms ("*[][]" :: acc)
    else if h = "I" ∨ h = "J" then
      if s = .active then
        let evs := if op.startsWith "T" then (op.drop 1).toString else op
        match (parseInEvent evs).bind specEvent with
        | some ev => oracleSteps uid s sid hs ops ms (("ok[" ++ toHex (Spec.Input.frame uid 1003 sid ev) ++ "][]") :: acc)
        | none => none
      else oracleSteps uid s sid hs ops ms (((if h = "J" then "ok" else "E") ++ "[][]") :: acc)
    else
      match parseLetter h with
      | none => none
      | some l =>
        let (s', r) := rstep s l
        let sid' := if r = .activate then (shareIdOf op).getD sid else sid
        let evs := (((m.splitOn "][").getD 1 "").dropEnd 1).toString
        let item := match r with
          | .nothing => "*[][]"
          | .activate => "*[" ++ sentOf m ++ "][]"
          | .deliver _ => "*[][" ++ evs ++ "]"
        let nSent := if sentOf m = "" then 0 else ((sentOf m).splitOn "+").length
        let nEv := if evs = "" then 0 else (evs.splitOn "|").length
        let okCount := match r with
          | .nothing => true
          | .activate => nSent == 5
          | .deliver n => nEv == n
        oracleSteps uid s' sid' hs ops ms ((if okCount then item else "!count-mismatch") :: acc)
  | _, _, _ :: _, _, _, _ => none

def gsess (toks : List String) : String :=
  match toks with
  | _ :: uid :: w :: h :: lay :: name :: ops :: rest =>
    match uid.toNat?, w.toNat?, h.toNat?, lay.toNat?, ofHex name with
    | some uid, some w, some h, some lay, some name =>
      let c : GClient := ⟨.demandActive, uid, 1003, w, h, lay, none, name⟩
      match runOps uid c none (ops.splitOn ",") [] with
      | some outs =>
        let model := ";".intercalate outs
        let oracle := match rest with
          | [hist] =>
            match oracleSteps uid .awaiting 0 ((hist.drop 2).toString.splitOn ",") (ops.splitOn ",") outs [] with
            | some o => ";".intercalate o
            | none => "-"
          | _ => "-"
        model ++ "\t" ++ oracle
      | none => "bad-case"
    | _, _, _, _, _ => "bad-case"
  | _ => "bad-case"

end Rdp.Driver
