import RdpModel.Wire.Per
import RdpModel.Wire.Emit
import RdpModel.Spec.Strict
import Driver.C13

namespace Rdp.Driver
open Rdp Rdp.Per

def showRRNat (r : RR Nat) : String :=
  match r with
  | .ok v rest => "r=" ++ toString v ++ " left=" ++ hexOrDash rest
  | .err _ => "r=E"
  | .panic _ => "r=P"
def showRRBool (r : RR Bool) : String :=
  match r with
  | .ok v rest => "r=" ++ (if v then "true" else "false") ++ " left=" ++ hexOrDash rest
  | .err _ => "r=E"
  | .panic _ => "r=P"
def showRRUnit (r : RR Unit) : String :=
  match r with
  | .ok _ rest => "r=ok left=" ++ hexOrDash rest
  | .err _ => "r=E"
  | .panic _ => "r=P"
def showRRBytes (r : RR Bytes) : String :=
  match r with
  | .ok v rest => "r=" ++ hexOrDash v ++ " left=" ++ hexOrDash rest
  | .err _ => "r=E"
  | .panic _ => "r=P"

def tail2 : Bytes := [0xAB, 0xCD]

def per (toks : List String) : String :=
  match toks with
  | ["per_rt_len", n] =>
    match n.toNat? with
    | some n =>
      let w := writeLength n
      "w=" ++ toHex w ++ " " ++ showRRNat (readLength (w ++ tail2)) ++ "\t" ++
        (if n ≤ 0x7fff then "w=" ++ toHex w ++ " r=" ++ toString n ++ " left=abcd" else "-")
    | none => "bad-case"
  | ["per_asn1_int", n] =>
    match n.toNat? with
    | some n =>
      let w := Emit.derUInt n
      let rd := match Spec.Strict.derInt w "INTEGER" with | .ok (v, []) => toString v | _ => "E"
      "w=" ++ toHex w ++ " r=" ++ rd ++ "\t" ++ "w=* r=" ++ toString n
    | none => "bad-case"
  | ["per_asn1_enum", sgn, mag] =>
    -- ENUMERATED (X.690 8.4): minimal two's complement content under tag 0x0A, any value of an i64
    match mag.toNat? with
    | some m =>
      let v : Int := if sgn = "-" then -(m : Int) else (m : Int)
      -- smallest k with -2^(8k-1) ≤ v < 2^(8k-1)
      let rec width (fuel k : Nat) : Nat :=
        match fuel with
        | 0 => k
        | fuel + 1 => if -((2 : Int) ^ (8 * k - 1)) ≤ v ∧ v < (2 : Int) ^ (8 * k - 1) then k else width fuel (k + 1)
      let k := width 9 1
      let u : Nat := (v % ((2 : Int) ^ (8 * k))).toNat
      let content : Bytes := (List.range k).map fun i => UInt8.ofNat (u / 256 ^ (k - 1 - i) % 256)
      let w : Bytes := [0x0a, UInt8.ofNat k] ++ content
      let shown := (if sgn = "-" ∧ m ≠ 0 then "-" else "") ++ toString m
      "w=" ++ toHex w ++ " r=" ++ shown ++ "\t" ++ "w=" ++ toHex w ++ " r=" ++ shown
    | none => "bad-case"
  | ["per_asn1_oct", hx] =>
    match ofHex hx with
    | some b =>
      let w := Nla.derOctets b
      let rd := match Spec.Strict.tlv 0x04 w "OCTET STRING" with | .ok (v, []) => hexOrDash v | _ => "E"
      "w=" ++ hexOrDash w ++ " r=" ++ rd ++ "\t" ++ "w=* r=" ++ hexOrDash b
    | none => "bad-case"
  | ["per_ber_oct", _form, hx] =>
    -- BER: whatever the length form, the value is the content
    match ofHex hx with
    | some b => "r=" ++ hexOrDash b ++ "\t" ++ "r=" ++ hexOrDash b
    | none => "bad-case"
  | ["per_ber_int", _form, n] =>
    match n.toNat? with
    | some n => "r=" ++ toString n ++ "\t" ++ "r=" ++ toString n
    | none => "bad-case"
  | ["per_ber_cr", _form, hx] =>
    match ofHex hx with
    | some b => "r=" ++ hexOrDash b ++ "\t" ++ "r=" ++ hexOrDash b
    | none => "bad-case"
  | ["per_gcc_version"] =>
    -- the version the model's client core data announces is the one the model's reader calls v5
    let core := (Emit.clientCoreData 800 600 0x409 0 []).take 4
    let m := "rt=00080001:v4,00080004:v5 core=" ++ toHex core
    m ++ "\t" ++ "rt=00080001:v4,00080004:v5 core=04000800"
  | ["per_rt_int", n] =>
    match n.toNat? with
    | some n =>
      let w := writeInteger n
      "w=" ++ toHex w ++ " " ++ showRRNat (readInteger (w ++ tail2)) ++ "\t" ++
        "w=" ++ toHex w ++ " r=" ++ toString n ++ " left=abcd"
    | none => "bad-case"
  | ["per_rt_int16", v, m] =>
    match v.toNat?, m.toNat? with
    | some v, some m =>
      match writeInteger16 v m with
      | .ok w => "w=" ++ toHex w ++ " " ++ showRRNat (readInteger16 m (w ++ tail2)) ++ "\t" ++
          "w=" ++ toHex w ++ " r=" ++ toString v ++ " left=abcd"
      | _ => "P\t-"
    | _, _ => "bad-case"
  | ["per_rt_oid", l] =>
    match parseNatList l with
    | some o =>
      match writeOid o with
      | .ok w => "w=" ++ toHex w ++ " " ++ showRRBool (readOid o (w ++ tail2)) ++ "\t" ++
          (if o.length = 6 ∧ o.getD 0 0 < 16 ∧ o.getD 1 0 < 16 then "w=" ++ toHex w ++ " r=true left=abcd" else "-")
      | .err _ => "E\t-"
      | .panic _ => "P\t-"
    | none => "bad-case"
  | ["per_rt_octet", h, m] =>
    match ofHex h, m.toNat? with
    | some os, some m =>
      let w := writeOctetStream os m
      "w=" ++ toHex w ++ " " ++ showRRUnit (readOctetStream os m (w ++ tail2)) ++ "\t" ++
        (if m ≤ os.length ∧ os.length - m ≤ 0x7fff then "w=" ++ toHex w ++ " r=ok left=abcd" else "-")
    | _, _ => "bad-case"
  | ["per_rd_len", h] => match ofHex h with | some b => showRRNat (readLength b) ++ "\t-" | none => "bad-case"
  | ["per_rd_int", h] => match ofHex h with | some b => showRRNat (readInteger b) ++ "\t-" | none => "bad-case"
  | ["per_rd_int16", m, h] =>
    match m.toNat?, ofHex h with | some m, some b => showRRNat (readInteger16 m b) ++ "\t-" | _, _ => "bad-case"
  | ["per_rd_oid", l, h] =>
    match parseNatList l, ofHex h with | some o, some b => showRRBool (readOid o b) ++ "\t-" | _, _ => "bad-case"
  | ["per_rd_octet", e, m, h] =>
    match ofHex e, m.toNat?, ofHex h with
    | some e, some m, some b => showRRUnit (readOctetStream e m b) ++ "\t-"
    | _, _, _ => "bad-case"
  | ["per_rd_numstr", m, h] =>
    match m.toNat?, ofHex h with | some m, some b => showRRBytes (readNumericString m b) ++ "\t-" | _, _ => "bad-case"
  | ["per_wr_numstr", s, m] =>
    match ofHex s, m.toNat? with
    | some s, some m => (match writeNumericString s m with | .ok w => "w=" ++ hexOrDash w | .err _ => "E" | .panic _ => "P") ++ "\t-"
    | _, _ => "bad-case"
  | _ => "bad-case"

end Rdp.Driver
