import RdpModel.Gui.Recv
import Driver.Connect
namespace Rdp.Driver
open Rdp Rdp.Gui.Recv

def natList (s : String) : List Nat := (s.splitOn ",").filterMap String.toNat?

def showIds (l : List Nat) : String := if l.isEmpty then "-" else ".".intercalate (l.map toString)

/-- record sizes from cut offsets over a stream of `total` bytes -/
def recordsOf (cuts : List Nat) (total : Nat) : List Nat :=
  let cs := ((cuts.filter fun c => 0 < c ∧ c < total).toArray.qsort (· < ·)).toList.eraseDups ++ [total]
  let rec go (prev : Nat) : List Nat → List Nat
    | [] => []
    | c :: rest => (c - prev) :: go c rest
  go 0 cs

/-- one `write` of more than 16384 bytes leaves the TLS layer as several records (the TLS
    plaintext limit) -/
def splitRecord (fuel r : Nat) : List Nat :=
  match fuel with
  | 0 => [r]
  | fuel + 1 => if r ≤ 16384 then [r] else 16384 :: splitRecord fuel (r - 16384)

def guiOp (toks : List String) : String :=
  match kv toks "plens", kv toks "cuts", kv toks "end", kv toks "endpack" with
  | some pl, some cuts, some endm, some endpack =>
    let plens := natList pl
    -- `quiet=`: positions (in `plens`) of PDUs the client decodes and ignores; bitmap ids count the others
    let quiet := match kv toks "quiet" with | some q => natList q | none => []
    let bitmaps : List Pdu := (plens.zipIdx.foldl (fun (acc : List Pdu × Nat) (li : Nat × Nat) =>
      if quiet.contains li.2 then (acc.1 ++ [⟨.quiet, li.1⟩], acc.2) else (acc.1 ++ [⟨.bitmap acc.2, li.1⟩], acc.2 + 1)) ([], 0)).1
    let endPdu : Option Pdu :=
      if endm = "dpu" ∨ endm = "dpuhold" then some ⟨.ultimatum, 9⟩ else if endm = "bad" then some ⟨.badRdp, 10⟩
      else if endm = "badio" then some ⟨.badIo, 9⟩ else none
    let packed := endpack = "1" ∧ endPdu.isSome
    -- `act≠0`: the thread itself runs the activation; its five server PDUs (`alens`), each in a record
    -- of its own, come before everything else and are decoded without any event
    let actPdus : List Pdu := match kv toks "act", kv toks "alens" with
      | some a, some al => if a = "0" then [] else (natList al).map fun l => ⟨.quiet, l⟩
      | _, _ => []
    let stream := actPdus ++ bitmaps ++ (match endPdu with | some p => [p] | none => [])
    let dataTotal := (bitmaps.map (·.len)).foldl (· + ·) 0 + (if packed then (endPdu.map (·.len)).getD 0 else 0)
    let recs := (recordsOf (natList cuts) dataTotal).flatMap fun r => splitRecord (r / 16384 + 1) r
    let fuel := 4 * (stream.length + recs.length + actPdus.length) + 16
    -- phase 1: all data records arrive, the thread runs until it blocks; the server is silent
    let s0 := run true fuel ((actPdus.map (·.len)).foldl (fun s r => push r s) (init stream))
    let s1 := run true fuel (recs.foldl (fun s r => push r s) s0)
    -- phase 2: the end of the session
    let s2 := if ¬ packed then (match endPdu with | some p => push p.len s1 | none => s1) else s1
    let s2 := if endm = "notify" ∨ endm = "close" then close s2 else s2
    let s3 := run true fuel s2
    -- input from the GUI thread needs the client mutex: free unless the receive thread sits inside a read
    let inp := if kv toks "inputs" == some "1" then (if s1.pc = .rd then "blocked" else "ok") else "-"
    -- confirm-actives the server receives in all: the first activation, plus one per demand-active (`das=`: positions
    -- in `plens`) that the thread consumed before it stopped
    let das := match kv toks "das" with | some d => natList d | none => []
    let consumed := stream.length - s3.pdus.length - actPdus.length
    let ca := 1 + (das.filter fun d => d < consumed).length
    let model := "silent=" ++ showIds s1.delivered ++ " final=" ++ showIds s3.delivered ++ " exit=" ++ (if s3.pc = .done then "yes" else "no") ++ " in=" ++ inp ++ " ca=" ++ toString ca
    -- specification: everything sent is forwarded while the server is silent, and the thread stops
    let all := showIds ((List.range (plens.length - (quiet.filter (· < plens.length)).eraseDups.length)))
    let want := "silent=" ++ all ++ " final=" ++ all ++ " exit=yes in=" ++ (if kv toks "inputs" == some "1" then "ok" else "-") ++ " ca=" ++ toString (1 + das.length)
    -- class of the recorded finding: some PDU ends inside a record
    let bounds := ((stream.drop actPdus.length).take (if packed then stream.length else bitmaps.length)).foldl (fun (acc : List Nat × Nat) p => (acc.1 ++ [acc.2 + p.len], acc.2 + p.len)) ([], 0)
    let recEnds := recs.foldl (fun (acc : List Nat × Nat) r => (acc.1 ++ [acc.2 + r], acc.2 + r)) ([], 0)
    -- every PDU ends where a record ends (a PDU may span several records): nothing is ever left buffered
    let aligned := bounds.1.all fun b => recEnds.1.contains b
    model ++ "\t" ++ (if aligned then want else "X:tls-buffered-stall:" ++ want)
  | _, _, _, _ => "bad-case"

end Rdp.Driver
