import RdpModel.Wire.Tpkt
import RdpModel.Wire.Connect
import RdpModel.Spec.Negotiation
import Driver.C13
namespace Rdp.Driver
open Rdp Rdp.Connect

def oTag {α} (o : Outcome α) (f : α → String) : String :=
  match o with | .ok a => f a | .err _ => "E" | .panic _ => "P"

def kv (toks : List String) (k : String) : Option String :=
  (toks.find? (·.startsWith (k ++ "="))).map fun t => (t.drop (k.length + 1)).toString

/-- the confirm arriving as a raw stream: TPKT deframing first, then the same decision -/
def x224StreamOp (off auth hx : String) : String :=
  -- the same decision, the confirm arriving as a raw stream: TPKT deframing first
  match off.toNat?, ofHex hx with
  | some off, some d =>
    let hasAuth := auth = "1"
    let m := match Tpkt.read ⟨d, []⟩ with
      | .ok (.raw p, _) =>
        (let m := oTag (negotiate off hasAuth p) fun dec => match dec with | .continueRaw => "ok raw" | _ => "E tls"
         if m = "E" then "E none" else m)
      | .ok (.fast _ _, _) => "E none"
      | .err _ => "E none"
      | .panic _ => "P"
    m ++ "\t-"
  | _, _ => "bad-case"

def connectOps (toks : List String) : String :=
  match toks with
  | ["x224_conn", off, auth, hx] =>
    match off.toNat?, ofHex hx with
    | some off, some p =>
      let hasAuth := auth = "1"
      let m := oTag (negotiate off hasAuth p) fun d =>
        match d with | .continueRaw => "ok raw" | _ => "E tls"
      let m := if m = "E" then "E none" else m
      let oracle := match Spec.Negotiation.parseConfirm p with
        | some (ty, sel) =>
          match Spec.Negotiation.verdict off hasAuth ty sel with
          | .refuse => "E none" | .tls _ => "E tls" | .raw => "ok raw"
        | none => "-"
      m ++ "\t" ++ oracle
    | _, _ => "bad-case"
  | ["x224_stream", off, auth, hx] => x224StreamOp off auth hx
  | ["x224_stream", off, auth, hx, _stall] =>
    -- the same stream on a transport whose reads fail (WouldBlock / TimedOut) once the server goes silent:
    -- a failed read is an error like the end of the stream
    x224StreamOp off auth (if hx = "-" then "" else hx)
  | ["gcc_ccr", hx] =>
    match ofHex hx with
    | some b =>
      oTag (readConferenceCreateResponse b) (fun sd =>
        "ok ids=" ++ ",".intercalate (sd.channelIds.map toString) ++ " ver=" ++
          (match sd.version with | .v4 => "v4" | .v5plus => "v5" | .unknown => "unk")) ++ "\t-"
    | none => "bad-case"
  | ["lic", hx] =>
    match ofHex hx with
    | some b => oTag (licenseConnect b) (fun _ => "ok") ++ "\t-"
    | none => "bad-case"
  | "mcs_conn" :: rest =>
    match (kv rest "cr").bind ofHex, (kv rest "au").bind ofHex, kv rest "jm", kv rest "ber", kv rest "first" with
    | some _cr, some au, some jm, some ber, some first =>
      -- connect response: BER layer observed (yasna is not modelled), GCC modelled
      let afterCr : Outcome Unit :=
        if ber = "E" then .err "ber" else if ber = "P" then .panic "yasna"
        else match ofHex ber with
          | some ud => (readConferenceCreateResponse ud).bind fun _ => .ok ()
          | none => .err "bad"
      let res : Outcome (Nat × Nat) := afterCr.bind fun _ =>
        -- frames so far: CI, ED, AU
        (readAttachUserConfirm au).bind fun uid =>
          let firstChan := first.toNat?.getD 0
          let secondChan := if firstChan = 1003 then uid else 1003
          let joinReply := fun (chan : Nat) (mode : String) =>
            if mode = "echo" then
              [0x3e, 0x00] ++ encInt .be 2 (uid - 1001) ++ encInt .be 2 chan ++ encInt .be 2 chan
            else (ofHex ((mode.drop 4).toString)).getD []
          match readChannelJoinConfirm uid firstChan (joinReply firstChan jm) with
          | .err e => (.err e : Outcome (Nat × Nat))
          | .panic p => .panic p
          | .ok _ =>
            (readChannelJoinConfirm uid secondChan (joinReply secondChan "echo")).bind fun _ => .ok (uid, 5)
      oTag res (fun (uid, _) => "ok uid=" ++ toString uid) ++ "\t-"
    | _, _, _, _, _ => "bad-case"
  | ["sec_conn", hx] =>
    match ofHex hx with
    | some b => oTag (secRead 1004 b) (fun _ => "ok") ++ "\t-"
    | none => "bad-case"
  | _ => "bad-case"

end Rdp.Driver
