import Driver.C13
import Driver.C14
import Driver.C19
import Driver.C18
import Driver.Per
import Driver.Gsess
import Driver.Connect
import Driver.C08
import Driver.Nla
import Driver.Cssp
import Driver.Conn
import Driver.Gui
/-
  Line-protocol driver: one case per input line (`<op> <args…>`), one output line per
  case: `<model outcome>\t<oracle expectation or ->`.  Built from the very definitions the
  theorems are about; imports no Mathlib.
-/
open Rdp.Driver

def handle (line : String) : String :=
  let toks := (line.trimAscii.toString.splitOn " ").filter (· ≠ "")
  match toks with
  | [] => "bad-case"
  | op :: _ =>
    if op == "tpkt_read" || op == "x224_read" || op == "x224_read_rdp" || op == "tpkt_tls" then c13 toks
    else if op == "tpkt_write" || op == "x224_write" || op == "tpkt_write_sd" || op == "x224_write_sd" || op == "tpkt_writes" || op == "link_write" || op == "tpkt_write_msg" then c14 toks
    else if op == "blit" || op == "blitz" || op == "blit16" || op == "blitd" || op == "blitseq" || op == "blitdseq" then c19 toks
    else if op.startsWith "per_" then per toks
    else if op == "gsess" then gsess toks
    else if op == "decomp" || op == "decomp2" then c08 toks
    else if op == "seal" || op == "ntlm_auth" || op == "ts_chal" || op == "ts_validate" then nlaOps toks
    else if op == "cssp" then csspOp toks
    else if op == "conn" then connOp toks
    else if op == "strict" then strictOp toks
    else if op == "tlsgate" then tlsgateOp toks
    else if op == "nlagate" then nlagateOp toks
    else if op == "gui" then guiOp toks
    else if op == "x224_conn" || op == "x224_stream" || op == "gcc_ccr" || op == "lic" || op == "mcs_conn" || op == "sec_conn" then connectOps toks
    else if op == "msg_wr" || op == "msg_rd" || op == "msg_rt" then c18 toks
    else "bad-op"

partial def loop (h : IO.FS.Stream) (out : IO.FS.Stream) : IO Unit := do
  let line ← h.getLine
  if line.isEmpty then return ()
  out.putStrLn (handle line)
  loop h out

def main : IO Unit := do
  let stdin ← IO.getStdin
  let stdout ← IO.getStdout
  loop stdin stdout
