import RdpModel.Wire.Emit
import RdpModel.Wire.Session
import Driver.Cssp
import Driver.Gsess
import RdpModel.Spec.Strict
import RdpModel.Props.C17
import RdpModel.Wire.Connector
namespace Rdp.Driver
open Rdp Rdp.Crypto Rdp.Nla Rdp.Emit Rdp.Global

def utf8Chars (b : Bytes) : Option (List Char) :=
  (String.fromUTF8? (ByteArray.mk b.toArray)).map (·.toList)

def okOr (o : Outcome Bytes) : String := match o with | .ok b => toHex b | .err _ => "E" | .panic _ => "P"

/-- activation, inputs, shutdown on the Global model: frames written per step -/
def connSteps (uid : Nat) : GClient → List String → List String → Option (List String)
  | _, [], acc => some acc.reverse
  | c, op :: ops, acc =>
    match op.toList with
    | 'M' :: rest =>
      match ofHex (String.ofList rest) with
      | none => none
      | some b =>
        match Mcs.read uid 1003 (.raw b) with
        | .ok (.global, pl) =>
          let st := step c pl
          connSteps uid st.client ops ((framesOf uid st.sent).reverse ++ acc)
        | _ => connSteps uid c ops acc
    | _ =>
      match parseInEvent op with
      | none => none
      | some e =>
        match clientWrite c e with
        | .ok b => connSteps uid c ops ((framesOf uid [b]).reverse ++ acc)
        | _ => connSteps uid c ops acc

def connOp (toks : List String) : String :=
  let g := fun k => (kv toks k).bind ofHex
  let n := fun k => (kv toks k).bind String.toNat?
  let b := fun k => kv toks k == some "1"
  match n "w", n "h", n "lay", (g "name").bind utf8Chars, (g "dom8").bind utf8Chars, (g "usr8").bind utf8Chars, (g "pwd8").bind utf8Chars with
  | some w, some h, some lay, some name, some dom, some usr, some pwd =>
    match n "sel", n "uid", n "first", n "ver", kv toks "srvmsgs", kv toks "inputs" with
    | some sel, some uid, some first, some ver, some srvmsgs, some inputs =>
      let ra := b "ra"
      let nla := b "nla"
      let mode : Secrets.Mode := ⟨nla, ra, b "blank", b "auto"⟩
      let cr := Secrets.negotiationRequest mode
      -- CredSSP
      let (nlaBytes, creds) : Bytes × String :=
        if sel = 2 then
          match g "dom16", g "usr16", g "dom8", g "usr8", g "neg", g "chal", g "cc", g "ek" with
          | some d16, some u16, some d8, some u8, some neg, some chal, some cc, some ek =>
            match g "pw16", g "ud16", g "cp16", g "cp8", g "spk", obsBytes (kv toks "r2obs") with
            | some pw, some ud, some cp16, some cp8, some spk, some r2 =>
              let i : NtlmIn := ⟨ntowfv2 pw ud, d16, u16, d8, u8, neg, cc, ek⟩
              let e : CsspEnv := ⟨i, .ok chal, .ok spk, r2, Secrets.credsspRestricted mode, d16, u16, cp16, d8, u8, cp8⟩
              let (_, ws) := csspConnect e
              (ws.foldl (· ++ ·) [], toHex (credentialBytes e (challengeUnicode chal)))
            | _, _, _, _, _, _ => ([], "bad")
          | _, _, _, _, _, _, _, _ => ([], "bad")
        else ([], "-")
      -- MCS connect, client info: the trace model of Wire/Session.lean on the server's replies
      let cfg : Session.Cfg := ⟨w, h, lay, name, dom, usr, pwd, mode⟩
      let rep : Session.Replies := ⟨sel, (match g "ccr" with | some x => .ok x | none => .err "ber"), (g "au").getD [], first,
        (g "cj1").getD [], (g "cj2").getD [], (g "lic").getD []⟩
      let (tr, res) := Session.connectTrace cfg rep
      let pre : List String := (Session.writes tr).map toHex
      let okc := match res with | .ok _ => true | _ => false
      let c : GClient := ⟨.demandActive, uid, 1003, w, h, lay, none, (g "name").getD []⟩
      -- `reads=k`: the client shuts down after reading only the first k server messages
      let allOps := (srvmsgs.splitOn ",").filter (· ≠ "") |>.map ("M" ++ ·)
      let ops := match (kv toks "reads").bind String.toNat? with | some k => allOps.take k | none => allOps
      let ins := (inputs.splitOn ",").filter (· ≠ "")
      match connSteps uid c (ops ++ ins) [] with
      | none => "bad-case"
      | some fr =>
        let dpu := okOr (x224Frame Mcs.disconnectUltimatum)
        (if okc then "ok" else "E@connect") ++ " ahead=-" ++ " cr=" ++ toHex cr ++ " nla=" ++ hexOrDash nlaBytes ++ " frames=" ++ "+".intercalate (pre ++ fr ++ [dpu]) ++ " creds=" ++ creds ++ "\t-"
    | _, _, _, _, _, _ => "bad-case"
  | _, _, _, _, _, _, _ => "bad-case"

/-- `tlsgate`: the connector trace model against a server whose certificate the platform
    verifier does not trust (self-signed) and which otherwise lets everything succeed -/
def tlsgateOp (toks : List String) : String :=
  let b := fun k => kv toks k == some "1"
  match (kv toks "sel").bind String.toNat? with
  | some sel =>
    let cfg : Connector.Config := ⟨b "nla", b "check", b "ra"⟩
    -- the server's connection confirm: TYPE_RDP_NEG_RSP selecting `sel`
    -- `nf=`: the flag byte of the negotiation response; `bare=1`: a confirm without negotiation response
    let nf := ((kv toks "nf").bind String.toNat?).getD 0
    let confirm : Bytes := if kv toks "bare" == some "1" then [0x06, 0xd0, 0, 0, 0, 0, 0]
      else [0x0e, 0xd0, 0, 0, 0, 0, 0, 2, UInt8.ofNat nf, 8, 0] ++ encInt .le 4 sel
    let env : Connector.Env := ⟨confirm, false, true, 10⟩
    let tr := Connector.trace cfg env
    let up := tr.contains .tlsUp
    let cred := tr.any (·.credentialBearing)
    let okc := up   -- with a server that lets every later phase succeed
    let req := Secrets.negotiationRequest ⟨b "nla", b "ra", false, false⟩
    let model := "tls=" ++ (if up then "up" else "refused") ++ " cred=" ++ (if cred then "1" else "0") ++ " connect=" ++ (if okc then "ok" else "E") ++ " req=" ++ toHex req
    -- property: with checking on, an untrusted certificate ends the connection before any credential-bearing message
    let oracle := if b "check" then "tls=refused cred=0 connect=E req=*" else "-"
    model ++ "\t" ++ oracle
  | none => "bad-case"

/-- `nlagate <which> <junk>`: Hybrid selected, TLS established, CredSSP round `which` answered with bytes that are
    not a TSRequest — the connector trace model with the later phases stopping there -/
def nlagateOp (toks : List String) : String :=
  match toks with
  | [_, which, _] =>
    match which.toNat? with
    | some k =>
      let confirm : Bytes := [0x0e, 0xd0, 0, 0, 0, 0, 0, 2, 0, 8, 0] ++ encInt .le 4 2
      let tr := Connector.trace ⟨true, false, false⟩ ⟨confirm, true, true, k - 1⟩
      let mcs := (tr.filter fun e => e == .mcsConnectInitial || e == .mcsSetup || e == .clientInfo).length
      let okc := tr.contains .clientInfo
      "connect=" ++ (if okc then "ok" else "E") ++ " mcs=" ++ toString mcs ++ "\tconnect=E mcs=0"
    | none => "bad-case"
  | _ => "bad-case"

/-- `strict <kind> <hex>`: the strict reference decoder on bytes the implementation wrote -/
def strictOp (toks : List String) : String :=
  match toks with
  | [_, kind, hx] =>
    match ofHex hx with
    | some b =>
      let v := if kind = "tsreq" then Spec.Strict.tsRequest b else Spec.Strict.frame b
      "ok\t" ++ Spec.Strict.verdict v
    | none => "bad-case"
  | _ => "bad-case"

end Rdp.Driver
