import RdpModel.Wire.Tpkt
import RdpModel.Spec.Deframe
namespace Rdp.Driver
open Rdp Rdp.Spec

def parseNatList (s : String) : Option (List Nat) :=
  if s = "-" then some [] else (s.splitOn ",").mapM String.toNat?

def showPayload : Payload → String
  | .raw b => "R:" ++ hexOrDash b
  | .fast f b => "F" ++ toString f ++ ":" ++ hexOrDash b

def showReadN (r : List Payload × Outcome Transport) : String :=
  let items := r.1.map showPayload
  let fin := match r.2 with
    | .ok t => "left=" ++ hexOrDash t.data
    | .err _ => "E"
    | .panic _ => "P"
  ";".intercalate (items ++ [fin])

/-- oracle: iterate the reference deframer -/
def specReadN (x224 : Bool) : Nat → Bytes → List String → String
  | 0, d, acc => ";".intercalate (acc.reverse ++ ["left=" ++ hexOrDash d])
  | k+1, d, acc =>
    match deframe d with
    | none => ";".intercalate (acc.reverse ++ ["E"])
    | some (f, rest) =>
      match f with
      | .slow _ p =>
        if x224 then
          match p with
          | _ :: _ :: sep :: body =>
            if sep = 0x80 then specReadN x224 k rest (("R:" ++ hexOrDash body) :: acc)
            else ";".intercalate (acc.reverse ++ ["E"])
          | _ => ";".intercalate (acc.reverse ++ ["E"])
        else specReadN x224 k rest (("R:" ++ hexOrDash p) :: acc)
      | .fastShort a p => specReadN x224 k rest (("F" ++ toString (secFlags a) ++ ":" ++ hexOrDash p) :: acc)
      | .fastLong a p => specReadN x224 k rest (("F" ++ toString (secFlags a) ++ ":" ++ hexOrDash p) :: acc)

/-- `tpkt_tls`: the byte stream reaches the deframer through TLS; record boundaries (the
    last argument) are invisible to it, the stream ends after the data -/
def c13tls (toks : List String) : String :=
  match toks with
  | [_, k, d, _] =>
    match k.toNat?, ofHex d with
    | some k, some d =>
      let r := readN Tpkt.read k ⟨d, []⟩ []
      let strip := fun (s : String) =>
        let items := s.splitOn ";"
        ";".intercalate (items.dropLast ++ [if (items.getLast?.getD "").startsWith "left=" then "ok" else (items.getLast?.getD "")])
      strip (showReadN r) ++ "\t" ++ strip (specReadN false k d [])
    | _, _ => "bad-case"
  | _ => "bad-case"

def c13 (toks : List String) : String :=
  if toks.head? = some "tpkt_tls" then c13tls toks else
  match toks with
  | [op, k, d, s] =>
    match k.toNat?, ofHex d, parseNatList s with
    | some k, some d, some s =>
      let x := op == "x224_read" || op == "x224_read_rdp"
      let rd := if x then X224.read else Tpkt.read
      showReadN (readN rd k ⟨d, s⟩ []) ++ "\t" ++ specReadN x k d []
    | _, _, _ => "bad-case"
  | _ => "bad-case"

end Rdp.Driver
