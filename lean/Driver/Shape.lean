import RdpModel.Msg.Model
/-
  Shape language: a textual description (no spaces) of a `Msg`, shared with the Rust
  harness, which builds the corresponding `Box<dyn Message>` from the same string.
    B<n> | Hl<n> | Hb<n> | Wl<n> | Wb<n> | X<hex>; | C(<m>) | T(<m>,…) | K(name=<m>,…)
    D(<m>|<optfn>)   optfn: n | s:field:mul:add:sub | k:field:set:clear | u:field:sub
    O(<m>) | O()     A(<tmpl>|<m>,…) | A(!|<m>,…)
-/
namespace Rdp.Driver
open Rdp

abbrev P (α : Type) := List Char → Option (α × List Char)

def pNat : P Nat := fun cs =>
  let ds := cs.takeWhile Char.isDigit
  if ds.isEmpty then none else some (ds.foldl (fun n c => n * 10 + (c.toNat - 48)) 0, cs.dropWhile Char.isDigit)

def pName : P String := fun cs =>
  let ok := fun (c : Char) => c.isAlphanum || c == '_'
  let ds := cs.takeWhile ok
  some (String.ofList ds, cs.dropWhile ok)

def expect (c : Char) : List Char → Option (List Char)
  | x :: rest => if x = c then some rest else none
  | [] => none

def pOptFn : P OptFn := fun cs =>
  match cs with
  | 'n' :: rest => some (.none, rest)
  | 's' :: ':' :: rest => do
    let (f, rest) ← pName rest
    let rest ← expect ':' rest
    let (a, rest) ← pNat rest
    let rest ← expect ':' rest
    let (b, rest) ← pNat rest
    let rest ← expect ':' rest
    let (c, rest) ← pNat rest
    pure (.size f a b c, rest)
  | 't' :: ':' :: rest => do
    let (f, rest) ← pName rest
    let rest ← expect ':' rest
    let (a, rest) ← pNat rest
    let rest ← expect ':' rest
    let (b, rest) ← pNat rest
    let rest ← expect ':' rest
    let (c, rest) ← pNat rest
    pure (.sizeSat f a b c, rest)
  | 'k' :: ':' :: rest => do
    let (f, rest) ← pName rest
    let rest ← expect ':' rest
    let (a, rest) ← pNat rest
    let rest ← expect ':' rest
    let (b, rest) ← pNat rest
    pure (.skipIf f a b, rest)
  | 'u' :: ':' :: rest => do
    let (f, rest) ← pName rest
    let rest ← expect ':' rest
    let (g, rest) ← pName rest
    pure (.sizeOfSub f g, rest)
  | _ => none

def pEndian : P Endian := fun cs =>
  match cs with
  | 'l' :: r => some (.le, r)
  | 'b' :: r => some (.be, r)
  | _ => none

mutual
def pMsg : Nat → P Msg
  | 0, _ => none
  | fuel+1, cs =>
    match cs with
    | 'B' :: r => do let (n, r) ← pNat r; pure (.u8 n, r)
    | 'H' :: r => do let (e, r) ← pEndian r; let (n, r) ← pNat r; pure (.u16 e n, r)
    | 'W' :: r => do let (e, r) ← pEndian r; let (n, r) ← pNat r; pure (.u32 e n, r)
    | 'X' :: r =>
      let hx := r.takeWhile (· ≠ ';')
      match ofHexChars hx, expect ';' (r.dropWhile (· ≠ ';')) with
      | some b, some r' => some (.bytes b, r')
      | _, _ => none
    | 'C' :: '(' :: r => do let (m, r) ← pMsg fuel r; let r ← expect ')' r; pure (.check m, r)
    | 'T' :: '(' :: r => do let (ms, r) ← pList fuel r; pure (.trame ms, r)
    | 'K' :: '(' :: r => do let (fs, r) ← pFields fuel r; pure (.comp fs, r)
    | 'D' :: '(' :: r => do
      let (m, r) ← pMsg fuel r
      let r ← expect '|' r
      let (f, r) ← pOptFn r
      let r ← expect ')' r
      pure (.dyn m f, r)
    | 'O' :: '(' :: ')' :: r => some (.opt none, r)
    | 'O' :: '(' :: r => do let (m, r) ← pMsg fuel r; let r ← expect ')' r; pure (.opt (some m), r)
    | 'A' :: '(' :: '!' :: '|' :: r => do let (ms, r) ← pList fuel r; pure (.array none ms, r)
    | 'A' :: '(' :: r => do
      let (t, r) ← pMsg fuel r
      let r ← expect '|' r
      let (ms, r) ← pList fuel r
      pure (.array (some t) ms, r)
    | _ => none
/-- items up to and including the closing parenthesis -/
def pList : Nat → P (List Msg)
  | 0, _ => none
  | fuel+1, cs =>
    match cs with
    | ')' :: r => some ([], r)
    | _ => do
      let (m, r) ← pMsg fuel cs
      match r with
      | ',' :: r => do let (ms, r) ← pList fuel r; pure (m :: ms, r)
      | ')' :: r => pure ([m], r)
      | _ => none
def pFields : Nat → P (List (String × Msg))
  | 0, _ => none
  | fuel+1, cs =>
    match cs with
    | ')' :: r => some ([], r)
    | _ => do
      let (n, r) ← pName cs
      let r ← expect '=' r
      let (m, r) ← pMsg fuel r
      match r with
      | ',' :: r => do let (fs, r) ← pFields fuel r; pure ((n, m) :: fs, r)
      | ')' :: r => pure ([(n, m)], r)
      | _ => none
end

def parseShape (s : String) : Option Msg :=
  let cs := s.toList
  match pMsg (cs.length + 2) cs with
  | some (m, []) => some m
  | _ => none

def showRR (r : RR Msg) : String :=
  match r with
  | .ok m rest => "ok " ++ dump m ++ " left=" ++ hexOrDash rest
  | .err rest => "E left=" ++ hexOrDash rest
  | .panic _ => "P"

end Rdp.Driver
