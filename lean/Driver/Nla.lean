import RdpModel.Nla.Seal
import RdpModel.Nla.Ntlm
import RdpModel.Spec.NlmpVerify
import Driver.Connect
import Driver.C13
namespace Rdp.Driver
open Rdp Rdp.Crypto Rdp.Nla

def flipBit (b : Bytes) (n : Nat) : Bytes :=
  b.zipIdx.map fun (x, i) => if i = n / 8 then x ^^^ (UInt8.ofNat (1 <<< (n % 8))) else x

def splitColon (s : String) : Option (Nat × Bytes) :=
  match s.splitOn ":" with
  | [a, b] => do let n ← a.toNat?; let h ← ofHex b; pure (n, h)
  | _ => none

/-- one op on (main, mirror); returns the output item and the oracle item -/
def sealOp (main mirror : SecCtx) (op : String) (synced : Bool) : Option (SecCtx × SecCtx × String × String × Bool) :=
  let showU := fun (r : Outcome Bytes) => match r with | .ok b => "ok:" ++ hexOrDash b | .err _ => "E" | .panic _ => "P"
  match op.toList with
  | 'W' :: rest => do
    let pt ← ofHex (String.ofList rest)
    match wrap main pt with
    | .ok (out, main') =>
      let spec := (Spec.Nlmp.sealMsg main.encrypt main.signKey main.seq pt).1
      pure (main', mirror, "w:" ++ toHex out, "w:" ++ toHex spec, synced)
    | _ => none
  | 'M' :: rest => do
    let pt ← ofHex (String.ofList rest)
    match wrap mirror pt with
    | .ok (sealed, mirror') =>
      let (r, main') := unwrap main sealed
      pure (main', mirror', showU r, if synced then "ok:" ++ hexOrDash pt else "*", synced)
    | _ => none
  | 'T' :: rest => do
    let (bit, pt) ← splitColon (String.ofList rest)
    match wrap mirror pt with
    | .ok (sealed, mirror') =>
      let (r, main') := unwrap main (flipBit sealed bit)
      pure (main', mirror', showU r, if synced then "E" else "*", false)
    | _ => none
  | 'D' :: rest => do
    -- two bits altered (n = 4096 * first + second): differences that would cancel in a folded comparison
    let (n, pt) ← splitColon (String.ofList rest)
    match wrap mirror pt with
    | .ok (sealed, mirror') =>
      let (r, main') := unwrap main (flipBit (flipBit sealed (n / 4096)) (n % 4096))
      pure (main', mirror', showU r, if synced ∧ n / 4096 ≠ n % 4096 then "E" else "*", false)
    | _ => none
  | 'R' :: rest => do
    -- the SAME tampered bytes handed in twice: rejected both times
    let (bit, pt) ← splitColon (String.ofList rest)
    match wrap mirror pt with
    | .ok (sealed, mirror') =>
      let t := flipBit sealed bit
      let (r1, main1) := unwrap main t
      let (r2, main2) := unwrap main1 t
      pure (main2, mirror', showU r1 ++ "+" ++ showU r2, if synced then "E+E" else "*", false)
    | _ => none
  | 'X' :: rest => do
    let (n, pt) ← splitColon (String.ofList rest)
    match wrap mirror pt with
    | .ok (sealed, mirror') =>
      let (r, main') := unwrap main (sealed.take n)
      pure (main', mirror', showU r, if synced ∧ n < sealed.length then "E" else "*", false)
    | _ => none
  | 'A' :: rest => do
    let (n, pt) ← splitColon (String.ofList rest)
    match wrap mirror pt with
    | .ok (sealed, mirror') =>
      let (r, main') := unwrap main (sealed ++ List.replicate n 0)
      pure (main', mirror', showU r, if synced ∧ n > 0 then "E" else "*", false)
    | _ => none
  | 'U' :: rest => do
    let raw ← ofHex (String.ofList rest)
    let (r, main') := unwrap main raw
    pure (main', mirror, showU r, "*", false)
  | _ => none

def sealOps : SecCtx → SecCtx → List String → Bool → List String → List String → Option (List String × List String)
  | _, _, [], _, a, b => some (a.reverse, b.reverse)
  | main, mirror, op :: ops, synced, a, b =>
    match sealOp main mirror op synced with
    | some (main', mirror', out, orc, synced') => sealOps main' mirror' ops synced' (out :: a) (orc :: b)
    | none => none

def ntlmAuth (toks : List String) : String :=
  let g := fun k => (kv toks k).bind ofHex
  match g "key", g "dom16", g "usr16", g "dom8", g "usr8", g "neg", g "chal", g "cc", g "ek" with
  | some key0, some d16, some u16, some d8, some u8, some neg, some chal, some cc, some ek =>
    -- when the password is on the line the model derives the key itself (md4 + hmac in Lean)
    let key := match g "pw16", g "ud16" with
      | some pw, some ud => ntowfv2 pw ud
      | _, _ => key0
    let i : NtlmIn := ⟨key, d16, u16, d8, u8, neg, cc, ek⟩
    let model := match readChallenge i chal with
      | .ok tok => "ok " ++ toHex tok
      | .err _ => "E"
      | .panic _ => "P"
    -- oracle: the independent MS-NLMP verifier run on the IMPLEMENTATION's token
    let oracle := match g "tok" with
      | some tok =>
        -- server-side knowledge: its own challenge message
        let flags := Spec.Nlmp.u32at chal 20
        let srvChal := (chal.drop 24).take 8
        let unicode := flags &&& 1 = 1
        let srv : Spec.Nlmp.Server := ⟨key, neg, chal, srvChal, flags, if unicode then d16 else d8, if unicode then u16 else u8⟩
        match Spec.Nlmp.verify srv tok with
        | .accept k => if k = ek then "ok " ++ toHex tok else "!exported-key-mismatch"
        | .reject why => "!rejected:" ++ why
      | none => "-"
    model ++ "\t" ++ oracle
  | _, _, _, _, _, _, _, _, _ => "bad-case"

/-- an operation whose dependency (yasna / x509) is not modelled: the observation is echoed -/
def observedOnly (toks : List String) : String :=
  match kv toks "obs" with
  | some o => o.replace "_" " " ++ "\t-"
  | none => "bad-case"

def nlaOps (toks : List String) : String :=
  match toks with
  | "ntlm_auth" :: _ => ntlmAuth toks
  | "ts_chal" :: _ => observedOnly toks
  | "ts_validate" :: _ => observedOnly toks
  | ["seal", ke, kd, ks, kv, ops] =>
    match ofHex ke, ofHex kd, ofHex ks, ofHex kv with
    | some ke, some kd, some ks, some kv =>
      match Rc4.new ke, Rc4.new kd with
      | .ok re, .ok rd =>
        let main : SecCtx := ⟨re, rd, ks, kv, 0⟩
        let mirror : SecCtx := ⟨rd, re, kv, ks, 0⟩
        match sealOps main mirror (ops.splitOn ",") true [] [] with
        | some (outs, orcs) => ";".intercalate outs ++ "\t" ++ ";".intercalate orcs
        | none => "bad-case"
      | _, _ => "P\t-"
    | _, _, _, _ => "bad-case"
  | _ => "bad-case"

end Rdp.Driver
