import RdpModel.Codec.Decompress
import RdpModel.Spec.Bitmap
import Driver.C14
namespace Rdp.Driver
open Rdp Rdp.Codec Rdp.Spec.Bitmap

def showBytesOut (o : Outcome (List UInt8)) : String :=
  match o with
  | .ok b => "ok " ++ showOut b
  | .err _ => "E"
  | .panic _ => "P"

def natsToBytes (l : List Nat) : List UInt8 := l.map UInt8.ofNat

/-- oracle: the reference decoders (Spec/Bitmap.lean) -/
def specDecompress (w h bpp : Nat) (c : Bool) (d : Bytes) : String :=
  -- the reference decoders work on lists: the oracle is evaluated for bitmaps up to 64x64
  if w * h > 4096 then (if bpp = 16 ∨ bpp = 32 then "-" else "E") else
  let da := d.toArray
  if bpp = 16 then
    if c then
      match rle16Decode w h d with
      | some flat =>
        let want := "ok " ++ showOut (natsToBytes ((topDown w flat).flatMap widen565))
        -- streams with an order crossing the end of the first scanline: the reference
        -- decoder's answer is still reported, under the class of the recorded known finding
        if noFirstLineCrossing w h d then want else "X:first-line-crossing:" ++ want
      | none => "-"
    else
      if d.length < w * h * 2 then "E" else
      let px := (List.range (w * h)).map fun idx =>
        let r := idx / w; let col := idx % w
        let src := ((h - 1 - r) * w + col) * 2
        (da.getD src 0).toNat + 256 * (da.getD (src + 1) 0).toNat
      "ok " ++ showOut (natsToBytes (px.flatMap widen565))
  else if bpp = 32 then
    if c then
      if w = 0 ∨ h = 0 then "-" else
      match planarDecode w h d with
      | some (a, r, g, b) =>
        let rows := (List.range h).map fun k =>           -- k-th scanline in stream order
          (List.range w).flatMap fun x =>
            [(b.getD k []).getD x 0, (g.getD k []).getD x 0, (r.getD k []).getD x 0, (a.getD k []).getD x 0]
        "ok " ++ showOut (natsToBytes rows.reverse.flatten)
      | none => "-"
    else
      if d.length < w * h * 4 then "E" else
      let rows := (List.range h).map fun k => (da.extract (k * w * 4) (k * w * 4 + w * 4)).toList
      "ok " ++ showOut rows.reverse.flatten
  else "E"

def c08 (toks : List String) : String :=
  match toks with
  | [_, w, h, bpp, c, hx] =>
    match w.toNat?, h.toNat?, bpp.toNat?, parsePayload hx with
    | some w, some h, some bpp, some d =>
      let ev : BitmapEvent := ⟨w, h, bpp, c = "1", d.toArray⟩
      let r := decompress ev
      -- `am=`: the bytes of buffer the model says the call requests (`allocTrace`)
      showBytesOut r ++ " am=" ++ toString (allocTrace ev).sum ++ "\t" ++ specDecompress w h bpp (c = "1") d
    | _, _, _, _ => "bad-case"
  | [_, bpp, hx, w1, h1, w2, h2] =>
    -- `decomp2`: the same compressed data decoded twice in a row with two geometries: each result is its own
    match bpp.toNat?, parsePayload hx, w1.toNat?, h1.toNat?, w2.toNat?, h2.toNat? with
    | some bpp, some d, some w1, some h1, some w2, some h2 =>
      let r1 := decompress ⟨w1, h1, bpp, true, d.toArray⟩
      let r2 := decompress ⟨w2, h2, bpp, true, d.toArray⟩
      let o1 := specDecompress w1 h1 bpp true d
      let o2 := specDecompress w2 h2 bpp true d
      let orc := if o1 = "-" ∨ o2 = "-" ∨ o1.startsWith "X:" ∨ o2.startsWith "X:" then "-" else o1 ++ "|" ++ o2
      showBytesOut r1 ++ "|" ++ showBytesOut r2 ++ "\t" ++ orc
    | _, _, _, _, _, _ => "bad-case"
  | _ => "bad-case"

end Rdp.Driver
