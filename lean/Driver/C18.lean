import Driver.Shape
namespace Rdp.Driver
open Rdp

def c18 (toks : List String) : String :=
  match toks with
  | ["msg_wr", sh] =>
    match parseShape sh with
    | some m =>
      match write m, length m with
      | .ok b, .ok n => "len=" ++ toString n ++ " bytes=" ++ hexOrDash b ++ "\t-"
      | .panic _, _ => "P\t-"
      | _, .panic _ => "P\t-"
      | _, _ => "E\t-"
    | none => "bad-case"
  | ["msg_rd", sh, hx] =>
    match parseShape sh, ofHex hx with
    | some t, some b => showRR (read t b) ++ "\t-"
    | _, _ => "bad-case"
  | ["msg_rt", tsh, vsh] =>
    match parseShape tsh, parseShape vsh with
    | some t, some v =>
      match write v with
      | .ok b =>
        let r := read t b
        let out := showRR r
        -- oracle: the theorem `read_enc` says a well-formed pair round-trips; a pair on
        -- which the model itself does not is not well-formed and nothing is claimed
        let want := "ok " ++ dump v ++ " left=-"
        out ++ "\t" ++ (if out = want then want else "-")
      | .panic _ => "P\t-"
      | .err _ => "E\t-"
    | _, _ => "bad-case"
  | _ => "bad-case"

end Rdp.Driver
