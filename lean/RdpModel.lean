import RdpModel.Base.Outcome
import RdpModel.Base.Bytes
