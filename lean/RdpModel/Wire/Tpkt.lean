import RdpModel.Wire.Link
/-
  Model of src/core/tpkt.rs `Client::read` (header-driven exact reads).
-/
namespace Rdp

inductive Payload where
  | raw (b : Bytes)
  | fast (secFlags : Nat) (b : Bytes)
deriving Repr, DecidableEq

/-- body read: `tpkt.rs read_payload` — a zero-length body is an empty payload and takes
    nothing from the transport (a `Link::read(0)` would mean "whatever is available"). -/
def Tpkt.readBody (n : Nat) (t : Transport) : Outcome (Bytes × Transport) :=
  if n = 0 then .ok ([], t) else Link.read n t

/-- `tpkt::Client::read` -/
def Tpkt.read (t : Transport) : Outcome (Payload × Transport) :=
  (Link.read 2 t).bind fun (h, t) =>
  match h with
  | [action, second] =>
    if action = 3 then
      (Link.read 2 t).bind fun (s, t) =>
      let size := beNat s
      if size < 4 then .err "InvalidSize"
      else (Tpkt.readBody (size - 4) t).bind fun (b, t) => .ok (.raw b, t)
    else
      let sec := (action.toNat >>> 6) &&& 3
      if second.toNat &&& 0x80 ≠ 0 then
        (Link.read 1 t).bind fun (hi, t) =>
        match hi with
        | [hi] =>
          let length := ((second.toNat &&& 0x7f) <<< 8) ||| hi.toNat
          if length < 3 then .err "InvalidSize"
          else (Tpkt.readBody (length - 3) t).bind fun (b, t) => .ok (.fast sec b, t)
        | _ => .panic "unreachable:read(1)"
      else
        if second.toNat < 2 then .err "InvalidSize"
        else (Tpkt.readBody (second.toNat - 2) t).bind fun (b, t) => .ok (.fast sec b, t)
  | _ => .panic "unreachable:read(2)"

/-- `x224_header()` read: `02 F0 80` (only the separator is checked) -/
def X224.read (t : Transport) : Outcome (Payload × Transport) :=
  (Tpkt.read t).bind fun (p, t) =>
  match p with
  | .raw b =>
    match b with
    | _ :: _ :: sep :: rest => if sep = 0x80 then .ok (.raw rest, t) else .err "InvalidConst"
    | _ => .err "eof"
  | .fast f b => .ok (.fast f b, t)

/-- k successive reads; stops at the first failure -/
def readN (rd : Transport → Outcome (Payload × Transport)) :
    Nat → Transport → List Payload → (List Payload × Outcome Transport)
  | 0, t, acc => (acc.reverse, .ok t)
  | k+1, t, acc =>
    match rd t with
    | .ok (p, t') => readN rd k t' (p :: acc)
    | .err e => (acc.reverse, .err e)
    | .panic s => (acc.reverse, .panic s)

end Rdp
