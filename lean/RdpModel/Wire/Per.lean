import RdpModel.Msg.Model
/-
  Model of src/core/per.rs (ASN.1 PER primitives used by T.125/T.124), readers over a
  cursor (`RR`), writers as byte strings.
-/
namespace Rdp.Per
open Rdp

def readU8 (s : Bytes) : RR Nat := (rdExact 1 s).bind fun b r => .ok (leNat b) r
def readU16be (s : Bytes) : RR Nat := (rdExact 2 s).bind fun b r => .ok (decInt .be b) r
def readU32be (s : Bytes) : RR Nat := (rdExact 4 s).bind fun b r => .ok (decInt .be b) r

/-- `read_length` -/
def readLength (s : Bytes) : RR Nat :=
  (readU8 s).bind fun b r =>
    if b &&& 0x80 ≠ 0 then
      (readU8 r).bind fun b2 r2 => .ok (((b &&& 0x7f) <<< 8) + b2) r2
    else .ok b r

/-- `write_length` (argument is a u16) -/
def writeLength (n : Nat) : Bytes :=
  if n > 0x7f then encInt .be 2 (n ||| 0x8000) else [UInt8.ofNat n]

/-- `read_integer` -/
def readInteger (s : Bytes) : RR Nat :=
  (readLength s).bind fun size r =>
    if size = 1 then readU8 r
    else if size = 2 then readU16be r
    else if size = 4 then readU32be r
    else .err r

/-- `write_integer` (argument is a u32) -/
def writeInteger (n : Nat) : Bytes :=
  if n < 0xFF then writeLength 1 ++ [UInt8.ofNat n]
  else if n < 0xFFFF then writeLength 2 ++ encInt .be 2 n
  else writeLength 4 ++ encInt .be 4 n

/-- `read_integer_16`: a sum that does not fit 16 bits is an error -/
def readInteger16 (minimum : Nat) (s : Bytes) : RR Nat :=
  (readU16be s).bind fun v r =>
    if v + minimum < 65536 then .ok (v + minimum) r else .err r

/-- `write_integer_16`: `integer - minimum` on u16 panics on underflow -/
def writeInteger16 (integer minimum : Nat) : Outcome Bytes :=
  if minimum ≤ integer then .ok (encInt .be 2 (integer - minimum)) else .panic "per.rs:write_integer_16 underflow"

/-- `read_object_identifier(oid, s)`: `Ok(parsed == oid)` -/
def readOid (oid : List Nat) (s : Bytes) : RR Bool :=
  if oid.length ≠ 6 then .err s else
  (readLength s).bind fun len r =>
    if len ≠ 5 then .err r else
    (readU8 r).bind fun t0 r =>
    (readU8 r).bind fun t1 r =>
    (readU8 r).bind fun t2 r =>
    (readU8 r).bind fun t3 r =>
    (readU8 r).bind fun t4 r =>
      .ok (decide ([t0 >>> 4, t0 &&& 0xf, t1, t2, t3, t4] = oid)) r

/-- `write_object_identifier` (elements are u8; `<<` on u8 discards the high bits) -/
def writeOid (oid : List Nat) : Outcome Bytes :=
  match oid with
  | [a, b, c, d, e, f] =>
    .ok [5, UInt8.ofNat (((a <<< 4) % 256) ||| (b &&& 0xf)), UInt8.ofNat c, UInt8.ofNat d, UInt8.ofNat e, UInt8.ofNat f]
  | _ => .err "InvalidSize"

/-- `read_octet_stream(expected, minimum, s)` -/
def readOctetStream (expected : Bytes) (minimum : Nat) (s : Bytes) : RR Unit :=
  (readLength s).bind fun len r =>
    if len + minimum ≠ expected.length then .err r else
    let rec go : Bytes → Bytes → RR Unit
      | [], r => .ok () r
      | e :: es, r => (readU8 r).bind fun c r' => if c = e.toNat then go es r' else .err r'
    go expected r

/-- `write_octet_stream` -/
def writeOctetStream (os : Bytes) (minimum : Nat) : Bytes :=
  let len := if minimum ≤ os.length then os.length - minimum else minimum
  writeLength (len % 65536) ++ os

/-- `write_padding` -/
def writePadding (n : Nat) : Bytes := List.replicate n 0

/-- `read_padding`: one `read` into an n-byte buffer (never fails on a cursor) -/
def readPadding (n : Nat) (s : Bytes) : RR Unit := .ok () (s.drop n)

/-- `write_numeric_string` as written (one output byte per input character; characters
    below '0' underflow) -/
def writeNumericString (str : Bytes) (minimum : Nat) : Outcome Bytes :=
  let len := if minimum ≤ str.length then str.length - minimum else str.length
  let rec go : Bytes → Outcome Bytes
    | [] => .ok []
    | c1 :: rest =>
      let c2 : UInt8 := match rest with | c :: _ => c | [] => 0x30
      if c1.toNat < 0x30 ∨ c2.toNat < 0x30 then .panic "per.rs:write_numeric_string underflow"
      else (go rest).bind fun tl =>
        .ok (UInt8.ofNat ((((c1.toNat - 0x30) % 10) <<< 4) % 256 ||| ((c2.toNat - 0x30) % 10)) :: tl)
  (go str).bind fun body => .ok (writeLength (len % 65536) ++ body)

/-- `read_numeric_string` -/
def readNumericString (minimum : Nat) (s : Bytes) : RR Bytes :=
  (readLength s).bind fun len r => rdExact (len + minimum + 1) r

end Rdp.Per
