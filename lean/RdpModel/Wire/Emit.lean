import RdpModel.Wire.Mcs
import RdpModel.Wire.Connect
import RdpModel.Nla.Cssp
/-
  Emitters of the connection phase: the X.224 connection request, MCS connect-initial with
  the GCC conference-create request and the three client data blocks (gcc.rs, mcs.rs), erect
  domain, attach user, channel joins, the Client Info PDU (sec.rs).  Strings are lists of
  Unicode scalar values; UTF-16 encoding is modelled.
-/
namespace Rdp.Emit
open Rdp Rdp.Per Rdp.Nla

def le16 (n : Nat) : Bytes := encInt .le 2 n
def le32 (n : Nat) : Bytes := encInt .le 4 n
def be16 (n : Nat) : Bytes := encInt .be 2 n
def zeros (n : Nat) : Bytes := List.replicate n 0

/-- UTF-16 code units of one scalar value -/
def unitsOf (c : Char) : List Nat :=
  if c.toNat < 0x10000 then [c.toNat]
  else [0xD800 + (c.toNat - 0x10000) / 0x400, 0xDC00 + (c.toNat - 0x10000) % 0x400]
def utf16Units (s : List Char) : List Nat := s.flatMap unitsOf
def le16s (us : List Nat) : Bytes := us.flatMap le16
/-- `String::to_unicode` -/
def utf16le (s : List Char) : Bytes := le16s (utf16Units s)

def isHighSurrogate (u : Nat) : Bool := 0xD800 ≤ u && u < 0xDC00

/-- the fixed 32-byte `clientName`: at most 15 code units, never half a surrogate pair,
    zero padded (so always terminated) -/
def clientNameUnits (name : List Char) : List Nat :=
  let u := (utf16Units name).take 15
  let u := match u.getLast? with
    | some l => if isHighSurrogate l then u.dropLast else u
    | none => u
  u ++ List.replicate (16 - u.length) 0
def clientNameField (name : List Char) : Bytes := le16s (clientNameUnits name)

/-- `client_core_data` -/
def clientCoreData (w h layout selected : Nat) (name : List Char) : Bytes :=
  le32 0x00080004 ++ le16 w ++ le16 h ++ le16 0xCA01 ++ le16 0xAA03 ++ le32 layout ++ le32 3790 ++
  clientNameField name ++ le32 4 ++ le32 0 ++ le32 12 ++ zeros 64 ++ le16 0xCA01 ++ le16 1 ++
  le32 0 ++ le16 0x18 ++ le16 0x0a ++ le16 1 ++ zeros 64 ++ [0] ++ [0] ++ le32 selected
def clientSecurityData : Bytes := le32 0x0b ++ le32 0
def clientNetworkData : Bytes := le32 0
/-- `block_header` + body -/
def block (ty : Nat) (body : Bytes) : Bytes := le16 ty ++ le16 (body.length % 65536 + 4) ++ body
def userData (w h layout selected : Nat) (name : List Char) : Bytes :=
  block 0xC001 (clientCoreData w h layout selected name) ++ block 0xC002 clientSecurityData ++
  block 0xC003 clientNetworkData

/-- `write_conference_create_request` -/
def conferenceCreateRequest (ud : Bytes) : Outcome Bytes :=
  (writeOid [0, 0, 20, 124, 0, 1]).bind fun oid =>
  (writeNumericString [0x31] 1).bind fun ns =>
    .ok ([0] ++ oid ++ writeLength ((ud.length % 65536 + 14) % 65536) ++ [0] ++ [8] ++ ns ++ writePadding 1 ++ [1] ++
         [0xc0] ++ writeOctetStream [0x44, 0x75, 0x63, 0x61] 4 ++ writeOctetStream ud 0)

/-- DER INTEGER of a u32 (yasna: minimal, non-negative) -/
def derUInt (n : Nat) : Bytes :=
  let bs := if n = 0 then [0] else beMin 8 n
  let bs := match bs with
    | b :: _ => if b.toNat ≥ 0x80 then 0 :: bs else bs
    | [] => [0]
  derTLV 0x02 bs
def domainParameters (ps : List Nat) : Bytes := derSeq (ps.flatMap derUInt)

/-- `to_der(connect_initial(conference))` -/
def connectInitial (conference : Bytes) : Bytes :=
  let body := derOctets [1] ++ derOctets [1] ++ [0x01, 0x01, 0xff] ++
    domainParameters [34, 2, 0, 1, 0, 1, 0xffff, 2] ++ domainParameters [1, 1, 1, 1, 0, 1, 0x420, 2] ++
    domainParameters [0xffff, 0xfc17, 0xffff, 1, 0, 1, 0xffff, 2] ++ derOctets conference
  [0x7f, 0x65] ++ derLen body.length ++ body

/-- one `x224.write(payload)` as a frame on the stream -/
def x224Frame (payload : Bytes) : Outcome Bytes :=
  let x := x224DataHeader ++ payload
  if x.length + 4 > 65535 then .err "InvalidSize" else .ok (tpktHeader x.length ++ x)

def connectInitialFrame (w h layout selected : Nat) (name : List Char) : Outcome Bytes :=
  (conferenceCreateRequest (userData w h layout selected name)).bind fun c => x224Frame (connectInitial c)

def erectDomain : Bytes := [0x04] ++ writeInteger 0 ++ writeInteger 0
def attachUser : Bytes := [0x28]
def channelJoin (uid chan : Nat) : Outcome Bytes :=
  (checkedSub "mcs.rs:user_id - 1001" uid 1001).bind fun u => .ok ([0x38] ++ be16 u ++ be16 chan)

/-- the X.224 connection request frame (`write_connection_request`) -/
def connectionRequestFrame (mode protocols : Nat) : Bytes :=
  let p : Bytes := [14, 0xE0, 0, 0, 0, 0, 0] ++ [1, UInt8.ofNat mode] ++ le16 8 ++ le32 protocols
  tpktHeader p.length ++ p

/-- `rdp_extended_infos` -/
def extendedInfo : Bytes :=
  le16 2 ++ le16 2 ++ [0, 0] ++ le16 2 ++ [0, 0] ++ zeros 172 ++ le32 0 ++ le32 0

def infoFlags (autoLogon : Bool) : Nat := 0x10153 + (if autoLogon then 8 else 0)

/-- `rdp_infos` preceded by the security header of `sec::connect` -/
def clientInfo (extended autoLogon : Bool) (domain user password : List Char) : Bytes :=
  let d := utf16le domain
  let u := utf16le user
  let p := utf16le password
  le16 0x40 ++ le16 0 ++
  le32 0 ++ le32 (infoFlags autoLogon) ++ le16 (d.length % 65536) ++ le16 (u.length % 65536) ++
  le16 (p.length % 65536) ++ le16 0 ++ le16 0 ++ d ++ [0, 0] ++ u ++ [0, 0] ++ p ++ [0, 0] ++ [0, 0] ++ [0, 0] ++
  (if extended then extendedInfo else [])

end Rdp.Emit

namespace Rdp.Secrets
open Rdp Rdp.Emit Rdp.Nla

structure Mode where
  nla : Bool
  restricted : Bool
  blank : Bool
  autoLogon : Bool
deriving Repr

/-- the only bytes written before TLS -/
def negotiationRequest (m : Mode) : Bytes :=
  connectionRequestFrame (if m.restricted then 1 else 0) (if m.nla then 3 else 1)

/-- `tpkt.start_nla(…, restricted_admin_mode || blank_creds)` -/
def credsspRestricted (m : Mode) : Bool := m.restricted || m.blank

/-- the Client Info PDU of `Connector::connect` (empty strings in restricted-admin mode) -/
def infoPdu (m : Mode) (extended : Bool) (domain user password : List Char) : Bytes :=
  if m.restricted then clientInfo extended m.autoLogon [] [] []
  else clientInfo extended m.autoLogon domain user password

end Rdp.Secrets
