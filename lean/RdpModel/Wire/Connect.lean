import RdpModel.Wire.Schemas
import RdpModel.Wire.Global
import RdpModel.Wire.Mcs
/-
  Models of the connection-setup readers: X.224 connection confirm + protocol decision
  (x224.rs), GCC conference-create-response (gcc.rs), attach-user / channel-join confirms
  (mcs.rs), licensing (license.rs, sec.rs).
-/
namespace Rdp.Connect
open Rdp Rdp.Schema Rdp.Per Rdp.Global

/-! ### X.224 negotiation -/

def x224ConnectionPduTmpl : Msg := .comp [
  ("header", .comp [("len", .u8 14), ("code", .u8 0xE0),
                    ("padding", .trame [u16le 0, u16le 0, .u8 0])]),
  ("negotiation", .comp [("type", .u8 1), ("flag", .u8 0),
                         ("length", .check (u16le 8)), ("result", u32le 0)])]

/-- `x224_connection_pdu(Some(TypeRDPNegReq), mode, protocols)` as sent by the client -/
def connectionRequest (mode protocols : Nat) : Msg := .comp [
  ("header", .comp [("len", .u8 14), ("code", .u8 0xE0),
                    ("padding", .trame [u16le 0, u16le 0, .u8 0])]),
  ("negotiation", .comp [("type", .u8 1), ("flag", .u8 mode),
                         ("length", .check (u16le 8)), ("result", u32le protocols)])]

inductive Decision where
  | startNla | startSsl | continueRaw
deriving Repr, DecidableEq

/-- `read_connection_confirm` on the TPKT payload: the server's selected protocol -/
def readConnectionConfirm (payload : Bytes) : Outcome Nat :=
  (readAll x224ConnectionPduTmpl payload).bind fun m =>
  (castComp m).bind fun fs =>
  (field fs "negotiation").bind fun nego =>
  (castComp nego).bind fun nf =>
  (castU8 nf "type").bind fun ty =>
    if ty = 3 then .err "ProtocolNegFailure"
    else if ty = 1 then .err "InvalidAutomata"
    else if ty = 2 then
      (castU32 nf "result").bind fun sel =>
        if sel = 0 ∨ sel = 1 ∨ sel = 2 ∨ sel = 8 then .ok sel else .err "InvalidCast"
    else .err "InvalidCast"

/-- the dispatch of `x224::Client::connect` on the selected protocol: a protocol that was
    not offered is refused; standard RDP security is acceptable only if nothing else was
    offered; Hybrid needs an authenticator -/
def decide (offered : Nat) (hasAuth : Bool) (selected : Nat) : Outcome Decision :=
  if (selected ≠ 0 ∧ selected &&& offered = 0) ∨ (selected = 0 ∧ offered ≠ 0) then .err "InvalidProtocol"
  else if selected = 2 then (if hasAuth then .ok .startNla else .err "InvalidProtocol")
  else if selected = 1 then .ok .startSsl
  else if selected = 0 then .ok .continueRaw
  else .err "InvalidProtocol"

def negotiate (offered : Nat) (hasAuth : Bool) (payload : Bytes) : Outcome Decision :=
  (readConnectionConfirm payload).bind (decide offered hasAuth)

/-! ### GCC conference create response -/

def blockHeaderTmpl : Msg := .comp [("type", u16le 0xC001), ("length", u16le 4)]

def serverCoreTmpl : Msg := .comp [
  ("rdpVersion", u32le 0), ("clientRequestedProtocol", .opt (some (u32le 0))),
  ("earlyCapabilityFlags", .opt (some (u32le 0)))]

def serverSecurityTmpl : Msg := .comp [("encryptionMethod", u32le 0), ("encryptionLevel", u32le 0)]

def serverNetTmpl : Msg := .comp [
  ("MCSChannelId", .check (u16le 1003)),
  ("channelCount", .dyn (u16le 0) (.size "channelIdArray" 2 0 0)),
  ("channelIdArray", .array (some (u16le 0)) [])]

inductive RdpVersion | v4 | v5plus | unknown
deriving Repr, DecidableEq

/-- `Version::from(u32)` -/
def versionOf (v : Nat) : RdpVersion :=
  if v = 0x00080001 then .v4 else if v = 0x00080004 then .v5plus else .unknown

structure ServerData where
  channelIds : List Nat
  version : RdpVersion
deriving Repr, DecidableEq

structure Blocks where
  core : Option (List (String × Msg))
  net : Option (List (String × Msg))

/-- the block loop over the `take(length)` sub-stream; each round consumes ≥ 4 bytes -/
def readBlocks : Nat → Bytes → Blocks → Outcome Blocks
  | 0, _, b => .ok b
  | fuel+1, sub, b =>
    match read blockHeaderTmpl sub with
    | .panic p => .panic p
    | .err _ => .ok b                       -- no more blocks
    | .ok h rest =>
      (castComp h).bind fun hf =>
      (castU16 hf "length").bind fun len =>
      (castU16 hf "type").bind fun ty =>
        if len < 4 then .err "InvalidSize"
        else if rest.length < len - 4 then .err "eof"
        else
          let buffer := rest.take (len - 4)
          let rest' := rest.drop (len - 4)
          if ty = 0x0C01 then
            (readAll serverCoreTmpl buffer).bind fun m => (castComp m).bind fun fs =>
              readBlocks fuel rest' { b with core := some fs }
          else if ty = 0x0C02 then
            (readAll serverSecurityTmpl buffer).bind fun _ => readBlocks fuel rest' b
          else if ty = 0x0C03 then
            (readAll serverNetTmpl buffer).bind fun m => (castComp m).bind fun fs =>
              readBlocks fuel rest' { b with net := some fs }
          else readBlocks fuel rest' b

def t124Oid : List Nat := [0, 0, 20, 124, 0, 1]
def h221ScKey : Bytes := [0x4d, 0x63, 0x44, 0x6e]    -- "McDn"

def rrO {α} (r : RR α) : Outcome (α × Bytes) :=
  match r with
  | .ok a rest => .ok (a, rest)
  | .err _ => .err "per"
  | .panic p => .panic p

/-- `read_conference_create_response` -/
def readConferenceCreateResponse (s : Bytes) : Outcome ServerData :=
  (rrO (readU8 s)).bind fun (_, s) =>
  (rrO (readOid t124Oid s)).bind fun (_, s) =>
  (rrO (readLength s)).bind fun (_, s) =>
  (rrO (readU8 s)).bind fun (_, s) =>
  (rrO (readInteger16 1001 s)).bind fun (_, s) =>
  (rrO (readInteger s)).bind fun (_, s) =>
  (rrO (readU8 s)).bind fun (_, s) =>
  (rrO (readU8 s)).bind fun (_, s) =>
  (rrO (readU8 s)).bind fun (_, s) =>
  (rrO (readOctetStream h221ScKey 4 s)).bind fun (_, s) =>
  (rrO (readLength s)).bind fun (length, s) =>
  (readBlocks (s.length + 1) (s.take length) ⟨none, none⟩).bind fun b =>
    match b.net, b.core with
    | some nf, some cf =>
      (castTrame nf "channelIdArray").bind fun ids =>
      (castU32 cf "rdpVersion").bind fun v =>
        .ok ⟨ids.map fun m => (intVal m).getD 0, versionOf v⟩
    | _, _ => .err "missing mandatory server block"

/-! ### MCS confirms -/

/-- `read_attach_user_confirm` on the x224 payload -/
def readAttachUserConfirm (p : Bytes) : Outcome Nat :=
  match p with
  | [] => .err "eof"
  | hdr :: rest =>
    if hdr.toNat >>> 2 ≠ 11 then .err "InvalidData" else
    (rrO (readU8 rest)).bind fun (e, r) =>
      if e ≠ 0 then .err "RejectedByServer" else
      (rrO (readInteger16 1001 r)).bind fun (uid, _) => .ok uid

/-- `read_channel_join_confirm(user_id, channel_id, payload)` -/
def readChannelJoinConfirm (uid chan : Nat) (p : Bytes) : Outcome Bool :=
  match p with
  | [] => .err "eof"
  | hdr :: rest =>
    if hdr.toNat >>> 2 ≠ 15 then .err "InvalidData" else
    (rrO (readU8 rest)).bind fun (conf, r) =>
    (rrO (readInteger16 1001 r)).bind fun (cu, r) =>
    (rrO (readInteger16 0 r)).bind fun (cc, _) =>
      if uid ≠ cu then .err "InvalidData"
      else if chan ≠ cc then .err "InvalidData"
      else .ok (conf = 0)

/-! ### licensing -/

def preambleTmpl : Msg := .comp [
  ("bMsgtype", .u8 0), ("flag", .check (.u8 3)),
  ("wMsgSize", .dyn (u16le 0) (.sizeSat "message" 1 0 4)), ("message", blob [])]

def licenseBlobTmpl : Msg := .comp [
  ("wBlobType", u16le 0), ("wBlobLen", .dyn (u16le 0) (.size "blobData" 1 0 0)), ("blobData", blob [])]

def licensingErrorTmpl : Msg := .comp [
  ("dwErrorCode", u32le 0), ("dwStateTransition", u32le 0), ("blob", licenseBlobTmpl)]

def validMsgType (t : Nat) : Bool := t ∈ [0x01, 0x02, 0x03, 0x04, 0x12, 0x13, 0x15, 0xFF]
def validErrorCode (c : Nat) : Bool := c ∈ [1, 2, 4, 6, 7, 8, 0xB, 0xC, 3]
def validTransition (c : Nat) : Bool := c ∈ [1, 2, 3, 4]

/-- `license::client_connect` -/
def licenseConnect (s : Bytes) : Outcome Unit :=
  (readAll preambleTmpl s).bind fun m =>
  (castComp m).bind fun fs =>
  (castU8 fs "bMsgtype").bind fun ty =>
    if ¬ validMsgType ty then .err "InvalidCast"
    else if ty = 0x03 then .ok ()
    else if ty = 0xFF then
      (castSlice fs "message").bind fun body =>
      (readAll licensingErrorTmpl body).bind fun em =>
      (castComp em).bind fun ef =>
      (castU32 ef "dwErrorCode").bind fun code =>
        if ¬ validErrorCode code then .err "InvalidCast"
        else if code ≠ 7 then .err "InvalidRespond"
        else
          (castU32 ef "dwStateTransition").bind fun tr =>
            if ¬ validTransition tr then .err "InvalidCast"
            else if tr = 2 then .ok () else .err "InvalidRespond"
    else .err "NotImplemented"

def securityHeaderTmpl : Msg := .comp [("securityFlag", u16le 0), ("securityFlagHi", u16le 0)]

/-- the reading half of `sec::connect`: MCS payload → security header → licence -/
def secRead (uid : Nat) (x224payload : Bytes) : Outcome Unit :=
  (Mcs.read uid 1003 (.raw x224payload)).bind fun (_, pl) =>
    match pl with
    | .fast _ _ => .err "try_let Raw"
    | .raw s =>
      match read securityHeaderTmpl s with
      | .panic p => .panic p
      | .err _ => .err "eof"
      | .ok h rest =>
        (castComp h).bind fun hf =>
        (castU16 hf "securityFlag").bind fun fl =>
          if fl &&& 0x80 = 0 then .err "InvalidData" else licenseConnect rest

end Rdp.Connect
