import RdpModel.Msg.Model
/-
  The `component![…]` definitions of src/core/global.rs and src/core/capability.rs,
  transcribed field by field (same names, order, widths, endianness, option closures).
-/
namespace Rdp.Schema
open Rdp

def u16le (v : Nat) : Msg := .u16 .le v
def u32le (v : Nat) : Msg := .u32 .le v
def blob (b : Bytes) : Msg := .bytes b
def zeros (n : Nat) : Bytes := List.replicate n 0

/-! ### capability.rs -/

def generalCaps (extraFlags : Nat) : Msg := .comp [
  ("osMajorType", u16le 1), ("osMinorType", u16le 3),
  ("protocolVersion", .check (u16le 0x0200)), ("pad2octetsA", u16le 0),
  ("generalCompressionTypes", .check (u16le 0)), ("extraFlags", u16le extraFlags),
  ("updateCapabilityFlag", .check (u16le 0)), ("remoteUnshareFlag", .check (u16le 0)),
  ("generalCompressionLevel", .check (u16le 0)), ("refreshRectSupport", .u8 0),
  ("suppressOutputSupport", .u8 0)]

def bitmapCaps (bpp w h : Nat) : Msg := .comp [
  ("preferredBitsPerPixel", u16le bpp), ("receive1BitPerPixel", .check (u16le 1)),
  ("receive4BitsPerPixel", .check (u16le 1)), ("receive8BitsPerPixel", .check (u16le 1)),
  ("desktopWidth", u16le w), ("desktopHeight", u16le h), ("pad2octets", u16le 0),
  ("desktopResizeFlag", u16le 0), ("bitmapCompressionFlag", .check (u16le 1)),
  ("highColorFlags", .check (.u8 0)), ("drawingFlags", .u8 0),
  ("multipleRectangleSupport", .check (u16le 1)), ("pad2octetsB", u16le 0)]

def orderCaps (orderFlags : Nat) : Msg := .comp [
  ("terminalDescriptor", blob (zeros 16)), ("pad4octetsA", u32le 0),
  ("desktopSaveXGranularity", u16le 1), ("desktopSaveYGranularity", u16le 20),
  ("pad2octetsA", u16le 0), ("maximumOrderLevel", u16le 1), ("numberFonts", u16le 0),
  ("orderFlags", u16le orderFlags), ("orderSupport", blob (zeros 32)), ("textFlags", u16le 0),
  ("orderSupportExFlags", u16le 0), ("pad4octetsB", u32le 0), ("desktopSaveSize", u32le (480*480)),
  ("pad2octetsC", u16le 0), ("pad2octetsD", u16le 0), ("textANSICodePage", u16le 0),
  ("pad2octetsE", u16le 0)]

def bitmapCacheCaps : Msg := .comp [
  ("pad1", u32le 0), ("pad2", u32le 0), ("pad3", u32le 0), ("pad4", u32le 0), ("pad5", u32le 0),
  ("pad6", u32le 0), ("cache0Entries", u16le 0), ("cache0MaximumCellSize", u16le 0),
  ("cache1Entries", u16le 0), ("cache1MaximumCellSize", u16le 0), ("cache2Entries", u16le 0),
  ("cache2MaximumCellSize", u16le 0)]

def pointerCaps : Msg := .comp [("colorPointerFlag", u16le 0), ("colorPointerCacheSize", u16le 20)]

def inputCaps (flags layout : Nat) : Msg := .comp [
  ("inputFlags", u16le flags), ("pad2octetsA", u16le 0), ("keyboardLayout", u32le layout),
  ("keyboardType", u32le 4), ("keyboardSubType", u32le 0), ("keyboardFunctionKey", u32le 12),
  ("imeFileName", blob (zeros 64))]

def brushCaps : Msg := .comp [("brushSupportLevel", u32le 0)]

def cacheEntry : Msg := .comp [("cacheEntries", u16le 0), ("cacheMaximumCellSize", u16le 0)]

def glyphCaps : Msg := .comp [
  ("glyphCache", .trame (List.replicate 10 cacheEntry)), ("fragCache", u32le 0),
  ("glyphSupportLevel", u16le 0), ("pad2octets", u16le 0)]

def offscreenCaps : Msg := .comp [
  ("offscreenSupportLevel", u32le 0), ("offscreenCacheSize", u16le 0), ("offscreenCacheEntries", u16le 0)]

def virtualChannelCaps : Msg := .comp [("flags", u32le 0), ("VCChunkSize", .opt (some (u32le 0)))]

def soundCaps : Msg := .comp [("soundFlags", u16le 0), ("pad2octetsA", u16le 0)]

def multifragCaps : Msg := .comp [("MaxRequestSize", u32le 0)]

/-- `capability_set(Some(cap))`: the length field is computed from the message -/
def capabilitySet (capType : Nat) (body : Bytes) : Msg := .comp [
  ("capabilitySetType", u16le capType),
  ("lengthCapability", .dyn (u16le ((body.length + 4) % 65536)) (.sizeSat "capabilitySet" 1 0 4)),
  ("capabilitySet", blob body)]

/-- `capability_set(None)`: the template used when reading -/
def capabilitySetTmpl : Msg := .comp [
  ("capabilitySetType", u16le 1),
  ("lengthCapability", .dyn (u16le 4) (.sizeSat "capabilitySet" 1 0 4)),
  ("capabilitySet", blob [])]

/-- templates chosen by `Capability::from_capability_set` for the known types -/
def capTable : List (Nat × Msg) := [
  (0x0001, generalCaps 0), (0x0002, bitmapCaps 0 0 0), (0x0003, orderCaps 2), (0x0004, bitmapCacheCaps),
  (0x0008, pointerCaps), (0x000D, inputCaps 0 0x40c), (0x000F, brushCaps), (0x0010, glyphCaps),
  (0x0011, offscreenCaps), (0x0014, virtualChannelCaps), (0x000C, soundCaps), (0x001A, multifragCaps)]

def lookupCap : List (Nat × Msg) → Nat → Option Msg
  | [], _ => none
  | (k, t) :: rest, ty => if k = ty then some t else lookupCap rest ty

def capabilityTmpl (capType : Nat) : Option Msg := lookupCap capTable capType

/-! ### global.rs -/

def shareControlHeader (pduType source : Nat) (message : Bytes) : Msg := .comp [
  ("totalLength", .dyn (u16le ((message.length + 6) % 65536)) (.sizeSat "pduMessage" 1 0 6)),
  ("pduType", u16le pduType),
  ("PDUSource", .opt (some (u16le source))),
  ("pduMessage", blob message)]

def shareControlHeaderTmpl : Msg := shareControlHeader 0x11 0 []

def shareDataHeader (shareId pduType2 : Nat) (message : Bytes) : Msg := .comp [
  ("shareId", u32le shareId), ("pad1", .u8 0), ("streamId", .u8 1),
  ("uncompressedLength", .dyn (u16le ((message.length + 18) % 65536)) (.sizeSat "payload" 1 0 18)),
  ("pduType2", .u8 pduType2), ("compressedType", .u8 0), ("compressedLength", u16le 0),
  ("payload", blob message)]

def shareDataHeaderTmpl : Msg := shareDataHeader 0 0x32 []

def demandActiveTmpl : Msg := .comp [
  ("shareId", u32le 0),
  ("lengthSourceDescriptor", .dyn (u16le 0) (.size "sourceDescriptor" 1 0 0)),
  ("lengthCombinedCapabilities", .dyn (u16le 0) (.sizeSat "capabilitySets" 1 0 4)),
  ("sourceDescriptor", blob []),
  ("numberCapabilities", u16le 0), ("pad2Octets", u16le 0),
  ("capabilitySets", .array (some capabilitySetTmpl) []),
  ("sessionId", u32le 0)]

/-- `ts_confirm_active_pdu(share_id, source, caps)`; `caps` already serialised sets -/
def confirmActive (shareId : Nat) (source : Bytes) (caps : List Msg) (capsLen : Nat) : Msg := .comp [
  ("shareId", u32le shareId), ("originatorId", .check (u16le 0x03EA)),
  ("lengthSourceDescriptor", .dyn (u16le (source.length % 65536)) (.size "sourceDescriptor" 1 0 0)),
  ("lengthCombinedCapabilities", .dyn (u16le ((capsLen % 65536 + 4) % 65536)) (.sizeSat "capabilitySets" 1 0 4)),
  ("sourceDescriptor", blob source),
  ("numberCapabilities", u16le (caps.length % 65536)), ("pad2Octets", u16le 0),
  ("capabilitySets", .array none caps)]

def confirmActiveTmpl : Msg := .comp [
  ("shareId", u32le 0), ("originatorId", .check (u16le 0x03EA)),
  ("lengthSourceDescriptor", .dyn (u16le 0) (.size "sourceDescriptor" 1 0 0)),
  ("lengthCombinedCapabilities", .dyn (u16le 4) (.sizeSat "capabilitySets" 1 0 4)),
  ("sourceDescriptor", blob []),
  ("numberCapabilities", u16le 0), ("pad2Octets", u16le 0),
  ("capabilitySets", .array (some capabilitySetTmpl) [])]

def deactivateAllTmpl : Msg := .comp [
  ("shareId", u32le 0),
  ("lengthSourceDescriptor", .dyn (u16le 0) (.size "sourceDescriptor" 1 0 0)),
  ("sourceDescriptor", blob [])]

def synchronizePdu (targetUser : Nat) : Msg := .comp [
  ("messageType", .check (u16le 1)), ("targetUser", .opt (some (u16le targetUser)))]

def controlPdu (action : Nat) : Msg := .comp [
  ("action", u16le action), ("grantId", u16le 0), ("controlId", u32le 0)]

def fontListPdu : Msg := .comp [
  ("numberFonts", u16le 0), ("totalNumFonts", u16le 0), ("listFlags", u16le 3), ("entrySize", u16le 0x32)]

def fontMapPdu : Msg := .comp [
  ("numberEntries", u16le 0), ("totalNumEntries", u16le 0), ("mapFlags", u16le 3), ("entrySize", u16le 4)]

def setErrorInfoPdu : Msg := .comp [("errorInfo", u32le 0)]

def inputEvent (messageType : Nat) (data : Bytes) : Msg := .comp [
  ("eventTime", u32le 0), ("messageType", u16le messageType), ("slowPathInputData", blob data)]

def inputPduData (events : List Msg) : Msg := .comp [
  ("numEvents", u16le (events.length % 65536)), ("pad2Octets", u16le 0),
  ("slowPathInputEvents", .array none events)]

def pointerEvent (flags x y : Nat) : Msg := .comp [
  ("pointerFlags", u16le flags), ("xPos", u16le x), ("yPos", u16le y)]

def keyboardEvent (flags code : Nat) : Msg := .comp [
  ("keyboardFlags", u16le flags), ("keyCode", u16le code), ("pad2Octets", u16le 0)]

def fpUpdateTmpl : Msg := .comp [
  ("updateHeader", .dyn (.u8 0) (.skipIf "compressionFlags" 0x20 0)),
  ("compressionFlags", .u8 0),
  ("size", .dyn (u16le 0) (.size "updateData" 1 0 0)),
  ("updateData", blob [])]

def cdHeaderTmpl : Msg := .comp [
  ("cbCompFirstRowSize", .check (u16le 0)), ("cbCompMainBodySize", u16le 0),
  ("cbScanWidth", u16le 0), ("cbUncompressedSize", u16le 0)]

def bitmapDataTmpl : Msg := .comp [
  ("destLeft", u16le 0), ("destTop", u16le 0), ("destRight", u16le 0), ("destBottom", u16le 0),
  ("width", u16le 0), ("height", u16le 0), ("bitsPerPixel", u16le 0),
  ("flags", .dyn (u16le 0) (.skipIf "bitmapComprHdr" 0x0001 0x0400)),
  ("bitmapLength", .dyn (u16le 0) (.size "bitmapDataStream" 1 0 0)),
  ("bitmapComprHdr", .dyn cdHeaderTmpl (.sizeOfSub "bitmapDataStream" "cbCompMainBodySize")),
  ("bitmapDataStream", blob [])]

def fpUpdateBitmapTmpl : Msg := .comp [
  ("header", .check (u16le 1)), ("numberRectangles", u16le 0),
  ("rectangles", .array (some bitmapDataTmpl) [])]

def colorPointerTmpl : Msg := .comp [
  ("cacheIndex ", u16le 0), ("hotSpot ", u32le 0), ("width", u16le 0), ("height", u16le 0),
  ("lengthAndMask", .dyn (u16le 0) (.size "andMaskData" 1 0 0)),
  ("lengthXorMask", .dyn (u16le 0) (.size "xorMaskData" 1 0 0)),
  ("xorMaskData", blob []), ("andMaskData", blob []), ("pad", .opt (some (.u8 0)))]

def emptyComp : Msg := .comp []

end Rdp.Schema
