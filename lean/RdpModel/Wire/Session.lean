import RdpModel.Wire.Emit
/-
  `mcs::Client::connect` followed by `sec::connect`, as a trace: what is written on the
  stream and where the client blocks for a reply, given the server's replies.  The replies
  enter at the layer the model starts at (x224 payloads; the BER layer of the connect
  response is yasna's and its result is a parameter).
-/
namespace Rdp.Session
open Rdp Rdp.Emit Rdp.Connect Rdp.Secrets

inductive Io where
  | w (b : Bytes)     -- one frame written
  | r                 -- the client blocks reading one frame
deriving Repr, DecidableEq

structure Cfg where
  width : Nat
  height : Nat
  layout : Nat
  name : List Char
  domain : List Char
  user : List Char
  password : List Char
  mode : Mode

structure Replies where
  selected : Nat            -- protocol in force after negotiation
  ccr : Outcome Bytes       -- user data of the connect response (BER layer observed)
  au : Bytes                -- payload of the attach-user-confirm frame
  first : Nat               -- which static channel the client's map yields first
  cjc1 : Bytes
  cjc2 : Bytes
  lic : Bytes               -- payload of the licence frame

/-- frames of the five stages, given what earlier replies assigned -/
def stage1 (c : Cfg) (r : Replies) : Outcome Bytes := connectInitialFrame c.width c.height c.layout r.selected c.name
def stage2 : Outcome (Bytes × Bytes) := (x224Frame erectDomain).bind fun a => (x224Frame attachUser).bind fun b => .ok (a, b)
def joinFrame (uid chan : Nat) : Outcome Bytes := (channelJoin uid chan).bind x224Frame
def infoFrame (c : Cfg) (uid : Nat) (v : RdpVersion) : Outcome Bytes :=
  Mcs.sendFrame uid 1003 (infoPdu c.mode (v == .v5plus) c.domain c.user c.password)

/-- the trace and the result: the user id and server data on success -/
def connectTrace (c : Cfg) (r : Replies) : List Io × Outcome (Nat × ServerData) :=
  match stage1 c r with
  | .err e => ([], .err e)
  | .panic p => ([], .panic p)
  | .ok ci =>
  let t1 := [Io.w ci, Io.r]
  match r.ccr.bind readConferenceCreateResponse with
  | .err e => (t1, .err e)
  | .panic p => (t1, .panic p)
  | .ok sd =>
  match stage2 with
  | .err e => (t1, .err e)
  | .panic p => (t1, .panic p)
  | .ok (ed, au) =>
  let t2 := t1 ++ [Io.w ed, Io.w au, Io.r]
  match readAttachUserConfirm r.au with
  | .err e => (t2, .err e)
  | .panic p => (t2, .panic p)
  | .ok uid =>
  let second := if r.first = 1003 then uid else 1003
  match joinFrame uid r.first with
  | .err e => (t2, .err e)
  | .panic p => (t2, .panic p)
  | .ok j1 =>
  let t3 := t2 ++ [Io.w j1, Io.r]
  match readChannelJoinConfirm uid r.first r.cjc1 with
  | .err e => (t3, .err e)
  | .panic p => (t3, .panic p)
  | .ok _ =>
  match joinFrame uid second with
  | .err e => (t3, .err e)
  | .panic p => (t3, .panic p)
  | .ok j2 =>
  let t4 := t3 ++ [Io.w j2, Io.r]
  match readChannelJoinConfirm uid second r.cjc2 with
  | .err e => (t4, .err e)
  | .panic p => (t4, .panic p)
  | .ok _ =>
  match infoFrame c uid sd.version with
  | .err e => (t4, .err e)
  | .panic p => (t4, .panic p)
  | .ok info =>
  let t5 := t4 ++ [Io.w info, Io.r]
  match secRead uid r.lic with
  | .err e => (t5, .err e)
  | .panic p => (t5, .panic p)
  | .ok _ => (t5, .ok (uid, sd))

def writes (t : List Io) : List Bytes := t.filterMap fun | .w b => some b | .r => none

end Rdp.Session
