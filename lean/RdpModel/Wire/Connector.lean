import RdpModel.Wire.Connect
/-
  Trace model of `Connector::connect` (client.rs) around transport security: which
  credential-bearing messages are written, and where TLS establishment sits.
  The later phases (CredSSP, MCS, licence) are abstracted to "how far the server lets
  the client get" — an arbitrary natural number, universally quantified in the theorems.
-/
namespace Rdp.Connector
open Rdp Rdp.Connect

inductive Ev where
  | negReq (offered : Nat) (restrictedFlag : Bool)   -- X.224 connection request (raw)
  | tlsStart (checkCert : Bool)
  | tlsUp                                            -- TLS established on this connection
  | ntlmNegotiate                                    -- CredSSP TSRequest(NTLM NEGOTIATE)
  | ntlmAuthenticate                                 -- TSRequest(NTLM AUTHENTICATE + pubKeyAuth)
  | tsCredentials                                    -- TSRequest(authInfo = sealed TSCredentials)
  | mcsConnectInitial
  | mcsSetup                                         -- erect domain, attach user, joins
  | clientInfo                                       -- Client Info PDU (clear-text password inside)
deriving Repr, DecidableEq

/-- messages that carry credentials or material derived from them -/
def Ev.credentialBearing : Ev → Bool
  | .ntlmNegotiate | .ntlmAuthenticate | .tsCredentials | .clientInfo => true
  | _ => false

structure Config where
  useNla : Bool
  checkCert : Bool
  restrictedAdmin : Bool
deriving Repr

/-- what the environment does -/
structure Env where
  confirm : Bytes          -- the server's (or an attacker's) connection confirm
  certTrusted : Bool       -- would the platform verifier accept the certificate
  handshakeOk : Bool       -- does the TLS handshake otherwise complete
  progress : Nat           -- how many of the later phases the server lets succeed

/-- `danger_accept_invalid_certs(!check)`: with checking on, an untrusted certificate
    fails the handshake (assumption on native-tls, DESIGN §7) -/
def tlsEstablished (c : Config) (e : Env) : Bool :=
  e.handshakeOk && (!c.checkCert || e.certTrusted)

def offeredOf (c : Config) : Nat := if c.useNla then 3 else 1

/-- phases after the transport is secured; each is attempted only if the previous one
    succeeded (`?` propagation), `n` = how many succeed -/
def laterPhases (nla : Bool) : Nat → List Ev
  | 0 => if nla then [.ntlmNegotiate] else [.mcsConnectInitial]
  | n+1 =>
    if nla then
      -- negotiate written, challenge read ok → authenticate written; pubKeyAuth verified →
      -- credentials written; then MCS …
      [.ntlmNegotiate, .ntlmAuthenticate] ++
        (match n with
         | 0 => []
         | m+1 => [.tsCredentials, .mcsConnectInitial] ++
            (match m with
             | 0 => []
             | k+1 => [.mcsSetup] ++ (match k with | 0 => [] | _+1 => [.clientInfo])))
    else
      [.mcsConnectInitial] ++
        (match n with
         | 0 => []
         | m+1 => [.mcsSetup] ++ (match m with | 0 => [] | _+1 => [.clientInfo]))

/-- everything the client writes / does, in order -/
def trace (c : Config) (e : Env) : List Ev :=
  [.negReq (offeredOf c) c.restrictedAdmin] ++
  match negotiate (offeredOf c) true e.confirm with
  | .ok .continueRaw => laterPhases false e.progress        -- would be a downgrade
  | .ok .startSsl =>
    [.tlsStart c.checkCert] ++ (if tlsEstablished c e then [.tlsUp] ++ laterPhases false e.progress else [])
  | .ok .startNla =>
    [.tlsStart c.checkCert] ++ (if tlsEstablished c e then [.tlsUp] ++ laterPhases true e.progress else [])
  | .err _ => []
  | .panic _ => []

end Rdp.Connector
