import RdpModel.Base.Bytes
/-
  Model of the outbound path: Stream::write (link.rs, `write_all` over the stream),
  Link::write, tpkt::Client::write (length guard + header), x224::Client::write.
  A message is represented by its serialisation (C18 relates `length()` to it).
-/
namespace Rdp

/-- what one `Write::write(buf)` call of the underlying stream does -/
inductive WAct where
  | accept (k : Nat)   -- takes at most k bytes (k = 0: returns Ok(0))
  | fail               -- returns an I/O error
deriving Repr, DecidableEq

structure Sink where
  out : Bytes
  sched : List WAct      -- exhausted: accepts everything
deriving Repr

/-- std `Write::write_all`: loop until the buffer is empty; `Ok(0)` is `WriteZero`;
    an error of the stream is returned. Fuel = |buf| (each round takes ≥ 1 byte). -/
def writeAllF : (fuel : Nat) → Bytes → Sink → Sink × Outcome Unit
  | _, [], s => (s, .ok ())
  | 0, _ :: _, s => (s, .panic "spin:write_all")
  | f+1, b :: bs, s =>
    match s.sched with
    | [] => (⟨s.out ++ (b :: bs), []⟩, .ok ())
    | .fail :: rest => (⟨s.out, rest⟩, .err "io")
    | .accept k :: rest =>
      if k = 0 then (⟨s.out, rest⟩, .err "WriteZero")
      else writeAllF f ((b :: bs).drop k) ⟨s.out ++ (b :: bs).take k, rest⟩

def writeAll (buf : Bytes) (s : Sink) : Sink × Outcome Unit := writeAllF buf.length buf s

/-- `Link::write`: the message is serialised into a buffer, then written completely -/
def Link.write (msg : Bytes) (s : Sink) : Sink × Outcome Unit := writeAll msg s

def tpktHeader (payloadLen : Nat) : Bytes :=
  [3, 0, UInt8.ofNat ((payloadLen + 4) / 256), UInt8.ofNat ((payloadLen + 4) % 256)]

/-- `tpkt::Client::write`: refuses what does not fit the 16-bit length -/
def Tpkt.write (payload : Bytes) (s : Sink) : Sink × Outcome Unit :=
  if payload.length + 4 > 65535 then (s, .err "InvalidSize")
  else Link.write (tpktHeader payload.length ++ payload) s

def x224DataHeader : Bytes := [2, 0xf0, 0x80]

def X224.write (payload : Bytes) (s : Sink) : Sink × Outcome Unit :=
  Tpkt.write (x224DataHeader ++ payload) s

end Rdp
