import RdpModel.Wire.Per
import RdpModel.Wire.Tpkt
import RdpModel.Wire.Write
/-
  Model of the data path of src/core/mcs.rs: `Client::write` (send-data-request framing),
  `Client::read` (send-data-indication parsing, disconnect ultimatum), `shutdown`.
-/
namespace Rdp.Mcs
open Rdp Rdp.Per

/-- `mcs::Client::write(channel, message)`: the x224 payload -/
def sendDataRequest (userId channelId : Nat) (message : Bytes) : Outcome Bytes :=
  (checkedSub "mcs.rs:user_id - 1001" userId 1001).bind fun u =>
    .ok ([0x64] ++ encInt .be 2 u ++ encInt .be 2 channelId ++ [0x70]
          ++ writeLength (message.length % 65536) ++ message)

/-- the complete frame put on the stream for one `mcs.write` -/
def sendFrame (userId channelId : Nat) (message : Bytes) : Outcome Bytes :=
  (sendDataRequest userId channelId message).bind fun p =>
    let x := x224DataHeader ++ p
    if x.length + 4 > 65535 then .err "InvalidSize" else .ok (tpktHeader x.length ++ x)

/-- `shutdown`: disconnect provider ultimatum -/
def disconnectUltimatum : Bytes := [0x21, 0x80]

inductive Chan | global | user
deriving Repr, DecidableEq

/-- `mcs::Client::read` on an x224 payload, for a connected client with the two static
    channels (`global` = 1003, `user` = user id; `find` on the map: if both ids are
    equal the answer depends on hash order — excluded, user ids are ≥ 1001 ≠ … unless
    the server assigns 1003, see `userIs1003`). -/
def read (userId globalId : Nat) (p : Payload) : Outcome (Chan × Payload) :=
  match p with
  | .fast f b => .ok (.global, .fast f b)
  | .raw s =>
    match readU8 s with
    | .err _ => .err "eof"
    | .panic q => .panic q
    | .ok hdr r =>
      if hdr >>> 2 = 8 then .err "Disconnect"
      else if hdr >>> 2 ≠ 26 then .err "InvalidData"
      else
        match readInteger16 1001 r with
        | .err _ => .err "per"
        | .panic q => .panic q
        | .ok _ r =>
          match readInteger16 0 r with
          | .err _ => .err "per"
          | .panic q => .panic q
          | .ok ch r =>
            if ch ≠ globalId ∧ ch ≠ userId then .err "unknown channel" else
            match readU8 r with
            | .err _ => .err "eof"
            | .panic q => .panic q
            | .ok _ r =>
              match readLength r with
              | .err _ => .err "eof"
              | .panic q => .panic q
              | .ok _ r => .ok (if ch = globalId then .global else .user, .raw r)

end Rdp.Mcs
