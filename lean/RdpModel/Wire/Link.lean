import RdpModel.Base.Bytes
/-
  Model of src/model/link.rs (Link::read / Stream::read_exact / Link::write) over an
  explicit transport.  Short reads and short writes are *schedules* carried by the
  transport: arbitrary lists, universally quantified in the theorems.
-/
namespace Rdp

/-- Read side of a transport: pending bytes plus a schedule of per-`read` caps.
    Schedule element `c` means "this call returns at most `c+1` bytes" (so every list of
    naturals is a legal schedule with pieces ≥ 1); an exhausted schedule is unbounded. -/
structure Transport where
  data : Bytes
  sched : List Nat
deriving Repr

/-- one `Read::read(buf)` with `buf.len() = n` -/
def Transport.rd (n : Nat) (t : Transport) : Bytes × Transport :=
  let cap := match t.sched with
    | [] => n
    | c :: _ => min n (c + 1)
  (t.data.take cap, ⟨t.data.drop cap, t.sched.tail⟩)

/-- std `Read::read_exact` (default implementation): loop until the buffer is full;
    a zero-byte read is `UnexpectedEof`.  `fuel` = number of bytes wanted, which bounds
    the number of iterations because every successful read returns ≥ 1 byte. -/
def readExactF : (fuel : Nat) → (n : Nat) → Transport → Outcome (Bytes × Transport)
  | _, 0, t => .ok ([], t)
  | 0, _+1, _ => .panic "spin:read_exact"
  | f+1, n+1, t =>
    let (got, t') := t.rd (n+1)
    if got.length = 0 then .err "eof" else
    (readExactF f (n + 1 - got.length) t').bind fun (more, t'') => .ok (got ++ more, t'')

def readExact (n : Nat) (t : Transport) : Outcome (Bytes × Transport) := readExactF n n t

/-- `Link::read(expected_size)` (link.rs 152–164) -/
def Link.read (n : Nat) (t : Transport) : Outcome (Bytes × Transport) :=
  if n = 0 then
    -- "whatever is available": one read into a 1500-byte buffer
    .ok (t.rd 1500)
  else readExact n t

theorem rd_shape (n : Nat) (t : Transport) (hn : 0 < n) :
    ∃ cap, 0 < cap ∧ cap ≤ n ∧ t.rd n = (t.data.take cap, ⟨t.data.drop cap, t.sched.tail⟩) := by
  unfold Transport.rd
  cases hs : t.sched with
  | nil => exact ⟨n, hn, Nat.le_refl _, by simp⟩
  | cons c cs => exact ⟨min n (c+1), by omega, by omega, by simp⟩

/-- Schedule independence: with enough data `read_exact` returns exactly the first `n`
    bytes and leaves exactly the rest, whatever the short-read schedule. -/
theorem readExactF_ok (f n : Nat) (t : Transport) (hf : n ≤ f) (hlen : n ≤ t.data.length) :
    ∃ s', readExactF f n t = .ok (t.data.take n, ⟨t.data.drop n, s'⟩) := by
  induction f generalizing n t with
  | zero =>
    have : n = 0 := by omega
    subst this; exact ⟨t.sched, by simp [readExactF]⟩
  | succ f ih =>
    cases n with
    | zero => exact ⟨t.sched, by simp [readExactF]⟩
    | succ n =>
      obtain ⟨cap, hc0, hc1, hrd⟩ := rd_shape (n+1) t (by omega)
      simp only [readExactF]
      rw [hrd]
      simp only
      have hl : (t.data.take cap).length = cap := by simp; omega
      rw [hl]
      have hne : ¬ cap = 0 := by omega
      simp only [hne, if_false]
      obtain ⟨s', hs'⟩ := ih (n + 1 - cap) ⟨t.data.drop cap, t.sched.tail⟩ (by omega) (by simp; omega)
      rw [hs']
      refine ⟨s', ?_⟩
      simp only [Outcome.bind_ok, Outcome.ok.injEq, Prod.mk.injEq, Transport.mk.injEq, and_true]
      constructor
      · have : n + 1 = cap + (n + 1 - cap) := by omega
        rw [this, List.take_add]
        congr 1
        have : cap + (n + 1 - cap) - cap = n + 1 - cap := by omega
        simp
      · simp [List.drop_drop]; congr 1; omega

theorem readExact_ok (n : Nat) (t : Transport) (hlen : n ≤ t.data.length) :
    ∃ s', readExact n t = .ok (t.data.take n, ⟨t.data.drop n, s'⟩) :=
  readExactF_ok n n t (Nat.le_refl _) hlen

theorem readExact_append (a r : Bytes) (s : List Nat) :
    ∃ s', readExact a.length ⟨a ++ r, s⟩ = .ok (a, ⟨r, s'⟩) := by
  obtain ⟨s', h⟩ := readExact_ok a.length ⟨a ++ r, s⟩ (by simp)
  exact ⟨s', by simpa using h⟩

/-- not enough data: `read_exact` fails (never panics / spins), whatever the schedule -/
theorem readExactF_short (f n : Nat) (t : Transport) (hf : n ≤ f) (hlen : t.data.length < n) :
    ∃ e, readExactF f n t = .err e := by
  induction f generalizing n t with
  | zero => omega
  | succ f ih =>
    cases n with
    | zero => omega
    | succ n =>
      obtain ⟨cap, hc0, hc1, hrd⟩ := rd_shape (n+1) t (by omega)
      simp only [readExactF]
      rw [hrd]
      simp only
      by_cases hz : (t.data.take cap).length = 0
      · exact ⟨"eof", by simp [hz]⟩
      · simp only [hz, if_false]
        have hl3 : (t.data.take cap).length = min cap t.data.length := by simp
        obtain ⟨e, he⟩ := ih (n + 1 - (t.data.take cap).length) ⟨t.data.drop cap, t.sched.tail⟩
          (by omega) (by simp; omega)
        exact ⟨e, by rw [he]; rfl⟩

theorem readExact_noPanic (n : Nat) (t : Transport) : (readExact n t).NoPanic := by
  by_cases h : n ≤ t.data.length
  · obtain ⟨s', hs⟩ := readExact_ok n t h
    rw [hs]; simp
  · obtain ⟨e, he⟩ := readExactF_short n n t (Nat.le_refl _) (by omega)
    unfold readExact; rw [he]; simp

end Rdp
