import RdpModel.Wire.Schemas
import RdpModel.Wire.Tpkt
/-
  Model of src/core/global.rs `Client` (activation state machine, slow-path and fast-path
  reading, input writing) and of the flag mapping of src/core/client.rs `RdpClient::write`.
  What the client hands to `mcs.write("global", …)` is recorded in `sent` (share-control
  level bytes); callbacks in `events`.
-/
namespace Rdp.Global
open Rdp Rdp.Schema

inductive GState where
  | demandActive | synchronize | controlCooperate | controlGranted | fontMap | data
deriving Repr, DecidableEq

structure BitmapEv where
  left : Nat
  top : Nat
  right : Nat
  bottom : Nat
  width : Nat
  height : Nat
  bpp : Nat
  compress : Bool
  data : Bytes
deriving Repr, DecidableEq

structure GClient where
  state : GState
  userId : Nat
  channelId : Nat
  width : Nat
  height : Nat
  layout : Nat
  shareId : Option Nat
  name : Bytes
deriving Repr

/-- result of one call: new client, bytes handed to `mcs.write`, callbacks, `RdpResult` -/
structure Step where
  client : GClient
  sent : List Bytes
  events : List BitmapEv
  res : Outcome Unit

/-! `cast!` on a field (index panics on a missing key, a wrong type is `InvalidCast`) -/

def unwrapVisit : Msg → Msg
  | .check m => unwrapVisit m
  | .dyn m _ => unwrapVisit m
  | .opt (some m) => unwrapVisit m
  | m => m

def field (fs : List (String × Msg)) (n : String) : Outcome Msg :=
  match lookupField fs n with
  | some m => .ok (unwrapVisit m)
  | none => .panic ("index: no field " ++ n)

def castU8 (fs : List (String × Msg)) (n : String) : Outcome Nat :=
  (field fs n).bind fun m => match m with | .u8 v => .ok v | _ => .err "InvalidCast"
def castU16 (fs : List (String × Msg)) (n : String) : Outcome Nat :=
  (field fs n).bind fun m => match m with | .u16 _ v => .ok v | _ => .err "InvalidCast"
def castU32 (fs : List (String × Msg)) (n : String) : Outcome Nat :=
  (field fs n).bind fun m => match m with | .u32 _ v => .ok v | _ => .err "InvalidCast"
def castSlice (fs : List (String × Msg)) (n : String) : Outcome Bytes :=
  (field fs n).bind fun m => match m with | .bytes b => .ok b | _ => .err "InvalidCast"
def castTrame (fs : List (String × Msg)) (n : String) : Outcome (List Msg) :=
  (field fs n).bind fun m => match m with
    | .trame ms => .ok ms
    | .array _ ms => .ok ms
    | _ => .err "InvalidCast"
def castComp (m : Msg) : Outcome (List (String × Msg)) :=
  match unwrapVisit m with | .comp fs => .ok fs | _ => .err "InvalidCast"

/-- `message.read(&mut Cursor::new(slice))?` : value or error (rest dropped) -/
def readAll (t : Msg) (b : Bytes) : Outcome Msg :=
  match read t b with
  | .ok m _ => .ok m
  | .err _ => .err "read"
  | .panic p => .panic p

/-- `to_vec(message)` (unwraps the write result) -/
def toVec (m : Msg) : Outcome Bytes :=
  match write m with
  | .ok b => .ok b
  | .err _ => .panic "to_vec unwrap"
  | .panic p => .panic p

/-! ### PDU / DataPDU / FastPathUpdate parsing -/

structure Pdu where
  pduType : Nat
  fields : List (String × Msg)

/-- `PDU::from_control` -/
def fromControl (ctrl : List (String × Msg)) : Outcome Pdu :=
  (castU16 ctrl "pduType").bind fun ty =>
  let tmpl : Outcome Msg :=
    if ty = 0x11 then .ok demandActiveTmpl
    else if ty = 0x17 then .ok shareDataHeaderTmpl
    else if ty = 0x13 then .ok confirmActiveTmpl
    else if ty = 0x16 then .ok deactivateAllTmpl
    else .err "NotImplemented or unknown pduType"   -- 0x1A and every other value
  tmpl.bind fun t =>
  (castSlice ctrl "pduMessage").bind fun body =>
  (readAll t body).bind fun m =>
  (castComp m).bind fun fs => .ok ⟨ty, fs⟩

/-- `PDU::from_stream` -/
def fromStream (s : Bytes) : Outcome Pdu :=
  (readAll shareControlHeaderTmpl s).bind fun h => (castComp h).bind fromControl

structure DataPdu where
  pduType2 : Nat
  fields : List (String × Msg)

/-- `DataPDU::from_pdu` -/
def fromPdu (p : Pdu) : Outcome DataPdu :=
  (castU8 p.fields "pduType2").bind fun ty =>
  let tmpl : Outcome Msg :=
    if ty = 0x1F then .ok (synchronizePdu 0)
    else if ty = 0x14 then .ok (controlPdu 4)
    else if ty = 0x27 then .ok fontListPdu
    else if ty = 0x28 then .ok fontMapPdu
    else if ty = 0x2F then .ok setErrorInfoPdu
    else .err "not implemented / unknown pduType2"
  tmpl.bind fun t =>
  (castSlice p.fields "payload").bind fun body =>
  (readAll t body).bind fun m =>
  (castComp m).bind fun fs => .ok ⟨ty, fs⟩

/-- `Capability::from_capability_set` — only its failure modes matter to the caller, which
    prints and ignores an error -/
def capabilityCheck (cs : Msg) : Outcome Unit :=
  match castComp cs with
  | .ok fs =>
    match castU16 fs "capabilitySetType" with
    | .ok ty =>
      match capabilityTmpl ty with
      | some t =>
        match castSlice fs "capabilitySet" with
        | .ok body => (match readAll t body with | .panic p => .panic p | _ => .ok ())
        | .panic p => .panic p
        | .err _ => .ok ()
      | none => .ok ()
    | .panic p => .panic p
    | .err _ => .ok ()
  | .panic p => .panic p
  | .err e => .err e      -- `cast!(DataType::Component, capability_set)?`

def capabilityChecks : List Msg → Outcome Unit
  | [] => .ok ()
  | c :: cs => (capabilityCheck c).bind fun _ => capabilityChecks cs

/-! ### writing -/

def PDU_DATA : Nat := 0x17

/-- `write_pdu`: the share control header handed to `mcs.write` -/
def pduBytes (c : GClient) (pduType : Nat) (message : Msg) : Outcome Bytes :=
  (toVec message).bind fun body => toVec (shareControlHeader pduType c.userId body)

/-- `write_data_pdu` -/
def dataPduBytes (c : GClient) (pduType2 : Nat) (message : Msg) : Outcome Bytes :=
  (toVec message).bind fun body =>
    pduBytes c PDU_DATA (shareDataHeader (c.shareId.getD 0) pduType2 body)

def capSet (ty : Nat) (cap : Msg) : Outcome Msg :=
  (toVec cap).bind fun b => .ok (capabilitySet ty b)

/-- the twelve capability sets of `write_confirm_active_pdu` -/
def clientCaps (c : GClient) : Outcome (List Msg) :=
  (capSet 0x0001 (generalCaps 0x0415)).bind fun a1 =>
  (capSet 0x0002 (bitmapCaps 0x18 c.width c.height)).bind fun a2 =>
  (capSet 0x0003 (orderCaps 0x000A)).bind fun a3 =>
  (capSet 0x0004 bitmapCacheCaps).bind fun a4 =>
  (capSet 0x0008 pointerCaps).bind fun a5 =>
  (capSet 0x000C soundCaps).bind fun a6 =>
  (capSet 0x000D (inputCaps 0x0015 c.layout)).bind fun a7 =>
  (capSet 0x000F brushCaps).bind fun a8 =>
  (capSet 0x0010 glyphCaps).bind fun a9 =>
  (capSet 0x0011 offscreenCaps).bind fun a10 =>
  (capSet 0x0014 virtualChannelCaps).bind fun a11 =>
  (capSet 0x001A multifragCaps).bind fun a12 =>
    .ok [a1, a2, a3, a4, a5, a6, a7, a8, a9, a10, a11, a12]

def confirmActiveBytes (c : GClient) : Outcome Bytes :=
  (clientCaps c).bind fun caps =>
  (length (.trame caps)).bind fun capsLen =>
    pduBytes c 0x13 (confirmActive (c.shareId.getD 0) c.name caps capsLen)

/-- `write_client_finalize`: synchronize, cooperate, request control, font list -/
def finalizeBytes (c : GClient) : Outcome (List Bytes) :=
  (dataPduBytes c 0x1F (synchronizePdu c.channelId)).bind fun b1 =>
  (dataPduBytes c 0x14 (controlPdu 4)).bind fun b2 =>
  (dataPduBytes c 0x14 (controlPdu 1)).bind fun b3 =>
  (dataPduBytes c 0x27 fontListPdu).bind fun b4 => .ok [b1, b2, b3, b4]

/-! ### reading -/

def fail (c : GClient) (sent : List Bytes) (ev : List BitmapEv) (r : Outcome Unit) : Step := ⟨c, sent, ev, r⟩

def liftO {α} (c : GClient) (o : Outcome α) (k : α → Step) : Step :=
  match o with
  | .ok a => k a
  | .err e => ⟨c, [], [], .err e⟩
  | .panic p => ⟨c, [], [], .panic p⟩

/-- the four "waiting" arms share this shape: parse one PDU, decide, maybe advance -/
def waitDataPdu (c : GClient) (s : Bytes) (want2 : Nat) (action : Option Nat) (next : GState) : Step :=
  liftO c (fromStream s) fun pdu =>
    if pdu.pduType ≠ PDU_DATA then ⟨c, [], [], .ok ()⟩ else
    liftO c (fromPdu pdu) fun dp =>
      if dp.pduType2 ≠ want2 then ⟨c, [], [], .ok ()⟩ else
      match action with
      | none => ⟨{ c with state := next }, [], [], .ok ()⟩
      | some a =>
        liftO c (castU16 dp.fields "action") fun got =>
          if got ≠ a then ⟨c, [], [], .err "UnexpectedType"⟩
          else ⟨{ c with state := next }, [], [], .ok ()⟩

/-- `read_data_pdu` loop over the share-control headers of one payload -/
def dataLoop : GClient → List Msg → Step
  | c, [] => ⟨c, [], [], .ok ()⟩
  | c, h :: rest =>
    match (castComp h).bind fromControl with
    | .err e => ⟨c, [], [], .err e⟩
    | .panic p => ⟨c, [], [], .panic p⟩
    | .ok pdu =>
      if pdu.pduType = 0x16 then dataLoop { c with state := .demandActive } rest
      else if pdu.pduType ≠ PDU_DATA then dataLoop c rest
      else
        match fromPdu pdu with
        | .panic p => ⟨c, [], [], .panic p⟩
        | .err _ => dataLoop c rest                       -- printed, ignored
        | .ok dp =>
          if dp.pduType2 = 0x2F then
            match castU32 dp.fields "errorInfo" with
            | .ok _ => dataLoop c rest
            | .err e => ⟨c, [], [], .err e⟩
            | .panic p => ⟨c, [], [], .panic p⟩
          else dataLoop c rest

def rectEvent (r : Msg) : Outcome BitmapEv :=
  (castComp r).bind fun fs =>
  (castU16 fs "destLeft").bind fun l =>
  (castU16 fs "destTop").bind fun t =>
  (castU16 fs "destRight").bind fun rr =>
  (castU16 fs "destBottom").bind fun b =>
  (castU16 fs "width").bind fun w =>
  (castU16 fs "height").bind fun h =>
  (castU16 fs "bitsPerPixel").bind fun bpp =>
  (castU16 fs "flags").bind fun fl =>
  (castSlice fs "bitmapDataStream").bind fun d =>
    .ok ⟨l, t, rr, b, w, h, bpp, fl &&& 1 ≠ 0, d⟩

def rectEvents : List Msg → Outcome (List BitmapEv)
  | [] => .ok []
  | r :: rs => (rectEvent r).bind fun e => (rectEvents rs).bind fun es => .ok (e :: es)

/-- `FastPathUpdate::from_fp` + dispatch for one update; errors are printed and ignored -/
def fpUpdate (u : Msg) : Outcome (List BitmapEv) :=
  (castComp u).bind fun fs =>          -- `cast!(DataType::Component, fp_message)?`
  match castU8 fs "updateHeader" with
  | .panic p => .panic p
  | .err _ => .ok []
  | .ok hdr =>
    let code := hdr &&& 0xf
    let tmpl : Option Msg :=
      if code = 1 then some fpUpdateBitmapTmpl
      else if code = 9 then some colorPointerTmpl
      else if code = 3 then some emptyComp
      else if code = 5 then some emptyComp
      else none
    match tmpl with
    | none => .ok []
    | some t =>
      match castSlice fs "updateData" with
      | .panic p => .panic p
      | .err _ => .ok []
      | .ok body =>
        match readAll t body with
        | .panic p => .panic p
        | .err _ => .ok []
        | .ok m =>
          if code = 1 then
            (castComp m).bind fun mf => (castTrame mf "rectangles").bind rectEvents
          else .ok []

def fpLoop : List Msg → Outcome (List BitmapEv)
  | [] => .ok []
  | u :: us =>
    -- callbacks already made stay made when a later update fails: handled by the caller
    (fpUpdate u).bind fun e => (fpLoop us).bind fun es => .ok (e ++ es)

/-- events delivered before a failure are kept (the callback was already invoked) -/
def fpLoopAcc : List Msg → List BitmapEv → List BitmapEv × Outcome Unit
  | [], acc => (acc, .ok ())
  | u :: us, acc =>
    match fpUpdate u with
    | .ok e => fpLoopAcc us (acc ++ e)
    | .err e => (acc, .err e)
    | .panic p => (acc, .panic p)

/-- `global::Client::read(payload, mcs, callback)` -/
def step (c : GClient) (p : Payload) : Step :=
  match c.state with
  | .demandActive =>
    match p with
    | .fast _ _ => ⟨c, [], [], .err "try_let Raw"⟩
    | .raw s =>
      liftO c (fromStream s) fun pdu =>
        if pdu.pduType ≠ 0x11 then ⟨c, [], [], .ok ()⟩ else
        liftO c (castTrame pdu.fields "capabilitySets") fun caps =>
        liftO c (capabilityChecks caps) fun _ =>
        liftO c (castU32 pdu.fields "shareId") fun sid =>
          let c1 := { c with shareId := some sid }
          -- `share_id` stays set even if a write below fails
          match confirmActiveBytes c1 with
          | .ok ca =>
            match finalizeBytes c1 with
            | .ok fin => ⟨{ c1 with state := .synchronize }, ca :: fin, [], .ok ()⟩
            | .err e => ⟨c1, [ca], [], .err e⟩
            | .panic q => ⟨c1, [ca], [], .panic q⟩
          | .err e => ⟨c1, [], [], .err e⟩
          | .panic q => ⟨c1, [], [], .panic q⟩
  | .synchronize =>
    match p with
    | .fast _ _ => ⟨c, [], [], .err "try_let Raw"⟩
    | .raw s => waitDataPdu c s 0x1F none .controlCooperate
  | .controlCooperate =>
    match p with
    | .fast _ _ => ⟨c, [], [], .err "try_let Raw"⟩
    | .raw s => waitDataPdu c s 0x14 (some 4) .controlGranted
  | .controlGranted =>
    match p with
    | .fast _ _ => ⟨c, [], [], .err "try_let Raw"⟩
    | .raw s => waitDataPdu c s 0x14 (some 2) .fontMap
  | .fontMap =>
    match p with
    | .fast _ _ => ⟨c, [], [], .err "try_let Raw"⟩
    | .raw s => waitDataPdu c s 0x28 none .data
  | .data =>
    match p with
    | .raw s =>
      match read (.array (some shareControlHeaderTmpl) []) s with
      | .ok (.array _ hs) _ => dataLoop c hs
      | .ok _ _ => ⟨c, [], [], .panic "unreachable"⟩
      | .err _ => ⟨c, [], [], .err "read"⟩
      | .panic q => ⟨c, [], [], .panic q⟩
    | .fast _ s =>
      match read (.array (some fpUpdateTmpl) []) s with
      | .ok (.array _ us) _ =>
        let (ev, r) := fpLoopAcc us []
        ⟨c, [], ev, r⟩
      | .ok _ _ => ⟨c, [], [], .panic "unreachable"⟩
      | .err _ => ⟨c, [], [], .err "read"⟩
      | .panic q => ⟨c, [], [], .panic q⟩

/-! ### input -/

inductive Button | none | left | right | middle
deriving Repr, DecidableEq

inductive InEvent where
  | pointer (x y : Nat) (b : Button) (down : Bool)
  | key (code : Nat) (down : Bool)
  | bitmap                       -- any `RdpEvent::Bitmap`: cannot be sent
deriving Repr, DecidableEq

/-- `RdpClient::write` flag computation -/
def pointerFlags (b : Button) (down : Bool) : Nat :=
  (match b with | .left => 0x1000 | .right => 0x2000 | .middle => 0x4000 | .none => 0x0800)
    ||| (if down then 0x8000 else 0)

def keyFlags (down : Bool) : Nat := if down then 0 else 0x8000

/-- `write_input_event`: only in the `Data` state -/
def writeInput (c : GClient) (messageType : Nat) (ev : Msg) : Outcome Bytes :=
  if c.state = .data then
    (toVec ev).bind fun d => dataPduBytes c 0x1C (inputPduData [inputEvent messageType d])
  else .err "InvalidAutomata"

/-- `RdpClient::write(event)`: bytes handed to `mcs.write`, or an error and nothing -/
def clientWrite (c : GClient) (e : InEvent) : Outcome Bytes :=
  match e with
  | .pointer x y b down => writeInput c 0x8001 (pointerEvent (pointerFlags b down) x y)
  | .key code down => writeInput c 0x0004 (keyboardEvent (keyFlags down) code)
  | .bitmap => .err "UnexpectedType"

/-- `RdpClient::try_write`: `InvalidAutomata` is swallowed -/
def clientTryWrite (c : GClient) (e : InEvent) : Outcome (Option Bytes) :=
  match clientWrite c e with
  | .ok b => .ok (some b)
  | .err "InvalidAutomata" => .ok none
  | .err x => .err x
  | .panic p => .panic p

end Rdp.Global
