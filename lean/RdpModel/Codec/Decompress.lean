import RdpModel.Codec.Rle16
/-
  Model of `process_plane` / `rle_32_decompress` / `rgb565torgb32` (src/codec/rle.rs) and
  of `BitmapEvent::decompress` (src/core/event.rs).
-/
namespace Rdp.Codec
open Rdp

abbrev Input := Array UInt8

structure PSt where
  pos : Nat
  out : Array UInt8

def rdU8 (inp : Input) (s : PSt) : Outcome (UInt8 × PSt) :=
  if h : s.pos < inp.size then .ok (inp[s.pos], { s with pos := s.pos + 1 }) else .err "eof"

/-- `output[i] = v` on the sub-slice `&mut result[off..]` -/
def pput (s : PSt) (off i : Nat) (v : UInt8) : Outcome PSt :=
  if off + i < s.out.size then
    let out := s.out
    let s := { s with out := #[] }
    .ok { s with out := out.setIfInBounds (off + i) v }
  else .panic "oob"

def pget (s : PSt) (off i : Nat) : Outcome UInt8 :=
  if h : off + i < s.out.size then .ok s.out[off + i] else .panic "oob"

/-- delta byte → signed colour, as its two's-complement byte -/
def deltaColor (x : UInt8) : UInt8 :=
  if x &&& 1 ≠ 0 then (0 : UInt8) - ((x >>> 1) + 1) else x >>> 1

/-- `while collen > 0 { … }` / `while replen > 0 { … }` of one code byte.
    `first`: first-scanline mode (raw values) vs delta against `lastLine`. -/
def colRun (inp : Input) (off lastLine : Nat) (first : Bool) :
    Nat → PSt → Nat → Nat → UInt8 → Outcome (PSt × Nat × Nat × UInt8)
  | 0, s, out, indexw, color => .ok (s, out, indexw, color)
  | n+1, s, out, indexw, _color =>
    (rdU8 inp s).bind fun (x, s) =>
      if first then
        (pput s off out x).bind fun s => colRun inp off lastLine first n s (out + 4) (indexw + 1) x
      else
        let color := deltaColor x
        (pget s off (lastLine + indexw * 4)).bind fun a =>
        (pput s off out (a + color)).bind fun s => colRun inp off lastLine first n s (out + 4) (indexw + 1) color

def repRun (off lastLine : Nat) (first : Bool) :
    Nat → PSt → Nat → Nat → UInt8 → Outcome (PSt × Nat × Nat)
  | 0, s, out, indexw, _ => .ok (s, out, indexw)
  | n+1, s, out, indexw, color =>
    if first then
      (pput s off out color).bind fun s => repRun off lastLine first n s (out + 4) (indexw + 1) color
    else
      (pget s off (lastLine + indexw * 4)).bind fun a =>
      (pput s off out (a + color)).bind fun s => repRun off lastLine first n s (out + 4) (indexw + 1) color

/-- `while indexw < width { code … }` for one scanline.  Fuel: each round reads one byte. -/
def scanline (inp : Input) (off w lastLine : Nat) (first : Bool) :
    Nat → PSt → Nat → Nat → UInt8 → Outcome PSt
  | 0, _, _, _, _ => .panic "spin"
  | f+1, s, out, indexw, color =>
    if indexw < w then
      (rdU8 inp s).bind fun (code, s) =>
        let replen0 := code.toNat &&& 0xf
        let collen0 := (code.toNat >>> 4) &&& 0xf
        let revcode := (replen0 <<< 4) ||| collen0
        let (replen, collen) := if revcode ≤ 47 ∧ revcode ≥ 16 then (revcode, 0) else (replen0, collen0)
        if indexw + collen + replen > w then .err "run crosses the end of the scanline"
        else
          (colRun inp off lastLine first collen s out indexw color).bind fun (s, out, indexw, color) =>
          (repRun off lastLine first replen s out indexw color).bind fun (s, out, indexw) =>
            scanline inp off w lastLine first f s out indexw color
    else .ok s

/-- `process_plane`: rows bottom-up; `last_line == 0` selects the raw (first-line) mode -/
def planeRows (inp : Input) (off w h : Nat) : Nat → Nat → Nat → PSt → Outcome PSt
  | 0, _, _, s => .ok s
  | n+1, indexh, lastLine, s =>
    match checkedSub "plane out" (w * h * 4) ((indexh + 1) * w * 4) with
    | .ok out =>
      (scanline inp off w lastLine (lastLine = 0) (inp.size + w + 1) s out 0 0).bind fun s =>
        planeRows inp off w h n (indexh + 1) out s
    | .err e => .err e
    | .panic p => .panic p

def processPlane (inp : Input) (off w h : Nat) (s : PSt) : Outcome PSt := planeRows inp off w h h 0 0 s

/-- `rle_32_decompress` -/
def rle32 (inp : Input) (w h : Nat) (out : Array UInt8) : Outcome (Array UInt8) :=
  if w = 0 ∨ h = 0 then .ok out else
  (rdU8 inp ⟨0, out⟩).bind fun (hdr, s) =>
    if hdr ≠ 0x10 then .err "Bad header" else
    -- `&mut output[3..]`: slicing itself panics when the buffer is shorter than 3
    if s.out.size < 3 then .panic "oob slice" else
    (processPlane inp 3 w h s).bind fun s =>
    (processPlane inp 2 w h s).bind fun s =>
    (processPlane inp 1 w h s).bind fun s =>
    (processPlane inp 0 w h s).bind fun s => .ok s.out

/-- `rgb565torgb32`: blue, green, red, alpha per pixel -/
def widen (v : UInt16) : List UInt8 :=
  let n := v.toNat
  [UInt8.ofNat ((((n &&& 0x1f) * 527) + 23) >>> 6),
   UInt8.ofNat (((((n >>> 5) &&& 0x3f) * 259) + 33) >>> 6),
   UInt8.ofNat (((((n >>> 11) &&& 0x1f) * 527) + 23) >>> 6),
   0xff]

def widenInto (acc : Array UInt8) (v : UInt16) : Array UInt8 :=
  match widen v with
  | [b, g, r, a] => (((acc.push b).push g).push r).push a
  | _ => acc

def rgb565torgb32 (buf : Array UInt16) (w h : Nat) : Outcome (List UInt8) :=
  if w * h ≤ buf.size then .ok ((buf.extract 0 (w * h)).foldl widenInto (Array.mkEmpty (w * h * 4))).toList
  else .panic "oob"

structure BitmapEvent where
  width : Nat
  height : Nat
  bpp : Nat
  compress : Bool
  data : Array UInt8

/-- raw 16 bpp: bottom-up rows of little-endian pixels -/
def raw16 (d : Array UInt8) (w h : Nat) : Array UInt16 :=
  Array.ofFn (n := w * h) fun idx =>
    let i := idx.val / w
    let j := idx.val % w
    let src := ((h - i - 1) * w + j) * 2
    (d.getD (src + 1) 0).toUInt16 <<< 8 ||| (d.getD src 0).toUInt16

/-- raw 32 bpp: bottom-up rows flipped to top-down -/
def raw32 (d : Array UInt8) (w h : Nat) : List UInt8 :=
  ((List.range h).foldl (fun (acc : Array UInt8) i =>
      acc ++ d.extract ((h - i - 1) * w * 4) ((h - i - 1) * w * 4 + w * 4)) (Array.mkEmpty (w * h * 4))).toList

/-- `BitmapEvent::decompress` -/
def decompress (e : BitmapEvent) : Outcome (List UInt8) :=
  let w := e.width
  let h := e.height
  if e.bpp = 32 then
    if e.compress then (rle32 e.data w h (Array.replicate (w * h * 4) 0)).bind fun a => .ok a.toList
    else if e.data.size < w * h * 4 then .err "InvalidSize" else .ok (raw32 e.data w h)
  else if e.bpp = 16 then
    if e.compress then
      (Rle16.decompress e.data w h (Array.replicate (w * h * 2) 0)).bind fun buf => rgb565torgb32 buf w h
    else if e.data.size < w * h * 2 then .err "InvalidSize"
    else rgb565torgb32 (raw16 e.data w h) w h
  else .err "NotImplemented"

/-- The buffers `BitmapEvent::decompress` asks the allocator for (sizes in bytes, in
    program order): `vec![0u8; w*h*4]` at 32 bpp (before the data is looked at);
    `vec![0u16; w*h*2]` for the interleaved decoder and, when it succeeds, `rgb565torgb32`'s
    `vec![0u8; w*h*4]`; `vec![0u16; w*h]` + the widened copy for raw 16 bpp, after the size
    test.  Error values (a short message string) are not buffers and are left out. -/
def allocTrace (e : BitmapEvent) : List Nat :=
  let px := e.width * e.height
  if e.bpp = 32 then [px * 4]
  else if e.bpp = 16 then
    if e.compress then
      match Rle16.decompress e.data e.width e.height (Array.replicate (px * 2) 0) with
      | .ok _ => [px * 2 * 2, px * 4]
      | _ => [px * 2 * 2]
    else if e.data.size < px * 2 then [] else [px * 2, px * 4]
  else []

end Rdp.Codec
