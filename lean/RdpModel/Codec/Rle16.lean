import RdpModel.Base.Bytes
/-
  Model of `rle_16_decompress` (src/codec/rle.rs, the rdesktop port): order header
  decoding, the `repeat!` macro as written (8-fold block, then tail loop), the new-line
  step, the unguarded insert-mix write, every buffer access checked.
  Panic sites: "oob" (index out of range), "unwrapNone" (`line.unwrap()`), "overflow"
  (u32 arithmetic), "spin" (fuel of a loop exhausted — shown unreachable).
-/
namespace Rdp.Rle16

structure St where
  pos : Nat
  out : Array UInt16
  x : Nat
  height : Nat
  line : Option Nat
  prev : Option Nat
  insertmix : Bool
  c1 : UInt16
  c2 : UInt16
  mix : UInt16
  mask : UInt8
  mixmask : UInt8
  bicolour : Bool
  count : Nat            -- u32 in the source
  lastop : Nat

abbrev Input := Array UInt8

def readU8 (inp : Input) (s : St) : Outcome (UInt8 × St) :=
  if h : s.pos < inp.size then .ok (inp[s.pos], { s with pos := s.pos + 1 }) else .err "eof"

/-- byteorder `read_u16::<LittleEndian>` on a cursor: EOF puts the cursor at its end -/
def readU16 (inp : Input) (s : St) : Outcome (UInt16 × St) :=
  if h : s.pos + 1 < inp.size then
    .ok ((inp[s.pos]).toUInt16 ||| ((inp[s.pos + 1]).toUInt16 <<< 8), { s with pos := s.pos + 2 })
  else .err "eof"

/-- `output[line.unwrap() + x] = v` -/
def put (s : St) (v : UInt16) : Outcome St :=
  match s.line with
  | none => .panic "unwrapNone"
  | some l =>
    if l + s.x < s.out.size then
      -- (the buffer is taken out of the record before the write so that the compiled
      -- driver updates it in place; semantically `{ s with out := s.out.set … }`)
      let i := l + s.x
      let out := s.out
      let s := { s with out := #[] }
      .ok { s with out := out.setIfInBounds i v }
    else .panic "oob"

/-- `output[e + x]` -/
def above (s : St) (e : Nat) : Outcome UInt16 :=
  if h : e + s.x < s.out.size then .ok s.out[e + s.x] else .panic "oob"

/-- `if let Some(e) = prevline { out = f(output[e + x]) } else { out = d }` -/
def putAbove (s : St) (f : UInt16 → UInt16) (d : UInt16) : Outcome St :=
  match s.prev with
  | some e => (above s e).bind fun v => put s (f v)
  | none => put s d

/-- `mixmask <<= 1; if mixmask == 0 { mask = fom_mask or next byte; mixmask = 1 }` -/
def maskStep (inp : Input) (fom : UInt8) (s : St) : Outcome St :=
  if s.mixmask <<< 1 = 0 then
    if fom ≠ 0 then .ok { s with mask := fom, mixmask := 1 }
    else (readU8 inp s).bind fun bs => .ok { bs.2 with mask := bs.1, mixmask := 1 }
  else .ok { s with mixmask := s.mixmask <<< 1 }

def bit (s : St) : Bool := (s.mask &&& s.mixmask) ≠ 0

def validOp (op : Nat) : Bool := op = 0 ∨ op = 1 ∨ op = 2 ∨ op = 3 ∨ op = 4 ∨ op = 8 ∨ op = 13 ∨ op = 14

/-- the `$expr` of `repeat!` for each (normalised) opcode; `fom` is fom_mask -/
def expr (inp : Input) (op : Nat) (fom : UInt8) (s : St) : Outcome St :=
  match op with
  | 0 => putAbove s (fun v => v) 0
  | 1 => putAbove s (fun v => v ^^^ s.mix) s.mix
  | 2 => (maskStep inp fom s).bind fun s1 =>
           putAbove s1 (fun v => if bit s1 then v ^^^ s1.mix else v) (if bit s1 then s1.mix else 0)
  | 3 => put s s.c2
  | 4 => (readU16 inp s).bind fun vs => put vs.2 vs.1
  | 8 =>
    if s.bicolour then (put s s.c2).bind fun s' => .ok { s' with bicolour := false }
    else (put s s.c1).bind fun s' =>
      if s'.count + 1 ≥ 2 ^ 32 then .panic "overflow" else .ok { s' with bicolour := true, count := s'.count + 1 }
  | 13 => put s 0xffff
  | 14 => put s 0
  | _ => .err "invalid order"      -- unreachable: checked before the loop body runs

/-- `$expr; $count -= 1; $x += 1;` -/
def exprStep (inp : Input) (op : Nat) (fom : UInt8) (s : St) : Outcome St :=
  (expr inp op fom s).bind fun s' =>
    if s'.count = 0 then .panic "overflow" else .ok { s' with count := s'.count - 1, x := s'.x + 1 }

def times : Nat → (St → Outcome St) → St → Outcome St
  | 0, _, s => .ok s
  | n+1, f, s => (f s).bind (times n f)

/-- first loop of `repeat!`: `while (count & !7) != 0 && x + 8 < width { 8 × step }` -/
def loop8 (inp : Input) (op : Nat) (fom : UInt8) (w : Nat) : Nat → St → Outcome St
  | 0, _ => .panic "spin"
  | f+1, s =>
    if s.count ≥ 8 ∧ s.x + 8 < w then (times 8 (exprStep inp op fom) s).bind (loop8 inp op fom w f)
    else .ok s

/-- second loop: `while count > 0 && x < width { step }` -/
def loop1 (inp : Input) (op : Nat) (fom : UInt8) (w : Nat) : Nat → St → Outcome St
  | 0, _ => .panic "spin"
  | f+1, s =>
    if s.count > 0 ∧ s.x < w then (exprStep inp op fom s).bind (loop1 inp op fom w f)
    else .ok s

def repeatM (inp : Input) (op : Nat) (fom : UInt8) (w : Nat) (s : St) : Outcome St :=
  (loop8 inp op fom w (w + 1) s).bind (loop1 inp op fom w (w + 1))

/-- new-line step at the top of `while count > 0` -/
def newline (w : Nat) (s : St) : Outcome St :=
  if s.x ≥ w then
    if s.height = 0 then .err "error during decompress"
    else .ok { s with x := 0, height := s.height - 1, prev := s.line, line := some ((s.height - 1) * w) }
  else .ok s

/-- body of `while count > 0` -/
def body (inp : Input) (op : Nat) (fom : UInt8) (w : Nat) (s : St) : Outcome St :=
  (newline w s).bind fun s1 =>
    if ¬ validOp op then .err "invalid order"
    else if op = 0 ∧ s1.insertmix = true then
      (putAbove s1 (fun v => v ^^^ s1.mix) s1.mix).bind fun s2 =>
        repeatM inp op fom w { s2 with insertmix := false, count := s2.count - 1, x := s2.x + 1 }
    else repeatM inp op fom w s1

def pixels (inp : Input) (op : Nat) (fom : UInt8) (w : Nat) : Nat → St → Outcome St
  | 0, _ => .panic "spin"
  | f+1, s =>
    if s.count > 0 then (body inp op fom w s).bind (pixels inp op fom w f)
    else .ok s

/-- first `match opcode`: (opcode, count, offset) from the code byte -/
def headerFirst (inp : Input) (c : Nat) (s : St) : Outcome (Nat × Nat × Nat × St) :=
  let hi := c >>> 4
  if hi = 0xC ∨ hi = 0xD ∨ hi = 0xE then .ok (hi - 6, c &&& 0xf, 16, s)
  else if hi = 0xF then
    let op := c &&& 0xf
    if op < 9 then (readU16 inp s).bind fun (v, s) => .ok (op, v.toNat, 0, s)
    else if op < 0xb then .ok (op, 8, 0, s)
    else .ok (op, 1, 0, s)
  else .ok (hi >>> 1, c &&& 0x1f, 32, s)

/-- `if offset != 0 { … }`: extended / scaled run length -/
def headerCount (inp : Input) (op count offset : Nat) (s : St) : Outcome (Nat × St) :=
  if offset ≠ 0 then
    let fillOrMix := op = 2 ∨ op = 7
    if count = 0 then
      (readU8 inp s).bind fun (b, s) => .ok (if fillOrMix then b.toNat + 1 else b.toNat + offset, s)
    else if fillOrMix then .ok (count <<< 3, s)
    else .ok (count, s)
  else .ok (count, s)

/-- second `match opcode`: colours, mix, masks, insert-mix flag; normalised opcode and fom_mask -/
def headerSecond (inp : Input) (w op : Nat) (s : St) : Outcome (Nat × UInt8 × St) :=
  if op = 0 then
    .ok (0, 0, if s.lastop = 0 ∧ ¬ (s.x = w ∧ s.prev = none) then { s with insertmix := true } else s)
  else if op = 8 then
    (readU16 inp s).bind fun (a, s) => (readU16 inp s).bind fun (b, s) => .ok (8, 0, { s with c1 := a, c2 := b })
  else if op = 3 then (readU16 inp s).bind fun (b, s) => .ok (3, 0, { s with c2 := b })
  else if op = 6 ∨ op = 7 then (readU16 inp s).bind fun (m, s) => .ok (op - 5, 0, { s with mix := m })
  else if op = 9 then .ok (2, 3, { s with mask := 3 })
  else if op = 0xa then .ok (2, 5, { s with mask := 5 })
  else .ok (op, 0, s)

/-- order header: code byte → (opcode, fom_mask) and the state with count / colours / mix /
    mask / insertmix / lastopcode / mixmask set -/
def header (inp : Input) (w : Nat) (s : St) : Outcome (Nat × UInt8 × St) :=
  (readU8 inp s).bind fun (code, s) =>
  (headerFirst inp code.toNat s).bind fun (op, count, offset, s) =>
  (headerCount inp op count offset s).bind fun (count, s) =>
  (headerSecond inp w op s).bind fun (op, fom, s) =>
    .ok (op, fom, { s with lastop := op, mixmask := 0, count := count })

/-- one order: header, then its pixel loop.  Fuel for the pixel loop: every iteration
    either ends a line (height decreases) or advances `x` — see `pixels_fuel`. -/
def order (inp : Input) (w h0 : Nat) (s : St) : Outcome St :=
  (header inp w s).bind fun (op, fom, s) => pixels inp op fom w ((h0 + 1) * (w + 1) + 1) s

/-- `while position < len { order }`; every order consumes at least its code byte -/
def orders (inp : Input) (w h0 : Nat) : Nat → St → Outcome St
  | 0, _ => .panic "spin"
  | f+1, s =>
    if s.pos < inp.size then (order inp w h0 s).bind (orders inp w h0 f)
    else .ok s

def initSt (w h : Nat) (out : Array UInt16) : St :=
  { pos := 0, out := out, x := w, height := h, line := none, prev := none, insertmix := false,
    c1 := 0, c2 := 0, mix := 0xffff, mask := 0, mixmask := 0, bicolour := false, count := 0, lastop := 0xFF }

/-- `rle_16_decompress(input, width, height, output)`; returns the filled buffer -/
def decompress (inp : Input) (w h : Nat) (out : Array UInt16) : Outcome (Array UInt16) :=
  (orders inp w h (inp.size + 1) (initSt w h out)).bind fun s => .ok s.out

end Rdp.Rle16
