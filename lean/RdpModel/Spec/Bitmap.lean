import RdpModel.Base.Bytes
/-
  Reference bitmap decoders written from the documents, independently of the port:
    * Interleaved RLE at 16 bpp — MS-RDPBCGR 3.1.9 pseudo-code (`RleDecompress`): a flat
      destination raster in stream order, `fFirstLine` tested once per order, run-length
      extraction per order class, foreground-pel insertion between consecutive background
      runs.
    * RDP 6.0 planar codec for 32 bpp (MS-RDPEGDI 3.1.9) with format header 0x10: four
      RLE planes A, R, G, B, control bytes (nRunLength | cRawBytes<<4), delta rows.
    * 5-6-5 → 8-8-8 widening by exact rounding.
  Both decoders produce scanlines in stream order (bottom row of the image first).
-/
namespace Rdp.Spec.Bitmap
open Rdp

abbrev Pixel := Nat        -- 16-bit colour

def BLACK : Pixel := 0
def WHITE : Pixel := 0xFFFF

inductive Order where
  | bgRun | fgRun (set : Bool) | fgbgImage (set : Bool) | colorRun | colorImage | ditheredRun
  | special (mask : Nat) | white | black
deriving Repr, DecidableEq

/-- ExtractCodeId + ExtractRunLength: (order, run length, bytes consumed by the header) -/
def parseHeader (src : Bytes) : Option (Order × Nat × Bytes) :=
  match src with
  | [] => none
  | b :: rest =>
    let c := b.toNat
    let megaLen := fun (k : Order) =>
      match rest with
      | lo :: hi :: r => some (k, lo.toNat + 256 * hi.toNat, r)
      | _ => none
    if c = 0xF0 then megaLen .bgRun
    else if c = 0xF1 then megaLen (.fgRun false)
    else if c = 0xF2 then megaLen (.fgbgImage false)
    else if c = 0xF3 then megaLen .colorRun
    else if c = 0xF4 then megaLen .colorImage
    else if c = 0xF6 then megaLen (.fgRun true)
    else if c = 0xF7 then megaLen (.fgbgImage true)
    else if c = 0xF8 then megaLen .ditheredRun
    else if c = 0xF9 then some (.special 0x03, 8, rest)
    else if c = 0xFA then some (.special 0x05, 8, rest)
    else if c = 0xFD then some (.white, 1, rest)
    else if c = 0xFE then some (.black, 1, rest)
    else if c ≥ 0xF0 then none                          -- 0xF5, 0xFB, 0xFC, 0xFF: not orders
    else if c ≥ 0xC0 then
      -- lite orders: 4-bit code, 4-bit length
      let k : Option Order := if c / 16 = 0xC then some (.fgRun true) else if c / 16 = 0xD then some (.fgbgImage true)
                              else if c / 16 = 0xE then some .ditheredRun else none
      match k with
      | none => none
      | some k =>
        let l := c % 16
        if k = .fgbgImage true then
          if l = 0 then (match rest with | n :: r => some (k, n.toNat + 1, r) | [] => none) else some (k, l * 8, rest)
        else
          if l = 0 then (match rest with | n :: r => some (k, n.toNat + 16, r) | [] => none) else some (k, l, rest)
    else
      -- regular orders: 3-bit code, 5-bit length
      let code := c / 32
      let k : Option Order := if code = 0 then some .bgRun else if code = 1 then some (.fgRun false)
        else if code = 2 then some (.fgbgImage false) else if code = 3 then some .colorRun
        else if code = 4 then some .colorImage else none
      match k with
      | none => none
      | some k =>
        let l := c % 32
        if k = .fgbgImage false then
          if l = 0 then (match rest with | n :: r => some (k, n.toNat + 1, r) | [] => none) else some (k, l * 8, rest)
        else
          if l = 0 then (match rest with | n :: r => some (k, n.toNat + 32, r) | [] => none) else some (k, l, rest)

def readPixel (src : Bytes) : Option (Pixel × Bytes) :=
  match src with
  | lo :: hi :: r => some (lo.toNat + 256 * hi.toNat, r)
  | _ => none

/-- pixel above the next destination position -/
def abovePel (dest : List Pixel) (w : Nat) : Pixel := dest.getD (dest.length - w) 0

/-- append `n` pixels computed one by one from the growing raster -/
def writeN (dest : List Pixel) (n : Nat) (f : List Pixel → Pixel) : List Pixel :=
  match n with
  | 0 => dest
  | k+1 => writeN (dest ++ [f dest]) k f

/-- WriteFgBgImage / WriteFirstLineFgBgImage for `cBits` bits of `bitmask` (LSB first) -/
def writeFgBg (dest : List Pixel) (w : Nat) (firstLine : Bool) (bitmask fgPel : Nat) : Nat → Nat → List Pixel
  | 0, _ => dest
  | k+1, i =>
    let set := (bitmask >>> i) % 2 = 1
    let px := if firstLine then (if set then fgPel else BLACK)
              else (if set then (abovePel dest w) ^^^ fgPel else abovePel dest w)
    writeFgBg (dest ++ [px]) w firstLine bitmask fgPel k (i + 1)

def fgbgBytes (dest : List Pixel) (w : Nat) (firstLine : Bool) (fgPel : Nat) :
    Nat → Nat → Bytes → Option (List Pixel × Bytes)
  | 0, _, src => some (dest, src)
  | fuel+1, run, src =>
    if run = 0 then some (dest, src) else
    match src with
    | [] => none
    | m :: r =>
      let bits := if run > 8 then 8 else run
      fgbgBytes (writeFgBg dest w firstLine m.toNat fgPel bits 0) w firstLine fgPel fuel (run - bits) r

def copyPixels (dest : List Pixel) : Nat → Bytes → Option (List Pixel × Bytes)
  | 0, src => some (dest, src)
  | n+1, src => match readPixel src with
    | some (p, r) => copyPixels (dest ++ [p]) n r
    | none => none

structure DState where
  dest : List Pixel
  fgPel : Pixel
  insertFg : Bool
  firstLine : Bool := true

/-- one order of `RleDecompress` -/
def stepOrder (w cap : Nat) (s : DState) (src : Bytes) : Option (DState × Bytes) :=
  -- `if (fFirstLine) { if (pbDest - pbDestBuffer >= rowDelta) { fFirstLine = FALSE; fInsertFgPel = FALSE } }`
  -- evaluated once, at the start of the order
  let s : DState := if s.firstLine ∧ s.dest.length ≥ w then { s with firstLine := false, insertFg := false } else s
  let firstLine := s.firstLine
  let insertFg := s.insertFg
  match parseHeader src with
  | none => none
  | some (k, run, src) =>
    if run = 0 then none else     -- a conformant encoder never emits an empty order
    -- nor one that runs past the end of the bitmap
    if s.dest.length + (if k = .ditheredRun then 2 * run else run) > cap then none else
    match k with
    | .bgRun =>
      let d1 := if insertFg then
          s.dest ++ [if firstLine then s.fgPel else (abovePel s.dest w) ^^^ s.fgPel]
        else s.dest
      let run' := if insertFg then run - 1 else run
      let d2 := writeN d1 run' fun d => if firstLine then BLACK else abovePel d w
      some ({ s with dest := d2, insertFg := true }, src)
    | .fgRun set =>
      (if set then readPixel src else some (s.fgPel, src)).bind fun (fg, src) =>
        some ({ s with dest := writeN s.dest run fun d => if firstLine then fg else (abovePel d w) ^^^ fg,
                       fgPel := fg, insertFg := false }, src)
    | .ditheredRun =>
      (readPixel src).bind fun (a, src) => (readPixel src).bind fun (b, src) =>
        some ({ s with dest := s.dest ++ (List.replicate run [a, b]).flatten, insertFg := false }, src)
    | .colorRun =>
      (readPixel src).bind fun (a, src) =>
        some ({ s with dest := s.dest ++ List.replicate run a, insertFg := false }, src)
    | .fgbgImage set =>
      (if set then readPixel src else some (s.fgPel, src)).bind fun (fg, src) =>
        (fgbgBytes s.dest w firstLine fg (run + 1) run src).bind fun (d, src) =>
          some ({ s with dest := d, fgPel := fg, insertFg := false }, src)
    | .colorImage =>
      (copyPixels s.dest run src).bind fun (d, src) => some ({ s with dest := d, insertFg := false }, src)
    | .special mask =>
      some ({ s with dest := writeFgBg s.dest w firstLine mask s.fgPel 8 0, insertFg := false }, src)
    | .white => some ({ s with dest := s.dest ++ [WHITE], insertFg := false }, src)
    | .black => some ({ s with dest := s.dest ++ [BLACK], insertFg := false }, src)

def decodeLoop (w cap : Nat) : Nat → DState → Bytes → Option DState
  | 0, _, _ => none
  | fuel+1, s, src =>
    match src with
    | [] => some s
    | _ =>
      match stepOrder w cap s src with
      | some (s', src') => if src'.length < src.length then decodeLoop w cap fuel s' src' else none
      | none => none

/-- `RleDecompress` for a `w × h` bitmap at 16 bpp: the raster in stream order, accepted
    only if the stream describes exactly `w·h` pixels -/
def rle16Decode (w h : Nat) (src : Bytes) : Option (List Pixel) :=
  match decodeLoop w (w * h) (src.length + 1) ⟨[], WHITE, false, true⟩ src with
  | some s => if s.dest.length = w * h then some s.dest else none
  | none => none

/-- no order both starts on the first scanline and ends beyond it (the encoder breaks
    orders at the end of the first scanline) -/
def noFirstLineCrossingLoop (w cap : Nat) : Nat → DState → Bytes → Bool
  | 0, _, _ => true
  | fuel+1, s, src =>
    match src with
    | [] => true
    | _ =>
      match stepOrder w cap s src with
      | some (s', src') =>
        if s.dest.length < w ∧ w < s'.dest.length then false
        else if src'.length < src.length then noFirstLineCrossingLoop w cap fuel s' src' else true
      | none => true

def noFirstLineCrossing (w h : Nat) (src : Bytes) : Bool :=
  noFirstLineCrossingLoop w (w * h) (src.length + 1) ⟨[], WHITE, false, true⟩ src

/-! ### planar (RDP 6.0) -/

def deltaOf (x : Nat) : Int := if x % 2 = 1 then -((x / 2 : Nat) + 1 : Int) else (x / 2 : Nat)

/-- control byte → (nRunLength, cRawBytes), with the two long-run escapes -/
def ctrlLens (c : Nat) : Nat × Nat :=
  let n0 := c % 16
  let c0 := c / 16
  if n0 = 1 then (c0 + 16, 0) else if n0 = 2 then (c0 + 32, 0) else (n0, c0)

/-- append one value: absolute on the first scanline, a delta against the scanline above
    (`above`, indexed by the position being written) on the others -/
def emit (above : Option (List Nat)) (acc : List Nat) (d : Int) : List Nat :=
  match above with
  | none => acc ++ [d.toNat % 256]
  | some ab => acc ++ [((((ab.getD acc.length 0 : Nat) : Int) + d).emod 256).toNat]

/-- the raw bytes of one segment; returns the values and the last delta -/
def rawsGo (above : Option (List Nat)) : List Nat → List Nat → Int → List Nat × Int
  | [], acc, last => (acc, last)
  | x :: xs, acc, _ =>
    let d : Int := match above with | none => (x : Int) | some _ => deltaOf x
    rawsGo above xs (emit above acc d) d

/-- the run of one segment: the last delta repeated -/
def runGo (above : Option (List Nat)) (last1 : Int) : Nat → List Nat → List Nat
  | 0, acc => acc
  | k+1, acc => runGo above last1 k (emit above acc last1)

/-- one scanline of one plane: (values, remaining input) -/
def planeLine (w : Nat) (above : Option (List Nat)) : Nat → List Nat → Int → Bytes → Option (List Nat × Bytes)
  | 0, _, _, _ => none
  | fuel+1, acc, last, src =>
    if acc.length = w then some (acc, src)
    else if acc.length > w then none
    else match src with
    | [] => none
    | ctrl :: r =>
      let (nRun, cRaw) := ctrlLens ctrl.toNat
      if r.length < cRaw then none else
      let raws := (r.take cRaw).map UInt8.toNat
      let r := r.drop cRaw
      -- raw bytes then the run, each positioned against the scanline above
      let (acc1, last1) := rawsGo above raws acc last
      planeLine w above fuel (runGo above last1 nRun acc1) last1 r

def planeRowsRef (w : Nat) : Nat → Option (List Nat) → List (List Nat) → Bytes → Option (List (List Nat) × Bytes)
  | 0, _, acc, src => some (acc.reverse, src)
  | n+1, above, acc, src =>
    match planeLine w above (src.length + w + 2) [] 0 src with
    | some (line, r) => planeRowsRef w n (some line) (line :: acc) r
    | none => none

/-- the four planes A, R, G, B in stream order (scanlines bottom-up) -/
def planarDecode (w h : Nat) (src : Bytes) : Option (List (List Nat) × List (List Nat) × List (List Nat) × List (List Nat)) :=
  match src with
  | hdr :: r =>
    if hdr ≠ 0x10 then none else
    (planeRowsRef w h none [] r).bind fun (a, r) =>
    (planeRowsRef w h none [] r).bind fun (rd, r) =>
    (planeRowsRef w h none [] r).bind fun (g, r) =>
    (planeRowsRef w h none [] r).bind fun (b, _) => some (a, rd, g, b)
  | [] => none

/-! ### a reference planar encoder (one raw byte per segment) -/

/-- the byte `x` with `deltaOf x ≡ v − a (mod 256)` -/
def encDelta (v a : Nat) : UInt8 :=
  let d := (v + 256 - a % 256) % 256
  if d < 128 then UInt8.ofNat (2 * d) else UInt8.ofNat (2 * (256 - d) - 1)

/-- one scanline, the values `row` from position `pos` on: a control byte 0x10 (one raw
    byte, no run) per value; absolute on the first scanline, deltas on the others -/
def encodeRow (above : Option (List Nat)) : Nat → List Nat → Bytes
  | _, [] => []
  | pos, v :: vs =>
    let x : UInt8 := match above with | none => UInt8.ofNat v | some ab => encDelta v (ab.getD pos 0)
    0x10 :: x :: encodeRow above (pos + 1) vs

def encodeRows : Option (List Nat) → List (List Nat) → Bytes
  | _, [] => []
  | above, row :: rows => encodeRow above 0 row ++ encodeRows (some row) rows

/-- planes in stream order (scanlines bottom-up), as `planarDecode` returns them -/
def planarEncode (a r g b : List (List Nat)) : Bytes :=
  0x10 :: (encodeRows none a ++ encodeRows none r ++ encodeRows none g ++ encodeRows none b)

/-! ### colour widening and final layout -/

/-- exact rounding of an n-bit channel to 8 bits: round(c · 255 / (2ⁿ − 1)) -/
def roundScale (c maxIn : Nat) : Nat := (2 * c * 255 + maxIn) / (2 * maxIn)

/-- 5-6-5 pixel → B, G, R, A bytes -/
def widen565 (v : Nat) : List Nat :=
  [roundScale (v % 32) 31, roundScale ((v / 32) % 64) 63, roundScale ((v / 2048) % 32) 31, 255]

/-- stream-order raster (bottom row first) → top-down rows -/
def topDown {α} (w : Nat) (flat : List α) : List α :=
  let rows := (List.range (flat.length / (if w = 0 then 1 else w))).map fun r => (flat.drop (r * w)).take w
  rows.reverse.flatten

end Rdp.Spec.Bitmap
