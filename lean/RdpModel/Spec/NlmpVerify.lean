import RdpModel.Crypto.Hash
/-
  An independent MS-NLMP server-side check of an AUTHENTICATE_MESSAGE (3.2.5.1.2 with
  NTLMv2, key exchange and MIC), written from the document: field table bounds, NTProofStr
  and LMv2 recomputation from the account key, key-exchange unwrap, MIC over the three
  messages with the MIC field zeroed.
-/
namespace Rdp.Spec.Nlmp
open Rdp Rdp.Crypto

def u16at (b : Bytes) (o : Nat) : Nat := (b.getD o 0).toNat + 256 * (b.getD (o + 1) 0).toNat
def u32at (b : Bytes) (o : Nat) : Nat := u16at b o + 65536 * u16at b (o + 2)

/-- (Len, MaxLen, BufferOffset) at `o`; the buffer must lie inside the message and after
    the fixed part -/
def fieldAt (b : Bytes) (o minOff : Nat) : Option Bytes :=
  let len := u16at b o
  let off := u32at b (o + 4)
  if len = 0 then some []
  else if off < minOff ∨ off + len > b.length then none
  else some ((b.drop off).take len)

structure Server where
  accountKey : Bytes          -- NTOWFv2(password, user, domain)
  negotiate : Bytes
  challenge : Bytes           -- the CHALLENGE_MESSAGE as sent
  serverChallenge : Bytes
  flags : Nat
  domain : Bytes              -- expected encodings of the names
  user : Bytes

inductive Verdict where
  | accept (exportedKey : Bytes)
  | reject (why : String)
deriving Repr, DecidableEq

def rc4kSpec (key data : Bytes) : Bytes :=
  match Rc4.new key with
  | .ok r => (r.process data).1
  | _ => []

def verify (s : Server) (tok : Bytes) : Verdict :=
  let hasVersion := s.flags &&& 0x02000000 ≠ 0
  let micOff := if hasVersion then 72 else 64
  let payloadOff := micOff + 16
  if tok.length < payloadOff then .reject "short" else
  if tok.take 8 ≠ [0x4e, 0x54, 0x4c, 0x4d, 0x53, 0x53, 0x50, 0x00] then .reject "signature" else
  if u32at tok 8 ≠ 3 then .reject "type" else
  if u32at tok 60 ≠ s.flags then .reject "flags" else
  match fieldAt tok 12 payloadOff, fieldAt tok 20 payloadOff, fieldAt tok 28 payloadOff,
        fieldAt tok 36 payloadOff, fieldAt tok 44 payloadOff, fieldAt tok 52 payloadOff with
  | some lm, some nt, some dom, some usr, some _ws, some ek =>
    if dom ≠ s.domain then .reject "domain" else
    if usr ≠ s.user then .reject "user" else
    if nt.length < 16 + 28 then .reject "nt length" else
    let ntProof := nt.take 16
    let temp := nt.drop 16
    if temp.take 2 ≠ [1, 1] then .reject "resp version" else
    if ntProof ≠ hmacMd5 s.accountKey (s.serverChallenge ++ temp) then .reject "NTProofStr" else
    let clientChallenge := (temp.drop 16).take 8
    if lm ≠ hmacMd5 s.accountKey (s.serverChallenge ++ clientChallenge) ++ clientChallenge then .reject "LMv2" else
    let sessionBaseKey := hmacMd5 s.accountKey ntProof
    if ek.length ≠ 16 then .reject "key exchange length" else
    let exported := rc4kSpec sessionBaseKey ek
    let mic := (tok.drop micOff).take 16
    let zeroed := tok.take micOff ++ List.replicate 16 0 ++ tok.drop (micOff + 16)
    if mic ≠ hmacMd5 exported (s.negotiate ++ s.challenge ++ zeroed) then .reject "MIC"
    else .accept exported
  | _, _, _, _, _, _ => .reject "field table"

end Rdp.Spec.Nlmp
