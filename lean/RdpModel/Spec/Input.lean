import RdpModel.Base.Bytes
/-
  Reference encoding of a slow-path input PDU with one event, written from MS-RDPBCGR
  (2.2.8.1.1.3 Client Input Event PDU, 2.2.8.1.1.1 share headers, T.125 send-data-request,
  X.224 data, TPKT) and a strict parser for it.
-/
namespace Rdp.Spec.Input
open Rdp

def le16 (v : Nat) : Bytes := encInt .le 2 v
def le32 (v : Nat) : Bytes := encInt .le 4 v
def be16 (v : Nat) : Bytes := encInt .be 2 v

inductive Button | none | left | right | middle
deriving Repr, DecidableEq

inductive Event where
  | pointer (x y : Nat) (b : Button) (down : Bool)
  | key (code : Nat) (down : Bool)
deriving Repr, DecidableEq

/-- MS-RDPBCGR 2.2.8.1.1.3.1.1.3: PTRFLAGS_DOWN 0x8000, BUTTON1 0x1000 (left), BUTTON2 0x2000
    (right), BUTTON3 0x4000 (middle), PTRFLAGS_MOVE 0x0800 -/
def pointerFlags (b : Button) (down : Bool) : Nat :=
  (match b with | .left => 0x1000 | .right => 0x2000 | .middle => 0x4000 | .none => 0x0800)
    + (if down then 0x8000 else 0)

/-- 2.2.8.1.1.3.1.1.1: KBDFLAGS_RELEASE 0x8000 -/
def keyFlags (down : Bool) : Nat := if down then 0 else 0x8000

def eventBytes : Event → Bytes
  | .pointer x y b d => le32 0 ++ le16 0x8001 ++ le16 (pointerFlags b d) ++ le16 x ++ le16 y
  | .key code d => le32 0 ++ le16 0x0004 ++ le16 (keyFlags d) ++ le16 code ++ le16 0

/-- TS_INPUT_PDU_DATA with one event -/
def inputPdu (e : Event) : Bytes := le16 1 ++ le16 0 ++ eventBytes e

/-- share data header (pduType2 = 0x1C input) -/
def shareData (shareId : Nat) (body : Bytes) : Bytes :=
  le32 shareId ++ [0, 1] ++ le16 (body.length + 18) ++ [0x1C, 0] ++ le16 0 ++ body

/-- share control header (type 0x17 data PDU, source = the client's MCS user id) -/
def shareControl (userId : Nat) (body : Bytes) : Bytes :=
  le16 (body.length + 6) ++ le16 0x17 ++ le16 userId ++ body

/-- MCS send-data-request on the I/O channel -/
def sendDataRequest (userId channel : Nat) (data : Bytes) : Bytes :=
  [0x64] ++ be16 (userId - 1001) ++ be16 channel ++ [0x70, UInt8.ofNat data.length] ++ data

def frame (userId channel shareId : Nat) (e : Event) : Bytes :=
  let x := [2, 0xf0, 0x80] ++ sendDataRequest userId channel (shareControl userId (shareData shareId (inputPdu e)))
  [3, 0, UInt8.ofNat ((x.length + 4) / 256), UInt8.ofNat ((x.length + 4) % 256)] ++ x

structure Parsed where
  userId : Nat
  channel : Nat
  shareId : Nat
  messageType : Nat
  flags : Nat
  a : Nat      -- xPos | keyCode
  b : Nat      -- yPos | pad
deriving Repr, DecidableEq

def n16 (lo hi : UInt8) : Nat := lo.toNat + 256 * hi.toNat

/-- strict parser: the frame has exactly the size its length fields say, every length
    equals what it describes, constants are fixed -/
def parse (f : Bytes) : Option Parsed :=
  let g := fun (i : Nat) => f.getD i 0
  if f.length = 48 ∧
     g 0 = 3 ∧ g 1 = 0 ∧ n16 (g 3) (g 2) = 48 ∧ g 4 = 2 ∧ g 5 = 0xf0 ∧ g 6 = 0x80 ∧
     g 7 = 0x64 ∧ g 12 = 0x70 ∧ (g 13).toNat = 34 ∧
     n16 (g 14) (g 15) = 34 ∧ n16 (g 16) (g 17) = 0x17 ∧ n16 (g 18) (g 19) = n16 (g 9) (g 8) + 1001 ∧
     g 24 = 0 ∧ g 25 = 1 ∧ n16 (g 26) (g 27) = 34 ∧ g 28 = 0x1C ∧ g 29 = 0 ∧ n16 (g 30) (g 31) = 0 ∧
     n16 (g 32) (g 33) = 1 ∧ n16 (g 34) (g 35) = 0 ∧ g 36 = 0 ∧ g 37 = 0 ∧ g 38 = 0 ∧ g 39 = 0 then
    some ⟨n16 (g 9) (g 8) + 1001, n16 (g 11) (g 10),
          (g 20).toNat + 256 * ((g 21).toNat + 256 * ((g 22).toNat + 256 * (g 23).toNat)),
          n16 (g 40) (g 41), n16 (g 42) (g 43), n16 (g 44) (g 45), n16 (g 46) (g 47)⟩
  else none

def expected (userId channel shareId : Nat) : Event → Parsed
  | .pointer x y b d => ⟨userId, channel, shareId, 0x8001, pointerFlags b d, x, y⟩
  | .key code d => ⟨userId, channel, shareId, 0x0004, keyFlags d, code, 0⟩

end Rdp.Spec.Input
