import RdpModel.Nla.Seal
/-
  MS-CSSP 3.1.5 (version 2): the server proves possession of the session key by returning
  the SubjectPublicKey it presented in TLS, plus one, protected by GSS_WrapEx of the
  negotiated NTLM session; the keys are the MS-NLMP 3.4.5.2 / 3.4.5.3 server-to-client
  SIGNKEY and SEALKEY of the exported session key.
-/
namespace Rdp.Spec.Cssp
open Rdp Rdp.Crypto Rdp.Spec.Nlmp

def constant (s : String) : Bytes := s.toUTF8.toList ++ [0]
def serverSigningKey (k : Bytes) : Bytes := md5 (k ++ constant "session key to server-to-client signing key magic constant")
def serverSealingKey (k : Bytes) : Bytes := md5 (k ++ constant "session key to server-to-client sealing key magic constant")

/-- `pka` is the first message sealed and signed by the server (any sequence number it
    names) and its content equals `spk + 1` as a little-endian number -/
def serverProof (k spk pka : Bytes) : Bool :=
  match Rc4.new (serverSealingKey k) with
  | .ok h =>
    if pka.length < 16 then false else
    let seq := leNat ((pka.drop 12).take 4)
    let pt := (h.process (pka.drop 16)).1
    decide (pka = (sealMsg h (serverSigningKey k) seq pt).1) && decide (leNat pt = leNat spk + 1)
  | _ => false

end Rdp.Spec.Cssp
