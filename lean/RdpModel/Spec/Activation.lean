/-
  Reference automaton for the client side of connection finalization / deactivation-
  reactivation (MS-RDPBCGR 1.3.1.1, 1.3.1.3), and a history predicate for the input
  window, written independently of the implementation's fold (right-to-left scan).
-/
namespace Rdp.Spec

/-- one server PDU in its own payload -/
inductive Letter where
  | da            -- demand active
  | sync          -- synchronize
  | coop          -- control (cooperate)
  | granted       -- control (granted control)
  | ctrlOther     -- control with another action
  | fontmap       -- font map
  | errinfo       -- set error info
  | unknownData   -- a data PDU of a type the client does not parse
  | deact         -- deactivate all
  | fpBitmap (rects : Nat)   -- fast-path bitmap update with that many rectangles
  | fpOther       -- fast-path pointer / synchronize / unknown update
deriving Repr, DecidableEq

inductive RState where
  | awaiting
  | finalizing (k : Nat)     -- k of [sync, coop, granted, fontmap] accepted so far
  | active
deriving Repr, DecidableEq

inductive Reaction where
  | nothing
  | activate                 -- confirm-active followed by the four finalization PDUs
  | deliver (rects : Nat)    -- that many bitmap callbacks
deriving Repr, DecidableEq

def rstep : RState → Letter → RState × Reaction
  | .awaiting, .da => (.finalizing 0, .activate)
  | .finalizing 0, .sync => (.finalizing 1, .nothing)
  | .finalizing 1, .coop => (.finalizing 2, .nothing)
  | .finalizing 2, .granted => (.finalizing 3, .nothing)
  | .finalizing 3, .fontmap => (.active, .nothing)
  | .active, .deact => (.awaiting, .nothing)
  | .active, .fpBitmap n => (.active, .deliver n)
  | s, _ => (s, .nothing)

def rrun : RState → List Letter → RState
  | s, [] => s
  | s, l :: ls => rrun (rstep s l).1 ls

/-- progress of a finalization, scanning the history *backwards* from its end:
    `suffixProgress h` = `some k` when, reading from the end, we meet `k` accepted
    finalization PDUs in reverse order and then the demand-active that started them. -/
def expectedAt : Nat → Letter
  | 0 => .sync
  | 1 => .coop
  | 2 => .granted
  | _ => .fontmap

/-- input is accepted after history `h` iff the reference automaton is active -/
def inputWindow (h : List Letter) : Bool := rrun .awaiting h == .active

end Rdp.Spec
