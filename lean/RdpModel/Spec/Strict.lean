import RdpModel.Base.Bytes
/-
  Strict reference decoders for everything the client emits, written from the documents
  (T.123 TPKT, X.224 class 0, T.125 MCS with ALIGNED PER / BER connect-initial, T.124 GCC
  conference-create request, MS-RDPBCGR client data blocks, info packet, share headers,
  capability sets, input PDU; MS-NLMP messages; MS-CSSP TSRequest in DER).  Every length and
  count field must equal the size or number of what it describes, fixed-size fields have
  their size, strings are terminated, and nothing may follow a PDU inside its frame.
  Independent of the model: shares only `Bytes` helpers.
-/
namespace Rdp.Spec.Strict
open Rdp

abbrev R := Except String

def need (c : Bool) (msg : String) : R Unit := if c then .ok () else .error msg

def takeN (n : Nat) (b : Bytes) (what : String) : R (Bytes × Bytes) :=
  if b.length < n then .error ("truncated " ++ what) else .ok (b.take n, b.drop n)
def u8 (b : Bytes) (what : String) : R (Nat × Bytes) := do
  let (x, r) ← takeN 1 b what; pure (leNat x, r)
def u16 (b : Bytes) (what : String) : R (Nat × Bytes) := do
  let (x, r) ← takeN 2 b what; pure (leNat x, r)
def u32 (b : Bytes) (what : String) : R (Nat × Bytes) := do
  let (x, r) ← takeN 4 b what; pure (leNat x, r)
def b16 (b : Bytes) (what : String) : R (Nat × Bytes) := do
  let (x, r) ← takeN 2 b what; pure (leNat x.reverse, r)

/-- PER length determinant as RDP uses it: one byte below 128, otherwise two bytes carrying
    15 bits with the top bit set (X.691 proper stops at 14 bits and fragments above; every
    RDP implementation writes `length | 0x8000`, so that is what is accepted here) -/
def perLen (b : Bytes) : R (Nat × Bytes) := do
  let (x, r) ← u8 b "PER length"
  if x < 0x80 then pure (x, r) else do
    let (y, r2) ← u8 r "PER length"
    pure ((x - 0x80) * 256 + y, r2)

/-- DER length: definite, minimal -/
def derLen (b : Bytes) : R (Nat × Bytes) := do
  let (x, r) ← u8 b "DER length"
  if x < 0x80 then pure (x, r) else do
    let k := x - 0x80
    need (k ≥ 1 ∧ k ≤ 4) "DER length: bad long form"
    let (v, r2) ← takeN k r "DER length"
    let n := leNat v.reverse
    need (v.head? ≠ some 0) "DER length: leading zero"
    need (n ≥ 0x80) "DER length: long form for a short length"
    pure (n, r2)

/-- one DER TLV with the expected tag: (content, rest) -/
def tlv (tag : Nat) (b : Bytes) (what : String) : R (Bytes × Bytes) := do
  let (t, r) ← u8 b what
  need (t = tag) (what ++ ": unexpected tag")
  let (n, r2) ← derLen r
  takeN n r2 what

def derInt (b : Bytes) (what : String) : R (Nat × Bytes) := do
  let (c, r) ← tlv 0x02 b what
  need (c.length ≥ 1) (what ++ ": empty INTEGER")
  let b0 := (c.getD 0 0).toNat
  let b1 := (c.getD 1 0).toNat
  need (b0 < 0x80) (what ++ ": negative INTEGER")
  need (c.length = 1 ∨ ¬ (b0 = 0 ∧ b1 < 0x80)) (what ++ ": non-minimal INTEGER")
  pure (leNat c.reverse, r)

/-- UTF-16LE string of `cb` bytes followed by a mandatory null terminator (not counted) -/
def cbString (cb : Nat) (b : Bytes) (what : String) : R Bytes := do
  need (cb % 2 = 0) (what ++ ": odd byte count")
  let (_, r) ← takeN cb b what
  let (t, r2) ← takeN 2 r (what ++ " terminator")
  need (t = [0, 0]) (what ++ ": missing null terminator")
  pure r2

/-- string whose count includes the terminator -/
def cbStringIncl (cb : Nat) (b : Bytes) (what : String) : R Bytes := do
  need (cb % 2 = 0 ∧ cb ≥ 2) (what ++ ": count must include the null terminator")
  let (s, r) ← takeN cb b what
  need (s.drop (cb - 2) = [0, 0]) (what ++ ": missing null terminator")
  pure r

def hasNulUnit : Bytes → Bool
  | a :: b :: rest => (a = 0 && b = 0) || hasNulUnit rest
  | _ => false

/-! ### MS-RDPBCGR client data blocks -/

def csCore (b : Bytes) : R Unit := do
  let (ver, r) ← u32 b "core.version"
  need (ver = 0x00080001 ∨ ver = 0x00080004 ∨ ver ≥ 0x00080005) "core.version"
  let (w, r) ← u16 r "desktopWidth"; need (w ≥ 1) "desktopWidth"
  let (h, r) ← u16 r "desktopHeight"; need (h ≥ 1) "desktopHeight"
  let (cd, r) ← u16 r "colorDepth"; need (cd = 0xCA00 ∨ cd = 0xCA01) "colorDepth"
  let (sas, r) ← u16 r "SASSequence"; need (sas = 0xAA03) "SASSequence"
  let (_, r) ← u32 r "keyboardLayout"
  let (_, r) ← u32 r "clientBuild"
  let (name, r) ← takeN 32 r "clientName"
  need (hasNulUnit name) "clientName: not null-terminated within 32 bytes"
  let (_, r) ← u32 r "keyboardType"
  let (_, r) ← u32 r "keyboardSubType"
  let (_, r) ← u32 r "keyboardFunctionKey"
  let (_, r) ← takeN 64 r "imeFileName"
  -- optional tail, in order; the block may stop after any complete field
  let sizes := [2, 2, 4, 2, 2, 2, 64, 1, 1, 4, 4, 4, 2, 4, 4]
  let rec tail : List Nat → Nat → Bool
    | _, 0 => true
    | [], _ => false
    | s :: ss, n => if n < s then false else tail ss (n - s)
  need (tail sizes r.length) "core: optional fields cut inside a field"

def csSecurity (b : Bytes) : R Unit := do
  let (_, r) ← u32 b "encryptionMethods"
  let (_, r) ← u32 r "extEncryptionMethods"
  need (r = []) "security block: trailing bytes"

def csNet (b : Bytes) : R Unit := do
  let (n, r) ← u32 b "channelCount"
  need (n ≤ 31) "channelCount > 31"
  need (r.length = 12 * n) "channelDefArray size ≠ 12 × channelCount"

/-- the sequence of data blocks (`fuel` bounds the number of blocks: each has ≥ 4 bytes) -/
def blocksF : Nat → Bytes → List Nat → R Unit
  | 0, _, _ => .error "blocks: fuel"
  | fuel + 1, b, seen =>
    if b = [] then need (0xC001 ∈ seen) "no core block" else do
      let (ty, r) ← u16 b "block type"
      let (len, r) ← u16 r "block length"
      need (len ≥ 4) "block length < 4"
      let (body, rest) ← takeN (len - 4) r "block body"
      need (ty ∉ seen) "duplicate block"
      need (seen ≠ [] ∨ ty = 0xC001) "core block must come first"
      (if ty = 0xC001 then csCore body else if ty = 0xC002 then csSecurity body
       else if ty = 0xC003 then csNet body else .ok ())
      blocksF fuel rest (ty :: seen)

def blocks (b : Bytes) (seen : List Nat) : R Unit := blocksF (b.length / 4 + 2) b seen

/-- T.124 ConnectData / ConferenceCreateRequest as used by RDP -/
def gccCreateRequest (b : Bytes) : R Unit := do
  let (hd, r) ← takeN 7 b "GCC key"
  need (hd = [0x00, 0x05, 0x00, 0x14, 0x7c, 0x00, 0x01]) "GCC: not the T.124 object key"
  let (n, r) ← perLen r
  need (n = r.length) "GCC connectPDU length ≠ size"
  let (fx, r) ← takeN 12 r "conference create request"
  need (fx = [0x00, 0x08, 0x00, 0x10, 0x00, 0x01, 0xc0, 0x00, 0x44, 0x75, 0x63, 0x61]) "GCC: conference-create-request preamble"
  let (m, r) ← perLen r
  need (m = r.length) "GCC user data length ≠ size"
  blocks r []

def domainParams (b : Bytes) (what : String) : R Bytes := do
  let (c, rest) ← tlv 0x30 b what
  let rec go : Nat → Bytes → R Unit
    | 0, c => need (c = []) (what ++ ": more than 8 integers")
    | n + 1, c => do let (_, r) ← derInt c what; go n r
  go 8 c
  pure rest

def connectInitial (b : Bytes) : R Unit := do
  let (t, r) ← takeN 2 b "connect-initial tag"
  need (t = [0x7f, 0x65]) "connect-initial tag"
  let (n, r) ← derLen r
  need (n = r.length) "connect-initial length ≠ size"
  let (_, r) ← tlv 0x04 r "callingDomainSelector"
  let (_, r) ← tlv 0x04 r "calledDomainSelector"
  let (f, r) ← tlv 0x01 r "upwardFlag"
  need (f.length = 1) "upwardFlag size"
  let r ← domainParams r "targetParameters"
  let r ← domainParams r "minimumParameters"
  let r ← domainParams r "maximumParameters"
  let (ud, r) ← tlv 0x04 r "userData"
  need (r = []) "connect-initial: trailing bytes"
  gccCreateRequest ud

/-! ### share level -/

def capSizes : List (Nat × List Nat) :=
  [(1, [24]), (2, [28, 30]), (3, [88]), (4, [40]), (5, [12]), (7, [12]), (8, [8, 10]), (9, [8]), (10, [8]),
   (12, [8]), (13, [88]), (14, [4]), (15, [8]), (16, [52]), (17, [12]), (20, [8, 12]), (26, [8])]

def capSets : Nat → Bytes → R Unit
  | 0, b => need (b = []) "capability sets: bytes after the announced number"
  | n + 1, b => do
    let (ty, r) ← u16 b "capabilitySetType"
    let (len, r) ← u16 r "lengthCapability"
    need (len ≥ 4) "lengthCapability < 4"
    let (_, rest) ← takeN (len - 4) r "capabilityData"
    (match capSizes.lookup ty with
     | some ls => need (len ∈ ls) ("capability " ++ toString ty ++ ": size " ++ toString len)
     | none => .ok ())
    capSets n rest

def confirmActive (b : Bytes) : R Unit := do
  let (_, r) ← u32 b "shareId"
  let (orig, r) ← u16 r "originatorId"; need (orig = 0x03EA) "originatorId"
  let (lsd, r) ← u16 r "lengthSourceDescriptor"
  let (lcc, r) ← u16 r "lengthCombinedCapabilities"
  let (_, r) ← takeN lsd r "sourceDescriptor"
  need (lcc = r.length) "lengthCombinedCapabilities ≠ size"
  let (n, r) ← u16 r "numberCapabilities"
  let (_, r) ← u16 r "pad2Octets"
  capSets n r

def inputEvents : Nat → Bytes → R Unit
  | 0, b => need (b = []) "input: bytes after the announced events"
  | n + 1, b => do
    let (_, r) ← u32 b "eventTime"
    let (mt, r) ← u16 r "messageType"
    need (mt ∈ [0, 2, 4, 5, 0x8001, 0x8002]) "input messageType"
    let (_, r) ← takeN 6 r "slowPathInputData"
    inputEvents n r

def dataPdu (total : Nat) (b : Bytes) : R Unit := do
  let (_, r) ← u32 b "shareId"
  let (_, r) ← u8 r "pad1"
  let (sid, r) ← u8 r "streamId"; need (sid ≥ 1 ∧ sid ≤ 4) "streamId"
  let (ul, r) ← u16 r "uncompressedLength"
  let (t2, r) ← u8 r "pduType2"
  let (ct, r) ← u8 r "compressedType"; need (ct = 0) "compressedType"
  let (cl, r) ← u16 r "compressedLength"; need (cl = 0) "compressedLength"
  -- the documents disagree on what is counted; the three usual readings are accepted
  need (ul = r.length ∨ ul = r.length + 12 ∨ ul = total) "uncompressedLength matches no reading of the size"
  if t2 = 0x1F then do
    let (mt, r) ← u16 r "sync messageType"; need (mt = 1) "sync messageType"
    let (_, r) ← u16 r "targetUser"; need (r = []) "synchronize: trailing bytes"
  else if t2 = 0x14 then do
    let (a, r) ← u16 r "action"; need (a ≥ 1 ∧ a ≤ 4) "control action"
    let (_, r) ← u16 r "grantId"; let (_, r) ← u32 r "controlId"; need (r = []) "control: trailing bytes"
  else if t2 = 0x27 then do
    let (_, r) ← u16 r "numberFonts"; let (_, r) ← u16 r "totalNumFonts"
    let (lf, r) ← u16 r "listFlags"; need (lf = 3) "listFlags"
    let (es, r) ← u16 r "entrySize"; need (es = 0x32) "entrySize"; need (r = []) "font list: trailing bytes"
  else if t2 = 0x1C then do
    let (n, r) ← u16 r "numEvents"; let (_, r) ← u16 r "pad2Octets"
    inputEvents n r
  else .error ("unexpected pduType2 " ++ toString t2)

def shareControl (initiator : Nat) (b : Bytes) : R Unit := do
  let (tl, r) ← u16 b "totalLength"
  need (tl = b.length) "totalLength ≠ size"
  let (pt, r) ← u16 r "pduType"
  let (src, r) ← u16 r "pduSource"
  need (src = initiator) "pduSource ≠ MCS initiator"
  if pt = 0x13 then confirmActive r
  else if pt = 0x17 then dataPdu tl r
  else .error ("unexpected pduType " ++ toString pt)

def extendedInfo (b : Bytes) : R Unit := do
  let (af, r) ← u16 b "clientAddressFamily"; need (af = 2 ∨ af = 0x17) "clientAddressFamily"
  let (ca, r) ← u16 r "cbClientAddress"
  let r ← cbStringIncl ca r "clientAddress"
  let (cd, r) ← u16 r "cbClientDir"
  let r ← cbStringIncl cd r "clientDir"
  let (_, r) ← takeN 172 r "clientTimeZone"
  let (_, r) ← u32 r "clientSessionId"
  let (_, r) ← u32 r "performanceFlags"
  need (r = [] ∨ r.length ≥ 2) "extended info: trailing byte"

def clientInfo (b : Bytes) : R Unit := do
  let (_, r) ← u32 b "codePage"
  let (fl, r) ← u32 r "flags"
  need (fl / 0x10 % 2 = 1) "INFO_UNICODE not set"
  let (cbD, r) ← u16 r "cbDomain"
  let (cbU, r) ← u16 r "cbUserName"
  let (cbP, r) ← u16 r "cbPassword"
  let (cbA, r) ← u16 r "cbAlternateShell"
  let (cbW, r) ← u16 r "cbWorkingDir"
  let r ← cbString cbD r "Domain"
  let r ← cbString cbU r "UserName"
  let r ← cbString cbP r "Password"
  let r ← cbString cbA r "AlternateShell"
  let r ← cbString cbW r "WorkingDir"
  if r = [] then .ok () else extendedInfo r

def sdrqUserData (initiator : Nat) (d : Bytes) : R Unit :=
  if d.take 4 = [0x40, 0, 0, 0] then clientInfo (d.drop 4) else shareControl initiator d

/-! ### MCS, X.224, TPKT -/

def mcsPdu (p : Bytes) : R Unit :=
  match p with
  | [] => .error "empty MCS PDU"
  | t :: r =>
    if t = 0x7f then connectInitial p
    else if t = 0x04 then
      need (r.length = 4 ∧ r.getD 0 0 = 1 ∧ r.getD 2 0 = 1) "erect-domain-request: not two one-byte PER integers and nothing else"
    else if t = 0x28 then need (r = []) "attach-user-request: trailing bytes"
    else if t = 0x38 then need (r.length = 4) "channel-join-request: size"
    else if t = 0x64 then do
      let (ini, r) ← b16 r "initiator"
      let (_, r) ← b16 r "channelId"
      let (pr, r) ← u8 r "priority/segmentation"; need (pr = 0x70) "dataPriority/segmentation"
      let (n, r) ← perLen r
      need (n = r.length) "send-data-request length ≠ size"
      sdrqUserData (ini + 1001) r
    else if t = 0x21 then need (r = [0x80]) "disconnect-provider-ultimatum: must be exactly two bytes"
    else .error "unknown MCS PDU"

def negReq (b : Bytes) : R Unit := do
  let (ty, r) ← u8 b "rdpNegReq.type"; need (ty = 1) "rdpNegReq.type"
  let (fl, r) ← u8 r "rdpNegReq.flags"; need (fl < 16) "rdpNegReq.flags"
  let (ln, r) ← u16 r "rdpNegReq.length"; need (ln = 8) "rdpNegReq.length"
  let (pr, r) ← u32 r "requestedProtocols"; need (pr < 16) "requestedProtocols"
  need (r = []) "rdpNegReq: trailing bytes"

def frame (f : Bytes) : R Unit := do
  let (h, r) ← takeN 4 f "TPKT header"
  need (h.take 2 = [3, 0]) "TPKT version/reserved"
  need (leNat (h.drop 2).reverse = f.length) "TPKT length ≠ size"
  match r with
  | li :: 0xE0 :: rest => do
    need (li.toNat = rest.length + 1) "X.224 length indicator ≠ size"
    let (fx, rest) ← takeN 5 rest "X.224 CR fixed part"
    need (fx.take 2 = [0, 0]) "X.224 CR DST-REF"
    need (fx.drop 4 = [0]) "X.224 CR class"
    negReq rest
  | 2 :: 0xF0 :: 0x80 :: p => mcsPdu p
  | _ => .error "X.224: neither CR nor DT"

/-! ### MS-NLMP, MS-CSSP -/

def ntlmField (tok : Bytes) (o minOff : Nat) (what : String) : R Unit := do
  let len := leNat ((tok.drop o).take 2)
  let mx := leNat ((tok.drop (o + 2)).take 2)
  let off := leNat ((tok.drop (o + 4)).take 4)
  need (len = mx) (what ++ ": Len ≠ MaxLen")
  need (len = 0 ∨ (off ≥ minOff ∧ off + len ≤ tok.length)) (what ++ ": buffer outside the message")

def ntlmToken (tok : Bytes) : R Unit := do
  need (tok.take 8 = [0x4e, 0x54, 0x4c, 0x4d, 0x53, 0x53, 0x50, 0x00]) "NTLM signature"
  let (ty, _) ← u32 (tok.drop 8) "MessageType"
  if ty = 1 then do
    need (tok.length ≥ 32) "NEGOTIATE: truncated"
    let fl := leNat ((tok.drop 12).take 4)
    let hdr := if fl / 0x02000000 % 2 = 1 then 40 else 32
    need (tok.length ≥ hdr) "NEGOTIATE: version announced but absent"
    ntlmField tok 16 hdr "DomainNameFields"
    ntlmField tok 24 hdr "WorkstationFields"
  else if ty = 3 then do
    need (tok.length ≥ 64) "AUTHENTICATE: truncated"
    let fl := leNat ((tok.drop 60).take 4)
    let hdr := (if fl / 0x02000000 % 2 = 1 then 72 else 64) + 16
    need (tok.length ≥ hdr) "AUTHENTICATE: header"
    ntlmField tok 12 hdr "LmChallengeResponseFields"
    ntlmField tok 20 hdr "NtChallengeResponseFields"
    ntlmField tok 28 hdr "DomainNameFields"
    ntlmField tok 36 hdr "UserNameFields"
    ntlmField tok 44 hdr "WorkstationFields"
    ntlmField tok 52 hdr "EncryptedRandomSessionKeyFields"
  else .error "NTLM MessageType"

/-- `minVersion`: 2 for what the client emits; 0 when only the ENCODING of a server reply is
    judged (the client does not interpret the version number) -/
def tsRequestV (minVersion : Nat) (b : Bytes) : R Unit := do
  let (c, r) ← tlv 0x30 b "TSRequest"
  need (r = []) "TSRequest: trailing bytes"
  let (v, c) ← tlv 0xa0 c "version"
  let (vn, vr) ← derInt v "version"; need (vr = [] ∧ vn ≥ minVersion) "version"
  let (c) ← (match c with
    | 0xa1 :: _ => do
      let (nt, c') ← tlv 0xa1 c "negoTokens"
      let (s1, e1) ← tlv 0x30 nt "negoTokens SEQUENCE OF"; need (e1 = []) "negoTokens"
      let (s2, e2) ← tlv 0x30 s1 "NegoData"; need (e2 = []) "more than one token"
      let (s3, e3) ← tlv 0xa0 s2 "negoToken"; need (e3 = []) "negoToken"
      let (tok, e4) ← tlv 0x04 s3 "negoToken OCTET STRING"; need (e4 = []) "negoToken"
      ntlmToken tok
      pure c'
    | _ => pure c)
  let (c) ← (match c with
    | 0xa2 :: _ => do let (ai, c') ← tlv 0xa2 c "authInfo"; let (_, e) ← tlv 0x04 ai "authInfo"; need (e = []) "authInfo"; pure c'
    | _ => pure c)
  let (c) ← (match c with
    | 0xa3 :: _ => do let (pk, c') ← tlv 0xa3 c "pubKeyAuth"; let (x, e) ← tlv 0x04 pk "pubKeyAuth"; need (e = [] ∧ x.length ≥ 16) "pubKeyAuth"; pure c'
    | _ => pure c)
  need (c = []) "TSRequest: unexpected or misordered field"

def tsRequest (b : Bytes) : R Unit := tsRequestV 2 b

def verdict (r : R Unit) : String := match r with | .ok _ => "ok" | .error e => "bad:" ++ e.replace " " "_"

end Rdp.Spec.Strict
