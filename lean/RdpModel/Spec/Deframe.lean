import RdpModel.Base.Bytes
/-
  Independent specification of RDP framing (T.123 TPKT and MS-RDPBCGR 2.2.9.1.2 fast-path),
  written from the documents, not from the implementation.
-/
namespace Rdp.Spec

inductive Frame where
  /-- TPKT: 03 00 len_be16 payload, len = |payload| + 4 -/
  | slow (reserved : UInt8) (payload : Bytes)
  /-- fast-path, one-byte length: action len payload, len = |payload| + 2 ≤ 0x7f -/
  | fastShort (action : UInt8) (payload : Bytes)
  /-- fast-path, two-byte length: action (0x80|hi) lo payload, len = |payload| + 3 ≤ 0x7fff -/
  | fastLong (action : UInt8) (payload : Bytes)
deriving Repr, DecidableEq

def Frame.WF : Frame → Prop
  | .slow _ p => p.length + 4 ≤ 65535
  | .fastShort a p => a ≠ 3 ∧ p.length + 2 ≤ 0x7f
  | .fastLong a p => a ≠ 3 ∧ p.length + 3 ≤ 0x7fff

instance (f : Frame) : Decidable f.WF := by
  cases f <;> unfold Frame.WF <;> infer_instance

def Frame.encode : Frame → Bytes
  | .slow r p =>
    [3, r, UInt8.ofNat ((p.length + 4) / 256), UInt8.ofNat ((p.length + 4) % 256)] ++ p
  | .fastShort a p => [a, UInt8.ofNat (p.length + 2)] ++ p
  | .fastLong a p =>
    [a, UInt8.ofNat (0x80 + (p.length + 3) / 256), UInt8.ofNat ((p.length + 3) % 256)] ++ p

/-- security flags are the two top bits of the fast-path header byte -/
def secFlags (a : UInt8) : Nat := a.toNat / 64

/-- reference deframer on a complete buffer -/
def deframe : Bytes → Option (Frame × Bytes)
  | a :: b :: rest =>
    if a = 3 then
      match rest with
      | hi :: lo :: body =>
        let len := hi.toNat * 256 + lo.toNat
        if len < 4 ∨ body.length < len - 4 then none
        else some (.slow b (body.take (len - 4)), body.drop (len - 4))
      | _ => none
    else if b.toNat < 128 then
      if b.toNat < 2 ∨ rest.length < b.toNat - 2 then none
      else some (.fastShort a (rest.take (b.toNat - 2)), rest.drop (b.toNat - 2))
    else
      match rest with
      | lo :: body =>
        let len := (b.toNat - 128) * 256 + lo.toNat
        if len < 3 ∨ body.length < len - 3 then none
        else some (.fastLong a (body.take (len - 3)), body.drop (len - 3))
      | _ => none
  | _ => none

end Rdp.Spec
