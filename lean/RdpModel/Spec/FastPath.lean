import RdpModel.Base.Bytes
/-
  Reference encoding/decoding of fast-path output updates carrying bitmap rectangles
  (MS-RDPBCGR 2.2.9.1.2.1 TS_FP_UPDATE, 2.2.9.1.1.3.1.2.1 TS_UPDATE_BITMAP_DATA,
  2.2.9.1.1.3.1.2.2 TS_BITMAP_DATA, 2.2.9.1.1.3.1.2.3 TS_CD_HEADER), for the negotiated
  case: no fragmentation, no bulk compression.  Written from the documents.
-/
namespace Rdp.Spec.FastPath
open Rdp

def le16 (v : Nat) : Bytes := encInt .le 2 v

structure Rect where
  left : Nat
  top : Nat
  right : Nat
  bottom : Nat
  width : Nat
  height : Nat
  bpp : Nat
  flags : Nat
  data : Bytes
deriving Repr, DecidableEq

/-- BITMAP_COMPRESSION 0x0001 set and NO_BITMAP_COMPRESSION_HDR 0x0400 clear -/
def Rect.hasHdr (r : Rect) : Bool := r.flags &&& 0x0001 ≠ 0 ∧ r.flags &&& 0x0400 = 0

def Rect.encode (r : Rect) : Bytes :=
  le16 r.left ++ le16 r.top ++ le16 r.right ++ le16 r.bottom ++ le16 r.width ++ le16 r.height ++
  le16 r.bpp ++ le16 r.flags ++
  (if r.hasHdr then le16 (r.data.length + 8) ++ (le16 0 ++ le16 r.data.length ++ le16 0 ++ le16 0)
   else le16 r.data.length) ++ r.data

inductive Update where
  /-- FASTPATH_UPDATETYPE_BITMAP (1) -/
  | bitmap (rects : List Rect)
  /-- any other update code with its data (pointer, synchronize, palette, orders, …) -/
  | other (code : Nat) (data : Bytes)
deriving Repr

def Update.body : Update → Bytes
  | .bitmap rects => le16 1 ++ le16 rects.length ++ (rects.map Rect.encode).flatten
  | .other _ d => d

def Update.code : Update → Nat
  | .bitmap _ => 1
  | .other c _ => c

/-- updateHeader (code in the low nibble, fragmentation = compression = 0), size, data -/
def Update.encode (u : Update) : Bytes :=
  [UInt8.ofNat u.code] ++ le16 u.body.length ++ u.body

def encodePdu (us : List Update) : Bytes := (us.map Update.encode).flatten

/-- what must reach the application: the rectangles of the bitmap updates, in wire order -/
def rectsOf : List Update → List Rect
  | [] => []
  | .bitmap rs :: us => rs ++ rectsOf us
  | .other _ _ :: us => rectsOf us

/-! reference decoder (used as the oracle on arbitrary server bytes) -/

def rd16 (b : Bytes) : Option (Nat × Bytes) :=
  match b with
  | lo :: hi :: r => some (lo.toNat + 256 * hi.toNat, r)
  | _ => none

def decodeRect (b : Bytes) : Option (Rect × Bytes) := do
  let (l, b) ← rd16 b; let (t, b) ← rd16 b; let (r, b) ← rd16 b; let (bo, b) ← rd16 b
  let (w, b) ← rd16 b; let (h, b) ← rd16 b; let (bpp, b) ← rd16 b; let (fl, b) ← rd16 b
  let (len, b) ← rd16 b
  if fl &&& 0x0001 ≠ 0 ∧ fl &&& 0x0400 = 0 then
    let (first, b) ← rd16 b; let (main, b) ← rd16 b; let (_, b) ← rd16 b; let (_, b) ← rd16 b
    if first ≠ 0 ∨ len ≠ main + 8 ∨ b.length < main then none
    else some (⟨l, t, r, bo, w, h, bpp, fl, b.take main⟩, b.drop main)
  else
    if b.length < len then none
    else some (⟨l, t, r, bo, w, h, bpp, fl, b.take len⟩, b.drop len)

def decodeRects : Nat → Bytes → Option (List Rect)
  | 0, b => if b.isEmpty then some [] else none
  | n+1, b => do
    let (r, b) ← decodeRect b
    let rs ← decodeRects n b
    pure (r :: rs)

/-- strict decoding of one PDU; `none` when the bytes are not a conformant encoding -/
def decodePdu : Nat → Bytes → Option (List Rect)
  | 0, _ => none
  | fuel+1, b =>
    match b with
    | [] => some []
    | hdr :: rest =>
      if hdr.toNat / 16 ≠ 0 then none else   -- fragmentation / compression not negotiated
      match rd16 rest with
      | none => none
      | some (size, rest) =>
        if rest.length < size then none else
        let body := rest.take size
        let tail := rest.drop size
        let mine : Option (List Rect) :=
          if hdr.toNat % 16 = 1 then
            match rd16 body with
            | some (ut, b1) =>
              if ut ≠ 1 then none else
              match rd16 b1 with
              | some (n, b2) => decodeRects n b2
              | none => none
            | none => none
          else some []
        match mine, decodePdu fuel tail with
        | some a, some bs => some (a ++ bs)
        | _, _ => none

end Rdp.Spec.FastPath
