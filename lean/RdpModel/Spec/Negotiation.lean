import RdpModel.Base.Bytes
/-
  MS-RDPBCGR 2.2.1.2 (X.224 Connection Confirm with RDP Negotiation Response) and the rule
  of 5.4.5 / 1.3.1.1: the server selects exactly one of the protocols the client requested.
-/
namespace Rdp.Spec.Negotiation
open Rdp

inductive Verdict where
  | refuse                 -- the client must fail the connection
  | tls (nla : Bool)       -- TLS must be established next (then CredSSP when nla)
  | raw                    -- standard RDP security may continue on the raw transport
deriving Repr, DecidableEq

/-- a well-formed confirm: LI=14, CC code 0xD0, dst/src/class, then type, flags, length=8,
    selectedProtocol (LE32) -/
def parseConfirm (p : Bytes) : Option (Nat × Nat) :=
  match p with
  | [li, code, _, _, _, _, _, ty, _fl, l0, l1, s0, s1, s2, s3] =>
    if li = 14 ∧ code = 0xD0 ∧ l0 = 8 ∧ l1 = 0 then
      some (ty.toNat, s0.toNat + 256 * (s1.toNat + 256 * (s2.toNat + 256 * s3.toNat)))
    else none
  | _ => none

/-- PROTOCOL_RDP 0, PROTOCOL_SSL 1, PROTOCOL_HYBRID 2, PROTOCOL_HYBRID_EX 8 (the client
    implements 0, 1, 2) -/
def verdict (offered : Nat) (hasAuth : Bool) (ty sel : Nat) : Verdict :=
  if ty ≠ 2 then .refuse                       -- failure, echoed request, unknown type
  else if sel = 0 then (if offered = 0 then .raw else .refuse)
  else if sel = 1 then (if offered &&& 1 ≠ 0 then .tls false else .refuse)
  else if sel = 2 then (if offered &&& 2 ≠ 0 ∧ hasAuth then .tls true else .refuse)
  else .refuse

end Rdp.Spec.Negotiation
