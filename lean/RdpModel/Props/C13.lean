import RdpModel.Lemmas.Tpkt
/-
  C13 — Inbound deframing is exact under arbitrary fragmentation.
  Property theorems only; helper lemmas are in Lemmas/Tpkt.lean.
-/
namespace Rdp
open Spec

/-- Every sequence of well-formed frames (TPKT with any length 4..65535, fast-path in
    its short and long forms, zero-length payloads included), followed by arbitrary
    further bytes `rest`, delivered under an arbitrary short-read schedule: `k = |fs|`
    successive reads return exactly the payloads, in order, with kind and security flags,
    and leave exactly `rest` in the transport — not one byte more is consumed. -/
theorem c13_exact (fs : List Frame) (hwf : ∀ f ∈ fs, f.WF) (rest : Bytes) (sched : List Nat)
    (acc : List Payload) :
    ∃ s', readN Tpkt.read fs.length ⟨(fs.map Frame.encode).flatten ++ rest, sched⟩ acc
        = (acc.reverse ++ fs.map payloadOf, .ok ⟨rest, s'⟩) := by
  induction fs generalizing sched acc with
  | nil => exact ⟨sched, by simp [readN]⟩
  | cons f fs ih =>
    have hf : f.WF := hwf f (by simp)
    obtain ⟨s1, h1⟩ := Tpkt.read_frame f hf ((fs.map Frame.encode).flatten ++ rest) sched
    obtain ⟨s2, h2⟩ := ih (fun g hg => hwf g (by simp [hg])) s1 (payloadOf f :: acc)
    refine ⟨s2, ?_⟩
    simp only [List.map_cons, List.flatten_cons, List.length_cons, List.append_assoc, readN]
    rw [h1]
    simp only
    rw [h2]
    simp

/-- The result does not depend on how the transport fragments the stream. -/
theorem c13_sched_independent (fs : List Frame) (hwf : ∀ f ∈ fs, f.WF) (rest : Bytes)
    (s₁ s₂ : List Nat) :
    (readN Tpkt.read fs.length ⟨(fs.map Frame.encode).flatten ++ rest, s₁⟩ []).1
      = (readN Tpkt.read fs.length ⟨(fs.map Frame.encode).flatten ++ rest, s₂⟩ []).1 := by
  obtain ⟨a, ha⟩ := c13_exact fs hwf rest s₁ []
  obtain ⟨b, hb⟩ := c13_exact fs hwf rest s₂ []
  rw [ha, hb]

/-- A TPKT header whose declared length is shorter than the header itself is rejected
    with an error, whatever follows and whatever the schedule. -/
theorem c13_short_rejected_slow (r hi lo : UInt8) (rest : Bytes) (sched : List Nat)
    (h : hi.toNat * 256 + lo.toNat < 4) :
    ∃ e, Tpkt.read ⟨[3, r, hi, lo] ++ rest, sched⟩ = .err e := by
  obtain ⟨s1, h1⟩ := Link.read_append' 2 [3, r] ([hi, lo] ++ rest) sched rfl (by decide)
  obtain ⟨s2, h2⟩ := Link.read_append' 2 [hi, lo] rest s1 rfl (by decide)
  refine ⟨"InvalidSize", ?_⟩
  unfold Tpkt.read
  have e : ([3, r, hi, lo] ++ rest) = [3, r] ++ ([hi, lo] ++ rest) := by simp
  rw [e, h1]
  simp only [Outcome.bind_ok, if_true]
  rw [h2]
  simp only [Outcome.bind_ok, beNat_pair, h, if_true]

theorem c13_short_rejected_fast (a len : UInt8) (rest : Bytes) (sched : List Nat)
    (ha : a ≠ 3) (h : len.toNat < 2) :
    ∃ e, Tpkt.read ⟨[a, len] ++ rest, sched⟩ = .err e := by
  obtain ⟨s1, h1⟩ := Link.read_append' 2 [a, len] rest sched rfl (by decide)
  refine ⟨"InvalidSize", ?_⟩
  unfold Tpkt.read
  rw [h1]
  simp only [Outcome.bind_ok, ha, if_false]
  have hand : ¬ (len.toNat &&& 0x80 ≠ 0) := by
    rw [and80_iff _ len.toNat_lt]; omega
  rw [if_neg hand, if_pos h]

theorem c13_short_rejected_fastLong (a b lo : UInt8) (rest : Bytes) (sched : List Nat)
    (ha : a ≠ 3) (hb : 128 ≤ b.toNat) (h : (b.toNat - 128) * 256 + lo.toNat < 3) :
    ∃ e, Tpkt.read ⟨[a, b, lo] ++ rest, sched⟩ = .err e := by
  obtain ⟨s1, h1⟩ := Link.read_append' 2 [a, b] ([lo] ++ rest) sched rfl (by decide)
  obtain ⟨s2, h2⟩ := Link.read_append' 1 [lo] rest s1 rfl (by decide)
  refine ⟨"InvalidSize", ?_⟩
  unfold Tpkt.read
  have e : ([a, b, lo] ++ rest) = [a, b] ++ ([lo] ++ rest) := by simp
  rw [e, h1]
  simp only [Outcome.bind_ok, ha, if_false]
  have hand : (b.toNat &&& 0x80 ≠ 0) := by
    rw [and80_iff _ b.toNat_lt]; exact hb
  rw [if_pos hand, h2]
  simp only [Outcome.bind_ok]
  have hb2 : b.toNat < 256 := b.toNat_lt
  have hlo : lo.toNat < 256 := lo.toNat_lt
  rw [and7f_mod _ hb2, shl8_or _ _ hlo]
  have : b.toNat % 128 * 256 + lo.toNat < 3 := long_len _ _ hb hb2 h
  rw [if_pos this]

/-- Reading is total: for every byte stream and schedule the read returns a payload or
    an error; it never panics or spins. -/
theorem c13_total (t : Transport) : (Tpkt.read t).NoPanic := by
  unfold Tpkt.read
  apply Outcome.NoPanic.bind (Link.read_noPanic 2 t)
  intro ⟨h, t1⟩ h1
  have hl := Link.read_len (by decide) h1
  match h, hl with
  | [action, second], _ =>
    simp only
    split
    · apply Outcome.NoPanic.bind (Link.read_noPanic 2 t1)
      intro ⟨s, t2⟩ _
      simp only
      split
      · simp
      · apply Outcome.NoPanic.bind (Tpkt.readBody_noPanic _ t2)
        intro ⟨b, t3⟩ _
        simp
    · split
      · apply Outcome.NoPanic.bind (Link.read_noPanic 1 t1)
        intro ⟨hi, t2⟩ h2
        have hl2 := Link.read_len (by decide) h2
        match hi, hl2 with
        | [x], _ =>
          simp only
          split
          · simp
          · apply Outcome.NoPanic.bind (Tpkt.readBody_noPanic _ t2)
            intro ⟨b, t3⟩ _
            simp
      · split
        · simp
        · apply Outcome.NoPanic.bind (Tpkt.readBody_noPanic _ t1)
          intro ⟨b, t3⟩ _
          simp

/-- The independent reference deframer inverts the reference framing (the specification
    used as the oracle in the correspondence check is itself coherent). -/
theorem c13_spec_deframe_encode (f : Frame) (hf : f.WF) (rest : Bytes) :
    deframe (f.encode ++ rest) = some (f, rest) := by
  cases f with
  | slow r p =>
    have hp : p.length + 4 ≤ 65535 := hf
    simp only [Frame.encode, List.cons_append, List.nil_append, deframe, if_true]
    rw [u8_ofNat_toNat _ (by omega), u8_ofNat_toNat _ (by omega)]
    have e : (p.length + 4) / 256 * 256 + (p.length + 4) % 256 = p.length + 4 := by omega
    simp [e]
  | fastShort a p =>
    obtain ⟨ha, hp⟩ := hf
    simp only [Frame.encode, List.cons_append, List.nil_append, deframe, ha, if_false]
    rw [u8_ofNat_toNat _ (by omega)]
    have : p.length + 2 < 128 := by omega
    simp [this]
  | fastLong a p =>
    obtain ⟨ha, hp⟩ := hf
    simp only [Frame.encode, List.cons_append, List.nil_append, deframe, ha, if_false]
    rw [u8_ofNat_toNat _ (by omega), u8_ofNat_toNat _ (by omega)]
    have h1 : ¬ (0x80 + (p.length + 3) / 256 < 128) := by omega
    have e : (p.length + 3) / 256 * 256 + (p.length + 3) % 256 = p.length + 3 := by omega
    simp [h1, e]

/-- non-vacuity: a concrete mixed sequence with an empty TPKT payload meets the hypotheses -/
example : ∀ f ∈ [Frame.slow 0 [], Frame.fastShort 0x80 [1, 2], Frame.fastLong 0 [], Frame.slow 0 [7]], f.WF := by
  decide

end Rdp
