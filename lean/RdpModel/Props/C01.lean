import RdpModel.Nla.Cssp
import RdpModel.Spec.CsspProof
import RdpModel.Props.C16
/-
  C01 — NLA releases credentials only after the server proves the session key.
  `csspConnect` is the model of `cssp_connect`; the two TSRequest decoders and the
  certificate parser are parameters of the environment, so the theorems hold for every
  decoder behaviour.  What "a party without the exported key cannot produce such a reply"
  means cryptographically is not claimed: the theorems are the decision logic.
-/
namespace Rdp.Nla
open Rdp Rdp.Crypto Rdp.Spec.Nlmp

theorem finalRound_release (r2 : Outcome Bytes) (creds : Bytes) (ctx1 : SecCtx) (spk w3 : Bytes)
    (h : (finalRound r2 creds ctx1 spk).2 = some w3) :
    ∃ pka pt, r2 = .ok pka ∧ (unwrap ctx1 pka).1 = .ok pt ∧ leNat pt = leNat spk + 1 := by
  unfold finalRound at h
  cases r2 with
  | err x => simp at h
  | panic p => simp at h
  | ok pka =>
    simp only at h
    cases h7 : unwrap ctx1 pka with
    | mk res ctx2 =>
      rw [h7] at h
      cases res with
      | err x => simp at h
      | panic p => simp at h
      | ok pt =>
        simp only at h
        by_cases hcmp : leNat pt = leNat spk + 1
        · exact ⟨pka, pt, rfl, by rw [h7], hcmp⟩
        · rw [if_pos hcmp] at h; simp at h

theorem finalRound_silent (r2 : Outcome Bytes) (creds : Bytes) (ctx1 : SecCtx) (spk : Bytes) :
    ((finalRound r2 creds ctx1 spk).1 = .ok () ↔ (finalRound r2 creds ctx1 spk).2.isSome) := by
  unfold finalRound
  cases r2 with
  | err x => simp
  | panic p => simp
  | ok pka =>
    simp only
    cases h7 : unwrap ctx1 pka with
    | mk res ctx2 =>
      cases res with
      | err x => simp
      | panic p => simp
      | ok pt =>
        simp only
        by_cases hcmp : leNat pt = leNat spk + 1
        · rw [if_neg (not_not_intro hcmp)]
          cases wrap ctx2 creds with
          | err x => simp
          | panic p => simp
          | ok v => simp
        · rw [if_pos hcmp]; simp

theorem firstRounds_error (e : CsspEnv) (r : Outcome Unit) (h : firstRounds e = .error r) : r ≠ .ok () := by
  unfold firstRounds at h
  repeat' split at h
  all_goals (first | (cases h; done) | (injection h with h; subst h; simp))

/-- **Release implies proof.**  If a third message — the sealed credentials — is written
    at all, then the first two rounds completed, the final reply decoded to a token that
    unseals with a verified checksum under the session's server-to-client keys, and the
    unsealed value equals the certificate key plus one. -/
theorem c01_release_implies_proof (e : CsspEnv) (h : (csspConnect e).2.length = 3) :
    ∃ s pka pt, firstRounds e = .ok s ∧ e.r2 = .ok pka ∧
      (unwrap s.ctx1 pka).1 = .ok pt ∧ leNat pt = leNat s.spk + 1 := by
  unfold csspConnect at h
  cases h1 : firstRounds e with
  | error r => rw [h1] at h; simp at h
  | ok s =>
    rw [h1] at h
    simp only at h
    cases h2 : (finalRound e.r2 (credentialBytes e (challengeUnicode s.chal)) s.ctx1 s.spk).2 with
    | none => rw [h2] at h; simp at h
    | some w3 =>
      obtain ⟨pka, pt, a, b, c⟩ := finalRound_release _ _ _ _ _ h2
      exact ⟨s, pka, pt, rfl, a, b, c⟩

/-- **Otherwise silent.**  The link sees one, two or three writes; the third exists exactly
    when the call succeeds.  So on every failing path — undecodable reply, bad checksum,
    wrong value — nothing is written after the reply was read. -/
theorem c01_otherwise_silent (e : CsspEnv) :
    ((csspConnect e).1 = .ok () ↔ (csspConnect e).2.length = 3) ∧
    ((csspConnect e).1 ≠ .ok () → (csspConnect e).2.length ≤ 2) := by
  unfold csspConnect
  cases h1 : firstRounds e with
  | error r =>
    simp only [List.length_cons, List.length_nil]
    have hr : r ≠ .ok () := firstRounds_error e r h1
    exact ⟨⟨fun h => absurd h hr, fun h => by omega⟩, fun _ => by omega⟩
  | ok s =>
    simp only
    have := finalRound_silent e.r2 (credentialBytes e (challengeUnicode s.chal)) s.ctx1 s.spk
    cases h2 : (finalRound e.r2 (credentialBytes e (challengeUnicode s.chal)) s.ctx1 s.spk).2 with
    | none => rw [h2] at this; simp at this; simp [this]
    | some w3 => rw [h2] at this; simp at this; simp [this]

/-- **Order.**  The first two writes are fixed before the final reply is read: they are the
    same whatever the reply is.  Together with `c01_otherwise_silent` the credentials write
    is the last event and follows the reply. -/
theorem c01_order (e : CsspEnv) (r2' : Outcome Bytes) :
    (csspConnect e).2.take 2 = (csspConnect { e with r2 := r2' }).2.take 2 := by
  have hfr : firstRounds { e with r2 := r2' } = firstRounds e := by simp only [firstRounds]
  unfold csspConnect
  rw [hfr]
  cases firstRounds e with
  | error r => rfl
  | ok s => simp

/-! ### the accepted reply is the MS-CSSP server proof -/

theorem split16 (t : Bytes) (h : 16 ≤ t.length) :
    t = t.take 4 ++ (t.drop 4).take 8 ++ (t.drop 12).take 4 ++ t.drop 16 := by
  have e1 : t = t.take 4 ++ t.drop 4 := (List.take_append_drop 4 t).symm
  have e2 : t.drop 4 = (t.drop 4).take 8 ++ (t.drop 4).drop 8 := (List.take_append_drop 8 _).symm
  have e3 : t.drop 12 = (t.drop 12).take 4 ++ (t.drop 12).drop 4 := (List.take_append_drop 4 _).symm
  have d1 : (t.drop 4).drop 8 = t.drop 12 := by rw [List.drop_drop]
  have d2 : (t.drop 12).drop 4 = t.drop 16 := by rw [List.drop_drop]
  rw [d1] at e2; rw [d2] at e3
  calc t = t.take 4 ++ t.drop 4 := e1
    _ = t.take 4 ++ ((t.drop 4).take 8 ++ t.drop 12) := by rw [← e2]
    _ = t.take 4 ++ ((t.drop 4).take 8 ++ ((t.drop 12).take 4 ++ t.drop 16)) := by rw [← e3]
    _ = _ := by simp [List.append_assoc]

/-- A token the client's `gss_unwrapex` accepts is exactly MS-NLMP SEAL + SIGN of the
    returned plaintext under the context's receive handle and verification key, for the
    sequence number the token names. -/
theorem unwrap_ok_is_sealed (c : SecCtx) (t pt : Bytes) (h : (unwrap c t).1 = .ok pt) :
    16 ≤ t.length ∧ pt = (c.decrypt.process (t.drop 16)).1 ∧
    t = (sealMsg c.decrypt c.verifyKey (leNat ((t.drop 12).take 4)) pt).1 := by
  unfold unwrap at h
  by_cases hl : t.length < 16
  · rw [if_pos hl] at h; cases h
  rw [if_neg hl] at h
  by_cases h4 : t.take 4 ≠ [1, 0, 0, 0]
  · rw [if_pos h4] at h; cases h
  rw [if_neg h4] at h
  have h4' : t.take 4 = [1, 0, 0, 0] := Decidable.of_not_not h4
  simp only at h
  by_cases hc : ((c.decrypt.process (t.drop 16)).2.process ((t.drop 4).take 8)).1 ≠
      (hmacMd5 c.verifyKey ((t.drop 12).take 4 ++ (c.decrypt.process (t.drop 16)).1)).take 8
  · rw [if_pos hc] at h; cases h
  rw [if_neg hc] at h
  have hc' := Decidable.of_not_not hc
  injection h with hpt
  have hlen : 16 ≤ t.length := by omega
  refine ⟨hlen, hpt.symm, ?_⟩
  have hseq : ((t.drop 12).take 4).length = 4 := by simp; omega
  have hrt := process_roundtrip c.decrypt (t.drop 16)
  unfold sealMsg
  simp only
  rw [← hpt, hrt.1, hrt.2]
  have henc : encInt .le 4 (leNat ((t.drop 12).take 4)) = (t.drop 12).take 4 := by
    have := leBytes_leNat ((t.drop 12).take 4)
    rw [hseq] at this
    simpa [encInt] using this
  rw [henc, ← hc']
  rw [(process_roundtrip (c.decrypt.process (t.drop 16)).2 ((t.drop 4).take 8)).1]
  have h1 : encInt .le 4 1 = [1, 0, 0, 0] := by simp [encInt, leBytes]
  rw [h1, ← h4']
  exact split16 t hlen

/-- the context of `firstRounds` receives with the MS-NLMP server-to-client keys of the
    exported session key -/
theorem firstRounds_keys (e : CsspEnv) (s : CsspSession) (h : firstRounds e = .ok s) :
    Rc4.new (Spec.Cssp.serverSealingKey e.ntlm.exportedKey) = .ok s.ctx1.decrypt ∧
    s.ctx1.verifyKey = Spec.Cssp.serverSigningKey e.ntlm.exportedKey := by
  unfold firstRounds at h
  cases h1 : e.r1 with
  | err x => rw [h1] at h; cases h
  | panic p => rw [h1] at h; cases h
  | ok chal =>
  rw [h1] at h; simp only at h
  cases h2 : readChallenge e.ntlm chal with
  | err x => rw [h2] at h; cases h
  | panic p => rw [h2] at h; cases h
  | ok tok =>
  rw [h2] at h; simp only at h
  cases hctx : buildSecurityInterface e.ntlm.exportedKey with
  | err x => rw [hctx] at h; cases h
  | panic p => rw [hctx] at h; cases h
  | ok ctx =>
  rw [hctx] at h; simp only at h
  cases h4 : e.spk with
  | err x => rw [h4] at h; cases h
  | panic p => rw [h4] at h; cases h
  | ok spk =>
  rw [h4] at h; simp only at h
  cases hw : wrap ctx spk with
  | err x => rw [hw] at h; cases h
  | panic p => rw [hw] at h; cases h
  | ok sc =>
  obtain ⟨s1, ctx1⟩ := sc
  rw [hw] at h; simp only at h
  injection h with h; subst h
  simp only
  unfold buildSecurityInterface at hctx
  cases he : Rc4.new (sealKey e.ntlm.exportedKey true) with
  | err x => rw [he] at hctx; cases hctx
  | panic p => rw [he] at hctx; cases hctx
  | ok re =>
    rw [he] at hctx; simp only [Outcome.bind_ok] at hctx
    cases hd : Rc4.new (sealKey e.ntlm.exportedKey false) with
    | err x => rw [hd] at hctx; cases hctx
    | panic p => rw [hd] at hctx; cases hctx
    | ok rd =>
      rw [hd] at hctx; simp only [Outcome.bind_ok] at hctx
      injection hctx with hctx; subst hctx
      unfold wrap at hw
      simp only at hw
      split at hw
      · cases hw
      · injection hw with hw
        injection hw with _ hw
        subst hw
        exact ⟨hd, rfl⟩

/-- **Release implies the MS-CSSP server proof.**  Whenever the credentials are written,
    the decoded final reply satisfies the independent specification predicate: it is the
    first message sealed and signed with the server-to-client keys derived from the
    exported session key, and its content is the certificate key plus one. -/
theorem c01_release_implies_spec (e : CsspEnv) (h : (csspConnect e).2.length = 3) :
    ∃ s pka, firstRounds e = .ok s ∧ e.r2 = .ok pka ∧
      Spec.Cssp.serverProof e.ntlm.exportedKey s.spk pka = true := by
  obtain ⟨s, pka, pt, hs, hr, hu, hn⟩ := c01_release_implies_proof e h
  obtain ⟨hk1, hk2⟩ := firstRounds_keys e s hs
  obtain ⟨hl, hpt, hseal⟩ := unwrap_ok_is_sealed s.ctx1 pka pt hu
  refine ⟨s, pka, hs, hr, ?_⟩
  unfold Spec.Cssp.serverProof
  rw [hk1]
  simp only
  rw [if_neg (by omega)]
  rw [← hk2, ← hpt]
  simp only [Bool.and_eq_true, decide_eq_true_eq]
  exact ⟨hseal, hn⟩

/-! ### completeness: an honest server is accepted (the premises above are satisfiable) -/

theorem unwrap_seq (c : SecCtx) (t : Bytes) : (unwrap c t).2.seq = c.seq := by
  unfold unwrap
  split; · rfl
  split; · rfl
  simp only
  split <;> rfl

/-- A server that holds the mirrored context (it knows the exported key) and returns the
    certificate key plus one, sealed as its next message, gets the credentials: the call
    succeeds with three writes.  So `c01_release_implies_proof` is not vacuous, and the
    client does not refuse honest servers. -/
theorem c01_honest_released (e : CsspEnv) (s : CsspSession) (srv : SecCtx) (reply : Bytes)
    (hs : firstRounds e = .ok s) (hm : Mirrors s.ctx1 srv) (hq : srv.seq + 1 < 2 ^ 32)
    (hseq : s.ctx1.seq + 1 < 2 ^ 32)
    (hv : leNat reply = leNat s.spk + 1)
    (hr : e.r2 = .ok (sealMsg srv.encrypt srv.signKey srv.seq reply).1) :
    (csspConnect e).1 = .ok () ∧ (csspConnect e).2.length = 3 := by
  obtain ⟨out, srv', hw, hu, _⟩ := c16_roundtrip s.ctx1 srv reply hm hq
  rw [c16_wrap_conforms srv reply hq] at hw
  injection hw with hw
  injection hw with hout _
  have hfin : (finalRound e.r2 (credentialBytes e (challengeUnicode s.chal)) s.ctx1 s.spk).1 = .ok () := by
    unfold finalRound
    rw [hr, hout]
    cases h7 : unwrap s.ctx1 out with
    | mk res ctx2 =>
      rw [h7] at hu
      simp only at hu
      subst hu
      simp only
      rw [h7]
      simp only
      rw [if_neg (not_not_intro hv)]
      have hseq2 : ctx2.seq = s.ctx1.seq := by
        have : ctx2 = (unwrap s.ctx1 out).2 := by rw [h7]
        rw [this]
        exact unwrap_seq s.ctx1 out
      have hw2 := c16_wrap_conforms ctx2 (credentialBytes e (challengeUnicode s.chal)) (by rw [hseq2]; exact hseq)
      rw [hw2]
  have h1 := (c01_otherwise_silent e).1
  have hres : (csspConnect e).1 = .ok () := by
    unfold csspConnect
    rw [hs]
    exact hfin
  exact ⟨hres, h1.1 hres⟩

end Rdp.Nla
