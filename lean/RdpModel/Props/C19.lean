import RdpModel.Lemmas.Blit
/-
  C19 — Painting a bitmap into the window buffer is memory-safe and exact.
-/
namespace Rdp.Gui

/-- Memory safety, for every geometry (inverted, out-of-window, image of any size): no
    panic; the window buffer keeps its length; and every raw `copy_nonoverlapping` the
    function performs stays inside both buffers. -/
theorem c19_memsafe (buf : List UInt32) (width : Nat) (g : Geo) (img : List UInt32) :
    let r := blit buf width g img
    r.1.buf.length = buf.length ∧
    (∀ c ∈ r.1.log, c.src + c.cnt ≤ img.length ∧ c.dst + c.cnt ≤ buf.length) ∧
    (∀ p, r.2 ≠ .panic p) := by
  unfold blit
  split
  · simp
  · rename_i h
    simp only [not_or, Nat.not_lt] at h
    obtain ⟨htb, hlr⟩ := h
    simp only [checkedSub, htb, if_true]
    exact rows_safe width g img hlr 0 _ ⟨buf, []⟩ buf.length rfl (by simp)

/-- The rectangle lies inside a window of row length `width` held in a buffer of `L` cells. -/
def InWindow (g : Geo) (width L : Nat) : Prop :=
  g.left ≤ g.right ∧ g.top ≤ g.bottom ∧ g.right < width ∧ (g.bottom + 1) * width ≤ L

/-- The decoded image has all the rows the rectangle needs. -/
def ImageCovers (g : Geo) (imgLen : Nat) : Prop :=
  (g.bottom - g.top) * g.bw + (g.right - g.left + 1) ≤ imgLen

/-- Exactness and frame: for a rectangle inside the window and an image that covers it,
    painting succeeds; every cell of the rectangle holds the image pixel of the same row
    and column (rows of the image are `bw` apart), and every other cell is unchanged. -/
theorem c19_exact (buf : List UInt32) (width : Nat) (g : Geo) (img : List UInt32)
    (hw : InWindow g width buf.length) (hi : ImageCovers g img.length) :
    (blit buf width g img).2 = .ok () ∧
    ∀ y x, x < width →
      (blit buf width g img).1.buf[y * width + x]? =
        if (g.top ≤ y ∧ y ≤ g.bottom) ∧ g.left ≤ x ∧ x ≤ g.right
        then img[(y - g.top) * g.bw + (x - g.left)]? else buf[y * width + x]? := by
  obtain ⟨hlr, htb, hrw, hL⟩ := hw
  unfold blit
  have h0 : ¬ (g.bottom < g.top ∨ g.right < g.left) := by omega
  rw [if_neg h0]
  simp only [checkedSub, htb, if_true]
  have hfit : RowsFit width g img.length buf.length 0 (g.bottom - g.top + 1) := by
    intro r _ hr
    constructor
    · have h1 : (r + g.top + 1) * width ≤ (g.bottom + 1) * width :=
        Nat.mul_le_mul_right width (by omega)
      rw [Nat.succ_mul] at h1
      omega
    · have h1 : r * g.bw ≤ (g.bottom - g.top) * g.bw := Nat.mul_le_mul_right g.bw (by omega)
      unfold ImageCovers at hi
      omega
  obtain ⟨hok, hget⟩ := rows_exact width g img hlr hrw 0 (g.bottom - g.top + 1) ⟨buf, []⟩ hfit
  refine ⟨hok, fun y x hx => ?_⟩
  rw [hget y x hx]
  have e : (0 + g.top ≤ y ∧ y < 0 + (g.bottom - g.top + 1) + g.top) ↔ (g.top ≤ y ∧ y ≤ g.bottom) := by omega
  simp only [e]

/-- Inverted rectangles are refused with an error and the buffer is untouched. -/
theorem c19_inverted_refused (buf : List UInt32) (width : Nat) (g : Geo) (img : List UInt32)
    (h : g.bottom < g.top ∨ g.right < g.left) :
    ∃ e, (blit buf width g img).2 = .err e ∧ (blit buf width g img).1.buf = buf := by
  unfold blit
  rw [if_pos h]
  exact ⟨_, rfl, rfl⟩

/-- non-vacuity: a 2×2 rectangle at (1,1) in a 4-wide, 3-row window, image stride 3 -/
example : InWindow ⟨1, 1, 2, 2, 3⟩ 4 12 ∧ ImageCovers ⟨1, 1, 2, 2, 3⟩ 6 := by
  unfold InWindow ImageCovers; decide
example : (blit (List.replicate 12 0) 4 ⟨1, 1, 2, 2, 3⟩ [1, 2, 3, 4, 5, 6]).1.buf
    = [0, 0, 0, 0, 0, 1, 2, 0, 0, 4, 5, 0] := by decide

end Rdp.Gui
