import RdpModel.Nla.Seal
/-
  C16 — NTLM session security seals per MS-NLMP, round-trips, and rejects tampering.
  HMAC-MD5 is used as an opaque function (nothing about it is unfolded); RC4 enters only
  through the algebraic fact `process_xor`.
-/
namespace Rdp.Nla
open Rdp Rdp.Crypto Rdp.Spec.Nlmp

/-! ### RC4: XOR with a keystream that depends on the state and the length only -/

def ksAdv (r : Rc4) : Nat → Bytes × Rc4
  | 0 => ([], r)
  | n+1 =>
    let (k, r') := r.next
    let (ks, r'') := ksAdv r' n
    (k :: ks, r'')

def xorBytes : Bytes → Bytes → Bytes
  | x :: xs, k :: ks => (x ^^^ k) :: xorBytes xs ks
  | _, _ => []

theorem process_xor (r : Rc4) (m : Bytes) :
    r.process m = (xorBytes m (ksAdv r m.length).1, (ksAdv r m.length).2) := by
  induction m generalizing r with
  | nil => simp [Rc4.process, ksAdv, xorBytes]
  | cons x xs ih =>
    simp only [Rc4.process, List.length_cons, ksAdv]
    rw [ih]
    simp [xorBytes]

theorem ksAdv_length (r : Rc4) (n : Nat) : (ksAdv r n).1.length = n := by
  induction n generalizing r with
  | zero => simp [ksAdv]
  | succ k ih => simp [ksAdv, ih]

theorem xorBytes_length (m ks : Bytes) (h : m.length = ks.length) : (xorBytes m ks).length = m.length := by
  induction m generalizing ks with
  | nil => simp [xorBytes]
  | cons x xs ih =>
    cases ks with
    | nil => simp at h
    | cons k ks' => simp [xorBytes, ih ks' (by simpa using h)]

theorem xorBytes_cancel (m ks : Bytes) (h : m.length = ks.length) : xorBytes (xorBytes m ks) ks = m := by
  induction m generalizing ks with
  | nil => simp [xorBytes]
  | cons x xs ih =>
    cases ks with
    | nil => simp at h
    | cons k ks' =>
      simp only [xorBytes]
      rw [ih ks' (by simpa using h)]
      have : (x ^^^ k) ^^^ k = x := by
        rw [UInt8.xor_assoc, UInt8.xor_self, UInt8.xor_zero]
      rw [this]

theorem xorBytes_inj (a b ks : Bytes) (ha : a.length = ks.length) (hb : b.length = ks.length)
    (h : xorBytes a ks = xorBytes b ks) : a = b := by
  have := congrArg (fun z => xorBytes z ks) h
  simp only [xorBytes_cancel a ks ha, xorBytes_cancel b ks hb] at this
  exact this

theorem process_length (r : Rc4) (m : Bytes) : (r.process m).1.length = m.length := by
  rw [process_xor]
  exact xorBytes_length m _ (by rw [ksAdv_length])

/-- a peer holding an equal cipher state decrypts, and both states advance equally -/
theorem process_roundtrip (r : Rc4) (m : Bytes) :
    (r.process (r.process m).1).1 = m ∧ (r.process (r.process m).1).2 = (r.process m).2 := by
  have hl : (r.process m).1.length = m.length := process_length r m
  constructor
  · rw [process_xor r (r.process m).1, hl, process_xor r m]
    exact xorBytes_cancel m _ (by rw [ksAdv_length])
  · rw [process_xor r (r.process m).1, hl, process_xor r m]

/-! ### conformance -/

/-- Every message sealed by the client's context is byte-identical to MS-NLMP SEAL/SIGN
    with the same handle, signing key and sequence number, and leaves the handle and the
    sequence number where the specification leaves them. -/
theorem c16_wrap_conforms (c : SecCtx) (m : Bytes) (hs : c.seq + 1 < 2 ^ 32) :
    wrap c m = .ok ((sealMsg c.encrypt c.signKey c.seq m).1,
      { c with encrypt := (sealMsg c.encrypt c.signKey c.seq m).2, seq := c.seq + 1 }) := by
  have h : ¬ (c.seq + 1 ≥ 2 ^ 32) := by omega
  simp [wrap, mac, sealMsg, h, le32n, List.append_assoc]

/-- …across any sequence of messages: cipher state and sequence numbers carry over. -/
def wrapAll (c : SecCtx) : List Bytes → Outcome (List Bytes × SecCtx)
  | [] => .ok ([], c)
  | m :: ms => (wrap c m).bind fun (o, c') => (wrapAll c' ms).bind fun (os, c'') => .ok (o :: os, c'')

theorem c16_conforms (c : SecCtx) (ms : List Bytes) (hs : c.seq + ms.length < 2 ^ 32) :
    ∃ c', wrapAll c ms = .ok (sealAll c.encrypt c.signKey c.seq ms, c') ∧ c'.seq = c.seq + ms.length := by
  induction ms generalizing c with
  | nil => exact ⟨c, rfl, rfl⟩
  | cons m ms ih =>
    simp only [List.length_cons] at hs
    have h1 := c16_wrap_conforms c m (by omega)
    obtain ⟨c', hc', hseq⟩ := ih { c with encrypt := (sealMsg c.encrypt c.signKey c.seq m).2, seq := c.seq + 1 }
      (by simp; omega)
    refine ⟨c', ?_, ?_⟩
    · simp only [wrapAll, h1, Outcome.bind_ok, hc', sealAll]
    · rw [hseq]; simp; omega

/-! ### round trip with a conforming peer -/

/-- the receiving context mirrors the sender: its decrypt handle is in the sender's encrypt
    state and its verify key is the sender's signing key -/
def Mirrors (recv send : SecCtx) : Prop :=
  recv.decrypt = send.encrypt ∧ recv.verifyKey = send.signKey

theorem le32n_length (n : Nat) : (le32n n).length = 4 := by simp [le32n]

/-- A message sealed by a conforming peer unseals to the original plaintext, and the two
    contexts stay mirrored for the next message. -/
theorem le32_length (x : UInt32) : (le32 x).length = 4 := rfl

theorem md5_length (m : Bytes) : (md5 m).length = 16 := by
  unfold md5
  simp only
  generalize (List.foldl _ _ _ : UInt32 × UInt32 × UInt32 × UInt32) = q
  obtain ⟨a, b, c, d⟩ := q
  simp [le32_length]

theorem hmacMd5_length (k d : Bytes) : (hmacMd5 k d).length = 16 := by
  unfold hmacMd5; exact md5_length _

theorem le32n_one : le32n 1 = [1, 0, 0, 0] := by simp [le32n, encInt, leBytes]

attribute [local irreducible] Rdp.Crypto.hmacMd5 Rdp.Crypto.md5 Rdp.Crypto.Rc4.process

/-- A message sealed by a conforming peer unseals to the original plaintext, and the two
    contexts stay mirrored for the next message. -/
theorem c16_roundtrip (recv send : SecCtx) (m : Bytes) (hm : Mirrors recv send) (hs : send.seq + 1 < 2 ^ 32) :
    ∃ out send', wrap send m = .ok (out, send') ∧
      (unwrap recv out).1 = .ok m ∧ Mirrors (unwrap recv out).2 send' := by
  obtain ⟨hd, hv⟩ := hm
  have hw := c16_wrap_conforms send m hs
  refine ⟨_, _, hw, ?_⟩
  have hrt1 := process_roundtrip send.encrypt m
  have hl1 := process_length send.encrypt m
  generalize hct : send.encrypt.process m = pm at *
  obtain ⟨ct, r1⟩ := pm
  simp only at hrt1 hl1
  have hdgl : ((hmacMd5 send.signKey (encInt .le 4 send.seq ++ m)).take 8).length = 8 := by
    simp [hmacMd5_length]
  generalize hdg : (hmacMd5 send.signKey (encInt .le 4 send.seq ++ m)).take 8 = dg at *
  have hrt2 := process_roundtrip r1 dg
  have hl2 := process_length r1 dg
  generalize hck : r1.process dg = pk at *
  obtain ⟨chk, r2⟩ := pk
  simp only at hrt2 hl2
  have hchk8 : chk.length = 8 := by rw [hl2, hdgl]
  have hseq4 : (encInt Endian.le 4 send.seq).length = 4 := by simp
  -- the sealed message
  have hout : (sealMsg send.encrypt send.signKey send.seq m).1
      = [1, 0, 0, 0] ++ chk ++ encInt .le 4 send.seq ++ ct := by
    simp only [sealMsg, hct, hdg, hck]
    have : encInt Endian.le 4 1 = [1, 0, 0, 0] := by simp [encInt, leBytes]
    rw [this]
  rw [hout]
  have hlen : ¬ (([1, 0, 0, 0] ++ chk ++ encInt Endian.le 4 send.seq ++ ct).length < 16) := by
    simp [hchk8]; omega
  have htake4 : ([1, 0, 0, 0] ++ chk ++ encInt Endian.le 4 send.seq ++ ct : Bytes).take 4 = [1, 0, 0, 0] := by
    simp
  have hcs : (([1, 0, 0, 0] ++ chk ++ encInt Endian.le 4 send.seq ++ ct : Bytes).drop 4).take 8 = chk := by
    have : ([1, 0, 0, 0] ++ chk ++ encInt Endian.le 4 send.seq ++ ct : Bytes) = [1, 0, 0, 0] ++ (chk ++ (encInt Endian.le 4 send.seq ++ ct)) := by simp
    rw [this, List.drop_left' (by rfl)]
    rw [List.take_left' hchk8]
  have hsq : (([1, 0, 0, 0] ++ chk ++ encInt Endian.le 4 send.seq ++ ct : Bytes).drop 12).take 4 = encInt .le 4 send.seq := by
    have : ([1, 0, 0, 0] ++ chk ++ encInt Endian.le 4 send.seq ++ ct : Bytes) = ([1, 0, 0, 0] ++ chk) ++ (encInt Endian.le 4 send.seq ++ ct) := by simp
    rw [this, List.drop_left' (by simp [hchk8])]
    rw [List.take_left' hseq4]
  have hpl : ([1, 0, 0, 0] ++ chk ++ encInt Endian.le 4 send.seq ++ ct : Bytes).drop 16 = ct := by
    have : ([1, 0, 0, 0] ++ chk ++ encInt Endian.le 4 send.seq ++ ct : Bytes) = ([1, 0, 0, 0] ++ chk ++ encInt Endian.le 4 send.seq) ++ ct := by simp
    rw [this, List.drop_left' (by simp [hchk8])]
  unfold unwrap
  rw [if_neg hlen, htake4]
  simp only [ne_eq, not_true_eq_false, if_false, hcs, hsq, hpl, hd, hv]
  rw [show send.encrypt.process ct = (m, r1) from by
    have := hrt1; cases h : send.encrypt.process ct; simp [h] at this; rw [this.1, this.2]]
  simp only
  rw [show r1.process chk = (dg, r2) from by
    have := hrt2; cases h : r1.process chk; simp [h] at this; rw [this.1, this.2]]
  simp only [hdg, ne_eq, not_true_eq_false, if_false]
  refine ⟨trivial, ?_, rfl⟩
  show r2 = (sealMsg send.encrypt send.signKey send.seq m).2
  simp only [sealMsg, hct, hdg, hck]

/-! ### tampering -/

/-- truncation below the signature size, or any change of the Version field, is rejected
    before anything is decrypted -/
theorem c16_tamper_header (c : SecCtx) (t : Bytes) (h : t.length < 16 ∨ t.take 4 ≠ [1, 0, 0, 0]) :
    ∃ e, (unwrap c t).1 = .err e ∧ (unwrap c t).2 = c := by
  unfold unwrap
  by_cases hl : t.length < 16
  · rw [if_pos hl]; exact ⟨_, rfl, rfl⟩
  · rw [if_neg hl]
    rcases h with h | h
    · exact absurd h hl
    · rw [if_pos h]; exact ⟨_, rfl, rfl⟩

/-- the parts of a sealed message -/
def assemble (chk seq ct : Bytes) : Bytes := [1, 0, 0, 0] ++ chk ++ seq ++ ct

theorem unwrap_assemble (c : SecCtx) (chk seq ct : Bytes) (h8 : chk.length = 8) (h4 : seq.length = 4) :
    (unwrap c (assemble chk seq ct)).1 =
      (if ((c.decrypt.process ct).2.process chk).1 ≠ (hmacMd5 c.verifyKey (seq ++ (c.decrypt.process ct).1)).take 8
       then .err "InvalidChecksum" else .ok (c.decrypt.process ct).1) := by
  have hlen : ¬ ((assemble chk seq ct).length < 16) := by simp [assemble, h8, h4]; omega
  have htake4 : (assemble chk seq ct).take 4 = [1, 0, 0, 0] := by simp [assemble]
  have hcs : ((assemble chk seq ct).drop 4).take 8 = chk := by
    have : assemble chk seq ct = [1, 0, 0, 0] ++ (chk ++ (seq ++ ct)) := by simp [assemble]
    rw [this, List.drop_left' (by rfl), List.take_left' h8]
  have hsq : ((assemble chk seq ct).drop 12).take 4 = seq := by
    have : assemble chk seq ct = ([1, 0, 0, 0] ++ chk) ++ (seq ++ ct) := by simp [assemble]
    rw [this, List.drop_left' (by simp [h8]), List.take_left' h4]
  have hpl : (assemble chk seq ct).drop 16 = ct := by
    have : assemble chk seq ct = ([1, 0, 0, 0] ++ chk ++ seq) ++ ct := by simp [assemble]
    rw [this, List.drop_left' (by simp [h8, h4])]
  unfold unwrap
  rw [if_neg hlen, htake4]
  simp only [ne_eq, not_true_eq_false, if_false, hcs, hsq, hpl]
  split <;> rfl

/-- Any alteration of the checksum of an accepted message — any bit, any number of bits —
    is rejected, unconditionally (XOR with a fixed keystream is injective). -/
theorem c16_tamper_checksum (c : SecCtx) (chk chk' seq ct : Bytes) (h8 : chk.length = 8) (h8' : chk'.length = 8)
    (h4 : seq.length = 4) (hne : chk' ≠ chk)
    (hacc : ∃ pt, (unwrap c (assemble chk seq ct)).1 = .ok pt) :
    ∃ e, (unwrap c (assemble chk' seq ct)).1 = .err e := by
  obtain ⟨pt, hpt⟩ := hacc
  rw [unwrap_assemble c chk seq ct h8 h4] at hpt
  rw [unwrap_assemble c chk' seq ct h8' h4]
  split at hpt
  · cases hpt
  · rename_i heq
    have heq' : ((c.decrypt.process ct).2.process chk).1 = (hmacMd5 c.verifyKey (seq ++ (c.decrypt.process ct).1)).take 8 :=
      Decidable.of_not_not heq
    have hdiff : ((c.decrypt.process ct).2.process chk').1 ≠ ((c.decrypt.process ct).2.process chk).1 := by
      generalize (c.decrypt.process ct).2 = r1
      rw [process_xor r1 chk', process_xor r1 chk, h8, h8']
      intro hx
      exact hne (xorBytes_inj chk' chk _ (by rw [ksAdv_length, h8']) (by rw [ksAdv_length, h8]) hx)
    rw [← heq']
    rw [if_pos hdiff]
    exact ⟨_, rfl⟩

/-- An alteration of the sequence number or of the ciphertext (same length) that is still
    accepted exhibits a collision of the truncated HMAC under the verification key: two
    different (sequence number, plaintext) pairs with the same 8-byte tag.  Nothing is
    assumed about HMAC-MD5; the only way past the check is such a collision. -/
theorem c16_tamper_mod_collision (c : SecCtx) (chk seq seq' ct ct' : Bytes) (h8 : chk.length = 8)
    (h4 : seq.length = 4) (h4' : seq'.length = 4) (hlen : ct'.length = ct.length)
    (hne : seq' ≠ seq ∨ ct' ≠ ct)
    (hacc : ∃ pt, (unwrap c (assemble chk seq ct)).1 = .ok pt)
    (hacc' : ∃ pt', (unwrap c (assemble chk seq' ct')).1 = .ok pt') :
    ∃ m m', (seq, m) ≠ (seq', m') ∧
      (hmacMd5 c.verifyKey (seq ++ m)).take 8 = (hmacMd5 c.verifyKey (seq' ++ m')).take 8 := by
  obtain ⟨pt, hpt⟩ := hacc
  obtain ⟨pt', hpt'⟩ := hacc'
  rw [unwrap_assemble c chk seq ct h8 h4] at hpt
  rw [unwrap_assemble c chk seq' ct' h8 h4'] at hpt'
  split at hpt
  · cases hpt
  · rename_i heq
    split at hpt'
    · cases hpt'
    · rename_i heq'
      have e1 := Decidable.of_not_not heq
      have e2 := Decidable.of_not_not heq'
      -- equal lengths: the cipher state after the payload is the same
      have hst : (c.decrypt.process ct').2 = (c.decrypt.process ct).2 := by
        rw [process_xor c.decrypt ct', process_xor c.decrypt ct, hlen]
      rw [hst] at e2
      refine ⟨(c.decrypt.process ct).1, (c.decrypt.process ct').1, ?_, by rw [← e1, ← e2]⟩
      intro hpair
      injection hpair with hs hm
      rcases hne with h | h
      · exact h hs.symm
      · apply h
        rw [process_xor c.decrypt ct, process_xor c.decrypt ct', hlen] at hm
        exact (xorBytes_inj ct ct' _ (by rw [ksAdv_length]) (by rw [ksAdv_length, hlen]) hm).symm

end Rdp.Nla
