import RdpModel.Wire.Emit
import RdpModel.Spec.Strict
import RdpModel.Props.C18
/-
  C04 — every PDU the client emits is well formed under a strict independent parser.
  `Spec.Strict` is the parser (run by the driver on the implementation's bytes); the
  theorems below state, for the emitters of the model and for every parameter value, that
  the length and count fields equal the sizes they describe and that fixed-size fields have
  their size.
-/
namespace Rdp.Emit
open Rdp Rdp.Spec

@[simp] theorem le16_length (n : Nat) : (le16 n).length = 2 := by simp [le16, encInt]
@[simp] theorem le32_length (n : Nat) : (le32 n).length = 4 := by simp [le32, encInt]
@[simp] theorem zeros_length (n : Nat) : (zeros n).length = n := by simp [zeros]

theorem le16s_length (us : List Nat) : (le16s us).length = 2 * us.length := by
  induction us with
  | nil => simp [le16s]
  | cons u us ih => simp only [le16s, List.flatMap_cons, List.length_append, le16_length] at *; rw [ih]; simp; omega

theorem clientNameUnits_length (name : List Char) : (clientNameUnits name).length = 16 := by
  unfold clientNameUnits
  simp only
  have h15 : ((utf16Units name).take 15).length ≤ 15 := by simp; omega
  split
  · split
    · simp only [List.length_append, List.length_replicate, List.length_dropLast]; omega
    · simp only [List.length_append, List.length_replicate]; omega
  · simp only [List.length_append, List.length_replicate]; omega

/-- the client name field is exactly 32 bytes for every name -/
theorem c04_clientName_32 (name : List Char) : (clientNameField name).length = 32 := by
  unfold clientNameField; rw [le16s_length, clientNameUnits_length]

/-- … and its last code unit is the null terminator, whatever the name -/
theorem c04_clientName_terminated (name : List Char) : (clientNameUnits name).getLast? = some 0 := by
  unfold clientNameUnits
  simp only
  have h15 : ((utf16Units name).take 15).length ≤ 15 := by simp; omega
  have key : ∀ u : List Nat, u.length ≤ 15 → (u ++ List.replicate (16 - u.length) 0).getLast? = some 0 := by
    intro u hu
    have : 16 - u.length = (15 - u.length) + 1 := by omega
    rw [this, List.replicate_succ']
    simp [← List.append_assoc]
  split
  · split
    · exact key _ (by simp only [List.length_dropLast]; omega)
    · exact key _ h15
  · exact key _ h15

/-- the core data block is 212 bytes for every parameter choice -/
theorem c04_core_size (w h layout selected : Nat) (name : List Char) :
    (clientCoreData w h layout selected name).length = 212 := by
  have hn := c04_clientName_32 name
  unfold clientCoreData
  simp only [List.length_append, le16_length, le32_length, zeros_length, hn, List.length_cons, List.length_nil]

/-- a data block's length field is the size of the block -/
theorem c04_block_length (ty : Nat) (body : Bytes) (h : body.length + 4 < 65536) :
    leNat (((block ty body).drop 2).take 2) = (block ty body).length := by
  have hm : body.length % 65536 = body.length := Nat.mod_eq_of_lt (by omega)
  simp only [block, hm]
  rw [List.append_assoc, List.drop_left' (by simp), List.take_left' (by simp)]
  simp only [le16, encInt]
  rw [leNat_leBytes 2 _ (by omega)]
  simp; omega

/-- the user data is the three blocks, 216 + 12 + 8 bytes -/
theorem c04_userData_size (w h layout selected : Nat) (name : List Char) :
    (userData w h layout selected name).length = 236 := by
  have hc := c04_core_size w h layout selected name
  unfold userData block clientSecurityData clientNetworkData
  simp only [List.length_append, le16_length, le32_length, hc]

end Rdp.Emit
