import RdpModel.Wire.Emit
import RdpModel.Spec.Strict
import RdpModel.Props.C18
import RdpModel.Lemmas.ConfirmActive
/-
  C04 — every PDU the client emits is well formed under a strict independent parser.
  `Spec.Strict` is the parser (run by the driver on the implementation's bytes); the
  theorems below state, for the emitters of the model and for every parameter value, that
  the length and count fields equal the sizes they describe and that fixed-size fields have
  their size.
-/
namespace Rdp.Emit
open Rdp Rdp.Spec Rdp.Spec.Strict Rdp.Nla Rdp.Secrets

@[simp] theorem le16_length (n : Nat) : (le16 n).length = 2 := by simp [le16, encInt]
@[simp] theorem le32_length (n : Nat) : (le32 n).length = 4 := by simp [le32, encInt]
@[simp] theorem zeros_length (n : Nat) : (zeros n).length = n := by simp [zeros]

theorem le16s_length (us : List Nat) : (le16s us).length = 2 * us.length := by
  induction us with
  | nil => simp [le16s]
  | cons u us ih => simp only [le16s, List.flatMap_cons, List.length_append, le16_length] at *; rw [ih]; simp; omega

theorem clientNameUnits_length (name : List Char) : (clientNameUnits name).length = 16 := by
  unfold clientNameUnits
  simp only
  have h15 : ((utf16Units name).take 15).length ≤ 15 := by simp; omega
  split
  · split
    · simp only [List.length_append, List.length_replicate, List.length_dropLast]; omega
    · simp only [List.length_append, List.length_replicate]; omega
  · simp only [List.length_append, List.length_replicate]; omega

/-- the client name field is exactly 32 bytes for every name -/
theorem c04_clientName_32 (name : List Char) : (clientNameField name).length = 32 := by
  unfold clientNameField; rw [le16s_length, clientNameUnits_length]

/-- … and its last code unit is the null terminator, whatever the name -/
theorem c04_clientName_terminated (name : List Char) : (clientNameUnits name).getLast? = some 0 := by
  unfold clientNameUnits
  simp only
  have h15 : ((utf16Units name).take 15).length ≤ 15 := by simp; omega
  have key : ∀ u : List Nat, u.length ≤ 15 → (u ++ List.replicate (16 - u.length) 0).getLast? = some 0 := by
    intro u hu
    have : 16 - u.length = (15 - u.length) + 1 := by omega
    rw [this, List.replicate_succ']
    simp [← List.append_assoc]
  split
  · split
    · exact key _ (by simp only [List.length_dropLast]; omega)
    · exact key _ h15
  · exact key _ h15

/-- the core data block is 212 bytes for every parameter choice -/
theorem c04_core_size (w h layout selected : Nat) (name : List Char) :
    (clientCoreData w h layout selected name).length = 212 := by
  have hn := c04_clientName_32 name
  unfold clientCoreData
  simp only [List.length_append, le16_length, le32_length, zeros_length, hn, List.length_cons, List.length_nil]

/-- a data block's length field is the size of the block -/
theorem c04_block_length (ty : Nat) (body : Bytes) (h : body.length + 4 < 65536) :
    leNat (((block ty body).drop 2).take 2) = (block ty body).length := by
  have hm : body.length % 65536 = body.length := Nat.mod_eq_of_lt (by omega)
  simp only [block, hm]
  rw [List.append_assoc, List.drop_left' (by simp), List.take_left' (by simp)]
  simp only [le16, encInt]
  rw [leNat_leBytes 2 _ (by omega)]
  simp; omega

/-- the user data is the three blocks, 216 + 12 + 8 bytes -/
theorem c04_userData_size (w h layout selected : Nat) (name : List Char) :
    (userData w h layout selected name).length = 236 := by
  have hc := c04_core_size w h layout selected name
  unfold userData block clientSecurityData clientNetworkData
  simp only [List.length_append, le16_length, le32_length, hc]

/-! ### the strict decoder accepts the info packet for every string -/

theorem takeN_append (a r : Bytes) (w : String) : takeN a.length (a ++ r) w = .ok (a, r) := by
  unfold takeN
  rw [if_neg (by simp)]
  simp

theorem takeN_len (n : Nat) (a r : Bytes) (w : String) (h : a.length = n) : takeN n (a ++ r) w = .ok (a, r) := by
  subst h; exact takeN_append a r w

theorem u16_le16 (n : Nat) (r : Bytes) (w : String) (h : n < 65536) : Strict.u16 (le16 n ++ r) w = .ok (n, r) := by
  unfold Strict.u16
  rw [takeN_len 2 (le16 n) r w (by simp)]
  simp only [bind, Except.bind, pure, Except.pure, le16, encInt]
  rw [leNat_leBytes 2 n (by omega)]

theorem u32_le32 (n : Nat) (r : Bytes) (w : String) (h : n < 4294967296) : Strict.u32 (le32 n ++ r) w = .ok (n, r) := by
  unfold Strict.u32
  rw [takeN_len 4 (le32 n) r w (by simp)]
  simp only [bind, Except.bind, pure, Except.pure, le32, encInt]
  rw [leNat_leBytes 4 n (by omega)]

theorem utf16le_even (s : List Char) : (utf16le s).length % 2 = 0 := by
  unfold utf16le
  rw [le16s_length]; omega

theorem cbString_ok (x r : Bytes) (w : String) (hx : x.length % 2 = 0) :
    cbString x.length (x ++ [0, 0] ++ r) w = .ok r := by
  unfold cbString need
  rw [if_pos (by simpa using hx)]
  simp only [bind, Except.bind]
  rw [List.append_assoc, takeN_append]
  simp only
  rw [show ([0, 0] ++ r : Bytes) = [0, 0] ++ r from rfl, takeN_len 2 [0, 0] r _ rfl]
  simp [pure, Except.pure]

theorem cbStringIncl_two (r : Bytes) (w : String) : cbStringIncl 2 ([0, 0] ++ r) w = .ok r := by
  unfold cbStringIncl need
  simp only [bind, Except.bind]
  rw [if_pos (by decide)]
  simp only
  rw [takeN_len 2 [0, 0] r _ rfl]
  simp [pure, Except.pure]

theorem extendedInfo_strict : Strict.extendedInfo extendedInfo = .ok () := by
  unfold Emit.extendedInfo Strict.extendedInfo
  simp only [List.append_assoc]
  rw [u16_le16 2 _ _ (by omega)]
  simp only [bind, Except.bind, need]
  rw [if_pos (by decide)]
  simp only
  rw [u16_le16 2 _ _ (by omega)]
  simp only
  rw [cbStringIncl_two]
  simp only
  rw [u16_le16 2 _ _ (by omega)]
  simp only
  rw [cbStringIncl_two]
  simp only
  rw [takeN_len 172 (zeros 172) _ _ (by simp)]
  simp only
  rw [u32_le32 0 _ _ (by omega)]
  simp only
  have : le32 0 = le32 0 ++ [] := by simp
  rw [this, u32_le32 0 _ _ (by omega)]
  simp

/-- **The info packet is well formed for every credential string.**  For all domain, user
    and password strings (any Unicode, any length whose UTF-16 form fits the 16-bit count),
    with and without the extended part and the auto-logon flag, the strict MS-RDPBCGR
    decoder accepts the emitted Client Info PDU: every cb* count equals the size of its
    string, every string is null-terminated, the extended part is complete. -/
theorem c04_clientInfo_strict (ini : Nat) (ext auto : Bool) (d u p : List Char)
    (hd : (utf16le d).length < 65536) (hu : (utf16le u).length < 65536) (hp : (utf16le p).length < 65536) :
    Strict.sdrqUserData ini (clientInfo ext auto d u p) = .ok () := by
  have hflag : infoFlags auto / 0x10 % 2 = 1 := by cases auto <;> decide
  unfold sdrqUserData
  have hhead : (clientInfo ext auto d u p).take 4 = [0x40, 0, 0, 0] := by
    simp [clientInfo, le16, encInt, leBytes]
  rw [if_pos hhead]
  have hdrop : (clientInfo ext auto d u p).drop 4 =
      le32 0 ++ (le32 (infoFlags auto) ++ (le16 ((utf16le d).length) ++ (le16 ((utf16le u).length) ++ (le16 ((utf16le p).length) ++
        (le16 0 ++ (le16 0 ++ (utf16le d ++ [0, 0] ++ (utf16le u ++ [0, 0] ++ (utf16le p ++ [0, 0] ++ (([] : Bytes) ++ [0, 0] ++ (([] : Bytes) ++ [0, 0] ++
          (if ext then extendedInfo else [])))))))))))) := by
    simp [clientInfo, le16, encInt, leBytes, Nat.mod_eq_of_lt hd, Nat.mod_eq_of_lt hu, Nat.mod_eq_of_lt hp, List.append_assoc]
  rw [hdrop]
  unfold Strict.clientInfo
  rw [u32_le32 0 _ _ (by omega)]
  simp only [bind, Except.bind]
  rw [u32_le32 _ _ _ (by cases auto <;> decide)]
  simp only [need]
  rw [if_pos (by simpa using hflag)]
  simp only
  rw [u16_le16 _ _ _ hd]; simp only
  rw [u16_le16 _ _ _ hu]; simp only
  rw [u16_le16 _ _ _ hp]; simp only
  rw [u16_le16 0 _ _ (by omega)]; simp only
  rw [u16_le16 0 _ _ (by omega)]; simp only
  rw [cbString_ok _ _ _ (utf16le_even d)]; simp only
  rw [cbString_ok _ _ _ (utf16le_even u)]; simp only
  rw [cbString_ok _ _ _ (utf16le_even p)]; simp only
  rw [show (0 : Nat) = ([] : Bytes).length from rfl, cbString_ok [] _ _ (by decide)]; simp only
  rw [cbString_ok [] _ _ (by decide)]; simp only
  cases ext
  · simp
  · simp only [if_true]
    rw [if_neg (by simp [extendedInfo, le16, encInt])]
    exact extendedInfo_strict

/-! ### the strict decoders accept the connect-initial frame for every configuration -/

theorem hasNulUnit_le16s (us : List Nat) (h : 0 ∈ us) : hasNulUnit (le16s us) = true := by
  induction us with
  | nil => simp at h
  | cons u us ih =>
    simp only [le16s, List.flatMap_cons]
    have e : le16 u = [UInt8.ofNat (u % 256), UInt8.ofNat (u / 256 % 256)] := by simp [le16, encInt, leBytes]
    rw [e]
    simp only [List.cons_append, List.nil_append, hasNulUnit]
    rcases List.mem_cons.mp h with h0 | hm
    · subst h0; simp
    · have := ih hm
      simp only [le16s] at this
      simp [this]

theorem clientName_nul (name : List Char) : hasNulUnit (clientNameField name) = true := by
  unfold clientNameField
  apply hasNulUnit_le16s
  have := c04_clientName_terminated name
  exact List.mem_of_getLast? this

/-- the strict decoder accepts the client core data block for every parameter value -/
theorem csCore_strict (w h layout selected : Nat) (name : List Char) (hw : 1 ≤ w ∧ w < 65536) (hh : 1 ≤ h ∧ h < 65536)
    (hl : layout < 4294967296) (hs : selected < 4294967296) :
    csCore (clientCoreData w h layout selected name) = .ok () := by
  unfold clientCoreData csCore
  simp only [List.append_assoc]
  rw [u32_le32 _ _ _ (by omega)]
  simp only [bind, Except.bind, need]
  rw [if_pos (by decide)]
  simp only
  rw [u16_le16 _ _ _ hw.2]; simp only
  rw [if_pos (by simpa using hw.1)]; simp only
  rw [u16_le16 _ _ _ hh.2]; simp only
  rw [if_pos (by simpa using hh.1)]; simp only
  rw [u16_le16 _ _ _ (by omega)]; simp only
  rw [if_pos (by decide)]; simp only
  rw [u16_le16 _ _ _ (by omega)]; simp only
  rw [if_pos (by decide)]; simp only
  rw [u32_le32 _ _ _ hl]; simp only
  rw [u32_le32 _ _ _ (by omega)]; simp only
  rw [takeN_len 32 (clientNameField name) _ _ (c04_clientName_32 name)]; simp only
  rw [clientName_nul]
  simp only [if_true]
  rw [u32_le32 _ _ _ (by omega)]; simp only
  rw [u32_le32 _ _ _ (by omega)]; simp only
  rw [u32_le32 _ _ _ (by omega)]; simp only
  rw [takeN_len 64 (zeros 64) _ _ (by simp)]; simp only
  have hlen : (le16 0xCA01 ++ (le16 1 ++ (le32 0 ++ (le16 0x18 ++ (le16 0x0a ++ (le16 1 ++ (zeros 64 ++ ([0] ++ ([0] ++ le32 selected))))))))).length = 84 := by
    simp only [List.length_append, le16_length, le32_length, zeros_length, List.length_cons, List.length_nil]
  rw [hlen]
  have ht : csCore.tail [2, 2, 4, 2, 2, 2, 64, 1, 1, 4, 4, 4, 2, 4, 4] 84 = true := by decide
  rw [if_pos ht]

theorem blocksF_step (f ty : Nat) (body rest : Bytes) (seen : List Nat) (hty : ty < 65536) (hb : body.length + 4 < 65536)
    (hns : ty ∉ seen) (hfirst : seen ≠ [] ∨ ty = 0xC001)
    (hbody : (if ty = 0xC001 then csCore body else if ty = 0xC002 then csSecurity body else if ty = 0xC003 then csNet body else .ok ()) = .ok ()) :
    blocksF (f + 1) (block ty body ++ rest) seen = blocksF f rest (ty :: seen) := by
  have hne : block ty body ++ rest ≠ [] := by simp [block, le16, encInt, leBytes]
  conv => lhs; unfold blocksF
  rw [if_neg hne]
  unfold block
  simp only [List.append_assoc, Nat.mod_eq_of_lt (show body.length < 65536 by omega)]
  rw [u16_le16 _ _ _ hty]
  simp only [bind, Except.bind, need]
  rw [u16_le16 _ _ _ hb]; simp only
  rw [if_pos (by simp)]; simp only
  rw [show body.length + 4 - 4 = body.length by omega, takeN_append]; simp only
  rw [if_pos (by simpa using hns)]; simp only
  rw [if_pos (by simpa using hfirst)]; simp only
  rw [hbody]

theorem userData_strict (w h layout selected : Nat) (name : List Char) (hw : 1 ≤ w ∧ w < 65536) (hh : 1 ≤ h ∧ h < 65536)
    (hl : layout < 4294967296) (hs : selected < 4294967296) :
    blocks (userData w h layout selected name) [] = .ok () := by
  unfold blocks
  rw [c04_userData_size]
  unfold userData
  have hcore := csCore_strict w h layout selected name hw hh hl hs
  have hcl := c04_core_size w h layout selected name
  rw [show (236 / 4 + 2 : Nat) = 60 + 1 from rfl, List.append_assoc]
  rw [blocksF_step 60 0xC001 _ _ [] (by omega) (by omega) (by simp) (Or.inr rfl) (by simpa using hcore)]
  rw [show (60 : Nat) = 59 + 1 from rfl]
  rw [blocksF_step 59 0xC002 _ _ _ (by omega) (by simp [clientSecurityData]) (by simp) (Or.inl (by simp)) (by rfl)]
  have : block 0xC003 clientNetworkData = block 0xC003 clientNetworkData ++ [] := by simp
  rw [this, show (59 : Nat) = 58 + 1 from rfl]
  rw [blocksF_step 58 0xC003 _ _ _ (by omega) (by simp [clientNetworkData]) (by simp) (Or.inl (by simp)) (by rfl)]
  rfl

theorem conference_bytes (ud : Bytes) (hud : ud.length = 236) :
    conferenceCreateRequest ud = .ok ([0, 5, 0, 20, 124, 0, 1, 0x80, 250, 0, 8, 0, 0x10, 0, 1, 0xc0, 0, 0x44, 0x75, 0x63, 0x61, 0x80, 236] ++ ud) := by
  unfold conferenceCreateRequest
  have h1 : Per.writeOid [0, 0, 20, 124, 0, 1] = .ok [5, 0, 20, 124, 0, 1] := by decide
  have h2 : Per.writeNumericString [0x31] 1 = .ok [0, 0x10] := by decide
  have hw1 : Per.writeLength ((ud.length % 65536 + 14) % 65536) = [0x80, 250] := by rw [hud]; decide
  have hw2 : Per.writeOctetStream ud 0 = [0x80, 236] ++ ud := by
    simp only [Per.writeOctetStream, hud]
    have : Per.writeLength ((if 0 ≤ 236 then 236 - 0 else 0) % 65536) = [128, 236] := by decide
    rw [this]
  have hw3 : Per.writeOctetStream [0x44, 0x75, 0x63, 0x61] 4 = [0, 0x44, 0x75, 0x63, 0x61] := by decide
  rw [h1, h2, hw1, hw2, hw3]
  simp [Per.writePadding]

theorem gcc_strict (ud : Bytes) (hud : ud.length = 236) (hb : blocks ud [] = .ok ()) :
    gccCreateRequest ([0, 5, 0, 20, 124, 0, 1, 0x80, 250, 0, 8, 0, 0x10, 0, 1, 0xc0, 0, 0x44, 0x75, 0x63, 0x61, 0x80, 236] ++ ud) = .ok () := by
  unfold gccCreateRequest
  simp [takeN, perLen, Strict.u8, need, bind, Except.bind, pure, Except.pure, hud, leNat, hb]

def ciPrefix : Bytes := [127, 101, 130, 1, 105, 4, 1, 1, 4, 1, 1, 1, 1, 255, 48, 26, 2, 1, 34, 2, 1, 2, 2, 1, 0, 2, 1, 1, 2, 1, 0, 2, 1, 1, 2, 3, 0, 255, 255, 2, 1, 2, 48, 25, 2, 1, 1, 2, 1, 1, 2, 1, 1, 2, 1, 1, 2, 1, 0, 2, 1, 1, 2, 2, 4, 32, 2, 1, 2, 48, 32, 2, 3, 0, 255, 255, 2, 3, 0, 252, 23, 2, 3, 0, 255, 255, 2, 1, 1, 2, 1, 0, 2, 1, 1, 2, 3, 0, 255, 255, 2, 1, 2, 4, 130, 1, 3]

theorem connectInitial_bytes (conf : Bytes) (hc : conf.length = 259) : connectInitial conf = ciPrefix ++ conf := by
  unfold connectInitial
  have e1 : derOctets [1] = [4, 1, 1] := by decide
  have e2 : domainParameters [34, 2, 0, 1, 0, 1, 0xffff, 2] = [48, 26, 2, 1, 34, 2, 1, 2, 2, 1, 0, 2, 1, 1, 2, 1, 0, 2, 1, 1, 2, 3, 0, 255, 255, 2, 1, 2] := by decide
  have e3 : domainParameters [1, 1, 1, 1, 0, 1, 0x420, 2] = [48, 25, 2, 1, 1, 2, 1, 1, 2, 1, 1, 2, 1, 1, 2, 1, 0, 2, 1, 1, 2, 2, 4, 32, 2, 1, 2] := by decide
  have e4 : domainParameters [0xffff, 0xfc17, 0xffff, 1, 0, 1, 0xffff, 2] = [48, 32, 2, 3, 0, 255, 255, 2, 3, 0, 252, 23, 2, 3, 0, 255, 255, 2, 1, 1, 2, 1, 0, 2, 1, 1, 2, 3, 0, 255, 255, 2, 1, 2] := by decide
  have e5 : derOctets conf = [4, 130, 1, 3] ++ conf := by
    simp only [derOctets, derTLV, hc]
    have : derLen 259 = [130, 1, 3] := by decide
    rw [this]; rfl
  rw [e1, e2, e3, e4, e5]
  generalize hB : ([4, 1, 1] ++ [4, 1, 1] ++ [1, 1, 255] ++ [48, 26, 2, 1, 34, 2, 1, 2, 2, 1, 0, 2, 1, 1, 2, 1, 0, 2, 1, 1, 2, 3, 0, 255, 255, 2, 1, 2] ++
      [48, 25, 2, 1, 1, 2, 1, 1, 2, 1, 1, 2, 1, 1, 2, 1, 0, 2, 1, 1, 2, 2, 4, 32, 2, 1, 2] ++
      [48, 32, 2, 3, 0, 255, 255, 2, 3, 0, 252, 23, 2, 3, 0, 255, 255, 2, 1, 1, 2, 1, 0, 2, 1, 1, 2, 3, 0, 255, 255, 2, 1, 2] ++ ([4, 130, 1, 3] ++ conf) : Bytes) = body
  have hbl : body.length = 361 := by rw [← hB]; simp [hc]
  show ([127, 101] : Bytes) ++ Nla.derLen body.length ++ body = ciPrefix ++ conf
  rw [hbl]
  have : Nla.derLen 361 = [130, 1, 105] := by decide
  rw [this, ← hB]
  simp [ciPrefix]

theorem connectInitial_strict (conf : Bytes) (hc : conf.length = 259) (hg : gccCreateRequest conf = .ok ()) :
    Strict.connectInitial (ciPrefix ++ conf) = .ok () := by
  unfold Strict.connectInitial ciPrefix
  simp [takeN, Strict.derLen, tlv, Strict.u8, derInt, domainParams, domainParams.go, need, bind, Except.bind, pure, Except.pure, hc, leNat]
  rw [List.take_of_length_le (by omega)]
  exact hg

/-- **The connect-initial frame is well formed for every configuration.**  For every screen
    size, layout, selected protocol and client name (any Unicode string), the frame carrying
    MCS connect-initial is accepted by the strict decoders at every layer: TPKT length, X.224
    data header, BER structure with exact definite lengths, the three domain-parameter sets,
    the T.124 conference-create request with both PER lengths equal to the sizes they
    describe, and the three client data blocks (core with its fixed 32-byte terminated name,
    security, network) whose length fields sum to the user data. -/
theorem c04_connectInitial_strict (w h layout selected : Nat) (name : List Char) (hw : 1 ≤ w ∧ w < 65536)
    (hh : 1 ≤ h ∧ h < 65536) (hl : layout < 4294967296) (hs : selected < 4294967296) :
    ∃ f, connectInitialFrame w h layout selected name = .ok f ∧ Strict.frame f = .ok () := by
  have hud := c04_userData_size w h layout selected name
  have hb := userData_strict w h layout selected name hw hh hl hs
  unfold connectInitialFrame
  rw [conference_bytes _ hud]
  simp only [Outcome.bind_ok]
  generalize hC : ([0, 5, 0, 20, 124, 0, 1, 0x80, 250, 0, 8, 0, 0x10, 0, 1, 0xc0, 0, 0x44, 0x75, 0x63, 0x61, 0x80, 236] ++ userData w h layout selected name : Bytes) = conf
  have hc : conf.length = 259 := by rw [← hC]; simp [hud]
  have hg : gccCreateRequest conf = .ok () := by rw [← hC]; exact gcc_strict _ hud hb
  rw [connectInitial_bytes conf hc]
  have hlen : (ciPrefix ++ conf).length = 366 := by simp [ciPrefix, hc]
  unfold x224Frame
  simp only [x224DataHeader, List.length_append, List.length_cons, List.length_nil, hlen]
  rw [if_neg (by omega)]
  refine ⟨_, rfl, ?_⟩
  have hth : tpktHeader (0 + 1 + 1 + 1 + 366) = [3, 0, 1, 117] := by decide
  rw [hth]
  have hci := connectInitial_strict conf hc hg
  have hm : mcsPdu (ciPrefix ++ conf) = Strict.connectInitial (ciPrefix ++ conf) := by
    simp [ciPrefix, mcsPdu]
  unfold Strict.frame
  have ht : takeN 4 ([3, 0, 1, 117] ++ ([2, 240, 128] ++ (ciPrefix ++ conf))) "TPKT header" = .ok ([3, 0, 1, 117], [2, 240, 128] ++ (ciPrefix ++ conf)) :=
    takeN_len 4 [3, 0, 1, 117] _ _ rfl
  rw [ht]
  simp only [bind, Except.bind, need]
  rw [if_pos (by decide)]
  simp only
  rw [if_pos (by simp [hlen, leNat])]
  simp only [List.cons_append, List.nil_append]
  rw [hm, hci]

/-- erect-domain, attach-user and the disconnect ultimatum are fixed frames accepted by the
    strict decoder -/
theorem c04_fixed_frames_strict :
    (∃ f, x224Frame erectDomain = .ok f ∧ Strict.frame f = .ok ()) ∧
    (∃ f, x224Frame attachUser = .ok f ∧ Strict.frame f = .ok ()) ∧
    (∃ f, x224Frame Mcs.disconnectUltimatum = .ok f ∧ Strict.frame f = .ok ()) := by
  refine ⟨⟨_, rfl, rfl⟩, ⟨_, rfl, rfl⟩, ⟨_, rfl, rfl⟩⟩

/-- a channel-join request is accepted for every assigned user id and channel -/
theorem c04_join_strict (uid chan : Nat) (h : 1001 ≤ uid) :
    ∃ p f, channelJoin uid chan = .ok p ∧ x224Frame p = .ok f ∧ Strict.frame f = .ok () := by
  have hj : channelJoin uid chan = .ok ([0x38] ++ be16 (uid - 1001) ++ be16 chan) := by
    simp [channelJoin, checkedSub, h]
  have hab : be16 (uid - 1001) = [UInt8.ofNat ((uid - 1001) / 256 % 256), UInt8.ofNat ((uid - 1001) % 256)] := by simp [be16, encInt, leBytes]
  have hcd : be16 chan = [UInt8.ofNat (chan / 256 % 256), UInt8.ofNat (chan % 256)] := by simp [be16, encInt, leBytes]
  generalize UInt8.ofNat ((uid - 1001) / 256 % 256) = a at hab
  generalize UInt8.ofNat ((uid - 1001) % 256) = b at hab
  generalize UInt8.ofNat (chan / 256 % 256) = c at hcd
  generalize UInt8.ofNat (chan % 256) = d at hcd
  refine ⟨[0x38, a, b, c, d], [3, 0, 0, 12, 2, 0xf0, 0x80, 0x38, a, b, c, d], ?_, ?_, ?_⟩
  · rw [hj, hab, hcd]; rfl
  · simp [x224Frame, x224DataHeader, tpktHeader]
  · simp [Strict.frame, takeN, bind, Except.bind, need, leNat, mcsPdu]

/-! ### the Client Info frame, all layers -/

theorem u8_cons (x : UInt8) (r : Bytes) (w : String) : Strict.u8 (x :: r) w = .ok (x.toNat, r) := by
  simp [Strict.u8, takeN, bind, Except.bind, pure, Except.pure, leNat]

theorem perLen_writeLength (n : Nat) (r : Bytes) (h : n < 32768) : perLen (Per.writeLength n ++ r) = .ok (n, r) := by
  unfold Per.writeLength perLen
  by_cases hn : n > 0x7f
  · rw [if_pos hn]
    have hor : n ||| 0x8000 = 32768 + n := by
      have := Nat.two_pow_add_eq_or_of_lt (i := 15) (b := n) (by omega) 1
      simp at this
      rw [Nat.or_comm]; omega
    rw [hor]
    have e : encInt .be 2 (32768 + n) = [UInt8.ofNat ((32768 + n) / 256 % 256), UInt8.ofNat ((32768 + n) % 256)] := by
      simp [encInt, leBytes]
    rw [e]
    simp only [List.cons_append, List.nil_append, u8_cons, bind, Except.bind]
    have hx : ¬ ((UInt8.ofNat ((32768 + n) / 256 % 256)).toNat < 0x80) := by simp; omega
    rw [if_neg hx]
    simp only [u8_cons, pure, Except.pure]
    congr 2
    simp; omega
  · rw [if_neg hn]
    simp only [List.cons_append, List.nil_append, u8_cons, bind, Except.bind]
    have hx : (UInt8.ofNat n).toNat < 0x80 := by simp; omega
    rw [if_pos hx]
    simp only [pure, Except.pure]
    congr 2
    simp; omega
end Rdp.Emit

namespace Rdp.Emit
open Rdp Rdp.Spec Rdp.Spec.Strict Rdp.Nla Rdp.Secrets

theorem takeN_cons2 (a b : UInt8) (r : Bytes) (w : String) : takeN 2 (a :: b :: r) w = .ok ([a, b], r) :=
  takeN_len 2 [a, b] r w rfl
theorem b16_cons (a b : UInt8) (r : Bytes) (w : String) : b16 (a :: b :: r) w = .ok (b.toNat + 256 * a.toNat, r) := by
  unfold b16
  rw [takeN_cons2]
  simp only [bind, Except.bind, pure, Except.pure, List.reverse_cons, List.reverse_nil, List.nil_append, List.cons_append, leNat]
  simp
theorem u8_consB (x : UInt8) (r : Bytes) (w : String) : Strict.u8 (x :: r) w = .ok (x.toNat, r) := by
  unfold Strict.u8
  rw [show x :: r = [x] ++ r from rfl, takeN_len 1 [x] r w rfl]
  simp [bind, Except.bind, pure, Except.pure, leNat]

theorem mcsPdu_sdrq (a b c d : UInt8) (rest : Bytes) :
    mcsPdu (0x64 :: a :: b :: c :: d :: 0x70 :: rest) =
      (perLen rest).bind fun (n, r) =>
        (need (n = r.length) "send-data-request length ≠ size").bind fun _ =>
          sdrqUserData (b.toNat + 256 * a.toNat + 1001) r := by
  unfold mcsPdu
  simp only
  rw [if_neg (by decide), if_neg (by decide), if_neg (by decide), if_neg (by decide), if_pos (by decide)]
  simp only [bind, Except.bind]
  rw [b16_cons]; simp only
  rw [b16_cons]; simp only
  rw [u8_consB]; simp only [need]
  rw [if_pos (by simp)]
theorem frame_dt (x y : UInt8) (p : Bytes) (hlen : y.toNat + 256 * x.toNat = p.length + 7) :
    Strict.frame ([3, 0, x, y] ++ (2 :: 0xF0 :: 0x80 :: p)) = mcsPdu p := by
  unfold Strict.frame
  rw [takeN_len 4 [3, 0, x, y] _ _ rfl]
  simp only [bind, Except.bind, need]
  rw [if_pos (by simp)]
  simp only
  have hsz : leNat (List.drop 2 [3, 0, x, y]).reverse = ([3, 0, x, y] ++ (2 :: 0xF0 :: 0x80 :: p)).length := by
    show leNat [y, x] = _
    simp only [leNat, List.length_append, List.length_cons, List.length_nil]
    omega
  rw [if_pos (by simpa using hsz)]

/-- **The Client Info frame is well formed.**  For every assigned user id and every credential
    set whose info packet fits the 15-bit MCS length, the complete frame — TPKT, X.224, the
    send-data-request with initiator, channel 1003 and its PER length, and the info packet —
    is accepted by the strict decoders. -/
theorem c04_infoFrame_strict (uid : Nat) (m : Mode) (ext : Bool) (d u p : List Char)
    (h1 : 1001 ≤ uid) (h2 : uid ≤ 65535)
    (hd : (utf16le d).length < 65536) (hu : (utf16le u).length < 65536) (hp : (utf16le p).length < 65536)
    (hl : (infoPdu m ext d u p).length < 32768) :
    ∃ f, Mcs.sendFrame uid 1003 (infoPdu m ext d u p) = .ok f ∧ Strict.frame f = .ok () := by
  have hinfo : ∀ ini, Strict.sdrqUserData ini (infoPdu m ext d u p) = .ok () := by
    intro ini
    unfold infoPdu
    split
    · exact c04_clientInfo_strict ini ext m.autoLogon [] [] [] (by decide) (by decide) (by decide)
    · exact c04_clientInfo_strict ini ext m.autoLogon d u p hd hu hp
  generalize hM : infoPdu m ext d u p = msg at hl hinfo
  unfold Mcs.sendFrame Mcs.sendDataRequest
  simp only [checkedSub, h1, if_true, Outcome.bind_ok, Nat.mod_eq_of_lt (show msg.length < 65536 by omega)]
  have hwl : (Per.writeLength msg.length).length ≤ 2 := by unfold Per.writeLength; split <;> simp [encInt]
  have hab : encInt .be 2 (uid - 1001) = [UInt8.ofNat ((uid - 1001) / 256 % 256), UInt8.ofNat ((uid - 1001) % 256)] := by simp [encInt, leBytes]
  have hcd : encInt .be 2 1003 = [3, 235] := by decide
  rw [hab, hcd]
  generalize UInt8.ofNat ((uid - 1001) / 256 % 256) = a
  generalize UInt8.ofNat ((uid - 1001) % 256) = b
  generalize hW : Per.writeLength msg.length = wl at hwl
  have hper : perLen (wl ++ msg) = .ok (msg.length, msg) := by rw [← hW]; exact perLen_writeLength _ _ hl
  simp only [x224DataHeader, List.length_append, List.length_cons, List.length_nil]
  rw [if_neg (by omega)]
  refine ⟨_, rfl, ?_⟩
  generalize hN : (0 + 1 + 1 + 1 + (0 + 1 + (0 + 1 + 1) + (0 + 1 + 1) + (0 + 1) + wl.length + msg.length)) = n
  have hn : n + 4 < 65536 := by omega
  unfold Strict.frame tpktHeader
  simp only [List.cons_append, List.nil_append]
  have hlen : (wl ++ msg).length + 13 = n + 4 := by rw [← hN]; simp only [List.length_append]; omega
  show Strict.frame ([3, 0, UInt8.ofNat ((n + 4) / 256), UInt8.ofNat ((n + 4) % 256)] ++ (2 :: 0xF0 :: 0x80 :: (0x64 :: a :: b :: 3 :: 235 :: 0x70 :: (wl ++ msg)))) = .ok ()
  rw [frame_dt _ _ _ (by
    simp only [UInt8.toNat_ofNat', Nat.reducePow, List.length_cons]
    simp only [List.length_append] at hlen ⊢
    omega)]
  rw [mcsPdu_sdrq, hper]
  simp only [Except.bind, need]
  rw [if_pos (by simp)]
  simp only
  exact hinfo _

end Rdp.Emit

namespace Rdp.Emit
open Rdp Rdp.Spec Rdp.Spec.Strict Rdp.Global

/-! ### the strict decoder accepts the Confirm Active PDU for every configuration -/

theorem capSets_step (n ty : Nat) (b rest : Bytes) (hty : ty < 65536) (hb : b.length + 4 < 65536)
    (hsz : ∀ ls, capSizes.lookup ty = some ls → (b.length + 4) ∈ ls) :
    capSets (n + 1) (capWire ty b ++ rest) = capSets n rest := by
  have e : capWire ty b ++ rest = le16 ty ++ (le16 (b.length + 4) ++ (b ++ rest)) := by
    simp [capWire, le16, le16, List.append_assoc]
  rw [e]
  conv => lhs; unfold capSets
  simp only [bind, Except.bind]
  rw [u16_le16 ty _ _ hty]
  simp only
  rw [u16_le16 (b.length + 4) _ _ hb]
  simp only [need, show b.length + 4 ≥ 4 by omega, Nat.add_sub_cancel]
  rw [takeN_len b.length b rest _ rfl]
  simp only
  cases hl : capSizes.lookup ty with
  | none => simp
  | some ls => simp [hsz ls hl]

/-- **Confirm Active is well formed** for every screen size, keyboard layout, client name,
    share id and user id: the strict decoder accepts the share-control PDU the model of
    `write_confirm_active_pdu` produces — total length, source = the MCS user, originator 0x03EA,
    source-descriptor and combined-capabilities lengths equal to what they describe, twelve
    capability sets each with the length of its kind. -/
theorem c04_confirmActive_strict (c : GClient) (hn : c.name.length < 60000) (hu : c.userId < 65536)
    (hs : c.shareId.getD 0 < 4294967296) :
    ∃ b, confirmActiveBytes c = .ok b ∧ Strict.shareControl c.userId b = .ok () := by
  obtain ⟨b3, b4, b5, b6, b8, b9, b10, b11, b12, l3, l4, l5, l6, l8, l9, l10, l11, l12, hb⟩ :=
    confirmActiveBytes_eq c hn
  refine ⟨_, hb, ?_⟩
  have lg := genBytes_length
  have lb := bmpBytes_length c.width c.height
  have li := inpBytes_length c.layout
  have hcw : (capsWire c b3 b4 b5 b6 b8 b9 b10 b11 b12).length = 376 := by
    simp only [capsWire, capWire, List.flatten_cons, List.flatten_nil, List.length_append, List.length_nil,
      Global.gle16_length, lg, lb, li, l3, l4, l5, l6, l8, l9, l10, l11, l12]
  have hbody : (caBody c b3 b4 b5 b6 b8 b9 b10 b11 b12).length = c.name.length + 390 := by
    simp only [caBody, List.length_append, Global.gle16_length, Global.gle32_length, hcw]; omega
  -- share control header
  have e1 : le16 (c.name.length + 396) ++ le16 0x13 ++ le16 c.userId ++ caBody c b3 b4 b5 b6 b8 b9 b10 b11 b12
      = le16 (c.name.length + 396) ++ (le16 0x13 ++ (le16 c.userId ++ caBody c b3 b4 b5 b6 b8 b9 b10 b11 b12)) := by
    simp [le16, le16, List.append_assoc]
  have htot : (le16 (c.name.length + 396) ++ (le16 0x13 ++ (le16 c.userId ++ caBody c b3 b4 b5 b6 b8 b9 b10 b11 b12))).length
      = c.name.length + 396 := by simp [hbody]; omega
  rw [e1]
  unfold Strict.shareControl
  simp only [bind, Except.bind]
  rw [u16_le16 _ _ _ (by omega)]
  simp only [need, htot, if_true]
  rw [u16_le16 0x13 _ _ (by decide)]
  simp only
  rw [u16_le16 c.userId _ _ hu]
  simp only [if_true]
  -- the confirm-active body
  have e2 : caBody c b3 b4 b5 b6 b8 b9 b10 b11 b12 =
      le32 (c.shareId.getD 0) ++ (le16 0x03EA ++ (le16 c.name.length ++ (le16 380 ++ (c.name ++ (le16 12 ++ (le16 0 ++
        capsWire c b3 b4 b5 b6 b8 b9 b10 b11 b12)))))) := by
    simp [caBody, le16, le32, le16, le32, List.append_assoc]
  rw [e2]
  unfold Strict.confirmActive
  simp only [bind, Except.bind]
  rw [u32_le32 _ _ _ hs]
  simp only
  rw [u16_le16 0x03EA _ _ (by decide)]
  simp only [need, if_true]
  rw [u16_le16 c.name.length _ _ (by omega)]
  simp only
  rw [u16_le16 380 _ _ (by decide)]
  simp only
  rw [takeN_len c.name.length c.name _ _ rfl]
  simp only
  have hr : (le16 12 ++ (le16 0 ++ capsWire c b3 b4 b5 b6 b8 b9 b10 b11 b12)).length = 380 := by simp [hcw]
  simp only [hr, if_true]
  rw [u16_le16 12 _ _ (by decide)]
  simp only
  rw [u16_le16 0 _ _ (by decide)]
  simp only
  -- twelve capability sets
  have hsz : ∀ (ty L : Nat) ls, capSizes.lookup ty = some ls → L ∈ ls →
      ∀ ls', capSizes.lookup ty = some ls' → L ∈ ls' := by
    intro ty L ls h1 h2 ls' h3; rw [h1] at h3; injection h3 with h3; rw [← h3]; exact h2
  unfold capsWire
  simp only [List.flatten_cons, List.flatten_nil]
  rw [capSets_step 11 1 genBytes _ (by decide) (by rw [lg]; decide) (hsz 1 _ [24] (by decide) (by rw [lg]; decide))]
  rw [capSets_step 10 2 _ _ (by decide) (by rw [lb]; decide) (hsz 2 _ [28, 30] (by decide) (by rw [lb]; decide))]
  rw [capSets_step 9 3 b3 _ (by decide) (by rw [l3]; decide) (hsz 3 _ [88] (by decide) (by rw [l3]; decide))]
  rw [capSets_step 8 4 b4 _ (by decide) (by rw [l4]; decide) (hsz 4 _ [40] (by decide) (by rw [l4]; decide))]
  rw [capSets_step 7 8 b5 _ (by decide) (by rw [l5]; decide) (hsz 8 _ [8, 10] (by decide) (by rw [l5]; decide))]
  rw [capSets_step 6 0xC b6 _ (by decide) (by rw [l6]; decide) (hsz 0xC _ [8] (by decide) (by rw [l6]; decide))]
  rw [capSets_step 5 0xD _ _ (by decide) (by rw [li]; decide) (hsz 0xD _ [88] (by decide) (by rw [li]; decide))]
  rw [capSets_step 4 0xF b8 _ (by decide) (by rw [l8]; decide) (hsz 0xF _ [8] (by decide) (by rw [l8]; decide))]
  rw [capSets_step 3 0x10 b9 _ (by decide) (by rw [l9]; decide) (hsz 0x10 _ [52] (by decide) (by rw [l9]; decide))]
  rw [capSets_step 2 0x11 b10 _ (by decide) (by rw [l10]; decide) (hsz 0x11 _ [12] (by decide) (by rw [l10]; decide))]
  rw [capSets_step 1 0x14 b11 _ (by decide) (by rw [l11]; decide) (hsz 0x14 _ [8, 12] (by decide) (by rw [l11]; decide))]
  rw [capSets_step 0 0x1A b12 _ (by decide) (by rw [l12]; decide) (hsz 0x1A _ [8] (by decide) (by rw [l12]; decide))]
  simp [capSets, need]

end Rdp.Emit
