import RdpModel.Lemmas.FastPath
import RdpModel.Lemmas.GlobalTotal
/-
  C10 — Every bitmap rectangle the server sends reaches the application exactly once.
-/
namespace Rdp.Global
open Rdp Rdp.Schema Rdp.Spec.FastPath

/-- colour-pointer updates are parsed (and discarded) by the client; that parse must not
    panic.  Explicit hypothesis here; discharged for every byte string by the totality
    theorem of C06 (`c06_colorPointer_total`). -/
def PointerParseSafe (us : List Update) : Prop :=
  ∀ d, Update.other 9 d ∈ us → ∀ p, readAll colorPointerTmpl d ≠ .panic p

theorem fpUpdate_bitmap (rects : List Rect) (h : UpdInRange (.bitmap rects)) :
    fpUpdate (updMsg (.bitmap rects)) = .ok (rects.map toEv) := by
  obtain ⟨hr, hn, hb⟩ := h
  have hrd : readAll fpUpdateBitmapTmpl (Update.bitmap rects).body = .ok (bitmapUpdMsg rects) := by
    have := read_enc true _ _ [] (bitmapUpd_ok rects hr hn) (fun _ => rfl)
    rw [bitmapUpd_enc, List.append_nil] at this
    simp [readAll, this]
  have hcode : (Update.bitmap rects).code = 1 := rfl
  simp only [fpUpdate, updMsg, castComp, unwrapVisit, Outcome.bind_ok, castU8, field, lookupField,
    if_true, hcode, castSlice, blob]
  simp only [String.reduceEq, if_false, if_true, unwrapVisit, Outcome.bind_ok]
  have e1 : (1 : Nat) &&& 0xf = 1 := by decide
  simp only [e1, if_true, hrd]
  simp [bitmapUpdMsg, castComp, unwrapVisit, castTrame, field, lookupField, Outcome.bind, rectEvents_map]

theorem fpUpdate_other (c : Nat) (d : Bytes) (h : UpdInRange (.other c d))
    (hsafe : c = 9 → ∀ p, readAll colorPointerTmpl d ≠ .panic p) :
    fpUpdate (updMsg (.other c d)) = .ok [] := by
  obtain ⟨hc, hne, hd⟩ := h
  have hcode : (Update.other c d).code = c := rfl
  have hbody : (Update.other c d).body = d := rfl
  simp only [fpUpdate, updMsg, castComp, unwrapVisit, Outcome.bind_ok, castU8, field, lookupField,
    if_true, hcode, hbody, castSlice, blob]
  simp only [String.reduceEq, if_false, if_true, unwrapVisit, Outcome.bind_ok]
  rw [code_and0f c hc]
  simp only [hne, if_false]
  by_cases h9 : c = 9
  · subst h9
    simp only [if_true]
    cases hr : readAll colorPointerTmpl d with
    | ok m => simp
    | err e => simp
    | panic p => exact absurd hr (hsafe rfl p)
  · simp only [h9, if_false]
    by_cases h3 : c = 3
    · subst h3
      simp [readAll, emptyComp, read, readFields]
    · simp only [h3, if_false]
      by_cases h5 : c = 5
      · subst h5
        simp [readAll, emptyComp, read, readFields]
      · simp [h5]

theorem fpLoopAcc_upds (us : List Update) (h : ∀ u ∈ us, UpdInRange u) (hs : PointerParseSafe us)
    (acc : List BitmapEv) :
    fpLoopAcc (us.map updMsg) acc = (acc ++ (rectsOf us).map toEv, .ok ()) := by
  induction us generalizing acc with
  | nil => simp [fpLoopAcc, rectsOf]
  | cons u us ih =>
    have hu := h u (by simp)
    have hs' : PointerParseSafe us := fun d hd p => hs d (by simp [hd]) p
    cases u with
    | bitmap rects =>
      simp only [List.map_cons, fpLoopAcc, fpUpdate_bitmap rects hu, rectsOf]
      rw [ih (fun x hx => h x (by simp [hx])) hs']
      simp
    | other c d =>
      have := fpUpdate_other c d hu (fun h9 p => hs d (by subst h9; simp) p)
      simp only [List.map_cons, fpLoopAcc, this, rectsOf]
      rw [ih (fun x hx => h x (by simp [hx])) hs']
      simp

/-- Exactly once, in wire order, exact values: in the active state, for every fast-path
    PDU that is the reference encoding of any list of updates — any number of bitmap
    updates with any number of rectangles, with or without the compression header, data
    of any length the 16-bit fields can carry, interleaved with any other update kinds —
    the callbacks made are exactly the transmitted rectangles (position, dimensions,
    depth, compression flag, data), one each, in order; other update kinds contribute
    nothing and do not disturb what follows; the read succeeds and writes nothing. -/
theorem c10_exactly_once (c : GClient) (hs : c.state = .data) (flags : Nat) (us : List Update)
    (h : ∀ u ∈ us, UpdInRange u) (hp : PointerParseSafe us) :
    (step c (.fast flags (encodePdu us))).events = (rectsOf us).map toEv ∧
    (step c (.fast flags (encodePdu us))).res = .ok () ∧
    (step c (.fast flags (encodePdu us))).sent = [] ∧
    (step c (.fast flags (encodePdu us))).client = c := by
  unfold step
  simp only [hs, read_pdu us h, fpLoopAcc_upds us h hp [], List.nil_append, and_self]

/-- the pointer-parse hypothesis holds for every list of updates (totality of `read` on
    closure-safe templates, Msg/Total.lean) -/
theorem pointerParseSafe_all (us : List Update) : PointerParseSafe us :=
  fun d _ p => readAll_noPanic _ safe_colorPointer d p

/-- `c10_exactly_once` with the hypothesis discharged: the full statement. -/
theorem c10_exactly_once_full (c : GClient) (hs : c.state = .data) (flags : Nat) (us : List Update)
    (h : ∀ u ∈ us, UpdInRange u) :
    (step c (.fast flags (encodePdu us))).events = (rectsOf us).map toEv ∧
    (step c (.fast flags (encodePdu us))).res = .ok () ∧
    (step c (.fast flags (encodePdu us))).sent = [] ∧
    (step c (.fast flags (encodePdu us))).client = c :=
  c10_exactly_once c hs flags us h (pointerParseSafe_all us)

/-- non-vacuity: a PDU with a pointer update between two bitmap updates (one rectangle
    with a compression header, one without) meets the hypotheses -/
example : ∀ u ∈ [Update.bitmap [⟨1, 2, 3, 4, 5, 6, 16, 1, [9, 9]⟩], Update.other 5 [],
                  Update.bitmap [⟨0, 0, 0, 0, 1, 1, 32, 0x401, [1, 2, 3, 4]⟩, ⟨0, 0, 0, 0, 1, 1, 32, 0, []⟩]],
    UpdInRange u := by
  intro u hu
  simp only [List.mem_cons, List.not_mem_nil, or_false] at hu
  rcases hu with rfl | rfl | rfl
  · refine ⟨?_, by decide, by decide⟩
    intro r hr; simp at hr; subst hr; unfold RectInRange; decide
  · exact ⟨by decide, by decide, by decide⟩
  · refine ⟨?_, by decide, by decide⟩
    intro r hr; simp at hr; rcases hr with rfl | rfl <;> (unfold RectInRange; decide)

end Rdp.Global
