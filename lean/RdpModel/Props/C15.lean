import RdpModel.Nla.Ntlm
import RdpModel.Spec.NlmpVerify
import RdpModel.Props.C16
/-
  C15 — NTLMv2 AUTHENTICATE tokens are accepted by an independent MS-NLMP server.
  The verifier is `Spec.Nlmp.verify` (written from MS-NLMP 3.2.5.1.2, sharing only the
  hash primitives with the model).  The harness checks that the model's token is the
  implementation's token byte for byte and runs the verifier on the implementation's token.
-/
namespace Rdp.Nla
open Rdp Rdp.Crypto Rdp.Spec.Nlmp Rdp.Schema Rdp.Global

/-- Connecting from an NT hash uses the same account key as connecting from the password
    whose hash it is. -/
theorem c15_hash_equiv (pw16 ud16 : Bytes) : ntowfv2 pw16 ud16 = ntowfv2Hash (md4 pw16) ud16 := rfl

/-- The RC4-wrapped exported session key unwraps under the session base key. -/
theorem c15_key_exchange_unwraps (k ek c : Bytes) (h : rc4k k ek = .ok c) : rc4kSpec k c = ek := by
  unfold rc4k at h
  unfold rc4kSpec
  cases hr : Rc4.new k with
  | ok r =>
    rw [hr] at h; simp only [Outcome.bind_ok] at h
    injection h with h; subst h
    exact (process_roundtrip r ek).1
  | err e => rw [hr] at h; cases h
  | panic p => rw [hr] at h; cases h

/-- and it has the 16 bytes the field table announces -/
theorem c15_key_exchange_length (k ek c : Bytes) (h : rc4k k ek = .ok c) : c.length = ek.length := by
  unfold rc4k at h
  cases hr : Rc4.new k with
  | ok r =>
    rw [hr] at h; simp only [Outcome.bind_ok] at h
    injection h with h; subst h
    exact process_length r ek
  | err e => rw [hr] at h; cases h
  | panic p => rw [hr] at h; cases h

/-- The NT and LM proofs are the MS-NLMP 3.3.2 values for the account key: NTProofStr is
    the HMAC of the server challenge and `temp`, `temp` starts with the response version
    and carries the server's timestamp, the client challenge and the target information;
    the session base key is the HMAC of NTProofStr. -/
theorem c15_proofs (key sc cc ts ti : Bytes) :
    let r := computeResponseV2 key sc cc ts ti
    let temp := [1, 1] ++ zeros 6 ++ ts ++ cc ++ zeros 4 ++ ti
    r.1 = hmacMd5 key (sc ++ temp) ++ temp ∧
    r.2.1 = hmacMd5 key (sc ++ cc) ++ cc ∧
    r.2.2 = hmacMd5 key (hmacMd5 key (sc ++ temp)) := by
  simp [computeResponseV2]

/-! ### the composed token is accepted by the MS-NLMP verifier -/

theorem bind_ok_inv {α β} (o : Outcome α) (k : α → Outcome β) (b : β) (h : o.bind k = .ok b) :
    ∃ a, o = .ok a ∧ k a = .ok b := by
  cases o with
  | ok a => exact ⟨a, rfl, by simpa using h⟩
  | err e => simp at h
  | panic p => simp at h

/-- a successful `read_challenge_message` is the response to the view it parsed -/
theorem readChallenge_staged (i : NtlmIn) (request tok : Bytes) (h : readChallenge i request = .ok tok) :
    ∃ v : ChalView, respond i request v = .ok tok ∧
      (∃ fs, (readAll challengeTmpl request).bind castComp = .ok fs ∧
        castSlice fs "ServerChallenge" = .ok v.sc ∧ castU32 fs "NegotiateFlags" = .ok v.flags) := by
  unfold readChallenge at h
  obtain ⟨m, hm, h⟩ := bind_ok_inv _ _ _ h
  obtain ⟨fs, hfs, h⟩ := bind_ok_inv _ _ _ h
  obtain ⟨sc, hsc, h⟩ := bind_ok_inv _ _ _ h
  obtain ⟨payload, _, h⟩ := bind_ok_inv _ _ _ h
  obtain ⟨msgLen, _, h⟩ := bind_ok_inv _ _ _ h
  obtain ⟨tiLen, _, h⟩ := bind_ok_inv _ _ _ h
  obtain ⟨tiOff, _, h⟩ := bind_ok_inv _ _ _ h
  obtain ⟨ti, _, h⟩ := bind_ok_inv _ _ _ h
  obtain ⟨ts, _, h⟩ := bind_ok_inv _ _ _ h
  cases ts with
  | none => simp at h
  | some timestamp =>
    simp only at h
    obtain ⟨ek, hek, h⟩ := bind_ok_inv _ _ _ h
    obtain ⟨flags, hflags, h⟩ := bind_ok_inv _ _ _ h
    refine ⟨⟨sc, flags, ti, timestamp⟩, ?_, fs, ?_, hsc, hflags⟩
    · unfold respond
      simp only
      rw [hek]
      simpa using h
    · rw [hm]; simpa using hfs
def fld (b : Bytes) (off : Nat) : Bytes :=
  encInt .le 2 (b.length % 65536) ++ encInt .le 2 (b.length % 65536) ++ encInt .le 4 (off % 4294967296)

def versionBytes : Bytes := [6, 0] ++ encInt .le 2 6002 ++ encInt .le 2 0 ++ [0] ++ [0x0F]

/-- the fixed part of AUTHENTICATE, byte for byte -/
def hdrBytes (lm nt d u w ek : Bytes) (flags : Nat) : Bytes :=
  let offset := if flags &&& NEGOTIATE_VERSION = 0 then 80 else 88
  ntlmSig ++ encInt .le 4 3 ++ fld lm offset ++ fld nt (offset + lm.length) ++
  fld d (offset + lm.length + nt.length) ++ fld u (offset + lm.length + nt.length + d.length) ++
  fld w (offset + lm.length + nt.length + d.length + u.length) ++
  fld ek (offset + lm.length + nt.length + d.length + u.length + w.length) ++
  encInt .le 4 flags ++ (if flags &&& NEGOTIATE_VERSION = 0 then [] else versionBytes)

theorem toVec_authenticate (lm nt d u w ek : Bytes) (flags : Nat) :
    toVec (authenticateMsg lm nt d u w ek flags) = .ok (hdrBytes lm nt d u w ek flags) := by
  by_cases hv : flags &&& NEGOTIATE_VERSION = 0
  · simp [toVec, authenticateMsg, hdrBytes, fld, write, writeFields, options, evalOpt, addSkip, hv, u16le, u32le, blob, versionTmpl, intVal, Outcome.bind]
  · simp [toVec, authenticateMsg, hdrBytes, fld, versionBytes, write, writeFields, writeList, options, evalOpt, addSkip, hv, u16le, u32le, blob, versionTmpl, intVal, Outcome.bind]

theorem hdrBytes_length (lm nt d u w ek : Bytes) (flags : Nat) :
    (hdrBytes lm nt d u w ek flags).length = if flags &&& NEGOTIATE_VERSION = 0 then 64 else 72 := by
  by_cases hv : flags &&& NEGOTIATE_VERSION = 0 <;>
    simp [hdrBytes, fld, versionBytes, hv, ntlmSig, encInt]

macro "hdr_unfold" : tactic => `(tactic| (
  simp only [u32at, u16at, hdrBytes, fld, encInt, leBytes, ntlmSig, List.cons_append, List.nil_append,
      List.append_assoc, List.getD_cons_succ, List.getD_cons_zero]
  simp
  try omega))

theorem hdr_len_lm (lm nt d u w ek : Bytes) (flags : Nat) (rest : Bytes) :
    u16at (hdrBytes lm nt d u w ek flags ++ rest) 12 = lm.length % 65536 := by
  hdr_unfold
theorem hdr_off_lm (lm nt d u w ek : Bytes) (flags : Nat) (rest : Bytes) :
    u32at (hdrBytes lm nt d u w ek flags ++ rest) (12 + 4) =
      ((if flags &&& NEGOTIATE_VERSION = 0 then 80 else 88) + 0) % 4294967296 := by
  hdr_unfold

theorem hdr_len_nt (lm nt d u w ek : Bytes) (flags : Nat) (rest : Bytes) :
    u16at (hdrBytes lm nt d u w ek flags ++ rest) 20 = nt.length % 65536 := by
  hdr_unfold
theorem hdr_off_nt (lm nt d u w ek : Bytes) (flags : Nat) (rest : Bytes) :
    u32at (hdrBytes lm nt d u w ek flags ++ rest) (20 + 4) =
      ((if flags &&& NEGOTIATE_VERSION = 0 then 80 else 88) + lm.length) % 4294967296 := by
  hdr_unfold

theorem hdr_len_d (lm nt d u w ek : Bytes) (flags : Nat) (rest : Bytes) :
    u16at (hdrBytes lm nt d u w ek flags ++ rest) 28 = d.length % 65536 := by
  hdr_unfold
theorem hdr_off_d (lm nt d u w ek : Bytes) (flags : Nat) (rest : Bytes) :
    u32at (hdrBytes lm nt d u w ek flags ++ rest) (28 + 4) =
      ((if flags &&& NEGOTIATE_VERSION = 0 then 80 else 88) + lm.length + nt.length) % 4294967296 := by
  hdr_unfold

theorem hdr_len_u (lm nt d u w ek : Bytes) (flags : Nat) (rest : Bytes) :
    u16at (hdrBytes lm nt d u w ek flags ++ rest) 36 = u.length % 65536 := by
  hdr_unfold
theorem hdr_off_u (lm nt d u w ek : Bytes) (flags : Nat) (rest : Bytes) :
    u32at (hdrBytes lm nt d u w ek flags ++ rest) (36 + 4) =
      ((if flags &&& NEGOTIATE_VERSION = 0 then 80 else 88) + lm.length + nt.length + d.length) % 4294967296 := by
  hdr_unfold

theorem hdr_len_w (lm nt d u w ek : Bytes) (flags : Nat) (rest : Bytes) :
    u16at (hdrBytes lm nt d u w ek flags ++ rest) 44 = w.length % 65536 := by
  hdr_unfold
theorem hdr_off_w (lm nt d u w ek : Bytes) (flags : Nat) (rest : Bytes) :
    u32at (hdrBytes lm nt d u w ek flags ++ rest) (44 + 4) =
      ((if flags &&& NEGOTIATE_VERSION = 0 then 80 else 88) + lm.length + nt.length + d.length + u.length) % 4294967296 := by
  hdr_unfold

theorem hdr_len_ek (lm nt d u w ek : Bytes) (flags : Nat) (rest : Bytes) :
    u16at (hdrBytes lm nt d u w ek flags ++ rest) 52 = ek.length % 65536 := by
  hdr_unfold
theorem hdr_off_ek (lm nt d u w ek : Bytes) (flags : Nat) (rest : Bytes) :
    u32at (hdrBytes lm nt d u w ek flags ++ rest) (52 + 4) =
      ((if flags &&& NEGOTIATE_VERSION = 0 then 80 else 88) + lm.length + nt.length + d.length + u.length + w.length) % 4294967296 := by
  hdr_unfold

theorem hdr_type (lm nt d u w ek : Bytes) (flags : Nat) (rest : Bytes) :
    u32at (hdrBytes lm nt d u w ek flags ++ rest) 8 = 3 := by
  hdr_unfold
theorem hdr_flags (lm nt d u w ek : Bytes) (flags : Nat) (rest : Bytes) :
    u32at (hdrBytes lm nt d u w ek flags ++ rest) 60 = flags % 4294967296 := by
  hdr_unfold
theorem hdr_sig (lm nt d u w ek : Bytes) (flags : Nat) (rest : Bytes) :
    (hdrBytes lm nt d u w ek flags ++ rest).take 8 = [0x4e, 0x54, 0x4c, 0x4d, 0x53, 0x53, 0x50, 0x00] := by
  simp [hdrBytes, ntlmSig]

theorem slice_mid (pre x post : Bytes) : ((pre ++ x ++ post).drop pre.length).take x.length = x := by
  rw [List.append_assoc, List.drop_left' rfl, List.take_left' rfl]

theorem fieldAt_slice (tok pre x post : Bytes) (o minOff : Nat) (hlen : u16at tok o = x.length)
    (hoff : u32at tok (o + 4) = pre.length) (htok : tok = pre ++ x ++ post) (hmin : minOff ≤ pre.length) :
    fieldAt tok o minOff = some x := by
  unfold fieldAt
  simp only [hlen, hoff]
  by_cases hx : x.length = 0
  · rw [if_pos hx]; rw [List.length_eq_zero_iff.mp hx]
  · rw [if_neg hx]
    have hl : tok.length = pre.length + x.length + post.length := by rw [htok]; simp; omega
    rw [if_neg (by omega)]
    rw [htok, slice_mid]


theorem verify_accepts (s : Server) (tok lm nt ws ek : Bytes) (micOff : Nat)
    (hmo : (if s.flags &&& 0x02000000 ≠ 0 then 72 else 64) = micOff)
    (h1 : micOff + 16 ≤ tok.length)
    (h2 : tok.take 8 = [0x4e, 0x54, 0x4c, 0x4d, 0x53, 0x53, 0x50, 0x00])
    (h3 : u32at tok 8 = 3) (h4 : u32at tok 60 = s.flags)
    (f1 : fieldAt tok 12 (micOff + 16) = some lm) (f2 : fieldAt tok 20 (micOff + 16) = some nt)
    (f3 : fieldAt tok 28 (micOff + 16) = some s.domain) (f4 : fieldAt tok 36 (micOff + 16) = some s.user)
    (f5 : fieldAt tok 44 (micOff + 16) = some ws) (f6 : fieldAt tok 52 (micOff + 16) = some ek)
    (hnt : 44 ≤ nt.length) (hrv : (nt.drop 16).take 2 = [1, 1])
    (hproof : nt.take 16 = hmacMd5 s.accountKey (s.serverChallenge ++ nt.drop 16))
    (hlm : lm = hmacMd5 s.accountKey (s.serverChallenge ++ ((nt.drop 16).drop 16).take 8) ++ ((nt.drop 16).drop 16).take 8)
    (hekl : ek.length = 16)
    (hmic : (tok.drop micOff).take 16 =
      hmacMd5 (rc4kSpec (hmacMd5 s.accountKey (nt.take 16)) ek)
        (s.negotiate ++ s.challenge ++ (tok.take micOff ++ List.replicate 16 0 ++ tok.drop (micOff + 16)))) :
    verify s tok = .accept (rc4kSpec (hmacMd5 s.accountKey (nt.take 16)) ek) := by
  unfold verify
  simp only [hmo]
  rw [if_neg (by omega)]
  rw [if_neg (by simp [h2])]
  rw [if_neg (by simp [h3])]
  rw [if_neg (by simp [h4])]
  simp only [f1, f2, f3, f4, f5, f6]
  rw [if_neg (by simp)]
  rw [if_neg (by simp)]
  rw [if_neg (by omega)]
  rw [if_neg (by simp [hrv])]
  rw [if_neg (by simp [hproof])]
  rw [if_neg (by rw [hlm]; simp)]
  rw [if_neg (by simp [hekl])]
  rw [if_neg (by simp [hmic])]

/-- **Acceptance.**  For every account key, every name, every server challenge, flag set,
    target-information block and every value of the two random inputs, the AUTHENTICATE token
    the client builds in response to a CHALLENGE is accepted by the independent MS-NLMP
    verifier, which recovers the exported session key: the field table addresses every field
    inside the token, NTProofStr and the LMv2 response verify against the account key, the
    RC4-wrapped session key unwraps, and the MIC verifies over the three messages.
    Hypotheses: the sizes MS-NLMP itself can express (an 8-byte timestamp, 8-byte client
    challenge, 16-byte session key, names and target information that fit 16-bit lengths). -/
theorem c15_accept (i : NtlmIn) (request tok : Bytes) (v : ChalView)
    (h : respond i request v = .ok tok)
    (hts : v.timestamp.length = 8) (hcc : i.clientChallenge.length = 8) (hek : i.exportedKey.length = 16)
    (hfl : v.flags < 4294967296) (hti : v.targetInfo.length + 48 < 65536)
    (hd16 : i.domainU16.length < 65536) (hd8 : i.domainRaw.length < 65536)
    (hu16 : i.userU16.length < 65536) (hu8 : i.userRaw.length < 65536) :
    verify ⟨i.key, i.negotiate, request, v.sc, v.flags,
            (if v.flags &&& 1 = 1 then i.domainU16 else i.domainRaw),
            (if v.flags &&& 1 = 1 then i.userU16 else i.userRaw)⟩ tok = .accept i.exportedKey := by
  unfold respond at h
  simp only [computeResponseV2] at h
  obtain ⟨ekx, hrc, h⟩ := bind_ok_inv _ _ _ h
  rw [toVec_authenticate] at h
  simp only [Outcome.bind_ok] at h
  have htok := Outcome.ok.inj h
  clear h
  -- names
  generalize hdom : (if v.flags &&& 1 = 1 then i.domainU16 else i.domainRaw) = dom at htok ⊢
  generalize husr : (if v.flags &&& 1 = 1 then i.userU16 else i.userRaw) = usr at htok ⊢
  have hdl : dom.length < 65536 := by rw [← hdom]; split <;> assumption
  have hul : usr.length < 65536 := by rw [← husr]; split <;> assumption
  generalize htemp : ([1, 1] ++ zeros 6 ++ v.timestamp ++ i.clientChallenge ++ zeros 4 ++ v.targetInfo : Bytes) = temp at htok hrc
  have htl : temp.length = 28 + v.targetInfo.length := by rw [← htemp]; simp [zeros, hts, hcc]; omega
  generalize hntp : hmacMd5 i.key (v.sc ++ temp) = ntp at htok hrc
  have hntpl : ntp.length = 16 := by rw [← hntp]; exact hmacMd5_length _ _
  generalize hlmh : hmacMd5 i.key (v.sc ++ i.clientChallenge) = lmh at htok
  have hlmhl : lmh.length = 16 := by rw [← hlmh]; exact hmacMd5_length _ _
  have hekl : ekx.length = 16 := by rw [c15_key_exchange_length _ _ _ hrc, hek]
  have hunwrap := c15_key_exchange_unwraps _ _ _ hrc
  generalize hhb : hdrBytes (lmh ++ i.clientChallenge) (ntp ++ temp) dom usr [] ekx v.flags = hb at htok
  have hhbl : hb.length = if v.flags &&& NEGOTIATE_VERSION = 0 then 64 else 72 := by rw [← hhb]; exact hdrBytes_length _ _ _ _ _ _ _
  generalize hmic : hmacMd5 i.exportedKey (i.negotiate ++ request ++ (hb ++ zeros 16 ++ (lmh ++ i.clientChallenge ++ (ntp ++ temp) ++ dom ++ usr ++ [] ++ ekx))) = mic at htok
  have hmicl : mic.length = 16 := by rw [← hmic]; exact hmacMd5_length _ _
  -- the token and its parts
  have hlm : (lmh ++ i.clientChallenge).length = 24 := by simp [hlmhl, hcc]
  have hnt : (ntp ++ temp).length = 44 + v.targetInfo.length := by simp [hntpl, htl]; omega
  generalize hLM : lmh ++ i.clientChallenge = lm at htok hhb hmic hlm
  generalize hNT : ntp ++ temp = nt at htok hhb hmic hnt
  have htokH : tok = hdrBytes lm nt dom usr [] ekx v.flags ++ (mic ++ (lm ++ nt ++ dom ++ usr ++ [] ++ ekx)) := by
    rw [← htok, hhb]; simp [List.append_assoc]
  have hoff : (if v.flags &&& NEGOTIATE_VERSION = 0 then 80 else 88) = hb.length + 16 := by
    rw [hhbl]; split <;> rfl
  have hmo : (if v.flags &&& 0x02000000 ≠ 0 then 72 else 64) = hb.length := by
    rw [hhbl]; simp only [NEGOTIATE_VERSION]; split <;> simp_all
  have hhb72 : 64 ≤ hb.length ∧ hb.length ≤ 72 := by rw [hhbl]; split <;> omega
  have htl' : tok.length = hb.length + 16 + (24 + (44 + v.targetInfo.length) + dom.length + usr.length + 0 + 16) := by
    rw [← htok]; simp [hmicl, hlm, hnt, hekl]; omega
  have res := verify_accepts ⟨i.key, i.negotiate, request, v.sc, v.flags, dom, usr⟩ tok lm nt [] ekx hb.length hmo
    (by omega)
    (by rw [htokH]; exact hdr_sig _ _ _ _ _ _ _ _)
    (by rw [htokH]; exact hdr_type _ _ _ _ _ _ _ _)
    (by rw [htokH, hdr_flags]; exact Nat.mod_eq_of_lt hfl)
    (fieldAt_slice tok (hb ++ mic) lm (nt ++ dom ++ usr ++ [] ++ ekx) 12 _
      (by rw [htokH, hdr_len_lm]; exact Nat.mod_eq_of_lt (by omega))
      (by rw [htokH, hdr_off_lm, hoff]; simp [hmicl]; try omega)
      (by rw [← htok]; simp [List.append_assoc]) (by simp [hmicl]))
    (fieldAt_slice tok (hb ++ mic ++ lm) nt (dom ++ usr ++ [] ++ ekx) 20 _
      (by rw [htokH, hdr_len_nt]; exact Nat.mod_eq_of_lt (by omega))
      (by rw [htokH, hdr_off_nt, hoff]; simp [hmicl, hlm]; try omega)
      (by rw [← htok]; simp [List.append_assoc]) (by simp [hmicl]; try omega))
    (fieldAt_slice tok (hb ++ mic ++ lm ++ nt) dom (usr ++ [] ++ ekx) 28 _
      (by rw [htokH, hdr_len_d]; exact Nat.mod_eq_of_lt hdl)
      (by rw [htokH, hdr_off_d, hoff]; simp [hmicl, hlm, hnt]; try omega)
      (by rw [← htok]; simp [List.append_assoc]) (by simp [hmicl]; try omega))
    (fieldAt_slice tok (hb ++ mic ++ lm ++ nt ++ dom) usr ([] ++ ekx) 36 _
      (by rw [htokH, hdr_len_u]; exact Nat.mod_eq_of_lt hul)
      (by rw [htokH, hdr_off_u, hoff]; simp [hmicl, hlm, hnt]; try omega)
      (by rw [← htok]; simp [List.append_assoc]) (by simp [hmicl]; try omega))
    (fieldAt_slice tok (hb ++ mic ++ lm ++ nt ++ dom ++ usr) [] ekx 44 _
      (by rw [htokH, hdr_len_w]; rfl)
      (by rw [htokH, hdr_off_w, hoff]; simp [hmicl, hlm, hnt]; try omega)
      (by rw [← htok]; simp [List.append_assoc]) (by simp [hmicl]; try omega))
    (fieldAt_slice tok (hb ++ mic ++ lm ++ nt ++ dom ++ usr ++ []) ekx [] 52 _
      (by rw [htokH, hdr_len_ek]; exact Nat.mod_eq_of_lt (by omega))
      (by rw [htokH, hdr_off_ek, hoff]; simp [hmicl, hlm, hnt]; try omega)
      (by rw [← htok]; simp [List.append_assoc]) (by simp [hmicl]; try omega))
    (by omega)
    (by rw [← hNT, List.drop_left' hntpl, ← htemp]; simp)
    (by rw [← hNT, List.take_left' hntpl, List.drop_left' hntpl]; exact hntp.symm)
    (by
      have hcc' : ((nt.drop 16).drop 16).take 8 = i.clientChallenge := by
        rw [← hNT, List.drop_left' hntpl, ← htemp]
        have : ([1, 1] ++ zeros 6 ++ v.timestamp ++ i.clientChallenge ++ zeros 4 ++ v.targetInfo : Bytes)
            = ([1, 1] ++ zeros 6 ++ v.timestamp) ++ (i.clientChallenge ++ (zeros 4 ++ v.targetInfo)) := by simp [List.append_assoc]
        rw [this, List.drop_left' (by simp [zeros, hts]), List.take_left' hcc]
      rw [hcc', ← hLM, hlmh])
    hekl
    (by
      have h16 : (hb ++ mic).length = hb.length + 16 := by simp [hmicl]
      have e1 : (tok.drop hb.length).take 16 = mic := by
        rw [← htok, List.append_assoc, List.drop_left' rfl, List.take_left' hmicl]
      have e2 : tok.take hb.length = hb := by rw [← htok, List.append_assoc, List.take_left' rfl]
      have e3 : tok.drop (hb.length + 16) = lm ++ nt ++ dom ++ usr ++ [] ++ ekx := by
        rw [← htok, ← h16, List.drop_left' rfl]
      have e4 : nt.take 16 = ntp := by rw [← hNT, List.take_left' hntpl]
      rw [e1, e2, e3, e4, hunwrap, ← hmic]
      rfl)
  rw [res, ← hNT, List.take_left' hntpl, hunwrap]

end Rdp.Nla
