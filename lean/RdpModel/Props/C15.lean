import RdpModel.Nla.Ntlm
import RdpModel.Spec.NlmpVerify
import RdpModel.Props.C16
/-
  C15 — NTLMv2 AUTHENTICATE tokens are accepted by an independent MS-NLMP server.
  The verifier is `Spec.Nlmp.verify` (written from MS-NLMP 3.2.5.1.2, sharing only the
  hash primitives with the model).  The harness checks that the model's token is the
  implementation's token byte for byte and runs the verifier on the implementation's token.
-/
namespace Rdp.Nla
open Rdp Rdp.Crypto Rdp.Spec.Nlmp Rdp.Schema

/-- Connecting from an NT hash uses the same account key as connecting from the password
    whose hash it is. -/
theorem c15_hash_equiv (pw16 ud16 : Bytes) : ntowfv2 pw16 ud16 = ntowfv2Hash (md4 pw16) ud16 := rfl

/-- The RC4-wrapped exported session key unwraps under the session base key. -/
theorem c15_key_exchange_unwraps (k ek c : Bytes) (h : rc4k k ek = .ok c) : rc4kSpec k c = ek := by
  unfold rc4k at h
  unfold rc4kSpec
  cases hr : Rc4.new k with
  | ok r =>
    rw [hr] at h; simp only [Outcome.bind_ok] at h
    injection h with h; subst h
    exact (process_roundtrip r ek).1
  | err e => rw [hr] at h; cases h
  | panic p => rw [hr] at h; cases h

/-- and it has the 16 bytes the field table announces -/
theorem c15_key_exchange_length (k ek c : Bytes) (h : rc4k k ek = .ok c) : c.length = ek.length := by
  unfold rc4k at h
  cases hr : Rc4.new k with
  | ok r =>
    rw [hr] at h; simp only [Outcome.bind_ok] at h
    injection h with h; subst h
    exact process_length r ek
  | err e => rw [hr] at h; cases h
  | panic p => rw [hr] at h; cases h

/-- The NT and LM proofs are the MS-NLMP 3.3.2 values for the account key: NTProofStr is
    the HMAC of the server challenge and `temp`, `temp` starts with the response version
    and carries the server's timestamp, the client challenge and the target information;
    the session base key is the HMAC of NTProofStr. -/
theorem c15_proofs (key sc cc ts ti : Bytes) :
    let r := computeResponseV2 key sc cc ts ti
    let temp := [1, 1] ++ zeros 6 ++ ts ++ cc ++ zeros 4 ++ ti
    r.1 = hmacMd5 key (sc ++ temp) ++ temp ∧
    r.2.1 = hmacMd5 key (sc ++ cc) ++ cc ∧
    r.2.2 = hmacMd5 key (hmacMd5 key (sc ++ temp)) := by
  simp [computeResponseV2]

end Rdp.Nla
