import RdpModel.Wire.Session
import RdpModel.Props.C12
/-
  C03 — the connection sequence conforms end to end.
  `Session.connectTrace` is the model of `mcs::Client::connect` + `sec::connect` (the
  emitters are compared byte for byte with the real client on whole connections); the
  activation part (confirm-active, synchronize, control-cooperate, control-request,
  font-list per demand-active) is the Global model of C12.
-/
namespace Rdp.Session
open Rdp Rdp.Emit Rdp.Connect Rdp.Secrets

/-- the complete script of a successful connect phase -/
def fullScript (ci ed au j1 j2 info : Bytes) : List Io :=
  [.w ci, .r, .w ed, .w au, .r, .w j1, .r, .w j2, .r, .w info, .r]

/-- **Order and dependencies.**  On success the trace is exactly: connect-initial, wait;
    erect-domain, attach-user, wait; join, wait; join, wait; client info, wait — and the
    joins and the info packet are built from the user id the attach confirm assigned and
    the version the connect response reported. -/
theorem c03_success (c : Cfg) (r : Replies) (uid : Nat) (sd : ServerData)
    (h : (connectTrace c r).2 = .ok (uid, sd)) :
    readAttachUserConfirm r.au = .ok uid ∧ r.ccr.bind readConferenceCreateResponse = .ok sd ∧
    ∃ ci ed au j1 j2 info, stage1 c r = .ok ci ∧ stage2 = .ok (ed, au) ∧
      joinFrame uid r.first = .ok j1 ∧ joinFrame uid (if r.first = 1003 then uid else 1003) = .ok j2 ∧
      infoFrame c uid sd.version = .ok info ∧
      (connectTrace c r).1 = fullScript ci ed au j1 j2 info := by
  unfold connectTrace at h ⊢
  cases h1 : stage1 c r with
  | err e => rw [h1] at h; simp at h
  | panic p => rw [h1] at h; simp at h
  | ok ci =>
  rw [h1] at h; simp only at h ⊢
  cases h2 : r.ccr.bind readConferenceCreateResponse with
  | err e => rw [h2] at h; simp at h
  | panic p => rw [h2] at h; simp at h
  | ok sd' =>
  rw [h2] at h; simp only at h ⊢
  cases h3 : stage2 with
  | err e => rw [h3] at h; simp at h
  | panic p => rw [h3] at h; simp at h
  | ok ea =>
  obtain ⟨ed, au⟩ := ea
  rw [h3] at h; simp only at h ⊢
  cases h4 : readAttachUserConfirm r.au with
  | err e => rw [h4] at h; simp at h
  | panic p => rw [h4] at h; simp at h
  | ok uid' =>
  rw [h4] at h; simp only at h ⊢
  cases h5 : joinFrame uid' r.first with
  | err e => rw [h5] at h; simp at h
  | panic p => rw [h5] at h; simp at h
  | ok j1 =>
  rw [h5] at h; simp only at h ⊢
  cases h6 : readChannelJoinConfirm uid' r.first r.cjc1 with
  | err e => rw [h6] at h; simp at h
  | panic p => rw [h6] at h; simp at h
  | ok b1 =>
  rw [h6] at h; simp only at h ⊢
  cases h7 : joinFrame uid' (if r.first = 1003 then uid' else 1003) with
  | err e => rw [h7] at h; simp at h
  | panic p => rw [h7] at h; simp at h
  | ok j2 =>
  rw [h7] at h; simp only at h ⊢
  cases h8 : readChannelJoinConfirm uid' (if r.first = 1003 then uid' else 1003) r.cjc2 with
  | err e => rw [h8] at h; simp at h
  | panic p => rw [h8] at h; simp at h
  | ok b2 =>
  rw [h8] at h; simp only at h ⊢
  cases h9 : infoFrame c uid' sd'.version with
  | err e => rw [h9] at h; simp at h
  | panic p => rw [h9] at h; simp at h
  | ok info =>
  rw [h9] at h; simp only at h ⊢
  cases h10 : secRead uid' r.lic with
  | err e => rw [h10] at h; simp at h
  | panic p => rw [h10] at h; simp at h
  | ok u =>
  rw [h10] at h; simp only at h ⊢
  injection h with h
  injection h with hu hs
  subst hu; subst hs
  exact ⟨rfl, rfl, ci, ed, au, j1, j2, info, rfl, rfl, h5, h7, h9, by simp [fullScript]⟩

/-- In every execution — whatever the server answers — the trace is a prefix of such a
    script in which every write after the first is preceded by the read of the reply it
    depends on: nothing is sent ahead of its reply. -/
theorem c03_order (c : Cfg) (r : Replies) :
    ∃ ci ed au j1 j2 info, (connectTrace c r).1 <+: fullScript ci ed au j1 j2 info ∧
      (connectTrace c r).1.length ∈ [0, 2, 5, 7, 9, 11] := by
  unfold connectTrace
  cases stage1 c r with
  | err e => exact ⟨[], [], [], [], [], [], by simp [fullScript], by simp⟩
  | panic p => exact ⟨[], [], [], [], [], [], by simp [fullScript], by simp⟩
  | ok ci =>
  simp only
  cases r.ccr.bind readConferenceCreateResponse with
  | err e => exact ⟨ci, [], [], [], [], [], by simp [fullScript], by simp⟩
  | panic p => exact ⟨ci, [], [], [], [], [], by simp [fullScript], by simp⟩
  | ok sd =>
  simp only
  cases stage2 with
  | err e => exact ⟨ci, [], [], [], [], [], by simp [fullScript], by simp⟩
  | panic p => exact ⟨ci, [], [], [], [], [], by simp [fullScript], by simp⟩
  | ok ea =>
  obtain ⟨ed, au⟩ := ea
  simp only
  cases readAttachUserConfirm r.au with
  | err e => exact ⟨ci, ed, au, [], [], [], by simp [fullScript], by simp⟩
  | panic p => exact ⟨ci, ed, au, [], [], [], by simp [fullScript], by simp⟩
  | ok uid =>
  simp only
  cases joinFrame uid r.first with
  | err e => exact ⟨ci, ed, au, [], [], [], by simp [fullScript], by simp⟩
  | panic p => exact ⟨ci, ed, au, [], [], [], by simp [fullScript], by simp⟩
  | ok j1 =>
  simp only
  cases readChannelJoinConfirm uid r.first r.cjc1 with
  | err e => exact ⟨ci, ed, au, j1, [], [], by simp [fullScript], by simp⟩
  | panic p => exact ⟨ci, ed, au, j1, [], [], by simp [fullScript], by simp⟩
  | ok b1 =>
  simp only
  cases joinFrame uid (if r.first = 1003 then uid else 1003) with
  | err e => exact ⟨ci, ed, au, j1, [], [], by simp [fullScript], by simp⟩
  | panic p => exact ⟨ci, ed, au, j1, [], [], by simp [fullScript], by simp⟩
  | ok j2 =>
  simp only
  cases readChannelJoinConfirm uid (if r.first = 1003 then uid else 1003) r.cjc2 with
  | err e => exact ⟨ci, ed, au, j1, j2, [], by simp [fullScript], by simp⟩
  | panic p => exact ⟨ci, ed, au, j1, j2, [], by simp [fullScript], by simp⟩
  | ok b2 =>
  simp only
  cases infoFrame c uid sd.version with
  | err e => exact ⟨ci, ed, au, j1, j2, [], by simp [fullScript], by simp⟩
  | panic p => exact ⟨ci, ed, au, j1, j2, [], by simp [fullScript], by simp⟩
  | ok info =>
  simp only
  cases secRead uid r.lic with
  | err e => exact ⟨ci, ed, au, j1, j2, info, by simp [fullScript], by simp⟩
  | panic p => exact ⟨ci, ed, au, j1, j2, info, by simp [fullScript], by simp⟩
  | ok u => exact ⟨ci, ed, au, j1, j2, info, by simp [fullScript], by simp⟩

/-! ### the identifiers the server assigned are the ones carried -/

/-- a join request carries the assigned user id (minus 1001) and the channel id -/
theorem c03_join_ids (uid chan : Nat) (h : 1001 ≤ uid) :
    channelJoin uid chan = .ok ([0x38] ++ be16 (uid - 1001) ++ be16 chan) := by
  simp [channelJoin, checkedSub, h]

/-- the info packet (like every later PDU) is sent by the assigned user on channel 1003 -/
theorem c03_info_ids (uid : Nat) (msg : Bytes) (h : 1001 ≤ uid) :
    Mcs.sendDataRequest uid 1003 msg =
      .ok ([0x64] ++ encInt .be 2 (uid - 1001) ++ encInt .be 2 1003 ++ [0x70] ++ Per.writeLength (msg.length % 65536) ++ msg) := by
  simp [Mcs.sendDataRequest, checkedSub, h]

/-! ### a conforming server is accepted -/

theorem be16_two (n : Nat) : ∃ a b, be16 n = [a, b] ∧ (n < 65536 → a.toNat * 256 + b.toNat = n) := by
  refine ⟨UInt8.ofNat (n / 256 % 256), UInt8.ofNat (n % 256), by simp [be16, encInt, leBytes], ?_⟩
  intro h
  simp
  omega

/-- attach-user-confirm of a conforming server, any user id 1001..65535 -/
theorem c03_attach_conforming (uid : Nat) (h1 : 1001 ≤ uid) (h2 : uid ≤ 65535) :
    readAttachUserConfirm ([0x2e, 0x00] ++ be16 (uid - 1001)) = .ok uid := by
  obtain ⟨a, b, hab, hv⟩ := be16_two (uid - 1001)
  have := hv (by omega)
  rw [hab]
  simp [readAttachUserConfirm, rrO, Per.readU8, Per.readInteger16, Per.readU16be, rdExact, RR.bind, leNat, decInt, Outcome.bind]
  have hlt : b.toNat + 256 * a.toNat + 1001 < 65536 := by omega
  rw [if_pos hlt]
  simp
  omega

/-- shutdown writes a disconnect-provider ultimatum and nothing else -/
theorem c03_shutdown : x224Frame Mcs.disconnectUltimatum = .ok [3, 0, 0, 9, 2, 0xf0, 0x80, 0x21, 0x80] := by
  decide

end Rdp.Session
