import RdpModel.Wire.Session
import RdpModel.Props.C12
import RdpModel.Props.C04
/-
  C03 — the connection sequence conforms end to end.
  `Session.connectTrace` is the model of `mcs::Client::connect` + `sec::connect` (the
  emitters are compared byte for byte with the real client on whole connections); the
  activation part (confirm-active, synchronize, control-cooperate, control-request,
  font-list per demand-active) is the Global model of C12.
-/
namespace Rdp.Session
open Rdp Rdp.Emit Rdp.Connect Rdp.Secrets Rdp.Schema Rdp.Global Rdp.Nla

/-- the complete script of a successful connect phase -/
def fullScript (ci ed au j1 j2 info : Bytes) : List Io :=
  [.w ci, .r, .w ed, .w au, .r, .w j1, .r, .w j2, .r, .w info, .r]

/-- **Order and dependencies.**  On success the trace is exactly: connect-initial, wait;
    erect-domain, attach-user, wait; join, wait; join, wait; client info, wait — and the
    joins and the info packet are built from the user id the attach confirm assigned and
    the version the connect response reported. -/
theorem c03_success (c : Cfg) (r : Replies) (uid : Nat) (sd : ServerData)
    (h : (connectTrace c r).2 = .ok (uid, sd)) :
    readAttachUserConfirm r.au = .ok uid ∧ r.ccr.bind readConferenceCreateResponse = .ok sd ∧
    ∃ ci ed au j1 j2 info, stage1 c r = .ok ci ∧ stage2 = .ok (ed, au) ∧
      joinFrame uid r.first = .ok j1 ∧ joinFrame uid (if r.first = 1003 then uid else 1003) = .ok j2 ∧
      infoFrame c uid sd.version = .ok info ∧
      (connectTrace c r).1 = fullScript ci ed au j1 j2 info := by
  unfold connectTrace at h ⊢
  cases h1 : stage1 c r with
  | err e => rw [h1] at h; simp at h
  | panic p => rw [h1] at h; simp at h
  | ok ci =>
  rw [h1] at h; simp only at h ⊢
  cases h2 : r.ccr.bind readConferenceCreateResponse with
  | err e => rw [h2] at h; simp at h
  | panic p => rw [h2] at h; simp at h
  | ok sd' =>
  rw [h2] at h; simp only at h ⊢
  cases h3 : stage2 with
  | err e => rw [h3] at h; simp at h
  | panic p => rw [h3] at h; simp at h
  | ok ea =>
  obtain ⟨ed, au⟩ := ea
  rw [h3] at h; simp only at h ⊢
  cases h4 : readAttachUserConfirm r.au with
  | err e => rw [h4] at h; simp at h
  | panic p => rw [h4] at h; simp at h
  | ok uid' =>
  rw [h4] at h; simp only at h ⊢
  cases h5 : joinFrame uid' r.first with
  | err e => rw [h5] at h; simp at h
  | panic p => rw [h5] at h; simp at h
  | ok j1 =>
  rw [h5] at h; simp only at h ⊢
  cases h6 : readChannelJoinConfirm uid' r.first r.cjc1 with
  | err e => rw [h6] at h; simp at h
  | panic p => rw [h6] at h; simp at h
  | ok b1 =>
  rw [h6] at h; simp only at h ⊢
  cases h7 : joinFrame uid' (if r.first = 1003 then uid' else 1003) with
  | err e => rw [h7] at h; simp at h
  | panic p => rw [h7] at h; simp at h
  | ok j2 =>
  rw [h7] at h; simp only at h ⊢
  cases h8 : readChannelJoinConfirm uid' (if r.first = 1003 then uid' else 1003) r.cjc2 with
  | err e => rw [h8] at h; simp at h
  | panic p => rw [h8] at h; simp at h
  | ok b2 =>
  rw [h8] at h; simp only at h ⊢
  cases h9 : infoFrame c uid' sd'.version with
  | err e => rw [h9] at h; simp at h
  | panic p => rw [h9] at h; simp at h
  | ok info =>
  rw [h9] at h; simp only at h ⊢
  cases h10 : secRead uid' r.lic with
  | err e => rw [h10] at h; simp at h
  | panic p => rw [h10] at h; simp at h
  | ok u =>
  rw [h10] at h; simp only at h ⊢
  injection h with h
  injection h with hu hs
  subst hu; subst hs
  exact ⟨rfl, rfl, ci, ed, au, j1, j2, info, rfl, rfl, h5, h7, h9, by simp [fullScript]⟩

/-- In every execution — whatever the server answers — the trace is a prefix of such a
    script in which every write after the first is preceded by the read of the reply it
    depends on: nothing is sent ahead of its reply. -/
theorem c03_order (c : Cfg) (r : Replies) :
    ∃ ci ed au j1 j2 info, (connectTrace c r).1 <+: fullScript ci ed au j1 j2 info ∧
      (connectTrace c r).1.length ∈ [0, 2, 5, 7, 9, 11] := by
  unfold connectTrace
  cases stage1 c r with
  | err e => exact ⟨[], [], [], [], [], [], by simp [fullScript], by simp⟩
  | panic p => exact ⟨[], [], [], [], [], [], by simp [fullScript], by simp⟩
  | ok ci =>
  simp only
  cases r.ccr.bind readConferenceCreateResponse with
  | err e => exact ⟨ci, [], [], [], [], [], by simp [fullScript], by simp⟩
  | panic p => exact ⟨ci, [], [], [], [], [], by simp [fullScript], by simp⟩
  | ok sd =>
  simp only
  cases stage2 with
  | err e => exact ⟨ci, [], [], [], [], [], by simp [fullScript], by simp⟩
  | panic p => exact ⟨ci, [], [], [], [], [], by simp [fullScript], by simp⟩
  | ok ea =>
  obtain ⟨ed, au⟩ := ea
  simp only
  cases readAttachUserConfirm r.au with
  | err e => exact ⟨ci, ed, au, [], [], [], by simp [fullScript], by simp⟩
  | panic p => exact ⟨ci, ed, au, [], [], [], by simp [fullScript], by simp⟩
  | ok uid =>
  simp only
  cases joinFrame uid r.first with
  | err e => exact ⟨ci, ed, au, [], [], [], by simp [fullScript], by simp⟩
  | panic p => exact ⟨ci, ed, au, [], [], [], by simp [fullScript], by simp⟩
  | ok j1 =>
  simp only
  cases readChannelJoinConfirm uid r.first r.cjc1 with
  | err e => exact ⟨ci, ed, au, j1, [], [], by simp [fullScript], by simp⟩
  | panic p => exact ⟨ci, ed, au, j1, [], [], by simp [fullScript], by simp⟩
  | ok b1 =>
  simp only
  cases joinFrame uid (if r.first = 1003 then uid else 1003) with
  | err e => exact ⟨ci, ed, au, j1, [], [], by simp [fullScript], by simp⟩
  | panic p => exact ⟨ci, ed, au, j1, [], [], by simp [fullScript], by simp⟩
  | ok j2 =>
  simp only
  cases readChannelJoinConfirm uid (if r.first = 1003 then uid else 1003) r.cjc2 with
  | err e => exact ⟨ci, ed, au, j1, j2, [], by simp [fullScript], by simp⟩
  | panic p => exact ⟨ci, ed, au, j1, j2, [], by simp [fullScript], by simp⟩
  | ok b2 =>
  simp only
  cases infoFrame c uid sd.version with
  | err e => exact ⟨ci, ed, au, j1, j2, [], by simp [fullScript], by simp⟩
  | panic p => exact ⟨ci, ed, au, j1, j2, [], by simp [fullScript], by simp⟩
  | ok info =>
  simp only
  cases secRead uid r.lic with
  | err e => exact ⟨ci, ed, au, j1, j2, info, by simp [fullScript], by simp⟩
  | panic p => exact ⟨ci, ed, au, j1, j2, info, by simp [fullScript], by simp⟩
  | ok u => exact ⟨ci, ed, au, j1, j2, info, by simp [fullScript], by simp⟩

/-! ### the identifiers the server assigned are the ones carried -/

/-- a join request carries the assigned user id (minus 1001) and the channel id -/
theorem c03_join_ids (uid chan : Nat) (h : 1001 ≤ uid) :
    channelJoin uid chan = .ok ([0x38] ++ be16 (uid - 1001) ++ be16 chan) := by
  simp [channelJoin, checkedSub, h]

/-- the info packet (like every later PDU) is sent by the assigned user on channel 1003 -/
theorem c03_info_ids (uid : Nat) (msg : Bytes) (h : 1001 ≤ uid) :
    Mcs.sendDataRequest uid 1003 msg =
      .ok ([0x64] ++ encInt .be 2 (uid - 1001) ++ encInt .be 2 1003 ++ [0x70] ++ Per.writeLength (msg.length % 65536) ++ msg) := by
  simp [Mcs.sendDataRequest, checkedSub, h]

/-! ### a conforming server is accepted -/

theorem be16_two (n : Nat) : ∃ a b, be16 n = [a, b] ∧ (n < 65536 → a.toNat * 256 + b.toNat = n) := by
  refine ⟨UInt8.ofNat (n / 256 % 256), UInt8.ofNat (n % 256), by simp [be16, encInt, leBytes], ?_⟩
  intro h
  simp
  omega

/-- attach-user-confirm of a conforming server, any user id 1001..65535 -/
theorem c03_attach_conforming (uid : Nat) (h1 : 1001 ≤ uid) (h2 : uid ≤ 65535) :
    readAttachUserConfirm ([0x2e, 0x00] ++ be16 (uid - 1001)) = .ok uid := by
  obtain ⟨a, b, hab, hv⟩ := be16_two (uid - 1001)
  have := hv (by omega)
  rw [hab]
  simp [readAttachUserConfirm, rrO, Per.readU8, Per.readInteger16, Per.readU16be, rdExact, RR.bind, leNat, decInt, Outcome.bind]
  have hlt : b.toNat + 256 * a.toNat + 1001 < 65536 := by omega
  rw [if_pos hlt]
  simp
  omega

/-- shutdown writes a disconnect-provider ultimatum and nothing else -/
theorem c03_shutdown : x224Frame Mcs.disconnectUltimatum = .ok [3, 0, 0, 9, 2, 0xf0, 0x80, 0x21, 0x80] := by
  decide

/-- channel-join-confirm of a conforming server: any user id 1001..65535, any channel -/
theorem c03_join_conforming (uid chan : Nat) (h1 : 1001 ≤ uid) (h2 : uid ≤ 65535) (h3 : chan ≤ 65535) :
    readChannelJoinConfirm uid chan ([0x3e, 0x00] ++ be16 (uid - 1001) ++ be16 chan ++ be16 chan) = .ok true := by
  obtain ⟨a, b, hab, hv⟩ := be16_two (uid - 1001)
  obtain ⟨c, d, hcd, hw⟩ := be16_two chan
  have e1 := hv (by omega)
  have e2 := hw (by omega)
  rw [hab, hcd]
  simp [readChannelJoinConfirm, rrO, Per.readU8, Per.readInteger16, Per.readU16be, rdExact, RR.bind, leNat, decInt, Outcome.bind]
  have hlt : b.toNat + 256 * a.toNat + 1001 < 65536 := by omega
  have hlt2 : d.toNat + 256 * c.toNat < 65536 := by omega
  rw [if_pos hlt]
  simp
  have hl : leNat [d, c] = d.toNat + 256 * c.toNat := by simp [leNat]
  rw [hl, if_pos hlt2]
  simp
  rw [if_pos (by omega), if_pos (by omega)]

/-- the two accepted-licence variants of a conforming server, sent on the I/O channel -/
def licenceErrorValid : Bytes := [0x80, 0, 0, 0, 0xff, 0x03, 0x10, 0x00, 7, 0, 0, 0, 2, 0, 0, 0, 4, 0, 0, 0]
def licenceNew : Bytes := [0x80, 0, 0, 0, 0x03, 0x03, 0x04, 0x00]
def sdin (data : Bytes) : Bytes := [0x68, 0x00, 0x01, 0x03, 0xeb, 0x70, UInt8.ofNat data.length] ++ data

theorem c03_licence_conforming (uid : Nat) :
    secRead uid (sdin licenceErrorValid) = .ok () ∧ secRead uid (sdin licenceNew) = .ok () := by
  constructor
  · have : ∀ u, secRead u (sdin licenceErrorValid) = secRead 0 (sdin licenceErrorValid) := by
      intro u
      simp [secRead, Mcs.read, sdin, licenceErrorValid, Per.readU8, Per.readInteger16, Per.readU16be, Per.readLength, rdExact, RR.bind, leNat, decInt, Outcome.bind]
    rw [this]; decide
  · have : ∀ u, secRead u (sdin licenceNew) = secRead 0 (sdin licenceNew) := by
      intro u
      simp [secRead, Mcs.read, sdin, licenceNew, Per.readU8, Per.readInteger16, Per.readU16be, Per.readLength, rdExact, RR.bind, leNat, decInt, Outcome.bind]
    rw [this]; decide
/-- GCC conference-create response of a conforming server with the three mandatory blocks,
    no extra channels: any version, any selected protocol -/
def gccResponse (a b c d e f g h : UInt8) : Bytes :=
  [0x00, 0x05, 0x00, 0x14, 0x7c, 0x00, 0x01, 0x2e,
   0x14, 0x76, 0x0a, 0x01, 0x01, 0x00, 0x01, 0xc0, 0x00, 0x4d, 0x63, 0x44, 0x6e, 0x20,
   0x01, 0x0c, 0x0c, 0x00, a, b, c, d, e, f, g, h,
   0x02, 0x0c, 0x0c, 0x00, 0, 0, 0, 0, 0, 0, 0, 0,
   0x03, 0x0c, 0x08, 0x00, 0xeb, 0x03, 0x00, 0x00]

set_option maxHeartbeats 1000000 in
theorem c03_gcc_conforming (a b c d e f g h : UInt8) :
    readConferenceCreateResponse (gccResponse a b c d e f g h) = .ok ⟨[], versionOf (leNat [a, b, c, d])⟩ := by
  simp [readConferenceCreateResponse, gccResponse, rrO, Per.readU8, Per.readOid, Per.readLength, Per.readInteger16, Per.readInteger, Per.readU16be, Per.readOctetStream, Per.readOctetStream.go,
    rdExact, RR.bind, Outcome.bind, leNat, decInt, t124Oid, h221ScKey, readBlocks, read, readFields, readStep, blockHeaderTmpl, serverCoreTmpl, serverSecurityTmpl, serverNetTmpl, u16le, u32le,
    castComp, castU16, castU32, castTrame, field, lookupField, unwrapVisit, readAll, options, evalOpt, addSkip, addSize, lookupSize, intVal, write, encInt, leBytes, readArrayLoop, versionOf]
  try rfl

/-- the replies of a conforming server: any user id, any reported version and selected
    protocol, either licence variant, either join order -/
def conformingReplies (uid sel first : Nat) (va vb vc vd sa sb sc sd : UInt8) (newLicence : Bool) : Replies :=
  let second := if first = 1003 then uid else 1003
  ⟨sel, .ok (gccResponse va vb vc vd sa sb sc sd), [0x2e, 0x00] ++ be16 (uid - 1001), first,
   [0x3e, 0x00] ++ be16 (uid - 1001) ++ be16 first ++ be16 first,
   [0x3e, 0x00] ++ be16 (uid - 1001) ++ be16 second ++ be16 second,
   sdin (if newLicence then licenceNew else licenceErrorValid)⟩

theorem stage2_ok : stage2 = .ok ([3, 0, 0, 12, 2, 0xf0, 0x80, 4, 1, 0, 1, 0], [3, 0, 0, 8, 2, 0xf0, 0x80, 0x28]) := by decide

theorem joinFrame_ok (uid chan : Nat) (h : 1001 ≤ uid) : ∃ j, joinFrame uid chan = .ok j := by
  unfold joinFrame
  rw [c03_join_ids uid chan h]
  simp [x224Frame, x224DataHeader, be16, encInt]

theorem stage1_ok (c : Cfg) (r : Replies) : ∃ ci, stage1 c r = .ok ci := by
  unfold stage1 connectInitialFrame conferenceCreateRequest
  have hud := c04_userData_size c.width c.height c.layout r.selected c.name
  have h1 : Per.writeOid [0, 0, 20, 124, 0, 1] = .ok [5, 0, 20, 124, 0, 1] := by decide
  have h2 : Per.writeNumericString [0x31] 1 = .ok [0, 0x10] := by decide
  rw [h1, h2]
  simp only [Outcome.bind_ok]
  generalize hU : userData c.width c.height c.layout r.selected c.name = ud at hud
  have hw1 : Per.writeLength ((ud.length % 65536 + 14) % 65536) = [0x80, 250] := by rw [hud]; decide
  have hw2 : Per.writeOctetStream ud 0 = [0x80, 236] ++ ud := by
    simp only [Per.writeOctetStream, hud]
    have : Per.writeLength ((if 0 ≤ 236 then 236 - 0 else 0) % 65536) = [128, 236] := by decide
    rw [this]
  rw [hw1, hw2]
  have hconf : ([0] ++ [5, 0, 20, 124, 0, 1] ++ [0x80, 250] ++ [0] ++ [8] ++ [0, 0x10] ++ Per.writePadding 1 ++ [1] ++ [0xc0] ++
      Per.writeOctetStream [0x44, 0x75, 0x63, 0x61] 4 ++ ([0x80, 236] ++ ud) : Bytes).length = 259 := by
    simp [Per.writePadding, Per.writeOctetStream, Per.writeLength, hud]
  generalize hC : ([0] ++ [5, 0, 20, 124, 0, 1] ++ [0x80, 250] ++ [0] ++ [8] ++ [0, 0x10] ++ Per.writePadding 1 ++ [1] ++ [0xc0] ++
      Per.writeOctetStream [0x44, 0x75, 0x63, 0x61] 4 ++ ([0x80, 236] ++ ud) : Bytes) = conf at hconf
  have hlen : (x224DataHeader ++ connectInitial conf).length + 4 ≤ 65535 := by
    have hd : (derOctets conf).length = 263 := by
      simp only [derOctets, derTLV, List.length_cons, List.length_append, hconf]; decide
    have : (connectInitial conf).length ≤ 1000 := by
      unfold connectInitial
      simp only [List.length_append, List.length_cons, List.length_nil, hd]
      have e1 : (derOctets [1]).length = 3 := by decide
      have e2 : (domainParameters [34, 2, 0, 1, 0, 1, 0xffff, 2]).length = 28 := by decide
      have e3 : (domainParameters [1, 1, 1, 1, 0, 1, 0x420, 2]).length = 27 := by decide
      have e4 : (domainParameters [0xffff, 0xfc17, 0xffff, 1, 0, 1, 0xffff, 2]).length = 34 := by decide
      rw [e1, e2, e3, e4]
      have e5 : (derLen (3 + 3 + (0 + 1 + 1 + 1) + 28 + 27 + 34 + 263)).length = 3 := by decide
      rw [e5]
      omega
    simp [x224DataHeader]; omega
  unfold x224Frame
  simp only
  rw [if_neg (by omega)]
  exact ⟨_, rfl⟩

theorem infoFrame_ok (c : Cfg) (uid : Nat) (v : RdpVersion) (h1 : 1001 ≤ uid)
    (hs : (utf16le c.domain).length + (utf16le c.user).length + (utf16le c.password).length ≤ 60000) :
    ∃ f, infoFrame c uid v = .ok f := by
  unfold infoFrame Mcs.sendFrame
  rw [c03_info_ids uid _ h1]
  simp only [Outcome.bind_ok]
  have hz : (utf16le []).length = 0 := by decide
  have hl : (infoPdu c.mode (v == .v5plus) c.domain c.user c.password).length ≤ 60300 := by
    unfold infoPdu
    split
    · unfold clientInfo extendedInfo
      split <;> simp only [List.length_append, le16_length, le32_length, zeros_length, List.length_cons, List.length_nil, hz] <;> omega
    · unfold clientInfo extendedInfo
      split <;> simp only [List.length_append, le16_length, le32_length, zeros_length, List.length_cons, List.length_nil] <;> omega
  have hwl : ∀ n, (Per.writeLength n).length ≤ 2 := by
    intro n; unfold Per.writeLength; split <;> simp [encInt]
  have := hwl ((infoPdu c.mode (v == .v5plus) c.domain c.user c.password).length % 65536)
  rw [if_neg (by simp [x224DataHeader, encInt]; omega)]
  exact ⟨_, rfl⟩

theorem connectTrace_ok (c : Cfg) (r : Replies) (uid : Nat) (sd : ServerData) (ci j1 j2 info : Bytes) (b1 b2 : Bool)
    (h1 : stage1 c r = .ok ci) (h2 : r.ccr.bind readConferenceCreateResponse = .ok sd)
    (h4 : readAttachUserConfirm r.au = .ok uid) (h5 : joinFrame uid r.first = .ok j1)
    (h6 : readChannelJoinConfirm uid r.first r.cjc1 = .ok b1)
    (h7 : joinFrame uid (if r.first = 1003 then uid else 1003) = .ok j2)
    (h8 : readChannelJoinConfirm uid (if r.first = 1003 then uid else 1003) r.cjc2 = .ok b2)
    (h9 : infoFrame c uid sd.version = .ok info) (h10 : secRead uid r.lic = .ok ()) :
    (connectTrace c r).2 = .ok (uid, sd) := by
  unfold connectTrace
  simp only [h1, h2, stage2_ok, h4, h5, h6, h7, h8, h9, h10]

/-- **A conforming server is accepted.**  Against the replies of a conforming server — any
    user id 1001..65535, any reported version, any selected protocol value, either accepted-
    licence variant, either order of the two joins — and for every configuration whose
    credentials fit one info packet, the connect phase succeeds, returns the assigned user id
    and the reported version, and (by `c03_success`) emits exactly the mandated script. -/
theorem c03_conforming_succeeds (c : Cfg) (uid sel first : Nat) (va vb vc vd sa sb sc sd : UInt8) (nl : Bool)
    (h1 : 1001 ≤ uid) (h2 : uid ≤ 65535) (hf : first = 1003 ∨ first = uid)
    (hs : (utf16le c.domain).length + (utf16le c.user).length + (utf16le c.password).length ≤ 60000) :
    (connectTrace c (conformingReplies uid sel first va vb vc vd sa sb sc sd nl)).2 =
      .ok (uid, ⟨[], versionOf (leNat [va, vb, vc, vd])⟩) := by
  obtain ⟨ci, hci⟩ := stage1_ok c (conformingReplies uid sel first va vb vc vd sa sb sc sd nl)
  have hsecond : (if first = 1003 then uid else 1003) ≤ 65535 := by split <;> omega
  have hfirst : first ≤ 65535 := by rcases hf with h | h <;> omega
  obtain ⟨j1, hj1⟩ := joinFrame_ok uid first h1
  obtain ⟨j2, hj2⟩ := joinFrame_ok uid (if first = 1003 then uid else 1003) h1
  obtain ⟨info, hinfo⟩ := infoFrame_ok c uid (versionOf (leNat [va, vb, vc, vd])) h1 hs
  have hlic : secRead uid (sdin (if nl then licenceNew else licenceErrorValid)) = .ok () := by
    cases nl
    · exact (c03_licence_conforming uid).1
    · exact (c03_licence_conforming uid).2
  exact connectTrace_ok c _ uid _ ci j1 j2 info true true hci
    (by simp only [conformingReplies, Outcome.bind_ok, c03_gcc_conforming])
    (c03_attach_conforming uid h1 h2) hj1 (c03_join_conforming uid first h1 h2 hfirst) hj2
    (c03_join_conforming uid (if first = 1003 then uid else 1003) h1 h2 hsecond) hinfo hlic

/-! ### conforming servers with the optional fields of the core block and a channel list -/

/-- core block of 8 bytes: the version only (clientRequestedProtocols and earlyCapabilityFlags are optional) -/
def gccResponse8 (a b c d : UInt8) : Bytes :=
  [0x00, 0x05, 0x00, 0x14, 0x7c, 0x00, 0x01, 0x2a,
   0x14, 0x76, 0x0a, 0x01, 0x01, 0x00, 0x01, 0xc0, 0x00, 0x4d, 0x63, 0x44, 0x6e, 0x1c,
   0x01, 0x0c, 0x08, 0x00, a, b, c, d,
   0x02, 0x0c, 0x0c, 0x00, 0, 0, 0, 0, 0, 0, 0, 0,
   0x03, 0x0c, 0x08, 0x00, 0xeb, 0x03, 0x00, 0x00]

/-- core block of 16 bytes: version, clientRequestedProtocols, earlyCapabilityFlags -/
def gccResponse16 (a b c d e f g h i j k l : UInt8) : Bytes :=
  [0x00, 0x05, 0x00, 0x14, 0x7c, 0x00, 0x01, 0x32,
   0x14, 0x76, 0x0a, 0x01, 0x01, 0x00, 0x01, 0xc0, 0x00, 0x4d, 0x63, 0x44, 0x6e, 0x24,
   0x01, 0x0c, 0x10, 0x00, a, b, c, d, e, f, g, h, i, j, k, l,
   0x02, 0x0c, 0x0c, 0x00, 0, 0, 0, 0, 0, 0, 0, 0,
   0x03, 0x0c, 0x08, 0x00, 0xeb, 0x03, 0x00, 0x00]

set_option maxHeartbeats 1000000 in
theorem c03_gcc_conforming8 (a b c d : UInt8) :
    readConferenceCreateResponse (gccResponse8 a b c d) = .ok ⟨[], versionOf (leNat [a, b, c, d])⟩ := by
  simp [readConferenceCreateResponse, gccResponse8, rrO, Per.readU8, Per.readOid, Per.readLength, Per.readInteger16, Per.readInteger, Per.readU16be, Per.readOctetStream, Per.readOctetStream.go,
    rdExact, RR.bind, Outcome.bind, leNat, decInt, t124Oid, h221ScKey, readBlocks, read, readFields, readStep, blockHeaderTmpl, serverCoreTmpl, serverSecurityTmpl, serverNetTmpl, u16le, u32le,
    castComp, castU16, castU32, castTrame, field, lookupField, unwrapVisit, readAll, options, evalOpt, addSkip, addSize, lookupSize, intVal, write, encInt, leBytes, readArrayLoop, versionOf]
  try rfl

set_option maxHeartbeats 1000000 in
theorem c03_gcc_conforming16 (a b c d e f g h i j k l : UInt8) :
    readConferenceCreateResponse (gccResponse16 a b c d e f g h i j k l) = .ok ⟨[], versionOf (leNat [a, b, c, d])⟩ := by
  simp [readConferenceCreateResponse, gccResponse16, rrO, Per.readU8, Per.readOid, Per.readLength, Per.readInteger16, Per.readInteger, Per.readU16be, Per.readOctetStream, Per.readOctetStream.go,
    rdExact, RR.bind, Outcome.bind, leNat, decInt, t124Oid, h221ScKey, readBlocks, read, readFields, readStep, blockHeaderTmpl, serverCoreTmpl, serverSecurityTmpl, serverNetTmpl, u16le, u32le,
    castComp, castU16, castU32, castTrame, field, lookupField, unwrapVisit, readAll, options, evalOpt, addSkip, addSize, lookupSize, intVal, write, encInt, leBytes, readArrayLoop, versionOf]
  try rfl

/-- the replies of a conforming server around any conference-create response -/
def conformingRepliesWith (gcc : Bytes) (uid sel first : Nat) (newLicence : Bool) : Replies :=
  let second := if first = 1003 then uid else 1003
  ⟨sel, .ok gcc, [0x2e, 0x00] ++ be16 (uid - 1001), first,
   [0x3e, 0x00] ++ be16 (uid - 1001) ++ be16 first ++ be16 first,
   [0x3e, 0x00] ++ be16 (uid - 1001) ++ be16 second ++ be16 second,
   sdin (if newLicence then licenceNew else licenceErrorValid)⟩

/-- acceptance of a conforming server, for any conference-create response the GCC reader accepts -/
theorem c03_conforming_succeeds_with (c : Cfg) (uid sel first : Nat) (gcc : Bytes) (sd : ServerData) (nl : Bool)
    (hg : readConferenceCreateResponse gcc = .ok sd)
    (h1 : 1001 ≤ uid) (h2 : uid ≤ 65535) (hf : first = 1003 ∨ first = uid)
    (hs : (utf16le c.domain).length + (utf16le c.user).length + (utf16le c.password).length ≤ 60000) :
    (connectTrace c (conformingRepliesWith gcc uid sel first nl)).2 = .ok (uid, sd) := by
  obtain ⟨ci, hci⟩ := stage1_ok c (conformingRepliesWith gcc uid sel first nl)
  have hsecond : (if first = 1003 then uid else 1003) ≤ 65535 := by split <;> omega
  have hfirst : first ≤ 65535 := by rcases hf with h | h <;> omega
  obtain ⟨j1, hj1⟩ := joinFrame_ok uid first h1
  obtain ⟨j2, hj2⟩ := joinFrame_ok uid (if first = 1003 then uid else 1003) h1
  obtain ⟨info, hinfo⟩ := infoFrame_ok c uid sd.version h1 hs
  have hlic : secRead uid (sdin (if nl then licenceNew else licenceErrorValid)) = .ok () := by
    cases nl
    · exact (c03_licence_conforming uid).1
    · exact (c03_licence_conforming uid).2
  exact connectTrace_ok c _ uid _ ci j1 j2 info true true hci
    (by simp only [conformingRepliesWith, Outcome.bind_ok, hg])
    (c03_attach_conforming uid h1 h2) hj1 (c03_join_conforming uid first h1 h2 hfirst) hj2
    (c03_join_conforming uid (if first = 1003 then uid else 1003) h1 h2 hsecond) hinfo hlic

/-- **A conforming server whose core block omits the optional fields** (8 bytes: the version only) is accepted -/
theorem c03_conforming_succeeds_core8 (c : Cfg) (uid sel first : Nat) (va vb vc vd : UInt8) (nl : Bool)
    (h1 : 1001 ≤ uid) (h2 : uid ≤ 65535) (hf : first = 1003 ∨ first = uid)
    (hs : (utf16le c.domain).length + (utf16le c.user).length + (utf16le c.password).length ≤ 60000) :
    (connectTrace c (conformingRepliesWith (gccResponse8 va vb vc vd) uid sel first nl)).2 =
      .ok (uid, ⟨[], versionOf (leNat [va, vb, vc, vd])⟩) :=
  c03_conforming_succeeds_with c uid sel first _ _ nl (c03_gcc_conforming8 va vb vc vd) h1 h2 hf hs

/-- **… and one that sends all of them** (16 bytes: version, selected protocol, earlyCapabilityFlags of any value) -/
theorem c03_conforming_succeeds_core16 (c : Cfg) (uid sel first : Nat) (va vb vc vd sa sb sc sd ea eb ec ed : UInt8) (nl : Bool)
    (h1 : 1001 ≤ uid) (h2 : uid ≤ 65535) (hf : first = 1003 ∨ first = uid)
    (hs : (utf16le c.domain).length + (utf16le c.user).length + (utf16le c.password).length ≤ 60000) :
    (connectTrace c (conformingRepliesWith (gccResponse16 va vb vc vd sa sb sc sd ea eb ec ed) uid sel first nl)).2 =
      .ok (uid, ⟨[], versionOf (leNat [va, vb, vc, vd])⟩) :=
  c03_conforming_succeeds_with c uid sel first _ _ nl (c03_gcc_conforming16 va vb vc vd sa sb sc sd ea eb ec ed) h1 h2 hf hs

/-- a channel list in SC_NET: one static channel (id x) and the two padding bytes that follow an odd count -/
def gccResponseNet1 (a b c d e f g h x y : UInt8) : Bytes :=
  [0x00, 0x05, 0x00, 0x14, 0x7c, 0x00, 0x01, 0x32,
   0x14, 0x76, 0x0a, 0x01, 0x01, 0x00, 0x01, 0xc0, 0x00, 0x4d, 0x63, 0x44, 0x6e, 0x24,
   0x01, 0x0c, 0x0c, 0x00, a, b, c, d, e, f, g, h,
   0x02, 0x0c, 0x0c, 0x00, 0, 0, 0, 0, 0, 0, 0, 0,
   0x03, 0x0c, 0x0c, 0x00, 0xeb, 0x03, 0x01, 0x00, x, y, 0, 0]

set_option maxHeartbeats 1000000 in
theorem c03_gcc_conforming_net1 (a b c d e f g h x y : UInt8) :
    readConferenceCreateResponse (gccResponseNet1 a b c d e f g h x y) = .ok ⟨[leNat [x, y]], versionOf (leNat [a, b, c, d])⟩ := by
  simp [readConferenceCreateResponse, gccResponseNet1, rrO, Per.readU8, Per.readOid, Per.readLength, Per.readInteger16, Per.readInteger, Per.readU16be, Per.readOctetStream, Per.readOctetStream.go,
    rdExact, RR.bind, Outcome.bind, leNat, decInt, t124Oid, h221ScKey, readBlocks, read, readFields, readStep, blockHeaderTmpl, serverCoreTmpl, serverSecurityTmpl, serverNetTmpl, u16le, u32le,
    castComp, castU16, castU32, castTrame, field, lookupField, unwrapVisit, readAll, options, evalOpt, addSkip, addSize, lookupSize, intVal, write, encInt, leBytes, readArrayLoop, versionOf]
  try rfl

/-- **… and one that announces a static channel** (SC_NET with one channel id and its padding) -/
theorem c03_conforming_succeeds_net1 (c : Cfg) (uid sel first : Nat) (va vb vc vd sa sb sc sd x y : UInt8) (nl : Bool)
    (h1 : 1001 ≤ uid) (h2 : uid ≤ 65535) (hf : first = 1003 ∨ first = uid)
    (hs : (utf16le c.domain).length + (utf16le c.user).length + (utf16le c.password).length ≤ 60000) :
    (connectTrace c (conformingRepliesWith (gccResponseNet1 va vb vc vd sa sb sc sd x y) uid sel first nl)).2 =
      .ok (uid, ⟨[leNat [x, y]], versionOf (leNat [va, vb, vc, vd])⟩) :=
  c03_conforming_succeeds_with c uid sel first _ _ nl (c03_gcc_conforming_net1 va vb vc vd sa sb sc sd x y) h1 h2 hf hs

end Rdp.Session
