import RdpModel.Msg.RoundTrip
import RdpModel.Lemmas.Per
/-
  C18 — Encoders and decoders are mutually inverse (message model part).
  The quantifier "every message built from the library's message model" is the structural
  induction over `Msg` in Msg/RoundTrip.lean; here are the property statements.
-/
namespace Rdp

/-- The reported length equals the number of bytes written, for every message whose
    option closures do not panic. -/
theorem c18_length_eq_written (m : Msg) (h : OptsOk m) :
    ∃ bs, write m = .ok bs ∧ length m = .ok bs.length :=
  ⟨enc m, write_eq_enc m h, length_eq_enc m h⟩

/-- Reading the bytes written for a well-formed message `m` into an empty message of the
    same shape (its template `t`) reproduces every field of `m` and consumes exactly those
    bytes: whatever follows (`rest`) is left untouched. `OK g t m` is the explicit
    well-formedness predicate (integers fit their width, declared dynamic sizes equal the
    encoded sizes, constants match, skip conditions consistent, and the parts whose parse
    depends on the end of input — read-to-end blocks, absent optionals, arrays — occur
    only where nothing follows, `g = true`). -/
theorem c18_read_write (g : Bool) (t m : Msg) (rest : Bytes) (hopts : OptsOk m)
    (h : OK g t m) (hg : g = true → rest = []) :
    ∃ bs, write m = .ok bs ∧ read t (bs ++ rest) = .ok m rest :=
  ⟨enc m, write_eq_enc m hopts, read_enc g t m rest h hg⟩

/-- non-vacuity: a record with a size-dependent field, a skippable field (skipped here),
    a constant, and a read-to-end block meets the hypotheses of `c18_read_write` -/
example :
    OK true
      (.comp [("len", .dyn (.u16 .le 0) (.size "data" 1 0 0)),
              ("flags", .dyn (.u8 0) (.skipIf "extra" 1 0)),
              ("extra", .u32 .be 0), ("magic", .check (.u16 .be 0x1234)),
              ("data", .bytes []), ("tail", .opt (some (.u8 0)))])
      (.comp [("len", .dyn (.u16 .le 3) (.size "data" 1 0 0)),
              ("flags", .dyn (.u8 2) (.skipIf "extra" 1 0)),
              ("extra", .u32 .be 0), ("magic", .check (.u16 .be 0x1234)),
              ("data", .bytes [1, 2, 3]), ("tail", .opt (some (.u8 9)))]) := by
  simp [OK, OKFields, OptsOk, options, evalOpt, intVal, lookupSize, addSkip, addSize, enc]

end Rdp

namespace Rdp
open Rdp.Per

/-- PER length: decode ∘ encode = id on the whole domain the encoding can represent -/
theorem c18_per_length (n : Nat) (h : n ≤ 0x7fff) (rest : Bytes) :
    readLength (writeLength n ++ rest) = .ok n rest := readLength_writeLength n h rest

/-- PER integer: every 32-bit value -/
theorem c18_per_integer (n : Nat) (h : n < 4294967296) (rest : Bytes) :
    readInteger (writeInteger n ++ rest) = .ok n rest := readInteger_writeInteger n h rest

/-- PER constrained 16-bit integer: every value/minimum pair that encodes at all -/
theorem c18_per_integer16 (v minimum : Nat) (h1 : minimum ≤ v) (h2 : v < 65536) (rest : Bytes) :
    ∃ bs, writeInteger16 v minimum = .ok bs ∧ readInteger16 minimum (bs ++ rest) = .ok v rest :=
  readInteger16_writeInteger16 v minimum h1 h2 rest

/-- PER object identifier: every 6-element identifier within the nibble/byte bounds of
    the encoding is recognised after a round trip (all six positions are compared) -/
theorem c18_per_oid (a b c d e f : Nat) (ha : a < 16) (hb : b < 16) (hc : c < 256) (hd : d < 256)
    (he : e < 256) (hf : f < 256) (rest : Bytes) :
    ∃ bs, writeOid [a, b, c, d, e, f] = .ok bs ∧ readOid [a, b, c, d, e, f] (bs ++ rest) = .ok true rest :=
  readOid_writeOid a b c d e f ha hb hc hd he hf rest

/-- …and an identifier differing at any position is *not* recognised -/
theorem c18_per_oid_distinguishes (a b c d e f : Nat) (o' : List Nat) (ha : a < 16) (hb : b < 16)
    (hc : c < 256) (hd : d < 256) (he : e < 256) (hf : f < 256) (hne : o' ≠ [a, b, c, d, e, f])
    (hlen : o'.length = 6) (rest : Bytes) :
    ∃ bs, writeOid [a, b, c, d, e, f] = .ok bs ∧ readOid o' (bs ++ rest) = .ok false rest := by
  obtain ⟨bs, hw, hr⟩ := readOid_writeOid a b c d e f ha hb hc hd he hf rest
  refine ⟨bs, hw, ?_⟩
  -- the parsed digits do not depend on the expected identifier
  unfold readOid at hr ⊢
  simp only [List.length_cons, List.length_nil, ne_eq, not_true_eq_false, if_false, hlen] at hr ⊢
  revert hr
  cases h1 : readLength (bs ++ rest) with
  | ok len r1 =>
    simp only [RR.bind_ok]
    split
    · intro h; cases h
    · cases h2 : readU8 r1 with
      | ok t0 r2 =>
        simp only [RR.bind_ok]
        cases h3 : readU8 r2 with
        | ok t1 r3 =>
          simp only [RR.bind_ok]
          cases h4 : readU8 r3 with
          | ok t2 r4 =>
            simp only [RR.bind_ok]
            cases h5 : readU8 r4 with
            | ok t3 r5 =>
              simp only [RR.bind_ok]
              cases h6 : readU8 r5 with
              | ok t4 r6 =>
                simp only [RR.bind_ok]
                intro h
                injection h with hb' hr'
                have heq : [t0 >>> 4, t0 &&& 0xf, t1, t2, t3, t4] = [a, b, c, d, e, f] := by
                  simpa using hb'
                subst hr'
                rw [heq]
                have : decide ([a, b, c, d, e, f] = o') = false := by
                  simp; exact fun h => hne h.symm
                rw [this]
              | err _ => intro h; cases h
              | panic _ => intro h; cases h
            | err _ => intro h; cases h
            | panic _ => intro h; cases h
          | err _ => intro h; cases h
          | panic _ => intro h; cases h
        | err _ => intro h; cases h
        | panic _ => intro h; cases h
      | err _ => intro h; cases h
      | panic _ => intro h; cases h
  | err _ => intro h; cases h
  | panic _ => intro h; cases h

/-- PER octet string with a lower bound -/
theorem c18_per_octet_stream (os : Bytes) (minimum : Nat) (h1 : minimum ≤ os.length)
    (h2 : os.length - minimum ≤ 0x7fff) (rest : Bytes) :
    readOctetStream os minimum (writeOctetStream os minimum ++ rest) = .ok () rest :=
  readOctetStream_write os minimum h1 h2 rest

end Rdp
