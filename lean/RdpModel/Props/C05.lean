import RdpModel.Wire.Connect
import RdpModel.Lemmas.GlobalTotal
import RdpModel.Lemmas.Per
import RdpModel.Props.C06
/-
  C05 — Hostile server bytes during connection setup never crash the client.
  Every theorem quantifies over every byte string.
-/
namespace Rdp.Connect
open Rdp Rdp.Schema Rdp.Per Rdp.Global

theorem safe_x224 : SafeT x224ConnectionPduTmpl := by
  simp [x224ConnectionPduTmpl, SafeT, SafeFields, SafeList, IntShape, u16le, u32le]
theorem safe_blockHeader : SafeT blockHeaderTmpl := by simp [blockHeaderTmpl, SafeT, SafeFields, u16le]
theorem safe_serverCore : SafeT serverCoreTmpl := by simp [serverCoreTmpl, SafeT, SafeFields, u32le]
theorem safe_serverSecurity : SafeT serverSecurityTmpl := by simp [serverSecurityTmpl, SafeT, SafeFields, u32le]
theorem safe_serverNet : SafeT serverNetTmpl := by
  simp [serverNetTmpl, SafeT, SafeFields, SafeOpt, IntShape, Consuming, u16le]
theorem safe_preamble : SafeT preambleTmpl := by
  simp [preambleTmpl, SafeT, SafeFields, SafeOpt, IntShape, u16le, blob]
theorem safe_licenseBlob : SafeT licenseBlobTmpl := by
  simp [licenseBlobTmpl, SafeT, SafeFields, SafeOpt, IntShape, u16le, blob]
theorem safe_licensingError : SafeT licensingErrorTmpl := by
  simp [licensingErrorTmpl, SafeT, SafeFields, u32le, safe_licenseBlob]
theorem safe_securityHeader : SafeT securityHeaderTmpl := by simp [securityHeaderTmpl, SafeT, SafeFields, u16le]

theorem rrO_np {α} (r : RR α) (h : ∀ p, r ≠ .panic p) : ∀ p, rrO r ≠ .panic p := by
  intro p; unfold rrO
  cases hr : r with
  | ok a rest => simp
  | err e => simp
  | panic q => exact absurd hr (h q)

/-- reading a component and then indexing one of its template's fields -/
theorem comp_field_np (t : Msg) (fs : List (String × Msg)) (ht : t = .comp fs) (hs : SafeT t) (b : Bytes)
    {β} (k : List (String × Msg) → Outcome β)
    (hk : ∀ fs', fs'.map Prod.fst = fs.map Prod.fst → ∀ p, k fs' ≠ .panic p) :
    ∀ p, ((readAll t b).bind fun m => (castComp m).bind k) ≠ .panic p := by
  apply Global.bind_np _ _ (readAll_noPanic t hs b)
  intro m hm
  obtain ⟨fs', e1, e2⟩ := named_of_readAll fs b m (by rw [← ht]; exact hm)
  subst e1
  simp only [castComp, unwrapVisit, Outcome.bind_ok]
  exact hk fs' e2

/-- the X.224 confirm and the protocol decision: value or error for every payload -/
theorem c05_negotiate_total (offered : Nat) (hasAuth : Bool) (payload : Bytes) :
    ∀ p, negotiate offered hasAuth payload ≠ .panic p := by
  unfold negotiate
  apply Global.bind_np
  · unfold readConnectionConfirm
    apply Global.bind_np _ _ (readAll_noPanic _ safe_x224 payload)
    intro m hm
    obtain ⟨fs', e1, e2⟩ := named_of_readAll _ payload m hm
    subst e1
    have hn' : fs'.map Prod.fst = ["header", "negotiation"] := by rw [e2]; rfl
    simp only [castComp, unwrapVisit, Outcome.bind_ok]
    obtain ⟨nm, hnm⟩ := field_ok fs' "negotiation" (by rw [hn']; simp)
    rw [hnm]; simp only [Outcome.bind_ok]
    have hlk : lookupField
        [("header", Msg.comp [("len", Msg.u8 14), ("code", Msg.u8 0xE0),
                    ("padding", Msg.trame [u16le 0, u16le 0, Msg.u8 0])]),
         ("negotiation", Msg.comp [("type", Msg.u8 1), ("flag", Msg.u8 0),
                         ("length", Msg.check (u16le 8)), ("result", u32le 0)])] "negotiation"
        = some (.comp [("type", Msg.u8 1), ("flag", Msg.u8 0),
                         ("length", Msg.check (u16le 8)), ("result", u32le 0)]) := by simp [lookupField]
    have hnamed := field_comp_named _ _ "negotiation" hlk payload _ hm fs'
      (by simp [castComp, unwrapVisit]) nm hnm
    obtain ⟨nf, e3, e4⟩ := hnamed
    subst e3
    have hnf : nf.map Prod.fst = ["type", "flag", "length", "result"] := by rw [e4]; rfl
    simp only [castComp, unwrapVisit, Outcome.bind_ok]
    apply Global.bind_np _ _ (castU8_np _ _ (by rw [hnf]; simp))
    intro ty _
    intro p
    split; · simp
    split; · simp
    split
    · revert p
      apply Global.bind_np _ _ (castU32_np _ _ (by rw [hnf]; simp))
      intro sel _ p; split <;> simp
    · simp
  · intro sel _
    unfold decide
    intro p
    split; · simp
    split; · split <;> simp
    split; · simp
    split <;> simp

/-- the block loop of the conference-create-response -/
theorem readBlocks_np (fuel : Nat) (sub : Bytes) (b : Blocks) : ∀ p, readBlocks fuel sub b ≠ .panic p := by
  induction fuel generalizing sub b with
  | zero => intro p; simp [readBlocks]
  | succ f ih =>
    unfold readBlocks
    cases hr : read blockHeaderTmpl sub with
    | panic q => exact absurd hr (read_noPanic _ safe_blockHeader sub q)
    | err e => intro p; simp
    | ok h rest =>
      simp only
      obtain ⟨hf, e1, e2⟩ := read_comp_names _ sub h rest hr
      subst e1
      have hn : hf.map Prod.fst = ["type", "length"] := by rw [e2]; rfl
      simp only [castComp, unwrapVisit, Outcome.bind_ok]
      apply Global.bind_np _ _ (castU16_np _ _ (by rw [hn]; simp)); intro len _
      apply Global.bind_np _ _ (castU16_np _ _ (by rw [hn]; simp)); intro ty _
      intro p
      split; · simp
      split; · simp
      split
      · revert p
        apply Global.bind_np _ _ (readAll_noPanic _ safe_serverCore _); intro m _
        apply Global.bind_np _ _ (castComp_np m); intro fs _
        exact ih _ _
      · split
        · revert p
          apply Global.bind_np _ _ (readAll_noPanic _ safe_serverSecurity _); intro m _
          exact ih _ _
        · split
          · revert p
            apply Global.bind_np _ _ (readAll_noPanic _ safe_serverNet _); intro m _
            apply Global.bind_np _ _ (castComp_np m); intro fs _
            exact ih _ _
          · exact ih _ _ p

def BlocksOk (b : Blocks) : Prop :=
  (∀ fs, b.core = some fs → fs.map Prod.fst = ["rdpVersion", "clientRequestedProtocol", "earlyCapabilityFlags"]) ∧
  (∀ fs, b.net = some fs → fs.map Prod.fst = ["MCSChannelId", "channelCount", "channelIdArray"])

theorem bind_ok_inv {α β} (o : Outcome α) (k : α → Outcome β) (b : β) (h : o.bind k = .ok b) :
    ∃ a, o = .ok a ∧ k a = .ok b := by
  cases o with
  | ok a => exact ⟨a, rfl, h⟩
  | err e => cases h
  | panic p => cases h

theorem readBlocks_ok (fuel : Nat) (sub : Bytes) (b b' : Blocks) (h : readBlocks fuel sub b = .ok b')
    (hb : BlocksOk b) : BlocksOk b' := by
  induction fuel generalizing sub b with
  | zero => simp only [readBlocks] at h; injection h with h; subst h; exact hb
  | succ f ih =>
    unfold readBlocks at h
    cases hr : read blockHeaderTmpl sub with
    | panic q => rw [hr] at h; cases h
    | err e => rw [hr] at h; simp only at h; injection h with h; subst h; exact hb
    | ok hd rest =>
      rw [hr] at h; simp only at h
      obtain ⟨hf, h1, h⟩ := bind_ok_inv _ _ _ h
      obtain ⟨len, h2, h⟩ := bind_ok_inv _ _ _ h
      obtain ⟨ty, h3, h⟩ := bind_ok_inv _ _ _ h
      split at h; · cases h
      split at h; · cases h
      split at h
      · obtain ⟨m, hm, h⟩ := bind_ok_inv _ _ _ h
        obtain ⟨fs, hfs, h⟩ := bind_ok_inv _ _ _ h
        apply ih _ _ h
        refine ⟨?_, hb.2⟩
        intro fs' hfs'
        injection hfs' with hfs'; subst hfs'
        obtain ⟨fs2, e1, e2⟩ := named_of_readAll _ _ m hm
        subst e1
        simp only [castComp, unwrapVisit] at hfs; injection hfs with hfs; subst hfs
        rw [e2]; rfl
      · split at h
        · obtain ⟨m, hm, h⟩ := bind_ok_inv _ _ _ h
          exact ih _ _ h hb
        · split at h
          · obtain ⟨m, hm, h⟩ := bind_ok_inv _ _ _ h
            obtain ⟨fs, hfs, h⟩ := bind_ok_inv _ _ _ h
            apply ih _ _ h
            refine ⟨hb.1, ?_⟩
            intro fs' hfs'
            injection hfs' with hfs'; subst hfs'
            obtain ⟨fs2, e1, e2⟩ := named_of_readAll _ _ m hm
            subst e1
            simp only [castComp, unwrapVisit] at hfs; injection hfs with hfs; subst hfs
            rw [e2]; rfl
          · exact ih _ _ h hb

/-- the conference-create-response reader: value or error for every byte string -/
theorem c05_gcc_total (s : Bytes) : ∀ p, readConferenceCreateResponse s ≠ .panic p := by
  unfold readConferenceCreateResponse
  apply Global.bind_np _ _ (rrO_np _ (readU8_np s)); intro ⟨_, s⟩ _
  apply Global.bind_np _ _ (rrO_np _ (readOid_np _ s)); intro ⟨_, s⟩ _
  apply Global.bind_np _ _ (rrO_np _ (readLength_np s)); intro ⟨_, s⟩ _
  apply Global.bind_np _ _ (rrO_np _ (readU8_np s)); intro ⟨_, s⟩ _
  apply Global.bind_np _ _ (rrO_np _ (readInteger16_np _ s)); intro ⟨_, s⟩ _
  apply Global.bind_np _ _ (rrO_np _ (readInteger_np s)); intro ⟨_, s⟩ _
  apply Global.bind_np _ _ (rrO_np _ (readU8_np s)); intro ⟨_, s⟩ _
  apply Global.bind_np _ _ (rrO_np _ (readU8_np s)); intro ⟨_, s⟩ _
  apply Global.bind_np _ _ (rrO_np _ (readU8_np s)); intro ⟨_, s⟩ _
  apply Global.bind_np _ _ (rrO_np _ (readOctetStream_np _ _ s)); intro ⟨_, s⟩ _
  apply Global.bind_np _ _ (rrO_np _ (readLength_np s)); intro ⟨length, s⟩ _
  apply Global.bind_np _ _ (readBlocks_np _ _ _); intro b hb
  intro p
  split
  · rename_i nf cf hnet hcore
    have hok := readBlocks_ok _ _ _ b hb ⟨(by intro fs h; cases h), (by intro fs h; cases h)⟩
    have hn1 := hok.2 nf hnet
    have hn2 := hok.1 cf hcore
    revert p
    apply Global.bind_np _ _ (castTrame_np _ _ (by rw [hn1]; simp)); intro ids _
    apply Global.bind_np _ _ (castU32_np _ _ (by rw [hn2]; simp)); intro v _
    intro p; simp
  · simp

theorem c05_attach_total (payload : Bytes) : ∀ p, readAttachUserConfirm payload ≠ .panic p := by
  unfold readAttachUserConfirm
  cases payload with
  | nil => intro p; simp
  | cons hdr rest =>
    simp only
    split
    · intro p; simp
    · apply Global.bind_np _ _ (rrO_np _ (readU8_np rest)); intro ⟨e, r⟩ _
      intro p
      split
      · simp
      · revert p
        apply Global.bind_np _ _ (rrO_np _ (readInteger16_np _ r)); intro ⟨uid, _⟩ _
        intro p; simp

theorem c05_join_total (uid chan : Nat) (payload : Bytes) :
    ∀ p, readChannelJoinConfirm uid chan payload ≠ .panic p := by
  unfold readChannelJoinConfirm
  cases payload with
  | nil => intro p; simp
  | cons hdr rest =>
    simp only
    split
    · intro p; simp
    · apply Global.bind_np _ _ (rrO_np _ (readU8_np rest)); intro ⟨e, r⟩ _
      apply Global.bind_np _ _ (rrO_np _ (readInteger16_np _ r)); intro ⟨cu, r⟩ _
      apply Global.bind_np _ _ (rrO_np _ (readInteger16_np _ r)); intro ⟨cc, r⟩ _
      intro p
      split; · simp
      split <;> simp

theorem c05_license_total (s : Bytes) : ∀ p, licenseConnect s ≠ .panic p := by
  unfold licenseConnect
  apply Global.bind_np _ _ (readAll_noPanic _ safe_preamble s); intro m hm
  obtain ⟨fs, e1, e2⟩ := named_of_readAll _ s m hm
  subst e1
  have hn : fs.map Prod.fst = ["bMsgtype", "flag", "wMsgSize", "message"] := by rw [e2]; rfl
  simp only [castComp, unwrapVisit, Outcome.bind_ok]
  apply Global.bind_np _ _ (castU8_np _ _ (by rw [hn]; simp)); intro ty _
  intro p
  split; · simp
  split; · simp
  split
  · revert p
    apply Global.bind_np _ _ (castSlice_np _ _ (by rw [hn]; simp)); intro body _
    apply Global.bind_np _ _ (readAll_noPanic _ safe_licensingError body); intro em hem
    obtain ⟨ef, e3, e4⟩ := named_of_readAll _ body em hem
    subst e3
    have hne : ef.map Prod.fst = ["dwErrorCode", "dwStateTransition", "blob"] := by rw [e4]; rfl
    simp only [castComp, unwrapVisit, Outcome.bind_ok]
    apply Global.bind_np _ _ (castU32_np _ _ (by rw [hne]; simp)); intro code _
    intro p
    split; · simp
    split; · simp
    revert p
    apply Global.bind_np _ _ (castU32_np _ _ (by rw [hne]; simp)); intro tr _
    intro p
    split; · simp
    split <;> simp
  · simp

theorem c05_sec_total (uid : Nat) (payload : Bytes) : ∀ p, secRead uid payload ≠ .panic p := by
  unfold secRead
  apply Global.bind_np _ _ (Mcs.c06_mcs_read_total uid 1003 (.raw payload)); intro ⟨_, pl⟩ _
  cases pl with
  | fast f b => intro p; simp
  | raw s =>
    simp only
    cases hr : read securityHeaderTmpl s with
    | panic q => exact absurd hr (read_noPanic _ safe_securityHeader s q)
    | err e => intro p; simp
    | ok h rest =>
      simp only
      obtain ⟨hf, e1, e2⟩ := read_comp_names _ s h rest hr
      subst e1
      have hn : hf.map Prod.fst = ["securityFlag", "securityFlagHi"] := by rw [e2]; rfl
      simp only [castComp, unwrapVisit, Outcome.bind_ok]
      apply Global.bind_np _ _ (castU16_np _ _ (by rw [hn]; simp)); intro fl _
      intro p
      split
      · simp
      · exact c05_license_total rest p

end Rdp.Connect
