import RdpModel.Lemmas.GlobalTotal
import RdpModel.Wire.Mcs
import RdpModel.Lemmas.Per
/-
  C06 — Hostile server bytes during an active session never crash the client.
  `step` is the model of `global::Client::read`; the theorems quantify over every client
  state and every payload (arbitrary bytes).
-/
namespace Rdp.Global
open Rdp Rdp.Schema

def namesOf : Msg → List String
  | .comp fs => fs.map Prod.fst
  | _ => []

theorem named_readAll (t : Msg) (fs : List (String × Msg)) (ht : t = .comp fs) (b : Bytes) (m : Msg)
    (h : readAll t b = .ok m) : ∃ fs', castComp m = .ok fs' ∧ fs'.map Prod.fst = namesOf t := by
  subst ht
  obtain ⟨fs', e1, e2⟩ := named_of_readAll fs b m h
  subst e1
  exact ⟨fs', by simp [castComp, unwrapVisit], e2⟩

def CapNamed (m : Msg) : Prop := Named m ["capabilitySetType", "lengthCapability", "capabilitySet"]

/-- the `capabilitySets` of a parsed demand-active are capability-set components -/
theorem demandActive_caps (body : Bytes) (m : Msg) (h : readAll demandActiveTmpl body = .ok m)
    (fs : List (String × Msg)) (hc : castComp m = .ok fs) (caps : List Msg)
    (hcaps : castTrame fs "capabilitySets" = .ok caps) : ∀ c ∈ caps, CapNamed c := by
  have hlk : lookupField
      [("shareId", u32le 0),
       ("lengthSourceDescriptor", Msg.dyn (u16le 0) (.size "sourceDescriptor" 1 0 0)),
       ("lengthCombinedCapabilities", Msg.dyn (u16le 0) (.sizeSat "capabilitySets" 1 0 4)),
       ("sourceDescriptor", blob []),
       ("numberCapabilities", u16le 0), ("pad2Octets", u16le 0),
       ("capabilitySets", Msg.array (some capabilitySetTmpl) []),
       ("sessionId", u32le 0)] "capabilitySets"
      = some (.array (some (.comp [("capabilitySetType", u16le 1),
          ("lengthCapability", Msg.dyn (u16le 4) (.sizeSat "capabilitySet" 1 0 4)),
          ("capabilitySet", blob [])])) []) := by
    simp [lookupField, capabilitySetTmpl]
  have := field_array_items _ _ "capabilitySets" hlk body m h fs hc caps hcaps
  intro c hcm
  exact this c hcm

/-- `PDU::from_control` on a header component that has the two fields it indexes -/
theorem fromControl_np (ctrl : List (String × Msg)) (h1 : "pduType" ∈ ctrl.map Prod.fst)
    (h2 : "pduMessage" ∈ ctrl.map Prod.fst) :
    (∀ p, fromControl ctrl ≠ .panic p) ∧
    ∀ pdu, fromControl ctrl = .ok pdu →
      (pdu.pduType = 0x11 → pdu.fields.map Prod.fst = namesOf demandActiveTmpl ∧
          ∀ caps, castTrame pdu.fields "capabilitySets" = .ok caps → ∀ x ∈ caps, CapNamed x) ∧
      (pdu.pduType = 0x17 → pdu.fields.map Prod.fst = namesOf shareDataHeaderTmpl) := by
  unfold fromControl
  cases hty : castU16 ctrl "pduType" with
  | panic p => exact absurd hty (castU16_np ctrl _ h1 p)
  | err e => exact ⟨by intro p; simp, by intro pdu h; simp at h⟩
  | ok ty =>
    simp only [Outcome.bind_ok]
    -- the template and its safety
    have key : ∀ (t : Msg) (fs : List (String × Msg)), t = .comp fs → SafeT t →
        (∀ p, ((castSlice ctrl "pduMessage").bind fun body => (readAll t body).bind fun m =>
            (castComp m).bind fun fs => Outcome.ok (⟨ty, fs⟩ : Pdu)) ≠ .panic p) ∧
        ∀ pdu, ((castSlice ctrl "pduMessage").bind fun body => (readAll t body).bind fun m =>
            (castComp m).bind fun fs => Outcome.ok (⟨ty, fs⟩ : Pdu)) = .ok pdu →
          pdu.pduType = ty ∧ pdu.fields.map Prod.fst = namesOf t ∧
          ∃ body m, readAll t body = .ok m ∧ castComp m = .ok pdu.fields := by
      intro t fs ht hs
      cases hb : castSlice ctrl "pduMessage" with
      | panic p => exact absurd hb (castSlice_np ctrl _ h2 p)
      | err e => exact ⟨by intro p; simp, by intro pdu h; simp at h⟩
      | ok body =>
        simp only [Outcome.bind_ok]
        cases hr : readAll t body with
        | panic p => exact absurd hr (readAll_noPanic t hs body p)
        | err e => exact ⟨by intro p; simp, by intro pdu h; simp at h⟩
        | ok m =>
          obtain ⟨fs', hc, hn⟩ := named_readAll t fs ht body m hr
          simp only [Outcome.bind_ok, hc]
          exact ⟨by intro p; simp, by intro pdu h; injection h with h; subst h; exact ⟨rfl, hn, body, m, hr, hc⟩⟩
    by_cases e1 : ty = 0x11
    · simp only [e1, if_true, Outcome.bind_ok]
      obtain ⟨k1, k2⟩ := key demandActiveTmpl _ rfl safe_demandActive
      rw [e1] at k1 k2
      refine ⟨k1, fun pdu h => ?_⟩
      obtain ⟨a, b, body, m, hrd, hcm⟩ := k2 pdu h
      exact ⟨fun _ => ⟨b, fun caps hcaps => demandActive_caps body m hrd pdu.fields hcm caps hcaps⟩,
        fun h17 => (by rw [a] at h17; omega)⟩
    · simp only [e1, if_false]
      by_cases e2 : ty = 0x17
      · simp only [e2, if_true, Outcome.bind_ok]
        obtain ⟨k1, k2⟩ := key shareDataHeaderTmpl _ rfl safe_shareData
        rw [e2] at k1 k2
        refine ⟨k1, fun pdu h => ?_⟩
        obtain ⟨a, b, _⟩ := k2 pdu h
        exact ⟨fun h11 => (by rw [a] at h11; omega), fun _ => b⟩
      · simp only [e2, if_false]
        by_cases e3 : ty = 0x13
        · simp only [e3, if_true, Outcome.bind_ok]
          obtain ⟨k1, k2⟩ := key confirmActiveTmpl _ rfl safe_confirmActive
          rw [e3] at k1 k2
          refine ⟨k1, fun pdu h => ?_⟩
          obtain ⟨a, b, _⟩ := k2 pdu h
          exact ⟨fun h11 => (by rw [a] at h11; omega), fun h17 => (by rw [a] at h17; omega)⟩
        · simp only [e3, if_false]
          by_cases e4 : ty = 0x16
          · simp only [e4, if_true, Outcome.bind_ok]
            obtain ⟨k1, k2⟩ := key deactivateAllTmpl _ rfl safe_deactivate
            rw [e4] at k1 k2
            refine ⟨k1, fun pdu h => ?_⟩
            obtain ⟨a, b, _⟩ := k2 pdu h
            exact ⟨fun h11 => (by rw [a] at h11; omega), fun h17 => (by rw [a] at h17; omega)⟩
          · simp only [e4, if_false]
            exact ⟨by intro p; simp, by intro pdu h; simp at h⟩

theorem fromStream_np (s : Bytes) :
    (∀ p, fromStream s ≠ .panic p) ∧
    ∀ pdu, fromStream s = .ok pdu →
      (pdu.pduType = 0x11 → pdu.fields.map Prod.fst = namesOf demandActiveTmpl ∧
          ∀ caps, castTrame pdu.fields "capabilitySets" = .ok caps → ∀ x ∈ caps, CapNamed x) ∧
      (pdu.pduType = 0x17 → pdu.fields.map Prod.fst = namesOf shareDataHeaderTmpl) := by
  unfold fromStream
  cases hr : readAll shareControlHeaderTmpl s with
  | panic p => exact absurd hr (readAll_noPanic _ safe_shareControl s p)
  | err e => exact ⟨by intro p; simp, by intro pdu h; simp at h⟩
  | ok m =>
    obtain ⟨fs', hc, hn⟩ := named_readAll shareControlHeaderTmpl _ rfl s m hr
    simp only [Outcome.bind_ok, hc]
    have hn' : fs'.map Prod.fst = ["totalLength", "pduType", "PDUSource", "pduMessage"] := by
      rw [hn]; rfl
    exact fromControl_np fs' (by rw [hn']; simp) (by rw [hn']; simp)

/-- `DataPDU::from_pdu` for a share-data component -/
theorem fromPdu_np (p : Pdu) (hn : p.fields.map Prod.fst = namesOf shareDataHeaderTmpl) :
    (∀ q, fromPdu p ≠ .panic q) ∧
    ∀ dp, fromPdu p = .ok dp →
      (dp.pduType2 = 0x14 → "action" ∈ dp.fields.map Prod.fst) ∧
      (dp.pduType2 = 0x2F → "errorInfo" ∈ dp.fields.map Prod.fst) := by
  have hn' : p.fields.map Prod.fst = ["shareId", "pad1", "streamId", "uncompressedLength", "pduType2",
      "compressedType", "compressedLength", "payload"] := by rw [hn]; rfl
  unfold fromPdu
  cases hty : castU8 p.fields "pduType2" with
  | panic q => exact absurd hty (castU8_np _ _ (by rw [hn']; simp) q)
  | err e => exact ⟨by intro q; simp, by intro dp h; simp at h⟩
  | ok ty =>
    simp only [Outcome.bind_ok]
    have key : ∀ (t : Msg) (fs : List (String × Msg)), t = .comp fs → SafeT t →
        (∀ q, ((castSlice p.fields "payload").bind fun body => (readAll t body).bind fun m =>
            (castComp m).bind fun fs => Outcome.ok (⟨ty, fs⟩ : DataPdu)) ≠ .panic q) ∧
        ∀ dp, ((castSlice p.fields "payload").bind fun body => (readAll t body).bind fun m =>
            (castComp m).bind fun fs => Outcome.ok (⟨ty, fs⟩ : DataPdu)) = .ok dp →
          dp.pduType2 = ty ∧ dp.fields.map Prod.fst = namesOf t := by
      intro t fs ht hs
      cases hb : castSlice p.fields "payload" with
      | panic q => exact absurd hb (castSlice_np _ _ (by rw [hn']; simp) q)
      | err e => exact ⟨by intro q; simp, by intro dp h; simp at h⟩
      | ok body =>
        simp only [Outcome.bind_ok]
        cases hr : readAll t body with
        | panic q => exact absurd hr (readAll_noPanic t hs body q)
        | err e => exact ⟨by intro q; simp, by intro dp h; simp at h⟩
        | ok m =>
          obtain ⟨fs', hc, hnn⟩ := named_readAll t fs ht body m hr
          simp only [Outcome.bind_ok, hc]
          exact ⟨by intro q; simp, by intro dp h; injection h with h; subst h; exact ⟨rfl, hnn⟩⟩
    by_cases e1 : ty = 0x1F
    · simp only [e1, if_true, Outcome.bind_ok]
      obtain ⟨k1, k2⟩ := key (synchronizePdu 0) _ rfl safe_sync
      rw [e1] at k1 k2
      refine ⟨k1, fun dp h => ?_⟩
      obtain ⟨a, b⟩ := k2 dp h
      exact ⟨fun hh => (by rw [a] at hh; omega), fun hh => (by rw [a] at hh; omega)⟩
    · simp only [e1, if_false]
      by_cases e2 : ty = 0x14
      · simp only [e2, if_true, Outcome.bind_ok]
        obtain ⟨k1, k2⟩ := key (controlPdu 4) _ rfl safe_control
        rw [e2] at k1 k2
        refine ⟨k1, fun dp h => ?_⟩
        obtain ⟨a, b⟩ := k2 dp h
        exact ⟨fun _ => by rw [b]; simp [namesOf, controlPdu], fun hh => (by rw [a] at hh; omega)⟩
      · simp only [e2, if_false]
        by_cases e3 : ty = 0x27
        · simp only [e3, if_true, Outcome.bind_ok]
          obtain ⟨k1, k2⟩ := key fontListPdu _ rfl safe_fontList
          rw [e3] at k1 k2
          refine ⟨k1, fun dp h => ?_⟩
          obtain ⟨a, b⟩ := k2 dp h
          exact ⟨fun hh => (by rw [a] at hh; omega), fun hh => (by rw [a] at hh; omega)⟩
        · simp only [e3, if_false]
          by_cases e4 : ty = 0x28
          · simp only [e4, if_true, Outcome.bind_ok]
            obtain ⟨k1, k2⟩ := key fontMapPdu _ rfl safe_fontMap
            rw [e4] at k1 k2
            refine ⟨k1, fun dp h => ?_⟩
            obtain ⟨a, b⟩ := k2 dp h
            exact ⟨fun hh => (by rw [a] at hh; omega), fun hh => (by rw [a] at hh; omega)⟩
          · simp only [e4, if_false]
            by_cases e5 : ty = 0x2F
            · simp only [e5, if_true, Outcome.bind_ok]
              obtain ⟨k1, k2⟩ := key setErrorInfoPdu _ rfl safe_errInfo
              rw [e5] at k1 k2
              refine ⟨k1, fun dp h => ?_⟩
              obtain ⟨a, b⟩ := k2 dp h
              exact ⟨fun hh => (by rw [a] at hh; omega), fun _ => by rw [b]; simp [namesOf, setErrorInfoPdu]⟩
            · simp only [e5, if_false]
              exact ⟨by intro q; simp, by intro dp h; simp at h⟩

theorem capabilityCheck_np (cs : Msg) (h : CapNamed cs) : ∀ p, capabilityCheck cs ≠ .panic p := by
  obtain ⟨fs, e, hn⟩ := h
  subst e
  intro p
  simp only [capabilityCheck, castComp, unwrapVisit]
  cases hty : castU16 fs "capabilitySetType" with
  | panic q => exact absurd hty (castU16_np _ _ (by rw [hn]; simp) q)
  | err e => simp
  | ok ty =>
    simp only
    cases ht : capabilityTmpl ty with
    | none => simp
    | some t =>
      simp only
      cases hb : castSlice fs "capabilitySet" with
      | panic q => exact absurd hb (castSlice_np _ _ (by rw [hn]; simp) q)
      | err e => simp
      | ok body =>
        simp only
        cases hr : readAll t body with
        | panic q => exact absurd hr (readAll_noPanic t (safe_capability ty t ht) body q)
        | err e => simp
        | ok m => simp

theorem capabilityChecks_np (caps : List Msg) (h : ∀ c ∈ caps, CapNamed c) : ∀ p, capabilityChecks caps ≠ .panic p := by
  induction caps with
  | nil => intro p; simp [capabilityChecks]
  | cons c cs ih =>
    simp only [capabilityChecks]
    apply bind_np
    · exact capabilityCheck_np c (h c (by simp))
    · intro _ _; exact ih (fun x hx => h x (by simp [hx]))

/-! ### writing never panics -/

theorem toVec_np (m : Msg) (h : ∃ b, write m = .ok b) : ∃ b, toVec m = .ok b := by
  obtain ⟨b, hb⟩ := h; exact ⟨b, by simp [toVec, hb]⟩

theorem toVec_ok (m : Msg) (h : SafeW m) : ∃ b, toVec m = .ok b := toVec_np m (write_ok m h)

theorem safeW_shareControl (ty src : Nat) (body : Bytes) : SafeW (shareControlHeader ty src body) := by
  simp [shareControlHeader, SafeW, SafeWFields, SafeOpt, IntShape, u16le, blob]
theorem safeW_shareData (sid ty : Nat) (body : Bytes) : SafeW (shareDataHeader sid ty body) := by
  simp [shareDataHeader, SafeW, SafeWFields, SafeOpt, IntShape, u16le, u32le, blob]
theorem safeW_capSet (ty : Nat) (body : Bytes) : SafeW (capabilitySet ty body) := by
  simp [capabilitySet, SafeW, SafeWFields, SafeOpt, IntShape, u16le, blob]

theorem pduBytes_ok (c : GClient) (ty : Nat) (m : Msg) (h : SafeW m) : ∃ b, pduBytes c ty m = .ok b := by
  obtain ⟨body, hb⟩ := toVec_ok m h
  obtain ⟨b, hb2⟩ := toVec_ok _ (safeW_shareControl ty c.userId body)
  exact ⟨b, by simp [pduBytes, hb, hb2]⟩

theorem dataPduBytes_ok (c : GClient) (ty2 : Nat) (m : Msg) (h : SafeW m) : ∃ b, dataPduBytes c ty2 m = .ok b := by
  obtain ⟨body, hb⟩ := toVec_ok m h
  obtain ⟨b, hb2⟩ := pduBytes_ok c PDU_DATA _ (safeW_shareData (c.shareId.getD 0) ty2 body)
  exact ⟨b, by simp [dataPduBytes, hb, hb2]⟩

theorem capSet_ok (ty : Nat) (cap : Msg) (h : SafeW cap) : ∃ m, capSet ty cap = .ok m ∧ SafeW m := by
  obtain ⟨b, hb⟩ := toVec_ok cap h
  exact ⟨capabilitySet ty b, by simp [capSet, hb], safeW_capSet ty b⟩

theorem safeW_replicate (n : Nat) (t : Msg) (h : SafeW t) : SafeWList (List.replicate n t) := by
  induction n with
  | zero => simp [SafeWList]
  | succ k ih => simp [List.replicate, SafeWList, h, ih]

theorem clientCaps_ok (c : GClient) : ∃ caps, clientCaps c = .ok caps ∧ SafeWList caps := by
  obtain ⟨a1, e1, s1⟩ := capSet_ok 0x0001 (generalCaps 0x0415) (by simp [generalCaps, SafeW, SafeWFields, u16le])
  obtain ⟨a2, e2, s2⟩ := capSet_ok 0x0002 (bitmapCaps 0x18 c.width c.height) (by simp [bitmapCaps, SafeW, SafeWFields, u16le])
  obtain ⟨a3, e3, s3⟩ := capSet_ok 0x0003 (orderCaps 0x000A) (by simp [orderCaps, SafeW, SafeWFields, u16le, u32le, blob])
  obtain ⟨a4, e4, s4⟩ := capSet_ok 0x0004 bitmapCacheCaps (by simp [bitmapCacheCaps, SafeW, SafeWFields, u16le, u32le])
  obtain ⟨a5, e5, s5⟩ := capSet_ok 0x0008 pointerCaps (by simp [pointerCaps, SafeW, SafeWFields, u16le])
  obtain ⟨a6, e6, s6⟩ := capSet_ok 0x000C soundCaps (by simp [soundCaps, SafeW, SafeWFields, u16le])
  obtain ⟨a7, e7, s7⟩ := capSet_ok 0x000D (inputCaps 0x0015 c.layout) (by simp [inputCaps, SafeW, SafeWFields, u16le, u32le, blob])
  obtain ⟨a8, e8, s8⟩ := capSet_ok 0x000F brushCaps (by simp [brushCaps, SafeW, SafeWFields, u32le])
  obtain ⟨a9, e9, s9⟩ := capSet_ok 0x0010 glyphCaps (by
    have h := safeW_replicate 10 cacheEntry (by simp [cacheEntry, SafeW, SafeWFields, u16le])
    simp only [List.replicate] at h
    simp [glyphCaps, SafeW, SafeWFields, u16le, u32le, h])
  obtain ⟨a10, e10, s10⟩ := capSet_ok 0x0011 offscreenCaps (by simp [offscreenCaps, SafeW, SafeWFields, u16le, u32le])
  obtain ⟨a11, e11, s11⟩ := capSet_ok 0x0014 virtualChannelCaps (by simp [virtualChannelCaps, SafeW, SafeWFields, u32le])
  obtain ⟨a12, e12, s12⟩ := capSet_ok 0x001A multifragCaps (by simp [multifragCaps, SafeW, SafeWFields, u32le])
  refine ⟨[a1, a2, a3, a4, a5, a6, a7, a8, a9, a10, a11, a12], ?_, ?_⟩
  · simp [clientCaps, e1, e2, e3, e4, e5, e6, e7, e8, e9, e10, e11, e12]
  · simp [SafeWList, s1, s2, s3, s4, s5, s6, s7, s8, s9, s10, s11, s12]

theorem confirmActiveBytes_ok (c : GClient) : ∃ b, confirmActiveBytes c = .ok b := by
  obtain ⟨caps, hc, hs⟩ := clientCaps_ok c
  obtain ⟨n, hn⟩ := length_ok (.trame caps) (by simpa [SafeW] using hs)
  have hw : SafeW (confirmActive (c.shareId.getD 0) c.name caps n) := by
    simp [confirmActive, SafeW, SafeWFields, SafeOpt, IntShape, u16le, u32le, blob, hs]
  obtain ⟨b, hb⟩ := pduBytes_ok c 0x13 _ hw
  exact ⟨b, by simp [confirmActiveBytes, hc, hn, hb]⟩

theorem finalizeBytes_ok (c : GClient) : ∃ bs, finalizeBytes c = .ok bs := by
  obtain ⟨b1, h1⟩ := dataPduBytes_ok c 0x1F (synchronizePdu c.channelId) (by simp [synchronizePdu, SafeW, SafeWFields, u16le])
  obtain ⟨b2, h2⟩ := dataPduBytes_ok c 0x14 (controlPdu 4) (by simp [controlPdu, SafeW, SafeWFields, u16le, u32le])
  obtain ⟨b3, h3⟩ := dataPduBytes_ok c 0x14 (controlPdu 1) (by simp [controlPdu, SafeW, SafeWFields, u16le, u32le])
  obtain ⟨b4, h4⟩ := dataPduBytes_ok c 0x27 fontListPdu (by simp [fontListPdu, SafeW, SafeWFields, u16le])
  exact ⟨[b1, b2, b3, b4], by simp [finalizeBytes, h1, h2, h3, h4]⟩

theorem confirmActiveBytes_ne_err (c : GClient) (e : String) : confirmActiveBytes c ≠ .err e := by
  obtain ⟨b, hb⟩ := confirmActiveBytes_ok c; rw [hb]; simp
theorem confirmActiveBytes_ne_panic (c : GClient) (e : String) : confirmActiveBytes c ≠ .panic e := by
  obtain ⟨b, hb⟩ := confirmActiveBytes_ok c; rw [hb]; simp
theorem finalizeBytes_ne_err (c : GClient) (e : String) : finalizeBytes c ≠ .err e := by
  obtain ⟨b, hb⟩ := finalizeBytes_ok c; rw [hb]; simp
theorem finalizeBytes_ne_panic (c : GClient) (e : String) : finalizeBytes c ≠ .panic e := by
  obtain ⟨b, hb⟩ := finalizeBytes_ok c; rw [hb]; simp

/-! ### reading never panics -/

theorem liftO_np {α} (c : GClient) (o : Outcome α) (k : α → Step) (h1 : ∀ p, o ≠ .panic p)
    (h2 : ∀ a, o = .ok a → ∀ p, (k a).res ≠ .panic p) : ∀ p, (liftO c o k).res ≠ .panic p := by
  intro p
  cases ho : o with
  | ok a => simpa [liftO] using h2 a ho p
  | err e => simp [liftO]
  | panic q => exact absurd ho (h1 q)

theorem waitDataPdu_np (c : GClient) (s : Bytes) (w : Nat) (a : Option Nat) (n : GState)
    (ha : a ≠ none → w = 0x14) : ∀ p, (waitDataPdu c s w a n).res ≠ .panic p := by
  unfold waitDataPdu
  obtain ⟨f1, f2⟩ := fromStream_np s
  apply liftO_np c _ _ f1
  intro pdu hpdu
  split
  · intro p; simp
  · rename_i hty
    have hty' : pdu.pduType = 0x17 := by simpa [PDU_DATA] using hty
    obtain ⟨g1, g2⟩ := fromPdu_np pdu ((f2 pdu hpdu).2 hty')
    apply liftO_np c _ _ g1
    intro dp hdp
    split
    · intro p; simp
    · rename_i hw
      cases a with
      | none => intro p; simp
      | some av =>
        have hw14 : w = 0x14 := ha (by simp)
        have hdp14 : dp.pduType2 = 0x14 := by
          have : dp.pduType2 = w := by simpa using hw
          rw [this, hw14]
        simp only
        apply liftO_np c _ _ (castU16_np _ _ ((g2 dp hdp).1 hdp14))
        intro got _
        split <;> (intro p; simp)

theorem dataLoop_np (c : GClient) (hs : List Msg)
    (h : ∀ x ∈ hs, Named x ["totalLength", "pduType", "PDUSource", "pduMessage"]) :
    ∀ p, (dataLoop c hs).res ≠ .panic p := by
  induction hs generalizing c with
  | nil => intro p; simp [dataLoop]
  | cons x rest ih =>
    have ihr := fun c => ih c (fun y hy => h y (by simp [hy]))
    obtain ⟨fs, e, hn⟩ := h x (by simp)
    subst e
    obtain ⟨f1, f2⟩ := fromControl_np fs (by rw [hn]; simp) (by rw [hn]; simp)
    unfold dataLoop
    simp only [castComp, unwrapVisit, Outcome.bind_ok]
    cases hfc : fromControl fs with
    | panic q => exact absurd hfc (f1 q)
    | err e => intro p; simp
    | ok pdu =>
      simp only
      split
      · exact ihr _
      · split
        · exact ihr _
        · rename_i hty
          have hty' : pdu.pduType = 0x17 := by simpa [PDU_DATA] using hty
          obtain ⟨g1, g2⟩ := fromPdu_np pdu ((f2 pdu hfc).2 hty')
          cases hfp : fromPdu pdu with
          | panic q => exact absurd hfp (g1 q)
          | err e => exact ihr _
          | ok dp =>
            simp only
            split
            · rename_i h2f
              cases hc : castU32 dp.fields "errorInfo" with
              | panic q => exact absurd hc (castU32_np _ _ ((g2 dp hfp).2 h2f) q)
              | err e => intro p; simp
              | ok v => exact ihr _
            · exact ihr _

def RectNamed (m : Msg) : Prop := Named m (namesOf bitmapDataTmpl)

theorem rectEvent_np (r : Msg) (h : RectNamed r) : ∀ p, rectEvent r ≠ .panic p := by
  obtain ⟨fs, e, hn⟩ := h
  subst e
  have hn' : fs.map Prod.fst = ["destLeft", "destTop", "destRight", "destBottom", "width", "height",
      "bitsPerPixel", "flags", "bitmapLength", "bitmapComprHdr", "bitmapDataStream"] := by rw [hn]; rfl
  simp only [rectEvent, castComp, unwrapVisit, Outcome.bind_ok]
  apply bind_np _ _ (castU16_np _ _ (by rw [hn']; simp)); intro _ _
  apply bind_np _ _ (castU16_np _ _ (by rw [hn']; simp)); intro _ _
  apply bind_np _ _ (castU16_np _ _ (by rw [hn']; simp)); intro _ _
  apply bind_np _ _ (castU16_np _ _ (by rw [hn']; simp)); intro _ _
  apply bind_np _ _ (castU16_np _ _ (by rw [hn']; simp)); intro _ _
  apply bind_np _ _ (castU16_np _ _ (by rw [hn']; simp)); intro _ _
  apply bind_np _ _ (castU16_np _ _ (by rw [hn']; simp)); intro _ _
  apply bind_np _ _ (castU16_np _ _ (by rw [hn']; simp)); intro _ _
  apply bind_np _ _ (castSlice_np _ _ (by rw [hn']; simp)); intro _ _
  intro p; simp

theorem rectEvents_np (rs : List Msg) (h : ∀ r ∈ rs, RectNamed r) : ∀ p, rectEvents rs ≠ .panic p := by
  induction rs with
  | nil => intro p; simp [rectEvents]
  | cons r rs ih =>
    simp only [rectEvents]
    apply bind_np _ _ (rectEvent_np r (h r (by simp))); intro _ _
    apply bind_np _ _ (ih (fun x hx => h x (by simp [hx]))); intro _ _
    intro p; simp

def UpdNamed (m : Msg) : Prop := Named m ["updateHeader", "compressionFlags", "size", "updateData"]

theorem castComp_comp (fs : List (String × Msg)) : castComp (.comp fs) = .ok fs := by
  simp [castComp, unwrapVisit]

theorem fpUpdate_np (u : Msg) (h : UpdNamed u) : ∀ p, fpUpdate u ≠ .panic p := by
  obtain ⟨fs, e, hn⟩ := h
  subst e
  unfold fpUpdate
  rw [castComp_comp]
  simp only [Outcome.bind_ok]
  cases hh : castU8 fs "updateHeader" with
  | panic q => exact absurd hh (castU8_np _ _ (by rw [hn]; simp) q)
  | err e => intro p; simp
  | ok hdr =>
    simp only
    -- whichever template is selected, it is closure-safe
    have hsel : ∀ t, (if hdr &&& 0xf = 1 then some fpUpdateBitmapTmpl
          else if hdr &&& 0xf = 9 then some colorPointerTmpl
          else if hdr &&& 0xf = 3 then some emptyComp
          else if hdr &&& 0xf = 5 then some emptyComp
          else none) = some t → SafeT t ∧ (hdr &&& 0xf = 1 → t = fpUpdateBitmapTmpl) := by
      intro t ht
      split at ht
      · injection ht with ht; subst ht; exact ⟨safe_fpBitmap, fun _ => rfl⟩
      · rename_i h1
        split at ht
        · injection ht with ht; subst ht; exact ⟨safe_colorPointer, fun x => absurd x h1⟩
        · split at ht
          · injection ht with ht; subst ht; exact ⟨safe_empty, fun x => absurd x h1⟩
          · split at ht
            · injection ht with ht; subst ht; exact ⟨safe_empty, fun x => absurd x h1⟩
            · cases ht
    generalize hsel_eq : (if hdr &&& 0xf = 1 then some fpUpdateBitmapTmpl
          else if hdr &&& 0xf = 9 then some colorPointerTmpl
          else if hdr &&& 0xf = 3 then some emptyComp
          else if hdr &&& 0xf = 5 then some emptyComp
          else none) = sel at hsel
    cases sel with
    | none => intro p; simp
    | some t =>
      obtain ⟨hst, hbt⟩ := hsel t rfl
      simp only
      cases hb : castSlice fs "updateData" with
      | panic q => exact absurd hb (castSlice_np _ _ (by rw [hn]; simp) q)
      | err e => intro p; simp
      | ok body =>
        simp only
        cases hr : readAll t body with
        | panic q => exact absurd hr (readAll_noPanic t hst body q)
        | err e => intro p; simp
        | ok m =>
          simp only
          split
          · rename_i h1
            have ht := hbt h1
            subst ht
            obtain ⟨mf, hmc, hmn⟩ := named_readAll fpUpdateBitmapTmpl _ rfl body m hr
            rw [hmc]
            simp only [Outcome.bind_ok]
            have hmn' : mf.map Prod.fst = ["header", "numberRectangles", "rectangles"] := by rw [hmn]; rfl
            cases hct : castTrame mf "rectangles" with
            | panic q => exact absurd hct (castTrame_np _ _ (by rw [hmn']; simp) q)
            | err e => intro p; simp
            | ok rects =>
              simp only [Outcome.bind_ok]
              have hlk : lookupField
                  [("header", Msg.check (u16le 1)), ("numberRectangles", u16le 0),
                   ("rectangles", Msg.array (some bitmapDataTmpl) [])] "rectangles"
                  = some (.array (some bitmapDataTmpl) []) := by simp [lookupField]
              have := field_array_items _ _ "rectangles" hlk body m hr mf hmc rects hct
              exact rectEvents_np rects (fun r hr => this r hr)
          · intro p; simp

theorem fpLoopAcc_np (us : List Msg) (h : ∀ u ∈ us, UpdNamed u) (acc : List BitmapEv) :
    ∀ p, (fpLoopAcc us acc).2 ≠ .panic p := by
  induction us generalizing acc with
  | nil => intro p; simp [fpLoopAcc]
  | cons u us ih =>
    unfold fpLoopAcc
    cases hu : fpUpdate u with
    | panic q => exact absurd hu (fpUpdate_np u (h u (by simp)) q)
    | err e => intro p; simp
    | ok e => exact ih (fun x hx => h x (by simp [hx])) _

/-- **C06** — `global::Client::read` is total: in every client state, for every payload
    (slow-path or fast-path, arbitrary bytes), the result is a value or an error, never a
    panic, and never the spin of an array whose element consumes nothing. -/
theorem c06_read_total (c : GClient) (p : Payload) : ∀ q, (step c p).res ≠ .panic q := by
  unfold step
  cases hs : c.state <;> simp only
  case demandActive =>
    cases p with
    | fast f b => intro q; simp
    | raw s =>
      simp only
      obtain ⟨f1, f2⟩ := fromStream_np s
      apply liftO_np c _ _ f1
      intro pdu hpdu
      split
      · intro q; simp
      · rename_i hty
        have hty' : pdu.pduType = 0x11 := by simpa using hty
        obtain ⟨hn, hcapsNamed⟩ := (f2 pdu hpdu).1 hty'
        have hn' : pdu.fields.map Prod.fst = ["shareId", "lengthSourceDescriptor", "lengthCombinedCapabilities",
          "sourceDescriptor", "numberCapabilities", "pad2Octets", "capabilitySets", "sessionId"] := by rw [hn]; rfl
        apply liftO_np c _ _ (castTrame_np _ _ (by rw [hn']; simp))
        intro caps hcaps
        have hcn : ∀ x ∈ caps, CapNamed x := hcapsNamed caps hcaps
        apply liftO_np c _ _ (capabilityChecks_np caps hcn)
        intro _ _
        apply liftO_np c _ _ (castU32_np _ _ (by rw [hn']; simp))
        intro sid _
        split
        · split
          · intro q; simp
          · rename_i heq; exact absurd heq (finalizeBytes_ne_err _ _)
          · rename_i heq; exact absurd heq (finalizeBytes_ne_panic _ _)
        · rename_i heq; exact absurd heq (confirmActiveBytes_ne_err _ _)
        · rename_i heq; exact absurd heq (confirmActiveBytes_ne_panic _ _)
  case synchronize =>
    cases p with
    | fast f b => intro q; simp
    | raw s => exact waitDataPdu_np c s _ _ _ (by simp)
  case controlCooperate =>
    cases p with
    | fast f b => intro q; simp
    | raw s => exact waitDataPdu_np c s _ _ _ (by simp)
  case controlGranted =>
    cases p with
    | fast f b => intro q; simp
    | raw s => exact waitDataPdu_np c s _ _ _ (by simp)
  case fontMap =>
    cases p with
    | fast f b => intro q; simp
    | raw s => exact waitDataPdu_np c s _ _ _ (by simp)
  case data =>
    cases p with
    | raw s =>
      simp only
      cases hr : read (.array (some shareControlHeaderTmpl) []) s with
      | panic q =>
        exact absurd hr (read_noPanic _ (by simp [SafeT, safe_shareControl, consuming_shareControl]) s q)
      | err e => intro q; simp
      | ok m r =>
        obtain ⟨xs, hm⟩ := read_array_shape _ _ s m r hr
        subst hm
        simp only
        have := array_items_named _ s _ _ r hr
        exact dataLoop_np c _ (fun x hx => this x hx)
    | fast f s =>
      simp only
      cases hr : read (.array (some fpUpdateTmpl) []) s with
      | panic q =>
        exact absurd hr (read_noPanic _ (by simp [SafeT, safe_fpUpdate, consuming_fpUpdate]) s q)
      | err e => intro q; simp
      | ok m r =>
        obtain ⟨xs, hm⟩ := read_array_shape _ _ s m r hr
        subst hm
        simp only
        have := array_items_named _ s _ _ r hr
        exact fpLoopAcc_np _ (fun x hx => this x hx) []

/-- parsing (and discarding) a colour-pointer update never panics, whatever its bytes —
    discharges the explicit hypothesis of `c10_exactly_once` -/
theorem c06_colorPointer_total (d : Bytes) : ∀ p, readAll colorPointerTmpl d ≠ .panic p :=
  readAll_noPanic _ safe_colorPointer d

/-- submitting input never panics either (it succeeds in `Data`, is refused elsewhere) -/
theorem c06_write_total (c : GClient) (e : InEvent) : ∀ p, clientWrite c e ≠ .panic p := by
  intro p
  cases e with
  | bitmap => simp [clientWrite]
  | pointer x y b d =>
    simp only [clientWrite, writeInput]
    split
    · obtain ⟨bb, hb⟩ := toVec_ok (pointerEvent (pointerFlags b d) x y) (by simp [pointerEvent, SafeW, SafeWFields, u16le])
      obtain ⟨b2, hb2⟩ := dataPduBytes_ok c 0x1C (inputPduData [inputEvent 0x8001 bb])
        (by simp [inputPduData, inputEvent, SafeW, SafeWFields, SafeWList, u16le, u32le, blob])
      simp [hb, hb2]
    · simp
  | key k d =>
    simp only [clientWrite, writeInput]
    split
    · obtain ⟨bb, hb⟩ := toVec_ok (keyboardEvent (keyFlags d) k) (by simp [keyboardEvent, SafeW, SafeWFields, u16le])
      obtain ⟨b2, hb2⟩ := dataPduBytes_ok c 0x1C (inputPduData [inputEvent 0x0004 bb])
        (by simp [inputPduData, inputEvent, SafeW, SafeWFields, SafeWList, u16le, u32le, blob])
      simp [hb, hb2]
    · simp

end Rdp.Global

namespace Rdp.Mcs
open Rdp Rdp.Per

/-- **C06** — `mcs::Client::read` on any x224 payload returns a value or an error -/
theorem c06_mcs_read_total (uid gid : Nat) (p : Payload) : ∀ q, read uid gid p ≠ .panic q := by
  intro q
  cases p with
  | fast f b => simp [read]
  | raw s =>
    simp only [read]
    cases h1 : readU8 s with
    | panic x => exact absurd h1 (readU8_np s x)
    | err r => simp
    | ok hdr r1 =>
      simp only
      split; · simp
      split; · simp
      cases h2 : readInteger16 1001 r1 with
      | panic x => exact absurd h2 (readInteger16_np _ r1 x)
      | err r => simp
      | ok _ r2 =>
        simp only
        cases h3 : readInteger16 0 r2 with
        | panic x => exact absurd h3 (readInteger16_np _ r2 x)
        | err r => simp
        | ok ch r3 =>
          simp only
          split; · simp
          cases h4 : readU8 r3 with
          | panic x => exact absurd h4 (readU8_np r3 x)
          | err r => simp
          | ok _ r4 =>
            simp only
            cases h5 : readLength r4 with
            | panic x => exact absurd h5 (readLength_np r4 x)
            | err r => simp
            | ok _ r5 => simp

end Rdp.Mcs
