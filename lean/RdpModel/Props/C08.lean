import RdpModel.Lemmas.Decompress
/-
  C08 — Bitmap decompression is total and returns exactly width·height·4 bytes.
-/
namespace Rdp.Codec
open Rdp
open Rdp.Rle16 (Safe)

theorem init_boundary (w h : Nat) (out : Array UInt16) (hsz : out.size = w * h * 2) :
    Rle16.Boundary w h (Rle16.initSt w h out) := by
  refine ⟨⟨?_, Nat.le_refl _, Nat.le_refl _, fun _ => rfl, ?_, ?_, ?_⟩, fun _ => ⟨rfl, rfl⟩⟩
  · simp [Rle16.initSt, hsz]; rw [Nat.mul_comm h w]; omega
  · intro l hl; cases hl
  · intro e he; cases he
  · intro hx; simp [Rle16.initSt] at hx

/-- The interleaved-RLE decoder, started on the buffer `decompress` allocates, never
    indexes out of range, never unwraps `None`, never over/underflows a counter and never
    spins — for every width (0 included), height and input; the buffer keeps its size. -/
theorem c08_rle16_safe (inp : Rle16.Input) (w h : Nat) (out : Array UInt16) (hsz : out.size = w * h * 2) :
    Safe (Rle16.decompress inp w h out) (fun o => o.size = w * h * 2) := by
  unfold Rle16.decompress
  have hb := init_boundary w h out hsz
  refine (Rle16.orders_safe inp (inp.size + 1) hb (by simp [Rle16.initSt])).bind ?_
  intro s hs
  show s.out.size = w * h * 2
  rw [hs]; simpa [Rle16.initSt] using hsz

theorem raw32_length (d : Array UInt8) (w h : Nat) (hsz : w * h * 4 ≤ d.size) :
    (raw32 d w h).length = w * h * 4 := by
  unfold raw32
  rw [Array.length_toList]
  -- each appended slice has `w * 4` bytes
  have key : ∀ (l : List Nat) (acc : Array UInt8), (∀ i ∈ l, i < h) →
      (l.foldl (fun (acc : Array UInt8) i =>
        acc ++ d.extract ((h - i - 1) * w * 4) ((h - i - 1) * w * 4 + w * 4)) acc).size = acc.size + l.length * (w * 4) := by
    intro l
    induction l with
    | nil => intro acc _; simp
    | cons i is ih =>
      intro acc hmem
      simp only [List.foldl_cons, List.length_cons]
      rw [ih _ (fun j hj => hmem j (by simp [hj]))]
      have hi : i < h := hmem i (by simp)
      have hrow : (h - i - 1) * w * 4 + w * 4 ≤ w * h * 4 := by
        have h1 : h - i - 1 + 1 ≤ h := by omega
        have := Nat.mul_le_mul_right (w * 4) h1
        rw [Nat.add_mul, Nat.one_mul] at this
        rw [Nat.mul_comm w h]
        simpa [Nat.mul_assoc] using this
      simp only [Array.size_append, Array.size_extract]
      have : min ((h - i - 1) * w * 4 + w * 4) d.size = (h - i - 1) * w * 4 + w * 4 := by omega
      rw [this, Nat.add_mul]; omega
  rw [key (List.range h) _ (fun i hi => by simpa using hi)]
  simp; rw [Nat.mul_comm w h]; simp [Nat.mul_assoc]

/-- **C08** — for every bitmap event, whatever its width, height, colour depth,
    compression flag and data: `decompress` returns an error or a buffer of exactly
    width × height × 4 bytes; it never panics and never indexes outside its buffers. -/
theorem c08_total_exact (e : BitmapEvent) :
    Safe (decompress e) (fun o => o.length = e.width * e.height * 4) := by
  unfold decompress
  simp only
  split
  · split
    · have hs : (Array.replicate (e.width * e.height * 4) (0 : UInt8)).size = e.width * e.height * 4 := by simp
      refine (rle32_safe e.data e.width e.height _ hs).bind ?_
      intro a ha
      show a.toList.length = e.width * e.height * 4
      rw [Array.length_toList, ha, hs]
    · split
      · trivial
      · rename_i hlen
        show (raw32 e.data e.width e.height).length = e.width * e.height * 4
        exact raw32_length _ _ _ (by omega)
  · split
    · split
      · have hs : (Array.replicate (e.width * e.height * 2) (0 : UInt16)).size = e.width * e.height * 2 := by simp
        refine (c08_rle16_safe e.data e.width e.height _ hs).bind ?_
        intro buf hb
        exact rgb565_safe buf e.width e.height (by rw [hb]; omega)
      · split
        · trivial
        · exact rgb565_safe _ e.width e.height (by simp [raw16])
    · trivial

/-- corollary in the words of the property -/
theorem c08_never_panics (e : BitmapEvent) : ∀ p, decompress e ≠ .panic p :=
  (c08_total_exact e).noPanic

theorem c08_exact_size (e : BitmapEvent) (o : List UInt8) (h : decompress e = .ok o) :
    o.length = e.width * e.height * 4 := by
  have := c08_total_exact e
  rw [h] at this
  exact this

/-! ### allocation: "no more than a small multiple of the output size" -/

/-- every buffer `decompress` requests is at most the size of the output (width × height × 4) -/
theorem c08_alloc_each (e : BitmapEvent) : ∀ a ∈ allocTrace e, a ≤ e.width * e.height * 4 := by
  intro a ha
  unfold allocTrace at ha
  simp only at ha
  split at ha
  · simp at ha; omega
  · split at ha
    · split at ha
      · split at ha <;> simp at ha <;> omega
      · split at ha <;> simp at ha <;> omega
    · simp at ha

/-- all buffers together: at most twice the output size, whatever the event — the data
    length, the declared geometry and the compression flag do not matter -/
theorem c08_alloc_total (e : BitmapEvent) : (allocTrace e).sum ≤ 2 * (e.width * e.height * 4) := by
  unfold allocTrace
  simp only
  split
  · simp; omega
  · split
    · split
      · split <;> simp <;> omega
      · split <;> simp <;> omega
    · simp

theorem rgb565_not_err (buf : Array UInt16) (w h : Nat) (s : String) : rgb565torgb32 buf w h ≠ .err s := by
  unfold rgb565torgb32; split <;> simp

/-- a failing event never costs more than one output-sized buffer -/
theorem c08_alloc_failed (e : BitmapEvent) (s : String) (h : decompress e = .err s) :
    (allocTrace e).sum ≤ e.width * e.height * 4 := by
  unfold allocTrace
  simp only
  by_cases h32 : e.bpp = 32
  · simp [h32]
  · by_cases h16 : e.bpp = 16
    · have h1632 : ¬ (16 : Nat) = 32 := by decide
      simp only [h32, h16, h1632, if_false, if_true]
      unfold decompress at h
      simp only [h16, h1632, if_false, if_true] at h
      by_cases hc : e.compress = true
      · simp only [hc, if_true] at h ⊢
        cases hb : Rle16.decompress e.data e.width e.height (Array.replicate (e.width * e.height * 2) 0) with
        | ok buf =>
          exfalso
          rw [hb] at h
          simp only [Outcome.bind_ok] at h
          exact rgb565_not_err _ _ _ _ h
        | err _ => simp; omega
        | panic _ => simp; omega
      · simp only [hc, Bool.false_eq_true, if_false] at h ⊢
        by_cases hl : e.data.size < e.width * e.height * 2
        · simp [hl]
        · exfalso
          simp only [hl, if_false] at h
          exact rgb565_not_err _ _ _ _ h
    · simp [h32, h16]

example : allocTrace ⟨2, 2, 16, true, #[0xFD, 0x01, 0x61, 0x34, 0x12, 0x01]⟩ = [16, 16] := by decide +kernel
example : allocTrace ⟨64, 64, 32, false, #[]⟩ = [16384] := by decide +kernel

end Rdp.Codec
