import RdpModel.Gui.Recv
/-
  C20 — the GUI receive thread keeps up with the server and stops with the session.
  Theorems over the transition system of Gui/Recv.lean (thread + socket + TLS buffer).
  PARTIAL: the kernel, OpenSSL's record handling and the scheduler are modelled, not
  verified; the correspondence runs the real thread on real sockets with real TLS.
-/
namespace Rdp.Gui.Recv

/-! ### safety: nothing is lost, duplicated or reordered, under every schedule -/

/-- forwarded events followed by the bitmap PDUs still to be consumed: invariant of every
    step of the thread and of every server action -/
def history (s : St) : List Nat := s.delivered ++ ids s.pdus

theorem step_history (fixed : Bool) (s s' : St) (h : step fixed s = some s') : history s' = history s := by
  unfold step at h
  cases hpc : s.pc with
  | done => rw [hpc] at h; cases h
  | sel =>
    rw [hpc] at h; simp only at h
    split at h
    · injection h with h; subst h; rfl
    · cases h
  | rd =>
    rw [hpc] at h; simp only at h
    cases hp : s.pdus with
    | nil =>
      rw [hp] at h; simp only at h
      cases hs : s.sock with
      | nil => rw [hs] at h; simp only at h; split at h
               · injection h with h; subst h; simp [history, hp]
               · cases h
      | cons r more => rw [hs] at h; simp only at h; injection h with h; subst h; simp [history, hp]
    | cons p rest =>
      rw [hp] at h; simp only at h
      split at h
      · cases hk : p.kind with
        | bitmap id => rw [hk] at h; simp only at h; injection h with h; subst h; simp [history, hp, ids, hk]
        | quiet => rw [hk] at h; simp only at h; injection h with h; subst h; simp [history, hp, ids, hk]
        | ultimatum => rw [hk] at h; simp only at h; injection h with h; subst h; simp [history, hp, ids, hk]
        | badRdp => rw [hk] at h; simp only at h; injection h with h; subst h; simp [history, hp, ids, hk]
        | badIo => rw [hk] at h; simp only at h; injection h with h; subst h; simp [history, hp, ids, hk]
      · cases hs : s.sock with
        | nil => rw [hs] at h; simp only at h; split at h
                 · injection h with h; subst h; simp [history, hp]
                 · cases h
        | cons r more => rw [hs] at h; simp only at h; injection h with h; subst h; simp [history, hp]

theorem push_history (r : Nat) (s : St) : history (push r s) = history s := rfl
theorem close_history (s : St) : history (close s) = history s := rfl

/-- any interleaving of thread steps and server actions -/
inductive Act where
  | thread | push (r : Nat) | close
deriving Repr

def apply (fixed : Bool) (s : St) : Act → St
  | .thread => (step fixed s).getD s
  | .push r => push r s
  | .close => close s

/-- **No loss, no duplication, no reordering** — for every schedule (every interleaving of
    thread steps with record arrivals and the close), the events forwarded so far are a
    prefix of the bitmap PDUs the server sent, in the server's order. -/
theorem c20_no_loss_no_reorder (fixed : Bool) (pdus : List Pdu) (sched : List Act) :
    (sched.foldl (apply fixed) (init pdus)).delivered <+: ids pdus := by
  have inv : ∀ (sched : List Act) (s : St), history (sched.foldl (apply fixed) s) = history s := by
    intro sched
    induction sched with
    | nil => intro s; rfl
    | cons a rest ih =>
      intro s
      simp only [List.foldl_cons]
      rw [ih]
      cases a with
      | thread =>
        simp only [apply]
        cases hs : step fixed s with
        | none => rfl
        | some s' => exact step_history fixed s s' hs
      | push r => rfl
      | close => rfl
  have := inv sched (init pdus)
  simp only [history, init, List.nil_append] at this
  exact ⟨_, this⟩

/-! ### the thread stops with the session (repaired loop) -/

def measure (s : St) : Nat := 2 * s.pdus.length + s.sock.length + (if s.pc = .sel then 1 else 0)

/-- once the peer has closed, the repaired thread is never blocked -/
theorem closed_enabled (s : St) (hc : s.closed = true) (hp : s.pc ≠ .done) : ∃ s', step true s = some s' := by
  unfold step
  cases hpc : s.pc with
  | done => exact absurd hpc hp
  | sel => simp [hc]
  | rd =>
    simp only
    cases s.pdus with
    | nil => cases s.sock <;> simp [hc]
    | cons p rest =>
      simp only
      split
      · cases p.kind <;> simp
      · cases s.sock <;> simp [hc]

theorem step_closed (fixed : Bool) (s s' : St) (h : step fixed s = some s') (hc : s.closed = true) : s'.closed = true := by
  have key : s'.closed = s.closed := by
    unfold step at h
    repeat' split at h
    all_goals (first | (cases h; done) | (injection h with h; subst h; rfl))
  rw [key]; exact hc

/-- every step of the repaired thread either finishes it or decreases the measure -/
theorem step_measure (s s' : St) (h : step true s = some s') : s'.pc = .done ∨ measure s' < measure s := by
  unfold step at h
  cases hpc : s.pc with
  | done => rw [hpc] at h; cases h
  | sel => rw [hpc] at h; simp only at h; split at h
           · injection h with h; subst h; right; simp [measure, hpc]
           · cases h
  | rd =>
    rw [hpc] at h; simp only at h
    cases hp : s.pdus with
    | nil =>
      rw [hp] at h; simp only at h
      cases hs : s.sock with
      | nil => rw [hs] at h; simp only at h; split at h
               · injection h with h; subst h; left; rfl
               · cases h
      | cons r more => rw [hs] at h; simp only at h; injection h with h; subst h; right; simp [measure, hpc, hp, hs]
    | cons p rest =>
      rw [hp] at h; simp only at h
      split at h
      · cases hk : p.kind with
        | bitmap id => rw [hk] at h; simp only at h; injection h with h; subst h; right; simp [measure, hpc, hp]; omega
        | quiet => rw [hk] at h; simp only at h; injection h with h; subst h; right; simp [measure, hpc, hp]; omega
        | ultimatum => rw [hk] at h; simp only at h; injection h with h; subst h; left; rfl
        | badRdp => rw [hk] at h; simp only at h; injection h with h; subst h; left; rfl
        | badIo => rw [hk] at h; simp only at h; injection h with h; subst h; left; rfl
      · cases hs : s.sock with
        | nil => rw [hs] at h; simp only at h; split at h
                 · injection h with h; subst h; left; rfl
                 · cases h
        | cons r more => rw [hs] at h; simp only at h; injection h with h; subst h; right; simp [measure, hpc, hp, hs]

theorem run_done (fixed : Bool) (n : Nat) (s : St) (h : s.pc = .done) : run fixed n s = s := by
  cases n with
  | zero => rfl
  | succ n => simp [run, step, h]

/-- **The thread stops with the session.**  From ANY state — whatever is buffered, wherever
    the thread is in its select / lock / read cycle — once the connection has ended (orderly
    TLS closure or abrupt close) the repaired thread leaves its loop within
    `measure s + 1` steps; it cannot spin. -/
theorem c20_stops (s : St) (hc : s.closed = true) : (run true (measure s + 1) s).pc = .done := by
  generalize hm : measure s = m
  induction m using Nat.strongRecOn generalizing s with
  | _ m ih =>
    by_cases hp : s.pc = .done
    · rw [run_done _ _ _ hp]; exact hp
    · obtain ⟨s', hs'⟩ := closed_enabled s hc hp
      simp only [run, hs']
      rcases step_measure s s' hs' with hd | hlt
      · rw [run_done _ _ _ hd]; exact hd
      · have hc' := step_closed true s s' hs' hc
        have hlt' : measure s' < m := by omega
        have := ih (measure s') hlt' s' hc' rfl
        -- more fuel than needed does not matter once done
        have mono : ∀ (k j : Nat) (t : St), (run true k t).pc = .done → (run true (k + j) t).pc = .done := by
          intro k
          induction k with
          | zero => intro j t ht; simp only [run] at ht; rw [Nat.zero_add, run_done _ _ _ ht]; exact ht
          | succ k ihk =>
            intro j t ht
            have : k + 1 + j = (k + j) + 1 := by omega
            rw [this]
            simp only [run] at ht ⊢
            cases hst : step true t with
            | none => rw [hst] at ht; exact ht
            | some t' => rw [hst] at ht; exact ihk j t' ht
        have hk : m = (measure s' + 1) + (m - (measure s' + 1)) := by omega
        rw [hk]
        exact mono _ _ _ this

/-- an ultimatum or an undecodable PDU ends the thread as soon as it is read: the same
    theorem covers them because the read that consumes such a PDU moves to `done` directly
    (see `step`); for the record: -/
theorem c20_terminal_pdu (s : St) (p : Pdu) (rest : List Pdu)
    (hpc : s.pc = .rd) (hp : s.pdus = p :: rest) (hb : p.len ≤ s.buf)
    (hnb : ∀ i, p.kind ≠ .bitmap i) (hnq : p.kind ≠ .quiet) : ∃ s', step true s = some s' ∧ s'.pc = .done := by
  unfold step
  rw [hpc, hp]
  simp only [hb, if_true]
  cases hkk : p.kind with
  | bitmap i => exact absurd hkk (hnb i)
  | quiet => exact absurd hkk hnq
  | ultimatum => exact ⟨_, rfl, rfl⟩
  | badRdp => exact ⟨_, rfl, rfl⟩
  | badIo => exact ⟨_, rfl, rfl⟩

/-- The pinned loop (leave only on `Error::RdpError`) spins on a dead socket: from the
    state "peer closed, nothing buffered" it alternates select / read forever. -/
theorem c20_pinned_spins (n : Nat) (d : List Nat) (pc : Pc) (hpc : pc ≠ .done) :
    (run false n ⟨[], 0, [], true, pc, d⟩).pc ≠ .done := by
  induction n generalizing pc with
  | zero => simpa [run] using hpc
  | succ n ih =>
    cases pc with
    | done => exact absurd rfl hpc
    | sel => simp only [run, step]; simp; exact ih .rd (by simp)
    | rd => simp only [run, step]; simp; exact ih .sel (by simp)

/-! ### keeping up with the server -/

/-- **Keeps up, when records and PDUs coincide (partial).**  If every TLS record carries
    exactly one bitmap PDU, the thread forwards all of them without any further server
    traffic: it runs until the socket is empty and nothing is left buffered. -/
theorem c20_keeps_up_aligned (fixed : Bool) (ps : List Pdu) (d : List Nat)
    (hb : ∀ p ∈ ps, ∃ i, p.kind = .bitmap i) (hl : ∀ p ∈ ps, 0 < p.len) :
    run fixed (3 * ps.length) ⟨ps, 0, ps.map (·.len), false, .sel, d⟩ = ⟨[], 0, [], false, .sel, d ++ ids ps⟩ := by
  induction ps generalizing d with
  | nil => simp [run, ids]
  | cons p rest ih =>
    obtain ⟨i, hi⟩ := hb p (by simp)
    have hpos := hl p (by simp)
    have h3 : 3 * (p :: rest).length = 3 * rest.length + 3 := by simp; omega
    rw [h3]
    -- select sees the record, read pulls it, read consumes the PDU
    have s1 : step fixed ⟨p :: rest, 0, (p :: rest).map (·.len), false, .sel, d⟩ = some ⟨p :: rest, 0, (p :: rest).map (·.len), false, .rd, d⟩ := by
      simp [step]
    have s2 : step fixed ⟨p :: rest, 0, (p :: rest).map (·.len), false, .rd, d⟩ = some ⟨p :: rest, p.len, rest.map (·.len), false, .rd, d⟩ := by
      simp only [step, List.map_cons]
      rw [if_neg (by omega)]
      simp
    have s3 : step fixed ⟨p :: rest, p.len, rest.map (·.len), false, .rd, d⟩ = some ⟨rest, 0, rest.map (·.len), false, .sel, d ++ [i]⟩ := by
      simp only [step]
      rw [if_pos (Nat.le_refl _), hi]
      simp
    simp only [run, s1, s2, s3]
    rw [ih (d ++ [i]) (fun q hq => hb q (by simp [hq])) (fun q hq => hl q (by simp [hq]))]
    simp [ids, hi]

/-- **Keeps up fails in general (the recorded finding).**  Two bitmap PDUs in one TLS
    record: after forwarding the first the thread blocks in `select` although the second
    PDU is complete in the TLS buffer and the server is silent. -/
theorem c20_keeps_up_fails :
    let s := run true 100 (push 20 (init [⟨.bitmap 0, 10⟩, ⟨.bitmap 1, 10⟩]))
    s.delivered = [0] ∧ s.pc = .sel ∧ s.buf = 10 ∧ s.sock = [] ∧ step true s = none := by
  decide

/-! ### schedule independence -/

/-- A record arriving commutes with a step the thread can already take: the thread pulls
    records lazily from the front, arrivals append at the back.  So the quiescent state does
    not depend on how arrivals interleave with the thread (arrivals precede the close: the
    transport is ordered). -/
theorem c20_push_commutes (fixed : Bool) (r : Nat) (s s' : St) (h : step fixed s = some s')
    (hopen : s.closed = false) :
    step fixed (push r s) = some (push r s') := by
  unfold step at h ⊢
  cases hpc : s.pc with
  | done => rw [hpc] at h; cases h
  | sel =>
    rw [hpc] at h; simp only at h
    simp only [push, hpc]
    split at h
    · injection h with h; subst h
      simp
    · cases h
  | rd =>
    rw [hpc] at h; simp only at h
    simp only [push, hpc]
    cases hp : s.pdus with
    | nil =>
      rw [hp] at h; simp only at h ⊢
      cases hs : s.sock with
      | nil =>
        rw [hs] at h; simp only at h
        split at h
        · -- EOF is seen only after the peer closed; records arrive before that
          rename_i hcl
          rw [hopen] at hcl; cases hcl
        · cases h
      | cons q more => rw [hs] at h; simp only at h; injection h with h; subst h; simp
    | cons p rest =>
      rw [hp] at h; simp only at h ⊢
      split at h
      · rename_i hle
        rw [if_pos hle]
        cases hk : p.kind <;> (rw [hk] at h; simp only at h; injection h with h; subst h; simp)
      · rename_i hle
        rw [if_neg hle]
        cases hs : s.sock with
        | nil =>
          rw [hs] at h; simp only at h
          split at h
          · rename_i hcl
            rw [hopen] at hcl; cases hcl
          · cases h
        | cons q more => rw [hs] at h; simp only at h; injection h with h; subst h; simp

end Rdp.Gui.Recv
