import RdpModel.Wire.Connector
import RdpModel.Spec.Negotiation
/-
  C02 — Negotiated transport security is honoured; no downgrade.
-/
namespace Rdp.Connect
open Rdp

/-- The client continues only with a protocol it offered: NLA only if offered, TLS only if
    offered, and the raw transport (standard RDP security) only if nothing else was — for
    EVERY reply (response / failure / echoed request / absent / unknown type / any selected
    value / any flags: the reply is an arbitrary byte string). -/
theorem c02_only_offered (offered : Nat) (hasAuth : Bool) (reply : Bytes) (d : Decision)
    (h : negotiate offered hasAuth reply = .ok d) :
    (d = .startNla → offered &&& 2 ≠ 0 ∧ hasAuth = true) ∧
    (d = .startSsl → offered &&& 1 ≠ 0) ∧
    (d = .continueRaw → offered = 0) := by
  unfold negotiate at h
  cases hs : readConnectionConfirm reply with
  | err e => rw [hs] at h; cases h
  | panic p => rw [hs] at h; cases h
  | ok sel =>
    rw [hs] at h
    simp only [Outcome.bind_ok, decide] at h
    split at h; · cases h
    rename_i hoff
    simp only [not_or, not_and, Decidable.not_not] at hoff
    split at h
    · rename_i h2
      split at h
      · rename_i ha
        injection h with h; subst h
        refine ⟨?_, ?_, ?_⟩
        · intro _
          refine ⟨?_, ha⟩
          subst h2
          intro hz
          exact (hoff.1 (by decide)) (by rw [Nat.and_comm]; exact hz)
        · intro x; cases x
        · intro x; cases x
      · cases h
    · split at h
      · rename_i h1
        injection h with h; subst h
        refine ⟨?_, ?_, ?_⟩
        · intro x; cases x
        · intro _
          subst h1
          intro hz
          exact (hoff.1 (by decide)) (by rw [Nat.and_comm]; exact hz)
        · intro x; cases x
      · split at h
        · rename_i h0
          injection h with h; subst h
          refine ⟨?_, ?_, ?_⟩
          · intro x; cases x
          · intro x; cases x
          · intro _
            exact hoff.2 h0
        · cases h

end Rdp.Connect

namespace Rdp.Connector
open Rdp Rdp.Connect

theorem laterPhases_false_no_nla (n : Nat) : ∀ ev ∈ laterPhases false n, ev.credentialBearing = true → ev = .clientInfo := by
  intro ev hev hc
  cases n with
  | zero => simp [laterPhases] at hev; subst hev; simp [Ev.credentialBearing] at hc
  | succ m =>
    simp only [laterPhases, Bool.false_eq_true, if_false] at hev
    cases m with
    | zero => simp at hev; subst hev; simp [Ev.credentialBearing] at hc
    | succ k =>
      cases k with
      | zero => simp at hev; rcases hev with rfl | rfl <;> simp [Ev.credentialBearing] at hc
      | succ j => simp at hev; rcases hev with rfl | rfl | rfl <;> simp_all [Ev.credentialBearing]

/-- The connector always offers TLS, so the raw transport is never continued. -/
theorem never_raw (c : Config) (e : Env) : negotiate (offeredOf c) true e.confirm ≠ .ok .continueRaw := by
  intro h
  have := (c02_only_offered _ _ _ _ h).2.2 rfl
  unfold offeredOf at this
  split at this <;> cases this

/-- No credential-bearing message (NTLM token, CredSSP credentials, Client Info) is written
    unless TLS has been established on that connection first — for every configuration,
    every confirm (arbitrary bytes), every certificate/handshake outcome and however far
    the server lets the later phases go. -/
theorem c02_creds_after_tls (c : Config) (e : Env) (pre post : List Ev) (ev : Ev)
    (h : trace c e = pre ++ ev :: post) (hc : ev.credentialBearing = true) : Ev.tlsUp ∈ pre := by
  unfold trace at h
  cases hn : negotiate (offeredOf c) true e.confirm with
  | panic p =>
    rw [hn] at h; simp only [List.append_nil] at h
    cases pre with
    | nil => simp at h; obtain ⟨h1, _⟩ := h; subst h1; simp [Ev.credentialBearing] at hc
    | cons a l => simp at h
  | err p =>
    rw [hn] at h; simp only [List.append_nil] at h
    cases pre with
    | nil => simp at h; obtain ⟨h1, _⟩ := h; subst h1; simp [Ev.credentialBearing] at hc
    | cons a l => simp at h
  | ok d =>
    rw [hn] at h
    cases d with
    | continueRaw => exact absurd hn (never_raw c e)
    | startSsl =>
      simp only at h
      by_cases ht : tlsEstablished c e = true
      · simp only [ht, if_true] at h
        -- trace = negReq :: tlsStart :: tlsUp :: later
        have hmem : ev ∈ (Ev.negReq (offeredOf c) c.restrictedAdmin :: Ev.tlsStart c.checkCert :: Ev.tlsUp :: laterPhases false e.progress) := by
          have : ev ∈ pre ++ ev :: post := by simp
          rw [← h] at this; simpa using this
        -- position argument: the first three events are not credential bearing
        cases pre with
        | nil => simp at h; obtain ⟨h1, _⟩ := h; subst h1; simp [Ev.credentialBearing] at hc
        | cons a l =>
          cases l with
          | nil => simp at h; obtain ⟨_, h1, _⟩ := h; subst h1; simp [Ev.credentialBearing] at hc
          | cons b l2 =>
            cases l2 with
            | nil => simp at h; obtain ⟨_, _, h1, _⟩ := h; subst h1; simp [Ev.credentialBearing] at hc
            | cons d l3 => simp at h; obtain ⟨_, _, h1, _⟩ := h; subst h1; simp
      · simp only [ht, if_false] at h
        cases pre with
        | nil => simp at h; obtain ⟨h1, _⟩ := h; subst h1; simp [Ev.credentialBearing] at hc
        | cons a l =>
          cases l with
          | nil => simp at h; obtain ⟨_, h1, _⟩ := h; subst h1; simp [Ev.credentialBearing] at hc
          | cons b l2 => simp at h
    | startNla =>
      simp only at h
      by_cases ht : tlsEstablished c e = true
      · simp only [ht, if_true] at h
        cases pre with
        | nil => simp at h; obtain ⟨h1, _⟩ := h; subst h1; simp [Ev.credentialBearing] at hc
        | cons a l =>
          cases l with
          | nil => simp at h; obtain ⟨_, h1, _⟩ := h; subst h1; simp [Ev.credentialBearing] at hc
          | cons b l2 =>
            cases l2 with
            | nil => simp at h; obtain ⟨_, _, h1, _⟩ := h; subst h1; simp [Ev.credentialBearing] at hc
            | cons d l3 => simp at h; obtain ⟨_, _, h1, _⟩ := h; subst h1; simp
      · simp only [ht, if_false] at h
        cases pre with
        | nil => simp at h; obtain ⟨h1, _⟩ := h; subst h1; simp [Ev.credentialBearing] at hc
        | cons a l =>
          cases l with
          | nil => simp at h; obtain ⟨_, h1, _⟩ := h; subst h1; simp [Ev.credentialBearing] at hc
          | cons b l2 => simp at h

/-- With certificate checking enabled an untrusted certificate aborts the connection
    before any credential-bearing message. -/
theorem c02_untrusted_aborts (c : Config) (e : Env) (hcheck : c.checkCert = true) (hu : e.certTrusted = false) :
    ∀ ev ∈ trace c e, ev.credentialBearing = false := by
  intro ev hev
  have hno : tlsEstablished c e = false := by simp [tlsEstablished, hcheck, hu]
  unfold trace at hev
  cases hn : negotiate (offeredOf c) true e.confirm with
  | panic p => rw [hn] at hev; simp at hev; subst hev; rfl
  | err p => rw [hn] at hev; simp at hev; subst hev; rfl
  | ok d =>
    rw [hn] at hev
    cases d with
    | continueRaw => exact absurd hn (never_raw c e)
    | startSsl => simp [hno] at hev; rcases hev with rfl | rfl <;> rfl
    | startNla => simp [hno] at hev; rcases hev with rfl | rfl <;> rfl

end Rdp.Connector
