import RdpModel.Wire.Emit
import RdpModel.Nla.Cssp
/-
  C17 — secrets leave the client only where the chosen mode says they may.
  Data-flow model of `Connector::connect`: which strings reach which message, per mode.
  The emitters are the ones the whole-connection correspondence compares byte for byte
  (`conn` cases); the negative part ("the password appears nowhere else") is checked on the
  real bytes by the harness (substring search over the raw transport, the negotiation
  request, both NTLM tokens and every frame other than TSCredentials / Client Info).
-/
namespace Rdp.Secrets
open Rdp Rdp.Emit Rdp.Nla

/-- Before TLS nothing depends on the credentials: the request is a function of the two
    mode bits alone (there is no credential argument to vary). -/
theorem c17_pretls_independent (m m' : Mode) (h1 : m.nla = m'.nla) (h2 : m.restricted = m'.restricted) :
    negotiationRequest m = negotiationRequest m' := by
  simp [negotiationRequest, h1, h2]

/-- the request announces restricted admin exactly when the mode is on (flag byte at offset 12) -/
theorem c17_request_flag (m : Mode) :
    (negotiationRequest m).getD 12 0 = (if m.restricted then 1 else 0) := by
  cases hr : m.restricted <;> cases hn : m.nla <;>
    simp [negotiationRequest, hr, hn, connectionRequestFrame, tpktHeader, le16, le32, encInt, leBytes]

/-- Restricted admin: TSCredentials and Client Info carry empty domain, user and password. -/
theorem c17_restricted (m : Mode) (e : CsspEnv) (ext : Bool) (d u p : List Char) (uc : Bool)
    (hm : m.restricted = true) (he : e.restricted = credsspRestricted m) :
    credentialBytes e uc = tsCredentials [] [] [] ∧ infoPdu m ext d u p = clientInfo ext m.autoLogon [] [] [] := by
  constructor
  · simp [credentialBytes, he, credsspRestricted, hm]
  · simp [infoPdu, hm]

/-- Blank credentials: only the CredSSP structure is emptied; Client Info carries the
    strings given. -/
theorem c17_blank (m : Mode) (e : CsspEnv) (ext : Bool) (d u p : List Char) (uc : Bool)
    (hb : m.blank = true) (hr : m.restricted = false) (he : e.restricted = credsspRestricted m) :
    credentialBytes e uc = tsCredentials [] [] [] ∧ infoPdu m ext d u p = clientInfo ext m.autoLogon d u p := by
  constructor
  · simp [credentialBytes, he, credsspRestricted, hb]
  · simp [infoPdu, hr]

/-- Neither: both carry the credentials (in the encoding the challenge selected). -/
theorem c17_plain (m : Mode) (e : CsspEnv) (ext : Bool) (d u p : List Char) (uc : Bool)
    (hb : m.blank = false) (hr : m.restricted = false) (he : e.restricted = credsspRestricted m) :
    credentialBytes e uc = (if uc then tsCredentials e.dom16 e.usr16 e.pwd16 else tsCredentials e.dom8 e.usr8 e.pwd8) ∧
    infoPdu m ext d u p = clientInfo ext m.autoLogon d u p := by
  constructor
  · simp [credentialBytes, he, credsspRestricted, hb, hr]
  · simp [infoPdu, hr]

/-- the auto-logon flag (0x08) of the info packet is set exactly when requested -/
theorem c17_autologon (a : Bool) : (infoFlags a / 8 % 2 = 1) ↔ a = true := by
  cases a <;> simp [infoFlags]

/-- the flags field sits at offset 8 of the security-header-prefixed info packet -/
theorem c17_flags_field (ext a : Bool) (d u p : List Char) :
    ((clientInfo ext a d u p).drop 8).take 4 = le32 (infoFlags a) := by
  simp [clientInfo, le16, le32, encInt, leBytes]

/-- NTLM tokens are computed from the NTOWFv2 key, the names and the random values: the
    model of `read_challenge_message` has no password input, and two passwords with the
    same key give the same token. -/
theorem c17_ntlm_factor (i : NtlmIn) (pw pw' ud chal : Bytes)
    (h : ntowfv2 pw ud = ntowfv2 pw' ud) :
    readChallenge { i with key := ntowfv2 pw ud } chal = readChallenge { i with key := ntowfv2 pw' ud } chal := by
  rw [h]

end Rdp.Secrets
