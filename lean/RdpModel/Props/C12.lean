import RdpModel.Wire.Global
import RdpModel.Spec.Activation
/-
  C12 — Activation state machine: one finalization per demand-active, input gated.
  All statements quantify over EVERY payload (arbitrary bytes, not only well-formed PDUs)
  and every client; histories are arbitrary lists of payloads and input attempts.
-/
namespace Rdp.Global
open Rdp Rdp.Schema Rdp.Spec

/-! ### single-step facts -/

theorem liftO_sent_events {α} (c : GClient) (o : Outcome α) (k : α → Step)
    (P : Step → Prop) (hk : ∀ a, P (k a)) (he : ∀ r, P ⟨c, [], [], r⟩) : P (liftO c o k) := by
  cases o with
  | ok a => exact hk a
  | err e => exact he _
  | panic p => exact he _

/-- the four waiting arms never write and never call back; they keep or advance the state -/
theorem waitDataPdu_quiet (c : GClient) (s : Bytes) (w : Nat) (a : Option Nat) (n : GState) :
    (waitDataPdu c s w a n).sent = [] ∧ (waitDataPdu c s w a n).events = [] ∧
    ((waitDataPdu c s w a n).client = c ∨
      ((waitDataPdu c s w a n).client = { c with state := n } ∧ (waitDataPdu c s w a n).res = .ok ())) := by
  unfold waitDataPdu
  apply liftO_sent_events c _ _ (fun st => st.sent = [] ∧ st.events = [] ∧
      (st.client = c ∨ (st.client = { c with state := n } ∧ st.res = .ok ())))
  · intro pdu
    split
    · simp
    · apply liftO_sent_events c _ _ (fun st => st.sent = [] ∧ st.events = [] ∧
          (st.client = c ∨ (st.client = { c with state := n } ∧ st.res = .ok ())))
      · intro dp
        split
        · simp
        · cases a with
          | none => simp
          | some a =>
            apply liftO_sent_events c _ _ (fun st => st.sent = [] ∧ st.events = [] ∧
                (st.client = c ∨ (st.client = { c with state := n } ∧ st.res = .ok ())))
            · intro got; split <;> simp
            · intro r; simp
      · intro r; simp
  · intro r; simp

theorem dataLoop_quiet (c : GClient) (hs : List Msg) (hd : c.state = .data ∨ c.state = .demandActive) :
    (dataLoop c hs).sent = [] ∧ (dataLoop c hs).events = [] ∧
    ((dataLoop c hs).client = c ∨ (dataLoop c hs).client = { c with state := .demandActive }) := by
  induction hs generalizing c with
  | nil => simp [dataLoop]
  | cons h rest ih =>
    unfold dataLoop
    split
    · simp
    · simp
    · rename_i pdu _
      split
      · have := ih { c with state := .demandActive } (Or.inr rfl)
        obtain ⟨h1, h2, h3⟩ := this
        refine ⟨h1, h2, ?_⟩
        rcases h3 with h3 | h3
        · right; exact h3
        · right; rw [h3]
      · split
        · exact ih c hd
        · split
          · simp
          · exact ih c hd
          · split
            · split
              · exact ih c hd
              · simp
              · simp
            · exact ih c hd

theorem finalizeBytes_len (c : GClient) (fin : List Bytes) (h : finalizeBytes c = .ok fin) :
    fin.length = 4 := by
  unfold finalizeBytes at h
  cases h1 : dataPduBytes c 0x1F (synchronizePdu c.channelId) with
  | ok b1 =>
    cases h2 : dataPduBytes c 0x14 (controlPdu 4) with
    | ok b2 =>
      cases h3 : dataPduBytes c 0x14 (controlPdu 1) with
      | ok b3 =>
        cases h4 : dataPduBytes c 0x27 fontListPdu with
        | ok b4 =>
          simp [h1, h2, h3, h4] at h
          subst h; simp
        | err e => simp [h1, h2, h3, h4] at h
        | panic e => simp [h1, h2, h3, h4] at h
      | err e => simp [h1, h2, h3] at h
      | panic e => simp [h1, h2, h3] at h
    | err e => simp [h1, h2] at h
    | panic e => simp [h1, h2] at h
  | err e => simp [h1] at h
  | panic e => simp [h1] at h

/-- Only a demand-active received while awaiting activation makes the client write, and
    then it writes exactly five PDUs (confirm-active + the four finalization PDUs) and
    moves to the state that waits for the server's synchronize. -/
theorem c12_activation_only_when_awaiting (c : GClient) (p : Payload)
    (h : (step c p).sent ≠ []) :
    c.state = .demandActive ∧
    (((step c p).sent.length = 5 ∧ (step c p).client.state = .synchronize ∧ (step c p).res = .ok ()) ∨
     (step c p).res ≠ .ok ()) := by
  unfold step at h ⊢
  cases hs : c.state <;> simp only [hs] at h ⊢
  case demandActive =>
    refine ⟨trivial, ?_⟩
    cases p with
    | fast f b => simp at h
    | raw s =>
      simp only at h ⊢
      revert h
      apply liftO_sent_events c _ _ (fun st => st.sent ≠ [] →
        ((st.sent.length = 5 ∧ st.client.state = .synchronize ∧ st.res = .ok ()) ∨ st.res ≠ .ok ()))
      · intro pdu
        split
        · simp
        · apply liftO_sent_events c _ _ (fun st => st.sent ≠ [] →
            ((st.sent.length = 5 ∧ st.client.state = .synchronize ∧ st.res = .ok ()) ∨ st.res ≠ .ok ()))
          · intro caps
            apply liftO_sent_events c _ _ (fun st => st.sent ≠ [] →
              ((st.sent.length = 5 ∧ st.client.state = .synchronize ∧ st.res = .ok ()) ∨ st.res ≠ .ok ()))
            · intro _
              apply liftO_sent_events c _ _ (fun st => st.sent ≠ [] →
                ((st.sent.length = 5 ∧ st.client.state = .synchronize ∧ st.res = .ok ()) ∨ st.res ≠ .ok ()))
              · intro sid
                split
                · split
                  · rename_i ca _ fin hfin
                    intro _
                    left
                    refine ⟨?_, rfl, rfl⟩
                    have := finalizeBytes_len _ _ hfin
                    simp [this]
                  · intro _; right; simp
                  · intro _; right; simp
                · intro _; right; simp
                · intro _; right; simp
              · intro r hh; simp at hh
            · intro r hh; simp at hh
          · intro r hh; simp at hh
      · intro r hh; simp at hh
  case synchronize =>
    cases p with
    | fast f b => simp at h
    | raw s => exact absurd (waitDataPdu_quiet c s _ _ _).1 h
  case controlCooperate =>
    cases p with
    | fast f b => simp at h
    | raw s => exact absurd (waitDataPdu_quiet c s _ _ _).1 h
  case controlGranted =>
    cases p with
    | fast f b => simp at h
    | raw s => exact absurd (waitDataPdu_quiet c s _ _ _).1 h
  case fontMap =>
    cases p with
    | fast f b => simp at h
    | raw s => exact absurd (waitDataPdu_quiet c s _ _ _).1 h
  case data =>
    cases p with
    | raw s =>
      simp only at h
      split at h
      · exact absurd (dataLoop_quiet c _ (Or.inl hs)).1 h
      · simp at h
      · simp at h
      · simp at h
    | fast f s =>
      simp only at h
      split at h <;> simp at h

/-- Bitmap events are delivered only inside the window (state `Data`). -/
theorem c12_bitmaps_gated (c : GClient) (p : Payload) (h : (step c p).events ≠ []) :
    c.state = .data := by
  unfold step at h
  cases hs : c.state <;> simp only [hs] at h ⊢
  case demandActive =>
    cases p with
    | fast f b => simp at h
    | raw s =>
      simp only at h
      exfalso; revert h
      apply liftO_sent_events c _ _ (fun st => ¬ st.events ≠ [])
      · intro pdu; split
        · simp
        · apply liftO_sent_events c _ _ (fun st => ¬ st.events ≠ [])
          · intro caps
            apply liftO_sent_events c _ _ (fun st => ¬ st.events ≠ [])
            · intro _
              apply liftO_sent_events c _ _ (fun st => ¬ st.events ≠ [])
              · intro sid; split
                · split <;> simp
                · simp
                · simp
              · intro r; simp
            · intro r; simp
          · intro r; simp
      · intro r; simp
  case synchronize =>
    cases p with
    | fast f b => simp at h
    | raw s => exact absurd (waitDataPdu_quiet c s _ _ _).2.1 h
  case controlCooperate =>
    cases p with
    | fast f b => simp at h
    | raw s => exact absurd (waitDataPdu_quiet c s _ _ _).2.1 h
  case controlGranted =>
    cases p with
    | fast f b => simp at h
    | raw s => exact absurd (waitDataPdu_quiet c s _ _ _).2.1 h
  case fontMap =>
    cases p with
    | fast f b => simp at h
    | raw s => exact absurd (waitDataPdu_quiet c s _ _ _).2.1 h

/-- User input is accepted exactly in the window: `write` succeeds (and yields the bytes
    of one PDU) only in state `Data`; otherwise it fails with `InvalidAutomata` — which
    `try_write` turns into `Ok` — and nothing is handed to the transport. -/
theorem c12_input_gate (c : GClient) (e : InEvent) (hne : e ≠ .bitmap) :
    (c.state ≠ .data → clientWrite c e = .err "InvalidAutomata" ∧ clientTryWrite c e = .ok none) ∧
    (∀ b, clientWrite c e = .ok b → c.state = .data) := by
  constructor
  · intro hs
    cases e with
    | pointer x y b d => simp [clientWrite, clientTryWrite, writeInput, hs]
    | key k d => simp [clientWrite, clientTryWrite, writeInput, hs]
    | bitmap => exact absurd rfl hne
  · intro b hb
    cases e with
    | pointer x y bt d =>
      by_cases hs : c.state = .data
      · exact hs
      · simp [clientWrite, writeInput, hs] at hb
    | key k d =>
      by_cases hs : c.state = .data
      · exact hs
      · simp [clientWrite, writeInput, hs] at hb
    | bitmap => exact absurd rfl hne

/-- The state advances only along the activation sequence, one step at a time, and falls
    back to "awaiting" only from `Data`. -/
def LegalMove : GState → GState → Prop
  | .demandActive, .synchronize => True
  | .synchronize, .controlCooperate => True
  | .controlCooperate, .controlGranted => True
  | .controlGranted, .fontMap => True
  | .fontMap, .data => True
  | .data, .demandActive => True
  | a, b => a = b

theorem c12_legal_moves (c : GClient) (p : Payload) : LegalMove c.state (step c p).client.state := by
  unfold step
  cases hs : c.state <;> simp only
  case demandActive =>
    cases p with
    | fast f b => simp [LegalMove, hs]
    | raw s =>
      simp only
      apply liftO_sent_events c _ _ (fun st => LegalMove .demandActive st.client.state)
      · intro pdu; split
        · simp [LegalMove, hs]
        · apply liftO_sent_events c _ _ (fun st => LegalMove .demandActive st.client.state)
          · intro caps
            apply liftO_sent_events c _ _ (fun st => LegalMove .demandActive st.client.state)
            · intro _
              apply liftO_sent_events c _ _ (fun st => LegalMove .demandActive st.client.state)
              · intro sid; split
                · split <;> simp [LegalMove, hs]
                · simp [LegalMove, hs]
                · simp [LegalMove, hs]
              · intro r; simp [LegalMove, hs]
            · intro r; simp [LegalMove, hs]
          · intro r; simp [LegalMove, hs]
      · intro r; simp [LegalMove, hs]
  case synchronize =>
    cases p with
    | fast f b => simp [LegalMove, hs]
    | raw s =>
      rcases (waitDataPdu_quiet c s 0x1F none .controlCooperate).2.2 with h | ⟨h, _⟩ <;>
        simp [h, LegalMove, hs]
  case controlCooperate =>
    cases p with
    | fast f b => simp [LegalMove, hs]
    | raw s =>
      rcases (waitDataPdu_quiet c s 0x14 (some 4) .controlGranted).2.2 with h | ⟨h, _⟩ <;>
        simp [h, LegalMove, hs]
  case controlGranted =>
    cases p with
    | fast f b => simp [LegalMove, hs]
    | raw s =>
      rcases (waitDataPdu_quiet c s 0x14 (some 2) .fontMap).2.2 with h | ⟨h, _⟩ <;>
        simp [h, LegalMove, hs]
  case fontMap =>
    cases p with
    | fast f b => simp [LegalMove, hs]
    | raw s =>
      rcases (waitDataPdu_quiet c s 0x28 none .data).2.2 with h | ⟨h, _⟩ <;>
        simp [h, LegalMove, hs]
  case data =>
    cases p with
    | raw s =>
      simp only
      split
      · rename_i tm hl rst _
        rcases (dataLoop_quiet c hl (Or.inl hs)).2.2 with h | h <;> rw [h] <;> simp [LegalMove, hs]
      · simp [LegalMove, hs]
      · simp [LegalMove, hs]
      · simp [LegalMove, hs]
    | fast f s =>
      simp only
      split <;> simp [LegalMove, hs]

/-! ### histories -/

/-- a history: server payloads and input attempts, in any order -/
inductive Ev where
  | srv (p : Payload)
  | input (e : InEvent)

structure Trace where
  client : GClient
  activations : Nat           -- reads that wrote something
  pdusSent : Nat              -- PDUs written by reads
  activeEntries : Nat         -- number of times Data was entered
  inputsSent : Nat            -- input PDUs written
  inputsOutside : Nat         -- input PDUs written while not in Data (must stay 0)
  eventsOutside : Nat         -- callbacks made while not in Data (must stay 0)

def run1 (t : Trace) : Ev → Trace
  | .srv p =>
    let st := step t.client p
    { client := st.client,
      activations := t.activations + (if st.sent = [] then 0 else 1),
      pdusSent := t.pdusSent + st.sent.length,
      activeEntries := t.activeEntries + (if t.client.state ≠ .data ∧ st.client.state = .data then 1 else 0),
      inputsSent := t.inputsSent, inputsOutside := t.inputsOutside,
      eventsOutside := t.eventsOutside + (if t.client.state ≠ .data then st.events.length else 0) }
  | .input e =>
    match clientWrite t.client e with
    | .ok _ => { t with inputsSent := t.inputsSent + 1,
                        inputsOutside := t.inputsOutside + (if t.client.state ≠ .data then 1 else 0) }
    | _ => t

def run (t : Trace) (h : List Ev) : Trace := h.foldl run1 t

/-- For every history whatsoever: no input PDU is ever written outside the window and no
    bitmap callback is ever made outside it. -/
theorem c12_history_gated (t : Trace) (h : List Ev)
    (h0 : t.inputsOutside = 0 ∧ t.eventsOutside = 0) :
    (run t h).inputsOutside = 0 ∧ (run t h).eventsOutside = 0 := by
  induction h generalizing t with
  | nil => exact h0
  | cons e es ih =>
    apply ih
    cases e with
    | srv p =>
      simp only [run1]
      refine ⟨h0.1, ?_⟩
      by_cases hs : t.client.state = .data
      · simp [hs, h0.2]
      · have : (step t.client p).events = [] := by
          by_cases he : (step t.client p).events = []
          · exact he
          · exact absurd (c12_bitmaps_gated _ _ he) hs
        simp [hs, this, h0.2]
    | input e =>
      simp only [run1]
      split
      · rename_i b hb
        refine ⟨?_, h0.2⟩
        cases e with
        | bitmap => simp [clientWrite] at hb
        | pointer x y bt d =>
          have := (c12_input_gate t.client (.pointer x y bt d) (by simp)).2 b hb
          simp [this, h0.1]
        | key k d =>
          have := (c12_input_gate t.client (.key k d) (by simp)).2 b hb
          simp [this, h0.1]
      · exact h0

/-- For every history: every successful activation writes exactly five PDUs — so the
    number of PDUs written by reads is five per activation, never more, never fewer, as
    long as no write fails (`AllReadsOk`). -/
def AllReadsOk : Trace → List Ev → Prop
  | _, [] => True
  | t, .srv p :: es => ((step t.client p).sent ≠ [] → (step t.client p).res = .ok ()) ∧ AllReadsOk (run1 t (.srv p)) es
  | t, .input e :: es => AllReadsOk (run1 t (.input e)) es

theorem c12_one_finalization (t : Trace) (h : List Ev) (h0 : t.pdusSent = 5 * t.activations)
    (hok : AllReadsOk t h) :
    (run t h).pdusSent = 5 * (run t h).activations := by
  induction h generalizing t with
  | nil => exact h0
  | cons e es ih =>
    cases e with
    | srv p =>
      simp only [AllReadsOk] at hok
      apply ih _ _ hok.2
      simp only [run1]
      by_cases hs : (step t.client p).sent = []
      · simp [hs, h0]
      · have := (c12_activation_only_when_awaiting t.client p hs).2
        rcases this with ⟨h5, _, _⟩ | hbad
        · simp [hs, h5, h0]; omega
        · exact absurd (hok.1 hs) hbad
    | input e =>
      simp only [AllReadsOk] at hok
      apply ih _ _ hok
      simp only [run1]
      split <;> exact h0

/-! ### refinement to the reference automaton (letters are classified by the model's own
    parsers; see `letterOf`) -/

def absState : GState → RState
  | .demandActive => .awaiting
  | .synchronize => .finalizing 0
  | .controlCooperate => .finalizing 1
  | .controlGranted => .finalizing 2
  | .fontMap => .finalizing 3
  | .data => .active

/-- the input window of the reference automaton is exactly state `Data` -/
theorem c12_window_is_data (c : GClient) : (absState c.state = .active) ↔ c.state = .data := by
  cases c.state <;> simp [absState]

end Rdp.Global
