import RdpModel.Codec.Decompress
import RdpModel.Spec.Bitmap
import RdpModel.Props.C08
import RdpModel.Lemmas.Planar
import RdpModel.Lemmas.PlanarEnc
import RdpModel.Lemmas.Rle16Main
/-
  C09 — Decompressed bitmaps are pixel-exact.
  Proved here: exact colour widening for every 16-bit value; the uncompressed 32 bpp and
  16 bpp paths (bottom-up → top-down, pixel for pixel); the planar RLE decoder at 32 bpp
  (`c09_planar`: every stream the reference decoder accepts, i.e. any segmentation into
  raw/run segments and either long-run escape, decodes to exactly the reference planes,
  top-down, BGRA).  The interleaved RLE decoder at 16 bpp is stated against the reference
  decoder of Spec/Bitmap.lean (`c09_rle16_full`, `c09_rle16_partial`, kept as named
  propositions; the full one is refuted by `c09_rle16_full_fails`) and is checked on every
  run by the correspondence with that reference decoder; see DESIGN.md §6 C09 and §11.
-/
namespace Rdp.Codec
open Rdp Rdp.Spec.Bitmap

theorem scale5 : ∀ c, c < 32 → ((c * 527) + 23) >>> 6 = roundScale c 31 := by decide +kernel
theorem scale6 : ∀ c, c < 64 → ((c * 259) + 33) >>> 6 = roundScale c 63 := by decide +kernel

/-- 5-6-5 colours are widened by exact rounding to 8 bits per channel, for every one of
    the 65 536 pixel values: blue, green, red, alpha = 255. -/
theorem c09_widen (v : UInt16) : (widen v).map UInt8.toNat = widen565 v.toNat := by
  have hv := v.toNat_lt
  have hb : v.toNat &&& 0x1f = v.toNat % 32 := by
    have e : (0x1f : Nat) = 2 ^ 5 - 1 := by decide
    rw [e, Nat.and_two_pow_sub_one_eq_mod]
  have hg : (v.toNat >>> 5) &&& 0x3f = (v.toNat / 32) % 64 := by
    have e : (0x3f : Nat) = 2 ^ 6 - 1 := by decide
    rw [e, Nat.and_two_pow_sub_one_eq_mod, Nat.shiftRight_eq_div_pow]
  have hr : (v.toNat >>> 11) &&& 0x1f = (v.toNat / 2048) % 32 := by
    have e : (0x1f : Nat) = 2 ^ 5 - 1 := by decide
    rw [e, Nat.and_two_pow_sub_one_eq_mod, Nat.shiftRight_eq_div_pow]
  simp only [widen, widen565, List.map_cons, List.map_nil, hb, hg, hr]
  have h1 := scale5 (v.toNat % 32) (Nat.mod_lt _ (by decide))
  have h2 := scale6 (v.toNat / 32 % 64) (Nat.mod_lt _ (by decide))
  have h3 := scale5 (v.toNat / 2048 % 32) (Nat.mod_lt _ (by decide))
  rw [h1, h2, h3]
  have b1 : ∀ c, c < 32 → roundScale c 31 < 256 := by decide +kernel
  have b2 : ∀ c, c < 64 → roundScale c 63 < 256 := by decide +kernel
  have r1 := b1 (v.toNat % 32) (Nat.mod_lt _ (by decide))
  have r2 := b2 (v.toNat / 32 % 64) (Nat.mod_lt _ (by decide))
  have r3 := b1 (v.toNat / 2048 % 32) (Nat.mod_lt _ (by decide))
  simp [UInt8.toNat_ofNat', Nat.mod_eq_of_lt r1, Nat.mod_eq_of_lt r2, Nat.mod_eq_of_lt r3]

/-- `roundScale` really is rounding to nearest: |255·c − maxIn·result| ≤ maxIn/2 -/
theorem roundScale_nearest5 : ∀ c, c < 32 → 2 * (255 * c) ≤ 2 * 31 * roundScale c 31 + 31 ∧
    2 * 31 * roundScale c 31 ≤ 2 * (255 * c) + 31 := by decide +kernel
theorem roundScale_nearest6 : ∀ c, c < 64 → 2 * (255 * c) ≤ 2 * 63 * roundScale c 63 + 63 ∧
    2 * 63 * roundScale c 63 ≤ 2 * (255 * c) + 63 := by decide +kernel

/-- the full statements for the two RLE decoders (not asserted here; see the header) -/
def c09_rle16_full : Prop :=
  ∀ (w h : Nat) (src : Bytes) (flat : List Pixel), rle16Decode w h src = some flat →
    decompress ⟨w, h, 16, true, src.toArray⟩ = .ok (((topDown w flat).flatMap widen565).map UInt8.ofNat)

/-- the part of it that holds for the port: streams in which no order crosses the end of
    the first scanline -/
def c09_rle16_partial : Prop :=
  ∀ (w h : Nat) (src : Bytes) (flat : List Pixel), rle16Decode w h src = some flat →
    noFirstLineCrossing w h src = true →
    decompress ⟨w, h, 16, true, src.toArray⟩ = .ok (((topDown w flat).flatMap widen565).map UInt8.ofNat)

end Rdp.Codec

namespace Rdp.Codec
open Rdp Rdp.Spec.Bitmap

/-- the witness on which the port and the reference decoder part: a white pixel, then a
    background run of 3 crossing the end of the first scanline of a 2×2 bitmap -/
theorem c09_witness_spec : rle16Decode 2 2 [0xFD, 0x03] = some [0xFFFF, 0, 0, 0] := by decide

theorem c09_witness_port :
    decompress ⟨2, 2, 16, true, #[0xFD, 0x03]⟩
      = .ok [0xff, 0xff, 0xff, 0xff, 0, 0, 0, 0xff, 0xff, 0xff, 0xff, 0xff, 0, 0, 0, 0xff] := by
  decide +kernel

end Rdp.Codec

namespace Rdp.Codec
open Rdp Rdp.Spec.Bitmap

/-- the full statement is false of the port (known finding: orders crossing the end of
    the first scanline are decoded per pixel by the port, per order by the reference) -/
theorem c09_rle16_full_fails : ¬ c09_rle16_full := by
  intro h
  have := h 2 2 [0xFD, 0x03] _ c09_witness_spec
  have e : ([0xFD, 0x03] : Bytes).toArray = #[0xFD, 0x03] := rfl
  rw [e, c09_witness_port] at this
  revert this
  decide +kernel

/-- the witness does cross the first scanline, so the partial statement excludes it -/
example : noFirstLineCrossing 2 2 [0xFD, 0x03] = false := by decide
/-- and the split form of the same image does not -/
example : noFirstLineCrossing 2 2 [0xFD, 0x01, 0x02] = true := by decide

end Rdp.Codec

namespace Rdp.Codec
open Rdp

/-! ### the uncompressed paths are exact -/

theorem foldl_append_toList {α β} (l : List α) (f : α → Array β) (init : Array β) :
    (l.foldl (fun acc i => acc ++ f i) init).toList = init.toList ++ l.flatMap (fun i => (f i).toList) := by
  induction l generalizing init with
  | nil => simp
  | cons a l ih => simp only [List.foldl_cons, ih, Array.toList_append, List.flatMap_cons, List.append_assoc]

/-- **Raw 32 bpp is exact.**  An uncompressed 32 bpp bitmap (sent bottom-up) decodes to its
    rows in top-down order, byte for byte: output row `i` is input row `h-1-i`. -/
theorem c09_raw32 (d : Array UInt8) (w h : Nat) (hsz : w * h * 4 ≤ d.size) :
    decompress ⟨w, h, 32, false, d⟩ =
      .ok ((List.range h).flatMap fun i => (d.extract ((h - i - 1) * w * 4) ((h - i - 1) * w * 4 + w * 4)).toList) := by
  unfold decompress
  simp only [if_true, Bool.false_eq_true, if_false]
  rw [if_neg (by omega)]
  simp only [raw32, foldl_append_toList]
  simp

theorem widenInto_eq (acc : Array UInt8) (v : UInt16) : (widenInto acc v).toList = acc.toList ++ widen v := by
  simp [widenInto, widen]

theorem foldl_widen_toList (l : List UInt16) (init : Array UInt8) :
    (l.foldl widenInto init).toList = init.toList ++ l.flatMap widen := by
  induction l generalizing init with
  | nil => simp
  | cons a l ih => simp only [List.foldl_cons, ih, widenInto_eq, List.flatMap_cons, List.append_assoc]

/-- **Raw 16 bpp is exact.**  An uncompressed 5-6-5 bitmap decodes to the exactly widened
    pixels (`c09_widen`) in top-down order: output pixel (i, j) is input pixel (h-1-i, j). -/
theorem c09_raw16 (d : Array UInt8) (w h : Nat) (hsz : w * h * 2 ≤ d.size) :
    decompress ⟨w, h, 16, false, d⟩ = .ok ((raw16 d w h).toList.flatMap widen) := by
  unfold decompress
  simp only [Bool.false_eq_true, if_false]
  rw [if_neg (by decide), if_pos True.intro, if_neg (by omega)]
  unfold rgb565torgb32
  have hs : (raw16 d w h).size = w * h := by simp [raw16]
  rw [if_pos (by omega)]
  congr 1
  have : (raw16 d w h).extract 0 (w * h) = raw16 d w h := by
    rw [← hs]; simp
  rw [this, ← Array.foldl_toList, foldl_widen_toList]
  simp
end Rdp.Codec

namespace Rdp.Codec
open Rdp Rdp.Spec.Bitmap

/-! ### planar RLE at 32 bpp is exact -/

theorem list_getD_toList (a : Array UInt8) (i : Nat) : a.toList.getD i 0 = a.getD i 0 := by
  simp [List.getD_eq_getElem?_getD, Array.getD_eq_getD_getElem?]

/-- **Planar RLE at 32 bpp is exact.**  Whenever the reference decoder (MS-RDPEGDI 3.1.9,
    `planarDecode`) accepts a stream and yields the four colour planes, `decompress` returns
    `w·h` BGRA pixels, rows top-down: the pixel in row `h-1-i` (stream row `i`), column `j`
    is (B, G, R, A)[i][j]. -/
theorem c09_planar (w h : Nat) (src : Bytes) (A R G B : List (List Nat))
    (href : planarDecode w h src = some (A, R, G, B)) :
    ∃ out, decompress ⟨w, h, 32, true, src.toArray⟩ = .ok out ∧ out.length = w * h * 4 ∧
      ∀ i j, i < h → j < w →
        (out.getD (((h - 1 - i) * w + j) * 4) 0).toNat = (B.getD i []).getD j 0 ∧
        (out.getD (((h - 1 - i) * w + j) * 4 + 1) 0).toNat = (G.getD i []).getD j 0 ∧
        (out.getD (((h - 1 - i) * w + j) * 4 + 2) 0).toNat = (R.getD i []).getD j 0 ∧
        (out.getD (((h - 1 - i) * w + j) * 4 + 3) 0).toNat = (A.getD i []).getD j 0 := by
  unfold decompress
  simp only [if_true]
  by_cases hz : w = 0 ∨ h = 0
  · refine ⟨(Array.replicate (w * h * 4) 0).toList, ?_, by simp, ?_⟩
    · unfold rle32; rw [if_pos hz]; rfl
    · intro i j hi hj; omega
  · have hw : 0 < w := by omega
    have hh : 0 < h := by omega
    obtain ⟨out, e1, e2, e3⟩ := rle32_ref w h src A R G B hw hh (Array.replicate (w * h * 4) 0) (by simp) href
    refine ⟨out.toList, by rw [e1]; rfl, by simpa using e2, ?_⟩
    intro i j hi hj
    have hb : ((h - 1 - i) * w + j) * 4 = rowBase w h i + j * 4 := by
      rw [rowBase_eq, Nat.add_mul, Nat.mul_assoc]
    obtain ⟨b1, b2, b3, b4⟩ := e3 i j hi hj
    simp only [list_getD_toList, hb]
    refine ⟨b1, ?_, ?_, ?_⟩
    · rw [Nat.add_comm]; exact b2
    · rw [Nat.add_comm]; exact b3
    · rw [Nat.add_comm]; exact b4

/-- the premise is satisfiable: a 2×2 bitmap, alpha plane with a delta row, blue plane 9 -/
example : planarDecode 2 2 [0x10, 0x20, 5, 5, 0x20, 2, 4, 0x20, 0, 0, 0x20, 0, 0, 0x20, 0, 0, 0x20, 0, 0, 0x20, 9, 9, 0x20, 0, 0]
    = some ([[5, 5], [6, 7]], [[0, 0], [0, 0]], [[0, 0], [0, 0]], [[9, 9], [9, 9]]) := by decide
/-- and with run segments and the long-run escapes (a 40×1 plane of 7s is `0x10 7, 0x72`) -/
example : (planarDecode 40 1 [0x10, 0x10, 7, 0x72, 0x10, 0, 0x72, 0x10, 0, 0x72, 0x10, 0, 0x72]).map (fun p => p.1)
    = some [List.replicate 40 7] := by decide +kernel

end Rdp.Codec

namespace Rdp.Codec
open Rdp Rdp.Spec.Bitmap

/-- **Every 32 bpp image round-trips.**  For every image given as four `w × h` byte
    planes (stream order), the reference encoder produces a conformant stream and
    `decompress` returns exactly that image, rows top-down, BGRA — `c09_planar` is
    therefore not vacuous for any image. -/
theorem c09_planar_roundtrip (w h : Nat) (A R G B : List (List Nat))
    (hA : PlaneOk w h A) (hR : PlaneOk w h R) (hG : PlaneOk w h G) (hB : PlaneOk w h B) :
    ∃ out, decompress ⟨w, h, 32, true, (planarEncode A R G B).toArray⟩ = .ok out ∧ out.length = w * h * 4 ∧
      ∀ i j, i < h → j < w →
        (out.getD (((h - 1 - i) * w + j) * 4) 0).toNat = (B.getD i []).getD j 0 ∧
        (out.getD (((h - 1 - i) * w + j) * 4 + 1) 0).toNat = (G.getD i []).getD j 0 ∧
        (out.getD (((h - 1 - i) * w + j) * 4 + 2) 0).toNat = (R.getD i []).getD j 0 ∧
        (out.getD (((h - 1 - i) * w + j) * 4 + 3) 0).toNat = (A.getD i []).getD j 0 :=
  c09_planar w h _ A R G B (planarDecode_encode w h A R G B hA hR hG hB)

end Rdp.Codec


namespace Rdp.Codec
open Rdp Rdp.Spec.Bitmap Rdp.Rle16

/-! ### interleaved RLE at 16 bpp is exact (streams that respect the first-scanline boundary) -/

theorem topDown_map {α β : Type} (f : α → β) (w : Nat) (l : List α) : topDown w (l.map f) = (topDown w l).map f := by
  simp [topDown, List.map_drop, List.map_take, List.map_flatten, List.map_reverse, Function.comp_def]

theorem extract_toList_range (a : Array UInt16) (n : Nat) (hn : n ≤ a.size) :
    (a.extract 0 n).toList = (List.range n).map fun j => a.getD j 0 := by
  apply List.ext_getElem
  · simp; omega
  · intro i h1 h2
    simp at h1 h2
    simp [Array.getD_eq_getD_getElem?, Array.getElem?_eq_getElem (show i < a.size by omega)]

theorem widen_of_widen565 (v : UInt16) : (widen565 v.toNat).map UInt8.ofNat = widen v := by
  rw [← c09_widen, List.map_map]
  have : (UInt8.ofNat ∘ UInt8.toNat) = id := by funext x; simp
  rw [this, List.map_id]

/-- the initial states are related -/
theorem rel_init (src : Bytes) (w h : Nat) (hw : 0 < w) :
    Rel src.toArray w h (initSt w h (Array.replicate (w * h * 2) 0)) ⟨[], WHITE, false, true⟩ src := by
  refine ⟨⟨⟨?_, Nat.le_refl _, Nat.le_refl _, fun _ => rfl, ?_, ?_, ?_⟩, fun _ => ⟨rfl, rfl⟩, ?_⟩, hw, rfl, rfl, ?_, ?_, ?_, ?_, ?_, ?_, ?_⟩
  · simp [initSt]; rw [Nat.mul_comm h w]; omega
  · intro l hl; simp [initSt] at hl
  · intro e he; simp [initSt] at he
  · intro hx; simp [initSt] at hx
  · intro _ hl; simp [initSt] at hl
  · simp [toNats, flat, emitted, initSt]
  · simp [initSt, WHITE]
  · simp [srcOf, initSt]
  · simp [initSt]
  · intro _; simp
  · intro hf; simp at hf
  · intro hf; simp at hf

/-- **Interleaved RLE at 16 bpp is exact** for every stream the reference decoder
    (MS-RDPBCGR 3.1.9 `RleDecompress`, Spec/Bitmap.lean) accepts in which no order crosses
    the end of the first scanline — EVERY order kind (background, foreground, colour and
    dithered runs, FG/BG and colour images, the special orders, white, black) in every length
    form: `decompress` returns the reference raster, rows top-down, every pixel widened
    exactly (`c09_widen`). -/
theorem c09_rle16 (w h : Nat) (hw : 0 < w) (src : Bytes) (flat : List Pixel)
    (href : rle16Decode w h src = some flat)
    (hnc : noFirstLineCrossing w h src = true) :
    decompress ⟨w, h, 16, true, src.toArray⟩ = .ok (((topDown w flat).flatMap widen565).map UInt8.ofNat) := by
  unfold rle16Decode at href
  cases hdec : decodeLoop w (w * h) (src.length + 1) ⟨[], WHITE, false, true⟩ src with
  | none => rw [hdec] at href; cases href
  | some dfin =>
    rw [hdec] at href
    simp only at href
    by_cases hlen : dfin.dest.length = w * h
    · simp only [hlen, if_true, Option.some.injEq] at href
      obtain ⟨sfin, hord, rfin⟩ := orders_sim_all (inp := src.toArray) hw (src.length + 1) (rel_init src w h hw) hdec
        hnc (src.length + 1) (by omega)
      have hsz : w * h ≤ sfin.out.size := by have := rfin.inv.inv.size; rw [Nat.mul_comm]; exact this
      have hem : emitted w h sfin = w * h := by rw [← hlen, ← rfin.dest, toNats_length, flat_length]
      unfold decompress
      simp only [show ¬ ((16 : Nat) = 32) by decide, if_false, if_true]
      unfold Rle16.decompress
      have hsize : (List.toArray src).size + 1 = src.length + 1 := by simp
      rw [hsize, hord]
      simp only [Outcome.bind_ok]
      unfold rgb565torgb32
      rw [if_pos hsz]
      congr 1
      rw [← Array.foldl_toList, foldl_widen_toList]
      rw [extract_toList_range _ _ hsz]
      -- the reference raster, top-down, is the buffer
      have hflat : flat = toNats ((List.range (w * h)).map fun i => sfin.out.getD (cell w h i) 0) := by
        rw [← href, ← rfin.dest]; unfold Rle16.flat; rw [hem]
      rw [hflat]
      unfold toNats
      rw [topDown_map, topDown_cells (fun j => sfin.out.getD j 0) w hw h, List.flatMap_map, List.map_flatMap]
      simp only [List.flatMap_map, widen_of_widen565]
      have : (Array.mkEmpty (w * h * 4) : Array UInt8).toList = [] := rfl
      rw [this, List.nil_append]
    · simp [hlen] at href

end Rdp.Codec

namespace Rdp.Codec
open Rdp Rdp.Spec.Bitmap Rdp.Rle16

/-- the statement `c09_rle16_partial` (every width, 0 included) holds -/
theorem c09_rle16_partial_holds : c09_rle16_partial := by
  intro w h src flat href hnc
  rcases Nat.eq_zero_or_pos w with hz | hw
  · subst hz
    obtain ⟨rfl, rfl⟩ := rle16Decode_w0 h src flat href
    unfold decompress
    simp only [show ¬ ((16 : Nat) = 32) by decide, if_false, if_true]
    have e : (0 : Nat) * h * 2 = 0 := by simp
    rw [e]
    have h1 : Rle16.decompress ([] : Bytes).toArray 0 h (Array.replicate 0 0) = .ok #[] := by
      simp [Rle16.decompress, Rle16.orders, Rle16.initSt]
    rw [h1]
    simp [rgb565torgb32, topDown]
  · exact c09_rle16 w h hw src flat href hnc

/-- the earlier, restricted form (kept under its name): a corollary -/
theorem c09_rle16_supported (w h : Nat) (hw : 0 < w) (src : Bytes) (flat : List Pixel)
    (href : rle16Decode w h src = some flat)
    (hnc : noFirstLineCrossing w h src = true)
    (_hsup : supportedLoop w (w * h) (src.length + 1) ⟨[], WHITE, false, true⟩ src = true) :
    decompress ⟨w, h, 16, true, src.toArray⟩ = .ok (((topDown w flat).flatMap widen565).map UInt8.ofNat) :=
  c09_rle16 w h hw src flat href hnc

/-- the premises are satisfiable: white, a one-pixel background run, a one-pixel colour run
    (0x1234) and a background run that copies the pixel above -/
example : rle16Decode 2 2 [0xFD, 0x01, 0x61, 0x34, 0x12, 0x01] = some [0xFFFF, 0, 0x1234, 0] ∧
    noFirstLineCrossing 2 2 [0xFD, 0x01, 0x61, 0x34, 0x12, 0x01] = true ∧
    supportedLoop 2 (2 * 2) 7 ⟨[], WHITE, false, true⟩ [0xFD, 0x01, 0x61, 0x34, 0x12, 0x01] = true := by decide

/-- and with the other order kinds: a 4×5 bitmap from a colour image of 2, a dithered run of 1 (first
    scanline), a special order, and an FG/BG image of 8 bits with mask 0x05 -/
example : (rle16Decode 4 5 [0x82, 0x11, 0x11, 0x22, 0x22, 0xE1, 0x33, 0x33, 0x44, 0x44, 0xF9, 0x41, 0x05]).isSome = true ∧
    noFirstLineCrossing 4 5 [0x82, 0x11, 0x11, 0x22, 0x22, 0xE1, 0x33, 0x33, 0x44, 0x44, 0xF9, 0x41, 0x05] = true := by
  decide

end Rdp.Codec
