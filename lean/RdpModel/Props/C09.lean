import RdpModel.Codec.Decompress
import RdpModel.Spec.Bitmap
import RdpModel.Props.C08
/-
  C09 — Decompressed bitmaps are pixel-exact.
  Proved here: exact colour widening for every 16-bit value; the uncompressed 32 bpp and
  16 bpp paths (bottom-up → top-down, pixel for pixel).  The two RLE decoders are stated
  against the reference decoders of Spec/Bitmap.lean (`c09_rle16_full`, `c09_planar_full`
  are the full statements, kept as named propositions) and are checked on every run by
  the correspondence with those reference decoders; see DESIGN.md §6 C09.
-/
namespace Rdp.Codec
open Rdp Rdp.Spec.Bitmap

theorem scale5 : ∀ c, c < 32 → ((c * 527) + 23) >>> 6 = roundScale c 31 := by decide +kernel
theorem scale6 : ∀ c, c < 64 → ((c * 259) + 33) >>> 6 = roundScale c 63 := by decide +kernel

/-- 5-6-5 colours are widened by exact rounding to 8 bits per channel, for every one of
    the 65 536 pixel values: blue, green, red, alpha = 255. -/
theorem c09_widen (v : UInt16) : (widen v).map UInt8.toNat = widen565 v.toNat := by
  have hv := v.toNat_lt
  have hb : v.toNat &&& 0x1f = v.toNat % 32 := by
    have e : (0x1f : Nat) = 2 ^ 5 - 1 := by decide
    rw [e, Nat.and_two_pow_sub_one_eq_mod]
  have hg : (v.toNat >>> 5) &&& 0x3f = (v.toNat / 32) % 64 := by
    have e : (0x3f : Nat) = 2 ^ 6 - 1 := by decide
    rw [e, Nat.and_two_pow_sub_one_eq_mod, Nat.shiftRight_eq_div_pow]
  have hr : (v.toNat >>> 11) &&& 0x1f = (v.toNat / 2048) % 32 := by
    have e : (0x1f : Nat) = 2 ^ 5 - 1 := by decide
    rw [e, Nat.and_two_pow_sub_one_eq_mod, Nat.shiftRight_eq_div_pow]
  simp only [widen, widen565, List.map_cons, List.map_nil, hb, hg, hr]
  have h1 := scale5 (v.toNat % 32) (Nat.mod_lt _ (by decide))
  have h2 := scale6 (v.toNat / 32 % 64) (Nat.mod_lt _ (by decide))
  have h3 := scale5 (v.toNat / 2048 % 32) (Nat.mod_lt _ (by decide))
  rw [h1, h2, h3]
  have b1 : ∀ c, c < 32 → roundScale c 31 < 256 := by decide +kernel
  have b2 : ∀ c, c < 64 → roundScale c 63 < 256 := by decide +kernel
  have r1 := b1 (v.toNat % 32) (Nat.mod_lt _ (by decide))
  have r2 := b2 (v.toNat / 32 % 64) (Nat.mod_lt _ (by decide))
  have r3 := b1 (v.toNat / 2048 % 32) (Nat.mod_lt _ (by decide))
  simp [UInt8.toNat_ofNat', Nat.mod_eq_of_lt r1, Nat.mod_eq_of_lt r2, Nat.mod_eq_of_lt r3]

/-- `roundScale` really is rounding to nearest: |255·c − maxIn·result| ≤ maxIn/2 -/
theorem roundScale_nearest5 : ∀ c, c < 32 → 2 * (255 * c) ≤ 2 * 31 * roundScale c 31 + 31 ∧
    2 * 31 * roundScale c 31 ≤ 2 * (255 * c) + 31 := by decide +kernel
theorem roundScale_nearest6 : ∀ c, c < 64 → 2 * (255 * c) ≤ 2 * 63 * roundScale c 63 + 63 ∧
    2 * 63 * roundScale c 63 ≤ 2 * (255 * c) + 63 := by decide +kernel

/-- the full statements for the two RLE decoders (not asserted here; see the header) -/
def c09_rle16_full : Prop :=
  ∀ (w h : Nat) (src : Bytes) (flat : List Pixel), rle16Decode w h src = some flat →
    decompress ⟨w, h, 16, true, src.toArray⟩ = .ok (((topDown w flat).flatMap widen565).map UInt8.ofNat)

/-- the part of it that holds for the port: streams in which no order crosses the end of
    the first scanline -/
def c09_rle16_partial : Prop :=
  ∀ (w h : Nat) (src : Bytes) (flat : List Pixel), rle16Decode w h src = some flat →
    noFirstLineCrossing w h src = true →
    decompress ⟨w, h, 16, true, src.toArray⟩ = .ok (((topDown w flat).flatMap widen565).map UInt8.ofNat)

end Rdp.Codec

namespace Rdp.Codec
open Rdp Rdp.Spec.Bitmap

/-- the witness on which the port and the reference decoder part: a white pixel, then a
    background run of 3 crossing the end of the first scanline of a 2×2 bitmap -/
theorem c09_witness_spec : rle16Decode 2 2 [0xFD, 0x03] = some [0xFFFF, 0, 0, 0] := by decide

theorem c09_witness_port :
    decompress ⟨2, 2, 16, true, #[0xFD, 0x03]⟩
      = .ok [0xff, 0xff, 0xff, 0xff, 0, 0, 0, 0xff, 0xff, 0xff, 0xff, 0xff, 0, 0, 0, 0xff] := by
  decide +kernel

end Rdp.Codec

namespace Rdp.Codec
open Rdp Rdp.Spec.Bitmap

/-- the full statement is false of the port (known finding: orders crossing the end of
    the first scanline are decoded per pixel by the port, per order by the reference) -/
theorem c09_rle16_full_fails : ¬ c09_rle16_full := by
  intro h
  have := h 2 2 [0xFD, 0x03] _ c09_witness_spec
  have e : ([0xFD, 0x03] : Bytes).toArray = #[0xFD, 0x03] := rfl
  rw [e, c09_witness_port] at this
  revert this
  decide +kernel

/-- the witness does cross the first scanline, so the partial statement excludes it -/
example : noFirstLineCrossing 2 2 [0xFD, 0x03] = false := by decide
/-- and the split form of the same image does not -/
example : noFirstLineCrossing 2 2 [0xFD, 0x01, 0x02] = true := by decide

end Rdp.Codec

namespace Rdp.Codec
open Rdp

/-! ### the uncompressed paths are exact -/

theorem foldl_append_toList {α β} (l : List α) (f : α → Array β) (init : Array β) :
    (l.foldl (fun acc i => acc ++ f i) init).toList = init.toList ++ l.flatMap (fun i => (f i).toList) := by
  induction l generalizing init with
  | nil => simp
  | cons a l ih => simp only [List.foldl_cons, ih, Array.toList_append, List.flatMap_cons, List.append_assoc]

/-- **Raw 32 bpp is exact.**  An uncompressed 32 bpp bitmap (sent bottom-up) decodes to its
    rows in top-down order, byte for byte: output row `i` is input row `h-1-i`. -/
theorem c09_raw32 (d : Array UInt8) (w h : Nat) (hsz : w * h * 4 ≤ d.size) :
    decompress ⟨w, h, 32, false, d⟩ =
      .ok ((List.range h).flatMap fun i => (d.extract ((h - i - 1) * w * 4) ((h - i - 1) * w * 4 + w * 4)).toList) := by
  unfold decompress
  simp only [if_true, Bool.false_eq_true, if_false]
  rw [if_neg (by omega)]
  simp only [raw32, foldl_append_toList]
  simp

theorem widenInto_eq (acc : Array UInt8) (v : UInt16) : (widenInto acc v).toList = acc.toList ++ widen v := by
  simp [widenInto, widen]

theorem foldl_widen_toList (l : List UInt16) (init : Array UInt8) :
    (l.foldl widenInto init).toList = init.toList ++ l.flatMap widen := by
  induction l generalizing init with
  | nil => simp
  | cons a l ih => simp only [List.foldl_cons, ih, widenInto_eq, List.flatMap_cons, List.append_assoc]

/-- **Raw 16 bpp is exact.**  An uncompressed 5-6-5 bitmap decodes to the exactly widened
    pixels (`c09_widen`) in top-down order: output pixel (i, j) is input pixel (h-1-i, j). -/
theorem c09_raw16 (d : Array UInt8) (w h : Nat) (hsz : w * h * 2 ≤ d.size) :
    decompress ⟨w, h, 16, false, d⟩ = .ok ((raw16 d w h).toList.flatMap widen) := by
  unfold decompress
  simp only [Bool.false_eq_true, if_false]
  rw [if_neg (by decide), if_pos True.intro, if_neg (by omega)]
  unfold rgb565torgb32
  have hs : (raw16 d w h).size = w * h := by simp [raw16]
  rw [if_pos (by omega)]
  congr 1
  have : (raw16 d w h).extract 0 (w * h) = raw16 d w h := by
    rw [← hs]; simp
  rw [this, ← Array.foldl_toList, foldl_widen_toList]
  simp
end Rdp.Codec
