import RdpModel.Lemmas.Input
/-
  C11 — User input is transmitted exactly once, in order, with exact values.
-/
namespace Rdp.Global
open Rdp Rdp.Schema
open Rdp.Spec.Input (Event frame parse expected)

def toSpecButton : Button → Rdp.Spec.Input.Button
  | .none => .none | .left => .left | .right => .right | .middle => .middle

/-- the submitted event as the specification sees it -/
def toSpec : InEvent → Option Event
  | .pointer x y b d => some (.pointer x y (toSpecButton b) d)
  | .key c d => some (.key c d)
  | .bitmap => none

/-- The flag combination computed by the client is the one MS-RDPBCGR assigns to the
    submitted button and press/release state (complete table). -/
theorem c11_flags (b : Button) (d : Bool) :
    pointerFlags b d = Rdp.Spec.Input.pointerFlags (toSpecButton b) d ∧
    keyFlags d = Rdp.Spec.Input.keyFlags d := by
  cases b <;> cases d <;> decide

/-- In the active state, for every user id, share id and event, the bytes the client puts
    on the wire for one `write` are exactly the reference frame of that event. -/
theorem c11_wire_is_reference_frame (c : GClient) (e : InEvent) (ev : Event) (sid : Nat)
    (hs : c.state = .data) (hsid : c.shareId = some sid) (hev : toSpec e = some ev) :
    ∃ payload, clientWrite c e = .ok payload ∧
      (1001 ≤ c.userId → Mcs.sendFrame c.userId 1003 payload = .ok (frame c.userId 1003 sid ev)) := by
  cases e with
  | bitmap => simp [toSpec] at hev
  | pointer x y b d =>
    simp only [toSpec, Option.some.injEq] at hev
    subst hev
    simp only [clientWrite, writeInput, hs, if_true, toVec_pointer, Outcome.bind_ok, Outcome.ok_bind,
      dataPduBytes, toVec_inputPdu, pduBytes, hsid, Option.getD_some, PDU_DATA]
    rw [toVec_shareData _ _ _ (by simp), Outcome.bind_ok, toVec_shareControl _ _ _ (by simp)]
    refine ⟨_, rfl, ?_⟩
    intro hu
    have hf := (c11_flags b d).1
    simp [Mcs.sendFrame, Mcs.sendDataRequest, checkedSub, hu, Per.writeLength, x224DataHeader, tpktHeader,
      frame, Rdp.Spec.Input.sendDataRequest, Rdp.Spec.Input.shareControl, Rdp.Spec.Input.shareData,
      Rdp.Spec.Input.inputPdu, Rdp.Spec.Input.eventBytes, Rdp.Spec.Input.le16, Rdp.Spec.Input.le32,
      Rdp.Spec.Input.be16, hf]
  | key k d =>
    simp only [toSpec, Option.some.injEq] at hev
    subst hev
    simp only [clientWrite, writeInput, hs, if_true, toVec_keyboard, Outcome.bind_ok, Outcome.ok_bind,
      dataPduBytes, toVec_inputPdu, pduBytes, hsid, Option.getD_some, PDU_DATA]
    rw [toVec_shareData _ _ _ (by simp), Outcome.bind_ok, toVec_shareControl _ _ _ (by simp)]
    refine ⟨_, rfl, ?_⟩
    intro hu
    have hf := (c11_flags .none d).2
    simp [Mcs.sendFrame, Mcs.sendDataRequest, checkedSub, hu, Per.writeLength, x224DataHeader, tpktHeader,
      frame, Rdp.Spec.Input.sendDataRequest, Rdp.Spec.Input.shareControl, Rdp.Spec.Input.shareData,
      Rdp.Spec.Input.inputPdu, Rdp.Spec.Input.eventBytes, Rdp.Spec.Input.le16, Rdp.Spec.Input.le32,
      Rdp.Spec.Input.be16, hf]

/-- Event kinds that cannot be sent are refused with an error and put nothing on the wire. -/
theorem c11_refused (c : GClient) : ∃ e, clientWrite c .bitmap = .err e ∧ clientTryWrite c .bitmap = .err e :=
  ⟨"UnexpectedType", rfl, rfl⟩

/-- The wire image of a sequence of submissions: one frame per accepted event, in order.
    (`write` does not change the client, so each event is framed independently.) -/
def wireOf (c : GClient) : List InEvent → List (Outcome Bytes)
  | [] => []
  | e :: es => ((clientWrite c e).bind fun p => Mcs.sendFrame c.userId 1003 p) :: wireOf c es

/-- Exactly once, in order, exact values: for every sequence of pointer/key events
    submitted in the active state, the frames written are exactly the reference frames
    of those events, one per event, in submission order. -/
theorem c11_sequence (c : GClient) (sid : Nat) (hs : c.state = .data) (hsid : c.shareId = some sid)
    (hu : 1001 ≤ c.userId) (es : List InEvent) (evs : List Event)
    (hev : es.map toSpec = evs.map some) :
    wireOf c es = evs.map fun ev => .ok (frame c.userId 1003 sid ev) := by
  induction es generalizing evs with
  | nil =>
    cases evs with
    | nil => rfl
    | cons a l => simp at hev
  | cons e es ih =>
    cases evs with
    | nil => simp at hev
    | cons ev evs =>
      simp only [List.map_cons, List.cons.injEq] at hev
      obtain ⟨payload, hw, hf⟩ := c11_wire_is_reference_frame c e ev sid hs hsid hev.1
      simp only [wireOf, List.map_cons, hw, Outcome.bind_ok, hf hu, ih evs hev.2]

end Rdp.Global

namespace Rdp.Spec.Input
open Rdp

theorem n16_le (v : Nat) (h : v < 65536) :
    n16 (UInt8.ofNat (v % 256)) (UInt8.ofNat (v / 256 % 256)) = v := by
  unfold n16
  rw [u8_ofNat_toNat _ (by omega), u8_ofNat_toNat _ (by omega)]; omega

theorem frame_bytes (uid chan sid : Nat) (e : Event) : ∃ mt fl a b,
    expected uid chan sid e = ⟨uid, chan, sid, mt, fl, a, b⟩ ∧
    frame uid chan sid e =
      [3, 0, 0, 48, 2, 0xf0, 0x80, 0x64] ++ be16 (uid - 1001) ++ be16 chan ++ [0x70, 34] ++
      le16 34 ++ le16 0x17 ++ le16 uid ++ le32 sid ++ [0, 1] ++ le16 34 ++ [0x1C, 0] ++ le16 0 ++
      le16 1 ++ le16 0 ++ le32 0 ++ le16 mt ++ le16 fl ++ le16 a ++ le16 b := by
  cases e with
  | pointer x y b d =>
    exact ⟨0x8001, pointerFlags b d, x, y, rfl, by
      simp [frame, sendDataRequest, shareControl, shareData, inputPdu, eventBytes, le16, le32, be16]⟩
  | key c d =>
    exact ⟨0x0004, keyFlags d, c, 0, rfl, by
      simp [frame, sendDataRequest, shareControl, shareData, inputPdu, eventBytes, le16, le32, be16]⟩

/-- The strict parser accepts every reference frame and recovers exactly the submitted
    values (the specification used as the oracle is coherent), for every user id, channel,
    share id, coordinates, scancode, button and press state in their 16/32-bit domains. -/
theorem c11_strict_parse_frame (uid chan sid : Nat) (e : Event)
    (hu : 1001 ≤ uid ∧ uid < 65536) (hc : chan < 65536) (hs : sid < 4294967296)
    (he : match e with | .pointer x y _ _ => x < 65536 ∧ y < 65536 | .key c _ => c < 65536) :
    parse (frame uid chan sid e) = some (expected uid chan sid e) := by
  obtain ⟨mt, fl, a, b, hexp, hfr⟩ := frame_bytes uid chan sid e
  have hmt : mt < 65536 ∧ fl < 65536 ∧ a < 65536 ∧ b < 65536 := by
    cases e with
    | pointer x y bt d =>
      simp only [expected, Parsed.mk.injEq] at hexp
      obtain ⟨_, _, _, h1, h2, h3, h4⟩ := hexp
      subst h1 h2 h3 h4
      refine ⟨by decide, ?_, he.1, he.2⟩
      cases bt <;> cases d <;> decide
    | key c d =>
      simp only [expected, Parsed.mk.injEq] at hexp
      obtain ⟨_, _, _, h1, h2, h3, h4⟩ := hexp
      subst h1 h2 h3 h4
      refine ⟨by decide, ?_, he, by decide⟩
      cases d <;> decide
  rw [hexp, hfr]
  simp only [parse, le16, le32, be16, encInt, leBytes, List.reverse_cons, List.reverse_nil, List.nil_append,
    List.cons_append, List.append_assoc, List.length_cons, List.length_nil, List.getD_cons_succ,
    List.getD_cons_zero]
  have e1 := n16_le (uid - 1001) (by omega)
  have e2 := n16_le chan hc
  have e3 := n16_le uid hu.2
  have e4 := n16_le mt hmt.1
  have e5 := n16_le fl hmt.2.1
  have e6 := n16_le a hmt.2.2.1
  have e7 := n16_le b hmt.2.2.2
  have e8 : (UInt8.ofNat (sid % 256)).toNat + 256 * ((UInt8.ofNat (sid / 256 % 256)).toNat +
      256 * ((UInt8.ofNat (sid / 256 / 256 % 256)).toNat + 256 * (UInt8.ofNat (sid / 256 / 256 / 256 % 256)).toNat)) = sid := by
    rw [u8_ofNat_toNat _ (by omega), u8_ofNat_toNat _ (by omega), u8_ofNat_toNat _ (by omega),
      u8_ofNat_toNat _ (by omega)]
    omega
  simp [e1, e2, e3, e4, e5, e6, e7, e8, n16]
  omega

end Rdp.Spec.Input
