import RdpModel.Nla.Ntlm
import RdpModel.Lemmas.GlobalTotal
import RdpModel.Props.C16
/-
  C07 — Hostile server bytes during NLA never crash the client (the NTLM CHALLENGE parser
  and response builder, the seal/unseal of pubKeyAuth).  The ASN.1 layer (yasna) and the
  X.509 parser are called, not modelled (see DESIGN §7); they are explored by the harness.
-/
namespace Rdp.Nla
open Rdp Rdp.Schema Rdp.Global Rdp.Crypto

theorem safe_version : SafeT versionTmpl := by
  simp [versionTmpl, SafeT, SafeFields, SafeList, u16le]
theorem safe_challenge : SafeT challengeTmpl := by
  simp [challengeTmpl, SafeT, SafeFields, SafeOpt, IntShape, u16le, u32le, blob, safe_version]
theorem safe_avPair : SafeT avPairTmpl := by
  simp [avPairTmpl, SafeT, SafeFields, SafeOpt, IntShape, u16le, blob]

theorem getPayloadField_np (a : Nat) (p : Bytes) (l o : Nat) : ∀ q, getPayloadField a p l o ≠ .panic q := by
  intro q; unfold getPayloadField; simp only
  split; · simp
  split <;> simp

/-- extracted fields always lie inside the payload -/
theorem getPayloadField_inside (a : Nat) (p : Bytes) (l o : Nat) (f : Bytes)
    (h : getPayloadField a p l o = .ok f) : f.length = l ∧ ∃ pre post, p = pre ++ f ++ post := by
  unfold getPayloadField at h
  simp only at h
  split at h; · cases h
  split at h; · cases h
  rename_i h1 h2
  injection h with h; subst h
  refine ⟨by simp; omega, p.take (o - (a - p.length)), (p.drop (o - (a - p.length))).drop l, ?_⟩
  rw [List.append_assoc, List.take_append_drop, List.take_append_drop]

theorem readTargetInfo_np (fuel : Nat) (s : Bytes) (ts : Option Bytes) (hf : s.length < fuel) :
    ∀ q, readTargetInfo fuel s ts ≠ .panic q := by
  induction fuel generalizing s ts with
  | zero => omega
  | succ f ih =>
    unfold readTargetInfo
    have hg := read_good avPairTmpl safe_avPair s
    cases hr : read avPairTmpl s with
    | panic p => exact absurd hr (hg.1 p)
    | err e => intro q; simp
    | ok m rest =>
      simp only
      obtain ⟨fs, e1, e2⟩ := read_comp_names _ s m rest hr
      subst e1
      have hn : fs.map Prod.fst = ["AvId", "AvLen", "Value"] := by rw [e2]; rfl
      simp only [castComp, unwrapVisit, Outcome.bind_ok]
      apply Global.bind_np _ _ (castU16_np _ _ (by rw [hn]; simp)); intro id _
      intro q
      split; · simp
      split; · simp
      revert q
      apply Global.bind_np _ _ (castSlice_np _ _ (by rw [hn]; simp)); intro v _
      -- the pair consumed at least its four header bytes
      have hlt : rest.length < s.length := by
        have := (hg.2.1 (.comp fs) rest hr).2 (by simp [avPairTmpl, Consuming, u16le])
        exact this
      exact ih rest _ (by omega)

theorem rc4k_np (key pt : Bytes) (h : key.length = 16) : ∀ q, rc4k key pt ≠ .panic q := by
  intro q
  unfold rc4k Rc4.new
  have hno : ¬ (key.length < 1 ∨ key.length > 256) := by omega
  rw [if_neg hno]
  simp [Outcome.bind]

theorem safeW_authenticate (lm nt d u w ek : Bytes) (flags : Nat) :
    SafeW (authenticateMsg lm nt d u w ek flags) := by
  simp [authenticateMsg, SafeW, SafeWFields, SafeWList, SafeOpt, IntShape, u16le, u32le, blob, versionTmpl]

theorem toVec_authenticate_np (lm nt d u w ek : Bytes) (flags : Nat) (k : Bytes → Outcome Bytes)
    (hk : ∀ hb q, k hb ≠ .panic q) :
    ∀ q, (toVec (authenticateMsg lm nt d u w ek flags)).bind k ≠ .panic q := by
  obtain ⟨b, hb⟩ := write_ok _ (safeW_authenticate lm nt d u w ek flags)
  intro q
  unfold toVec
  rw [hb]
  exact hk b q

/-- `Ntlm::read_challenge_message`: for every CHALLENGE byte string, every credential set
    and every value of the random inputs, the result is a token or an error — never a
    panic, whatever the offsets, lengths and target-information pairs say. -/
theorem c07_read_challenge_total (i : NtlmIn) (request : Bytes) :
    ∀ q, readChallenge i request ≠ .panic q := by
  unfold readChallenge
  apply Global.bind_np _ _ (readAll_noPanic _ safe_challenge request); intro m hm
  obtain ⟨fs, e1, e2⟩ := named_of_readAll _ request m hm
  subst e1
  have hn : fs.map Prod.fst = ["Signature", "MessageType", "TargetNameLen", "TargetNameLenMax",
      "TargetNameBufferOffset", "NegotiateFlags", "ServerChallenge", "Reserved", "TargetInfoLen",
      "TargetInfoMaxLen", "TargetInfoBufferOffset", "Version", "Payload"] := by rw [e2]; rfl
  simp only [castComp, unwrapVisit, Outcome.bind_ok]
  apply Global.bind_np _ _ (castSlice_np _ _ (by rw [hn]; simp)); intro sc _
  apply Global.bind_np _ _ (castSlice_np _ _ (by rw [hn]; simp)); intro payload _
  -- `message.length()` of a parsed message is defined (its closures are safe)
  have hlen : ∀ q, length (.comp fs) ≠ .panic q := by
    unfold readAll at hm
    cases hr : read challengeTmpl request with
    | ok m' r =>
      rw [hr] at hm; injection hm with hm; subst hm
      obtain ⟨b, hb⟩ := length_ok _ (read_safeW _ safe_challenge _ _ _ hr)
      intro q; rw [hb]; simp
    | err r => rw [hr] at hm; cases hm
    | panic q => rw [hr] at hm; cases hm
  apply Global.bind_np _ _ hlen; intro msgLen _
  apply Global.bind_np _ _ (castU16_np _ _ (by rw [hn]; simp)); intro tiLen _
  apply Global.bind_np _ _ (castU32_np _ _ (by rw [hn]; simp)); intro tiOff _
  apply Global.bind_np _ _ (getPayloadField_np _ _ _ _); intro ti _
  apply Global.bind_np _ _ (readTargetInfo_np _ _ _ (by omega)); intro ts _
  intro q
  cases ts with
  | none => simp
  | some timestamp =>
    simp only [computeResponseV2]
    revert q
    apply Global.bind_np _ _ (rc4k_np _ _ (hmacMd5_length _ _)); intro ek _
    apply Global.bind_np _ _ (castU32_np _ _ (by rw [hn]; simp)); intro flags _
    exact toVec_authenticate_np _ _ _ _ _ _ _ _ (fun hb q => by simp)

end Rdp.Nla
