import RdpModel.Wire.Write
import RdpModel.Spec.Deframe
/-
  C14 — Outbound frames are exact and completely delivered, or refused.
-/
namespace Rdp
open Spec

/-- the schedule never refuses: every call accepts at least one byte -/
def Willing (sched : List WAct) : Prop := ∀ a ∈ sched, ∃ k, a = .accept (k + 1)

theorem writeAllF_spec (f : Nat) (buf : Bytes) (s : Sink) (hf : buf.length ≤ f) :
    ∃ n, n ≤ buf.length ∧ (writeAllF f buf s).1.out = s.out ++ buf.take n ∧
      (((writeAllF f buf s).2 = .ok () ∧ n = buf.length) ∨
       (∃ e, (writeAllF f buf s).2 = .err e ∧ n < buf.length ∧ ¬ Willing s.sched)) := by
  induction f generalizing buf s with
  | zero =>
    have : buf = [] := List.eq_nil_of_length_eq_zero (by omega)
    subst this
    exact ⟨0, by simp, by simp [writeAllF], Or.inl ⟨by simp [writeAllF], rfl⟩⟩
  | succ f ih =>
    cases buf with
    | nil => exact ⟨0, by simp, by simp [writeAllF], Or.inl ⟨by simp [writeAllF], rfl⟩⟩
    | cons b bs =>
      cases hs : s.sched with
      | nil =>
        refine ⟨(b :: bs).length, Nat.le_refl _, ?_, Or.inl ⟨?_, rfl⟩⟩ <;> simp [writeAllF, hs]
      | cons a rest =>
        cases a with
        | fail =>
          refine ⟨0, by simp, by simp [writeAllF, hs], Or.inr ⟨"io", by simp [writeAllF, hs], by simp, ?_⟩⟩
          intro hw
          obtain ⟨k, hk⟩ := hw WAct.fail (by simp)
          cases hk
        | accept k =>
          by_cases hk : k = 0
          · subst hk
            refine ⟨0, by simp, by simp [writeAllF, hs], Or.inr ⟨"WriteZero", by simp [writeAllF, hs], by simp, ?_⟩⟩
            intro hw
            obtain ⟨k, hk⟩ := hw (WAct.accept 0) (by simp)
            cases hk
          · have hlen : ((b :: bs).drop k).length ≤ f := by
              simp only [List.length_drop, List.length_cons] at *; omega
            obtain ⟨n, hn, hout, hres⟩ := ih ((b :: bs).drop k) ⟨s.out ++ (b :: bs).take k, rest⟩ hlen
            have hstep : writeAllF (f+1) (b :: bs) s
                = writeAllF f ((b :: bs).drop k) ⟨s.out ++ (b :: bs).take k, rest⟩ := by
              simp [writeAllF, hs, hk]
            rw [hstep]
            have hnd : n ≤ (b :: bs).length - k := by simpa using hn
            refine ⟨min k (b :: bs).length + n, ?_, ?_, ?_⟩
            · omega
            · rw [hout]
              simp only [List.append_assoc]
              congr 1
              by_cases hkl : k ≤ (b :: bs).length
              · have : min k (b :: bs).length = k := Nat.min_eq_left hkl
                rw [this, List.take_add]
              · have hkl' : (b :: bs).length ≤ k := by omega
                have h0 : n = 0 := by omega
                subst h0
                have hm : min k (b :: bs).length = (b :: bs).length := Nat.min_eq_right hkl'
                rw [hm]
                simp [List.take_of_length_le hkl', List.drop_of_length_le hkl']
            · rcases hres with ⟨hok, hn'⟩ | ⟨e, he, hn', hw⟩
              · left
                refine ⟨hok, ?_⟩
                simp only [List.length_drop] at hn'
                omega
              · right
                refine ⟨e, he, ?_, ?_⟩
                · simp only [List.length_drop] at hn'
                  omega
                · intro hw2
                  apply hw
                  intro a ha
                  exact hw2 a (by simp [ha])

/-- Complete delivery or reported failure (`Link::write` over any short-write schedule):
    on `ok` every byte of the message is in the stream; on `err` a proper prefix is, and the
    stream really refused (returned an error or accepted zero bytes). Never a panic. -/
theorem c14_link_delivery (msg : Bytes) (s : Sink) :
    ∃ n, (Link.write msg s).1.out = s.out ++ msg.take n ∧
      (((Link.write msg s).2 = .ok () ∧ n = msg.length) ∨
       (∃ e, (Link.write msg s).2 = .err e ∧ n < msg.length ∧ ¬ Willing s.sched)) := by
  obtain ⟨n, _, h2, h3⟩ := writeAllF_spec msg.length msg s (Nat.le_refl _)
  exact ⟨n, h2, h3⟩

/-- Each message that fits is emitted as exactly one reference TPKT frame, completely,
    whenever the call reports success; on failure only a proper prefix of that frame
    was emitted and the failure is the stream's. -/
theorem c14_delivery (payload : Bytes) (sched : List WAct) (hfit : payload.length + 4 ≤ 65535) :
    let r := Tpkt.write payload ⟨[], sched⟩
    (r.2 = .ok () → r.1.out = (Frame.slow 0 payload).encode) ∧
    (∀ e, r.2 = .err e → ¬ Willing sched ∧
        ∃ n, n < (Frame.slow 0 payload).encode.length ∧ r.1.out = (Frame.slow 0 payload).encode.take n) ∧
    (∀ p, r.2 ≠ .panic p) := by
  have hno : ¬ (payload.length + 4 > 65535) := by omega
  simp only [Tpkt.write, hno, if_false]
  have henc : tpktHeader payload.length ++ payload = (Frame.slow 0 payload).encode := by
    simp [tpktHeader, Frame.encode]
  rw [henc]
  obtain ⟨n, hout, hres⟩ := c14_link_delivery (Frame.slow 0 payload).encode ⟨[], sched⟩
  simp only [List.nil_append] at hout
  rcases hres with ⟨hok, hn⟩ | ⟨e, he, hn, hw⟩
  · refine ⟨fun _ => ?_, fun e he => ?_, fun p hp => ?_⟩
    · rw [hout, hn]; simp
    · rw [hok] at he; cases he
    · rw [hok] at hp; cases hp
  · refine ⟨fun h => ?_, fun e' _ => ⟨hw, n, hn, hout⟩, fun p hp => ?_⟩
    · rw [he] at h; cases h
    · rw [he] at hp; cases hp

/-- With a stream that always makes progress the call succeeds (so the `ok` branch of
    `c14_delivery` is the one taken, however small the accepted pieces are). -/
theorem c14_willing_ok (payload : Bytes) (sched : List WAct) (hfit : payload.length + 4 ≤ 65535)
    (hw : Willing sched) :
    (Tpkt.write payload ⟨[], sched⟩).2 = .ok () ∧
    (Tpkt.write payload ⟨[], sched⟩).1.out = (Frame.slow 0 payload).encode := by
  have h := c14_delivery payload sched hfit
  simp only at h
  obtain ⟨h1, h2, h3⟩ := h
  cases hr : (Tpkt.write payload ⟨[], sched⟩).2 with
  | ok u => exact ⟨rfl, h1 (by rw [hr])⟩
  | err e => exact absurd hw (h2 e hr).1
  | panic p => exact absurd hr (h3 p)

/-- A message too large for the 16-bit length is refused and nothing is emitted. -/
theorem c14_refuse_large (payload : Bytes) (s : Sink) (h : payload.length + 4 > 65535) :
    Tpkt.write payload s = (s, .err "InvalidSize") := by
  simp [Tpkt.write, h]

/-- The header's length field equals the number of bytes emitted. -/
theorem c14_header (payload : Bytes) (sched : List WAct) (hfit : payload.length + 4 ≤ 65535)
    (hok : (Tpkt.write payload ⟨[], sched⟩).2 = .ok ()) :
    ∃ r hi lo rest, (Tpkt.write payload ⟨[], sched⟩).1.out = 3 :: r :: hi :: lo :: rest ∧
      hi.toNat * 256 + lo.toNat = (Tpkt.write payload ⟨[], sched⟩).1.out.length := by
  have h := (c14_delivery payload sched hfit).1 hok
  refine ⟨0, UInt8.ofNat ((payload.length + 4) / 256), UInt8.ofNat ((payload.length + 4) % 256), payload, ?_, ?_⟩
  · rw [h]; simp [Frame.encode]
  · rw [h]
    have a : (UInt8.ofNat ((payload.length + 4) / 256)).toNat = (payload.length + 4) / 256 := by
      simp [UInt8.toNat_ofNat']; omega
    have b : (UInt8.ofNat ((payload.length + 4) % 256)).toNat = (payload.length + 4) % 256 := by
      simp [UInt8.toNat_ofNat']
    rw [a, b]
    simp [Frame.encode]; omega

/-- non-vacuity: a 3-bytes-per-call stream is willing; a 5-byte payload is then framed whole -/
example : Willing [.accept 3, .accept 3, .accept 3] := by
  intro a ha; simp at ha; subst ha; exact ⟨2, rfl⟩
example : (Tpkt.write [1,2,3,4,5] ⟨[], [.accept 3, .accept 3, .accept 3]⟩).1.out = [3,0,0,9,1,2,3,4,5] := by
  decide

end Rdp
