import RdpModel.Generated.Consts
import RdpModel.Spec.FastPath
/-
  C10 — fast-path update and bitmap flag constants of src/core/global.rs / tpkt.rs as the
  code has them now against MS-RDPBCGR 2.2.9.1.2.1 / 2.2.9.1.1.3.1.2.2.
-/
namespace Rdp.Consts
open Rdp.Gen Rdp.Gen.global Rdp.Spec.FastPath

theorem c10_consts :
    FastPathUpdateType.FastpathUpdatetypeOrders = 0 ∧ FastPathUpdateType.FastpathUpdatetypeBitmap = 1 ∧
    FastPathUpdateType.FastpathUpdatetypePalette = 2 ∧ FastPathUpdateType.FastpathUpdatetypeSynchronize = 3 ∧
    FastPathUpdateType.FastpathUpdatetypeSurfcmds = 4 ∧ FastPathUpdateType.FastpathUpdatetypePtrNull = 5 ∧
    FastPathUpdateType.FastpathUpdatetypePtrDefault = 6 ∧ FastPathUpdateType.FastpathUpdatetypePtrPosition = 8 ∧
    FastPathUpdateType.FastpathUpdatetypeColor = 9 ∧ FastPathUpdateType.FastpathUpdatetypeCached = 10 ∧
    FastPathUpdateType.FastpathUpdatetypePointer = 11 ∧
    BitmapFlag.BitmapCompression = 0x0001 ∧ BitmapFlag.NoBitmapCompressionHdr = 0x0400 ∧
    tpkt.Action.FastPathActionFastPath = 0 ∧ tpkt.Action.FastPathActionX224 = 3 := by decide

/-- the reference rule for the TS_CD_HEADER, read with the code's own flag values -/
theorem c10_consts_hdr (r : Rect) :
    r.hasHdr = true ↔ (r.flags &&& BitmapFlag.BitmapCompression ≠ 0 ∧ r.flags &&& BitmapFlag.NoBitmapCompressionHdr = 0) := by
  simp [Rect.hasHdr, BitmapFlag.BitmapCompression, BitmapFlag.NoBitmapCompressionHdr]

end Rdp.Consts
