import RdpModel.Generated.Consts
/-
  C13 / C14 — framing constants of src/core/tpkt.rs / x224.rs as the code has them now: the
  two low bits of the first byte select TPKT (3) or fast-path (0) (MS-RDPBCGR 2.2.9.1.2,
  RFC 1006), X.224 data TPDU 0xF0.
-/
namespace Rdp.Consts
open Rdp.Gen

theorem c13_consts :
    tpkt.Action.FastPathActionFastPath = 0 ∧ tpkt.Action.FastPathActionX224 = 3 ∧
    x224.MessageType.X224TPDUData = 0xF0 := by decide

end Rdp.Consts
