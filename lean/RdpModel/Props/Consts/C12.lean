import RdpModel.Generated.Consts
/-
  C12 (also C03, C06) — share-control / share-data PDU types and control actions of
  src/core/global.rs as the code has them now against MS-RDPBCGR 2.2.8.1.1.1.1 / 2.2.8.1.1.2 /
  2.2.1.15.1.
-/
namespace Rdp.Consts
open Rdp.Gen.global

theorem c12_consts :
    PDUType.PdutypeDemandactivepdu = 0x11 ∧ PDUType.PdutypeConfirmactivepdu = 0x13 ∧
    PDUType.PdutypeDeactivateallpdu = 0x16 ∧ PDUType.PdutypeDatapdu = 0x17 ∧ PDUType.PdutypeServerRedirPkt = 0x1A ∧
    PDUType2.Pdutype2Update = 0x02 ∧ PDUType2.Pdutype2Control = 0x14 ∧ PDUType2.Pdutype2Pointer = 0x1B ∧
    PDUType2.Pdutype2Input = 0x1C ∧ PDUType2.Pdutype2Synchronize = 0x1F ∧ PDUType2.Pdutype2ShutdownRequest = 0x24 ∧
    PDUType2.Pdutype2SaveSessionInfo = 0x26 ∧ PDUType2.Pdutype2Fontlist = 0x27 ∧ PDUType2.Pdutype2Fontmap = 0x28 ∧
    PDUType2.Pdutype2SetErrorInfoPdu = 0x2F ∧
    Action.CtrlactionRequestControl = 1 ∧ Action.CtrlactionGrantedControl = 2 ∧ Action.CtrlactionDetach = 3 ∧
    Action.CtrlactionCooperate = 4 := by decide

end Rdp.Consts
