import RdpModel.Generated.Consts
/-
  C05 (also C03, C18) — MCS opcodes (T.125 DomainMCSPDU choice indices), GCC user-data block
  types and keys (MS-RDPBCGR 2.2.1.3 / 2.2.1.4, T.124), RDP versions, licensing message types
  and codes (MS-RDPELE 2.2.2) as the code has them now.
-/
namespace Rdp.Consts
open Rdp.Gen

theorem c05_consts :
    mcs.DomainMCSPDU.ErectDomainRequest = 1 ∧ mcs.DomainMCSPDU.DisconnectProviderUltimatum = 8 ∧
    mcs.DomainMCSPDU.AttachUserRequest = 10 ∧ mcs.DomainMCSPDU.AttachUserConfirm = 11 ∧
    mcs.DomainMCSPDU.ChannelJoinRequest = 14 ∧ mcs.DomainMCSPDU.ChannelJoinConfirm = 15 ∧
    mcs.DomainMCSPDU.SendDataRequest = 25 ∧ mcs.DomainMCSPDU.SendDataIndication = 26 ∧
    gcc.MessageType.ScCore = 0x0C01 ∧ gcc.MessageType.ScSecurity = 0x0C02 ∧ gcc.MessageType.ScNet = 0x0C03 ∧
    gcc.MessageType.CsCore = 0xC001 ∧ gcc.MessageType.CsSecurity = 0xC002 ∧ gcc.MessageType.CsNet = 0xC003 ∧
    gcc.MessageType.CsCluster = 0xC004 ∧ gcc.MessageType.CsMonitor = 0xC005 ∧
    gcc.Version.RdpVersion = 0x00080001 ∧ gcc.Version.RdpVersion5plus = 0x00080004 ∧
    gcc.T124_02_98_OID = [0, 0, 20, 124, 0, 1] ∧
    gcc.H221_CS_KEY = [0x44, 0x75, 0x63, 0x61] ∧ gcc.H221_SC_KEY = [0x4D, 0x63, 0x44, 0x6E] ∧
    license.MessageType.LicenseRequest = 0x01 ∧ license.MessageType.PlatformChallenge = 0x02 ∧
    license.MessageType.NewLicense = 0x03 ∧ license.MessageType.UpgradeLicense = 0x04 ∧
    license.MessageType.LicenseInfo = 0x12 ∧ license.MessageType.NewLicenseRequest = 0x13 ∧
    license.MessageType.PlatformChallengeResponse = 0x15 ∧ license.MessageType.ErrorAlert = 0xFF ∧
    license.ErrorCode.StatusValidClient = 7 ∧ license.StateTransition.StNoTransition = 2 ∧
    license.Preambule.PreambleVersion20 = 2 ∧ license.Preambule.PreambleVersion30 = 3 ∧
    license.Preambule.ExtendedErrorMsgSupported = 0x80 ∧
    sec.SecurityFlag.SecInfoPkt = 0x0040 ∧ sec.SecurityFlag.SecLicensePkt = 0x0080 := by decide

end Rdp.Consts
