import RdpModel.Generated.Consts
import RdpModel.Wire.Emit
/-
  C17 (also C04) — Client Info flags of src/core/sec.rs as the code has them now against
  MS-RDPBCGR 2.2.1.11.1.1 and against the flag word of the emitter model (Wire/Emit.lean).
-/
namespace Rdp.Consts
open Rdp.Gen.sec

theorem c17_consts :
    InfoFlag.InfoMouse = 0x00000001 ∧ InfoFlag.InfoDisablectrlaltdel = 0x00000002 ∧ InfoFlag.InfoAutologon = 0x00000008 ∧
    InfoFlag.InfoUnicode = 0x00000010 ∧ InfoFlag.InfoMaximizeshell = 0x00000020 ∧ InfoFlag.InfoLogonnotify = 0x00000040 ∧
    InfoFlag.InfoCompression = 0x00000080 ∧ InfoFlag.InfoEnablewindowskey = 0x00000100 ∧
    InfoFlag.InfoLogonerrors = 0x00010000 ∧ InfoFlag.InfoPasswordIsScPin = 0x00040000 ∧
    InfoFlag.InfoUsingSavedCreds = 0x00100000 ∧
    SecurityFlag.SecInfoPkt = 0x0040 ∧ SecurityFlag.SecLicensePkt = 0x0080 ∧ SecurityFlag.SecEncrypt = 0x0008 ∧
    AfInet.AfInet = 0x0002 ∧ AfInet.AfInet6 = 0x0017 := by decide

/-- the model's flag word is the sum of the code's flags for mouse, unicode, logon
    notifications, logon errors, ctrl-alt-del and windows key — plus AUTOLOGON exactly when asked -/
theorem c17_consts_info_flags :
    Rdp.Emit.infoFlags false = InfoFlag.InfoMouse + InfoFlag.InfoUnicode + InfoFlag.InfoLogonnotify +
      InfoFlag.InfoLogonerrors + InfoFlag.InfoDisablectrlaltdel + InfoFlag.InfoEnablewindowskey ∧
    Rdp.Emit.infoFlags true = Rdp.Emit.infoFlags false + InfoFlag.InfoAutologon := by decide

end Rdp.Consts
