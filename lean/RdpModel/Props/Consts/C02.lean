import RdpModel.Generated.Consts
import RdpModel.Spec.Negotiation
/-
  C02 — the constants of src/core/x224.rs as the code has them NOW (regenerated on every
  run by tools/extract_consts.py) against MS-RDPBCGR 2.2.1.1.1 / 2.2.1.2.1 and against the
  verdict function of Spec/Negotiation.lean that the C02 theorems are stated over.
-/
namespace Rdp.Consts
open Rdp.Gen.x224 Rdp.Spec.Negotiation

/-- PROTOCOL_RDP 0, PROTOCOL_SSL 1, PROTOCOL_HYBRID 2, PROTOCOL_HYBRID_EX 8; TYPE_RDP_NEG_REQ 1,
    _RSP 2, _FAILURE 3; CR 0xE0, CC 0xD0, DT 0xF0; RESTRICTED_ADMIN_MODE_REQUIRED 0x01 -/
theorem c02_consts :
    Protocols.ProtocolRDP = 0 ∧ Protocols.ProtocolSSL = 1 ∧ Protocols.ProtocolHybrid = 2 ∧
    Protocols.ProtocolHybridEx = 8 ∧
    NegotiationType.TypeRDPNegReq = 1 ∧ NegotiationType.TypeRDPNegRsp = 2 ∧ NegotiationType.TypeRDPNegFailure = 3 ∧
    MessageType.X224TPDUConnectionRequest = 0xE0 ∧ MessageType.X224TPDUConnectionConfirm = 0xD0 ∧
    MessageType.X224TPDUData = 0xF0 ∧ RequestMode.RestrictedAdminModeRequired = 1 := by decide

/-- the specification's verdict, read with the code's own constants: a negotiation response
    selecting the code's SSL / Hybrid / RDP value is honoured exactly when that bit was offered -/
theorem c02_consts_verdict (offered : Nat) (auth : Bool) :
    (offered &&& Protocols.ProtocolSSL ≠ 0 →
      verdict offered auth NegotiationType.TypeRDPNegRsp Protocols.ProtocolSSL = .tls false) ∧
    (offered &&& Protocols.ProtocolSSL = 0 →
      verdict offered auth NegotiationType.TypeRDPNegRsp Protocols.ProtocolSSL = .refuse) ∧
    (offered &&& Protocols.ProtocolHybrid ≠ 0 →
      verdict offered true NegotiationType.TypeRDPNegRsp Protocols.ProtocolHybrid = .tls true) ∧
    (offered &&& Protocols.ProtocolHybrid = 0 →
      verdict offered auth NegotiationType.TypeRDPNegRsp Protocols.ProtocolHybrid = .refuse) ∧
    verdict offered false NegotiationType.TypeRDPNegRsp Protocols.ProtocolHybrid = .refuse ∧
    (offered ≠ 0 → verdict offered auth NegotiationType.TypeRDPNegRsp Protocols.ProtocolRDP = .refuse) ∧
    verdict offered auth NegotiationType.TypeRDPNegFailure Protocols.ProtocolSSL = .refuse ∧
    verdict offered auth NegotiationType.TypeRDPNegReq Protocols.ProtocolSSL = .refuse := by
  simp [verdict, NegotiationType.TypeRDPNegRsp, NegotiationType.TypeRDPNegFailure, NegotiationType.TypeRDPNegReq,
    Protocols.ProtocolSSL, Protocols.ProtocolHybrid, Protocols.ProtocolRDP]
  intro h h'; exact absurd h h'

end Rdp.Consts
