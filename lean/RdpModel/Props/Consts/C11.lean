import RdpModel.Generated.Consts
import RdpModel.Spec.Input
/-
  C11 — the input constants of src/core/global.rs / mcs.rs as the code has them now against
  MS-RDPBCGR 2.2.8.1.1.3.1.1 and against the reference frame of Spec/Input.lean.
-/
namespace Rdp.Consts
open Rdp.Gen Rdp.Gen.global Rdp.Spec.Input

theorem c11_consts :
    PointerFlag.PtrflagsMove = 0x0800 ∧ PointerFlag.PtrflagsDown = 0x8000 ∧
    PointerFlag.PtrflagsButton1 = 0x1000 ∧ PointerFlag.PtrflagsButton2 = 0x2000 ∧ PointerFlag.PtrflagsButton3 = 0x4000 ∧
    KeyboardFlag.KbdflagsRelease = 0x8000 ∧ KeyboardFlag.KbdflagsExtended = 0x0100 ∧ KeyboardFlag.KbdflagsDown = 0x4000 ∧
    InputEventType.InputEventScancode = 4 ∧ InputEventType.InputEventMouse = 0x8001 ∧
    InputEventType.InputEventSync = 0 ∧ InputEventType.InputEventUnicode = 5 ∧ InputEventType.InputEventMousex = 0x8002 ∧
    PDUType2.Pdutype2Input = 0x1C ∧ PDUType.PdutypeDatapdu = 0x17 ∧
    mcs.DomainMCSPDU.SendDataRequest = 25 ∧ mcs.DomainMCSPDU.SendDataIndication = 26 := by decide

/-- the reference flag table, read with the code's own constants -/
theorem c11_consts_flags :
    pointerFlags .none false = PointerFlag.PtrflagsMove ∧
    pointerFlags .none true = PointerFlag.PtrflagsMove + PointerFlag.PtrflagsDown ∧
    pointerFlags .left false = PointerFlag.PtrflagsButton1 ∧
    pointerFlags .left true = PointerFlag.PtrflagsButton1 + PointerFlag.PtrflagsDown ∧
    pointerFlags .right false = PointerFlag.PtrflagsButton2 ∧
    pointerFlags .right true = PointerFlag.PtrflagsButton2 + PointerFlag.PtrflagsDown ∧
    pointerFlags .middle false = PointerFlag.PtrflagsButton3 ∧
    pointerFlags .middle true = PointerFlag.PtrflagsButton3 + PointerFlag.PtrflagsDown ∧
    keyFlags true = 0 ∧ keyFlags false = KeyboardFlag.KbdflagsRelease := by decide

/-- the reference frame carries the code's message types, PDU types and MCS opcode -/
theorem c11_consts_frame (u ch sh x y code : Nat) (b : Button) (d : Bool) :
    expected u ch sh (.pointer x y b d) = ⟨u, ch, sh, InputEventType.InputEventMouse, pointerFlags b d, x, y⟩ ∧
    expected u ch sh (.key code d) = ⟨u, ch, sh, InputEventType.InputEventScancode, keyFlags d, code, 0⟩ ∧
    (sendDataRequest u ch []).head? = some (UInt8.ofNat (mcs.DomainMCSPDU.SendDataRequest * 4)) := by
  refine ⟨rfl, rfl, ?_⟩
  simp [sendDataRequest, mcs.DomainMCSPDU.SendDataRequest]

end Rdp.Consts
