import RdpModel.Generated.Consts
/-
  C04 (also C03) — capability set types and GCC client-core enumerations of
  src/core/capability.rs / gcc.rs as the code has them now against MS-RDPBCGR 2.2.1.13.1.1.1 /
  2.2.1.3.2.
-/
namespace Rdp.Consts
open Rdp.Gen

theorem c04_consts :
    capability.CapabilitySetType.CapstypeGeneral = 0x0001 ∧ capability.CapabilitySetType.CapstypeBitmap = 0x0002 ∧
    capability.CapabilitySetType.CapstypeOrder = 0x0003 ∧ capability.CapabilitySetType.CapstypeBitmapcache = 0x0004 ∧
    capability.CapabilitySetType.CapstypeControl = 0x0005 ∧ capability.CapabilitySetType.CapstypeActivation = 0x0007 ∧
    capability.CapabilitySetType.CapstypePointer = 0x0008 ∧ capability.CapabilitySetType.CapstypeShare = 0x0009 ∧
    capability.CapabilitySetType.CapstypeColorcache = 0x000A ∧ capability.CapabilitySetType.CapstypeSound = 0x000C ∧
    capability.CapabilitySetType.CapstypeInput = 0x000D ∧ capability.CapabilitySetType.CapstypeFont = 0x000E ∧
    capability.CapabilitySetType.CapstypeBrush = 0x000F ∧ capability.CapabilitySetType.CapstypeGlyphcache = 0x0010 ∧
    capability.CapabilitySetType.CapstypeOffscreencache = 0x0011 ∧ capability.CapabilitySetType.CapstypeVirtualchannel = 0x0014 ∧
    capability.CapabilitySetType.CapsettypeMultifragmentupdate = 0x001A ∧
    capability.GeneralExtraFlag.FastpathOutputSupported = 0x0001 ∧ capability.GeneralExtraFlag.NoBitmapCompressionHdr = 0x0400 ∧
    capability.GeneralExtraFlag.LongCredentialsSupported = 0x0004 ∧ capability.GeneralExtraFlag.AutoreconnectSupported = 0x0008 ∧
    capability.GeneralExtraFlag.EncSaltedChecksum = 0x0010 ∧
    capability.MajorType.OsmajortypeWindows = 1 ∧ capability.MinorType.OsminortypeWindowsNt = 3 ∧
    capability.InputFlags.InputFlagScancodes = 0x0001 ∧ capability.InputFlags.InputFlagMousex = 0x0004 ∧
    capability.InputFlags.InputFlagUnicode = 0x0010 ∧
    capability.OrderFlag.NEGOTIATEORDERSUPPORT = 0x0002 ∧ capability.OrderFlag.ZEROBOUNDSDELTASSUPPORT = 0x0008 ∧
    gcc.ColorDepth.RnsUdColor8BPP = 0xCA01 ∧ gcc.Sequence.RnsUdSasDel = 0xAA03 ∧
    gcc.HighColor.HighColor24BPP = 0x0018 ∧ gcc.Support.RnsUd32BPPSupport = 0x0008 ∧ gcc.Support.RnsUd24BPPSupport = 0x0001 ∧
    gcc.Support.RnsUd16BPPSupport = 0x0002 ∧ gcc.Support.RnsUd15BPPSupport = 0x0004 ∧
    gcc.CapabilityFlag.RnsUdCsSupportErrinfoPDU = 0x0001 ∧ gcc.KeyboardType.Ibm101102Keys = 4 ∧
    gcc.KeyboardLayout.US = 0x409 ∧ gcc.KeyboardLayout.French = 0x40C ∧ gcc.KeyboardLayout.German = 0x407 ∧
    gcc.EncryptionMethod.EncryptionFlag40bit = 1 ∧ gcc.EncryptionMethod.EncryptionFlag128bit = 2 ∧
    gcc.EncryptionMethod.EncryptionFlag56bit = 8 ∧ gcc.EncryptionMethod.FipsEncryptionFlag = 0x10 := by decide

end Rdp.Consts
