import RdpModel.Generated.Consts
/-
  C15 (also C07, C16, C01) — NTLM negotiate flags and AV ids of src/nla/ntlm.rs as the code
  has them now against MS-NLMP 2.2.2.5 / 2.2.2.1.
-/
namespace Rdp.Consts
open Rdp.Gen.ntlm

theorem c15_consts :
    Negotiate.NtlmsspNegociate56 = 0x80000000 ∧ Negotiate.NtlmsspNegociateKeyExch = 0x40000000 ∧
    Negotiate.NtlmsspNegociate128 = 0x20000000 ∧ Negotiate.NtlmsspNegociateVersion = 0x02000000 ∧
    Negotiate.NtlmsspNegociateTargetInfo = 0x00800000 ∧ Negotiate.NtlmsspNegociateExtendedSessionSecurity = 0x00080000 ∧
    Negotiate.NtlmsspTargetTypeServer = 0x00020000 ∧ Negotiate.NtlmsspTargetTypeDomain = 0x00010000 ∧
    Negotiate.NtlmsspNegociateAlwaysSign = 0x00008000 ∧ Negotiate.NtlmsspNegociateNTLM = 0x00000200 ∧
    Negotiate.NtlmsspNegociateLMKey = 0x00000080 ∧ Negotiate.NtlmsspNegociateDatagram = 0x00000040 ∧
    Negotiate.NtlmsspNegociateSeal = 0x00000020 ∧ Negotiate.NtlmsspNegociateSign = 0x00000010 ∧
    Negotiate.NtlmsspRequestTarget = 0x00000004 ∧ Negotiate.NtlmNegotiateOEM = 0x00000002 ∧
    Negotiate.NtlmsspNegociateUnicode = 0x00000001 ∧
    AvId.MsvAvEOL = 0 ∧ AvId.MsvAvNbComputerName = 1 ∧ AvId.MsvAvNbDomainName = 2 ∧ AvId.MsvAvDnsComputerName = 3 ∧
    AvId.MsvAvDnsDomainName = 4 ∧ AvId.MsvAvDnsTreeName = 5 ∧ AvId.MsvAvFlags = 6 ∧ AvId.MsvAvTimestamp = 7 ∧
    AvId.MsvAvSingleHost = 8 ∧ AvId.MsvAvTargetName = 9 ∧ AvId.MsvChannelBindings = 10 ∧
    NTLMRevision.NtlmSspRevisionW2K3 = 0x0F := by decide

/-- the flag set of the NEGOTIATE message (`create_negotiate_message`), summed from the code's values -/
theorem c15_consts_negotiate_flags :
    Negotiate.NtlmsspNegociateKeyExch + Negotiate.NtlmsspNegociate128 + Negotiate.NtlmsspNegociateExtendedSessionSecurity +
    Negotiate.NtlmsspNegociateAlwaysSign + Negotiate.NtlmsspNegociateNTLM + Negotiate.NtlmsspNegociateSeal +
    Negotiate.NtlmsspNegociateSign + Negotiate.NtlmsspRequestTarget + Negotiate.NtlmsspNegociateUnicode = 0x60088235 := by decide

end Rdp.Consts
