import RdpModel.Wire.Global
import RdpModel.Msg.RoundTrip
import RdpModel.Spec.FastPath
import RdpModel.Base.Bits
/-
  Helper lemmas for C10: the reference encoding of a fast-path PDU is the encoding of a
  well-formed instance of the `ts_fp_update` / `ts_fp_update_bitmap` / `ts_bitmap_data`
  schemas, so the generic round-trip theorem applies.
-/
namespace Rdp.Global
open Rdp Rdp.Schema Rdp.Spec.FastPath

def cdHeaderOf (n : Nat) : Msg := .comp [
  ("cbCompFirstRowSize", .check (u16le 0)), ("cbCompMainBodySize", u16le n),
  ("cbScanWidth", u16le 0), ("cbUncompressedSize", u16le 0)]

/-- the filled `ts_bitmap_data()` for a rectangle -/
def rectMsg (r : Rect) : Msg := .comp [
  ("destLeft", u16le r.left), ("destTop", u16le r.top), ("destRight", u16le r.right),
  ("destBottom", u16le r.bottom), ("width", u16le r.width), ("height", u16le r.height),
  ("bitsPerPixel", u16le r.bpp),
  ("flags", .dyn (u16le r.flags) (.skipIf "bitmapComprHdr" 0x0001 0x0400)),
  ("bitmapLength", .dyn (u16le (if r.hasHdr then r.data.length + 8 else r.data.length)) (.size "bitmapDataStream" 1 0 0)),
  ("bitmapComprHdr", .dyn (if r.hasHdr then cdHeaderOf r.data.length else cdHeaderTmpl)
      (.sizeOfSub "bitmapDataStream" "cbCompMainBodySize")),
  ("bitmapDataStream", blob r.data)]

def RectInRange (r : Rect) : Prop :=
  r.left < 65536 ∧ r.top < 65536 ∧ r.right < 65536 ∧ r.bottom < 65536 ∧ r.width < 65536 ∧
  r.height < 65536 ∧ r.bpp < 65536 ∧ r.flags < 65536 ∧ r.data.length + 8 < 65536

def toEv (r : Rect) : BitmapEv :=
  ⟨r.left, r.top, r.right, r.bottom, r.width, r.height, r.bpp, r.flags &&& 1 ≠ 0, r.data⟩

theorem rect_enc (r : Rect) : enc (rectMsg r) = Rect.encode r := by
  by_cases hh : r.hasHdr = true
  · have h1 : r.flags &&& 1 ≠ 0 ∧ r.flags &&& 1024 = 0 := by simpa [Rect.hasHdr] using hh
    have hA : ¬ (r.flags % 2 = 0) := by
      have := h1.1; rwa [Nat.and_one_is_mod] at this
    have hB : r.flags &&& 1024 = 0 := h1.2
    have hs : ¬ (r.flags % 2 = 0 ∨ ¬ r.flags &&& 1024 = 0) := by
      intro h; rcases h with h | h
      · exact hA h
      · exact h hB
    simp [rectMsg, Rect.encode, enc, encFields, options, evalOpt, intVal, compFields, lookupField,
      u16le, blob, addSkip, hh, hs, cdHeaderOf, Spec.FastPath.le16]
  · have hh' : r.hasHdr = false := by simpa using hh
    have hs : (r.flags % 2 = 0 ∨ ¬ r.flags &&& 1024 = 0) := by
      have h0 : ¬ (r.flags &&& 1 ≠ 0 ∧ r.flags &&& 1024 = 0) := by simpa [Rect.hasHdr] using hh'
      by_cases h : r.flags % 2 = 0
      · exact Or.inl h
      · right; intro hb; apply h0; refine ⟨?_, hb⟩; rw [Nat.and_one_is_mod]; exact h
    simp [rectMsg, Rect.encode, enc, encFields, options, evalOpt, intVal, compFields, lookupField,
      u16le, blob, addSkip, hh', hs, cdHeaderTmpl, Spec.FastPath.le16]

theorem rect_enc_ne (r : Rect) : enc (rectMsg r) ≠ [] := by
  rw [rect_enc]
  simp [Rect.encode, Spec.FastPath.le16, encInt, leBytes]

theorem plainField (g : Bool) (n : String) (a v : Nat) (ts ms : List (String × Msg))
    (skip : List String) (ds : List (String × Nat)) (hv : v < 65536)
    (hn : skip.contains n = false) (hl : lookupSize ds n = none)
    (hrest : OKFields g ts ms skip ds) :
    OKFields g ((n, u16le a) :: ts) ((n, u16le v) :: ms) skip ds := by
  apply OKFields_step g n _ _ ts ms skip ds .none hn rfl
  · rw [hl]; exact OK_u16 _ _ _ _ hv
  · exact hrest

theorem cdHeader_ok (n : Nat) (h : n < 65536) : OK false cdHeaderTmpl (cdHeaderOf n) := by
  apply OK_comp
  apply OKFields_step _ _ _ _ _ _ _ _ .none (by rfl) rfl
  · exact OK_check _ _ (by simp [OptsOk, u16le]) (OK_u16 _ _ _ _ (by decide))
  apply plainField _ _ _ _ _ _ _ _ h (by rfl) (by rfl)
  apply plainField _ _ _ _ _ _ _ _ (by decide) (by rfl) (by rfl)
  apply plainField _ _ _ _ _ _ _ _ (by decide) (by rfl) (by rfl)
  exact OKFields_nil _ _ _

theorem rect_ok (g : Bool) (r : Rect) (h : RectInRange r) : OK g bitmapDataTmpl (rectMsg r) := by
  obtain ⟨h1, h2, h3, h4, h5, h6, h7, h8, h9⟩ := h
  have hl : r.data.length < 65536 := by omega
  unfold bitmapDataTmpl rectMsg
  apply OK_comp
  apply plainField _ _ _ _ _ _ _ _ h1 (by rfl) (by rfl)
  apply plainField _ _ _ _ _ _ _ _ h2 (by rfl) (by rfl)
  apply plainField _ _ _ _ _ _ _ _ h3 (by rfl) (by rfl)
  apply plainField _ _ _ _ _ _ _ _ h4 (by rfl) (by rfl)
  apply plainField _ _ _ _ _ _ _ _ h5 (by rfl) (by rfl)
  apply plainField _ _ _ _ _ _ _ _ h6 (by rfl) (by rfl)
  apply plainField _ _ _ _ _ _ _ _ h7 (by rfl) (by rfl)
  by_cases hh : r.hasHdr = true
  · have hb : r.flags &&& 1 ≠ 0 ∧ r.flags &&& 1024 = 0 := by simpa [Rect.hasHdr] using hh
    have ho : options (.dyn (u16le r.flags) (.skipIf "bitmapComprHdr" 0x0001 0x0400)) = .ok .none := by
      simp only [options, evalOpt, intVal, u16le]
      have : ¬ (r.flags &&& 1 = 0 ∨ r.flags &&& 1024 ≠ 0) := by
        intro h; rcases h with h | h
        · exact hb.1 h
        · exact h hb.2
      rw [if_neg this]
    simp only [hh, if_true]
    apply OKFields_step _ _ _ _ _ _ _ _ .none (by rfl) ho
    · exact OK_dyn _ _ _ _ (OK_u16 _ _ _ _ h8)
    apply OKFields_step _ _ _ _ _ _ _ _ (.size "bitmapDataStream" (r.data.length + 8)) (by rfl)
      (by simp [options, evalOpt, intVal, u16le])
    · exact OK_dyn _ _ _ _ (OK_u16 _ _ _ _ h9)
    apply OKFields_step _ _ _ _ _ _ _ _ (.size "bitmapDataStream" r.data.length) (by rfl)
      (by simp [options, evalOpt, compFields, cdHeaderOf, lookupField, intVal, u16le])
    · exact OK_dyn _ _ _ _ (cdHeader_ok _ hl)
    apply OKFields_step _ _ _ _ _ _ _ _ .none (by rfl) rfl
    · simp only [lookupSize, addSize, if_true]
      exact ⟨by simp [enc, blob], OK_bytes_greedy _⟩
    exact OKFields_nil _ _ _
  · have hh' : r.hasHdr = false := by simpa using hh
    have ho : options (.dyn (u16le r.flags) (.skipIf "bitmapComprHdr" 0x0001 0x0400)) = .ok (.skip "bitmapComprHdr") := by
      simp only [options, evalOpt, intVal, u16le]
      have h0 : ¬ (r.flags &&& 1 ≠ 0 ∧ r.flags &&& 1024 = 0) := by simpa [Rect.hasHdr] using hh'
      have : (r.flags &&& 1 = 0 ∨ r.flags &&& 1024 ≠ 0) := by
        by_cases h : r.flags &&& 1 = 0
        · exact Or.inl h
        · exact Or.inr (fun hb => h0 ⟨h, hb⟩)
      rw [if_pos this]
    simp only [hh', Bool.false_eq_true, if_false]
    apply OKFields_step _ _ _ _ _ _ _ _ (.skip "bitmapComprHdr") (by rfl) ho
    · exact OK_dyn _ _ _ _ (OK_u16 _ _ _ _ h8)
    apply OKFields_step _ _ _ _ _ _ _ _ (.size "bitmapDataStream" r.data.length) (by rfl)
      (by simp [options, evalOpt, intVal, u16le])
    · exact OK_dyn _ _ _ _ (OK_u16 _ _ _ _ hl)
    apply OKFields_skip _ _ _ _ _ _ _ (by rfl)
    apply OKFields_step _ _ _ _ _ _ _ _ .none (by rfl) rfl
    · simp only [lookupSize, addSize, if_true]
      exact ⟨by simp [enc, blob], OK_bytes_greedy _⟩
    exact OKFields_nil _ _ _

theorem OK_array (t : Msg) (items : List Msg) (h1 : read t [] = .err []) (h2 : OKItems t items) :
    OK true (.array (some t) []) (.array (some t) items) := by
  unfold OK
  exact ⟨rfl, rfl, h1, h2⟩

/-- the filled `ts_fp_update_bitmap()` -/
def bitmapUpdMsg (rects : List Rect) : Msg := .comp [
  ("header", .check (u16le 1)), ("numberRectangles", u16le rects.length),
  ("rectangles", .array (some bitmapDataTmpl) (rects.map rectMsg))]

theorem encList_rects (rects : List Rect) :
    encList (rects.map rectMsg) = (rects.map Rect.encode).flatten := by
  induction rects with
  | nil => simp [encList]
  | cons r rs ih => simp [encList, rect_enc, ih]

theorem bitmapUpd_enc (rects : List Rect) :
    enc (bitmapUpdMsg rects) = (Update.bitmap rects).body := by
  simp [bitmapUpdMsg, enc, encFields, options, u16le, addSkip, Update.body, Spec.FastPath.le16, encList_rects]

theorem okItems_rects (rects : List Rect) (h : ∀ r ∈ rects, RectInRange r) :
    OKItems bitmapDataTmpl (rects.map rectMsg) := by
  induction rects with
  | nil => simp [OKItems]
  | cons r rs ih =>
    simp only [List.map_cons, OKItems]
    exact ⟨rect_ok _ r (h r (by simp)), rect_enc_ne r, ih (fun x hx => h x (by simp [hx]))⟩

theorem read_comp_nil (n : String) (t : Msg) (fs : List (String × Msg)) (h : read t [] = .err []) :
    read (.comp ((n, t) :: fs)) [] = .err [] := by
  simp [read, readFields, readStep, lookupSize, h]

theorem read_bitmapDataTmpl_nil : read bitmapDataTmpl [] = .err [] := by
  unfold bitmapDataTmpl
  exact read_comp_nil _ _ _ (by simp [read, rdExact, u16le])

theorem bitmapUpd_ok (rects : List Rect) (h : ∀ r ∈ rects, RectInRange r) (hn : rects.length < 65536) :
    OK true fpUpdateBitmapTmpl (bitmapUpdMsg rects) := by
  unfold fpUpdateBitmapTmpl bitmapUpdMsg
  apply OK_comp
  apply OKFields_step _ _ _ _ _ _ _ _ .none (by rfl) rfl
  · exact OK_check _ _ (by simp [OptsOk, u16le]) (OK_u16 _ _ _ _ (by decide))
  apply plainField _ _ _ _ _ _ _ _ hn (by rfl) (by rfl)
  apply OKFields_step _ _ _ _ _ _ _ _ .none (by rfl) rfl
  · exact OK_array _ _ read_bitmapDataTmpl_nil (okItems_rects rects h)
  exact OKFields_nil _ _ _

theorem rectEvent_rectMsg (r : Rect) : rectEvent (rectMsg r) = .ok (toEv r) := by
  simp [rectEvent, rectMsg, castComp, unwrapVisit, castU16, castSlice, field, lookupField, u16le, blob, toEv,
    Outcome.bind]

theorem rectEvents_map (rects : List Rect) : rectEvents (rects.map rectMsg) = .ok (rects.map toEv) := by
  induction rects with
  | nil => simp [rectEvents]
  | cons r rs ih => simp [rectEvents, rectEvent_rectMsg, ih, Outcome.bind]

/-- the filled `ts_fp_update()` -/
def updMsg (u : Update) : Msg := .comp [
  ("updateHeader", .dyn (.u8 u.code) (.skipIf "compressionFlags" 0x20 0)),
  ("compressionFlags", .u8 0),
  ("size", .dyn (u16le u.body.length) (.size "updateData" 1 0 0)),
  ("updateData", blob u.body)]

theorem code_and20 : ∀ c, c < 16 → c &&& 0x20 = 0 := by decide +kernel
theorem code_and0f : ∀ c, c < 16 → c &&& 0xf = c := by decide +kernel

theorem upd_options (u : Update) (hc : u.code < 16) :
    options (.dyn (.u8 u.code) (.skipIf "compressionFlags" 0x20 0)) = .ok (.skip "compressionFlags") := by
  simp [options, evalOpt, intVal, code_and20 _ hc]

theorem upd_enc (u : Update) (hc : u.code < 16) : enc (updMsg u) = u.encode := by
  simp [updMsg, enc, encFields, code_and20 _ hc, addSkip, options, evalOpt, intVal, u16le, blob,
    Update.encode, Spec.FastPath.le16]

theorem upd_enc_ne (u : Update) (hc : u.code < 16) : enc (updMsg u) ≠ [] := by
  rw [upd_enc u hc]; simp [Update.encode]

theorem upd_ok (g : Bool) (u : Update) (hc : u.code < 16) (hb : u.body.length < 65536) :
    OK g fpUpdateTmpl (updMsg u) := by
  unfold fpUpdateTmpl updMsg
  apply OK_comp
  apply OKFields_step _ _ _ _ _ _ _ _ (.skip "compressionFlags") (by rfl) (upd_options u hc)
  · exact OK_dyn _ _ _ _ (OK_u8 _ _ _ (by omega))
  apply OKFields_skip _ _ _ _ _ _ _ (by rfl)
  apply OKFields_step _ _ _ _ _ _ _ _ (.size "updateData" u.body.length) (by rfl)
    (by simp [options, evalOpt, intVal, u16le])
  · exact OK_dyn _ _ _ _ (OK_u16 _ _ _ _ hb)
  apply OKFields_step _ _ _ _ _ _ _ _ .none (by rfl) rfl
  · simp only [lookupSize, addSize, if_true]
    exact ⟨by simp [enc, blob], OK_bytes_greedy _⟩
  exact OKFields_nil _ _ _

theorem read_fpUpdateTmpl_nil : read fpUpdateTmpl [] = .err [] := by
  unfold fpUpdateTmpl
  exact read_comp_nil _ _ _ (by simp [read, rdExact])

def UpdInRange : Update → Prop
  | .bitmap rects => (∀ r ∈ rects, RectInRange r) ∧ rects.length < 65536 ∧ (Update.bitmap rects).body.length < 65536
  | .other c d => c < 16 ∧ c ≠ 1 ∧ d.length < 65536

theorem upd_code_lt (u : Update) (h : UpdInRange u) : u.code < 16 := by
  cases u with
  | bitmap r => simp [Update.code]
  | other c d => exact h.1

theorem upd_body_lt (u : Update) (h : UpdInRange u) : u.body.length < 65536 := by
  cases u with
  | bitmap r => exact h.2.2
  | other c d => exact h.2.2

theorem encList_upds (us : List Update) (h : ∀ u ∈ us, UpdInRange u) :
    encList (us.map updMsg) = encodePdu us := by
  induction us with
  | nil => simp [encList, encodePdu]
  | cons u us ih =>
    have := ih (fun x hx => h x (by simp [hx]))
    simp [encList, encodePdu, upd_enc u (upd_code_lt u (h u (by simp)))] at this ⊢
    rw [this]

theorem okItems_upds (us : List Update) (h : ∀ u ∈ us, UpdInRange u) :
    OKItems fpUpdateTmpl (us.map updMsg) := by
  induction us with
  | nil => simp [OKItems]
  | cons u us ih =>
    simp only [List.map_cons, OKItems]
    have hu := h u (by simp)
    exact ⟨upd_ok _ u (upd_code_lt u hu) (upd_body_lt u hu), upd_enc_ne u (upd_code_lt u hu),
      ih (fun x hx => h x (by simp [hx]))⟩

/-- reading the whole PDU yields exactly the list of filled update records -/
theorem read_pdu (us : List Update) (h : ∀ u ∈ us, UpdInRange u) :
    read (.array (some fpUpdateTmpl) []) (encodePdu us) = .ok (.array (some fpUpdateTmpl) (us.map updMsg)) [] := by
  have hok : OK true (.array (some fpUpdateTmpl) []) (.array (some fpUpdateTmpl) (us.map updMsg)) :=
    OK_array _ _ read_fpUpdateTmpl_nil (okItems_upds us h)
  have := read_enc true _ _ [] hok (fun _ => rfl)
  simp only [enc, List.append_nil, encList_upds us h] at this
  exact this

end Rdp.Global
