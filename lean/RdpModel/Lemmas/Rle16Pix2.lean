import RdpModel.Lemmas.Rle16Orders
/-
  Per-pixel loops of the orders whose steps read input or carry state: colour image
  (two input bytes per pixel), dithered run (two pixels per count, `bicolour` toggling).
-/
namespace Rdp.Rle16
open Rdp Rdp.Spec.Bitmap

theorem Ready.of_geo {w h0 : Nat} {t t' : St} (g : GeoEq t t') (r : Ready w h0 t) : Ready w h0 t' :=
  ⟨g.inv2 r.inv2, by rw [g.x]; exact r.xlt⟩

/-- **A colour image run**: `n` pixels copied from the input -/
theorem ploop_image {inp : Input} {w h0 : Nat} (fom : UInt8) (hw : 0 < w) (n : Nat) :
    ∀ (G : Nat) {s : St} {D D' : List Pixel} {src src' : Bytes}, Inv2 w h0 s → s.count = n →
      toNats (flat w h0 s) = D → D.length + n ≤ w * h0 → n < G → srcOf inp s.pos = src →
      copyPixels D n src = some (D', src') →
      ∃ s', ploop inp 4 fom w G s = .ok s' ∧ Inv2 w h0 s' ∧ toNats (flat w h0 s') = D' ∧
        srcOf inp s'.pos = src' ∧ s'.insertmix = s.insertmix ∧ s'.mix = s.mix ∧ s'.bicolour = s.bicolour ∧
        s'.lastop = s.lastop ∧ s'.count = 0 ∧ (0 < s.x ∨ 0 < n → 0 < s'.x) := by
  induction n with
  | zero =>
    intro G s D D' src src' h hc hD _ hG hs hcp
    cases G with
    | zero => omega
    | succ G =>
      simp only [copyPixels, Option.some.injEq, Prod.mk.injEq] at hcp
      refine ⟨s, ?_, h, by rw [← hcp.1]; exact hD, by rw [← hcp.2]; exact hs, rfl, rfl, rfl, rfl, hc, ?_⟩
      · unfold ploop; simp [hc]
      · intro hx; rcases hx with hx | hx
        · exact hx
        · omega
  | succ n ih =>
    intro G s D D' src src' h hc hD hroom hG hs hcp
    cases G with
    | zero => omega
    | succ G =>
      have hlen : D.length = emitted w h0 s := by rw [← hD, toNats_length, flat_length]
      obtain ⟨t, hnl, rt, hft, het, hsc, hout⟩ := newline_ready h hw (by omega)
      obtain ⟨p1, p2, p3, p4, p5, p6, p7, p8, p9, p10⟩ := hsc
      -- the pixel read from the input
      simp only [copyPixels] at hcp
      cases hrp : readPixel src with
      | none => rw [hrp] at hcp; cases hcp
      | some ar =>
        obtain ⟨a, src2⟩ := ar
        rw [hrp] at hcp
        simp only at hcp
        obtain ⟨v, hv1, hv2, hv3⟩ := readPixel_src (s := t) (by rw [p1]; exact hs) hrp
        let tr : St := { t with pos := t.pos + 2 }
        have gr : GeoEq t tr := ⟨rfl, rfl, rfl, rfl, rfl⟩
        have rtr : Ready w h0 tr := Ready.of_geo gr rt
        let t1 : St := { tr with out := tr.out.setIfInBounds (tr.height * w + tr.x) v, count := tr.count - 1, x := tr.x + 1 }
        have hstep : exprStep inp 4 fom t = .ok t1 := by
          have hne : ¬ tr.count = 0 := by simp only [tr]; omega
          unfold exprStep expr
          simp only [hv1, Outcome.bind_ok]
          show (put tr v).bind _ = _
          rw [put_ready rtr]
          simp only [Outcome.bind_ok]
          rw [if_neg (by simpa using hne)]
        have h1 : Inv2 w h0 t1 := rtr.advance rfl rfl rfl (by simp [t1]) rfl
        have hf1 : flat w h0 t1 = flat w h0 tr ++ [v] := flat_put rtr _ rfl rfl rfl
        have hD1 : toNats (flat w h0 t1) = D ++ [a] := by
          rw [hf1, toNats_append, gr.flat, hft, hD]; simp [toNats, hv2]
        obtain ⟨s', hs', hi', hf', q1, q2, q3, q4, q5, q6, q7⟩ :=
          ih G (s := t1) (D := D ++ [a]) h1 (by simp [t1, tr]; omega) hD1
            (by simp only [List.length_append, List.length_cons, List.length_nil]; omega) (by omega)
            (by simp only [t1, tr]; exact hv3) hcp
        refine ⟨s', ?_, hi', hf', q1, by rw [q2]; exact p2, by rw [q3]; exact p5, by rw [q4]; exact p8,
          by rw [q5]; exact p10, q6, fun _ => q7 (Or.inl (by simp [t1, tr]))⟩
        unfold ploop pstep
        simp only [show s.count > 0 by omega, if_true, hnl, Outcome.bind_ok, hstep]
        exact hs'

/-- **A dithered run**: `n` times the pair `c1`, `c2` -/
theorem ploop_dither {inp : Input} {w h0 : Nat} (fom : UInt8) (hw : 0 < w) (n : Nat) :
    ∀ (G : Nat) {s : St} {D : List Pixel}, Inv2 w h0 s → s.count = n → s.bicolour = false → n + 1 < 2 ^ 32 →
      toNats (flat w h0 s) = D → D.length + 2 * n ≤ w * h0 → 2 * n < G →
      ∃ s', ploop inp 8 fom w G s = .ok s' ∧ Inv2 w h0 s' ∧
        toNats (flat w h0 s') = D ++ (List.replicate n [s.c1.toNat, s.c2.toNat]).flatten ∧
        s'.pos = s.pos ∧ s'.insertmix = s.insertmix ∧ s'.mix = s.mix ∧ s'.bicolour = false ∧
        s'.lastop = s.lastop ∧ s'.count = 0 ∧ (0 < s.x ∨ 0 < n → 0 < s'.x) := by
  induction n with
  | zero =>
    intro G s D h hc hb _ hD _ hG
    cases G with
    | zero => omega
    | succ G =>
      refine ⟨s, ?_, h, by simp [hD], rfl, rfl, rfl, hb, rfl, hc, ?_⟩
      · unfold ploop; simp [hc]
      · intro hx; rcases hx with hx | hx
        · exact hx
        · omega
  | succ n ih =>
    intro G s D h hc hb hn hD hroom hG
    cases G with
    | zero => omega
    | succ G =>
    cases G with
    | zero => omega
    | succ G =>
      have hlen : D.length = emitted w h0 s := by rw [← hD, toNats_length, flat_length]
      -- first pixel of the pair: c1, the counter stays, bicolour is set
      obtain ⟨t, hnl, rt, hft, het, hsc, hout⟩ := newline_ready h hw (by omega)
      obtain ⟨p1, p2, p3, p4, p5, p6, p7, p8, p9, p10⟩ := hsc
      let t1 : St := { t with out := t.out.setIfInBounds (t.height * w + t.x) t.c1, bicolour := true, x := t.x + 1 }
      have hstep1 : exprStep inp 8 fom t = .ok t1 := by
        have hb' : t.bicolour = false := by rw [p8]; exact hb
        have hc' : ¬ (t.count + 1 ≥ 2 ^ 32) := by rw [p9, hc]; omega
        unfold exprStep expr
        simp only [hb', Bool.false_eq_true, if_false, put_ready rt, Outcome.bind_ok, hc']
        simp [t1]
      have h1 : Inv2 w h0 t1 := rt.advance rfl rfl rfl (by simp [t1]) rfl
      have hf1 : flat w h0 t1 = flat w h0 t ++ [t.c1] := flat_put rt _ rfl rfl rfl
      have he1 : emitted w h0 t1 = emitted w h0 s + 1 := by
        have := congrArg List.length hf1
        simp only [flat_length, List.length_append, List.length_cons, List.length_nil] at this
        rw [this, het]
      -- second pixel: c2, the counter drops, bicolour is cleared
      obtain ⟨u, hnl2, ru, hfu, heu, hsc2, hout2⟩ := newline_ready h1 hw (by omega)
      obtain ⟨r1, r2, r3, r4, r5, r6, r7, r8, r9, r10⟩ := hsc2
      let u1 : St := { u with out := u.out.setIfInBounds (u.height * w + u.x) u.c2, bicolour := false, count := u.count - 1, x := u.x + 1 }
      have hstep2 : exprStep inp 8 fom u = .ok u1 := by
        have hb' : u.bicolour = true := by rw [r8]
        have hc' : ¬ u.count = 0 := by rw [r9]; simp only [t1]; rw [p9, hc]; omega
        unfold exprStep expr
        simp only [hb', if_true, put_ready ru, Outcome.bind_ok, hc', if_false]
        rfl
      have h2 : Inv2 w h0 u1 := ru.advance rfl rfl rfl (by simp [u1]) rfl
      have hf2 : flat w h0 u1 = flat w h0 u ++ [u.c2] := flat_put ru _ rfl rfl rfl
      have hD2 : toNats (flat w h0 u1) = D ++ [s.c1.toNat, s.c2.toNat] := by
        rw [hf2, toNats_append, hfu, hf1, toNats_append, hft, hD]
        have e1 : t.c1 = s.c1 := p3
        have e2 : u.c2 = s.c2 := by rw [r4]; simp only [t1]; exact p4
        simp [toNats, e1, e2]
      have hcnt : u1.count = n := by simp only [u1]; rw [r9]; simp only [t1]; rw [p9, hc]; omega
      obtain ⟨s', hs', hi', hf', q1, q2, q3, q4, q5, q6, q7⟩ :=
        ih G (s := u1) (D := D ++ [s.c1.toNat, s.c2.toNat]) h2 hcnt rfl (by omega) hD2
          (by simp only [List.length_append, List.length_cons, List.length_nil]; omega) (by omega)
      have ec1 : u1.c1 = s.c1 := by simp only [u1]; rw [r3]; simp only [t1]; exact p3
      have ec2 : u1.c2 = s.c2 := by simp only [u1]; rw [r4]; simp only [t1]; exact p4
      refine ⟨s', ?_, hi', ?_, ?_, ?_, ?_, q4, ?_, q6, fun _ => q7 (Or.inl (by simp [u1]))⟩
      · have hcs : s.count > 0 := by omega
        have hct1 : t1.count > 0 := by simp only [t1]; rw [p9]; omega
        unfold ploop pstep
        simp only [hcs, if_true, hnl, Outcome.bind_ok, hstep1]
        unfold ploop pstep
        simp only [hct1, if_true, hnl2, Outcome.bind_ok, hstep2]
        exact hs'
      · rw [hf', ec1, ec2, List.replicate_succ, List.flatten_cons, List.append_assoc]
      · rw [q1]; simp only [u1]; rw [r1]; simp only [t1]; exact p1
      · rw [q2]; simp only [u1]; rw [r2]; simp only [t1]; exact p2
      · rw [q3]; simp only [u1]; rw [r5]; simp only [t1]; exact p5
      · rw [q5]; simp only [u1]; rw [r10]; simp only [t1]; exact p10

end Rdp.Rle16
