import RdpModel.Lemmas.Rle16Hdr
/-
  Simulation of the reference decoder (Spec/Bitmap.lean, `stepOrder`) by the port
  (Codec/Rle16.lean, `order`), one order at a time, for streams in which no order crosses
  the end of the first scanline.
-/
namespace Rdp.Rle16
open Rdp Rdp.Spec.Bitmap

/-! ### lists of pixels: `UInt16` on the port's side, `Nat` in the reference decoder -/

def toNats (l : List UInt16) : List Nat := l.map UInt16.toNat

@[simp] theorem toNats_length (l : List UInt16) : (toNats l).length = l.length := by simp [toNats]
@[simp] theorem toNats_append (a b : List UInt16) : toNats (a ++ b) = toNats a ++ toNats b := by simp [toNats]

theorem toNats_getD (l : List UInt16) (i : Nat) : (toNats l).getD i 0 = (l.getD i 0).toNat := by
  unfold toNats
  rw [List.getD_eq_getElem?_getD, List.getD_eq_getElem?_getD, List.getElem?_map]
  cases l[i]? <;> rfl

/-- pixel-by-pixel growth on both sides -/
theorem growN_writeN (L : List UInt16) (n : Nat) (f : List UInt16 → UInt16) (g : List Pixel → Pixel)
    (hfg : ∀ L' : List UInt16, L.length ≤ L'.length → L'.length < L.length + n → (f L').toNat = g (toNats L')) :
    toNats (growN L n f) = writeN (toNats L) n g := by
  induction n generalizing L with
  | zero => rfl
  | succ k ih =>
    unfold growN writeN
    rw [ih (L ++ [f L])]
    · rw [toNats_append]
      have : toNats [f L] = [g (toNats L)] := by
        simp only [toNats, List.map_cons, List.map_nil]
        rw [hfg L (Nat.le_refl _) (by omega)]; rfl
      rw [this]
    · intro L' h1 h2
      simp only [List.length_append, List.length_cons, List.length_nil] at h1 h2
      exact hfg L' (by omega) (by omega)

theorem writeN_length (d : List Pixel) (n : Nat) (f : List Pixel → Pixel) : (writeN d n f).length = d.length + n := by
  induction n generalizing d with
  | zero => rfl
  | succ k ih => unfold writeN; rw [ih]; simp; omega

theorem growN_const {α : Type} (L : List α) (n : Nat) (v : α) : growN L n (fun _ => v) = L ++ List.replicate n v := by
  induction n generalizing L with
  | zero => simp [growN]
  | succ k ih => unfold growN; rw [ih, List.replicate_succ, List.append_assoc]; rfl

/-! ### the simulation relation at order boundaries -/

structure Rel (inp : Input) (w h0 : Nat) (s : St) (d : DState) (src : Bytes) : Prop where
  inv : Inv2 w h0 s
  xpos : 0 < s.x
  bic : s.bicolour = false
  imx : s.insertmix = false
  dest : toNats (flat w h0 s) = d.dest
  fg : s.mix.toNat = d.fgPel
  src : srcOf inp s.pos = src
  ins : d.insertFg = true ↔ s.lastop = 0
  fl1 : d.firstLine = true → d.dest.length ≤ w
  fl0 : d.firstLine = false → w < d.dest.length
  insPos : d.insertFg = true → 0 < d.dest.length

/-- the port's `x == width && prevline == None` test, in stream terms: exactly one full
    scanline has been written, or nothing at all -/
theorem Rel.atLineEnd {inp : Input} {w h0 : Nat} {s : St} {d : DState} {src : Bytes} (r : Rel inp w h0 s d src)
    (hw : 0 < w) : (s.x = w ∧ s.prev = none) ↔ (d.dest.length = w ∨ d.dest.length = 0) := by
  have hlen : d.dest.length = emitted w h0 s := by rw [← r.dest, toNats_length, flat_length]
  rw [hlen]
  have hi := r.inv.inv
  have hx := r.xpos
  constructor
  · intro ⟨hxw, hp⟩
    cases hl : s.line with
    | none =>
      obtain ⟨e1, e2⟩ := r.inv.start hl
      right; unfold emitted; rw [e1, e2]; simp
    | some l =>
      have := r.inv.first hp (by rw [hl]; simp)
      left; unfold emitted; rw [hxw]
      have : h0 - s.height = 1 := by omega
      rw [this]; omega
  · intro h
    cases hl : s.line with
    | none =>
      obtain ⟨e1, e2⟩ := r.inv.start hl
      exact ⟨e2, hi.lineNone hl⟩
    | some l =>
      obtain ⟨_, hlt⟩ := hi.lineSome l hl
      have hxle := hi.xle
      obtain ⟨k, hk⟩ : ∃ k, h0 - s.height = k + 1 := ⟨h0 - s.height - 1, by omega⟩
      unfold emitted at h
      rw [hk, Nat.add_mul, Nat.one_mul] at h
      rcases h with h | h
      · -- k * w + w + x - w = w  ⇒  k = 0 and x = w (x > 0)
        have hk0 : k = 0 := by
          rcases Nat.eq_zero_or_pos k with hz | hp
          · exact hz
          · have : w ≤ k * w := by
              calc w = 1 * w := (Nat.one_mul w).symm
                _ ≤ k * w := Nat.mul_le_mul_right w hp
            omega
        subst hk0
        simp only [Nat.zero_mul, Nat.zero_add] at h
        refine ⟨by omega, ?_⟩
        cases hp : s.prev with
        | none => rfl
        | some e => obtain ⟨_, h2⟩ := hi.prevSome e hp; omega
      · omega


/-! ### the reference decoder's order step, taken apart -/

/-- the state an order starts from: leaving the first scanline is noticed here -/
def resetFirst (w : Nat) (s : DState) : DState :=
  if s.firstLine ∧ s.dest.length ≥ w then { s with firstLine := false, insertFg := false } else s

/-- what an order of kind `k` with run length `run` does -/
def orderBody (w : Nat) (s : DState) (k : Order) (run : Nat) (src : Bytes) : Option (DState × Bytes) :=
  let firstLine := s.firstLine
  let insertFg := s.insertFg
  match k with
  | .bgRun =>
    let d1 := if insertFg then
        s.dest ++ [if firstLine then s.fgPel else (abovePel s.dest w) ^^^ s.fgPel]
      else s.dest
    let run' := if insertFg then run - 1 else run
    let d2 := writeN d1 run' fun d => if firstLine then BLACK else abovePel d w
    some ({ s with dest := d2, insertFg := true }, src)
  | .fgRun set =>
    (if set then readPixel src else some (s.fgPel, src)).bind fun (fg, src) =>
      some ({ s with dest := writeN s.dest run fun d => if firstLine then fg else (abovePel d w) ^^^ fg,
                     fgPel := fg, insertFg := false }, src)
  | .ditheredRun =>
    (readPixel src).bind fun (a, src) => (readPixel src).bind fun (b, src) =>
      some ({ s with dest := s.dest ++ (List.replicate run [a, b]).flatten, insertFg := false }, src)
  | .colorRun =>
    (readPixel src).bind fun (a, src) =>
      some ({ s with dest := s.dest ++ List.replicate run a, insertFg := false }, src)
  | .fgbgImage set =>
    (if set then readPixel src else some (s.fgPel, src)).bind fun (fg, src) =>
      (fgbgBytes s.dest w firstLine fg (run + 1) run src).bind fun (d, src) =>
        some ({ s with dest := d, fgPel := fg, insertFg := false }, src)
  | .colorImage =>
    (copyPixels s.dest run src).bind fun (d, src) => some ({ s with dest := d, insertFg := false }, src)
  | .special mask =>
    some ({ s with dest := writeFgBg s.dest w firstLine mask s.fgPel 8 0, insertFg := false }, src)
  | .white => some ({ s with dest := s.dest ++ [WHITE], insertFg := false }, src)
  | .black => some ({ s with dest := s.dest ++ [BLACK], insertFg := false }, src)

theorem stepOrder_eq (w cap : Nat) (s : DState) (src : Bytes) :
    stepOrder w cap s src =
      match parseHeader src with
      | none => none
      | some (k, run, src) =>
        if run = 0 then none else
        if (resetFirst w s).dest.length + (if k = .ditheredRun then 2 * run else run) > cap then none else
        orderBody w (resetFirst w s) k run src := by
  unfold stepOrder resetFirst orderBody
  rfl

/-- taking a successful order step apart -/
theorem stepOrder_some {w cap : Nat} {d d' : DState} {b : UInt8} {rest src' : Bytes}
    (h : stepOrder w cap d (b :: rest) = some (d', src')) :
    ∃ k f run src1, specClass b.toNat = some (k, f) ∧ readLen f rest = some (run, src1) ∧ run ≠ 0 ∧
      (resetFirst w d).dest.length + (if k = .ditheredRun then 2 * run else run) ≤ cap ∧
      orderBody w (resetFirst w d) k run src1 = some (d', src') := by
  rw [stepOrder_eq, parseHeader_class] at h
  cases hc : specClass b.toNat with
  | none => rw [parseClass_none hc] at h; cases h
  | some kf =>
    obtain ⟨k, f⟩ := kf
    rw [parseClass_some hc] at h
    cases hl : readLen f rest with
    | none => rw [hl] at h; cases h
    | some nr =>
      obtain ⟨run, src1⟩ := nr
      rw [hl] at h
      simp only [Option.map_some] at h
      by_cases h0 : run = 0
      · simp [h0] at h
      · simp only [h0, if_false] at h
        by_cases hcap : (resetFirst w d).dest.length + (if k = .ditheredRun then 2 * run else run) > cap
        · simp [hcap] at h
        · simp only [hcap, if_false] at h
          exact ⟨k, f, run, src1, rfl, hl, h0, Nat.not_lt.mp hcap, h⟩

/-- run lengths fit the port's 32-bit counter with room to spare -/
theorem run_bound : ∀ c, c < 256 → ∀ k f, specClass c = some (k, f) → ∀ rest run src1,
    readLen f rest = some (run, src1) → run < 65536 := by
  have h : ∀ c, c < 256 → (match specClass c with
      | some (_, .fixed n) => decide (n < 65536)
      | some (_, .ext base) => decide (base ≤ 32)
      | _ => true) = true := by decide +kernel
  intro c hc k f hs rest run src1 hl
  have := h c hc
  rw [hs] at this
  cases f with
  | mega =>
    match rest, hl with
    | lo :: hi :: r, hl =>
      simp only [readLen, Option.some.injEq, Prod.mk.injEq] at hl
      have := lo.toNat_lt; have := hi.toNat_lt; omega
    | [], hl => simp [readLen] at hl
    | [_], hl => simp [readLen] at hl
  | fixed n => simp only [readLen, Option.some.injEq, Prod.mk.injEq] at hl; simp at this; omega
  | ext base =>
    cases rest with
    | nil => simp [readLen] at hl
    | cons n r =>
      simp only [readLen, Option.some.injEq, Prod.mk.injEq] at hl
      simp at this; have := n.toNat_lt; omega

/-! ### the port's order, taken apart -/

def stage12 (inp : Input) (s : St) : Outcome (Nat × Nat × St) :=
  (readU8 inp s).bind fun (code, s) =>
    (headerFirst inp code.toNat s).bind fun (op', count, offset, s) =>
    (headerCount inp op' count offset s).bind fun (count, s) => Outcome.ok (op', count, s)

theorem header_eq (inp : Input) (w : Nat) (s : St) :
    header inp w s = (stage12 inp s).bind fun (op, count, s) =>
      (headerSecond inp w op s).bind fun (op, fom, s) =>
        .ok (op, fom, { s with lastop := op, mixmask := 0, count := count }) := by
  unfold header stage12
  cases readU8 inp s with
  | ok a =>
    simp only [Outcome.bind_ok]
    cases headerFirst inp a.1.toNat a.2 with
    | ok b =>
      simp only [Outcome.bind_ok]
      cases headerCount inp b.1 b.2.1 b.2.2.1 b.2.2.2 with
      | ok c => simp only [Outcome.bind_ok]
      | err e => rfl
      | panic e => rfl
    | err e => rfl
    | panic e => rfl
  | err e => rfl
  | panic e => rfl


theorem order_of {inp : Input} {w h0 : Nat} {s s1 s2 : St} {op0 op run : Nat} {fom : UInt8}
    (h1 : stage12 inp s = .ok (op0, run, s1)) (h2 : headerSecond inp w op0 s1 = .ok (op, fom, s2)) :
    order inp w h0 s = pixels inp op fom w ((h0 + 1) * (w + 1) + 1) { s2 with lastop := op, mixmask := 0, count := run } := by
  unfold order
  rw [header_eq, h1]
  simp only [Outcome.bind_ok, h2]

/-- same output buffer and cursor -/
structure GeoEq (s t : St) : Prop where
  out : t.out = s.out
  x : t.x = s.x
  height : t.height = s.height
  line : t.line = s.line
  prev : t.prev = s.prev

theorem GeoEq.inv2 {w h0 : Nat} {s t : St} (g : GeoEq s t) (h : Inv2 w h0 s) : Inv2 w h0 t := by
  refine ⟨SameFrame.inv h.inv ⟨g.x, g.height, g.line, g.prev, by rw [g.out]⟩, ?_, ?_⟩
  · intro hl; rw [g.line] at hl; rw [g.height, g.x]; exact h.start hl
  · intro hp hl; rw [g.prev] at hp; rw [g.line] at hl; rw [g.height]; exact h.first hp hl

theorem GeoEq.flat {w h0 : Nat} {s t : St} (g : GeoEq s t) : flat w h0 t = flat w h0 s := by
  unfold Rle16.flat emitted; rw [g.out, g.x, g.height]

theorem mu_le {w h0 : Nat} {s : St} (h : Inv w h0 s) : mu w s + 1 < (h0 + 1) * (w + 1) + 1 := by
  have h1 := h.hle
  unfold mu
  have : s.height * (w + 1) ≤ h0 * (w + 1) := Nat.mul_le_mul_right _ h1
  rw [Nat.add_mul]; omega

/-- the first-scanline test of the reference decoder (made once per order) against the
    port's (made per pixel), when the order does not cross the end of the first scanline -/
theorem firstLine_iff {inp : Input} {w h0 : Nat} {s : St} {d : DState} {src : Bytes} (r : Rel inp w h0 s d src) :
    (resetFirst w d).firstLine = true ↔ d.dest.length < w := by
  unfold resetFirst
  by_cases hc : d.firstLine = true ∧ d.dest.length ≥ w
  · simp only [hc, and_self, if_true]
    constructor
    · intro h; cases h
    · intro h; omega
  · simp only [hc, if_false]
    constructor
    · intro h
      rcases Nat.lt_or_ge d.dest.length w with hlt | hge
      · exact hlt
      · exact absurd ⟨h, hge⟩ hc
    · intro h
      cases hf : d.firstLine with
      | true => rfl
      | false => have := r.fl0 hf; omega

theorem resetFirst_dest (w : Nat) (d : DState) : (resetFirst w d).dest = d.dest := by
  unfold resetFirst; split <;> rfl
theorem resetFirst_fg (w : Nat) (d : DState) : (resetFirst w d).fgPel = d.fgPel := by
  unfold resetFirst; split <;> rfl

/-- a run of a simple order, in the reference decoder's terms (per-pixel loop) -/
theorem ploop_sim {inp : Input} {w h0 : Nat} {s2 : St} {D : List Pixel} (hw : 0 < w) (hi2 : Inv2 w h0 s2)
    (hD : toNats (flat w h0 s2) = D) {op run : Nat} (fom : UInt8) (hop : simpleOp op) (hcnt : s2.count = run)
    (hroom : D.length + run ≤ w * h0) (gp : List Pixel → Pixel)
    (hg : ∀ L' : List UInt16, D.length ≤ L'.length → L'.length < D.length + run →
      (simpleVal op s2.mix s2.c2 w L').toNat = gp (toNats L')) :
    ∃ s', ploop inp op fom w (pmu w s2 + 1) s2 = .ok s' ∧ Inv2 w h0 s' ∧
      toNats (flat w h0 s') = writeN D run gp ∧ s'.pos = s2.pos ∧ s'.insertmix = s2.insertmix ∧
      s'.mix = s2.mix ∧ s'.bicolour = s2.bicolour ∧ s'.lastop = s2.lastop ∧ (0 < s2.x ∨ 0 < run → 0 < s'.x) := by
  have hlen : D.length = emitted w h0 s2 := by rw [← hD, toNats_length, flat_length]
  have hpm := emitted_pmu hi2
  obtain ⟨s', hs', hi', hf', q1, q2, q3, q4, q5, q6, q7, q8, q9, q10, q11⟩ :=
    ploop_simple inp op fom hw hop run (pmu w s2 + 1) hi2 hcnt (by omega) (by omega)
  refine ⟨s', hs', hi', ?_, q1, q2, q5, q8, q10, q11⟩
  rw [hf', growN_writeN (flat w h0 s2) run _ gp, hD]
  intro L' h1 h2
  have : (flat w h0 s2).length = D.length := by rw [← hD, toNats_length]
  exact hg L' (by omega) (by omega)

/-- the same through the port's own pixel loop -/
theorem pixels_sim {inp : Input} {w h0 : Nat} {s2 : St} {D : List Pixel} (hw : 0 < w) (hi2 : Inv2 w h0 s2)
    (hD : toNats (flat w h0 s2) = D) {op run : Nat} (fom : UInt8) (hop : simpleOp op) (hcnt : s2.count = run)
    (hrun : run < 65536) (hroom : D.length + run ≤ w * h0) (hins : op = 0 → s2.insertmix = false)
    (gp : List Pixel → Pixel)
    (hg : ∀ L' : List UInt16, D.length ≤ L'.length → L'.length < D.length + run →
      (simpleVal op s2.mix s2.c2 w L').toNat = gp (toNats L')) :
    ∃ s', pixels inp op fom w ((h0 + 1) * (w + 1) + 1) s2 = .ok s' ∧ Inv2 w h0 s' ∧
      toNats (flat w h0 s') = writeN D run gp ∧ s'.pos = s2.pos ∧ s'.insertmix = s2.insertmix ∧
      s'.mix = s2.mix ∧ s'.bicolour = s2.bicolour ∧ s'.lastop = s2.lastop ∧ (0 < s2.x ∨ 0 < run → 0 < s'.x) := by
  have hv : validOp op = true := by
    rcases hop with rfl | rfl | rfl | rfl | rfl <;> decide
  rw [pixels_eq_ploop inp op fom hw hv _ (pmu w s2 + 1) hi2.inv hins (by omega) (mu_le hi2.inv) (by omega)]
  exact ploop_sim hw hi2 hD fom hop hcnt hroom gp hg

/-- agreement of the per-pixel values of the port with the per-order functions of the
    reference decoder, for a run that stays on one side of the end of the first scanline -/
theorem simpleVal_fill (mix c2 : UInt16) (w : Nat) (fl : Bool) (len run : Nat)
    (hfl : fl = true ↔ len < w) (hnc : ¬ (len < w ∧ w < len + run)) (L' : List UInt16)
    (h1 : len ≤ L'.length) (h2 : L'.length < len + run) :
    (simpleVal 0 mix c2 w L').toNat = (if fl then BLACK else abovePel (toNats L') w) := by
  unfold simpleVal abovePel
  simp only [if_true, toNats_length, toNats_getD]
  by_cases hl : len < w
  · have : L'.length < w := by omega
    simp [hfl.mpr hl, this, BLACK]
  · have : ¬ L'.length < w := by omega
    have hf : fl = false := by
      cases fl with
      | false => rfl
      | true => exact absurd (hfl.mp rfl) hl
    simp [hf, this]

theorem simpleVal_mix (mix c2 : UInt16) (w : Nat) (fl : Bool) (len run : Nat)
    (hfl : fl = true ↔ len < w) (hnc : ¬ (len < w ∧ w < len + run)) (L' : List UInt16)
    (h1 : len ≤ L'.length) (h2 : L'.length < len + run) :
    (simpleVal 1 mix c2 w L').toNat = (if fl then mix.toNat else abovePel (toNats L') w ^^^ mix.toNat) := by
  unfold simpleVal abovePel
  simp only [show ¬ (1 = 0) by decide, if_false, if_true, toNats_length, toNats_getD]
  by_cases hl : len < w
  · have : L'.length < w := by omega
    simp [hfl.mpr hl, this]
  · have : ¬ L'.length < w := by omega
    have hf : fl = false := by
      cases fl with
      | false => rfl
      | true => exact absurd (hfl.mp rfl) hl
    simp [hf, this, UInt16.toNat_xor]

end Rdp.Rle16
