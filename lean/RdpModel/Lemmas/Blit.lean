import RdpModel.Gui.Blit
namespace Rdp.Gui

theorem copyRow_length (buf img : List UInt32) (src dst cnt : Nat)
    (hd : dst + cnt ≤ buf.length) (hs : src + cnt ≤ img.length) :
    (copyRow buf img src dst cnt).length = buf.length := by
  simp [copyRow]; omega

theorem copyRow_get (buf img : List UInt32) (src dst cnt : Nat)
    (hd : dst + cnt ≤ buf.length) (hs : src + cnt ≤ img.length) (j : Nat) :
    (copyRow buf img src dst cnt)[j]? =
      if dst ≤ j ∧ j < dst + cnt then img[src + (j - dst)]? else buf[j]? := by
  unfold copyRow
  have hl1 : (buf.take dst).length = dst := by simp; omega
  have hl2 : ((img.drop src).take cnt).length = cnt := by simp; omega
  by_cases h1 : j < dst
  · have : ¬ (dst ≤ j ∧ j < dst + cnt) := by omega
    rw [if_neg this, List.append_assoc, List.getElem?_append_left (by omega)]
    simp [List.getElem?_take, h1]
  · by_cases h2 : j < dst + cnt
    · have : dst ≤ j ∧ j < dst + cnt := by omega
      rw [if_pos this, List.append_assoc, List.getElem?_append_right (by omega), hl1,
        List.getElem?_append_left (by omega)]
      rw [List.getElem?_take]
      have : j - dst < cnt := by omega
      simp [this]
    · have : ¬ (dst ≤ j ∧ j < dst + cnt) := by omega
      rw [if_neg this, List.getElem?_append_right (by simp; omega)]
      simp only [List.length_append, hl1, hl2, List.getElem?_drop]
      congr 1; omega

/-- index arithmetic: a cell `(x, y)` with `x < w` lies in the segment of row `a` starting at
    column `l` with `c` cells (`l + c ≤ w`) iff `y = a` and `l ≤ x < l + c` -/
theorem row_range (w a y x l c : Nat) (hx : x < w) (hl : l + c ≤ w) :
    (a * w + l ≤ y * w + x ∧ y * w + x < a * w + l + c) ↔ (y = a ∧ l ≤ x ∧ x < l + c) := by
  constructor
  · intro ⟨h1, h2⟩
    have hya : y = a := by
      rcases Nat.lt_trichotomy y a with h | h | h
      · have := Nat.mul_le_mul_right w (show y + 1 ≤ a from h)
        rw [Nat.succ_mul] at this; omega
      · exact h
      · have := Nat.mul_le_mul_right w (show a + 1 ≤ y from h)
        rw [Nat.succ_mul] at this; omega
    subst hya
    omega
  · intro ⟨h, h1, h2⟩
    subst h; omega

def Bounded (imgLen bufLen : Nat) (c : Copy) : Prop :=
  c.src + c.cnt ≤ imgLen ∧ c.dst + c.cnt ≤ bufLen

theorem rows_safe (width : Nat) (g : Geo) (img : List UInt32) (hlr : g.left ≤ g.right)
    (i n : Nat) (s : St) (L : Nat) (hL : s.buf.length = L)
    (hlog : ∀ c ∈ s.log, Bounded img.length L c) :
    let r := rows width g img i n s
    r.1.buf.length = L ∧ (∀ c ∈ r.1.log, Bounded img.length L c) ∧ (∀ p, r.2 ≠ .panic p) := by
  induction n generalizing i s with
  | zero => simp [rows, hL]; exact hlog
  | succ n ih =>
    simp only [rows, checkedSub, hlr, if_true]
    split
    · simp [hL]; exact hlog
    · rename_i hc
      simp only [not_or, Nat.not_lt] at hc
      obtain ⟨_, hc2, _, hc4⟩ := hc
      apply ih
      · rw [copyRow_length _ _ _ _ _ hc2 hc4, hL]
      · intro c hcm
        simp only [List.mem_append, List.mem_singleton] at hcm
        rcases hcm with h | h
        · exact hlog c h
        · subst h; exact ⟨hc4, by rw [← hL]; exact hc2⟩

end Rdp.Gui

namespace Rdp.Gui

/-- all rows `i … i+n-1` pass the per-row bounds test -/
def RowsFit (width : Nat) (g : Geo) (imgLen L : Nat) (i n : Nat) : Prop :=
  ∀ r, i ≤ r → r < i + n →
    (r + g.top) * width + g.left + (g.right - g.left + 1) ≤ L ∧ r * g.bw + (g.right - g.left + 1) ≤ imgLen

theorem rows_exact (width : Nat) (g : Geo) (img : List UInt32) (hlr : g.left ≤ g.right)
    (hrw : g.right < width)
    (i n : Nat) (s : St) (hfit : RowsFit width g img.length s.buf.length i n) :
    (rows width g img i n s).2 = .ok () ∧
    ∀ y x, x < width →
      (rows width g img i n s).1.buf[y * width + x]? =
        if (i + g.top ≤ y ∧ y < i + n + g.top) ∧ g.left ≤ x ∧ x ≤ g.right
        then img[(y - g.top) * g.bw + (x - g.left)]? else s.buf[y * width + x]? := by
  induction n generalizing i s with
  | zero =>
    refine ⟨by simp [rows], fun y x _ => ?_⟩
    have : ¬ ((i + g.top ≤ y ∧ y < i + 0 + g.top) ∧ g.left ≤ x ∧ x ≤ g.right) := by omega
    rw [if_neg this]; simp [rows]
  | succ n ih =>
    obtain ⟨hf1, hf2⟩ := hfit i (Nat.le_refl _) (by omega)
    simp only [rows, checkedSub, hlr, if_true]
    have hc : ¬ ((i + g.top) * width + g.left > s.buf.length ∨
        (i + g.top) * width + g.left + (g.right - g.left + 1) > s.buf.length ∨
        i * g.bw > img.length ∨ i * g.bw + (g.right - g.left + 1) > img.length) := by omega
    rw [if_neg hc]
    have hlen := copyRow_length s.buf img (i * g.bw) ((i + g.top) * width + g.left) (g.right - g.left + 1)
      (by omega) (by omega)
    have hfit' : RowsFit width g img.length
        (copyRow s.buf img (i * g.bw) ((i + g.top) * width + g.left) (g.right - g.left + 1)).length (i+1) n := by
      intro r hr1 hr2
      rw [hlen]
      exact hfit r (by omega) (by omega)
    obtain ⟨hok, hget⟩ := ih (i+1)
      ⟨copyRow s.buf img (i * g.bw) ((i + g.top) * width + g.left) (g.right - g.left + 1),
       s.log ++ [⟨i * g.bw, (i + g.top) * width + g.left, g.right - g.left + 1⟩]⟩ hfit'
    refine ⟨hok, fun y x hx => ?_⟩
    rw [hget y x hx]
    simp only
    rw [copyRow_get _ _ _ _ _ (by omega) (by omega)]
    have hrr := row_range width (i + g.top) y x g.left (g.right - g.left + 1) hx (by omega)
    by_cases hy : y = i + g.top
    · subst hy
      have h1 : ¬ ((i + 1 + g.top ≤ i + g.top ∧ i + g.top < i + 1 + n + g.top) ∧ g.left ≤ x ∧ x ≤ g.right) := by omega
      rw [if_neg h1]
      by_cases hxin : g.left ≤ x ∧ x ≤ g.right
      · have h2 : ((i + g.top) * width + g.left ≤ (i + g.top) * width + x ∧
            (i + g.top) * width + x < (i + g.top) * width + g.left + (g.right - g.left + 1)) := by omega
        have h3 : ((i + g.top ≤ i + g.top ∧ i + g.top < i + (n + 1) + g.top) ∧ g.left ≤ x ∧ x ≤ g.right) := by omega
        rw [if_pos h2, if_pos h3]
        congr 1
        have e1 : i + g.top - g.top = i := by omega
        rw [e1]; omega
      · have h2 : ¬ ((i + g.top) * width + g.left ≤ (i + g.top) * width + x ∧
            (i + g.top) * width + x < (i + g.top) * width + g.left + (g.right - g.left + 1)) := by omega
        have h3 : ¬ ((i + g.top ≤ i + g.top ∧ i + g.top < i + (n + 1) + g.top) ∧ g.left ≤ x ∧ x ≤ g.right) := by omega
        rw [if_neg h2, if_neg h3]
    · have h2 : ¬ ((i + g.top) * width + g.left ≤ y * width + x ∧
          y * width + x < (i + g.top) * width + g.left + (g.right - g.left + 1)) := by
        intro h; exact hy (hrr.mp h).1
      rw [if_neg h2]
      by_cases hc1 : (i + 1 + g.top ≤ y ∧ y < i + 1 + n + g.top) ∧ g.left ≤ x ∧ x ≤ g.right
      · have h3 : ((i + g.top ≤ y ∧ y < i + (n + 1) + g.top) ∧ g.left ≤ x ∧ x ≤ g.right) := by omega
        rw [if_pos hc1, if_pos h3]
      · have h3 : ¬ ((i + g.top ≤ y ∧ y < i + (n + 1) + g.top) ∧ g.left ≤ x ∧ x ≤ g.right) := by omega
        rw [if_neg hc1, if_neg h3]

end Rdp.Gui
