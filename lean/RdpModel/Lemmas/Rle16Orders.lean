import RdpModel.Lemmas.Rle16Sim
/-
  One order of the reference decoder simulated by one order of the port, kind by kind.
-/
namespace Rdp.Rle16
open Rdp Rdp.Spec.Bitmap

/-- the reference decoder's pending-foreground-pixel flag against the port's test
    `lastopcode == 0 && !(x == width && prevline == None)` -/
theorem insert_iff {inp : Input} {w h0 : Nat} {s : St} {d : DState} {src : Bytes} (r : Rel inp w h0 s d src)
    (hw : 0 < w) : (resetFirst w d).insertFg = true ↔ (s.lastop = 0 ∧ ¬ (s.x = w ∧ s.prev = none)) := by
  rw [r.atLineEnd hw]
  unfold resetFirst
  by_cases hc : d.firstLine = true ∧ d.dest.length ≥ w
  · simp only [hc, and_self, if_true]
    have := r.fl1 hc.1
    constructor
    · intro h; cases h
    · intro ⟨_, h2⟩; exact absurd (Or.inl (by omega)) h2
  · simp only [hc, if_false]
    constructor
    · intro h
      refine ⟨r.ins.mp h, ?_⟩
      have hp := r.insPos h
      intro hh
      rcases hh with hh | hh
      · cases hf : d.firstLine with
        | true => exact hc ⟨hf, by omega⟩
        | false => have := r.fl0 hf; omega
      · omega
    · intro ⟨h1, _⟩; exact r.ins.mpr h1

/-- common context of the per-kind lemmas -/
structure Ctx (inp : Input) (w h0 : Nat) (s : St) (d : DState) (src : Bytes) (k : Order) (run p1 : Nat)
    (src1 : Bytes) : Prop where
  rel : Rel inp w h0 s d src
  hw : 0 < w
  st : stage12 inp s = .ok (rawOp k, run, { s with pos := p1 })
  src1 : srcOf inp p1 = src1
  run0 : run ≠ 0
  runlt : run < 65536
  cap : d.dest.length + (if k = .ditheredRun then 2 * run else run) ≤ w * h0

theorem sim_bgRun {inp : Input} {w h0 : Nat} {s : St} {d d' : DState} {src src1 src' : Bytes} {run p1 : Nat}
    (c : Ctx inp w h0 s d src .bgRun run p1 src1)
    (hbody : orderBody w (resetFirst w d) .bgRun run src1 = some (d', src'))
    (hnc : ¬ (d.dest.length < w ∧ w < d'.dest.length)) :
    ∃ s', order inp w h0 s = .ok s' ∧ Rel inp w h0 s' d' src' := by
  have r := c.rel
  have hw := c.hw
  have hcap : d.dest.length + run ≤ w * h0 := by have := c.cap; simpa using this
  have hfl := firstLine_iff r
  have hins := insert_iff r hw
  -- the header
  have h2 : headerSecond inp w (rawOp .bgRun) { s with pos := p1 } = .ok (0, 0,
      if s.lastop = 0 ∧ ¬ (s.x = w ∧ s.prev = none) then { s with pos := p1, insertmix := true }
      else { s with pos := p1 }) := by
    unfold headerSecond rawOp; simp only [if_true]
  rw [order_of c.st h2]
  simp only [orderBody, Option.some.injEq, Prod.mk.injEq] at hbody
  obtain ⟨hd', hs'⟩ := hbody
  subst hs'
  have hlen' : d'.dest.length = d.dest.length + run := by
    rw [← hd']; simp only
    cases hib : (resetFirst w d).insertFg with
    | true =>
      simp only [if_true, writeN_length, List.length_append, List.length_cons, List.length_nil, resetFirst_dest]
      have := c.run0; omega
    | false => simp only [Bool.false_eq_true, if_false, writeN_length, resetFirst_dest]
  have hnc' : ¬ (d.dest.length < w ∧ w < d.dest.length + run) := by rw [← hlen']; exact hnc
  by_cases hi : (resetFirst w d).insertFg = true
  · -- a foreground pixel is inserted first
    have hcond := hins.mp hi
    simp only [hcond, not_false_eq_true, and_self, if_true]
    let s3 : St := { s with pos := p1, insertmix := true, lastop := 0, mixmask := 0, count := run }
    have g3 : GeoEq s s3 := ⟨rfl, rfl, rfl, rfl, rfl⟩
    have hi3 : Inv2 w h0 s3 := g3.inv2 r.inv
    have hlen : d.dest.length = emitted w h0 s3 := by rw [← r.dest, toNats_length, ← g3.flat, flat_length]
    have hrun1 : 1 ≤ run := Nat.pos_of_ne_zero c.run0
    obtain ⟨t, hnl, rt, hft, het, hsc, hout⟩ := newline_ready hi3 hw (by omega)
    obtain ⟨p1', p2', p3', p4', p5', p6', p7', p8', p9', p10'⟩ := hsc
    -- the inserted pixel
    let v0 : UInt16 := abv w (flat w h0 t) (fun v => v ^^^ t.mix) t.mix
    let t2 : St := { t with out := t.out.setIfInBounds (t.height * w + t.x) v0, insertmix := false, count := t.count - 1, x := t.x + 1 }
    have hi2 : Inv2 w h0 t2 := rt.advance rfl rfl rfl (by simp [t2]) rfl
    have hf2 : flat w h0 t2 = flat w h0 t ++ [v0] := flat_put rt _ rfl rfl rfl
    have hflat : flat w h0 t = flat w h0 s := by rw [hft, g3.flat]
    have hv0 : v0.toNat = (if (resetFirst w d).firstLine then d.fgPel else abovePel d.dest w ^^^ d.fgPel) := by
      have hl : (flat w h0 t).length = d.dest.length := by rw [hflat, ← r.dest, toNats_length]
      have hmix : t.mix = s.mix := p5'
      simp only [v0, abv, hl, hmix]
      by_cases hlw : d.dest.length < w
      · simp [hfl.mpr hlw, hlw, r.fg]
      · have hf : (resetFirst w d).firstLine = false := by
          cases hb : (resetFirst w d).firstLine with
          | false => rfl
          | true => exact absurd (hfl.mp hb) hlw
        simp only [hlw, if_false, hf, Bool.false_eq_true, UInt16.toNat_xor, r.fg]
        rw [abovePel, ← r.dest, toNats_getD, toNats_length, hflat]
    have hD2 : toNats (flat w h0 t2) = d.dest ++ [v0.toNat] := by
      rw [hf2, toNats_append, hflat, r.dest]; rfl
    have hpix : pixels inp 0 0 w ((h0 + 1) * (w + 1) + 1) s3 = ploop inp 0 0 w (pmu w t2 + 1) t2 := by
      have hc3 : s3.count > 0 := hrun1
      conv => lhs; unfold pixels
      simp only [hc3, if_true]
      unfold body
      rw [hnl]
      simp only [Outcome.bind_ok]
      have hv : validOp 0 = true := by decide
      have him : t.insertmix = true := p2'
      simp only [hv, not_true_eq_false, if_false, him, and_self, if_true, putAbove_ready rt, Outcome.bind_ok]
      rw [repeatM_eq_loop1 inp 0 0 hi2.inv (by simp [t2]; have : t.count = run := p9'; have := c.runlt; omega)]
      exact loop1_pixels inp 0 0 hw hv (pmu w t2 + 1) (w + 1) _ hi2.inv (fun _ => rfl)
        (by simp [t2]; have : t.count = run := p9'; have := c.runlt; omega) (by omega)
        (by have := mu_le hi2.inv; omega) (by omega)
    rw [hpix]
    have hcnt2 : t2.count = run - 1 := by simp [t2]; have : t.count = run := p9'; omega
    obtain ⟨s', hp, hi', hf', q1, q2, q3, q4, q5, q6⟩ := ploop_sim (inp := inp) hw hi2 hD2 0 (Or.inl rfl) hcnt2
      (by simp only [List.length_append, List.length_cons, List.length_nil]; omega)
      (fun D => if (resetFirst w d).firstLine then BLACK else abovePel D w)
      (by
        intro L' h1 h2'
        simp only [List.length_append, List.length_cons, List.length_nil] at h1 h2'
        exact simpleVal_fill t2.mix t2.c2 w _ d.dest.length run hfl hnc' L' (by omega) (by omega))
    refine ⟨s', hp, ?_⟩
    refine ⟨hi', q6 (Or.inl (by simp [t2])), by rw [q4]; simp only [t2]; rw [p8']; exact r.bic, by rw [q2], ?_, ?_, ?_, ?_, ?_, ?_, ?_⟩
    · rw [hf', ← hd']; simp only [hi, if_true, resetFirst_dest, resetFirst_fg, hv0]
    · rw [q3, ← hd']; simp only [t2, resetFirst_fg]; rw [p5']; exact r.fg
    · rw [q1]; simp only [t2]; rw [p1']; exact c.src1
    · rw [← hd', q5]; simp only [t2]; rw [p10']; constructor <;> intro _ <;> first | rfl | trivial
    · intro hfl1
      rw [← hd'] at hfl1; simp only at hfl1
      have := hfl.mp hfl1
      rw [hlen']; omega
    · intro hfl0
      rw [← hd'] at hfl0; simp only at hfl0
      have : ¬ d.dest.length < w := fun h => by rw [hfl.mpr h] at hfl0; cases hfl0
      rw [hlen']; omega
    · intro _; rw [hlen']; omega
  · have hcond : ¬ (s.lastop = 0 ∧ ¬ (s.x = w ∧ s.prev = none)) := fun h => hi (hins.mpr h)
    simp only [hcond, if_false]
    let s3 : St := { s with pos := p1, lastop := 0, mixmask := 0, count := run }
    have g : GeoEq s s3 := ⟨rfl, rfl, rfl, rfl, rfl⟩
    have hD : toNats (flat w h0 s3) = d.dest := by rw [g.flat]; exact r.dest
    obtain ⟨s', hp, hi', hf', q1, q2, q3, q4, q5, q6⟩ := pixels_sim (inp := inp) hw (g.inv2 r.inv) hD 0 (Or.inl rfl)
      (show s3.count = run from rfl) c.runlt hcap (fun _ => r.imx)
      (fun D => if (resetFirst w d).firstLine then BLACK else abovePel D w)
      (simpleVal_fill s3.mix s3.c2 w _ d.dest.length run hfl hnc')
    refine ⟨s', hp, ?_⟩
    have hi'' : (resetFirst w d).insertFg = false := by cases h : (resetFirst w d).insertFg <;> simp_all
    refine ⟨hi', q6 (Or.inr (Nat.pos_of_ne_zero c.run0)), by rw [q4]; exact r.bic, by rw [q2]; exact r.imx, ?_, ?_, ?_, ?_, ?_, ?_, ?_⟩
    · rw [hf', ← hd']; simp only [hi'', Bool.false_eq_true, if_false, resetFirst_dest]
    · rw [q3, ← hd']; simp only [resetFirst_fg]; exact r.fg
    · rw [q1]; exact c.src1
    · rw [← hd', q5]; exact ⟨fun _ => rfl, fun _ => rfl⟩
    · intro hfl1
      rw [← hd'] at hfl1; simp only at hfl1
      have := hfl.mp hfl1
      rw [hlen']; omega
    · intro hfl0
      rw [← hd'] at hfl0; simp only at hfl0
      have : ¬ d.dest.length < w := fun h => by rw [hfl.mpr h] at hfl0; cases hfl0
      rw [hlen']; have := c.run0; omega
    · intro _; rw [hlen']; have := c.run0; omega


/-- simple orders other than the background run: after the header has produced `s2`
    (same buffer and cursor as `s`), the run is `writeN` with the per-order function `gp` -/
theorem sim_simple_kind {inp : Input} {w h0 : Nat} {s s2 : St} {d d' : DState} {src src1 src' : Bytes} {k : Order}
    {run p1 op : Nat} {fom : UInt8} (c : Ctx inp w h0 s d src k run p1 src1) (hk : k ≠ .ditheredRun)
    (h2 : headerSecond inp w (rawOp k) { s with pos := p1 } = .ok (op, fom, s2)) (g : GeoEq s s2)
    (hop : simpleOp op) (hop0 : op ≠ 0) (hbic : s2.bicolour = false) (himx : s2.insertmix = false)
    (hsrc : srcOf inp s2.pos = src') (gp : List Pixel → Pixel)
    (hnc : ¬ (d.dest.length < w ∧ w < d.dest.length + run))
    (hd' : d' = { resetFirst w d with dest := writeN d.dest run gp, fgPel := s2.mix.toNat, insertFg := false })
    (hg : ∀ L' : List UInt16, d.dest.length ≤ L'.length → L'.length < d.dest.length + run →
      (simpleVal op s2.mix s2.c2 w L').toNat = gp (toNats L')) :
    ∃ s', order inp w h0 s = .ok s' ∧ Rel inp w h0 s' d' src' := by
  have r := c.rel
  have hw := c.hw
  have hcap : d.dest.length + run ≤ w * h0 := by have := c.cap; simpa [hk] using this
  have hfl := firstLine_iff r
  rw [order_of c.st h2]
  let s3 : St := { s2 with lastop := op, mixmask := 0, count := run }
  have g3 : GeoEq s s3 := ⟨g.out, g.x, g.height, g.line, g.prev⟩
  have hD : toNats (flat w h0 s3) = d.dest := by rw [g3.flat]; exact r.dest
  obtain ⟨s', hp, hi', hf', q1, q2, q3, q4, q5, q6⟩ := pixels_sim (inp := inp) hw (g3.inv2 r.inv) hD fom hop
    (show s3.count = run from rfl) c.runlt hcap (fun h => absurd h hop0) gp hg
  refine ⟨s', hp, ?_⟩
  have hlen' : d'.dest.length = d.dest.length + run := by rw [hd']; simp only [writeN_length]
  subst hd'
  refine ⟨hi', q6 (Or.inr (Nat.pos_of_ne_zero c.run0)), by rw [q4]; exact hbic, by rw [q2]; exact himx, ?_, ?_, ?_, ?_, ?_, ?_, ?_⟩
  · rw [hf']
  · rw [q3]
  · rw [q1]; exact hsrc
  · rw [q5]; simp only; constructor
    · intro h; cases h
    · intro h; exact absurd h hop0
  · intro hfl1
    simp only at hfl1
    have := hfl.mp hfl1
    simp only [writeN_length]
    omega
  · intro hfl0
    simp only at hfl0
    have : ¬ d.dest.length < w := fun h => by rw [hfl.mpr h] at hfl0; cases hfl0
    simp only [writeN_length]; have := c.run0; omega
  · intro h; cases h


theorem readPixel_src {inp : Input} {s : St} {src1 src2 : Bytes} {a : Pixel} (hs : srcOf inp s.pos = src1)
    (h : readPixel src1 = some (a, src2)) :
    ∃ v : UInt16, readU16 inp s = .ok (v, { s with pos := s.pos + 2 }) ∧ v.toNat = a ∧ srcOf inp (s.pos + 2) = src2 := by
  match src1, h with
  | lo :: hi :: r, h =>
    simp only [readPixel, Option.some.injEq, Prod.mk.injEq] at h
    obtain ⟨h1, h2⟩ := readU16_src hs
    exact ⟨_, h1, by rw [u16_toNat]; exact h.1, by rw [h2]; exact h.2⟩
  | [], h => simp [readPixel] at h
  | [_], h => simp [readPixel] at h

theorem sim_fgRun {inp : Input} {w h0 : Nat} {s : St} {d d' : DState} {src src1 src' : Bytes} {run p1 : Nat} {set : Bool}
    (c : Ctx inp w h0 s d src (.fgRun set) run p1 src1)
    (hbody : orderBody w (resetFirst w d) (.fgRun set) run src1 = some (d', src'))
    (hnc : ¬ (d.dest.length < w ∧ w < d'.dest.length)) :
    ∃ s', order inp w h0 s = .ok s' ∧ Rel inp w h0 s' d' src' := by
  have r := c.rel
  have hfl := firstLine_iff r
  cases set with
  | false =>
    have h2 : headerSecond inp w (rawOp (.fgRun false)) { s with pos := p1 } = .ok (1, 0, { s with pos := p1 }) := by
      unfold headerSecond rawOp; simp
    simp only [orderBody, Bool.false_eq_true, if_false, Option.bind, Option.some.injEq, Prod.mk.injEq] at hbody
    obtain ⟨hd', hs'⟩ := hbody
    subst hs'
    have hlen' : d'.dest.length = d.dest.length + run := by rw [← hd']; simp [writeN_length, resetFirst_dest]
    refine sim_simple_kind c (by simp) h2 ⟨rfl, rfl, rfl, rfl, rfl⟩ (Or.inr (Or.inl rfl)) (by decide) r.bic r.imx c.src1
      (fun D => if (resetFirst w d).firstLine then d.fgPel else abovePel D w ^^^ d.fgPel) (by rw [← hlen']; exact hnc) ?_ ?_
    · rw [← hd']; simp only [resetFirst_dest, resetFirst_fg, r.fg]
    · intro L' h1 h2'
      rw [simpleVal_mix s.mix s.c2 w _ d.dest.length run hfl (by rw [← hlen']; exact hnc) L' h1 h2', r.fg]
  | true =>
    simp only [orderBody, if_true] at hbody
    cases hrp : readPixel src1 with
    | none => rw [hrp] at hbody; cases hbody
    | some av =>
      obtain ⟨a, src2⟩ := av
      rw [hrp] at hbody
      simp only [Option.bind, Option.some.injEq, Prod.mk.injEq] at hbody
      obtain ⟨hd', hs'⟩ := hbody
      subst hs'
      obtain ⟨v, hv1, hv2, hv3⟩ := readPixel_src (s := { s with pos := p1 }) c.src1 hrp
      have h2 : headerSecond inp w (rawOp (.fgRun true)) { s with pos := p1 } =
          .ok (1, 0, { s with pos := p1 + 2, mix := v }) := by
        unfold headerSecond rawOp; simp [hv1]
      have hlen' : d'.dest.length = d.dest.length + run := by rw [← hd']; simp [writeN_length, resetFirst_dest]
      refine sim_simple_kind c (by simp) h2 ⟨rfl, rfl, rfl, rfl, rfl⟩ (Or.inr (Or.inl rfl)) (by decide) r.bic r.imx hv3
        (fun D => if (resetFirst w d).firstLine then a else abovePel D w ^^^ a) (by rw [← hlen']; exact hnc) ?_ ?_
      · rw [← hd']; simp only [resetFirst_dest, hv2]
      · intro L' h1 h2'
        rw [simpleVal_mix v s.c2 w _ d.dest.length run hfl (by rw [← hlen']; exact hnc) L' h1 h2', hv2]

theorem writeN_const (D : List Pixel) (n : Nat) (v : Pixel) : writeN D n (fun _ => v) = D ++ List.replicate n v := by
  induction n generalizing D with
  | zero => simp [writeN]
  | succ k ih => unfold writeN; rw [ih, List.replicate_succ, List.append_assoc]; rfl

theorem sim_colorRun {inp : Input} {w h0 : Nat} {s : St} {d d' : DState} {src src1 src' : Bytes} {run p1 : Nat}
    (c : Ctx inp w h0 s d src .colorRun run p1 src1)
    (hbody : orderBody w (resetFirst w d) .colorRun run src1 = some (d', src'))
    (hnc : ¬ (d.dest.length < w ∧ w < d'.dest.length)) :
    ∃ s', order inp w h0 s = .ok s' ∧ Rel inp w h0 s' d' src' := by
  have r := c.rel
  simp only [orderBody] at hbody
  cases hrp : readPixel src1 with
  | none => rw [hrp] at hbody; cases hbody
  | some av =>
    obtain ⟨a, src2⟩ := av
    rw [hrp] at hbody
    simp only [Option.bind, Option.some.injEq, Prod.mk.injEq] at hbody
    obtain ⟨hd', hs'⟩ := hbody
    subst hs'
    obtain ⟨v, hv1, hv2, hv3⟩ := readPixel_src (s := { s with pos := p1 }) c.src1 hrp
    have h2 : headerSecond inp w (rawOp .colorRun) { s with pos := p1 } =
        .ok (3, 0, { s with pos := p1 + 2, c2 := v }) := by
      unfold headerSecond rawOp; simp [hv1]
    have hlen' : d'.dest.length = d.dest.length + run := by rw [← hd']; simp [resetFirst_dest]
    refine sim_simple_kind c (by simp) h2 ⟨rfl, rfl, rfl, rfl, rfl⟩ (Or.inr (Or.inr (Or.inl rfl))) (by decide) r.bic r.imx hv3
      (fun _ => a) (by rw [← hlen']; exact hnc) ?_ ?_
    · rw [← hd', writeN_const]; simp only [resetFirst_dest, resetFirst_fg, r.fg]
    · intro L' _ _; simp [simpleVal, hv2]

theorem sim_white {inp : Input} {w h0 : Nat} {s : St} {d d' : DState} {src src1 src' : Bytes} {run p1 : Nat}
    (c : Ctx inp w h0 s d src .white run p1 src1) (hrun : run = 1)
    (hbody : orderBody w (resetFirst w d) .white run src1 = some (d', src'))
    (hnc : ¬ (d.dest.length < w ∧ w < d'.dest.length)) :
    ∃ s', order inp w h0 s = .ok s' ∧ Rel inp w h0 s' d' src' := by
  have r := c.rel
  subst hrun
  simp only [orderBody, Option.some.injEq, Prod.mk.injEq] at hbody
  obtain ⟨hd', hs'⟩ := hbody
  subst hs'
  have h2 : headerSecond inp w (rawOp .white) { s with pos := p1 } = .ok (0xd, 0, { s with pos := p1 }) := by
    unfold headerSecond rawOp; simp
  have hlen' : d'.dest.length = d.dest.length + 1 := by rw [← hd']; simp [resetFirst_dest]
  refine sim_simple_kind c (by simp) h2 ⟨rfl, rfl, rfl, rfl, rfl⟩ (Or.inr (Or.inr (Or.inr (Or.inl rfl)))) (by decide) r.bic r.imx
    c.src1 (fun _ => WHITE) (by rw [← hlen']; exact hnc) ?_ ?_
  · rw [← hd', writeN_const]; simp only [resetFirst_dest, resetFirst_fg, r.fg, List.replicate]
  · intro L' _ _; simp [simpleVal, WHITE]

theorem sim_black {inp : Input} {w h0 : Nat} {s : St} {d d' : DState} {src src1 src' : Bytes} {run p1 : Nat}
    (c : Ctx inp w h0 s d src .black run p1 src1) (hrun : run = 1)
    (hbody : orderBody w (resetFirst w d) .black run src1 = some (d', src'))
    (hnc : ¬ (d.dest.length < w ∧ w < d'.dest.length)) :
    ∃ s', order inp w h0 s = .ok s' ∧ Rel inp w h0 s' d' src' := by
  have r := c.rel
  subst hrun
  simp only [orderBody, Option.some.injEq, Prod.mk.injEq] at hbody
  obtain ⟨hd', hs'⟩ := hbody
  subst hs'
  have h2 : headerSecond inp w (rawOp .black) { s with pos := p1 } = .ok (0xe, 0, { s with pos := p1 }) := by
    unfold headerSecond rawOp; simp
  have hlen' : d'.dest.length = d.dest.length + 1 := by rw [← hd']; simp [resetFirst_dest]
  refine sim_simple_kind c (by simp) h2 ⟨rfl, rfl, rfl, rfl, rfl⟩ (Or.inr (Or.inr (Or.inr (Or.inr rfl)))) (by decide) r.bic r.imx
    c.src1 (fun _ => BLACK) (by rw [← hlen']; exact hnc) ?_ ?_
  · rw [← hd', writeN_const]; simp only [resetFirst_dest, resetFirst_fg, r.fg, List.replicate]
  · intro L' _ _; simp [simpleVal, BLACK]


/-- the order kinds whose simulation is proved below -/
def supported : Order → Bool
  | .bgRun | .fgRun _ | .colorRun | .white | .black => true
  | _ => false

theorem white_black_run : ∀ c, c < 256 → ∀ k f, specClass c = some (k, f) → (k = .white ∨ k = .black) → f = .fixed 1 := by
  have h : ∀ c, c < 256 → (match specClass c with
      | some (.white, f) => decide (f = .fixed 1)
      | some (.black, f) => decide (f = .fixed 1)
      | _ => true) = true := by decide +kernel
  intro c hc k f hs hk
  have := h c hc
  rw [hs] at this
  rcases hk with rfl | rfl <;> simpa using this

/-- **One order.**  If the reference decoder accepts the next order (of a supported kind)
    and it does not cross the end of the first scanline, the port decodes it to the same
    pixels and the two decoders are again in related states. -/
theorem order_sim {inp : Input} {w h0 : Nat} {s : St} {d d' : DState} {src src' : Bytes} (r : Rel inp w h0 s d src)
    (hw : 0 < w) (hstep : stepOrder w (w * h0) d src = some (d', src')) (hne : src ≠ [])
    (hnc : ¬ (d.dest.length < w ∧ w < d'.dest.length))
    (hsup : ∀ k run rest, parseHeader src = some (k, run, rest) → supported k = true) :
    ∃ s', order inp w h0 s = .ok s' ∧ Rel inp w h0 s' d' src' := by
  cases src with
  | nil => exact absurd rfl hne
  | cons b rest =>
    obtain ⟨k, f, run, src1, hcl, hlen, hrun0, hcap, hbody⟩ := stepOrder_some hstep
    have hb := b.toNat_lt
    have hpc := class_table b.toNat hb k f hcl
    obtain ⟨p1, hst, hsrc1, _⟩ := header_len r.src hpc hlen
    have hrl := run_bound b.toNat hb k f hcl rest run src1 hlen
    have hk : supported k = true := by
      apply hsup k run src1
      rw [parseHeader_class, parseClass_some hcl, hlen]; rfl
    have c : Ctx inp w h0 s d (b :: rest) k run p1 src1 :=
      ⟨r, hw, hst, hsrc1, hrun0, hrl, by rw [resetFirst_dest] at hcap; exact hcap⟩
    cases k with
    | bgRun => exact sim_bgRun c hbody hnc
    | fgRun set => exact sim_fgRun c hbody hnc
    | colorRun => exact sim_colorRun c hbody hnc
    | white =>
      have hf := white_black_run b.toNat hb _ f hcl (Or.inl rfl)
      subst hf
      simp only [readLen, Option.some.injEq, Prod.mk.injEq] at hlen
      exact sim_white c hlen.1.symm hbody hnc
    | black =>
      have hf := white_black_run b.toNat hb _ f hcl (Or.inr rfl)
      subst hf
      simp only [readLen, Option.some.injEq, Prod.mk.injEq] at hlen
      exact sim_black c hlen.1.symm hbody hnc
    | fgbgImage set => simp [supported] at hk
    | colorImage => simp [supported] at hk
    | ditheredRun => simp [supported] at hk
    | special m => simp [supported] at hk

end Rdp.Rle16
