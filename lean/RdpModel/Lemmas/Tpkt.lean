import RdpModel.Wire.Tpkt
import RdpModel.Base.Bits
import RdpModel.Spec.Deframe
namespace Rdp
open Spec

theorem Link.read_append (a r : Bytes) (s : List Nat) (h : a.length ≠ 0) :
    ∃ s', Link.read a.length ⟨a ++ r, s⟩ = .ok (a, ⟨r, s'⟩) := by
  unfold Link.read
  simp only [h, if_false]
  exact readExact_append a r s

theorem Link.read_append' (n : Nat) (a r : Bytes) (s : List Nat) (hn : a.length = n) (h : n ≠ 0) :
    ∃ s', Link.read n ⟨a ++ r, s⟩ = .ok (a, ⟨r, s'⟩) := by
  subst hn; exact Link.read_append a r s h

theorem Tpkt.readBody_append (a r : Bytes) (s : List Nat) :
    ∃ s', Tpkt.readBody a.length ⟨a ++ r, s⟩ = .ok (a, ⟨r, s'⟩) := by
  unfold Tpkt.readBody
  by_cases h : a.length = 0
  · have : a = [] := List.eq_nil_of_length_eq_zero h
    subst this
    exact ⟨s, by simp⟩
  · simp only [h, if_false]
    exact Link.read_append a r s h

theorem Link.read_noPanic (n : Nat) (t : Transport) : (Link.read n t).NoPanic := by
  unfold Link.read
  split
  · simp
  · exact readExact_noPanic n t

theorem Link.read_len {n : Nat} {t t' : Transport} {b : Bytes} (hn : n ≠ 0)
    (h : Link.read n t = .ok (b, t')) : b.length = n := by
  unfold Link.read at h
  simp only [hn, if_false] at h
  by_cases hl : n ≤ t.data.length
  · obtain ⟨s', hs⟩ := readExact_ok n t hl
    rw [hs] at h
    injection h with h; injection h with h1 _
    subst h1; simp; omega
  · obtain ⟨e, he⟩ := readExactF_short n n t (Nat.le_refl _) (by omega)
    unfold readExact at h; rw [he] at h; cases h

theorem Tpkt.readBody_noPanic (n : Nat) (t : Transport) : (Tpkt.readBody n t).NoPanic := by
  unfold Tpkt.readBody
  split
  · simp
  · exact Link.read_noPanic n t

def payloadOf : Frame → Payload
  | .slow _ p => .raw p
  | .fastShort a p => .fast (secFlags a) p
  | .fastLong a p => .fast (secFlags a) p

theorem shift_and (a : UInt8) : (a.toNat >>> 6) &&& 3 = secFlags a := by
  have h := a.toNat_lt
  unfold secFlags
  rw [Nat.shiftRight_eq_div_pow]
  have : a.toNat / 2 ^ 6 < 4 := by omega
  have e : (3 : Nat) = 2 ^ 2 - 1 := by decide
  rw [e, Nat.and_two_pow_sub_one_eq_mod]
  omega

end Rdp

namespace Rdp
open Spec

theorem Tpkt.read_slow (r : UInt8) (p rest : Bytes) (s : List Nat) (h : p.length + 4 ≤ 65535) :
    ∃ s', Tpkt.read ⟨(Frame.slow r p).encode ++ rest, s⟩ = .ok (.raw p, ⟨rest, s'⟩) := by
  simp only [Frame.encode]
  obtain ⟨s1, h1⟩ := Link.read_append' 2 [3, r]
    ([UInt8.ofNat ((p.length + 4) / 256), UInt8.ofNat ((p.length + 4) % 256)] ++ p ++ rest) s rfl (by decide)
  obtain ⟨s2, h2⟩ := Link.read_append' 2
    [UInt8.ofNat ((p.length + 4) / 256), UInt8.ofNat ((p.length + 4) % 256)] (p ++ rest) s1 rfl (by decide)
  obtain ⟨s3, h3⟩ := Tpkt.readBody_append p rest s2
  refine ⟨s3, ?_⟩
  unfold Tpkt.read
  have e : ([3, r, UInt8.ofNat ((p.length + 4) / 256), UInt8.ofNat ((p.length + 4) % 256)] ++ p ++ rest)
      = [3, r] ++ ([UInt8.ofNat ((p.length + 4) / 256), UInt8.ofNat ((p.length + 4) % 256)] ++ p ++ rest) := by simp
  rw [e, h1]
  simp only [Outcome.bind_ok, if_true]
  have e2 : ([UInt8.ofNat ((p.length + 4) / 256), UInt8.ofNat ((p.length + 4) % 256)] ++ p ++ rest)
      = [UInt8.ofNat ((p.length + 4) / 256), UInt8.ofNat ((p.length + 4) % 256)] ++ (p ++ rest) := by simp
  rw [e2, h2]
  simp only [Outcome.bind_ok]
  have hb : beNat [UInt8.ofNat ((p.length + 4) / 256), UInt8.ofNat ((p.length + 4) % 256)] = p.length + 4 := by
    rw [beNat_pair, u8_ofNat_toNat _ (by omega), u8_ofNat_toNat _ (by omega)]; omega
  rw [hb]
  have : ¬ (p.length + 4 < 4) := by omega
  simp only [this, if_false]
  have : p.length + 4 - 4 = p.length := by omega
  rw [this, h3]
  rfl

theorem long_len (bn ln : Nat) (hb : 128 ≤ bn) (hb2 : bn < 256) (h : (bn - 128) * 256 + ln < 3) :
    bn % 128 * 256 + ln < 3 := by
  have e : bn % 128 = bn - 128 := by omega
  rw [e]; exact h

theorem Tpkt.read_fastShort (a : UInt8) (p rest : Bytes) (s : List Nat)
    (ha : a ≠ 3) (h : p.length + 2 ≤ 0x7f) :
    ∃ s', Tpkt.read ⟨(Frame.fastShort a p).encode ++ rest, s⟩ = .ok (.fast (secFlags a) p, ⟨rest, s'⟩) := by
  simp only [Frame.encode]
  obtain ⟨s1, h1⟩ := Link.read_append' 2 [a, UInt8.ofNat (p.length + 2)] (p ++ rest) s rfl (by decide)
  obtain ⟨s3, h3⟩ := Tpkt.readBody_append p rest s1
  refine ⟨s3, ?_⟩
  unfold Tpkt.read
  have e : ([a, UInt8.ofNat (p.length + 2)] ++ p ++ rest) = [a, UInt8.ofNat (p.length + 2)] ++ (p ++ rest) := by simp
  rw [e, h1]
  simp only [Outcome.bind_ok, ha, if_false]
  have hv : (UInt8.ofNat (p.length + 2)).toNat = p.length + 2 := u8_ofNat_toNat _ (by omega)
  rw [hv]
  have hand : ¬ ((p.length + 2) &&& 0x80 ≠ 0) := by
    rw [and80_iff _ (by omega)]; omega
  simp only [hand, if_false]
  have : ¬ (p.length + 2 < 2) := by omega
  simp only [this, if_false]
  have : p.length + 2 - 2 = p.length := by omega
  rw [this, h3, shift_and]
  rfl

theorem Tpkt.read_fastLong (a : UInt8) (p rest : Bytes) (s : List Nat)
    (ha : a ≠ 3) (h : p.length + 3 ≤ 0x7fff) :
    ∃ s', Tpkt.read ⟨(Frame.fastLong a p).encode ++ rest, s⟩ = .ok (.fast (secFlags a) p, ⟨rest, s'⟩) := by
  simp only [Frame.encode]
  obtain ⟨s1, h1⟩ := Link.read_append' 2 [a, UInt8.ofNat (0x80 + (p.length + 3) / 256)]
    ([UInt8.ofNat ((p.length + 3) % 256)] ++ p ++ rest) s rfl (by decide)
  obtain ⟨s2, h2⟩ := Link.read_append' 1 [UInt8.ofNat ((p.length + 3) % 256)] (p ++ rest) s1 rfl (by decide)
  obtain ⟨s3, h3⟩ := Tpkt.readBody_append p rest s2
  refine ⟨s3, ?_⟩
  unfold Tpkt.read
  have e : ([a, UInt8.ofNat (0x80 + (p.length + 3) / 256), UInt8.ofNat ((p.length + 3) % 256)] ++ p ++ rest)
     = [a, UInt8.ofNat (0x80 + (p.length + 3) / 256)] ++ ([UInt8.ofNat ((p.length + 3) % 256)] ++ p ++ rest) := by simp
  rw [e, h1]
  simp only [Outcome.bind_ok, ha, if_false]
  have hv : (UInt8.ofNat (0x80 + (p.length + 3) / 256)).toNat = 0x80 + (p.length + 3) / 256 :=
    u8_ofNat_toNat _ (by omega)
  rw [hv]
  have hand : ((0x80 + (p.length + 3) / 256) &&& 0x80 ≠ 0) := by
    rw [and80_iff _ (by omega)]; omega
  rw [if_pos hand]
  have e2 : ([UInt8.ofNat ((p.length + 3) % 256)] ++ p ++ rest) = [UInt8.ofNat ((p.length + 3) % 256)] ++ (p ++ rest) := by simp
  rw [e2, h2]
  simp only [Outcome.bind_ok]
  have hlo : (UInt8.ofNat ((p.length + 3) % 256)).toNat = (p.length + 3) % 256 := u8_ofNat_toNat _ (by omega)
  rw [hlo, and7f_mod _ (by omega), shl8_or _ _ (by omega)]
  have hlen : (0x80 + (p.length + 3) / 256) % 128 * 256 + (p.length + 3) % 256 = p.length + 3 := by omega
  rw [hlen]
  have : ¬ (p.length + 3 < 3) := by omega
  simp only [this, if_false]
  have : p.length + 3 - 3 = p.length := by omega
  rw [this, h3, shift_and]
  rfl

/-- the model reads any well-formed frame exactly, whatever follows and whatever the schedule -/
theorem Tpkt.read_frame (f : Frame) (hf : f.WF) (rest : Bytes) (s : List Nat) :
    ∃ s', Tpkt.read ⟨f.encode ++ rest, s⟩ = .ok (payloadOf f, ⟨rest, s'⟩) := by
  cases f with
  | slow r p => exact Tpkt.read_slow r p rest s hf
  | fastShort a p => exact Tpkt.read_fastShort a p rest s hf.1 hf.2
  | fastLong a p => exact Tpkt.read_fastLong a p rest s hf.1 hf.2

end Rdp
