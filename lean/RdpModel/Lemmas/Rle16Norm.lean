import RdpModel.Lemmas.Rle16
/-
  Normal forms of the loops of `rle_16_decompress` (model: Codec/Rle16.lean).

  * `repeatM_eq_loop1` — the `repeat!` macro (an 8-fold unrolled block followed by a tail
    loop) computes exactly what the tail loop alone computes.
  * `pixels_eq_ploop` — the pixel loop of one order (`while count > 0 { new line?; macro }`)
    is the per-pixel loop `while count > 0 { new line?; one macro step }`.
  These are equalities of outcomes (values, errors and panics alike), for every input,
  opcode, width > 0 and state satisfying the geometric invariant `Inv`.
-/
namespace Rdp.Rle16
open Rdp

theorem bind_congr_safe {α β : Type} {r : Outcome α} {P : α → Prop} {f g : α → Outcome β}
    (h : Safe r P) (hfg : ∀ a, P a → f a = g a) : r.bind f = r.bind g := by
  cases r with
  | ok a => exact hfg a h
  | err e => rfl
  | panic p => rfl

theorem bind_assoc' {α β γ : Type} (r : Outcome α) (f : α → Outcome β) (g : β → Outcome γ) :
    (r.bind f).bind g = r.bind (fun a => (f a).bind g) := by
  cases r <;> rfl

/-- the tail loop does not depend on its fuel once the fuel exceeds the room left on the line -/
theorem loop1_fuel {w h0 : Nat} (inp : Input) (op : Nat) (fom : UInt8) (f g : Nat) {s : St} (h : Inv w h0 s)
    (hc : s.count + 1 < 2 ^ 32) (hf : w - s.x < f) (hg : w - s.x < g) :
    loop1 inp op fom w f s = loop1 inp op fom w g s := by
  induction f generalizing g s with
  | zero => omega
  | succ f ih =>
    cases g with
    | zero => omega
    | succ g =>
      unfold loop1
      split
      · rename_i hcond
        refine bind_congr_safe (exprStep_safe inp op fom h hcond.2 hcond.1 hc) ?_
        intro s1 ⟨h1, _, x1, c1, _⟩
        exact ih g h1 (by omega) (by omega) (by omega)
      · rfl

/-- `n` macro steps followed by the tail loop are the tail loop, when the counter and the
    line have room for `n` steps -/
theorem times_loop1 {w h0 : Nat} (inp : Input) (op : Nat) (fom : UInt8) (n g : Nat) {s : St} (h : Inv w h0 s)
    (hc : s.count + 1 < 2 ^ 32) (hn : n ≤ s.count) (hx : s.x + n ≤ w) (hg : w - s.x < g) :
    (times n (exprStep inp op fom) s).bind (loop1 inp op fom w g) = loop1 inp op fom w g s := by
  induction n generalizing s with
  | zero => rfl
  | succ n ih =>
    cases g with
    | zero => omega
    | succ g =>
      have hcond : s.count > 0 ∧ s.x < w := ⟨by omega, by omega⟩
      conv => rhs; unfold loop1
      simp only [hcond, and_self, if_true]
      unfold times
      rw [bind_assoc']
      refine bind_congr_safe (exprStep_safe inp op fom h hcond.2 hcond.1 hc) ?_
      intro s1 ⟨h1, _, x1, c1, c2⟩
      rw [ih h1 (by omega) (by omega) (by omega) (by omega)]
      exact loop1_fuel inp op fom (g + 1) g h1 (by omega) (by omega) (by omega)

/-- **The `repeat!` macro is its tail loop.** -/
theorem loop8_loop1 {w h0 : Nat} (inp : Input) (op : Nat) (fom : UInt8) (f g : Nat) {s : St} (h : Inv w h0 s)
    (hc : s.count + 1 < 2 ^ 32) (hf : w - s.x < f) (hg : w - s.x < g) :
    (loop8 inp op fom w f s).bind (loop1 inp op fom w g) = loop1 inp op fom w g s := by
  induction f generalizing s with
  | zero => omega
  | succ f ih =>
    unfold loop8
    split
    · rename_i hcond
      rw [bind_assoc']
      rw [← times_loop1 inp op fom 8 g h hc hcond.1 (by omega) hg]
      refine bind_congr_safe (times_safe inp op fom 8 h (by omega) hcond.1 hc) ?_
      intro s1 ⟨h1, _, x1, c1⟩
      exact ih h1 (by omega) (by omega) (by omega)
    · rfl

theorem repeatM_eq_loop1 {w h0 : Nat} (inp : Input) (op : Nat) (fom : UInt8) {s : St} (h : Inv w h0 s)
    (hc : s.count + 1 < 2 ^ 32) :
    repeatM inp op fom w s = loop1 inp op fom w (w + 1) s := by
  unfold repeatM
  have := h.xle
  exact loop8_loop1 inp op fom (w + 1) (w + 1) h hc (by omega) (by omega)


/-! ### the pixel loop of one order, one pixel at a time -/

/-- one pixel: start a new line if the current one is full, then one macro step -/
def pstep (inp : Input) (op : Nat) (fom : UInt8) (w : Nat) (s : St) : Outcome St :=
  (newline w s).bind (exprStep inp op fom)

/-- `while count > 0 { pixel }` -/
def ploop (inp : Input) (op : Nat) (fom : UInt8) (w : Nat) : Nat → St → Outcome St
  | 0, _ => .panic "spin"
  | f+1, s => if s.count > 0 then (pstep inp op fom w s).bind (ploop inp op fom w f) else .ok s

/-- pixels still free in the buffer below and on the current line -/
def pmu (w : Nat) (s : St) : Nat := s.height * w + (w - s.x)

theorem mu_step {w : Nat} {s s1 : St} (hx : s.x < w) (x1 : s1.x = s.x + 1) (hh : s1.height = s.height) :
    mu w s1 + 1 = mu w s ∧ pmu w s1 + 1 = pmu w s := by
  simp only [mu, pmu, hh, x1]; omega

/-- a new line does not change the number of free pixels -/
theorem pmu_newline {w : Nat} {s t' : St} (hx' : t'.x < w) (hle : s.x ≤ w)
    (m : w ≤ s.x → mu w t' < mu w s) (e : s.x < w → t' = s) : pmu w t' ≤ pmu w s := by
  rcases Nat.lt_or_ge s.x w with hlt | hge
  · rw [e hlt]; exact Nat.le_refl _
  · have hxe : s.x = w := Nat.le_antisymm hle hge
    have hmu := m hge
    simp only [mu, pmu] at hmu ⊢
    rw [hxe] at hmu ⊢
    have hlt : t'.height < s.height := by
      rcases Nat.lt_or_ge t'.height s.height with hlt | hge
      · exact hlt
      · have : s.height * (w + 1) ≤ t'.height * (w + 1) := Nat.mul_le_mul_right _ hge
        omega
    have : (t'.height + 1) * w ≤ s.height * w := Nat.mul_le_mul_right _ hlt
    rw [Nat.add_mul] at this
    omega

/-- the tail loop followed by the rest of the pixel loop is the per-pixel loop -/
theorem loop1_pixels {w h0 : Nat} (inp : Input) (op : Nat) (fom : UInt8) (hw : 0 < w) (hv : validOp op = true)
    (G : Nat) : ∀ (f F : Nat) {t : St}, Inv w h0 t → (op = 0 → t.insertmix = false) → t.count + 1 < 2 ^ 32 →
      w - t.x < f → mu w t < F → pmu w t < G →
      (loop1 inp op fom w f t).bind (pixels inp op fom w F) = ploop inp op fom w G t := by
  induction G with
  | zero => intro f F t _ _ _ _ _ hG; omega
  | succ G ih =>
    intro f F t h hins hc hf hF hG
    cases f with
    | zero => omega
    | succ f =>
    cases F with
    | zero => omega
    | succ F =>
    by_cases hc0 : t.count > 0
    · by_cases hxw : t.x < w
      · -- a step on the current line
        have hcond : t.count > 0 ∧ t.x < w := ⟨hc0, hxw⟩
        unfold loop1 ploop pstep
        simp only [hcond, and_self, hc0, if_true]
        have hnl : newline w t = .ok t := by unfold newline; simp [Nat.not_le.mpr hxw]
        rw [hnl, bind_assoc']
        show (exprStep inp op fom t).bind _ = (exprStep inp op fom t).bind _
        refine bind_congr_safe (exprStep_safe inp op fom h hxw hc0 hc) ?_
        intro t1 ⟨h1, l1, x1, c1, _⟩
        have hm := mu_step hxw x1 l1.1
        exact ih f (F + 1) h1 (fun e => by rw [l1.2.2.2.2.1]; exact hins e) (by omega) (by omega) (by omega) (by omega)
      · -- the line is full: the tail loop stops, the pixel loop starts a new line
        have hxe : t.x = w := Nat.le_antisymm h.xle (Nat.not_lt.mp hxw)
        have hcond : ¬ (t.count > 0 ∧ t.x < w) := fun hh => hxw hh.2
        unfold loop1
        simp only [hcond, if_false]
        show pixels inp op fom w (F + 1) t = _
        unfold pixels ploop pstep body
        simp only [hc0, if_true, bind_assoc']
        refine bind_congr_safe (newline_safe h) ?_
        intro t' ⟨h', i', c', _, x', m', m'', _, _⟩
        have hins' : ¬ (op = 0 ∧ t'.insertmix = true) := by
          intro hh; have := hins hh.1; rw [← i', hh.2] at this; cases this
        simp only [hv, hins', not_true_eq_false, if_false]
        rw [repeatM_eq_loop1 inp op fom h' (by omega)]
        have hx' := x' hw
        have hcond' : t'.count > 0 ∧ t'.x < w := ⟨by omega, hx'⟩
        unfold loop1
        simp only [hcond', and_self, if_true]
        rw [bind_assoc']
        refine bind_congr_safe (exprStep_safe inp op fom h' hx' (by omega) (by omega)) ?_
        intro t1 ⟨h1, l1, x1, c1, _⟩
        have hm := mu_step hx' x1 l1.1
        have hmm := m'' (Nat.le_of_eq hxe.symm)
        have hp := pmu_newline hx' h.xle m'' (by intro hlt; omega)
        exact ih w F h1 (fun e => by rw [l1.2.2.2.2.1, i']; exact hins e) (by omega) (by omega) (by omega)
          (by omega)
    · -- the order is complete
      have hcond : ¬ (t.count > 0 ∧ t.x < w) := fun hh => hc0 hh.1
      unfold loop1 ploop
      simp only [hcond, hc0, if_false]
      show pixels inp op fom w (F + 1) t = _
      unfold pixels
      simp only [hc0, if_false]

/-- **The pixel loop of an order is the per-pixel loop** (no pending insert-mix). -/
theorem pixels_eq_ploop {w h0 : Nat} (inp : Input) (op : Nat) (fom : UInt8) (hw : 0 < w) (hv : validOp op = true)
    (F G : Nat) {s : St} (h : Inv w h0 s) (hins : op = 0 → s.insertmix = false) (hc : s.count + 1 < 2 ^ 32)
    (hF : mu w s + 1 < F) (hG : pmu w s < G) :
    pixels inp op fom w F s = ploop inp op fom w G s := by
  cases F with
  | zero => omega
  | succ F =>
  cases G with
  | zero => omega
  | succ G =>
  by_cases hc0 : s.count > 0
  · unfold pixels body
    simp only [hc0, if_true]
    unfold ploop pstep
    simp only [hc0, if_true, bind_assoc']
    refine bind_congr_safe (newline_safe h) ?_
    intro t' ⟨h', i', c', _, x', m', m'', e', _⟩
    have hins' : ¬ (op = 0 ∧ t'.insertmix = true) := by
      intro hh; have := hins hh.1; rw [← i', hh.2] at this; cases this
    simp only [hv, hins', not_true_eq_false, if_false]
    rw [repeatM_eq_loop1 inp op fom h' (by omega)]
    have hx' := x' hw
    have hcond' : t'.count > 0 ∧ t'.x < w := ⟨by omega, hx'⟩
    unfold loop1
    simp only [hcond', and_self, if_true]
    rw [bind_assoc']
    refine bind_congr_safe (exprStep_safe inp op fom h' hx' (by omega) (by omega)) ?_
    intro t1 ⟨h1, l1, x1, c1, _⟩
    have hm := mu_step hx' x1 l1.1
    have hp := pmu_newline hx' h.xle m'' e'
    exact loop1_pixels inp op fom hw hv G w F h1 (fun e => by rw [l1.2.2.2.2.1, i']; exact hins e) (by omega)
      (by omega) (by omega) (by omega)
  · unfold pixels ploop
    simp only [hc0, if_false]

end Rdp.Rle16
