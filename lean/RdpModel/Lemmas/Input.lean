import RdpModel.Wire.Global
import RdpModel.Wire.Mcs
import RdpModel.Spec.Input
import RdpModel.Base.Bits
namespace Rdp.Global
open Rdp Rdp.Schema

theorem toVec_pointer (f x y : Nat) :
    toVec (pointerEvent f x y) = .ok (encInt .le 2 f ++ encInt .le 2 x ++ encInt .le 2 y) := by
  simp [toVec, pointerEvent, write, writeFields, options, u16le, addSkip, Outcome.bind]

theorem toVec_keyboard (f c : Nat) :
    toVec (keyboardEvent f c) = .ok (encInt .le 2 f ++ encInt .le 2 c ++ encInt .le 2 0) := by
  simp [toVec, keyboardEvent, write, writeFields, options, u16le, addSkip, Outcome.bind]

theorem toVec_inputPdu (mt : Nat) (d : Bytes) :
    toVec (inputPduData [inputEvent mt d]) =
      .ok (encInt .le 2 1 ++ encInt .le 2 0 ++ (encInt .le 4 0 ++ encInt .le 2 mt ++ d)) := by
  simp [toVec, inputPduData, inputEvent, write, writeFields, writeList, options, u16le, u32le, blob,
    addSkip, Outcome.bind]

theorem toVec_shareData (sid ty2 : Nat) (body : Bytes) (h : body.length + 18 < 65536) :
    toVec (shareDataHeader sid ty2 body) =
      .ok (encInt .le 4 sid ++ [UInt8.ofNat 0, UInt8.ofNat 1] ++ encInt .le 2 (body.length + 18)
            ++ [UInt8.ofNat ty2, UInt8.ofNat 0] ++ encInt .le 2 0 ++ body) := by
  have hm : (body.length + 18) % 65536 = body.length + 18 := Nat.mod_eq_of_lt h
  have h18 : ¬ (body.length + 18 < 18) := by omega
  simp [toVec, shareDataHeader, write, writeFields, options, evalOpt, intVal, u16le, u32le, blob,
    addSkip, Outcome.bind, hm, h18]

theorem toVec_shareControl (ty src : Nat) (body : Bytes) (h : body.length + 6 < 65536) :
    toVec (shareControlHeader ty src body) =
      .ok (encInt .le 2 (body.length + 6) ++ encInt .le 2 ty ++ encInt .le 2 src ++ body) := by
  have hm : (body.length + 6) % 65536 = body.length + 6 := Nat.mod_eq_of_lt h
  have h6 : ¬ (body.length + 6 < 6) := by omega
  simp [toVec, shareControlHeader, write, writeFields, options, evalOpt, intVal, u16le, blob,
    addSkip, Outcome.bind, hm, h6]

end Rdp.Global
