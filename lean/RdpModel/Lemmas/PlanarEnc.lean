import RdpModel.Spec.Bitmap
/-
  Every image has a conformant planar encoding: the reference encoder `planarEncode`
  (one raw byte per segment, delta rows) is inverted by the reference decoder.
-/
namespace Rdp.Spec.Bitmap
open Rdp

theorem ctrlLens_16 : ctrlLens (0x10 : UInt8).toNat = (0, 1) := by decide

theorem encDelta_spec (v a : Nat) (hv : v < 256) (ha : a < 256) :
    (((a : Int) + deltaOf (encDelta v a).toNat).emod 256).toNat = v := by
  unfold encDelta deltaOf
  show (((a : Int) + _) % 256).toNat = v
  simp only []
  split <;> rename_i h1
  · have e : (UInt8.ofNat (2 * ((v + 256 - a % 256) % 256))).toNat = 2 * ((v + 256 - a % 256) % 256) := by
      rw [UInt8.toNat_ofNat']; omega
    rw [e]
    have : ¬ (2 * ((v + 256 - a % 256) % 256)) % 2 = 1 := by omega
    rw [if_neg this]
    omega
  · have e : (UInt8.ofNat (2 * (256 - (v + 256 - a % 256) % 256) - 1)).toNat = 2 * (256 - (v + 256 - a % 256) % 256) - 1 := by
      rw [UInt8.toNat_ofNat']; omega
    rw [e]
    have : (2 * (256 - (v + 256 - a % 256) % 256) - 1) % 2 = 1 := by omega
    rw [if_pos this]
    omega


theorem emit_enc_none (acc : List Nat) (v : Nat) (hv : v < 256) :
    emit none acc ((UInt8.ofNat v).toNat : Int) = acc ++ [v] := by
  show acc ++ [(((UInt8.ofNat v).toNat : Int)).toNat % 256] = _
  rw [UInt8.toNat_ofNat']
  have : ((v % 2 ^ 8 : Nat) : Int).toNat % 256 = v := by omega
  rw [this]

theorem emit_enc_some (ab acc : List Nat) (v : Nat) (hv : v < 256) (hab : ab.getD acc.length 0 < 256) :
    emit (some ab) acc (deltaOf (encDelta v (ab.getD acc.length 0)).toNat) = acc ++ [v] := by
  show acc ++ [((((ab.getD acc.length 0 : Nat) : Int) + _).emod 256).toNat] = _
  rw [encDelta_spec v _ hv hab]

theorem planeLine_encodeRow (w : Nat) (above : Option (List Nat)) (vs : List Nat) :
    ∀ (fuel : Nat) (acc : List Nat) (last : Int) (tail : Bytes),
      acc.length + vs.length = w → (∀ v, v ∈ vs → v < 256) →
      (∀ ab, above = some ab → ∀ j, ab.getD j 0 < 256) → vs.length < fuel →
      planeLine w above fuel acc last (encodeRow above acc.length vs ++ tail) = some (acc ++ vs, tail) := by
  cases above <;>
  (induction vs with
  | nil =>
    intro fuel acc last tail hl _ _ hf
    obtain ⟨f, rfl⟩ : ∃ f, fuel = f + 1 := ⟨fuel - 1, by simp at hf; omega⟩
    unfold planeLine
    rw [if_pos (by simpa using hl)]
    simp [encodeRow]
  | cons v vs ih =>
    intro fuel acc last tail hl hv hab hf
    simp only [List.length_cons] at hl hf
    obtain ⟨f, rfl⟩ : ∃ f, fuel = f + 1 := ⟨fuel - 1, by omega⟩
    unfold planeLine
    rw [if_neg (by omega), if_neg (by omega)]
    simp only [encodeRow, List.cons_append, ctrlLens_16]
    rw [if_neg (by simp)]
    simp only [List.take_succ_cons, List.take_zero, List.map_cons, List.map_nil, List.drop_succ_cons,
      List.drop_zero, rawsGo, runGo]
    have hv0 : v < 256 := hv v (by simp)
    first
      | rw [emit_enc_none acc v hv0]
      | rw [emit_enc_some _ acc v hv0 (hab _ rfl _)]
    have key := fun l => ih f (acc ++ [v]) l tail (by simp; omega) (fun u hu => hv u (by simp [hu])) hab (by omega)
    simp only [List.length_append, List.length_singleton, List.append_assoc, List.singleton_append] at key
    exact key _)


/-- a plane: `h` scanlines of `w` byte values -/
def PlaneOk (w h : Nat) (rows : List (List Nat)) : Prop :=
  rows.length = h ∧ ∀ row, row ∈ rows → row.length = w ∧ ∀ v, v ∈ row → v < 256

theorem getD_lt_of_all {row : List Nat} (hr : ∀ v, v ∈ row → v < 256) (j : Nat) : row.getD j 0 < 256 := by
  rw [List.getD_eq_getElem?_getD]
  cases h : row[j]? with
  | none => simp
  | some v => simpa using hr v (List.mem_of_getElem? h)

theorem planeRowsRef_encodeRows (w : Nat) (rows : List (List Nat)) :
    ∀ (above : Option (List Nat)) (acc : List (List Nat)) (tail : Bytes),
      (∀ row, row ∈ rows → row.length = w ∧ ∀ v, v ∈ row → v < 256) →
      (∀ ab, above = some ab → ∀ j, ab.getD j 0 < 256) →
      planeRowsRef w rows.length above acc (encodeRows above rows ++ tail) = some (acc.reverse ++ rows, tail) := by
  induction rows with
  | nil => intro above acc tail _ _; simp [planeRowsRef, encodeRows]
  | cons row rows ih =>
    intro above acc tail hrows hab
    have ⟨hl, hv⟩ := hrows row (by simp)
    simp only [List.length_cons, planeRowsRef, encodeRows, List.append_assoc]
    have := planeLine_encodeRow w above row (((encodeRow above 0 row ++ (encodeRows (some row) rows ++ tail)).length) + w + 2)
      [] 0 (encodeRows (some row) rows ++ tail) (by simpa using hl) hv hab (by omega)
    simp only [List.length_nil, List.nil_append] at this
    rw [this]
    simp only
    rw [ih (some row) (row :: acc) tail (fun r hr => hrows r (by simp [hr]))
      (fun ab h j => by cases h; exact getD_lt_of_all hv j)]
    simp

/-- **Every image has a conformant planar encoding**, and the reference decoder inverts
    the reference encoder on it. -/
theorem planarDecode_encode (w h : Nat) (a r g b : List (List Nat))
    (ha : PlaneOk w h a) (hr : PlaneOk w h r) (hg : PlaneOk w h g) (hb : PlaneOk w h b) :
    planarDecode w h (planarEncode a r g b) = some (a, r, g, b) := by
  unfold planarDecode planarEncode
  simp only [ne_eq, not_true_eq_false, if_false]
  have e1 := planeRowsRef_encodeRows w a none [] (encodeRows none r ++ encodeRows none g ++ encodeRows none b) ha.2 (by simp)
  have e2 := planeRowsRef_encodeRows w r none [] (encodeRows none g ++ encodeRows none b) hr.2 (by simp)
  have e3 := planeRowsRef_encodeRows w g none [] (encodeRows none b) hg.2 (by simp)
  have e4 := planeRowsRef_encodeRows w b none [] [] hb.2 (by simp)
  rw [ha.1] at e1; rw [hr.1] at e2; rw [hg.1] at e3; rw [hb.1] at e4
  simp only [List.append_assoc, List.reverse_nil, List.nil_append, List.append_nil] at e1 e2 e3 e4 ⊢
  rw [e1, Option.bind_some]
  simp only
  rw [e2, Option.bind_some]
  simp only
  rw [e3, Option.bind_some]
  simp only
  rw [e4, Option.bind_some]

end Rdp.Spec.Bitmap
